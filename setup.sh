#!/bin/sh
# Build the Coq development from files on disk only (offline). Run once after a fresh restore.
set -e
cd "$(dirname "$0")"
export PYTHONPATH=/repo:/verif PYTHONHASHSEED=0 PYTHONDONTWRITEBYTECODE=1
mkdir -p build evidence
/venv/bin/python -m harness.gen_tables
for g in harness/gen_*.py; do
  m=$(basename "$g" .py)
  [ "$m" = "gen_tables" ] || /venv/bin/python -m harness.$m || true
done
cd coq
coq_makefile -f _CoqProject -o Makefile >/dev/null
timeout 3000 make -j16
