#!/bin/bash
# verify each seeded change in its scratch worktree and copy it to /verif/seeded/<id>_<A|B>/
set -u
for P in ${PROPS:-C01 C02 C03 C04 C05 C06 C07 C08 C09 C10 C11 C12 C13 C14 C15 C16 C17 C18 C19 C20}; do
 for m in A; do n=S
  src=/tmp/mut10/$P/out/$m; wt=/tmp/mut10/$P
  [ -f $src/patch.diff ] || { echo "$P/$m: no patch"; continue; }
  cd $wt && git checkout -q -- . 2>/dev/null
  base_demo=$(PYTHONPATH=$wt timeout 300 /venv/bin/python $src/demo.py >/dev/null 2>&1; echo $?)
  git apply $src/patch.diff || { echo "$P/$m: patch does not apply"; continue; }
  tests=$(PYTHONPATH=$wt timeout 600 /venv/bin/python -m pytest -q -p no:cacheprovider 2>&1 | tail -1)
  mut_demo=$(PYTHONPATH=$wt timeout 300 /venv/bin/python $src/demo.py >/dev/null 2>&1; echo $?)
  git checkout -q -- .
  ok=no; case "$tests" in *"48 passed"*) [ "$base_demo" = 0 ] && [ "$mut_demo" != 0 ] && ok=yes;; esac
  echo "$P/$m: tests='$tests' demo_unpatched=$base_demo demo_patched=$mut_demo keep=$ok"
  if [ $ok = yes ]; then
    d=/verif/seeded/${P}_$n; mkdir -p $d
    cp $src/patch.diff $src/demo.py $d/
    python3 - "$src/meta.json" "$d/meta.json" "$tests" "$base_demo" "$mut_demo" <<'PY'
import json,sys
try: m=json.load(open(sys.argv[1]))
except Exception: m={}
m["verified_by_main"]={"tests_with_patch":sys.argv[3],"demo_exit_unpatched":int(sys.argv[4]),"demo_exit_patched":int(sys.argv[5]),
  "how":"git apply in a scratch worktree of /repo HEAD under /tmp/mut10; pytest -q -p no:cacheprovider; demo.py with PYTHONPATH=<worktree>"}
json.dump(m,open(sys.argv[2],"w"),indent=1)
PY
  fi
 done
done
