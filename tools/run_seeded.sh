#!/bin/bash
# apply each seeded change to /repo, run the quick check of its property, undo; write seeded/RESULTS.md
cd /verif
out=${SEEDED_OUT:-seeded/RESULTS.md}
echo "| seeded change | property | caught by quick check | first lines |" > $out
echo "|---|---|---|---|" >> $out
for d in ${SEEDED_GLOB:-seeded/C??_?}; do
  id=$(basename $d); P=${id%_*}
  git -C /repo apply /verif/$d/patch.diff || { echo "| $id | $P | PATCH-FAILED | |" >> $out; continue; }
  res=$(./check $P 2>/dev/null | head -2 | tr '\n' ' ' | cut -c1-260 | tr '|' '/')
  rc=$(echo "$res" | grep -c VIOLATION)
  rp=$(echo "$res" | grep -o 'replay=[^ ]*' | head -1 | cut -d= -f2)
  if [ -n "$rp" ] && [ -f "$rp" ]; then
    mkdir -p corpus/$P
    python3 - "$rp" "corpus/$P/$id.json" <<'PY'
import json,sys
r=json.load(open(sys.argv[1]))
c=r.get("case")
if c is not None and r.get("kind")=="failing-input":
    c.pop("_corpus",None)
    json.dump(c,open(sys.argv[2],"w"))
PY
  fi
  git -C /repo checkout -- .
  echo "| $id | $P | $([ $rc -gt 0 ] && echo yes || echo NO) | $res |" >> $out
  echo "$id: $([ $rc -gt 0 ] && echo caught || echo MISSED)"
done
git -C /repo status --short | grep -v npy | head
# leave the generated Coq files in the state of the clean tree (a seeded change may have turned one into a fail-closed stub)
PYTHONPATH=/repo:/verif /venv/bin/python -m harness.gen_tables >/dev/null; PYTHONPATH=/repo:/verif /venv/bin/python -m harness.gen_lif >/dev/null; PYTHONPATH=/repo:/verif /venv/bin/python -m harness.gen_evloop >/dev/null
