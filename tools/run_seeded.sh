#!/bin/bash
# apply each seeded change to /repo, run the quick check of its property, undo; write seeded/RESULTS.md
cd /verif
out=seeded/RESULTS.md
echo "| seeded change | property | caught by quick check | first lines |" > $out
echo "|---|---|---|---|" >> $out
for d in seeded/C??_?; do
  id=$(basename $d); P=${id%_*}
  git -C /repo apply $d/patch.diff || { echo "| $id | $P | PATCH-FAILED | |" >> $out; continue; }
  res=$(./check $P 2>&1 | grep -v Warning | head -2 | tr '\n' ' ' | cut -c1-260 | tr '|' '/')
  rc=$(echo "$res" | grep -c VIOLATION)
  git -C /repo checkout -- .
  echo "| $id | $P | $([ $rc -gt 0 ] && echo yes || echo NO) | $res |" >> $out
  echo "$id: $([ $rc -gt 0 ] && echo caught || echo MISSED)"
done
git -C /repo status --short | grep -v npy | head
