#!/bin/bash
# run every quick (or $1=thorough) check on the current /repo tree
cd "$(dirname "$0")/.."
tier=${1:-quick}
for i in 01 02 03 04 05 06 07 08 09 10 11 12 13 14 15 16 17 18 19 20; do
  s=$(date +%s)
  ./check C$i --tier $tier 2>&1 | grep -v "Warning\|warn" | head -3
  echo "   [C$i rc=${PIPESTATUS[0]} $(( $(date +%s) - s ))s]"
done
