#!/bin/bash
# apply each harmless refactor to /repo and run the quick checks of the properties it touches (+ all if $1=all)
cd /verif
declare -A T=( [01]="C08 C09 C10 C12 C14" [02]="C11 C12" [03]="C09 C17 C08" [04]="C06 C08 C14 C10" [05]="C08 C10 C07 C12"
               [06]="C12 C10 C01" [07]="C01 C02 C03 C16 C15" [08]="C01 C04 C16 C18" [09]="C13 C18 C01" [10]="C19 C05 C01"
               [11]="C06 C08 C04" [12]="C20"
               [13]="C19 C06 C01" [14]="C19 C05 C13" [15]="C05 C19" [16]="C07 C13 C08" [17]="C06 C08 C18" [18]="C07 C04 C11 C08"
               [19]="C13 C18 C03 C01" [20]="C08 C10 C14 C06 C07" [21]="C10 C12 C08" [22]="C01 C03 C16 C15 C17" [23]="C20" [24]="C20" )
for n in ${BENIGN_LIST:-01 02 03 04 05 06 07 08 09 10 11 12 13 14 15 16 17 18 19 20 21 22 23 24}; do
  git -C /repo apply /verif/benign/$n/patch.diff || { echo "$n: PATCH FAILED"; continue; }
  props="${T[$n]}"; [ "$1" = all ] && props="C01 C02 C03 C04 C05 C06 C07 C08 C09 C10 C11 C12 C13 C14 C15 C16 C17 C18 C19 C20"
  for P in $props; do
    r=$(./check $P 2>/dev/null | head -3 | tr '\n' ' ' | cut -c1-400)
    case "$r" in OK*) echo "benign $n $P ok";; *) echo "benign $n $P ALARM: $r";; esac
  done
  git -C /repo checkout -- .
done
