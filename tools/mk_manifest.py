#!/usr/bin/env python3
"""Write MANIFEST.json from the table below; a property is claimed iff harness/props/<id>.py exists."""
import json
import os

ROOT = os.path.dirname(os.path.dirname(os.path.abspath(__file__)))

COMMON_NOTE = ("Trusted: Coq 8.16.1 kernel + vm_compute; hand-written Gallina model tied to /repo by the "
               "differential correspondence run (model evaluated inside coqc on the inputs the real code ran on) "
               "and by tables regenerated from the live package (Gen/Tables.v); Python emitters; numpy/h5py/CPython "
               "are modelled, not verified. ")

P = {
 "C01": dict(tech="Coq proof (file round-trip theorem over an abstract HDF5 tree model, nested induction) + write/read correspondence + strict comparator oracle",
             text="Theorem c01_file_round_trip: for every node built by the constructors (graphs of any depth) that write accepts, read(write g) succeeds and is equivalent to g (kinds, fields, arrays of rank>=1 identical, edges equal, children recursively, types equal), under the stated round-trip domain; model pinned to code by write/read correspondence on random graphs over all 17 primitives.",
             note="h5py/libhdf5 behind store laws A1-A5 (validated by the run, not proved)", ref="6 C01"),
 "C02": dict(tech="Coq proof (array fields pass through to_dict/write/read/from_dict untouched) + byte-level oracle over dtype x layout x value classes",
             text="Theorem: no branch of NIR's own code converts an ndarray (identical dtype/shape/token); partial by nature: byte fidelity inside numpy/h5py/libhdf5 is assumption A1, exercised by the run.",
             note="partial: libhdf5 conversions cannot be exhibited by the model", ref="6 C02"),
 "C03": dict(tech="Coq proof (writer output = independent reference encoder) + raw h5py traversal correspondence",
             text="Theorem: the generic dictionary walk produces exactly the tree of the per-primitive reference encoder written from the docs; raw traversal of written files compared with both.",
             note="h5py behind A1-A4", ref="6 C03"),
 "C04": dict(tech="Coq proof (reader invariant under encoding variants) + independent raw-h5py encoder sweep + shipped artefacts",
             text="Theorem: read is invariant under string encoding, integer width, member order and omission of the listed optional fields; chunking/compression/track_order only exercised by the run.",
             note="partial: physical layout below h5py API not modelled", ref="6 C04"),
 "C05": dict(tech="Coq proof (constructed types = declarative shape semantics) + correspondence + numpy-evaluated oracle",
             text="Theorems: Affine/Linear types equal the batched mat-vec shape rule, element-wise primitives the parameter shape, Input/Output mirror; for all ranks and sizes; model pinned by construction correspondence on all primitives.",
             note="", ref="6 C05"),
 "C06": dict(tech="Coq proof (closed formula = number of fitting kernel positions, all Z) + correspondence + brute-force oracle",
             text="Theorems: floor formula equals the count of positions at which the dilated kernel fits the padded input, uniqueness by two inequalities, 'valid'=0 padding, 'same' keeps size, scalar/tuple/array forms interchangeable; for every size (unbounded Z).",
             note="", ref="6 C06"),
 "C07": dict(tech="Coq proof (Python-slice model of calc_flatten_output = merge spec, product preserved) + correspondence + reshape oracle",
             text="Theorems: for every rank>=1 shape and valid (start,end) incl. negative indices the code's slicing logic yields the merged shape; element count preserved; constructor, inference and utility agree.",
             note="np.prod int64 wrap outside the claim", ref="6 C07"),
 "C08": dict(tech="Coq proof (inference invariant over the work-list schedule) + correspondence + independent forward shape oracle",
             text="Theorems c08_infer_restores / c08_infer_then_check: on a consistent graph with any subset of erasable annotations erased, inference returns normally, every child reachable from an Input carries exactly the truth and the type check passes; DFS completeness of the work-list on every graph; model pinned by inference correspondence on random consistent graphs with erasure subsets.",
             note="", ref="6 C08"),
 "C09": dict(tech="Coq proof (check_types = Ok true <-> every edge consistent; never Ok false) + correspondence + direct oracle",
             text="Theorems: soundness and completeness of the per-edge check by induction over the edge list, permutation invariance, and invariance under every injective renaming of the nodes (names are opaque); model pinned on graphs with assigned defined/undefined types.",
             note="single-port leaf graphs as in the property", ref="6 C09"),
 "C10": dict(tech="Coq proof (termination with a concrete quadratic fuel bound; frame, untouched and idempotence theorems) + correspondence + snapshot oracle with wall-clock guard",
             text="Theorems: the work-list loop terminates on every multigraph within the concrete fuel the model runs with; only annotations change; names/kinds/edges/metadata/order preserved; a child unreachable from every Input is left exactly as it was; inference commutes with every injective renaming of the nodes; a second run changes nothing (two proved forms bracketing a container-only counterexample kept in the development).",
             note="CPython wall-clock and array bytes observed by harness only", ref="6 C10"),
 "C11": dict(tech="Coq proof (from_list = path graph, naming scheme, NoDup names) + correspondence + direct oracle",
             text="Theorems about the model of from_list: node order and identity positions, naming scheme with counters, chain edges; class-name side conditions checked on the regenerated table.",
             note="", ref="6 C11"),
 "C12": dict(tech="Coq proof (mirror invariant preserved by every operation) + correspondence over operation histories + scan oracle",
             text="Theorem: graph-level types mirror the Input/Output children after construction and after infer_types (also when it raises), by induction over operation lists.",
             note="", ref="6 C12"),
 "C13": dict(tech="Coq proof (from_dict . to_dict round trip for graphs of any depth; keys = documented fields; object-identity model of to_dict: every identity of the dictionary is fresh, independence under every in-place mutation) + value and sharing-pattern correspondence + alias-matrix / mutate-and-compare oracle on the code",
             text="Theorem c13_round_trip: from_dict(to_dict n) is the same node with identical value types at every depth; second round trip is the identity; keys are the documented fields plus type. Independence: on the object-identity model (Model/Alias.v: dataclasses.asdict + class-specific entries with an allocator of fresh identities) c13_dict_is_fresh / c13_shares_nothing / c13_dict_unaffected_by_graph_mutation / c13_graph_unaffected_by_dict_mutation / c13_two_dicts_independent: no in-place change of any object (array memory, list, dict, node) of the graph is visible in the dictionary and vice versa; the model is tied to the code by comparing the sharing pattern (first-occurrence numbering of id() / memory owner) of g and g.to_dict() with the pattern the model computes.",
             note="identity model tied behaviourally (sharing pattern); graphs with node objects inside metadata are decided by the oracle only", ref="6 C13, 11.9"),
 "C14": dict(tech="Coq proof (inference respects the relation serialisation introduces; commutes with file and dictionary round trips) + interleaving correspondence",
             text="Theorems c14_infer_commutes_with_file / _with_dict / c14_infer_respects_relation: inference on the graph read back (or rebuilt from its dictionary) is related child by child to inference on the original and the type check gives the same verdict; Conv1d/Conv2d regain their types from the fields inference left behind; all interleavings up to length 4 run on the code.",
             note="", ref="6 C14"),
 "C15": dict(tech="Coq proof (last-writer-wins over filesystem model) + real-filesystem history oracle (fd/sha/rename)",
             text="Theorem: in the path->tree model every read returns the last written graph for any history; truncation/handle hygiene are OS/libhdf5 behaviour observed by the harness.",
             note="partial: OS and libhdf5 behaviour not exhibitable in the model", ref="6 C15"),
 "C16": dict(tech="Coq proof (metadata round trip; write commutes with stripping metadata; types ignore metadata) + tree-diff oracle",
             text="Theorems: metadata trees are carried by write/read; everything outside */metadata is independent of metadata; constructors, check and inference ignore it.",
             note="", ref="6 C16"),
 "C17": dict(tech="Coq proof (observers read only types / dictionary; filters return sub-lists; to_dict allocates only; separate reads are relocations with disjoint identities) + deep-snapshot oracle incl. failing observers",
             text="Theorems: the observers of the model depend only on what they should read (types only, dictionary only, never the cache) and return sub-lists; on the object-identity model (Model/Alias.v) to_dict returns only newly allocated objects (c17_to_dict_allocates_only) and two separate reads are independent under every in-place mutation (c17_separate_reads_independent; tied to the code by the C13Reads sharing-pattern cases of the C13 check); the frame condition of the remaining observers on the code is decided by deep snapshots (bytes, node ids, order) around each observer, failing paths included.",
             note="frame condition of CPython code tied behaviourally", ref="6 C17"),
 "C18": dict(tech="Coq proof (closed world over regenerated whitelist table; strict field binding) + type-string/field mutation sweep",
             text="Theorems: dict2node succeeds only for whitelisted names bound to their own dataclass (checked by computation on the table regenerated from the source); unknown keys and missing mandatory fields raise.",
             note="python -O outside the quantifier", ref="6 C18"),
 "C19": dict(tech="Coq proof (constructor accepts iff well-formed) + exhaustive small-shape correspondence + broadcast oracle",
             text="Theorems: neuron constructors succeed iff all parameter shapes are equal (CubaLIF: and w_in broadcasts to it), Affine/Linear iff rank>=2, padding strings iff same/valid; errors build nothing.",
             note="", ref="6 C19"),
 "C20": dict(tech="Coq proof over R (Reals/Coquelicot) of formulas TRANSLATED from the Python AST + generic event-loop model (Q, exact correspondence with the real loop) + numeric metamorphic oracle",
             text="Theorems about the translated closed forms: zero step, semigroup, ODE solution, limit, spike time = first threshold crossing, CubaLIF step = explicit Euler; loop-level theorems: spike times and recorded voltages of the event loop do not depend on the recording interval for any neuron satisfying the three flow laws.",
             note="floating-point rounding not modelled; real-number axioms of the stdlib", ref="6 C20"),
}


def main():
    checks, na = [], []
    for i in range(1, 21):
        pid = f"C{i:02d}"
        info = P[pid]
        if os.path.exists(os.path.join(ROOT, "harness", "props", pid.lower() + ".py")):
            checks.append({
                "property_id": pid,
                "quick_cmd": f"./check {pid} --tier quick",
                "thorough_cmd": f"./check {pid} --tier thorough",
                "evidence_file": f"/verif/evidence/{pid}.json",
                "replay_cmd_template": f"./check {pid} --replay {{path}}",
                "engine": "coq-model+correspondence",
                "level_claimed": {"category": "proof", "text": info["text"], "design_ref": "DESIGN.md section 11.4 (status as built) and section " + info["ref"]},
                "level_note": COMMON_NOTE + info["note"],
                "technique": info["tech"],
            })
        else:
            na.append({"property_id": pid,
                       "reason": "not claimed yet: the check for this property is not built at this commit (work in progress; Coq proof is applicable, see DESIGN.md)"})
    m = {
        "version": 1,
        "setup_cmd": "./setup.sh",
        "hooks": {"guard": "NIR_VERIF", "enable": "no hooks: everything is observed from outside through the public API (PYTHONPATH=/repo)",
                  "baseline_off_cmd": "cd /repo && /venv/bin/python -m pytest -ra -q -p no:cacheprovider --timeout=900 --continue-on-collection-errors",
                  "source_commits": [], "add_only": True},
        "engines": [{"name": "coq-model+correspondence", "path": "/verif/coq, /verif/harness",
                     "serves_properties": [c["property_id"] for c in checks],
                     "kind_free_text": "Coq 8.16.1 development (executable Gallina model + theorems) with a Python differential harness that evaluates the model inside coqc on the inputs the implementation ran on"}],
        "checks": checks,
        "notes": "Single entry point ./check <ID>; exit 0 ok, 1 VIOLATION, 2 machinery failure. Defects of the pinned tree repaired by fix: commits are listed in KNOWN_FINDINGS.txt.",
        "not_applicable": na,
    }
    json.dump(m, open(os.path.join(ROOT, "MANIFEST.json"), "w"), indent=1)
    print(f"MANIFEST.json: {len(checks)} checks, {len(na)} not claimed")


if __name__ == "__main__":
    main()
