(* Corr/C07.v — correspondence cases for C07 (Flatten shape arithmetic) *)
From NIR Require Export Corr.Obs.

Inductive c07_case :=
| FlatUtil (sh : list Z) (s e : Z) (obs : result (list Z))   (* calc_flatten_output *)
| FlatG (c : gcase).

Definition c07_check (c : c07_case) : bool :=
  match c with
  | FlatUtil sh s e obs => res_agree shape_eqb (Ok (flatten_out sh s e)) obs
  | FlatG g => gcheck g
  end.
