(* Corr/CNodes.v — correspondence cases made only of generic cases (C05, C19, C08, C09, C10, ...) *)
From NIR Require Export Corr.Obs.
Definition g_case := gcase.
Definition g_check := gcheck.
