(* Corr/C13.v — correspondence cases for C13: the generic cases (values: to_dict / from_dict) and the object-identity
   cases (Model/Alias.v): the sharing pattern observed on the real graph and the real dictionary against the pattern the
   identity model computes; and, for C17, the pattern of two separate reads of one file. *)
From NIR Require Export Corr.Obs Model.Alias.

Inductive c13_case :=
| C13G (c : gcase)
| C13Alias (g : obj) (observed : list Z)        (* walk of g, then of g.to_dict() (keys sorted), first-occurrence numbers *)
| C13Reads (skeleton : obj) (observed : list Z). (* walk of nir.read(f), then of a second nir.read(f) *)

Definition c13_check (c : c13_case) : bool :=
  match c with
  | C13G g => gcheck g
  | C13Alias g obs => alias_check g obs
  | C13Reads s obs => reads_check s obs
  end.

(* for --debug: the generic part of a case *)
Definition c13_unwrap (c : c13_case) : gcase :=
  match c with
  | C13G g => g
  | _ => CFromDict VNone (Err TypeError)
  end.
