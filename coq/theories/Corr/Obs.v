(* Obs.v — vocabulary of the correspondence check: recipes (how the harness built a node with
   the real library), evaluation of a recipe in the model, and comparison of what the model
   computes with what the implementation was observed to hold. *)
From NIR Require Export Model.Serial.

Inductive nexpr :=
| NCons (k : kind) (args : list (string * pval))
| NTyped (e : nexpr) (tin tout : ty)     (* node.input_type = ...; node.output_type = ... *)
| NGraph (children : list (string * nexpr)) (edges : list (string * string)) (meta : pval).

Definition set_types (n : node) (tin tout : ty) : node :=
  match n with Leaf k f _ _ => Leaf k f tin tout | g => g end.

Fixpoint eval (e : nexpr) : result node :=
  match e with
  | NCons k args => construct k args
  | NTyped e' tin tout => do n <- eval e'; Ok (set_types n tin tout)
  | NGraph ch es meta =>
    do ch' <- (fix go (l : list (string * nexpr)) : result (list (string * node)) :=
                 match l with
                 | [] => Ok []
                 | (k, x) :: r => do n <- eval x; do rest <- go r; Ok ((k, n) :: rest)
                 end) ch;
    Ok (mk_graph ch' es meta)
  end.

(* ---- comparison of values: "as numbers and arrays" ------------------------------------------ *)
(* Two values agree when
   - both are arrays / numpy scalars with a real content token: identical dtype, shape, token;
   - otherwise, when both denote integers: the same integer(s) (container, numpy-ness, width ignored);
   - a derived array (token -1: the model cannot digest its bytes) matches on shape;
   - text matches text whether str or bytes; tuples/lists elementwise; dicts as maps (key order
     ignored: HDF5 returns members in name order). *)
Definition real_token (v : pval) : option (string * list Z * Z) :=
  match v with
  | VArr d s t _ => if t =? -1 then None else Some (d, s, t)
  | VNp d t _ => if t =? -1 then None else Some (d, [], t)
  | _ => None
  end.

Definition is_scalar_like (v : pval) : bool :=
  match v with
  | VArr _ [] _ _ | VNp _ _ _ | VFloat _ | VInt _ | VBool _ => true
  | _ => false
  end.

Fixpoint val_agree (a b : pval) {struct a} : bool :=
  match real_token a, real_token b with
  | Some (d1, s1, t1), Some (d2, s2, t2) => String.eqb d1 d2 && shape_eqb s1 s2 && (t1 =? t2)
  | _, _ =>
    match num_view a, num_view b with
    | Some x, Some y => numv_eqb x y
    | _, _ =>
      match a, b with
      | VFloat x, VFloat y => x =? y
      | VArr _ s1 _ _, VArr _ s2 _ _ => shape_eqb s1 s2
      | VStr x, VStr y | VStr x, VBytes y | VBytes x, VStr y | VBytes x, VBytes y => String.eqb x y
      | VTuple l1, VTuple l2 | VList l1, VList l2 | VTuple l1, VList l2 | VList l1, VTuple l2 =>
          (fix go (l1 l2 : list pval) : bool :=
             match l1, l2 with
             | [], [] => true
             | x :: r1, y :: r2 => val_agree x y && go r1 r2
             | _, _ => false
             end) l1 l2
      | VDict l1, VDict l2 =>
          Nat.eqb (length l1) (length l2) &&
          (fix go (l1 : list (string * pval)) : bool :=
             match l1 with
             | [] => true
             | (k1, x) :: r1 =>
               match assoc k1 l2 with Some y => val_agree x y | None => false end && go r1
             end) l1
      | VNone, VNone => true
      | _, _ => is_scalar_like a && is_scalar_like b
      end
    end
  end.

Definition fields_agree (a b : list (string * pval)) : bool :=
  list_eqb (fun p q => String.eqb (fst p) (fst q) && val_agree (snd p) (snd q)) a b.

Definition gty_eqb (a b : option (list (string * ty))) : bool :=
  option_eqb (list_eqb (fun p q => String.eqb (fst p) (fst q) && ty_eqb (snd p) (snd q))) a b.

Definition edges_eqb (a b : list (string * string)) : bool :=
  list_eqb (fun p q => String.eqb (fst p) (fst q) && String.eqb (snd p) (snd q)) a b.

(* full comparison: kinds, fields, both types, children in order, edges in order *)
Fixpoint node_agree (a b : node) {struct a} : bool :=
  match a, b with
  | Leaf k1 f1 i1 o1, Leaf k2 f2 i2 o2 =>
      kind_eqb k1 k2 && fields_agree f1 f2 && ty_eqb i1 i2 && ty_eqb o1 o2
  | Graph c1 e1 i1 o1 m1, Graph c2 e2 i2 o2 m2 =>
      (fix go (l1 l2 : list (string * node)) : bool :=
         match l1, l2 with
         | [], [] => true
         | (k1, x) :: r1, (k2, y) :: r2 => String.eqb k1 k2 && node_agree x y && go r1 r2
         | _, _ => false
         end) c1 c2
      && edges_eqb e1 e2 && gty_eqb i1 i2 && gty_eqb o1 o2 && val_agree m1 m2
  | _, _ => false
  end.

(* only the two types *)
Definition types_agree (a b : node) : bool :=
  match a, b with
  | Leaf _ _ i1 o1, Leaf _ _ i2 o2 => ty_eqb i1 i2 && ty_eqb o1 o2
  | Graph _ _ i1 o1 _, Graph _ _ i2 o2 _ => gty_eqb i1 i2 && gty_eqb o1 o2
  | _, _ => false
  end.

(* result comparison: both raised, or both returned values that agree *)
Definition res_agree {A} (f : A -> A -> bool) (model observed : result A) : bool :=
  match model, observed with
  | Ok a, Ok b => f a b
  | Err _, Err _ => true
  | _, _ => false
  end.

Fixpoint bad_from {A} (f : A -> bool) (l : list A) (i : nat) : list nat :=
  match l with
  | [] => []
  | x :: r => if f x then bad_from f r (S i) else i :: bad_from f r (S i)
  end.
Definition bad_indices {A} (f : A -> bool) (l : list A) : list nat := bad_from f l 0.

(* order-insensitive comparison for graphs that went through a file (children come back in HDF5
   name order): children and graph-level types compared as maps *)
Definition gty_equiv (a b : option (list (string * ty))) : bool :=
  match a, b with
  | None, None => true
  | Some x, Some y =>
    Nat.eqb (length x) (length y) &&
    forallb (fun p => match assoc (fst p) y with Some t => ty_eqb (snd p) t | None => false end) x
  | _, _ => false
  end.

Fixpoint node_equiv (a b : node) {struct a} : bool :=
  match a, b with
  | Leaf k1 f1 i1 o1, Leaf k2 f2 i2 o2 =>
      kind_eqb k1 k2 && val_agree (VDict f1) (VDict f2) && ty_eqb i1 i2 && ty_eqb o1 o2
  | Graph c1 e1 i1 o1 m1, Graph c2 e2 i2 o2 m2 =>
      Nat.eqb (length c1) (length c2) &&
      (fix go (l1 : list (string * node)) : bool :=
         match l1 with
         | [] => true
         | (k1, x) :: r1 =>
           match assoc k1 c2 with Some y => node_equiv x y | None => false end && go r1
         end) c1
      && edges_eqb e1 e2 && gty_equiv i1 i2 && gty_equiv o1 o2 && val_agree m1 m2
  | _, _ => false
  end.

Fixpoint h5_agree (a b : h5) {struct a} : bool :=
  match a, b with
  | H5Group m1, H5Group m2 =>
      Nat.eqb (length m1) (length m2) &&
      (fix go (l1 : list (string * h5)) : bool :=
         match l1 with
         | [] => true
         | (k1, x) :: r1 =>
           match assoc k1 m2 with Some y => h5_agree x y | None => false end && go r1
         end) m1
  | H5Str e1 s1, H5Str e2 s2 => String.eqb e1 e2 && String.eqb s1 s2
  | H5Data v1, H5Data v2 =>
      val_agree v1 v2 &&
      match v1, v2 with     (* datasets must agree on dtype and shape even when the content is derived *)
      | VArr d1 s1 _ _, VArr d2 s2 _ _ => (String.eqb d1 d2 || String.eqb d1 "?" || String.eqb d2 "?") && shape_eqb s1 s2
      | _, _ => true
      end
  | H5Strs e1 r1, H5Strs e2 r2 => String.eqb e1 e2 && list_eqb (list_eqb String.eqb) r1 r2
  | _, _ => false
  end.

(* frame comparison for inference on arbitrary (possibly inconsistent) graphs: which type wins on an
   inconsistent edge depends on the scheduling order, which no property constrains; what C10/C12 constrain is the
   frame: names, order, kinds, every field other than a Conv's input_shape, edges, metadata — and which
   types are defined afterwards (compared only when neither run raised) *)
Definition ty_defined (t : ty) : bool := negb (ty_undef t).

Definition fields_frame_agree (a b : list (string * pval)) : bool :=
  val_agree (VDict (assoc_del "input_shape" a)) (VDict (assoc_del "input_shape" b)).

Fixpoint node_frame_agree (types_too : bool) (a b : node) {struct a} : bool :=
  match a, b with
  | Leaf k1 f1 i1 o1, Leaf k2 f2 i2 o2 =>
      kind_eqb k1 k2 && fields_frame_agree f1 f2 &&
      (negb types_too || (Bool.eqb (ty_defined i1) (ty_defined i2) && Bool.eqb (ty_defined o1) (ty_defined o2)))
  | Graph c1 e1 _ _ m1, Graph c2 e2 _ _ m2 =>
      (fix go (l1 l2 : list (string * node)) : bool :=
         match l1, l2 with
         | [], [] => true
         | (k1, x) :: r1, (k2, y) :: r2 => String.eqb k1 k2 && node_frame_agree types_too x y && go r1 r2
         | _, _ => false
         end) c1 c2
      && edges_eqb e1 e2 && val_agree m1 m2
  | _, _ => false
  end.

(* ---- generic cases shared by several properties ------------------------------------------------ *)
Definition raised (o : outcome) : bool := match o with Finished => false | Raised _ => true end.

Inductive op := OInfer | ODict | OFile.

Definition apply_op (o : op) (g : node) : result node :=
  match o with
  | OInfer => let '(g', oc) := infer_types g in
              match oc with Finished => Ok g' | Raised e => Err e end
  | ODict => from_dict (to_dict g)
  | OFile => do t <- write g; read t
  end.

Fixpoint apply_ops (ops : list op) (g : node) : result node :=
  match ops with
  | [] => Ok g
  | o :: r => do g' <- apply_op o g; apply_ops r g'
  end.

Inductive gcase :=
| CBuild (e : nexpr) (obs : result node)            (* build with the constructors *)
| CInfer (e : nexpr) (obs : result (node * bool))   (* build, infer_types(): graph after, raised? *)
| CInfer2 (e : nexpr) (obs : result (node * bool))  (* ... twice *)
| CInferFrame (twice : bool) (e : nexpr) (obs : result (node * bool))  (* frame only, see node_frame_agree *)
| CCheck (e : nexpr) (obs : result bool)            (* build, _check_types(): True / raised *)
| CFromList (es : list nexpr) (obs : result node)   (* NIRGraph.from_list(nodes...) *)
| COps (e : nexpr) (ops : list op) (obs : result node)   (* build, then a history of operations *)
| CToDict (e : nexpr) (obs : result pval)           (* build, to_dict() *)
| CWrite (e : nexpr) (obs : result h5)              (* build, nir.write: raw tree of the file *)
| CFromDict (d : pval) (obs : result node)          (* nir.dict2NIRNode(d) *)
| CRead (t : h5) (obs : result node).               (* nir.read of a hand-encoded file *)

Definition gcheck (c : gcase) : bool :=
  match c with
  | CBuild e obs => res_agree node_agree (eval e) obs
  | CInfer e obs =>
      res_agree (fun a b => node_agree (fst a) (fst b) && Bool.eqb (snd a) (snd b))
        (do g <- eval e; let '(g', oc) := infer_types g in Ok (g', raised oc)) obs
  | CInfer2 e obs =>
      res_agree (fun a b => node_agree (fst a) (fst b) && Bool.eqb (snd a) (snd b))
        (do g <- eval e; let '(g1, _) := infer_types g in
         let '(g2, oc) := infer_types g1 in Ok (g2, raised oc)) obs
  | CInferFrame twice e obs =>
      res_agree (fun a b => node_frame_agree (negb (snd a) && negb (snd b)) (fst a) (fst b))
        (do g <- eval e; let '(g1, oc1) := infer_types g in
         if twice then let '(g2, oc2) := infer_types g1 in Ok (g2, raised oc1 || raised oc2)
         else Ok (g1, raised oc1)) obs
  | CCheck e obs =>
      res_agree Bool.eqb (do g <- eval e; check_types g) obs
  | CFromList es obs =>
      res_agree node_agree (do ns <- mapM eval es; from_list ns) obs
  | COps e ops obs =>
      res_agree node_equiv (do g <- eval e; apply_ops ops g) obs
  | CToDict e obs =>
      res_agree val_agree (do g <- eval e; Ok (VDict (to_dict g))) obs
  | CWrite e obs =>
      res_agree h5_agree (do g <- eval e; write g) obs
  | CFromDict d obs =>
      res_agree node_equiv (match d with VDict l => from_dict l | _ => Err TypeError end) obs
  | CRead t obs =>
      res_agree node_equiv (read t) obs
  end.

(* ---- for diagnostics: what the model computed / what was observed, in one printable type ---- *)
Inductive gres := RNode (r : result node) | RNodeB (r : result (node * bool)) | RBool (r : result bool)
                | RVal (r : result pval) | RH5 (r : result h5).

Definition gmodel (c : gcase) : gres :=
  match c with
  | CBuild e _ => RNode (eval e)
  | CInfer e _ => RNodeB (do g <- eval e; let '(g', oc) := infer_types g in Ok (g', raised oc))
  | CInfer2 e _ => RNodeB (do g <- eval e; let '(g1, _) := infer_types g in
                           let '(g2, oc) := infer_types g1 in Ok (g2, raised oc))
  | CInferFrame twice e _ => RNodeB (do g <- eval e; let '(g1, oc1) := infer_types g in
                           if twice then let '(g2, oc2) := infer_types g1 in Ok (g2, raised oc1 || raised oc2)
                           else Ok (g1, raised oc1))
  | CCheck e _ => RBool (do g <- eval e; check_types g)
  | CFromList es _ => RNode (do ns <- mapM eval es; from_list ns)
  | COps e ops _ => RNode (do g <- eval e; apply_ops ops g)
  | CToDict e _ => RVal (do g <- eval e; Ok (VDict (to_dict g)))
  | CWrite e _ => RH5 (do g <- eval e; write g)
  | CFromDict d _ => RNode (match d with VDict l => from_dict l | _ => Err TypeError end)
  | CRead t _ => RNode (read t)
  end.

Definition gobs (c : gcase) : gres :=
  match c with
  | CBuild _ o | CFromList _ o | COps _ _ o | CFromDict _ o | CRead _ o => RNode o
  | CInfer _ o | CInfer2 _ o | CInferFrame _ _ o => RNodeB o
  | CCheck _ o => RBool o
  | CToDict _ o => RVal o
  | CWrite _ o => RH5 o
  end.
