(* Obs.v — vocabulary of the correspondence check: recipes (how the harness built a node with
   the real library), evaluation of a recipe in the model, and comparison of what the model
   computes with what the implementation was observed to hold. *)
From NIR Require Export Model.Graph.

Inductive nexpr :=
| NCons (k : kind) (args : list (string * pval))
| NTyped (e : nexpr) (tin tout : ty)     (* node.input_type = ...; node.output_type = ... *)
| NGraph (children : list (string * nexpr)) (edges : list (string * string)) (meta : pval).

Definition set_types (n : node) (tin tout : ty) : node :=
  match n with Leaf k f _ _ => Leaf k f tin tout | g => g end.

Fixpoint eval (e : nexpr) : result node :=
  match e with
  | NCons k args => construct k args
  | NTyped e' tin tout => do n <- eval e'; Ok (set_types n tin tout)
  | NGraph ch es meta =>
    do ch' <- (fix go (l : list (string * nexpr)) : result (list (string * node)) :=
                 match l with
                 | [] => Ok []
                 | (k, x) :: r => do n <- eval x; do rest <- go r; Ok ((k, n) :: rest)
                 end) ch;
    Ok (mk_graph ch' es meta)
  end.

(* ---- comparison of values: "as numbers and arrays" ------------------------------------------ *)
(* Two values agree when they denote the same integer(s) (container, numpy-ness and integer
   width ignored), or are structurally equal; arrays must have identical dtype, shape and
   content token; a derived array the model cannot digest (token -1) matches on shape. *)
Fixpoint val_agree (a b : pval) {struct a} : bool :=
  match num_view a, num_view b with
  | Some x, Some y => numv_eqb x y
  | _, _ =>
    match a, b with
    | VArr d1 s1 t1 _, VArr d2 s2 t2 _ =>
        shape_eqb s1 s2 && ((t1 =? -1) || (t2 =? -1) || (String.eqb d1 d2 && (t1 =? t2)))
    (* a 0-d array and a numpy scalar of the same dtype and bytes are the same number *)
    | VArr d1 [] t1 _, VNp d2 t2 _ | VNp d1 t1 _, VArr d2 [] t2 _ =>
        (t1 =? -1) || (t2 =? -1) || (String.eqb d1 d2 && (t1 =? t2))
    | VTuple l1, VTuple l2 | VList l1, VList l2 | VTuple l1, VList l2 | VList l1, VTuple l2 =>
        (fix go (l1 l2 : list pval) : bool :=
           match l1, l2 with
           | [], [] => true
           | x :: r1, y :: r2 => val_agree x y && go r1 r2
           | _, _ => false
           end) l1 l2
    | VDict l1, VDict l2 =>
        (fix go (l1 l2 : list (string * pval)) : bool :=
           match l1, l2 with
           | [], [] => true
           | (k1, x) :: r1, (k2, y) :: r2 => String.eqb k1 k2 && val_agree x y && go r1 r2
           | _, _ => false
           end) l1 l2
    | _, _ => pval_eqb a b
    end
  end.

Definition fields_agree (a b : list (string * pval)) : bool :=
  list_eqb (fun p q => String.eqb (fst p) (fst q) && val_agree (snd p) (snd q)) a b.

Definition gty_eqb (a b : option (list (string * ty))) : bool :=
  option_eqb (list_eqb (fun p q => String.eqb (fst p) (fst q) && ty_eqb (snd p) (snd q))) a b.

Definition edges_eqb (a b : list (string * string)) : bool :=
  list_eqb (fun p q => String.eqb (fst p) (fst q) && String.eqb (snd p) (snd q)) a b.

(* full comparison: kinds, fields, both types, children in order, edges in order *)
Fixpoint node_agree (a b : node) {struct a} : bool :=
  match a, b with
  | Leaf k1 f1 i1 o1, Leaf k2 f2 i2 o2 =>
      kind_eqb k1 k2 && fields_agree f1 f2 && ty_eqb i1 i2 && ty_eqb o1 o2
  | Graph c1 e1 i1 o1 m1, Graph c2 e2 i2 o2 m2 =>
      (fix go (l1 l2 : list (string * node)) : bool :=
         match l1, l2 with
         | [], [] => true
         | (k1, x) :: r1, (k2, y) :: r2 => String.eqb k1 k2 && node_agree x y && go r1 r2
         | _, _ => false
         end) c1 c2
      && edges_eqb e1 e2 && gty_eqb i1 i2 && gty_eqb o1 o2 && val_agree m1 m2
  | _, _ => false
  end.

(* only the two types *)
Definition types_agree (a b : node) : bool :=
  match a, b with
  | Leaf _ _ i1 o1, Leaf _ _ i2 o2 => ty_eqb i1 i2 && ty_eqb o1 o2
  | Graph _ _ i1 o1 _, Graph _ _ i2 o2 _ => gty_eqb i1 i2 && gty_eqb o1 o2
  | _, _ => false
  end.

(* result comparison: both raised, or both returned values that agree *)
Definition res_agree {A} (f : A -> A -> bool) (model observed : result A) : bool :=
  match model, observed with
  | Ok a, Ok b => f a b
  | Err _, Err _ => true
  | _, _ => false
  end.

Fixpoint bad_from {A} (f : A -> bool) (l : list A) (i : nat) : list nat :=
  match l with
  | [] => []
  | x :: r => if f x then bad_from f r (S i) else i :: bad_from f r (S i)
  end.
Definition bad_indices {A} (f : A -> bool) (l : list A) : list nat := bad_from f l 0.

(* ---- generic cases shared by several properties ------------------------------------------------ *)
Definition raised (o : outcome) : bool := match o with Finished => false | Raised _ => true end.

Inductive gcase :=
| CBuild (e : nexpr) (obs : result node)            (* build with the constructors *)
| CInfer (e : nexpr) (obs : result (node * bool))   (* build, infer_types(): graph after, raised? *)
| CInfer2 (e : nexpr) (obs : result (node * bool))  (* ... twice *)
| CCheck (e : nexpr) (obs : result bool)            (* build, _check_types(): True / raised *)
| CFromList (es : list nexpr) (obs : result node).  (* NIRGraph.from_list(nodes...) *)

Definition gcheck (c : gcase) : bool :=
  match c with
  | CBuild e obs => res_agree node_agree (eval e) obs
  | CInfer e obs =>
      res_agree (fun a b => node_agree (fst a) (fst b) && Bool.eqb (snd a) (snd b))
        (do g <- eval e; let '(g', oc) := infer_types g in Ok (g', raised oc)) obs
  | CInfer2 e obs =>
      res_agree (fun a b => node_agree (fst a) (fst b) && Bool.eqb (snd a) (snd b))
        (do g <- eval e; let '(g1, _) := infer_types g in
         let '(g2, oc) := infer_types g1 in Ok (g2, raised oc)) obs
  | CCheck e obs =>
      res_agree Bool.eqb (do g <- eval e; check_types g) obs
  | CFromList es obs =>
      res_agree node_agree (do ns <- mapM eval es; from_list ns) obs
  end.
