(* Corr/C06.v — correspondence cases for C06 (convolution / pooling output shapes) *)
From NIR Require Export Corr.Obs.

Inductive c06_case :=
| ConvUtil (input padding dilation kernel stride : pval) (obs : result (list Z))
| ConvG (c : gcase).

Definition c06_check (c : c06_case) : bool :=
  match c with
  | ConvUtil i p d k s obs =>
      res_agree shape_eqb (conv_out (hp_of i) (hp_of p) (hp_of d) (hp_of k) (hp_of s)) obs
  | ConvG g => gcheck g
  end.
