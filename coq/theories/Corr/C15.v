(* Corr/C15.v — correspondence cases for C15 (a file path as a last-writer-wins register) *)
From NIR Require Export Corr.Obs Model.FS.

Inductive fexp := XWrite (e : nexpr) | XRead | XReadVersion.

Definition fop_of (x : fexp) : fop :=
  match x with XWrite e => FWrite (eval e) | XRead => FRead | XReadVersion => FReadVersion end.

Definition fres_agree (model observed : fres) : bool :=
  match model, observed with
  | RAnything, _ => true
  | RWrote, RWrote | RWriteRaised, RWriteRaised | RReadRaised, RReadRaised
  | RVersionRaised, RVersionRaised => true
  | RGraph a, RGraph b => node_equiv a b
  | RVersion a, RVersion b => String.eqb a b
  | _, _ => false
  end.

Inductive c15_case := Hist (ops : list fexp) (obs : list fres).

Definition c15_check (c : c15_case) : bool :=
  match c with
  | Hist ops obs =>
    let '(_, rs) := frun FAbsent (map fop_of ops) in
    Nat.eqb (length rs) (length obs) &&
    forallb (fun p => fres_agree (fst p) (snd p)) (combine rs obs)
  end.
