(* Corr/C20.v — correspondence cases for the event loop of the exact LIF simulator (C20): the real
   run_event_based_simulation is run on an integrate-and-fire neuron with dyadic-rational data (all float
   operations exact) and compared, event by event, with the Coq model of the loop. *)
From NIR Require Export Model.EventLoop Corr.Obs.

Inductive c20_case :=
| LoopCase (r thr : Q) (times amps : list Q) (record_dt duration : Q)
           (obs_volts : list (Q * Q)) (obs_spikes : list Q).

Fixpoint qlist_eqb (a b : list Q) : bool :=
  match a, b with
  | [], [] => true
  | x :: r, y :: s => Qeq_bool x y && qlist_eqb r s
  | _, _ => false
  end.

Fixpoint qplist_eqb (a b : list (Q * Q)) : bool :=
  match a, b with
  | [], [] => true
  | (x1, x2) :: r, (y1, y2) :: s => Qeq_bool x1 y1 && Qeq_bool x2 y2 && qplist_eqb r s
  | _, _ => false
  end.

Definition c20_check (c : c20_case) : bool :=
  match c with
  | LoopCase r thr times amps dt dur ov os =>
    match if_simulate 4000 r thr times amps dt dur with
    | Some (v, s) => qplist_eqb v ov && qlist_eqb s os
    | None => false
    end
  end.
