(* translation of the paper scripts FAILED CLOSED: Unsupported: call np.maximum *)
