(* RestoreProofs.v — property C08: the type-inference loop of Model/Graph.v (infer_types / run /
   apply_edge / derive_output) RESTORES erased shape annotations on consistent flat graphs.

   Differences with the informal statement (all checked by computation below, see the
   `counterexample_*` examples):
   - an erased Output whose stale input type holds a value that is not an array/sequence/None
     (TOther) makes the loop raise (np.array_equal fails): "any single-entry types" is too liberal;
     likewise a stale TSeq of the right shape is kept as is (TSeq, not TArr), and a stale correct
     array under a key different from "input" keeps its key.  `out_tin_ok` excludes exactly those.
   - a graph without any Input child makes infer_types raise NotImplementedErr before the loop
     starts: `wf_graph` asks for at least one Input child.
   - "it does not raise" needs every edge endpoint to be a child (KeyError otherwise): `wf_graph`
     asks for closed edges, and then (T1) is stated for every edge. *)
From NIR Require Import Model.Graph Proofs.ShapesProofs Proofs.NodesProofs Proofs.GraphProofs
  Proofs.InferProofs.
From Coq Require Import Lia.

(* ================================================================================================ *)
(* (1) definitions                                                                                  *)
(* ================================================================================================ *)

(* ground truth: name -> (shape_in, shape_out) *)
Definition truth := string -> (list Z * list Z)%type.

(* ANNOTATED: the node carries exactly the truth t = (sin, sout); Input and Output nodes are
   identities on shapes *)
Definition annotated (t : list Z * list Z) (n : node) : Prop :=
  exists k fs, n = Leaf k fs (arr_ty "input" (fst t)) (arr_ty "output" (snd t)) /\
               (k = KInput \/ k = KOutput -> snd t = fst t).

(* the kinds whose output type the loop can recompute *)
Definition recomputable (k : kind) : bool :=
  match k with KConv1d | KConv2d | KSumPool2d | KAvgPool2d | KFlatten => true | _ => false end.

(* admissible stale input-type entry (ki, vi) of an erased Output whose true shape is sin *)
Definition out_tin_ok (sin : list Z) (ki : string) (vi : tyv) : bool :=
  match vi with
  | TNone => true
  | TArr x => negb (shape_eqb x sin) || String.eqb ki "input"
  | TSeq x => negb (shape_eqb x sin)
  | TOther => false
  end.

(* ERASED (and recomputable) w.r.t. the truth t = (sin, sout) *)
Definition erased_ok (t : list Z * list Z) (n : node) : Prop :=
  exists k fs ki vi tout, n = Leaf k fs (Some [(ki, vi)]) tout /\
    ((k = KOutput /\ out_tin_ok (fst t) ki vi = true /\ snd t = fst t) \/
     (recomputable k = true /\ vi = TNone /\ ty_undef tout = true /\
      exists fs', derive_output k fs [("output", TArr (fst t))] [("input", TArr (fst t))] =
                  (fs', Some [("output", TArr (snd t))], None))).

Definition child_ok (T : truth) (c : string) (n : node) : Prop :=
  annotated (T c) n \/ erased_ok (T c) n.

(* the hypotheses on the graph: distinct names, at least one Input, closed and consistent edges (T1),
   every child annotated or erased_ok (T2, T3).  (An Input child cannot be erased_ok, so for it
   child_ok means annotated, with shape_in = shape_out: lemma child_ok_input.) *)
Record wf_graph (T : truth) (ch : list (string * node)) (es : list (string * string)) : Prop := {
  wf_nodup : NoDup (map fst ch);
  wf_input : exists p, In p ch /\ is_input (snd p) = true;
  wf_edges : Forall (fun e => In (fst e) (map fst ch) /\ In (snd e) (map fst ch) /\
                              snd (T (fst e)) = fst (T (snd e))) es;
  wf_children : Forall (fun p => child_ok T (fst p) (snd p)) ch
}.

(* reachability from an Input child along edges *)
Inductive reach (ch : list (string * node)) (es : list (string * string)) : string -> Prop :=
| reach_input c n : In (c, n) ch -> is_input n = true -> reach ch es c
| reach_edge a b : reach ch es a -> In (a, b) es -> reach ch es b.

(* ---- an executable checker of the hypotheses, sound w.r.t. wf_graph -------------------------------- *)
Definition io_kind (k : kind) : bool := match k with KInput | KOutput => true | _ => false end.

Definition annotatedb (t : list Z * list Z) (n : node) : bool :=
  match n with
  | Leaf k _ (Some [(ki, TArr a)]) (Some [(ko, TArr b)]) =>
    String.eqb ki "input" && shape_eqb a (fst t) && String.eqb ko "output" && shape_eqb b (snd t) &&
    (negb (io_kind k) || shape_eqb (snd t) (fst t))
  | _ => false
  end.

Definition derive_okb (k : kind) (fs : list (string * pval)) (sin sout : list Z) : bool :=
  match derive_output k fs [("output", TArr sin)] [("input", TArr sin)] with
  | (_, Some [(ko, TArr s)], None) => String.eqb ko "output" && shape_eqb s sout
  | _ => false
  end.

Definition erasedb (t : list Z * list Z) (n : node) : bool :=
  match n with
  | Leaf k fs (Some [(ki, vi)]) tout =>
    (kind_eqb k KOutput && out_tin_ok (fst t) ki vi && shape_eqb (snd t) (fst t)) ||
    (recomputable k && tyv_is_none vi && ty_undef tout && derive_okb k fs (fst t) (snd t))
  | _ => false
  end.

Fixpoint nodup_strb (l : list string) : bool :=
  match l with [] => true | x :: r => negb (mem_str x r) && nodup_strb r end.

Definition wf_graphb (T : truth) (ch : list (string * node)) (es : list (string * string)) : bool :=
  nodup_strb (map fst ch) &&
  existsb (fun p => is_input (snd p)) ch &&
  forallb (fun e => mem_str (fst e) (map fst ch) && mem_str (snd e) (map fst ch) &&
                    shape_eqb (snd (T (fst e))) (fst (T (snd e)))) es &&
  forallb (fun p => annotatedb (T (fst p)) (snd p) || erasedb (T (fst p)) (snd p)) ch.

Lemma annotatedb_sound t n : annotatedb t n = true -> annotated t n.
Proof.
  intros H. unfold annotatedb in H.
  destruct n as [k fields [[|[ki [|a| |]] [|]]|] [[|[ko [|b| |]] [|]]|] |]; try discriminate H.
  repeat (apply andb_true_iff in H; destruct H as [H ?]).
  apply String.eqb_eq in H. subst.
  match goal with H : String.eqb _ "output" = true |- _ => apply String.eqb_eq in H; subst end.
  repeat match goal with H : shape_eqb _ _ = true |- _ => apply shape_eqb_eq in H; subst end.
  exists k, fields. split; [reflexivity|].
  intros Hk. match goal with H : negb _ || _ = true |- _ => apply orb_true_iff in H; destruct H as [Hio|Hio] end.
  - destruct Hk; subst; discriminate.
  - apply shape_eqb_eq in Hio. exact Hio.
Qed.

Lemma kind_eqb_eq a b : kind_eqb a b = true -> a = b.
Proof. destruct a; destruct b; intros H; try reflexivity; vm_compute in H; discriminate. Qed.

Lemma derive_okb_sound k fs sin sout : derive_okb k fs sin sout = true ->
  exists fs', derive_output k fs [("output", TArr sin)] [("input", TArr sin)] =
              (fs', Some [("output", TArr sout)], None).
Proof.
  unfold derive_okb. destruct (derive_output _ _ _ _) as [[fs' r] ex]. intros H.
  destruct r as [[|[ko [|s| |]] [|]]|]; destruct ex as [e|]; try discriminate H.
  apply andb_true_iff in H as [H1 H2]. apply String.eqb_eq in H1. apply shape_eqb_eq in H2. subst.
  exists fs'. reflexivity.
Qed.

Lemma erasedb_sound t n : erasedb t n = true -> erased_ok t n.
Proof.
  intros H. unfold erasedb in H.
  destruct n as [k fields [[|[ki vi] [|]]|] tout|]; try discriminate H.
  exists k, fields, ki, vi, tout. split; [reflexivity|].
  apply orb_true_iff in H as [H|H]; repeat (apply andb_true_iff in H; destruct H as [H ?]).
  - left. apply kind_eqb_eq in H. match goal with H : shape_eqb _ _ = true |- _ => apply shape_eqb_eq in H end.
    repeat split; assumption.
  - right. split; [exact H|]. split; [destruct vi; try discriminate; reflexivity|].
    split; [assumption|]. apply derive_okb_sound. assumption.
Qed.

Lemma nodup_strb_sound l : nodup_strb l = true -> NoDup l.
Proof.
  induction l as [|x r IH]; cbn [nodup_strb]; intros H; constructor;
    apply andb_true_iff in H as [H1 H2].
  - intros Hin. apply mem_str_In in Hin. rewrite Hin in H1. discriminate.
  - apply IH. exact H2.
Qed.

Theorem wf_graphb_sound T ch es : wf_graphb T ch es = true -> wf_graph T ch es.
Proof.
  unfold wf_graphb. intros H. repeat (apply andb_true_iff in H; destruct H as [H ?]).
  constructor.
  - apply nodup_strb_sound. exact H.
  - match goal with H : existsb _ _ = true |- _ => apply existsb_exists in H; exact H end.
  - apply Forall_forall. intros e He.
    match goal with H : forallb _ es = true |- _ => rewrite forallb_forall in H; specialize (H e He);
      repeat (apply andb_true_iff in H; destruct H as [H ?]) end.
    repeat split; try (apply mem_str_In; assumption). apply shape_eqb_eq. assumption.
  - apply Forall_forall. intros p Hp.
    match goal with H : forallb _ ch = true |- _ => rewrite forallb_forall in H; specialize (H p Hp);
      apply orb_true_iff in H; destruct H as [Hc|Hc] end.
    + left. apply annotatedb_sound. exact Hc.
    + right. apply erasedb_sound. exact Hc.
Qed.

(* ---- the concrete example ------------------------------------------------------------------------ *)
Definition get_node (r : result node) : node :=
  match r with Ok n => n | Err _ => Leaf KInput [] None None end.

Definition ex_ch : list (string * node) :=
  [("input", get_node (construct KInput [("input_type", VArr "int64" [3] 0 (Some [2; 8; 8]))]));
   ("conv", get_node (construct KConv2d
       [("input_shape", VNone); ("weight", VArr "float32" [4; 2; 3; 3] 1 None); ("stride", VInt 1);
        ("padding", VInt 0); ("dilation", VInt 1); ("groups", VInt 1);
        ("bias", VArr "float32" [4] 2 None)]));
   ("flatten", get_node (construct KFlatten [("input_type", VNone)]));
   ("output", get_node (construct KOutput [("output_type", VNone)]));
   (* fan-out target: an Output carrying a WRONG shape *)
   ("output2", get_node (construct KOutput [("output_type", VArr "int64" [2] 3 (Some [9; 9]))]))].

Definition ex_es : list (string * string) :=
  [("input", "conv"); ("conv", "flatten"); ("flatten", "output"); ("conv", "output2")].

Definition ex_T : truth := fun c =>
  if String.eqb c "input" then ([2; 8; 8], [2; 8; 8])
  else if String.eqb c "conv" then ([2; 8; 8], [4; 6; 6])
  else if String.eqb c "flatten" then ([4; 6; 6], [4; 36])
  else if String.eqb c "output" then ([4; 36], [4; 36])
  else ([4; 6; 6], [4; 6; 6]).

Example ex_all_constructed :
  forallb (fun p => match snd p with Leaf KInput [] None None => false | _ => true end) ex_ch = true.
Proof. vm_compute. reflexivity. Qed.

Example ex_wfb : wf_graphb ex_T ex_ch ex_es = true.
Proof. vm_compute. reflexivity. Qed.

Example ex_wf : wf_graph ex_T ex_ch ex_es.
Proof. apply wf_graphb_sound. exact ex_wfb. Qed.

(* the example really contains erased nodes (so the theorem has something to restore) *)
Example ex_is_erased :
  map (fun p => annotatedb (ex_T (fst p)) (snd p)) ex_ch = [true; false; false; false; false].
Proof. vm_compute. reflexivity. Qed.

Example ex_all_reachable : forall c, In c (map fst ex_ch) -> reach ex_ch ex_es c.
Proof.
  assert (Hi : reach ex_ch ex_es "input").
  { eapply reach_input; [left; reflexivity|vm_compute; reflexivity]. }
  assert (Hc : reach ex_ch ex_es "conv").
  { eapply reach_edge; [exact Hi|cbn; timeout 20 tauto]. }
  assert (Hf : reach ex_ch ex_es "flatten").
  { eapply reach_edge; [exact Hc|cbn; timeout 20 tauto]. }
  intros c H. cbn in H. repeat destruct H as [H|H]; subst; try assumption.
  - eapply reach_edge; [exact Hf|cbn; timeout 20 tauto].
  - eapply reach_edge; [exact Hc|cbn; timeout 20 tauto].
  - destruct H.
Qed.

(* what the loop computes on the example (sanity check of the statement, by evaluation) *)
Example ex_infer_result :
  let '(g', oc) := infer_types (mk_graph ex_ch ex_es (VDict [])) in
  oc = Finished /\ check_types g' = Ok true /\
  match g' with
  | Graph ch' _ _ _ _ =>
    map (fun p => (fst p, node_tin (snd p), node_tout (snd p))) ch' =
    map (fun p => (fst p, arr_ty "input" (fst (ex_T (fst p))), arr_ty "output" (snd (ex_T (fst p))))) ch'
  | _ => False
  end.
Proof. vm_compute. repeat split. Qed.

(* ================================================================================================ *)
(* (2) the inductive step: one application of the loop body                                         *)
(* ================================================================================================ *)
Lemma rename_out_in v : rename_keys "output" "input" [("output", v)] = [("input", v)].
Proof. reflexivity. Qed.

Lemma rename_in_out v : rename_keys "input" "output" [("input", v)] = [("output", v)].
Proof. reflexivity. Qed.

Lemma shape_eqb_sym_false a b : shape_eqb a b = false -> shape_eqb b a = false.
Proof.
  intros H. destruct (shape_eqb b a) eqn:E; [|reflexivity].
  apply shape_eqb_eq in E. subst. rewrite shape_eqb_refl in H. discriminate.
Qed.

Lemma apply_edge_eq pk pfs ptin o k fs i tout eq :
  values_equal o i = Ok eq ->
  apply_edge (Leaf pk pfs ptin (Some o)) (Leaf k fs (Some i) tout) =
    let mismatch := negb (Nat.eqb (length i) (length o)) || negb eq in
    let i' := if ty_undef (Some i) || mismatch then rename_keys "output" "input" o else i in
    let tout1 := if kind_eqb k KOutput then Some (rename_keys "input" "output" i') else tout in
    if ty_undef tout1 then
      let '(fs', r, ex) := derive_output k fs o i' in
      (Leaf k fs' (Some i') (match r with Some t => Some t | None => tout1 end), ex)
    else (Leaf k fs (Some i') tout1, None).
Proof. intros H. cbn [apply_edge]. rewrite H. reflexivity. Qed.

(* whenever the loop body ends up with the true input type (either because it replaces a stale
   one, or because the node already had it), the rest of the body is: *)
Lemma apply_edge_with pk pfs ptin s k fs i tout eq :
  values_equal [("output", TArr s)] i = Ok eq ->
  (ty_undef (Some i) || (negb (Nat.eqb (length i) 1) || negb eq) = true \/ i = [("input", TArr s)]) ->
  apply_edge (Leaf pk pfs ptin (Some [("output", TArr s)])) (Leaf k fs (Some i) tout) =
    let tout1 := if kind_eqb k KOutput then Some [("output", TArr s)] else tout in
    if ty_undef tout1 then
      let '(fs', r, ex) := derive_output k fs [("output", TArr s)] [("input", TArr s)] in
      (Leaf k fs' (Some [("input", TArr s)]) (match r with Some t => Some t | None => tout1 end), ex)
    else (Leaf k fs (Some [("input", TArr s)]) tout1, None).
Proof.
  intros Hv Hc. rewrite (apply_edge_eq _ _ _ _ _ _ _ _ _ Hv). cbv zeta. cbn [length].
  assert (Hi : (if ty_undef (Some i) || (negb (Nat.eqb (length i) 1) || negb eq)
                then rename_keys "output" "input" [("output", TArr s)] else i) = [("input", TArr s)]).
  { rewrite rename_out_in. destruct Hc as [Hc|Hc]; [rewrite Hc; reflexivity|].
    subst i. destruct (_ || _); reflexivity. }
  rewrite Hi, rename_in_out. reflexivity.
Qed.

Lemma recomputable_not_output k : recomputable k = true -> kind_eqb k KOutput = false.
Proof. destruct k; intros H; try discriminate H; reflexivity. Qed.

Theorem restore_step : forall (t : list Z * list Z) (pre post : node),
  is_graph pre = false -> node_tout pre = arr_ty "output" (fst t) ->
  annotated t post \/ erased_ok t post ->
  exists post',
    apply_edge pre post = (post', None) /\ annotated t post' /\
    node_kind post' = node_kind post /\
    (annotated t post -> post' = post).
Proof.
  intros [s so] pre post Hg Hpre Hpost. cbn [fst snd] in *.
  destruct pre as [pk pfs ptin ptout|]; [|discriminate Hg]. cbn [node_tout] in Hpre. subst ptout.
  unfold arr_ty.
  destruct Hpost as [(k & fs & -> & Hio)|(k & fs & ki & vi & tout & -> & Hcase)]; cbn [fst snd] in *.
  - (* annotated: nothing changes *)
    unfold arr_ty. rewrite (apply_edge_with _ _ _ _ _ _ _ _ true).
    2:{ cbn [values_equal array_equal tyv_nums]. rewrite shape_eqb_refl. reflexivity. }
    2:{ right. reflexivity. }
    cbv zeta. destruct (kind_eqb k KOutput) eqn:Ek.
    + apply kind_eqb_eq in Ek. subst k. rewrite Hio by (right; reflexivity).
      cbn [ty_undef existsb snd tyv_is_none orb].
      eexists. split; [reflexivity|]. split.
      * exists KOutput, fs. split; [reflexivity|]. intros _. reflexivity.
      * split; [reflexivity|]. intros _. reflexivity.
    + cbn [ty_undef existsb snd tyv_is_none orb].
      eexists. split; [reflexivity|]. split.
      * exists k, fs. split; [reflexivity|]. exact Hio.
      * split; [reflexivity|]. intros _. reflexivity.
  - destruct Hcase as [(-> & Hok & ->)|(Hrec & -> & Hun & fs' & Hd)].
    + (* erased Output *)
      assert (Hae : exists eq, values_equal [("output", TArr s)] [(ki, vi)] = Ok eq /\
                (ty_undef (Some [(ki, vi)]) || (negb (Nat.eqb (length [(ki, vi)]) 1) || negb eq) = true \/
                 [(ki, vi)] = [("input", TArr s)])).
      { destruct vi as [|x|x|]; cbn [out_tin_ok] in Hok; cbn [values_equal array_equal tyv_nums].
        - exists false. split; [reflexivity|]. left. reflexivity.
        - destruct (shape_eqb s x) eqn:E.
          + exists true. split; [reflexivity|]. right. apply shape_eqb_eq in E. subst x.
            rewrite shape_eqb_refl in Hok. cbn [negb orb] in Hok. apply String.eqb_eq in Hok.
            subst ki. reflexivity.
          + exists false. split; [reflexivity|]. left. cbn [negb]. rewrite !orb_true_r. reflexivity.
        - exists false. apply negb_true_iff in Hok. apply shape_eqb_sym_false in Hok. rewrite Hok.
          split; [reflexivity|]. left. cbn [negb]. rewrite !orb_true_r. reflexivity.
        - discriminate Hok. }
      destruct Hae as (eq & Hv & Hc). rewrite (apply_edge_with _ _ _ _ _ _ _ _ eq Hv Hc).
      cbv zeta. change (kind_eqb KOutput KOutput) with true. cbv iota.
      cbn [ty_undef existsb snd tyv_is_none orb].
      eexists. split; [reflexivity|]. split.
      * exists KOutput, fs. split; [reflexivity|]. intros _. reflexivity.
      * split; [reflexivity|]. intros (k' & fs'' & E & _). inversion E; subst. reflexivity.
    + (* erased, recomputable *)
      rewrite (apply_edge_with _ _ _ _ _ _ _ _ false).
      2:{ reflexivity. }
      2:{ left. reflexivity. }
      cbv zeta. rewrite (recomputable_not_output _ Hrec), Hun, Hd.
      eexists. split; [reflexivity|]. split.
      * exists k, fs'. split; [reflexivity|]. intros [->| ->]; discriminate Hrec.
      * split; [reflexivity|]. intros (k' & fs'' & E & _). inversion E.
Qed.

(* erased_ok is what the constructors produce for un-annotated nodes (generic instances) *)
Lemma erased_ok_output s fs ki tout : erased_ok (s, s) (Leaf KOutput fs (Some [(ki, TNone)]) tout).
Proof.
  exists KOutput, fs, ki, TNone, tout. split; [reflexivity|]. left. repeat split.
Qed.

Lemma erased_ok_flatten sh s e fs ki tout :
  fld "start_dim" fs = Ok (VInt s) -> fld "end_dim" fs = Ok (VInt e) -> valid_dims sh s e ->
  ty_undef tout = true ->
  erased_ok (sh, flatten_out sh s e) (Leaf KFlatten fs (Some [(ki, TNone)]) tout).
Proof.
  intros Hs He Hv Hu. exists KFlatten, fs, ki, TNone, tout. split; [reflexivity|]. right.
  split; [reflexivity|]. split; [reflexivity|]. split; [exact Hu|]. exists fs. cbn [fst snd].
  apply flatten_infer; assumption.
Qed.

Lemma erased_ok_pool k fs c sp out ks stride pad ki tout :
  k = KSumPool2d \/ k = KAvgPool2d ->
  fld "kernel_size" fs = Ok ks -> fld "stride" fs = Ok stride -> fld "padding" fs = Ok pad ->
  conv_out (HArr sp) (hp_of pad) (HInt 1) (hp_of ks) (hp_of stride) = Ok out ->
  ty_undef tout = true ->
  erased_ok (c :: sp, c :: out) (Leaf k fs (Some [(ki, TNone)]) tout).
Proof.
  intros Hk H1 H2 H3 H4 Hu. exists k, fs, ki, TNone, tout. split; [reflexivity|]. right.
  split; [destruct Hk; subst; reflexivity|]. split; [reflexivity|]. split; [exact Hu|].
  exists fs. cbn [fst snd]. eapply pool_infer; eassumption.
Qed.

(* the three restrictions w.r.t. the informal statement are necessary: *)
Example counterexample_output_other :
  snd (apply_edge (Leaf KInput [] (arr_ty "input" [3]) (arr_ty "output" [3]))
                  (Leaf KOutput [] (Some [("input", TOther)]) (Some [("output", TOther)])))
  = Some OtherError.
Proof. vm_compute. reflexivity. Qed.

Example counterexample_output_seq :
  apply_edge (Leaf KInput [] (arr_ty "input" [3]) (arr_ty "output" [3]))
             (Leaf KOutput [] (Some [("input", TSeq [3])]) (Some [("output", TSeq [3])]))
  = (Leaf KOutput [] (Some [("input", TSeq [3])]) (Some [("output", TSeq [3])]), None).
Proof. vm_compute. reflexivity. Qed.

Example counterexample_output_key :
  apply_edge (Leaf KInput [] (arr_ty "input" [3]) (arr_ty "output" [3]))
             (Leaf KOutput [] (Some [("x", TArr [3])]) (Some [("output", TNone)]))
  = (Leaf KOutput [] (Some [("x", TArr [3])]) (Some [("x", TArr [3])]), None).
Proof. vm_compute. reflexivity. Qed.

Example counterexample_no_input :
  snd (infer_types (mk_graph [("output", Leaf KOutput [] (arr_ty "input" [3]) (arr_ty "output" [3]))]
                             [] (VDict []))) = Raised NotImplementedErr.
Proof. vm_compute. reflexivity. Qed.

Example counterexample_dangling_edge :
  snd (infer_types (mk_graph [("input", Leaf KInput [] (arr_ty "input" [3]) (arr_ty "output" [3]))]
                             [("input", "nowhere")] (VDict []))) = Raised KeyError.
Proof. vm_compute. reflexivity. Qed.

(* ================================================================================================ *)
(* (3) the invariant along `run`                                                                     *)
(* ================================================================================================ *)
Lemma assoc_In' {A} k (l : list (string * A)) v : assoc k l = Some v -> In (k, v) l.
Proof.
  induction l as [|[k' v'] r IH]; cbn [assoc In]; [discriminate|].
  destruct (String.eqb k k') eqn:E.
  - apply String.eqb_eq in E. intros H. inversion H. subst. left. reflexivity.
  - intros H. right. apply IH. exact H.
Qed.

Lemma In_keys_assoc {A} k (l : list (string * A)) : In k (map fst l) -> exists v, assoc k l = Some v.
Proof.
  induction l as [|[k' v'] r IH]; cbn [map fst In assoc]; [intros []|].
  destruct (String.eqb k k') eqn:E; [intros _; eexists; reflexivity|].
  intros [H|H]; [subst; rewrite String.eqb_refl in E; discriminate|apply IH; exact H].
Qed.

Lemma NoDup_In_assoc {A} k (l : list (string * A)) v :
  NoDup (map fst l) -> In (k, v) l -> assoc k l = Some v.
Proof.
  induction l as [|[k' v'] r IH]; cbn [map fst In assoc]; [intros _ []|].
  intros Hnd Hin. inversion Hnd as [|? ? Hni Hnd']; subst.
  destruct Hin as [Hin|Hin].
  - inversion Hin; subst. rewrite String.eqb_refl. reflexivity.
  - destruct (String.eqb k k') eqn:E; [|apply IH; assumption].
    apply String.eqb_eq in E. subst k'. exfalso. apply Hni.
    change k with (fst (k, v)). apply in_map. exact Hin.
Qed.

Lemma pop_last_snoc {A} (l : list A) x : pop_last (l ++ [x]) = Some (l, x).
Proof. unfold pop_last. rewrite rev_app_distr. cbn [rev app]. rewrite rev_involutive. reflexivity. Qed.

Lemma annotated_tout t n : annotated t n -> is_graph n = false /\ node_tout n = arr_ty "output" (snd t).
Proof. intros (k & fs & -> & _). split; reflexivity. Qed.

Lemma erased_not_input t n : erased_ok t n -> is_input n = false.
Proof.
  intros (k & fs & ki & vi & tout & -> & [(-> & _)|(Hrec & _)]); [reflexivity|].
  destruct k; try discriminate Hrec; reflexivity.
Qed.

Lemma child_ok_input T c n : child_ok T c n -> is_input n = true ->
  annotated (T c) n /\ snd (T c) = fst (T c).
Proof.
  intros [Ha|He] Hi.
  - split; [exact Ha|]. destruct Ha as (k & fs & -> & Hio). apply Hio. left.
    cbn [is_input] in Hi. destruct k; try discriminate Hi. reflexivity.
  - apply erased_not_input in He. rewrite He in Hi. discriminate.
Qed.

Section Invariant.
  Variable T : truth.
  Variable es : list (string * string).
  Variable names : list string.     (* the child names, in order *)
  Variable seen0 : list string.     (* the nodes marked by init_state *)

  (* (T1) on the edge list, and closedness *)
  Definition edges_ok : Prop :=
    forall a b, In (a, b) es -> In a names /\ In b names /\ snd (T a) = fst (T b).

  (* - the names are those of the initial graph;
     - every seen child carries its truth, every other child is annotated or still erased_ok
       (so, by child_ok_input, every Input child carries its truth);
     - every ready edge is an edge whose source is seen;
     - DFS: every out-edge of a seen node has a seen target or is still ready;
     - the initially seen nodes stay seen *)
  Definition inv (st : istate) : Prop :=
    map fst (st_ch st) = names /\
    (forall c n, assoc c (st_ch st) = Some n ->
       annotated (T c) n \/ (erased_ok (T c) n /\ ~ In c (st_seen st))) /\
    (forall a b, In (a, b) (st_ready st) -> In (a, b) es /\ In a (st_seen st)) /\
    (forall x y, In x (st_seen st) -> In (x, y) es -> In y (st_seen st) \/ In (x, y) (st_ready st)) /\
    incl seen0 (st_seen st).

  Hypothesis Hes : edges_ok.

  Lemma inv_seen_annotated st c : inv st -> In c (st_seen st) -> In c names ->
    exists n, assoc c (st_ch st) = Some n /\ annotated (T c) n.
  Proof.
    intros (Hk & Hc & _) Hs Hn. rewrite <- Hk in Hn. apply In_keys_assoc in Hn as [n Hn].
    exists n. split; [exact Hn|]. destruct (Hc c n Hn) as [Ha|[_ Hns]]; [exact Ha|contradiction].
  Qed.

  (* one iteration: either the work list is empty, or the body succeeds and the invariant holds
     again; in particular the body never raises *)
  Lemma step_inv st : inv st ->
    (step es st = SDone /\ st_ready st = []) \/ (exists st', step es st = SNext st' /\ inv st').
  Proof.
    intros Hinv. destruct (list_last_cases (st_ready st)) as [Hr|(rest & [p q] & Hr)].
    - left. split; [|exact Hr]. unfold step. rewrite Hr. reflexivity.
    - right. pose proof Hinv as (Hk & Hc & Hrd & Hdfs & Hs0).
      assert (Hpq : In (p, q) (st_ready st)) by (rewrite Hr; apply in_or_app; right; left; reflexivity).
      destruct (Hrd p q Hpq) as [Hin Hps]. destruct (Hes p q Hin) as (Hpn & Hqn & HT).
      destruct (inv_seen_annotated st p Hinv Hps Hpn) as (pre & Hpre & Hpa).
      pose proof Hqn as Hqn'. rewrite <- Hk in Hqn'. apply In_keys_assoc in Hqn' as [post Hpost].
      apply annotated_tout in Hpa as [Hpg Hpt]. rewrite HT in Hpt.
      assert (Hpo : annotated (T q) post \/ erased_ok (T q) post).
      { destruct (Hc q post Hpost) as [H|[H _]]; [left|right]; exact H. }
      destruct (restore_step (T q) pre post Hpg Hpt Hpo) as (post' & Hae & Han & _ & _).
      eexists. split.
      + unfold step. rewrite Hr, pop_last_snoc. unfold lookup_child. rewrite Hpre, Hpost, Hae.
        reflexivity.
      + unfold inv. cbn [st_ch st_ready st_seen]. split; [|split; [|split; [|split]]].
        * unfold set_child. rewrite (assoc_set_keys _ _ _ _ Hpost). exact Hk.
        * intros c n. unfold set_child. rewrite assoc_assoc_set.
          destruct (String.eqb c q) eqn:E.
          -- apply String.eqb_eq in E. subst c. intros H. inversion H; subst. left. exact Han.
          -- intros H. destruct (Hc c n H) as [Ha|[He Hns]]; [left; exact Ha|right].
             split; [exact He|]. intros [Hq|Hq]; [|contradiction].
             subst c. rewrite String.eqb_refl in E. discriminate.
        * intros a b Hab. apply in_app_or in Hab as [Hab|Hab].
          -- destruct (Hrd a b) as [H1 H2]; [rewrite Hr; apply in_or_app; left; exact Hab|].
             split; [exact H1|right; exact H2].
          -- unfold out_edges in Hab. apply filter_In in Hab as [H1 H2]. split; [exact H1|].
             apply andb_true_iff in H2 as [H2 _]. cbn [fst] in H2. apply String.eqb_eq in H2.
             left. symmetry. exact H2.
        * intros x y Hx Hxy. destruct Hx as [Hx|Hx].
          -- subst x. destruct (out_edges_in es q (q :: st_seen st) y Hxy) as [H|H].
             ++ left. apply mem_str_In. exact H.
             ++ right. apply in_or_app. right. exact H.
          -- destruct (Hdfs x y Hx Hxy) as [H|H]; [left; right; exact H|].
             rewrite Hr in H. apply in_app_or in H as [H|[H|[]]].
             ++ right. apply in_or_app. left. exact H.
             ++ inversion H; subst. left. left. reflexivity.
        * apply incl_tl. exact Hs0.
  Qed.

  Theorem restore_invariant : forall fuel st, inv st ->
    inv (fst (run fuel es st)) /\
    (snd (run fuel es st) = Finished /\ st_ready (fst (run fuel es st)) = [] \/
     snd (run fuel es st) = Raised OutOfFuel).
  Proof.
    induction fuel as [|f IH]; intros st Hinv.
    - cbn [run fst snd]. split; [exact Hinv|right; reflexivity].
    - rewrite run_S. destruct (step_inv st Hinv) as [[Hd Hr]|(st' & Hs & Hinv')].
      + rewrite Hd. cbn [fst snd]. split; [exact Hinv|left; split; [reflexivity|exact Hr]].
      + rewrite Hs. apply IH. exact Hinv'.
  Qed.
End Invariant.

(* ================================================================================================ *)
(* (4) DFS completeness (holds on every graph, typed or not)                                        *)
(* ================================================================================================ *)
Definition dfs_closed (es : list (string * string)) (seen : list string) (ready : list (string * string)) :=
  forall x y, In x seen -> In (x, y) es -> In y seen \/ In (x, y) ready.

Lemma dfs_push es seen rest p q :
  dfs_closed es seen (rest ++ [(p, q)]) ->
  dfs_closed es (q :: seen) (rest ++ out_edges es q (q :: seen)).
Proof.
  intros Hdfs x y Hx Hxy. destruct Hx as [Hx|Hx].
  - subst x. destruct (out_edges_in es q (q :: seen) y Hxy) as [H|H].
    + left. apply mem_str_In. exact H.
    + right. apply in_or_app. right. exact H.
  - destruct (Hdfs x y Hx Hxy) as [H|H]; [left; right; exact H|].
    apply in_app_or in H as [H|[H|[]]].
    + right. apply in_or_app. left. exact H.
    + inversion H; subst. left. left. reflexivity.
Qed.

Theorem run_dfs_complete : forall fuel es st st',
  run fuel es st = (st', Finished) -> dfs_closed es (st_seen st) (st_ready st) ->
  (forall x y, In x (st_seen st') -> In (x, y) es -> In y (st_seen st')) /\
  incl (st_seen st) (st_seen st').
Proof.
  induction fuel as [|f IH]; intros es st st' Hrun Hdfs; [cbn [run] in Hrun; inversion Hrun|].
  rewrite run_S in Hrun. destruct (step es st) as [|st1 e|st1] eqn:Hs.
  - inversion Hrun; subst st'. apply step_done in Hs. split; [|apply incl_refl].
    intros x y Hx Hxy. destruct (Hdfs x y Hx Hxy) as [H|H]; [exact H|]. rewrite Hs in H. destruct H.
  - inversion Hrun.
  - apply step_next in Hs as (rest & p & q & pre & post & post' & Hr & _ & _ & _ & ->).
    apply IH in Hrun.
    + cbn [st_seen] in Hrun. destruct Hrun as [H1 H2]. split; [exact H1|].
      intros x Hx. apply H2. right. exact Hx.
    + cbn [st_seen st_ready]. apply (dfs_push es (st_seen st) rest p q). rewrite <- Hr. exact Hdfs.
Qed.

Lemma input_key ch a n : In (a, n) ch -> is_input n = true -> mem_str a (keys (inputs ch)) = true.
Proof.
  intros Hin Hi. apply mem_str_In. unfold keys, inputs. change a with (fst (a, n)). apply in_map.
  apply filter_In. split; [exact Hin|exact Hi].
Qed.

Lemma init_dfs_closed ch es :
  dfs_closed es (st_seen (init_state ch es)) (st_ready (init_state ch es)).
Proof.
  unfold init_state. cbn [st_seen st_ready]. intros x y Hx Hxy. right.
  apply in_map_iff in Hx as (e & <- & He). apply filter_In in He as [_ He].
  apply filter_In. split; [exact Hxy|exact He].
Qed.

Theorem restore_reachable : forall fuel ch es st',
  run fuel es (init_state ch es) = (st', Finished) ->
  forall c, reach ch es c ->
    In c (st_seen st') \/ (exists n, In (c, n) ch /\ is_input n = true).
Proof.
  intros fuel ch es st' Hrun c Hc.
  destruct (run_dfs_complete _ _ _ _ Hrun (init_dfs_closed ch es)) as [Hcl Hincl].
  induction Hc as [c n Hin Hi|a b Ha IH Hab].
  - right. exists n. split; assumption.
  - left. apply (Hcl a b); [|exact Hab]. destruct IH as [H|(n & Hin & Hi)]; [exact H|].
    apply Hincl. unfold init_state. cbn [st_seen]. change a with (fst (a, b)). apply in_map.
    apply filter_In. split; [exact Hab|]. cbn [fst]. eapply input_key; eassumption.
Qed.

(* ================================================================================================ *)
(* (5) the combination                                                                              *)
(* ================================================================================================ *)
Lemma wf_edges_ok T ch es : wf_graph T ch es -> edges_ok T es (map fst ch).
Proof.
  intros Hwf a b Hab. pose proof (wf_edges _ _ _ Hwf) as H. rewrite Forall_forall in H.
  apply (H (a, b) Hab).
Qed.

Lemma init_inv T ch es : wf_graph T ch es ->
  inv T es (map fst ch) (st_seen (init_state ch es)) (init_state ch es).
Proof.
  intros Hwf. unfold inv. split; [reflexivity|]. split; [|split; [|split]].
  - intros c n Hcn. unfold init_state in Hcn. cbn [st_ch] in Hcn.
    pose proof (wf_children _ _ _ Hwf) as Hch. rewrite Forall_forall in Hch.
    destruct (Hch (c, n) (assoc_In' _ _ _ Hcn)) as [Ha|He]; [left; exact Ha|right].
    split; [exact He|]. cbn [fst snd] in He. unfold init_state. cbn [st_seen]. intros Hs.
    apply in_map_iff in Hs as (e & Hec & He'). apply filter_In in He' as [_ He'].
    rewrite Hec in He'. apply mem_str_In in He'. unfold keys, inputs in He'.
    apply in_map_iff in He' as ([c' n'] & Hc' & Hp). cbn [fst] in Hc'. subst c'.
    apply filter_In in Hp as [Hp Hi]. cbn [snd] in Hi.
    apply (NoDup_In_assoc _ _ _ (wf_nodup _ _ _ Hwf)) in Hp. rewrite Hp in Hcn. inversion Hcn; subst n'.
    apply erased_not_input in He. rewrite He in Hi. discriminate.
  - unfold init_state. cbn [st_ready st_seen]. intros a b Hab. split.
    + apply filter_In in Hab. apply Hab.
    + change a with (fst (a, b)). apply in_map. exact Hab.
  - apply init_dfs_closed.
  - apply incl_refl.
Qed.

Lemma reach_in_names T ch es c : wf_graph T ch es -> reach ch es c -> In c (map fst ch).
Proof.
  intros Hwf Hc. induction Hc as [c n Hin _|a b _ _ Hab].
  - change c with (fst (c, n)). apply in_map. exact Hin.
  - apply (wf_edges_ok _ _ _ Hwf a b Hab).
Qed.

Lemma is_input_kind n : is_input n = true <-> node_kind n = KInput.
Proof.
  destruct n as [k fs ti to|]; cbn [is_input node_kind]; [|split; discriminate].
  destruct k; split; intros H; try discriminate H; reflexivity.
Qed.

Lemma erased_kind t n : erased_ok t n -> node_kind n <> KInput.
Proof.
  intros He Hk. apply is_input_kind in Hk. apply erased_not_input in He. rewrite He in Hk. discriminate.
Qed.

Lemma gty_defined T ch es : wf_graph T ch es -> gty_undef (graph_tin ch) = false.
Proof.
  intros Hwf. unfold graph_tin.
  assert (Hall : forall p, In p (inputs ch) -> node_tin (snd p) <> None).
  { intros [c n] Hp. apply filter_In in Hp as [Hp Hi]. cbn [snd] in *.
    pose proof (wf_children _ _ _ Hwf) as Hch. rewrite Forall_forall in Hch.
    destruct (child_ok_input T c n (Hch (c, n) Hp) Hi) as [(k & fs & -> & _) _]. discriminate. }
  destruct (wf_input _ _ _ Hwf) as (p & Hp & Hi).
  assert (Hne : In p (inputs ch)) by (apply filter_In; split; assumption).
  destruct (inputs ch) as [|p0 r] eqn:E; [destruct Hne|]. clear Hne.
  cbn [gty_undef]. revert Hall. generalize (p0 :: r). intros l Hall.
  induction l as [|a l IH]; cbn [map existsb]; [reflexivity|].
  cbn [snd]. destruct (node_tin (snd a)) eqn:Ea.
  - cbn [orb]. apply IH. intros q Hq. apply Hall. right. exact Hq.
  - exfalso. apply (Hall a); [left; reflexivity|exact Ea].
Qed.

Theorem infer_restores : forall T ch es m, wf_graph T ch es ->
  exists ch',
    infer_types (mk_graph ch es m) = (mk_graph ch' es m, Finished) /\
    map fst ch' = map fst ch /\
    (forall c n', assoc c ch' = Some n' -> child_ok T c n') /\
    (forall c, reach ch es c -> exists n', assoc c ch' = Some n' /\ annotated (T c) n').
Proof.
  intros T ch es m Hwf. unfold mk_graph at 1. cbn [infer_types].
  rewrite (gty_defined _ _ _ Hwf). cbn [negb].
  pose proof (restore_invariant T es (map fst ch) (st_seen (init_state ch es)) (wf_edges_ok _ _ _ Hwf)
                (infer_fuel ch es) (init_state ch es) (init_inv _ _ _ Hwf)) as [Hinv Hoc].
  pose proof (infer_fuel_suffices ch es) as Hfuel.
  pose proof (run_frame (infer_fuel ch es) es (init_state ch es)) as Hframe.
  destruct (run (infer_fuel ch es) es (init_state ch es)) as [st oc] eqn:ER. cbn [fst snd] in *.
  destruct Hoc as [[-> _]|Hoc]; [|contradiction].
  exists (st_ch st). split; [reflexivity|].
  pose proof Hinv as (Hk & Hc & _). split; [exact Hk|]. split.
  - intros c n' Hcn. destruct (Hc c n' Hcn) as [H|[H _]]; [left|right]; exact H.
  - intros c Hreach.
    pose proof (reach_in_names _ _ _ _ Hwf Hreach) as Hn.
    destruct (restore_reachable _ _ _ _ ER c Hreach) as [Hs|(n & Hin & Hi)].
    + eapply inv_seen_annotated; eassumption.
    + apply (NoDup_In_assoc _ _ _ (wf_nodup _ _ _ Hwf)) in Hin.
      cbn [init_state st_ch] in Hframe.
      destruct (Hframe c n Hin) as (n' & Hn' & Hkind & _). exists n'. split; [exact Hn'|].
      destruct (Hc c n' Hn') as [Ha|[He _]]; [exact Ha|].
      exfalso. apply (erased_kind _ _ He). rewrite Hkind. apply is_input_kind. exact Hi.
Qed.

(* restored types are defined *)
Lemma annotated_defined t n : annotated t n ->
  ty_undef (node_tin n) = false /\ ty_undef (node_tout n) = false.
Proof. intros (k & fs & -> & _). split; reflexivity. Qed.

Theorem infer_then_check : forall T ch es m, wf_graph T ch es ->
  (forall c, In c (map fst ch) -> reach ch es c) ->
  forall g' oc, infer_types (mk_graph ch es m) = (g', oc) ->
    oc = Finished /\ check_types g' = Ok true /\
    exists ch', g' = mk_graph ch' es m /\ map fst ch' = map fst ch /\
      forall c, In c (map fst ch) ->
        exists k fs, assoc c ch' = Some (Leaf k fs (arr_ty "input" (fst (T c))) (arr_ty "output" (snd (T c)))).
Proof.
  intros T ch es m Hwf Hall g' oc Hinf.
  destruct (infer_restores T ch es m Hwf) as (ch' & Hres & Hk & _ & Hreach).
  rewrite Hres in Hinf. inversion Hinf; subst g' oc. split; [reflexivity|]. split.
  - unfold mk_graph. cbn [check_types]. apply check_edges_sound_complete. apply Forall_forall.
    intros [a b] Hab. destruct (wf_edges_ok _ _ _ Hwf a b Hab) as (Ha & Hb & HT).
    destruct (Hreach a (Hall a Ha)) as (na & Hna & (ka & fa & -> & _)).
    destruct (Hreach b (Hall b Hb)) as (nb & Hnb & (kb & fb & -> & _)).
    exists (Leaf ka fa (arr_ty "input" (fst (T a))) (arr_ty "output" (snd (T a)))),
           (Leaf kb fb (arr_ty "input" (fst (T b))) (arr_ty "output" (snd (T b)))),
           "output", (TArr (snd (T a))), "input", (TArr (fst (T b))), (snd (T a)).
    cbn [fst snd child_tout child_tin tyv_nums].
    split; [exact Hna|]. split; [exact Hnb|]. split; [reflexivity|]. split; [reflexivity|].
    split; [reflexivity|]. rewrite HT. reflexivity.
  - exists ch'. split; [reflexivity|]. split; [exact Hk|]. intros c Hc.
    destruct (Hreach c (Hall c Hc)) as (n' & Hn' & (k & fs & -> & _)). exists k, fs. exact Hn'.
Qed.

(* the theorems apply to the example *)
Example ex_restored :
  exists ch', infer_types (mk_graph ex_ch ex_es (VDict [])) = (mk_graph ch' ex_es (VDict []), Finished) /\
              check_types (mk_graph ch' ex_es (VDict [])) = Ok true.
Proof.
  destruct (infer_types (mk_graph ex_ch ex_es (VDict []))) as [g' oc] eqn:E.
  destruct (infer_then_check ex_T ex_ch ex_es (VDict []) ex_wf ex_all_reachable g' oc E)
    as (-> & Hc & ch' & -> & _).
  exists ch'. split; [reflexivity|exact Hc].
Qed.

Print Assumptions wf_graphb_sound.
Print Assumptions ex_wf.
Print Assumptions restore_step.
Print Assumptions restore_invariant.
Print Assumptions run_dfs_complete.
Print Assumptions restore_reachable.
Print Assumptions infer_restores.
Print Assumptions infer_then_check.
Print Assumptions ex_restored.
