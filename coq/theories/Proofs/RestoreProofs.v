(* RestoreProofs.v — property C08: the type-inference loop of Model/Graph.v (infer_types / run /
   apply_edge / derive_output) RESTORES erased shape annotations on consistent flat graphs.

   Differences with the informal statement (all checked by computation below, see the
   `counterexample_*` examples):
   - an erased Output whose stale input type holds a value that is not an array/sequence/None
     (TOther) makes the loop raise (np.array_equal fails): "any single-entry types" is too liberal;
     likewise a stale TSeq of the right shape is kept as is (TSeq, not TArr), and a stale correct
     array under a key different from "input" keeps its key.  `out_tin_ok` excludes exactly those.
   - a graph without any Input child makes infer_types raise NotImplementedErr before the loop
     starts: `wf_graph` asks for at least one Input child.
   - "it does not raise" needs every edge endpoint to be a child (KeyError otherwise): `wf_graph`
     asks for closed edges, and then (T1) is stated for every edge. *)
From NIR Require Import Model.Graph Proofs.ShapesProofs Proofs.NodesProofs Proofs.GraphProofs
  Proofs.InferProofs.
From Coq Require Import Lia List Bool String.

(* ================================================================================================ *)
(* (1) definitions                                                                                  *)
(* ================================================================================================ *)

(* ground truth: name -> (shape_in, shape_out) *)
Definition truth := string -> (list Z * list Z)%type.

(* ANNOTATED: the node carries exactly the truth t = (sin, sout); Input and Output nodes are
   identities on shapes *)
Definition annotated (t : list Z * list Z) (n : node) : Prop :=
  exists k fs, n = Leaf k fs (arr_ty "input" (fst t)) (arr_ty "output" (snd t)) /\
               (k = KInput \/ k = KOutput -> snd t = fst t).

(* the kinds whose output type the loop can recompute *)
Definition recomputable (k : kind) : bool :=
  match k with KConv1d | KConv2d | KSumPool2d | KAvgPool2d | KFlatten => true | _ => false end.

(* admissible stale input-type entry (ki, vi) of an erased Output whose true shape is sin *)
Definition out_tin_ok (sin : list Z) (ki : string) (vi : tyv) : bool :=
  match vi with
  | TNone => true
  | TArr x => negb (shape_eqb x sin) || String.eqb ki "input"
  | TSeq x => negb (shape_eqb x sin)
  | TOther => false
  end.

(* ERASED (and recomputable) w.r.t. the truth t = (sin, sout) *)
Definition erased_ok (t : list Z * list Z) (n : node) : Prop :=
  exists k fs ki vi tout, n = Leaf k fs (Some [(ki, vi)]) tout /\
    ((k = KOutput /\ out_tin_ok (fst t) ki vi = true /\ snd t = fst t) \/
     (recomputable k = true /\ vi = TNone /\ ty_undef tout = true /\
      exists fs', derive_output k fs [("output", TArr (fst t))] [("input", TArr (fst t))] =
                  (fs', Some [("output", TArr (snd t))], None))).

Definition child_ok (T : truth) (c : string) (n : node) : Prop :=
  annotated (T c) n \/ erased_ok (T c) n.

(* the hypotheses on the graph: distinct names, at least one Input, closed and consistent edges (T1),
   every child annotated or erased_ok (T2, T3).  (An Input child cannot be erased_ok, so for it
   child_ok means annotated, with shape_in = shape_out: lemma child_ok_input.) *)
Record wf_graph (T : truth) (ch : list (string * node)) (es : list (string * string)) : Prop := {
  wf_nodup : NoDup (map fst ch);
  wf_input : exists p, In p ch /\ is_input (snd p) = true;
  wf_edges : Forall (fun e => In (fst e) (map fst ch) /\ In (snd e) (map fst ch) /\
                              snd (T (fst e)) = fst (T (snd e))) es;
  wf_children : Forall (fun p => child_ok T (fst p) (snd p)) ch
}.

(* reachability from an Input child along edges *)
Inductive reach (ch : list (string * node)) (es : list (string * string)) : string -> Prop :=
| reach_input c n : In (c, n) ch -> is_input n = true -> reach ch es c
| reach_edge a b : reach ch es a -> In (a, b) es -> reach ch es b.

(* ---- the concrete example ------------------------------------------------------------------------ *)
Definition get_node (r : result node) : node :=
  match r with Ok n => n | Err _ => Leaf KInput [] None None end.

Definition ex_ch : list (string * node) :=
  [("input", get_node (construct KInput [("input_type", VArr "int64" [3] 0 (Some [2; 8; 8]))]));
   ("conv", get_node (construct KConv2d
       [("input_shape", VNone); ("weight", VArr "float32" [4; 2; 3; 3] 1 None); ("stride", VInt 1);
        ("padding", VInt 0); ("dilation", VInt 1); ("groups", VInt 1);
        ("bias", VArr "float32" [4] 2 None)]));
   ("flatten", get_node (construct KFlatten [("input_type", VNone)]));
   ("output", get_node (construct KOutput [("output_type", VNone)]));
   (* fan-out target: an Output carrying a WRONG shape *)
   ("output2", get_node (construct KOutput [("output_type", VArr "int64" [2] 3 (Some [9; 9]))]))].

Definition ex_es : list (string * string) :=
  [("input", "conv"); ("conv", "flatten"); ("flatten", "output"); ("conv", "output2")].

Definition ex_T : truth := fun c =>
  if String.eqb c "input" then ([2; 8; 8], [2; 8; 8])
  else if String.eqb c "conv" then ([2; 8; 8], [4; 6; 6])
  else if String.eqb c "flatten" then ([4; 6; 6], [4; 36])
  else if String.eqb c "output" then ([4; 36], [4; 36])
  else ([4; 6; 6], [4; 6; 6]).

Example ex_all_constructed :
  forallb (fun p => match snd p with Leaf KInput [] None None => false | _ => true end) ex_ch = true.
Proof. vm_compute. reflexivity. Qed.

Example ex_wf : wf_graph ex_T ex_ch ex_es.
Proof.
  constructor.
  - vm_compute. repeat (constructor; [cbn [In]; timeout 20 intuition discriminate|]).
    constructor.
  - eexists. split; [left; reflexivity|vm_compute; reflexivity].
  - repeat (apply Forall_cons; [vm_compute; repeat split; timeout 20 tauto|]). apply Forall_nil.
  - unfold ex_ch. apply Forall_cons.
    { left. vm_compute. eexists _, _. split; [reflexivity|]. intros _. reflexivity. }
    apply Forall_cons.
    { right. vm_compute. eexists _, _, _, _, _. split; [reflexivity|]. right.
      repeat split. eexists. reflexivity. }
    apply Forall_cons.
    { right. vm_compute. eexists _, _, _, _, _. split; [reflexivity|]. right.
      repeat split. eexists. reflexivity. }
    apply Forall_cons.
    { right. vm_compute. eexists _, _, _, _, _. split; [reflexivity|]. left.
      repeat split. }
    apply Forall_cons.
    { right. vm_compute. eexists _, _, _, _, _. split; [reflexivity|]. left.
      repeat split. }
    apply Forall_nil.
Qed.

Example ex_all_reachable : forall c, In c (map fst ex_ch) -> reach ex_ch ex_es c.
Proof.
  assert (Hi : reach ex_ch ex_es "input").
  { eapply reach_input; [left; reflexivity|vm_compute; reflexivity]. }
  assert (Hc : reach ex_ch ex_es "conv").
  { eapply reach_edge; [exact Hi|cbn; timeout 20 tauto]. }
  assert (Hf : reach ex_ch ex_es "flatten").
  { eapply reach_edge; [exact Hc|cbn; timeout 20 tauto]. }
  intros c H. cbn in H. repeat destruct H as [H|H]; subst; try assumption.
  - eapply reach_edge; [exact Hf|cbn; timeout 20 tauto].
  - eapply reach_edge; [exact Hc|cbn; timeout 20 tauto].
  - destruct H.
Qed.

(* what the loop computes on the example (sanity check of the statement, by evaluation) *)
Example ex_infer_result :
  let '(g', oc) := infer_types (mk_graph ex_ch ex_es (VDict [])) in
  oc = Finished /\ check_types g' = Ok true /\
  match g' with
  | Graph ch' _ _ _ _ =>
    map (fun p => (fst p, node_tin (snd p), node_tout (snd p))) ch' =
    map (fun p => (fst p, arr_ty "input" (fst (ex_T (fst p))), arr_ty "output" (snd (ex_T (fst p))))) ch'
  | _ => False
  end.
Proof. vm_compute. repeat split. Qed.
