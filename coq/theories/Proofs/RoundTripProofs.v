(* RoundTripProofs.v — property C01: THE FILE ROUND-TRIP THEOREM.

     (* THE THEOREM (c01_full_statement) *)
Theorem file_round_trip : forall g t, built g -> rt_domain g -> write g = Ok t ->
       exists g', read t = Ok g' /\ equiv g' g.

   For every node g produced by the constructors (`built`, DictProofs: a leaf returned by `construct`, or `mk_graph` of
   built children with distinct names, to any depth) that `write` accepts, `read (write g)` SUCCEEDS and returns a node
   equivalent to g.  Assembled from
     SerialProofs  read (write g) = from_dict d' with norm_entries (to_dict g) = Ok d'   (read_write_refines)
     DictProofs    from_dict (to_dict g) = Ok (canon g)                                  (construct_round)
     SimProofs     constructors only look at numeric views: post_init_sim, norm_val_vsim_deep and the
                   round-trip direction of its side conditions (norm_val_no0d / _not_pyint / _keeps_shape / _keeps_operand)
     MirrorClosedProofs  construct_leaf, built_mirrors_deep (via DictProofs).

   `equiv g' g` (= rt_rel g g', section 9), g the original, g' the node read back:
     leaf    same kind; same field names in the same order (equiv_field_names); every field value other than "metadata"
             related by SimProofs.vsim — ALSO the three paired hyper-parameters of a Conv2d, for which post_init_sim only
             gives c2sim: a stored one is never a Python int, on either side (conv2d_stored, norm_val_not_pyint) —, i.e.
             compared as numbers and arrays: Python ints come back as numpy integer scalars and integer tuples/lists as
             int64 arrays of equal value, 0-d arrays as the numpy scalar of the same dtype and content, str as str;
             ARRAY-VALUED FIELDS ARE IDENTICAL (arrays_same: same dtype, shape and content token — vsim alone would allow
             an integer array to change dtype);
             "metadata" read back is EXACTLY the file normal form of the original one: norm_val m = Ok m' (SerialProofs:
             empty nested "metadata" entries dropped, values as above, arrays at any depth identical: metadata_arrays);
             this needs no condition on the metadata at all, and implies vsim m m' when m is in the domain rt_ok of
             SimProofs (metadata_vsim);
             input/output types EQUAL, except the dictionary-born types of Input / Output / Flatten (SimProofs.loose_in,
             loose_out), equal up to the container of the numbers (tuple TSeq in the original, array TArr read back).
     graph   the same children: same names in the same order (equiv_child_names), recursively equivalent; the same edge
             list (=, order and duplicates included); metadata as above; graph-level types — recomputed from the children
             by mk_graph on both sides — entry by entry equal up to the container (gty_rel).

   `rt_domain g` (sections 8, 10, 11) = every leaf of g, at any depth, satisfies
     D1  every stored field other than "metadata" is rt_ok (SimProofs): no Python bool, no Python float, no bytes, and — if
         it is a dictionary — no empty "metadata" entry nested in it.   NEEDED: bool_needed (reading the file FAILS),
         bytes_needed, nested_empty_metadata_needed; floats: float_excluded (a limit of vsim, which keeps floats apart
         because the model does not record the content of the numpy float64 scalar read back).
     D2  padding / stride / dilation of a Conv1d / Conv2d are not 0-d ndarrays (hp0_names).   Needed by the lemma
         SimProofs.post_init_sim (its side condition S2), NOT by the round trip itself: hp0_not_necessary.  (A constructor
         that READS such a hyper-parameter rejects a 0-d array, so D2 only bites when it is left unread: padding "same",
         empty input shape.  For Flatten.start_dim / end_dim and Conv1d.input_shape the condition is DERIVED:
         flatten_dims_read, conv1d_ish_read.)
     D3  single_typed (DictProofs): the type dictionary of an Input / Output / Flatten node has the one entry that
         `to_dict` serialises.   NEEDED: single_needed (= DictProofs.extra_keys_lost).  Without D3 the theorem holds
         against `canon g`: file_round_trip_canon.
   NOTHING is assumed about metadata (floats, bools, nested empty metadata are all fine there), about names (write
   checks them), about None-valued fields (write rejects them) or about the graph-level types.  Distinct child names
   are part of `built`.  The remaining side conditions of post_init_sim are DERIVED from the success of the original
   constructor (post_init_shapes, cuba_operand, conv2d_stored) and from norm_val (brel_keeps).

   The example of section 12 (Input -> Conv2d -> Flatten -> CubaLIF -> Output, metadata tree with a float, a bool and an
   empty nested "metadata") is built, in the domain, written, read, and `equiv` is checked twice: by the theorem and
   directly against the definition. *)
From NIR Require Import Model.Graph Model.Serial Proofs.MirrorClosedProofs Proofs.SerialProofs Proofs.SimProofs
  Proofs.DictProofs.
From NIR Require Proofs.NodesProofs.
From Coq Require Import Lia List Bool String.

Lemma norm_entries_app a : forall b c,
  norm_entries (a ++ b) = Ok c ->
  exists a' b', norm_entries a = Ok a' /\ norm_entries b = Ok b' /\ c = a' ++ b'.
Proof.
  induction a as [|[k x] r IH]; intros b c H.
  - exists [], c. repeat split. exact H.
  - cbn [app] in H. rewrite norm_entries_cons in H. rewrite norm_entries_cons.
    destruct (has_bad_char k); [discriminate|].
    apply bind_ok in H as (here & Hhere & H). apply bind_ok in H as (rest & Hrest & H). inversion H; subst c.
    destruct (IH _ _ Hrest) as (a' & b' & Ha & Hb & ->).
    rewrite Hhere, Ha. cbn [bind]. exists (here ++ a'), b'. repeat split; [exact Hb|apply app_assoc].
Qed.

(* ================================================================================================ *)
(* (0) association lists                                                                            *)
(* ================================================================================================ *)
Lemma assoc_set_app_none {A} k (v : A) a b : assoc k a = None -> assoc_set k v (a ++ b) = a ++ assoc_set k v b.
Proof.
  induction a as [|[k' v'] r IH]; cbn [assoc assoc_set app]; [reflexivity|].
  destruct (String.eqb k k'); [discriminate|]. intros H. rewrite (IH H). reflexivity.
Qed.

Lemma assoc_in_keys {A} k (l : list (string * A)) v : assoc k l = Some v -> In k (map fst l).
Proof. intros H. apply assoc_In in H. apply in_map_iff. exists (k, v). split; [reflexivity|exact H]. Qed.

Lemma assoc_not_in {A} k (l : list (string * A)) : ~ In k (map fst l) -> assoc k l = None.
Proof. apply assoc_none_keys. Qed.

(* ================================================================================================ *)
(* (1) the dictionary of a leaf and what dict2node does with it                                     *)
(* ================================================================================================ *)
(* the class-specific entry that follows the type tag, and the keyword argument dict2node makes of it *)
Definition extra_entries (k : kind) (sv : pval) : list (string * pval) :=
  match k with
  | KInput | KOutput => [("shape", sv)]
  | KFlatten => [("input_type", sv)]
  | _ => []
  end.
Definition xargs (k : kind) (sv : pval) : list (string * pval) :=
  match k with
  | KInput => [("input_type", VDict [("input", sv)])]
  | KOutput => [("output_type", VDict [("output", sv)])]
  | KFlatten => [("input_type", VDict [("input", sv)])]
  | _ => []
  end.
Definition extra_val (k : kind) (ti to : ty) : pval :=
  match k with
  | KInput | KFlatten => ty_get "input" ti
  | KOutput => ty_get "output" to
  | _ => VNone
  end.

Lemma to_dict_leaf k fs ti to :
  to_dict (Leaf k fs ti to) = fs ++ ("type", VStr (kind_name k)) :: extra_entries k (extra_val k ti to).
Proof. destruct k; cbn [to_dict extra_entries extra_val]; rewrite <- ?app_assoc; reflexivity. Qed.

Definition tag_free (fs : list (string * pval)) : Prop :=
  assoc "type" fs = None /\ assoc "shape" fs = None /\ assoc "input_type" fs = None /\ assoc "output_type" fs = None.

Lemma dict2node_leaf_form k fs sv f :
  k <> KGraph -> tag_free fs ->
  dict2node (S f) (fs ++ ("type", VStr (kind_name k)) :: extra_entries k sv) = construct k (fs ++ xargs k sv).
Proof.
  intros Hk (Ht & Hs & Hi & Ho).
  rewrite (dict2node_tag f _ k)
    by (rewrite assoc_app_none by exact Ht; cbn [assoc String.eqb Ascii.eqb Bool.eqb andb]; reflexivity).
  destruct k; try (exfalso; apply Hk; reflexivity); cbn [extra_entries xargs];
    try (rewrite assoc_del_app, (assoc_del_absent _ _ Ht);
         cbn [assoc_del String.eqb Ascii.eqb Bool.eqb andb]; reflexivity).
  - rewrite (assoc_app_none _ _ _ Hs). cbn [assoc String.eqb Ascii.eqb Bool.eqb andb].
    rewrite (assoc_set_app_none _ _ _ _ Hi). cbn [assoc_set String.eqb Ascii.eqb Bool.eqb andb].
    rewrite !assoc_del_app, (assoc_del_absent _ _ Hs). cbn [assoc_del String.eqb Ascii.eqb Bool.eqb andb].
    rewrite (assoc_del_absent _ _ Ht). reflexivity.
  - rewrite (assoc_app_none _ _ _ Hs). cbn [assoc String.eqb Ascii.eqb Bool.eqb andb].
    rewrite (assoc_set_app_none _ _ _ _ Ho). cbn [assoc_set String.eqb Ascii.eqb Bool.eqb andb].
    rewrite !assoc_del_app, (assoc_del_absent _ _ Hs). cbn [assoc_del String.eqb Ascii.eqb Bool.eqb andb].
    rewrite (assoc_del_absent _ _ Ht). reflexivity.
  - rewrite (assoc_app_none _ _ _ Hi). cbn [assoc String.eqb Ascii.eqb Bool.eqb andb]. cbv zeta.
    rewrite (assoc_set_app_none _ _ _ _ Hi). cbn [assoc_set String.eqb Ascii.eqb Bool.eqb andb].
    rewrite !assoc_del_app. cbn [assoc_del String.eqb Ascii.eqb Bool.eqb andb].
    rewrite (assoc_del_absent _ _ Ht). reflexivity.
Qed.

(* ================================================================================================ *)
(* (2) norm_entries, entry by entry                                                                 *)
(* ================================================================================================ *)
Definition norm_here (k : string) (x : pval) : result (list (string * pval)) :=
  if String.eqb k "metadata" then
    match x with
    | VDict [] => Ok []
    | VDict _ => do y <- norm_val x; Ok [(k, y)]
    | _ => Err AttributeError
    end
  else if unusable_name k then Err ValueError
  else do y <- norm_val x; Ok [(k, y)].

Lemma norm_entries_cons' k x r :
  norm_entries ((k, x) :: r) =
  if has_bad_char k then Err ValueError else
  do here <- norm_here k x; do rest <- norm_entries r; Ok (here ++ rest).
Proof. reflexivity. Qed.

Lemma norm_here_cases k x here : norm_here k x = Ok here ->
  (k = "metadata" /\ x = VDict [] /\ here = []) \/
  (exists y, norm_val x = Ok y /\ here = [(k, y)] /\ (k = "metadata" -> x <> VDict [] /\ is_dict x = true)).
Proof.
  unfold norm_here. intros H. destruct (String.eqb k "metadata") eqn:Ek.
  - apply String.eqb_eq in Ek. destruct x; try discriminate H. destruct kv as [|e0 kv0].
    + left. inversion H. repeat split. exact Ek.
    + right. apply bind_ok in H as (y & Hy & H). inversion H. exists y. repeat split; try assumption. discriminate.
  - apply String.eqb_neq in Ek. destruct (unusable_name k); [discriminate H|].
    right. apply bind_ok in H as (y & Hy & H). inversion H. exists y. repeat split; try assumption; contradiction.
Qed.

Lemma norm_entries_cons_inv k x r c : norm_entries ((k, x) :: r) = Ok c ->
  exists here rest, norm_here k x = Ok here /\ norm_entries r = Ok rest /\ c = here ++ rest.
Proof.
  rewrite norm_entries_cons'. destruct (has_bad_char k); [discriminate|]. intros H.
  apply bind_ok in H as (here & Hhere & H). apply bind_ok in H as (rest & Hrest & H). inversion H.
  exists here, rest. repeat split; assumption.
Qed.

Lemma norm_entries_keys kv kv' f : norm_entries kv = Ok kv' -> In f (map fst kv') -> In f (map fst kv).
Proof.
  intros H Hin. apply in_map_iff in Hin as ([f' v'] & <- & Hin). cbn [fst].
  destruct (norm_entries_from _ _ _ _ H Hin) as (v & Hv & _). apply in_map_iff. exists (f', v). split; [reflexivity|exact Hv].
Qed.

(* lookups, when the keys are distinct *)
Lemma norm_entries_assoc kv : forall kv', NoDup (map fst kv) -> norm_entries kv = Ok kv' -> forall f,
  match assoc f kv with
  | None => assoc f kv' = None
  | Some v => (f = "metadata" /\ v = VDict [] /\ assoc f kv' = None) \/
              (exists v', norm_val v = Ok v' /\ assoc f kv' = Some v' /\ (f = "metadata" -> v <> VDict [] /\ is_dict v = true))
  end.
Proof.
  induction kv as [|[k0 x] r IH]; intros kv' Hnd H f.
  - cbn in H. inversion H. reflexivity.
  - apply norm_entries_cons_inv in H as (here & rest & Hhere & Hrest & ->).
    cbn [map fst] in Hnd. inversion Hnd as [|? ? Hnot Hnd']; subst.
    specialize (IH _ Hnd' Hrest f). cbn [assoc].
    destruct (String.eqb f k0) eqn:E.
    + apply String.eqb_eq in E. subst k0.
      rewrite (assoc_not_in _ _ Hnot) in IH.
      destruct (norm_here_cases _ _ _ Hhere) as [(Hk & Hx & ->)|(y & Hy & -> & Hm)].
      * left. repeat split; assumption.
      * right. exists y. cbn [app assoc]. rewrite String.eqb_refl. repeat split; try assumption; apply Hm; assumption.
    + assert (assoc f (here ++ rest) = assoc f rest) as ->; [|exact IH].
      destruct (norm_here_cases _ _ _ Hhere) as [(_ & _ & ->)|(y & _ & -> & _)]; [reflexivity|].
      cbn [app assoc]. rewrite E. reflexivity.
Qed.

(* ================================================================================================ *)
(* (3) keyword binding on the two sides                                                             *)
(* ================================================================================================ *)
(* how a bound field value `a` of the original relates to the value `b` bound on the file side: the metadata tree by
   the specification of the file round trip itself; every other field either by that specification too (and then the
   value is in the domain `rt_ok` where the specification implies vsim), or it is the same dataclass default *)
Definition brel (f : string) (a b : pval) : Prop :=
  if String.eqb f "metadata" then norm_val a = Ok b else (norm_val a = Ok b /\ rt_ok a) \/ a = b.

(* keyword arguments of the two constructor calls: an empty metadata is not in the file *)
Definition arel (f : string) (o o' : option pval) : Prop :=
  match o, o' with
  | Some a, Some b => brel f a b
  | None, None => f <> "metadata"
  | Some a, None => f = "metadata" /\ a = VDict []
  | None, Some _ => False
  end.

Lemma metadata_is_factory_b :
  forallb (fun k => match class_fields k with
                    | Some tbl => forallb (fun p => negb (String.eqb (fst p) "metadata") ||
                                                    match snd p with FDictFactory => true | _ => false end) tbl
                    | None => true
                    end) all_kinds = true.
Proof. vm_compute. reflexivity. Qed.

Lemma metadata_is_factory k tbl d : class_fields k = Some tbl -> In ("metadata", d) tbl -> d = FDictFactory.
Proof.
  intros Hc Hin. pose proof metadata_is_factory_b as H. rewrite forallb_forall in H.
  specialize (H k (all_kinds_complete k)). rewrite Hc in H. rewrite forallb_forall in H.
  specialize (H _ Hin). cbn [fst snd] in H. rewrite String.eqb_refl in H. cbn [negb orb] in H.
  destruct d; try discriminate H. reflexivity.
Qed.

Lemma bind_fields_arel tbl A A' :
  (forall d, In ("metadata", d) tbl -> d = FDictFactory) ->
  (forall f, arel f (assoc f A) (assoc f A')) ->
  res_rel (fields_rel brel) (bind_fields tbl A) (bind_fields tbl A').
Proof.
  intros Hm Ha. induction tbl as [|[f d] r IH]; cbn [bind_fields]; [constructor|].
  assert (IH' : res_rel (fields_rel brel) (bind_fields r A) (bind_fields r A'))
    by (apply IH; intros d0 Hd0; apply Hm; right; exact Hd0). clear IH.
  assert (Hv : res_rel (brel f)
            match assoc f A with Some v => Ok v | None =>
              match d with FMandatory => Err TypeError | FDefault v => Ok v | FDictFactory => Ok (VDict []) | FUnknown => Err OtherError end end
            match assoc f A' with Some v => Ok v | None =>
              match d with FMandatory => Err TypeError | FDefault v => Ok v | FDictFactory => Ok (VDict []) | FUnknown => Err OtherError end end).
  { specialize (Ha f). unfold arel in Ha. destruct (assoc f A) as [a|], (assoc f A') as [b|]; try contradiction.
    - exact Ha.
    - destruct Ha as [-> ->]. rewrite (Hm d) by (left; reflexivity). cbn [res_rel]. unfold brel. reflexivity.
    - unfold brel. apply String.eqb_neq in Ha. rewrite Ha. destruct d; cbn [res_rel]; try exact I; right; reflexivity. }
  destruct (match assoc f A with Some v => Ok v | None => _ end) as [v|],
           (match assoc f A' with Some v => Ok v | None => _ end) as [v'|]; cbn [res_rel bind] in *; try contradiction; [|exact I].
  destruct (bind_fields r A) as [rest|], (bind_fields r A') as [rest'|]; cbn [res_rel bind] in *; try contradiction; [|exact I].
  constructor; [split; [reflexivity|exact Hv]|exact IH'].
Qed.

Lemma bind_args_arel k A A' bfs :
  (forall f, In f (map fst A') -> In f (map fst A)) ->
  (forall f, arel f (assoc f A) (assoc f A')) ->
  bind_args k A = Ok bfs ->
  exists bfs', bind_args k A' = Ok bfs' /\ fields_rel brel bfs bfs'.
Proof.
  intros Hsub Ha Hb. unfold bind_args in *. destruct (class_fields k) as [tbl|] eqn:Hc; [|discriminate Hb].
  destruct (forallb (fun a => mem_str (fst a) (keys tbl)) A) eqn:Hall; [|discriminate Hb].
  assert (forallb (fun a => mem_str (fst a) (keys tbl)) A' = true) as ->.
  { rewrite forallb_forall in Hall |- *. intros [f v] Hin. cbn [fst].
    assert (In f (map fst A)) as Hf by (apply Hsub, in_map_iff; exists (f, v); split; [reflexivity|exact Hin]).
    apply in_map_iff in Hf as ([f' w] & <- & Hin'). exact (Hall _ Hin'). }
  pose proof (bind_fields_arel tbl A A' (fun d => metadata_is_factory k tbl d Hc) Ha) as H.
  rewrite Hb in H. destruct (bind_fields tbl A') as [bfs'|]; cbn [res_rel] in H; [|contradiction].
  exists bfs'. split; [reflexivity|exact H].
Qed.

(* ================================================================================================ *)
(* (4) metadata is inert: post_init commutes with replacing the metadata value                      *)
(* ================================================================================================ *)
Definition set_meta (m : pval) (n : node) : node :=
  match n with Leaf k f ti to => Leaf k (assoc_set "metadata" m f) ti to | g => g end.
Definition map_res {A B} (f : A -> B) (r : result A) : result B :=
  match r with Ok a => Ok (f a) | Err e => Err e end.

Lemma assoc_set_comm {A} k1 k2 (v1 v2 : A) l :
  k1 <> k2 -> assoc k1 l <> None -> assoc_set k1 v1 (assoc_set k2 v2 l) = assoc_set k2 v2 (assoc_set k1 v1 l).
Proof.
  intros Hne. induction l as [|[k' v'] r IH]; cbn [assoc assoc_set]; [congruence|].
  destruct (String.eqb k1 k') eqn:E1; destruct (String.eqb k2 k') eqn:E2; cbn [assoc_set]; rewrite ?E1, ?E2; intros Hp.
  - apply String.eqb_eq in E1. apply String.eqb_eq in E2. congruence.
  - apply String.eqb_eq in E1. subst k'. rewrite E2. reflexivity.
  - apply String.eqb_eq in E2. subst k'. rewrite E1. reflexivity.
  - rewrite (IH Hp). reflexivity.
Qed.

Lemma push_meta k (v m : pval) l :
  k <> "metadata" -> assoc "metadata" l <> None ->
  assoc_set k v (assoc_set "metadata" m l) = assoc_set "metadata" m (assoc_set k v l).
Proof. intros Hk Hp. symmetry. apply assoc_set_comm; [intros E; apply Hk; symmetry; exact E|exact Hp]. Qed.

Lemma meta_present_set k (v : pval) l : k <> "metadata" -> assoc "metadata" l <> None -> assoc "metadata" (assoc_set k v l) <> None.
Proof. intros Hk Hp. rewrite assoc_set_other' by (intros E; apply Hk; symmetry; exact E). exact Hp. Qed.

Lemma meta_present_drop (l : list (string * pval)) : assoc "metadata" l <> None -> assoc "metadata" (drop_types l) <> None.
Proof. intros Hp. rewrite drop_types_assoc by discriminate. exact Hp. Qed.

Lemma drop_types_set_meta m fs : drop_types (assoc_set "metadata" m fs) = assoc_set "metadata" m (drop_types fs).
Proof. apply drop_types_set; discriminate. Qed.

Ltac mstep :=
  match goal with
  | |- context [fld_shape ?f ?fs] => destruct (fld_shape f fs) eqn:?; cbn [bind map_res]
  | |- context [fld ?f ?fs] => destruct (fld f fs) eqn:?; cbn [bind map_res]
  | |- context [if ?x then _ else _] => destruct x eqn:?; cbn [bind map_res]
  | |- context [match ?x with _ => _ end] => destruct x eqn:?; cbn [bind map_res]
  | |- context [bind ?r _] => destruct r eqn:?; cbn [bind map_res]
  end.

Lemma post_init_set_meta k fs m :
  assoc "metadata" fs <> None ->
  post_init k (assoc_set "metadata" m fs) = map_res (set_meta m) (post_init k fs).
Proof.
  intros Hp.
  destruct k; unfold post_init, elementwise, matvec; cbn [mapM]; meta_rw; cbn [bind].
  all: timeout 300 (repeat mstep).
  all: try reflexivity.
  all: cbn [set_meta]; rewrite ?drop_types_set_meta; try reflexivity.
  all: repeat (rewrite push_meta by (first [discriminate | repeat apply meta_present_set; try discriminate;
                                              first [exact Hp | apply meta_present_drop; exact Hp]]));
       rewrite ?drop_types_set_meta; reflexivity.
Qed.

(* ================================================================================================ *)
(* (5) the stored fields of a constructed leaf (facts computed from the generated table)            *)
(* ================================================================================================ *)
Definition leaf_keys (k : kind) : list string := filter not_type_key (class_keys k).

Lemma leaf_keys_facts_b :
  forallb (fun k => nodupb (leaf_keys k) && mem_str "metadata" (leaf_keys k) &&
                    negb (mem_str "type" (leaf_keys k)) && negb (mem_str "shape" (leaf_keys k)) &&
                    negb (mem_str "input_type" (leaf_keys k)) && negb (mem_str "output_type" (leaf_keys k))) all_kinds = true.
Proof. vm_compute. reflexivity. Qed.

Lemma not_mem_str s l : mem_str s l = false -> ~ In s l.
Proof. intros H Hin. apply mem_str_In in Hin. congruence. Qed.

Lemma constructed_keys k args k' fs ti to :
  construct k args = Ok (Leaf k' fs ti to) ->
  NoDup (map fst fs) /\ assoc "metadata" fs <> None /\ tag_free fs.
Proof.
  intros H. apply construct_keys in H. fold (leaf_keys k) in H.
  pose proof leaf_keys_facts_b as F. rewrite forallb_forall in F. specialize (F k (all_kinds_complete k)).
  rewrite <- H in F. repeat (apply andb_prop in F as [F ?]).
  repeat match goal with E : negb _ = true |- _ => apply negb_true_iff, not_mem_str in E end.
  split; [apply nodupb_NoDup; exact F|]. split.
  - intros E. apply assoc_none_keys in E. apply E. apply mem_str_In. assumption.
  - repeat split; apply assoc_not_in; assumption.
Qed.

(* what is passed is what is bound *)
Lemma bind_fields_assoc tbl A : forall b, bind_fields tbl A = Ok b ->
  forall f v, assoc f A = Some v -> In f (keys tbl) -> assoc f b = Some v.
Proof.
  induction tbl as [|[f0 d0] r IH]; intros b H f v Hf Hin; [destruct Hin|].
  cbn [bind_fields] in H. apply bind_ok in H as (v0 & Hv0 & H). apply bind_ok in H as (rest & Hrest & H).
  inversion H; subst b. cbn [assoc]. destruct (String.eqb f f0) eqn:E.
  - apply String.eqb_eq in E. subst f0. rewrite Hf in Hv0. inversion Hv0. reflexivity.
  - apply (IH _ Hrest _ _ Hf). destruct Hin as [Hin|Hin]; [|exact Hin]. cbn [fst] in Hin. subst f0.
    rewrite String.eqb_refl in E. discriminate.
Qed.

Lemma bind_args_assoc k A b f v : bind_args k A = Ok b -> assoc f A = Some v -> assoc f b = Some v.
Proof.
  unfold bind_args. destruct (class_fields k) as [tbl|]; [|discriminate].
  destruct (forallb _ A) eqn:Hall; [|discriminate]. intros Hb Hf.
  apply (bind_fields_assoc _ _ _ Hb _ _ Hf). rewrite forallb_forall in Hall.
  apply mem_str_In. exact (Hall _ (assoc_In _ _ _ Hf)).
Qed.

(* ================================================================================================ *)
(* (6) the side conditions of post_init_sim in the round-trip direction                             *)
(* ================================================================================================ *)
Definition keeps (a b : pval) : Prop :=
  vsim a b /\
  (is_ok (shape_attr a) = true -> is_ok (shape_attr b) = true) /\
  (is0d a = false -> is0d b = false) /\
  (is_ok (operand_shape a) = true -> is_ok (operand_shape b) = true) /\
  (is_pyint a = false -> is_pyint b = false).

Lemma keeps_refl a : keeps a a.
Proof. split; [apply vs_refl|]. repeat split; trivial. Qed.

Lemma brel_keeps f a b : f <> "metadata" -> brel f a b -> keeps a b.
Proof.
  intros Hf H. unfold brel in H. apply String.eqb_neq in Hf. rewrite Hf in H.
  destruct H as [[Hn Hok]| ->]; [|apply keeps_refl].
  split; [apply norm_val_vsim_deep; assumption|]. split; [apply norm_val_keeps_shape; exact Hn|].
  split; [intros _; apply (norm_val_no0d _ _ Hn)|]. split; [apply norm_val_keeps_operand; exact Hn|].
  intros _. apply (norm_val_not_pyint _ _ Hn).
Qed.

(* what the success of the constructor on the original side tells about the fields it read *)
Definition orig_ok (k : kind) (bfs : list (string * pval)) : Prop :=
  Forall (fun f => is_ok (fld_shape f bfs) = true) (shape_names k) /\
  Forall (fun f => fld_no0d f bfs) (no0d_names k) /\
  (k = KCubaLIF -> forall w, assoc "w_in" bfs = Some w -> is_ok (operand_shape w) = true) /\
  (k = KConv2d -> forall f v, In f ["padding"; "stride"; "dilation"] -> assoc f bfs = Some v -> is_pyint v = false).

Lemma side_names_b :
  forallb (fun k => negb (mem_str "metadata" (shape_names k ++ no0d_names k))) all_kinds = true.
Proof. vm_compute. reflexivity. Qed.

Lemma side_names_not_meta k f : In f (shape_names k ++ no0d_names k) -> f <> "metadata".
Proof.
  intros Hin ->. pose proof side_names_b as F. rewrite forallb_forall in F. specialize (F k (all_kinds_complete k)).
  apply negb_true_iff, not_mem_str in F. exact (F Hin).
Qed.

Definition keeps_fields (fs fs' : list (string * pval)) : Prop :=
  forall f, f <> "metadata" ->
    match assoc f fs, assoc f fs' with
    | Some a, Some b => keeps a b
    | None, None => True
    | _, _ => False
    end.

Lemma side_from k bfs bfs2 : keeps_fields bfs bfs2 -> orig_ok k bfs -> side k bfs bfs2.
Proof.
  intros Hk (Hsh & Hz & Hcu & Hc2). unfold side. split; [|split; [|split]].
  - apply Forall_forall. intros f Hin. rewrite Forall_forall in Hsh. specialize (Hsh f Hin).
    assert (Hf : f <> "metadata") by (apply (side_names_not_meta k), in_or_app; left; exact Hin).
    specialize (Hk f Hf). unfold shape_stable, fld_shape, fld in *.
    destruct (assoc f bfs) as [a|]; [|discriminate Hsh]. destruct (assoc f bfs2) as [b|]; [|contradiction].
    cbn [bind] in *. destruct Hk as (_ & Hs & _). rewrite Hsh, (Hs Hsh). reflexivity.
  - apply Forall_forall. intros f Hin. rewrite Forall_forall in Hz. specialize (Hz f Hin).
    assert (Hf : f <> "metadata") by (apply (side_names_not_meta k), in_or_app; right; exact Hin).
    specialize (Hk f Hf). split; [exact Hz|]. unfold fld_no0d in *.
    destruct (assoc f bfs) as [a|], (assoc f bfs2) as [b|]; try contradiction; [|exact I].
    destruct Hk as (_ & _ & H0 & _). apply H0. exact Hz.
  - intros Ek. specialize (Hcu Ek). specialize (Hk "w_in"). unfold opshape_stable.
    destruct (assoc "w_in" bfs) as [a|], (assoc "w_in" bfs2) as [b|]; try exact I.
    destruct (Hk ltac:(discriminate)) as (_ & _ & _ & Ho & _). rewrite (Hcu a eq_refl), (Ho (Hcu a eq_refl)). reflexivity.
  - intros Ek. specialize (Hc2 Ek). right.
    assert (Hps : forall f, In f ["padding"; "stride"; "dilation"] -> pyint_stable f bfs bfs2).
    { intros f Hin. unfold pyint_stable.
      assert (Hf : f <> "metadata") by (destruct Hin as [<-|[<-|[<-|[]]]]; discriminate).
      specialize (Hk f Hf). destruct (assoc f bfs) as [a|] eqn:Ea, (assoc f bfs2) as [b|]; try exact I.
      destruct Hk as (_ & _ & _ & _ & Hp). rewrite (Hc2 f a Hin Ea), (Hp (Hc2 f a Hin Ea)). reflexivity. }
    repeat split; apply Hps; cbn [In]; timeout 20 tauto.
Qed.

Lemma post_init_shapes k fs n :
  post_init k fs = Ok n -> assoc "input_shape" fs <> Some VNone ->
  Forall (fun f => is_ok (fld_shape f fs) = true) (shape_names k).
Proof.
  intros H Hish.
  destruct k; cbn [shape_names]; try apply Forall_nil;
    unfold post_init, elementwise, matvec in H; cbn [mapM] in H; ok_walk H;
    repeat match goal with E : bind _ _ = Ok _ |- _ => ok_walk E end;
    try (exfalso; apply Hish; apply fld_assoc; assumption);
    repeat (apply Forall_cons; [match goal with E : fld_shape ?f ?fs = Ok _ |- is_ok (fld_shape ?f ?fs) = true =>
                                  rewrite E; reflexivity end|]); apply Forall_nil.
Qed.

Lemma cuba_operand fs n w :
  post_init KCubaLIF fs = Ok n -> assoc "w_in" fs = Some w -> is_ok (operand_shape w) = true.
Proof.
  intros H Hw. unfold post_init in H. ok_walk H.
  all: match goal with E : fld "w_in" _ = Ok _ |- _ => apply fld_assoc in E; rewrite Hw in E; inversion E; subst end.
  all: match goal with E : operand_shape _ = Ok _ |- _ => rewrite E; reflexivity end.
Qed.

Lemma conv2d_stored args k' fs ti to :
  construct KConv2d args = Ok (Leaf k' fs ti to) ->
  forall f, In f ["padding"; "stride"; "dilation"] -> exists v, assoc f fs = Some v /\ is_pyint v = false.
Proof.
  intros H. open_construct H Hb. red_in H. cbn [assoc_set String.eqb Ascii.eqb Bool.eqb andb] in H.
  ok_walk H.
  all: intros f Hin; destruct Hin as [<-|[<-|[<-|[]]]]; cbn_fields; cbn [assoc String.eqb Ascii.eqb Bool.eqb andb];
       eexists; (split; [reflexivity|apply pair_if_int_not_pyint]).
Qed.

(* ================================================================================================ *)
(* (7) helpers for the leaf theorem                                                                 *)
(* ================================================================================================ *)
Lemma assoc_set_twice {A} k (v v0 : A) l : assoc_set k v (assoc_set k v0 l) = assoc_set k v l.
Proof.
  induction l as [|[k' v'] r IH]; cbn [assoc_set].
  - rewrite String.eqb_refl. reflexivity.
  - destruct (String.eqb k k') eqn:E; cbn [assoc_set].
    + rewrite String.eqb_refl. reflexivity.
    + rewrite E, IH. reflexivity.
Qed.

Lemma assoc_set_same {A} k (v : A) l : assoc k l = Some v -> assoc_set k v l = l.
Proof.
  induction l as [|[k' v'] r IH]; cbn [assoc assoc_set]; [discriminate|].
  destruct (String.eqb k k') eqn:E.
  - apply String.eqb_eq in E. subst k'. intros H. inversion H. reflexivity.
  - intros H. rewrite (IH H). reflexivity.
Qed.

Lemma fields_rel_weaken_keys (R R' : string -> pval -> pval -> Prop) fs fs' :
  (forall f a b, In f (map fst fs) -> R f a b -> R' f a b) -> fields_rel R fs fs' -> fields_rel R' fs fs'.
Proof.
  intros HR H. induction H as [|[k a] [k' b] r r' [Hk Hv] Hr IH]; [constructor|].
  cbn [fst snd] in Hk, Hv. subst k'. constructor.
  - split; [reflexivity|]. cbn [fst snd]. apply HR; [left; reflexivity|exact Hv].
  - apply IH. intros f a0 b0 Hin. apply HR. right. exact Hin.
Qed.

(* replace the metadata value on the right-hand side *)
Lemma fields_rel_set_meta (R R' : string -> pval -> pval -> Prop) fs fs' a m :
  fields_rel R fs fs' -> NoDup (map fst fs) ->
  (forall f x y, f <> "metadata" -> R f x y -> R' f x y) ->
  assoc "metadata" fs = Some a -> R' "metadata" a m ->
  fields_rel R' fs (assoc_set "metadata" m fs').
Proof.
  intros H Hnd HR. induction H as [|[k x] [k' y] r r' [Hk Hv] Hr IH]; intros Ha Hm; [discriminate Ha|].
  cbn [fst snd] in Hk, Hv. subst k'. cbn [map fst] in Hnd. inversion Hnd as [|? ? Hnot Hnd']; subst.
  cbn [assoc] in Ha. cbn [assoc_set]. destruct (String.eqb "metadata" k) eqn:E.
  - apply String.eqb_eq in E. subst k. inversion Ha; subst x. constructor; [split; [reflexivity|exact Hm]|].
    apply (fields_rel_weaken_keys R R'); [|exact Hr].
    intros f x0 y0 Hin. apply HR. intros ->. contradiction.
  - constructor; [|apply IH; assumption]. split; [reflexivity|]. cbn [fst snd]. apply HR; [|exact Hv].
    intros ->. rewrite String.eqb_refl in E. discriminate.
Qed.

(* the tail of the dictionary of a leaf: type tag and class-specific entry *)
Definition has_extra (k : kind) : bool := match k with KInput | KOutput | KFlatten => true | _ => false end.

Lemma norm_tail k s sv r :
  norm_entries (("type", VStr s) :: extra_entries k sv) = Ok r ->
  exists sv', r = ("type", VStr s) :: extra_entries k sv' /\ (has_extra k = true -> norm_val sv = Ok sv').
Proof.
  intros H. apply norm_entries_cons_inv in H as (here & rest & Hhere & Hrest & ->).
  unfold norm_here in Hhere. cbn in Hhere. inversion Hhere; subst here. clear Hhere.
  destruct k; cbn [extra_entries has_extra] in *;
    try (cbn in Hrest; inversion Hrest; subst rest; exists sv; split; [reflexivity|discriminate]).
  all: apply norm_entries_cons_inv in Hrest as (here & rest' & Hhere & Hrest & ->);
       cbn in Hrest; inversion Hrest; subst rest';
       unfold norm_here in Hhere; cbn [String.eqb Ascii.eqb Bool.eqb andb unusable_name orb] in Hhere;
       apply bind_ok in Hhere as (y & Hy & Hh); inversion Hh; subst here;
       exists y; split; [reflexivity|intros _; exact Hy].
Qed.

(* ---- arrays are stored as they are passed ----------------------------------------------------- *)
Lemma pair_if_int_arr dt sh tok i : pair_if_int (VArr dt sh tok i) = VArr dt sh tok i.
Proof. reflexivity. Qed.

Lemma post_init_arrays k fs0 k' f ti to g dt sh tok i :
  post_init k fs0 = Ok (Leaf k' f ti to) ->
  g <> "input_type" -> g <> "output_type" -> (k = KCubaLIF -> g <> "w_in") ->
  assoc g fs0 = Some (VArr dt sh tok i) -> assoc g f = Some (VArr dt sh tok i).
Proof.
  intros H G1 G2 G3 Ha.
  destruct k; unfold post_init, elementwise, matvec in H; ok_walk H;
    repeat match goal with E : _ = Ok (Leaf _ _ _ _) |- _ => progress ok_walk E end;
    try (rewrite drop_types_assoc by assumption; exact Ha).
  (* CubaLIF *)
  all: try (rewrite assoc_set_other' by (apply G3; reflexivity); rewrite drop_types_assoc by assumption; exact Ha).
  (* Conv2d *)
  all: rewrite drop_types_assoc by assumption; rewrite !assoc_assoc_set;
    repeat match goal with |- context [String.eqb ?x ?s] =>
      let E := fresh "Eg" in destruct (String.eqb x s) eqn:E; [apply String.eqb_eq in E; subst x|] end;
    try exact Ha;
    match goal with E : fld ?s _ = Ok ?v |- Some (pair_if_int ?v) = _ =>
      apply fld_assoc in E; rewrite Ha in E; inversion E; reflexivity end.
Qed.

Lemma cuba_w_in fs0 k' f ti to :
  post_init KCubaLIF fs0 = Ok (Leaf k' f ti to) -> exists sh, assoc "w_in" f = Some (VArr "?" sh (-1) None).
Proof.
  intros H. unfold post_init in H. ok_walk H. eexists. rewrite assoc_assoc_set. cbn. reflexivity.
Qed.

Lemma kind_cuba_dec k : {k = KCubaLIF} + {k <> KCubaLIF}.
Proof. destruct k; first [left; reflexivity|right; discriminate]. Qed.

(* array-valued stored fields are read back IDENTICAL: same dtype, same shape, same content token *)
Definition arrays_same (fs fs' : list (string * pval)) : Prop :=
  forall f dt sh tok i, assoc f fs = Some (VArr dt sh tok i) -> sh <> [] -> assoc f fs' = Some (VArr dt sh tok i).

Lemma brel_array f dt sh tok i b : sh <> [] -> brel f (VArr dt sh tok i) b -> b = VArr dt sh tok i.
Proof.
  intros Hsh H. unfold brel in H. rewrite norm_val_array in H by exact Hsh.
  destruct (String.eqb f "metadata"); [inversion H; reflexivity|].
  destruct H as [[H _]|H]; [inversion H; reflexivity|symmetry; exact H].
Qed.

(* ================================================================================================ *)
(* (8) THE LEAF THEOREM                                                                             *)
(* ================================================================================================ *)
(* field relation of the result (a: original, b: read back): the metadata tree by the specification of the file round
   trip itself (norm_val: exact, no side condition), every other field by vsim *)
Definition erel (f : string) (a b : pval) : Prop :=
  if String.eqb f "metadata" then norm_val a = Ok b else vsim a b.

(* the hyper-parameters for which "not a 0-d ndarray" has to be ASSUMED (SimProofs S2): those a constructor may leave
   unread (with padding = "same", or an empty input shape) *)
Definition hp0_names (k : kind) : list string :=
  match k with KConv1d | KConv2d => ["padding"; "stride"; "dilation"] | _ => [] end.

Lemma no0d_split k f : In f (no0d_names k) ->
  In f (hp0_names k) \/ (k = KFlatten /\ (f = "start_dim" \/ f = "end_dim")) \/ (k = KConv1d /\ f = "input_shape") \/
  f = "input_type" \/ f = "output_type".
Proof.
  destruct k; cbn [no0d_names hp0_names In]; intros H; timeout 20 intuition (subst; auto 10).
Qed.

(* a Flatten whose input type is defined read both dimensions as integers *)
Lemma flatten_dims_read fs n sv f v :
  post_init KFlatten fs = Ok n -> assoc "input_type" fs = Some (VDict [("input", sv)]) -> sv <> VNone ->
  f = "start_dim" \/ f = "end_dim" -> assoc f fs = Some v -> is0d v = false.
Proof.
  intros H Hit Hsv Hf Hv. unfold post_init in H. unfold fld at 1 in H. rewrite Hit in H. cbn [bind parse_shape map fst snd assoc String.eqb Ascii.eqb Bool.eqb andb] in H.
  destruct (tyv_of_pval sv) eqn:Et; [destruct sv; try discriminate Et; try (exfalso; apply Hsv; reflexivity)| | |].
  all: try (cbn [tyv_of_pval] in Et; repeat match type of Et with context [match ?x with _ => _ end] => destruct x end; discriminate Et).
  all: cbn [tyv_nums] in H; try discriminate H; ok_walk H.
  all: destruct Hf as [-> | ->];
       match goal with E : fld ?s _ = Ok ?a, E' : int_view ?a = Some _ |- _ =>
         apply fld_assoc in E; rewrite Hv in E; inversion E; subst; exact (int_view_no0d _ _ E') end.
Qed.

Lemma conv1d_ish_read fs n v :
  post_init KConv1d fs = Ok n -> assoc "input_shape" fs = Some v -> v <> VNone -> is0d v = false.
Proof.
  intros H Hv Hn. unfold post_init in H. ok_walk H.
  all: match goal with E : fld "input_shape" _ = Ok _ |- _ => apply fld_assoc in E; rewrite Hv in E; inversion E; subst end.
  all: try (exfalso; apply Hn; reflexivity).
  all: match goal with E' : int_view _ = Some _ |- _ => exact (int_view_no0d _ _ E') end.
Qed.

(* the three paired hyper-parameters of a Conv2d, as stored *)
Lemma conv2d_fields fs0 k' f ti to g :
  post_init KConv2d fs0 = Ok (Leaf k' f ti to) -> In g ["padding"; "stride"; "dilation"] ->
  assoc g f = option_map pair_if_int (assoc g fs0).
Proof.
  intros H Hin. unfold post_init in H. ok_walk H.
  all: repeat match goal with E : fld _ _ = Ok _ |- _ => apply fld_assoc in E end.
  all: destruct Hin as [<-|[<-|[<-|[]]]]; rewrite drop_types_assoc by discriminate; rewrite !assoc_assoc_set;
       cbn [String.eqb Ascii.eqb Bool.eqb andb];
       match goal with E : assoc ?s _ = Some ?v |- Some (pair_if_int ?v) = _ => rewrite E; reflexivity end.
Qed.

(* change the relation of a field list through lookups (distinct keys) *)
Lemma fields_rel_relookup (R R' : string -> pval -> pval -> Prop) fs fs' :
  fields_rel R fs fs' -> NoDup (map fst fs) ->
  (forall f a b, assoc f fs = Some a -> assoc f fs' = Some b -> R f a b -> R' f a b) ->
  fields_rel R' fs fs'.
Proof.
  intros H. induction H as [|[k a] [k' b] r r' [Hk Hv] Hr IH]; intros Hnd HR; [constructor|].
  cbn [fst snd] in Hk, Hv. subst k'. cbn [map fst] in Hnd. inversion Hnd as [|? ? Hnot Hnd']; subst. constructor.
  - split; [reflexivity|]. cbn [fst snd]. apply HR; [cbn [assoc]; rewrite String.eqb_refl; reflexivity..|exact Hv].
  - apply IH; [exact Hnd'|]. intros f x y Hx Hy. apply HR; cbn [assoc].
    + destruct (String.eqb f k) eqn:E; [|exact Hx]. apply String.eqb_eq in E. subst f.
      exfalso. apply Hnot. exact (assoc_in_keys _ _ _ Hx).
    + destruct (String.eqb f k) eqn:E; [|exact Hy]. apply String.eqb_eq in E. subst f.
      exfalso. apply Hnot. exact (assoc_in_keys _ _ _ Hx).
Qed.

(* D1 and D2 of the header, for one leaf *)
Definition leaf_domain (k : kind) (fs : list (string * pval)) : Prop :=
  (forall f v, In (f, v) fs -> f <> "metadata" -> rt_ok v) /\
  (forall f v, In f (hp0_names k) -> assoc f fs = Some v -> is0d v = false).

Lemma no0d_names_passed_b :
  forallb (fun k => forallb (fun f => mem_str f (leaf_keys k ++ map fst (xargs k VNone))) (no0d_names k)) all_kinds = true.
Proof. vm_compute. reflexivity. Qed.

Lemma no0d_names_passed k f sv : In f (no0d_names k) -> In f (leaf_keys k ++ map fst (xargs k sv)).
Proof.
  intros Hin. pose proof no0d_names_passed_b as F. rewrite forallb_forall in F. specialize (F k (all_kinds_complete k)).
  rewrite forallb_forall in F. specialize (F f Hin). apply mem_str_In in F. destruct k; exact F.
Qed.

Lemma class_keys_nodup_b : forallb (fun k => nodupb (class_keys k)) all_kinds = true.
Proof. vm_compute. reflexivity. Qed.

Lemma class_keys_nodup k : NoDup (class_keys k).
Proof.
  pose proof class_keys_nodup_b as F. rewrite forallb_forall in F. apply nodupb_NoDup. exact (F k (all_kinds_complete k)).
Qed.

Lemma rt_ok_ty_get key t : rt_ok (ty_get key t).
Proof.
  unfold ty_get. destruct t as [d|]; [|exact I]. destruct (assoc key d) as [v|]; [|exact I]. destruct v; exact I.
Qed.

Lemma xargs_assoc k sv f :
  assoc f (xargs k sv) = None \/
  (has_extra k = true /\ f <> "metadata" /\ exists i, i <> "metadata" /\ unusable_name i = false /\ has_bad_char i = false /\
     forall sv0, assoc f (xargs k sv0) = Some (VDict [(i, sv0)])).
Proof.
  destruct k; cbn [xargs assoc]; try (left; reflexivity).
  all: match goal with |- context [String.eqb ?x ?s] => destruct (String.eqb x s) eqn:E end; [|left; reflexivity].
  all: apply String.eqb_eq in E; subst; right; split; [reflexivity|]; split; [discriminate|].
  all: eexists; split; [|split; [|split; [|intros sv0; reflexivity]]]; [discriminate|reflexivity|reflexivity].
Qed.

Lemma norm_val_dict1 i sv sv' :
  i <> "metadata" -> unusable_name i = false -> has_bad_char i = false ->
  norm_val sv = Ok sv' -> norm_val (VDict [(i, sv)]) = Ok (VDict [(i, sv')]).
Proof.
  intros Hi Hu Hb Hn. rewrite norm_val_dict, norm_entries_cons'. rewrite Hb. unfold norm_here.
  apply String.eqb_neq in Hi. rewrite Hi, Hu, Hn. reflexivity.
Qed.

Lemma leaf_round_trip k args fs ti to d' fuel :
  k <> KGraph -> construct k args = Ok (Leaf k fs ti to) -> leaf_domain k fs ->
  norm_entries (to_dict (Leaf k fs ti to)) = Ok d' ->
  exists fs' ti' to', dict2node (S fuel) d' = Ok (Leaf k fs' ti' to') /\
     fields_rel erel fs fs' /\
     ty_rel (loose_in k) (canon_tin k ti) ti' /\ ty_rel (loose_out k) (canon_tout k to) to' /\
     arrays_same fs fs'.
Proof.
  intros Hk Hc (Hok & H0d) Hn.
  destruct (constructed_keys _ _ _ _ _ _ Hc) as (Hnd & Hmeta & Htag).
  pose proof (construct_keys _ _ _ _ _ _ Hc) as Hkeys. fold (leaf_keys k) in Hkeys.
  (* the original side *)
  pose proof (construct_round k args k fs ti to Hk Hc) as Hround. unfold from_dict in Hround.
  rewrite to_dict_leaf in Hround, Hn. rewrite (dict2node_leaf_form _ _ _ _ Hk Htag) in Hround.
  set (sv := extra_val k ti to) in *.
  (* the file side *)
  apply norm_entries_app in Hn as (fsf & tl & Hfsf & Htl & ->).
  apply norm_tail in Htl as (sv' & -> & Hsv).
  assert (Htagf : tag_free fsf).
  { destruct Htag as (T1 & T2 & T3 & T4).
    repeat split; apply assoc_not_in; intros Hin; apply (norm_entries_keys _ _ _ Hfsf) in Hin;
      [apply assoc_none_keys in T1|apply assoc_none_keys in T2|apply assoc_none_keys in T3|apply assoc_none_keys in T4];
      contradiction. }
  rewrite (dict2node_leaf_form _ _ _ _ Hk Htagf).
  (* the keyword arguments *)
  unfold construct in Hround. destruct (bind_args k (fs ++ xargs k sv)) as [bfs|] eqn:Hb; [|discriminate Hround].
  cbn [bind] in Hround.
  assert (Harel : forall f, arel f (assoc f (fs ++ xargs k sv)) (assoc f (fsf ++ xargs k sv'))).
  { intros f. pose proof (norm_entries_assoc _ _ Hnd Hfsf f) as Ha. destruct (assoc f fs) as [v|] eqn:Ef.
    - rewrite (assoc_app_some _ _ _ _ Ef). destruct Ha as [(-> & -> & Hf)|(v' & Hv & Hf & _)].
      + rewrite (assoc_app_none _ _ _ Hf).
        destruct (xargs_assoc k sv' "metadata") as [->|(_ & Hne & _)]; [split; reflexivity|congruence].
      + rewrite (assoc_app_some _ _ _ _ Hf). unfold arel, brel. destruct (String.eqb f "metadata") eqn:E; [exact Hv|].
        left. split; [exact Hv|]. apply (Hok f v); [apply assoc_In; exact Ef|apply String.eqb_neq; exact E].
    - rewrite (assoc_app_none _ _ _ Ef), (assoc_app_none _ _ _ Ha).
      assert (Hfm : f <> "metadata") by (intros ->; contradiction).
      destruct (xargs_assoc k sv f) as [Hx|(Hex & _ & i & Hi & Hu & Hbad & Hx)].
      + rewrite Hx. destruct (xargs_assoc k sv' f) as [->|(_ & _ & i & _ & _ & _ & Hx')]; [exact Hfm|].
        rewrite Hx' in Hx. discriminate Hx.
      + rewrite !Hx. unfold arel, brel. apply String.eqb_neq in Hfm. rewrite Hfm. left. split.
        * apply norm_val_dict1; try assumption. apply Hsv. exact Hex.
        * cbn. split; [intros E; contradiction|]. split; [|exact I].
          subst sv. destruct k; try discriminate Hex; apply rt_ok_ty_get. }
  assert (Hsub : forall f, In f (map fst (fsf ++ xargs k sv')) -> In f (map fst (fs ++ xargs k sv))).
  { intros f. rewrite !map_app, !in_app_iff. intros [Hin|Hin]; [left; exact (norm_entries_keys _ _ _ Hfsf Hin)|right].
    destruct k; exact Hin. }
  destruct (bind_args_arel k _ _ _ Hsub Harel Hb) as (bfs' & Hb' & Hrel).
  unfold construct. rewrite Hb'. cbn [bind].
  (* metadata *)
  destruct (assoc "metadata" fs) as [m|] eqn:Em; [|exfalso; apply Hmeta; reflexivity].
  assert (Hbm : assoc "metadata" bfs = Some m) by (apply (bind_args_assoc _ _ _ _ _ Hb), assoc_app_some, Em).
  pose proof (fields_rel_assoc _ _ _ "metadata" Hrel) as Hm'. rewrite Hbm in Hm'.
  destruct (assoc "metadata" bfs') as [m'|] eqn:Em'; [|contradiction].
  unfold brel in Hm'. cbn [String.eqb Ascii.eqb Bool.eqb andb] in Hm'.
  assert (Hndb : NoDup (map fst bfs)) by (rewrite (bind_args_keys _ _ _ Hb); apply class_keys_nodup).
  set (bfs2 := assoc_set "metadata" m bfs').
  assert (Hsim : fields_sim bfs bfs2).
  { apply (fields_rel_set_meta brel (fun _ => vsim) bfs bfs' m m Hrel Hndb); [|exact Hbm|apply vs_refl].
    intros f x y Hf Hbr. apply (brel_keeps f x y Hf Hbr). }
  assert (Hkeeps : keeps_fields bfs bfs2).
  { intros f Hf. unfold bfs2. rewrite assoc_set_other' by exact Hf.
    pose proof (fields_rel_assoc _ _ _ f Hrel) as Hr.
    destruct (assoc f bfs) as [a|], (assoc f bfs') as [b|]; try contradiction; [|exact I].
    apply (brel_keeps f a b Hf Hr). }
  assert (Horig : orig_ok k bfs).
  { split; [|split; [|split]].
    - apply (post_init_shapes k bfs _ Hround). intros Hish.
      destruct (assoc "input_shape" fs) as [v|] eqn:Ei.
      + rewrite (bind_args_assoc _ _ _ _ _ Hb (assoc_app_some _ _ _ _ Ei)) in Hish. inversion Hish; subst v.
        pose proof (norm_entries_assoc _ _ Hnd Hfsf "input_shape") as Ha. rewrite Ei in Ha.
        destruct Ha as [(E & _)|(v' & Hv & _)]; [discriminate E|discriminate Hv].
      + apply assoc_in_keys in Hish. rewrite (bind_args_keys _ _ _ Hb) in Hish.
        assert (In "input_shape" (leaf_keys k)) as Hl by (apply filter_In; split; [exact Hish|reflexivity]).
        rewrite <- Hkeys in Hl. apply assoc_none_keys in Ei. contradiction.
    - apply Forall_forall. intros f Hin. unfold fld_no0d. destruct (assoc f bfs) as [v|] eqn:Ev; [|exact I].
      destruct (assoc f (fs ++ xargs k sv)) as [v0|] eqn:EA.
      + rewrite (bind_args_assoc _ _ _ _ _ Hb EA) in Ev. inversion Ev; subst v0.
        destruct (assoc f fs) as [v1|] eqn:Ef.
        * rewrite (assoc_app_some _ _ _ _ Ef) in EA. inversion EA; subst v1.
          pose proof (bind_args_assoc _ _ _ _ _ Hb (assoc_app_some _ _ _ _ Ef)) as Hbf.
          destruct (no0d_split k f Hin) as [Hh|[(Ek & Hf)|[(Ek & Ef')|[Ef'|Ef']]]].
          -- exact (H0d f v Hh Ef).
          -- subst k. apply (flatten_dims_read bfs _ sv f v Hround); [|intros E|exact Hf|exact Hbf].
             ++ apply (bind_args_assoc _ _ _ _ _ Hb). destruct Htag as (_ & _ & T & _).
                rewrite (assoc_app_none _ _ _ T). reflexivity.
             ++ specialize (Hsv eq_refl). rewrite E in Hsv. discriminate Hsv.
          -- subst k f. apply (conv1d_ish_read bfs _ v Hround Hbf). intros ->.
             pose proof (norm_entries_assoc _ _ Hnd Hfsf "input_shape") as Ha. rewrite Ef in Ha.
             destruct Ha as [(E & _)|(v' & Hv & _)]; [discriminate E|discriminate Hv].
          -- subst f. destruct Htag as (_ & _ & T & _). congruence.
          -- subst f. destruct Htag as (_ & _ & _ & T). congruence.
        * rewrite (assoc_app_none _ _ _ Ef) in EA.
          destruct (xargs_assoc k sv f) as [Hx|(_ & _ & i & _ & _ & _ & Hx)]; rewrite Hx in EA; [discriminate EA|].
          inversion EA. reflexivity.
      + exfalso. apply assoc_none_keys in EA. apply EA. rewrite map_app, Hkeys. apply no0d_names_passed. exact Hin.
    - intros ->. intros w Hw. exact (cuba_operand bfs _ w Hround Hw).
    - intros ->. intros f v Hin Hv. destruct (conv2d_stored _ _ _ _ _ Hc f Hin) as (v0 & Hv0 & Hp).
      rewrite (bind_args_assoc _ _ _ _ _ Hb (assoc_app_some _ _ _ _ Hv0)) in Hv. inversion Hv; subst v0. exact Hp. }
  pose proof (post_init_sim k bfs bfs2 Hsim (side_from k bfs bfs2 Hkeeps Horig)) as Hpi.
  rewrite Hround in Hpi. destruct (post_init k bfs2) as [n2|] eqn:E2; [|contradiction].
  destruct n2 as [k2 f2 ti2 to2|]; [|contradiction]. cbn [res_sim res_rel node_sim] in Hpi.
  destruct Hpi as (<- & Hf2 & Hti & Hto).
  (* the stored fields are vsim-related: also the three paired ones of a Conv2d, which are no Python ints on either side *)
  assert (Hv2 : fields_rel (fun _ => vsim) fs f2).
  { apply (fields_rel_relookup (frel k) (fun _ => vsim) fs f2 Hf2 Hnd). intros f a b Ha Hb2 Hr.
    unfold frel in Hr. destruct k; try exact Hr. destruct (mem_str f ["stride"; "padding"; "dilation"]) eqn:Ein; [|exact Hr].
    assert (Hin : In f ["padding"; "stride"; "dilation"]).
    { apply mem_str_In in Ein. cbn [In] in Ein |- *. timeout 20 tauto. }
    rewrite (conv2d_fields _ _ _ _ _ _ Hround Hin) in Ha. rewrite (conv2d_fields _ _ _ _ _ _ E2 Hin) in Hb2.
    pose proof (fields_rel_assoc _ _ _ f Hsim) as Hxy.
    assert (Hfm : f <> "metadata") by (destruct Hin as [<-|[<-|[<-|[]]]]; discriminate).
    pose proof (Hkeeps f Hfm) as Hkp.
    destruct (assoc f bfs) as [x|] eqn:Ex; [|discriminate Ha]. destruct (assoc f bfs2) as [y|]; [|discriminate Hb2].
    cbn [option_map] in Ha, Hb2. destruct Horig as (_ & _ & _ & Hpy). specialize (Hpy eq_refl f x Hin Ex).
    destruct Hkp as (_ & _ & _ & _ & Hpy'). specialize (Hpy' Hpy).
    rewrite (pair_if_int_not _ Hpy) in Ha. rewrite (pair_if_int_not _ Hpy') in Hb2.
    inversion Ha; inversion Hb2; subst a b. exact Hxy. }
  assert (Hbe : bfs' = assoc_set "metadata" m' bfs2)
    by (unfold bfs2; rewrite assoc_set_twice, (assoc_set_same _ _ _ Em'); reflexivity).
  rewrite Hbe, post_init_set_meta by (unfold bfs2; rewrite assoc_assoc_set, String.eqb_refl; discriminate).
  rewrite E2. cbn [map_res set_meta].
  eexists _, _, _. split; [reflexivity|]. split; [|split; [exact Hti|split; [exact Hto|]]].
  - apply (fields_rel_set_meta (fun _ => vsim) erel fs f2 m m' Hv2 Hnd); [|exact Em|].
    + intros f x y Hf Hfr. unfold erel. apply String.eqb_neq in Hf. rewrite Hf. exact Hfr.
    + unfold erel. cbn [String.eqb Ascii.eqb Bool.eqb andb]. exact Hm'.
  - (* arrays *)
    intros f dt sh tok i Ha Hsh. rewrite assoc_assoc_set. destruct (String.eqb f "metadata") eqn:Efm.
    + apply String.eqb_eq in Efm. subst f. rewrite Em in Ha. inversion Ha; subst m.
      rewrite norm_val_array in Hm' by exact Hsh. inversion Hm'. reflexivity.
    + apply String.eqb_neq in Efm.
      assert (Hab : assoc f bfs2 = Some (VArr dt sh tok i)).
      { unfold bfs2. rewrite assoc_set_other' by exact Efm.
        pose proof (fields_rel_assoc _ _ _ f Hrel) as Hr.
        rewrite (bind_args_assoc _ _ _ _ _ Hb (assoc_app_some _ _ _ _ Ha)) in Hr.
        destruct (assoc f bfs') as [b|]; [|contradiction]. rewrite (brel_array _ _ _ _ _ _ Hsh Hr). reflexivity. }
      assert (G1 : f <> "input_type") by (intros ->; destruct Htag as (_ & _ & T & _); congruence).
      assert (G2 : f <> "output_type") by (intros ->; destruct Htag as (_ & _ & _ & T); congruence).
      destruct (kind_cuba_dec k) as [->|Hnc]; [destruct (String.eqb f "w_in") eqn:Ew|].
      * apply String.eqb_eq in Ew. subst f.
        destruct (cuba_w_in _ _ _ _ _ Hround) as (sh0 & Hw0). destruct (cuba_w_in _ _ _ _ _ E2) as (sh2 & Hw2).
        rewrite Hw0 in Ha. injection Ha as <- <- <- <-. rewrite Hw2.
        pose proof (fields_rel_assoc _ _ _ "w_in" Hv2) as Hr. rewrite Hw0, Hw2 in Hr.
        apply vsim_np_shape in Hr. cbn [np_shape] in Hr. inversion Hr. reflexivity.
      * apply String.eqb_neq in Ew. exact (post_init_arrays _ _ _ _ _ _ _ _ _ _ _ E2 G1 G2 (fun _ => Ew) Hab).
      * exact (post_init_arrays _ _ _ _ _ _ _ _ _ _ _ E2 G1 G2 (fun E => False_ind _ (Hnc E)) Hab).
Qed.

(* ================================================================================================ *)
(* (9) EQUIVALENCE OF THE NODE READ BACK WITH THE ORIGINAL                                          *)
(* ================================================================================================ *)
(* graph-level types (recomputed from the children by NIRGraph.__post_init__ on both sides): same names in the same
   order, same numbers, container of the numbers (tuple TSeq / array TArr) forgotten *)
Definition gty_rel (g g' : option (list (string * ty))) : Prop :=
  match g, g' with
  | None, None => True
  | Some l, Some l' => Forall2 (fun p q => fst p = fst q /\ ty_norm (snd p) = ty_norm (snd q)) l l'
  | _, _ => False
  end.

(* rt_rel a b: `b` is what reading the file of `a` may return *)
Fixpoint rt_rel (a b : node) {struct a} : Prop :=
  match a, b with
  | Leaf k fs ti to, Leaf k' fs' ti' to' =>
      k = k' /\ fields_rel erel fs fs' /\ ty_rel (loose_in k) ti ti' /\ ty_rel (loose_out k) to to' /\
      arrays_same fs fs'
  | Graph ch es gi go m, Graph ch' es' gi' go' m' =>
      (fix all (l l' : list (string * node)) {struct l} : Prop :=
         match l, l' with
         | [], [] => True
         | x :: r, y :: r' => fst x = fst y /\ rt_rel (snd x) (snd y) /\ all r r'
         | _, _ => False
         end) ch ch'
      /\ es = es' /\ norm_val m = Ok m' /\ gty_rel gi gi' /\ gty_rel go go'
  | _, _ => False
  end.

Lemma rt_rel_graph ch es gi go m ch' es' gi' go' m' :
  rt_rel (Graph ch es gi go m) (Graph ch' es' gi' go' m') <->
  all2 rt_rel ch ch' /\ es = es' /\ norm_val m = Ok m' /\ gty_rel gi gi' /\ gty_rel go go'.
Proof.
  cbn [rt_rel].
  assert (forall l l' : list (string * node),
    (fix all (l l' : list (string * node)) {struct l} : Prop :=
         match l, l' with
         | [], [] => True
         | x :: r, y :: r' => fst x = fst y /\ rt_rel (snd x) (snd y) /\ all r r'
         | _, _ => False
         end) l l' <-> all2 rt_rel l l') as Hall.
  { induction l as [|x r IH]; intros [|y r']; cbn [all2]; try reflexivity. rewrite IH. reflexivity. }
  rewrite Hall. reflexivity.
Qed.

Lemma ty_rel_norm b t t' : ty_rel b t t' -> ty_norm t = ty_norm t'.
Proof. destruct b; cbn [ty_rel]; [trivial|intros ->; reflexivity]. Qed.

Lemma rt_rel_io a b : rt_rel a b ->
  is_input a = is_input b /\ is_output a = is_output b /\
  ty_norm (node_tin a) = ty_norm (node_tin b) /\ ty_norm (node_tout a) = ty_norm (node_tout b).
Proof.
  destruct a as [k fs ti to|ch es gi go m], b as [k' fs' ti' to'|ch' es' gi' go' m']; try (intros []; fail).
  - cbn [rt_rel]. intros (<- & _ & Hi & Ho & _). cbn [node_tin node_tout is_input is_output].
    repeat split; try reflexivity; eapply ty_rel_norm; eassumption.
  - intros _. repeat split.
Qed.

Lemma graph_types_rel l : forall l', all2 rt_rel l l' ->
  Forall2 (fun p q => fst p = fst q /\ ty_norm (snd p) = ty_norm (snd q))
    (map (fun p => (fst p, node_tin (snd p))) (inputs l)) (map (fun p => (fst p, node_tin (snd p))) (inputs l')) /\
  Forall2 (fun p q => fst p = fst q /\ ty_norm (snd p) = ty_norm (snd q))
    (map (fun p => (fst p, node_tout (snd p))) (outputs l)) (map (fun p => (fst p, node_tout (snd p))) (outputs l')).
Proof.
  induction l as [|x r IH]; intros [|y r'] H; cbn [all2] in H; try contradiction.
  - split; constructor.
  - destruct H as (Hn & Hxy & Hr). destruct (IH _ Hr) as [IH1 IH2].
    destruct (rt_rel_io _ _ Hxy) as (Hi & Ho & Hti & Hto).
    unfold inputs, outputs in *. cbn [filter]. rewrite <- Hi, <- Ho. split.
    + destruct (is_input (snd x)); [|exact IH1]. cbn [map]. constructor; [|exact IH1]. split; assumption.
    + destruct (is_output (snd x)); [|exact IH2]. cbn [map]. constructor; [|exact IH2]. split; assumption.
Qed.

Lemma mk_graph_types_rel l l' : all2 rt_rel l l' ->
  gty_rel (graph_tin l) (graph_tin l') /\ gty_rel (graph_tout l) (graph_tout l').
Proof.
  intros H. destruct (graph_types_rel _ _ H) as [H1 H2]. split; [|exact H2].
  unfold graph_tin. destruct (inputs l) as [|p t], (inputs l') as [|q t']; cbn [map] in H1; inversion H1; subst.
  - exact I.
  - cbn [gty_rel]. exact H1.
Qed.

(* ================================================================================================ *)
(* (10) graphs                                                                                      *)
(* ================================================================================================ *)
Lemma to_dict_nonempty n : to_dict n <> [].
Proof. intros E. pose proof (to_dict_type n) as H. rewrite E in H. destruct H. Qed.

(* the "nodes" dictionary is normalised child by child, names and order kept *)
Lemma children_norm ch : forall nodes',
  norm_entries (child_dicts ch) = Ok nodes' ->
  Forall2 (fun p q => fst p = fst q /\ exists dc', snd q = VDict dc' /\ norm_entries (to_dict (snd p)) = Ok dc') ch nodes'.
Proof.
  induction ch as [|[name c] r IH]; intros nodes' H.
  - cbn in H. inversion H. constructor.
  - cbn [child_dicts map fst snd] in H. fold (child_dicts r) in H.
    apply norm_entries_cons_inv in H as (here & rest & Hhere & Hrest & ->).
    destruct (norm_here_cases _ _ _ Hhere) as [(_ & E & _)|(y & Hy & -> & _)].
    + inversion E as [E']. exfalso. exact (to_dict_nonempty _ E').
    + rewrite norm_val_dict in Hy. apply bind_ok in Hy as (dc' & Hdc & Hy). inversion Hy; subst y.
      cbn [app]. constructor; [|apply IH; exact Hrest]. split; [reflexivity|]. exists dc'. split; [reflexivity|exact Hdc].
Qed.

Lemma go_children_rt (F : list (string * pval) -> result node) ch : forall nodes',
  Forall2 (fun p q => fst p = fst q /\ exists dc', snd q = VDict dc' /\
                      exists c', F dc' = Ok c' /\ rt_rel (canon (snd p)) c') ch nodes' ->
  exists ch', go_children F nodes' = Ok ch' /\ all2 rt_rel (map canon_child ch) ch'.
Proof.
  induction ch as [|[name c] r IH]; intros nodes' H; inversion H as [|p q t t' Hpq Ht]; subst.
  - exists []. split; [reflexivity|exact I].
  - destruct q as [name' v]. cbn [fst snd] in Hpq. destruct Hpq as (<- & dc' & -> & c' & Hc' & Hrel).
    destruct (IH _ Ht) as (ch' & Hch' & Hall).
    exists ((name, c') :: ch'). cbn [go_children]. rewrite Hc'. cbn [bind].
    fold (go_children F). rewrite Hch'. cbn [bind]. split; [reflexivity|].
    cbn [map all2 canon_child fst snd]. repeat split; assumption.
Qed.

Lemma children_step (F : list (string * pval) -> result node) (S : list (string * pval)) ch : forall ns,
  Forall2 (fun p q => fst p = fst q /\ exists dc', snd q = VDict dc' /\ norm_entries (to_dict (snd p)) = Ok dc') ch ns ->
  (forall q, In q ns -> In q S) ->
  Forall (fun p => forall dc' name, norm_entries (to_dict (snd p)) = Ok dc' -> In (name, VDict dc') S ->
                   exists c', F dc' = Ok c' /\ rt_rel (canon (snd p)) c') ch ->
  Forall2 (fun p q => fst p = fst q /\ exists dc', snd q = VDict dc' /\
                      exists c', F dc' = Ok c' /\ rt_rel (canon (snd p)) c') ch ns.
Proof.
  intros ns HF. induction HF as [|p q t t' Hpq Ht IH]; intros Hsub Hall; [constructor|].
  inversion Hall as [|? ? Hp Hall']; subst. constructor.
  - destruct Hpq as (Hname & dc' & Hq & Hdc). split; [exact Hname|]. exists dc'. split; [exact Hq|].
    apply (Hp dc' (fst q) Hdc). apply Hsub. left. rewrite <- Hq. destruct q; reflexivity.
  - apply IH; [|exact Hall']. intros q0 Hq0. apply Hsub. right. exact Hq0.
Qed.

(* the domain of the theorem, node by node *)
Fixpoint rt_dom (n : node) : Prop :=
  match n with
  | Leaf k fs _ _ => leaf_domain k fs
  | Graph ch _ _ _ _ =>
    (fix all (l : list (string * node)) : Prop :=
       match l with [] => True | p :: r => rt_dom (snd p) /\ all r end) ch
  end.

Lemma rt_dom_graph ch es gi go m : rt_dom (Graph ch es gi go m) <-> Forall (fun p => rt_dom (snd p)) ch.
Proof.
  cbn [rt_dom]. induction ch as [|p r IH].
  - split; [constructor|trivial].
  - split.
    + intros [H1 H2]. constructor; [exact H1|apply IH; exact H2].
    + intros H. inversion H as [|? ? H1 H2]. split; [exact H1|apply IH; exact H2].
Qed.

Lemma pval_depth_child name dc' nodes' d' :
  In (name, VDict dc') nodes' -> In ("nodes", VDict nodes') d' -> (pval_depth (VDict dc') + 2 <= pval_depth (VDict d'))%nat.
Proof.
  intros H1 H2. apply pval_depth_in in H1. apply pval_depth_in in H2. cbn [snd] in H1, H2. lia.
Qed.

Theorem built_round_trip : forall n, built n -> rt_dom n ->
  forall d', norm_entries (to_dict n) = Ok d' ->
  forall fuel, (pval_depth (VDict d') <= fuel)%nat ->
  exists n', dict2node (S fuel) d' = Ok n' /\ rt_rel (canon n) n'.
Proof.
  intros n Hb. induction Hb as [k args n Hk Hc|ch es m Hnd Hbs IH] using built_ind2; intros Hdom d' Hn fuel Hfuel.
  - destruct (construct_leaf _ _ _ Hc) as (fs & ti & to & ->). cbn [rt_dom] in Hdom.
    destruct (leaf_round_trip k args fs ti to d' fuel Hk Hc Hdom Hn) as (fs' & ti' & to' & Hd & Hf & Hi & Ho & Har).
    exists (Leaf k fs' ti' to'). split; [exact Hd|]. cbn [canon rt_rel]. repeat split; assumption.
  - unfold mk_graph in *. apply rt_dom_graph in Hdom.
    cbn [to_dict] in Hn. fold (child_dicts ch) in Hn.
    apply norm_entries_cons_inv in Hn as (h1 & r1 & Hh1 & Hn & ->).
    apply norm_entries_cons_inv in Hn as (h2 & r2 & Hh2 & Hn & ->).
    apply norm_entries_cons_inv in Hn as (h3 & r3 & Hh3 & Hn & ->).
    apply norm_entries_cons_inv in Hn as (h4 & r4 & Hh4 & Hn & ->).
    cbn in Hn. inversion Hn; subst r4. clear Hn.
    unfold norm_here in Hh1, Hh2, Hh4. cbn [String.eqb Ascii.eqb Bool.eqb andb unusable_name orb] in Hh1, Hh2, Hh4.
    apply bind_ok in Hh1 as (y1 & Hy1 & Hh1). inversion Hh1; subst h1. clear Hh1.
    rewrite norm_val_dict in Hy1. apply bind_ok in Hy1 as (nodes' & Hnodes & Hy1). inversion Hy1; subst y1. clear Hy1.
    apply bind_ok in Hh2 as (ev & Hev & Hh2). inversion Hh2; subst h2. clear Hh2.
    apply edges_round_trip in Hev.
    cbn in Hh4. inversion Hh4; subst h4. clear Hh4.
    (* children *)
    assert (Hch : exists ch', go_children (dict2node fuel) nodes' = Ok ch' /\ all2 rt_rel (map canon_child ch) ch').
    { apply go_children_rt. apply (children_step (dict2node fuel) nodes' ch nodes' (children_norm _ _ Hnodes)); [trivial|].
      rewrite Forall_forall in IH, Hdom |- *. intros p Hp dc' name Hdc Hin.
      pose proof (pval_depth_child _ _ _ (("nodes", VDict nodes') :: ("edges", ev) :: h3 ++ [("type", VStr "NIRGraph")] ++ [])
                    Hin (or_introl eq_refl)) as Hd.
      cbn [app] in Hfuel, Hd. destruct fuel as [|f1]; [exfalso; lia|].
      apply (IH p Hp (Hdom p Hp) dc' Hdc f1). lia. }
    destruct Hch as (ch' & Hgo & Hall).
    destruct (mk_graph_types_rel _ _ Hall) as [Hgi Hgo'].
    rewrite canon_graph. unfold mk_graph.
    destruct (norm_here_cases _ _ _ Hh3) as [(_ & -> & ->)|(y & Hy & -> & _)].
    + exists (mk_graph ch' es (VDict [])). split.
      * cbn [app dict2node assoc String.eqb Ascii.eqb Bool.eqb andb bind].
        change "NIRGraph" with (kind_name KGraph). rewrite str2kind_name. cbn [bind].
        fold (go_children (dict2node fuel)). rewrite Hgo. cbn [bind]. rewrite Hev. cbn [bind]. reflexivity.
      * unfold mk_graph. apply rt_rel_graph. repeat split; assumption.
    + exists (mk_graph ch' es y). split.
      * cbn [app dict2node assoc String.eqb Ascii.eqb Bool.eqb andb bind].
        change "NIRGraph" with (kind_name KGraph). rewrite str2kind_name. cbn [bind].
        fold (go_children (dict2node fuel)). rewrite Hgo. cbn [bind]. rewrite Hev. cbn [bind]. reflexivity.
      * unfold mk_graph. apply rt_rel_graph. repeat split; assumption.
Qed.

(* ================================================================================================ *)
(* (11) THE FILE ROUND-TRIP THEOREM                                                                 *)
(* ================================================================================================ *)
(* g' (read back) is equivalent to g (original): see the header and rt_rel *)
Definition equiv (g' g : node) : Prop := rt_rel g g'.

(* D1, D2 at every leaf (rt_dom) and D3 (DictProofs.single_typed) *)
Definition rt_domain (g : node) : Prop := rt_dom g /\ single_typed g.

(* without D3: against the canonical form of g (type dictionaries of Input / Output / Flatten restricted to the serialised
   entry, graph-level types recomputed: DictProofs.canon) *)
Theorem file_round_trip_canon : forall g t, built g -> rt_dom g -> write g = Ok t ->
  exists g', read t = Ok g' /\ equiv g' (canon g).
Proof.
  intros g t Hb Hd Hw. destruct (read_write_refines g t Hw) as (d' & Hn & Hr & _).
  destruct (built_round_trip g Hb Hd d' Hn (pval_depth (VDict d')) (le_n _)) as (g' & Hg' & Hrel).
  exists g'. split; [rewrite Hr; exact Hg'|exact Hrel].
Qed.

(* THE THEOREM (c01_full_statement) *)
Theorem file_round_trip : forall g t, built g -> rt_domain g -> write g = Ok t ->
  exists g', read t = Ok g' /\ equiv g' g.
Proof.
  intros g t Hb [Hd Hs] Hw. destruct (file_round_trip_canon g t Hb Hd Hw) as (g' & Hr & He).
  exists g'. split; [exact Hr|]. rewrite (canon_id g (built_mirrors_deep g Hb) Hs) in He. exact He.
Qed.

(* ---- reading `equiv` ---------------------------------------------------------------------------- *)
Lemma equiv_leaf k fs ti to k' fs' ti' to' :
  equiv (Leaf k' fs' ti' to') (Leaf k fs ti to) <->
  k = k' /\ fields_rel erel fs fs' /\ ty_rel (loose_in k) ti ti' /\ ty_rel (loose_out k) to to' /\ arrays_same fs fs'.
Proof. reflexivity. Qed.

Lemma equiv_graph ch es gi go m ch' es' gi' go' m' :
  equiv (Graph ch' es' gi' go' m') (Graph ch es gi go m) <->
  all2 rt_rel ch ch' /\ es = es' /\ norm_val m = Ok m' /\ gty_rel gi gi' /\ gty_rel go go'.
Proof. apply rt_rel_graph. Qed.

Lemma equiv_kind g' g : equiv g' g -> node_kind g' = node_kind g.
Proof.
  unfold equiv. destruct g as [k fs ti to|ch es gi go m], g' as [k' fs' ti' to'|ch' es' gi' go' m']; try (intros []; fail).
  - cbn [rt_rel node_kind]. intros (<- & _). reflexivity.
  - reflexivity.
Qed.

(* same field names in the same order *)
Lemma equiv_field_names k fs ti to k' fs' ti' to' :
  equiv (Leaf k' fs' ti' to') (Leaf k fs ti to) -> map fst fs' = map fst fs.
Proof.
  intros H. apply equiv_leaf in H as (_ & Hf & _).
  induction Hf as [|p q r r' [Hk _] _ IH]; [reflexivity|]. cbn [map]. rewrite IH, Hk. reflexivity.
Qed.

(* same child names in the same order *)
Lemma all2_names (R : node -> node -> Prop) l : forall l', all2 R l l' -> map fst l' = map fst l.
Proof.
  induction l as [|x r IH]; intros [|y r'] H; cbn [all2] in H; try contradiction; [reflexivity|].
  destruct H as (Hn & _ & Hr). cbn [map]. rewrite (IH _ Hr), Hn. reflexivity.
Qed.

Lemma equiv_child_names ch es gi go m ch' es' gi' go' m' :
  equiv (Graph ch' es' gi' go' m') (Graph ch es gi go m) -> map fst ch' = map fst ch /\ es' = es.
Proof. intros H. apply equiv_graph in H as (Ha & He & _). split; [apply (all2_names _ _ _ Ha)|symmetry; exact He]. Qed.

(* the metadata tree read back is the normal form of the original one; when the original contains no bool / float /
   bytes and no empty nested "metadata" entry (rt_ok) this is vsim, as for the other fields *)
Lemma erel_metadata a b : erel "metadata" a b <-> norm_val a = Ok b.
Proof. reflexivity. Qed.

Lemma metadata_vsim a b : norm_val a = Ok b -> rt_ok a -> vsim a b.
Proof. intros H Hok. apply norm_val_vsim_deep; assumption. Qed.

(* every array at any depth of the metadata tree survives identically (SerialProofs.arrays_survive_deep) *)
Lemma metadata_arrays l l' p dt sh tok i :
  norm_val (VDict l) = Ok (VDict l') -> reach l p (VArr dt sh tok i) -> sh <> [] -> reach l' p (VArr dt sh tok i).
Proof.
  intros H. rewrite norm_val_dict in H. apply bind_ok in H as (l0 & Hl & H). inversion H; subst l0.
  apply arrays_survive_deep. exact Hl.
Qed.

(* field by field: what `erel` says about a non-metadata field *)
Lemma erel_other f a b : f <> "metadata" -> (erel f a b <-> vsim a b).
Proof. intros Hf. unfold erel. apply String.eqb_neq in Hf. rewrite Hf. reflexivity. Qed.


(* ================================================================================================ *)
(* (12) EXAMPLE: Input -> Conv2d ('same' padding, tuple hyper-parameters) -> Flatten -> CubaLIF     *)
(*      (scalar w_in, metadata tree) -> Output                                                      *)
(* ================================================================================================ *)
Definition ex_meta : pval :=
  VDict [("author", VStr "x"); ("lr", VFloat 4607182418800017408); ("flag", VBool true);
         ("info", VDict [("version", VInt 2); ("metadata", VDict []); ("tags", VDict [("a", VStr "b")])])].

Definition a256 (tok : Z) : pval := VArr "float32" [256] tok None.

Definition ex_args : list (string * (kind * list (string * pval))) :=
  [("input", (KInput, [("input_type", VDict [("input", VTuple [VInt 1; VInt 8; VInt 8])])]));
   ("conv", (KConv2d, [("input_shape", VTuple [VInt 8; VInt 8]); ("weight", VArr "float32" [4; 1; 3; 3] 11 None);
                       ("stride", VInt 1); ("padding", VStr "same"); ("dilation", VTuple [VInt 1; VInt 1]);
                       ("groups", VInt 1); ("bias", VArr "float32" [4] 12 None)]));
   ("flatten", (KFlatten, [("input_type", VDict [("input", VArr "int64" [3] 13 (Some [4; 8; 8]))]);
                           ("start_dim", VInt 0); ("end_dim", VInt (-1))]));
   ("lif", (KCubaLIF, [("tau_syn", a256 21); ("tau_mem", a256 22); ("r", a256 23); ("v_leak", a256 24);
                       ("v_threshold", a256 25); ("w_in", VFloat 4611686018427387904); ("metadata", ex_meta)]));
   ("output", (KOutput, [("output_type", VDict [("output", VArr "int64" [1] 14 (Some [256]))])]))].

Definition dummy : node := Leaf KInput [] None None.
Definition ex_children : list (string * node) :=
  Eval vm_compute in
    map (fun p => (fst p, match construct (fst (snd p)) (snd (snd p)) with Ok n => n | Err _ => dummy end)) ex_args.
Definition ex_edges : list (string * string) :=
  [("input", "conv"); ("conv", "flatten"); ("flatten", "lif"); ("lif", "output")].
Definition ex_graph : node := mk_graph ex_children ex_edges (VDict [("name", VStr "demo")]).


Lemma built_children (l : list (string * (kind * list (string * pval)))) :
  forallb (fun p => negb (kind_eqb (fst (snd p)) KGraph) && is_ok (construct (fst (snd p)) (snd (snd p)))) l = true ->
  Forall (fun p => built (snd p))
    (map (fun p => (fst p, match construct (fst (snd p)) (snd (snd p)) with Ok n => n | Err _ => dummy end)) l).
Proof.
  induction l as [|[name [k args]] r IH]; cbn [forallb map fst snd]; intros H; [constructor|].
  apply andb_prop in H as [H Hr]. apply andb_prop in H as [Hk Hc]. constructor; [|apply IH; exact Hr].
  cbn [snd]. destruct (construct k args) as [n|] eqn:E; [|discriminate Hc].
  apply (built_leaf k args n); [|exact E]. intros ->. discriminate Hk.
Qed.

Lemma ex_built : built ex_graph.
Proof.
  unfold ex_graph. apply built_graph.
  - apply nodupb_NoDup. vm_compute. reflexivity.
  - change ex_children with
      (map (fun p => (fst p, match construct (fst (snd p)) (snd (snd p)) with Ok n => n | Err _ => dummy end)) ex_args).
    apply built_children. vm_compute. reflexivity.
Qed.

Ltac dom_leaf :=
  split;
  [ intros f v Hin Hf; cbn [In] in Hin;
    repeat (destruct Hin as [Hin|Hin]; [inversion Hin; subst; try (exfalso; apply Hf; reflexivity); exact I|]);
    destruct Hin
  | intros f v Hin Hv; cbn [hp0_names In] in Hin;
    repeat (destruct Hin as [Hin|Hin]; [subst f; cbn in Hv; inversion Hv; reflexivity|]); destruct Hin ].

Lemma ex_domain : rt_domain ex_graph.
Proof.
  split.
  - unfold ex_graph, mk_graph. apply rt_dom_graph. unfold ex_children.
    repeat (apply Forall_cons; [cbn [snd rt_dom]; dom_leaf|]). apply Forall_nil.
  - unfold ex_graph, mk_graph. apply single_typed_graph. unfold ex_children.
    repeat (apply Forall_cons; [cbn [snd single_typed leaf_single]; try exact I; eexists; reflexivity|]). apply Forall_nil.
Qed.

Definition ex_file : h5 := Eval vm_compute in match write ex_graph with Ok t => t | Err _ => H5Group [] end.
Definition ex_read : node := Eval vm_compute in match read ex_file with Ok g => g | Err _ => dummy end.

Lemma ex_write : write ex_graph = Ok ex_file.
Proof. vm_compute. reflexivity. Qed.
Lemma ex_read_ok : read ex_file = Ok ex_read.
Proof. vm_compute. reflexivity. Qed.

(* the conclusion of the theorem on the example *)
Example ex_round_trip : exists g', read ex_file = Ok g' /\ equiv g' ex_graph.
Proof. exact (file_round_trip ex_graph ex_file ex_built ex_domain ex_write). Qed.

Corollary ex_equiv : equiv ex_read ex_graph.
Proof.
  destruct ex_round_trip as (g' & Hr & He). rewrite ex_read_ok in Hr. inversion Hr. subst g'. exact He.
Qed.

(* the same fact checked directly against the definition of `equiv`, without the theorem *)
Ltac vsolve :=
  first
  [ apply vs_refl
  | apply vs_int_np
  | match goal with |- vsim (VTuple ?l) (VArr ?dt _ ?tok (Some ?zs)) => exact (vs_seq_arr true l zs dt tok eq_refl) end
  | vm_compute; reflexivity ].
Ltac fsolve :=
  repeat (apply Forall2_cons;
          [split; [reflexivity|]; unfold erel;
           cbn [String.eqb Ascii.eqb Bool.eqb andb mem_str orb fst snd]; vsolve|]);
  apply Forall2_nil.

Ltac asolve :=
  intros f dt sh tok i Ha Hsh; revert Ha; cbn [assoc];
  repeat match goal with |- context [String.eqb ?x ?s] => destruct (String.eqb x s) end;
  intros Ha; first [exact Ha | discriminate Ha | exfalso; apply Hsh; inversion Ha; reflexivity].

Example ex_equiv_direct : equiv ex_read ex_graph.
Proof.
  unfold equiv, ex_read, ex_graph, mk_graph, ex_children. apply rt_rel_graph.
  split; [|split; [reflexivity|split; [vm_compute; reflexivity|split; vm_compute; repeat constructor]]].
  cbn [all2 fst snd rt_rel]. repeat split; try reflexivity; try fsolve; asolve.
Qed.

(* ================================================================================================ *)
(* (13) what the domain excludes: counterexamples                                                   *)
(* ================================================================================================ *)
(* (D1, bool) a Python bool hyper-parameter that the constructor reads as an integer comes back as numpy.bool_, which
   is not read as an integer: READING THE FILE FAILS *)
Definition flat_bool : list (string * pval) :=
  [("input_type", VDict [("input", VTuple [VInt 2; VInt 3])]); ("start_dim", VBool false); ("end_dim", VInt (-1))].
Example bool_needed :
  exists n t, construct KFlatten flat_bool = Ok n /\ write n = Ok t /\ read t = Err TypeError.
Proof. eexists _, _. split; [vm_compute; reflexivity|]. split; [vm_compute; reflexivity|]. vm_compute. reflexivity. Qed.

Definition pool_args (x : pval) : list (string * pval) :=
  [("kernel_size", x); ("stride", VInt 2); ("padding", VInt 0)].

Ltac cex_first_field Hv :=
  eexists _, _, _; split; [vm_compute; reflexivity|]; split; [vm_compute; reflexivity|]; split; [vm_compute; reflexivity|];
  intros H; unfold equiv in H; cbn [rt_rel] in H; destruct H as (_ & Hf & _);
  inversion Hf as [|p q r r' [_ Hv] _]; subst; unfold erel in Hv;
  cbn [fst snd String.eqb Ascii.eqb Bool.eqb andb] in Hv.

(* (D1, nested empty metadata) the writer drops an empty dictionary called "metadata" at ANY depth: inside a
   dictionary-valued hyper-parameter the entry is lost *)
Example nested_empty_metadata_needed :
  exists n t n', construct KAvgPool2d (pool_args (VDict [("metadata", VDict [])])) = Ok n /\ write n = Ok t /\
                 read t = Ok n' /\ ~ equiv n' n.
Proof. cex_first_field Hv. apply (vsim_pshape_view "x") in Hv. discriminate Hv. Qed.

(* (D1, bytes) bytes come back as str *)
Example bytes_needed :
  exists n t n', construct KAvgPool2d (pool_args (VBytes "ab")) = Ok n /\ write n = Ok t /\
                 read t = Ok n' /\ ~ equiv n' n.
Proof. cex_first_field Hv. apply vsim_str_view in Hv. discriminate Hv. Qed.

(* (D1, float) a Python float comes back as a numpy float64 scalar whose content the model does not record; vsim keeps
   floats apart, so `equiv` cannot hold — this is a limit of the relation, not a defect of the round trip *)
Example float_excluded :
  exists n t n', construct KAvgPool2d (pool_args (VFloat 7)) = Ok n /\ write n = Ok t /\
                 read t = Ok n' /\ ~ equiv n' n.
Proof. cex_first_field Hv. apply vsim_is_float in Hv. discriminate Hv. Qed.

(* (D3) extra entries of the type dictionary of an Input node are not serialised (DictProofs.extra_keys_lost) *)
Example single_needed :
  exists n t n', construct KInput extra_key_input = Ok n /\ write n = Ok t /\ read t = Ok n' /\ ~ equiv n' n.
Proof.
  eexists _, _, _. split; [vm_compute; reflexivity|]. split; [vm_compute; reflexivity|]. split; [vm_compute; reflexivity|].
  intros H. unfold equiv in H. cbn [rt_rel] in H. destruct H as (_ & _ & Hti & _). cbn in Hti. discriminate Hti.
Qed.

(* (D2 is sufficient, not necessary) a Conv1d with padding = "same" never reads its stride; with a 0-d array there the
   node is outside rt_domain (SimProofs.post_init_sim needs S2), yet its round trip is fine *)
Definition conv1d_0d : list (string * pval) :=
  [("input_shape", VInt 8); ("weight", VArr "float32" [4; 1; 3] 11 None);
   ("stride", VArr "int64" [] 5 (Some [1])); ("padding", VStr "same"); ("dilation", VInt 1);
   ("groups", VInt 1); ("bias", VArr "float32" [4] 12 None)].
Example hp0_not_necessary :
  exists n t n', construct KConv1d conv1d_0d = Ok n /\ ~ rt_domain n /\ write n = Ok t /\ read t = Ok n' /\ equiv n' n.
Proof.
  eexists _, _, _. split; [vm_compute; reflexivity|]. split; [|split; [vm_compute; reflexivity|split; [vm_compute; reflexivity|]]].
  - intros [[_ H] _]. specialize (H "stride" _ (or_intror (or_introl eq_refl)) eq_refl). discriminate H.
  - apply equiv_leaf. split; [reflexivity|]. split; [|split; [reflexivity|split; [reflexivity|asolve]]].
    repeat (apply Forall2_cons;
            [split; [reflexivity|]; unfold erel; cbn [String.eqb Ascii.eqb Bool.eqb andb mem_str orb fst snd];
             first [apply vs_arr0_np | vsolve]|]).
    apply Forall2_nil.
Qed.

Print Assumptions leaf_round_trip.
Print Assumptions built_round_trip.
Print Assumptions file_round_trip_canon.
Print Assumptions file_round_trip.
Print Assumptions ex_round_trip.
Print Assumptions ex_equiv_direct.
Print Assumptions bool_needed.
Print Assumptions nested_empty_metadata_needed.
Print Assumptions bytes_needed.
Print Assumptions float_excluded.
Print Assumptions single_needed.
Print Assumptions hp0_not_necessary.
