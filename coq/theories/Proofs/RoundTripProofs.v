(* RoundTripProofs.v — property C01: the FILE ROUND-TRIP THEOREM, assembled from SerialProofs (write/read refine
   `norm_entries`), DictProofs (from_dict (to_dict n) for constructed nodes), SimProofs (constructors only look at numeric
   views) and MirrorClosedProofs. *)
From NIR Require Import Model.Graph Model.Serial Proofs.MirrorClosedProofs Proofs.SerialProofs Proofs.SimProofs
  Proofs.DictProofs.
From NIR Require Proofs.NodesProofs.
From Coq Require Import Lia List Bool String.

Lemma norm_entries_app a : forall b c,
  norm_entries (a ++ b) = Ok c ->
  exists a' b', norm_entries a = Ok a' /\ norm_entries b = Ok b' /\ c = a' ++ b'.
Proof.
  induction a as [|[k x] r IH]; intros b c H.
  - exists [], c. repeat split. exact H.
  - cbn [app] in H. rewrite norm_entries_cons in H. rewrite norm_entries_cons.
    destruct (has_bad_char k); [discriminate|].
    apply bind_ok in H as (here & Hhere & H). apply bind_ok in H as (rest & Hrest & H). inversion H; subst c.
    destruct (IH _ _ Hrest) as (a' & b' & Ha & Hb & ->).
    rewrite Hhere, Ha. cbn [bind]. exists (here ++ a'), b'. repeat split; [exact Hb|apply app_assoc].
Qed.

(* ================================================================================================ *)
(* (0) association lists                                                                            *)
(* ================================================================================================ *)
Lemma assoc_set_app_none {A} k (v : A) a b : assoc k a = None -> assoc_set k v (a ++ b) = a ++ assoc_set k v b.
Proof.
  induction a as [|[k' v'] r IH]; cbn [assoc assoc_set app]; [reflexivity|].
  destruct (String.eqb k k'); [discriminate|]. intros H. rewrite (IH H). reflexivity.
Qed.

Lemma assoc_in_keys {A} k (l : list (string * A)) v : assoc k l = Some v -> In k (map fst l).
Proof. intros H. apply assoc_In in H. apply in_map_iff. exists (k, v). split; [reflexivity|exact H]. Qed.

Lemma assoc_not_in {A} k (l : list (string * A)) : ~ In k (map fst l) -> assoc k l = None.
Proof. apply assoc_none_keys. Qed.

(* ================================================================================================ *)
(* (1) the dictionary of a leaf and what dict2node does with it                                     *)
(* ================================================================================================ *)
(* the class-specific entry that follows the type tag, and the keyword argument dict2node makes of it *)
Definition extra_entries (k : kind) (sv : pval) : list (string * pval) :=
  match k with
  | KInput | KOutput => [("shape", sv)]
  | KFlatten => [("input_type", sv)]
  | _ => []
  end.
Definition xargs (k : kind) (sv : pval) : list (string * pval) :=
  match k with
  | KInput => [("input_type", VDict [("input", sv)])]
  | KOutput => [("output_type", VDict [("output", sv)])]
  | KFlatten => [("input_type", VDict [("input", sv)])]
  | _ => []
  end.
Definition extra_val (k : kind) (ti to : ty) : pval :=
  match k with
  | KInput | KFlatten => ty_get "input" ti
  | KOutput => ty_get "output" to
  | _ => VNone
  end.

Lemma to_dict_leaf k fs ti to :
  to_dict (Leaf k fs ti to) = fs ++ ("type", VStr (kind_name k)) :: extra_entries k (extra_val k ti to).
Proof. destruct k; cbn [to_dict extra_entries extra_val]; rewrite <- ?app_assoc; reflexivity. Qed.

Definition tag_free (fs : list (string * pval)) : Prop :=
  assoc "type" fs = None /\ assoc "shape" fs = None /\ assoc "input_type" fs = None /\ assoc "output_type" fs = None.

Lemma dict2node_leaf_form k fs sv f :
  k <> KGraph -> tag_free fs ->
  dict2node (S f) (fs ++ ("type", VStr (kind_name k)) :: extra_entries k sv) = construct k (fs ++ xargs k sv).
Proof.
  intros Hk (Ht & Hs & Hi & Ho).
  rewrite (dict2node_tag f _ k)
    by (rewrite assoc_app_none by exact Ht; cbn [assoc String.eqb Ascii.eqb Bool.eqb andb]; reflexivity).
  destruct k; try (exfalso; apply Hk; reflexivity); cbn [extra_entries xargs];
    try (rewrite assoc_del_app, (assoc_del_absent _ _ Ht);
         cbn [assoc_del String.eqb Ascii.eqb Bool.eqb andb]; reflexivity).
  - rewrite (assoc_app_none _ _ _ Hs). cbn [assoc String.eqb Ascii.eqb Bool.eqb andb].
    rewrite (assoc_set_app_none _ _ _ _ Hi). cbn [assoc_set String.eqb Ascii.eqb Bool.eqb andb].
    rewrite !assoc_del_app, (assoc_del_absent _ _ Hs). cbn [assoc_del String.eqb Ascii.eqb Bool.eqb andb].
    rewrite (assoc_del_absent _ _ Ht). reflexivity.
  - rewrite (assoc_app_none _ _ _ Hs). cbn [assoc String.eqb Ascii.eqb Bool.eqb andb].
    rewrite (assoc_set_app_none _ _ _ _ Ho). cbn [assoc_set String.eqb Ascii.eqb Bool.eqb andb].
    rewrite !assoc_del_app, (assoc_del_absent _ _ Hs). cbn [assoc_del String.eqb Ascii.eqb Bool.eqb andb].
    rewrite (assoc_del_absent _ _ Ht). reflexivity.
  - rewrite (assoc_app_none _ _ _ Hi). cbn [assoc String.eqb Ascii.eqb Bool.eqb andb]. cbv zeta.
    rewrite (assoc_set_app_none _ _ _ _ Hi). cbn [assoc_set String.eqb Ascii.eqb Bool.eqb andb].
    rewrite !assoc_del_app. cbn [assoc_del String.eqb Ascii.eqb Bool.eqb andb].
    rewrite (assoc_del_absent _ _ Ht). reflexivity.
Qed.

(* ================================================================================================ *)
(* (2) norm_entries, entry by entry                                                                 *)
(* ================================================================================================ *)
Definition norm_here (k : string) (x : pval) : result (list (string * pval)) :=
  if String.eqb k "metadata" then
    match x with
    | VDict [] => Ok []
    | VDict _ => do y <- norm_val x; Ok [(k, y)]
    | _ => Err AttributeError
    end
  else if unusable_name k then Err ValueError
  else do y <- norm_val x; Ok [(k, y)].

Lemma norm_entries_cons' k x r :
  norm_entries ((k, x) :: r) =
  if has_bad_char k then Err ValueError else
  do here <- norm_here k x; do rest <- norm_entries r; Ok (here ++ rest).
Proof. reflexivity. Qed.

Lemma norm_here_cases k x here : norm_here k x = Ok here ->
  (k = "metadata" /\ x = VDict [] /\ here = []) \/
  (exists y, norm_val x = Ok y /\ here = [(k, y)] /\ (k = "metadata" -> x <> VDict [] /\ is_dict x = true)).
Proof.
  unfold norm_here. intros H. destruct (String.eqb k "metadata") eqn:Ek.
  - apply String.eqb_eq in Ek. destruct x; try discriminate H. destruct kv as [|e0 kv0].
    + left. inversion H. repeat split. exact Ek.
    + right. apply bind_ok in H as (y & Hy & H). inversion H. exists y. repeat split; try assumption. discriminate.
  - apply String.eqb_neq in Ek. destruct (unusable_name k); [discriminate H|].
    right. apply bind_ok in H as (y & Hy & H). inversion H. exists y. repeat split; try assumption; contradiction.
Qed.

Lemma norm_entries_cons_inv k x r c : norm_entries ((k, x) :: r) = Ok c ->
  exists here rest, norm_here k x = Ok here /\ norm_entries r = Ok rest /\ c = here ++ rest.
Proof.
  rewrite norm_entries_cons'. destruct (has_bad_char k); [discriminate|]. intros H.
  apply bind_ok in H as (here & Hhere & H). apply bind_ok in H as (rest & Hrest & H). inversion H.
  exists here, rest. repeat split; assumption.
Qed.

Lemma norm_entries_keys kv kv' f : norm_entries kv = Ok kv' -> In f (map fst kv') -> In f (map fst kv).
Proof.
  intros H Hin. apply in_map_iff in Hin as ([f' v'] & <- & Hin). cbn [fst].
  destruct (norm_entries_from _ _ _ _ H Hin) as (v & Hv & _). apply in_map_iff. exists (f', v). split; [reflexivity|exact Hv].
Qed.

(* lookups, when the keys are distinct *)
Lemma norm_entries_assoc kv : forall kv', NoDup (map fst kv) -> norm_entries kv = Ok kv' -> forall f,
  match assoc f kv with
  | None => assoc f kv' = None
  | Some v => (f = "metadata" /\ v = VDict [] /\ assoc f kv' = None) \/
              (exists v', norm_val v = Ok v' /\ assoc f kv' = Some v' /\ (f = "metadata" -> v <> VDict [] /\ is_dict v = true))
  end.
Proof.
  induction kv as [|[k0 x] r IH]; intros kv' Hnd H f.
  - cbn in H. inversion H. reflexivity.
  - apply norm_entries_cons_inv in H as (here & rest & Hhere & Hrest & ->).
    cbn [map fst] in Hnd. inversion Hnd as [|? ? Hnot Hnd']; subst.
    specialize (IH _ Hnd' Hrest f). cbn [assoc].
    destruct (String.eqb f k0) eqn:E.
    + apply String.eqb_eq in E. subst k0.
      rewrite (assoc_not_in _ _ Hnot) in IH.
      destruct (norm_here_cases _ _ _ Hhere) as [(Hk & Hx & ->)|(y & Hy & -> & Hm)].
      * left. repeat split; assumption.
      * right. exists y. cbn [app assoc]. rewrite String.eqb_refl. repeat split; try assumption; apply Hm; assumption.
    + assert (assoc f (here ++ rest) = assoc f rest) as ->; [|exact IH].
      destruct (norm_here_cases _ _ _ Hhere) as [(_ & _ & ->)|(y & _ & -> & _)]; [reflexivity|].
      cbn [app assoc]. rewrite E. reflexivity.
Qed.

(* ================================================================================================ *)
(* (3) keyword binding on the two sides                                                             *)
(* ================================================================================================ *)
(* how a bound field value `a` of the original relates to the value `b` bound on the file side: the metadata tree by
   the specification of the file round trip itself; every other field either by that specification too (and then the
   value is in the domain `rt_ok` where the specification implies vsim), or it is the same dataclass default *)
Definition brel (f : string) (a b : pval) : Prop :=
  if String.eqb f "metadata" then norm_val a = Ok b else (norm_val a = Ok b /\ rt_ok a) \/ a = b.

(* keyword arguments of the two constructor calls: an empty metadata is not in the file *)
Definition arel (f : string) (o o' : option pval) : Prop :=
  match o, o' with
  | Some a, Some b => brel f a b
  | None, None => f <> "metadata"
  | Some a, None => f = "metadata" /\ a = VDict []
  | None, Some _ => False
  end.

Lemma metadata_is_factory_b :
  forallb (fun k => match class_fields k with
                    | Some tbl => forallb (fun p => negb (String.eqb (fst p) "metadata") ||
                                                    match snd p with FDictFactory => true | _ => false end) tbl
                    | None => true
                    end) all_kinds = true.
Proof. vm_compute. reflexivity. Qed.

Lemma metadata_is_factory k tbl d : class_fields k = Some tbl -> In ("metadata", d) tbl -> d = FDictFactory.
Proof.
  intros Hc Hin. pose proof metadata_is_factory_b as H. rewrite forallb_forall in H.
  specialize (H k (all_kinds_complete k)). rewrite Hc in H. rewrite forallb_forall in H.
  specialize (H _ Hin). cbn [fst snd] in H. rewrite String.eqb_refl in H. cbn [negb orb] in H.
  destruct d; try discriminate H. reflexivity.
Qed.

Lemma bind_fields_arel tbl A A' :
  (forall d, In ("metadata", d) tbl -> d = FDictFactory) ->
  (forall f, arel f (assoc f A) (assoc f A')) ->
  res_rel (fields_rel brel) (bind_fields tbl A) (bind_fields tbl A').
Proof.
  intros Hm Ha. induction tbl as [|[f d] r IH]; cbn [bind_fields]; [constructor|].
  assert (IH' : res_rel (fields_rel brel) (bind_fields r A) (bind_fields r A'))
    by (apply IH; intros d0 Hd0; apply Hm; right; exact Hd0). clear IH.
  assert (Hv : res_rel (brel f)
            match assoc f A with Some v => Ok v | None =>
              match d with FMandatory => Err TypeError | FDefault v => Ok v | FDictFactory => Ok (VDict []) | FUnknown => Err OtherError end end
            match assoc f A' with Some v => Ok v | None =>
              match d with FMandatory => Err TypeError | FDefault v => Ok v | FDictFactory => Ok (VDict []) | FUnknown => Err OtherError end end).
  { specialize (Ha f). unfold arel in Ha. destruct (assoc f A) as [a|], (assoc f A') as [b|]; try contradiction.
    - exact Ha.
    - destruct Ha as [-> ->]. rewrite (Hm d) by (left; reflexivity). cbn [res_rel]. unfold brel. reflexivity.
    - unfold brel. apply String.eqb_neq in Ha. rewrite Ha. destruct d; cbn [res_rel]; try exact I; right; reflexivity. }
  destruct (match assoc f A with Some v => Ok v | None => _ end) as [v|],
           (match assoc f A' with Some v => Ok v | None => _ end) as [v'|]; cbn [res_rel bind] in *; try contradiction; [|exact I].
  destruct (bind_fields r A) as [rest|], (bind_fields r A') as [rest'|]; cbn [res_rel bind] in *; try contradiction; [|exact I].
  constructor; [split; [reflexivity|exact Hv]|exact IH'].
Qed.

Lemma bind_args_arel k A A' bfs :
  (forall f, In f (map fst A') -> In f (map fst A)) ->
  (forall f, arel f (assoc f A) (assoc f A')) ->
  bind_args k A = Ok bfs ->
  exists bfs', bind_args k A' = Ok bfs' /\ fields_rel brel bfs bfs'.
Proof.
  intros Hsub Ha Hb. unfold bind_args in *. destruct (class_fields k) as [tbl|] eqn:Hc; [|discriminate Hb].
  destruct (forallb (fun a => mem_str (fst a) (keys tbl)) A) eqn:Hall; [|discriminate Hb].
  assert (forallb (fun a => mem_str (fst a) (keys tbl)) A' = true) as ->.
  { rewrite forallb_forall in Hall |- *. intros [f v] Hin. cbn [fst].
    assert (In f (map fst A)) as Hf by (apply Hsub, in_map_iff; exists (f, v); split; [reflexivity|exact Hin]).
    apply in_map_iff in Hf as ([f' w] & <- & Hin'). exact (Hall _ Hin'). }
  pose proof (bind_fields_arel tbl A A' (fun d => metadata_is_factory k tbl d Hc) Ha) as H.
  rewrite Hb in H. destruct (bind_fields tbl A') as [bfs'|]; cbn [res_rel] in H; [|contradiction].
  exists bfs'. split; [reflexivity|exact H].
Qed.

(* ================================================================================================ *)
(* (4) metadata is inert: post_init commutes with replacing the metadata value                      *)
(* ================================================================================================ *)
Definition set_meta (m : pval) (n : node) : node :=
  match n with Leaf k f ti to => Leaf k (assoc_set "metadata" m f) ti to | g => g end.
Definition map_res {A B} (f : A -> B) (r : result A) : result B :=
  match r with Ok a => Ok (f a) | Err e => Err e end.

Lemma assoc_set_comm {A} k1 k2 (v1 v2 : A) l :
  k1 <> k2 -> assoc k1 l <> None -> assoc_set k1 v1 (assoc_set k2 v2 l) = assoc_set k2 v2 (assoc_set k1 v1 l).
Proof.
  intros Hne. induction l as [|[k' v'] r IH]; cbn [assoc assoc_set]; [congruence|].
  destruct (String.eqb k1 k') eqn:E1; destruct (String.eqb k2 k') eqn:E2; cbn [assoc_set]; rewrite ?E1, ?E2; intros Hp.
  - apply String.eqb_eq in E1. apply String.eqb_eq in E2. congruence.
  - apply String.eqb_eq in E1. subst k'. rewrite E2. reflexivity.
  - apply String.eqb_eq in E2. subst k'. rewrite E1. reflexivity.
  - rewrite (IH Hp). reflexivity.
Qed.

Lemma push_meta k (v m : pval) l :
  k <> "metadata" -> assoc "metadata" l <> None ->
  assoc_set k v (assoc_set "metadata" m l) = assoc_set "metadata" m (assoc_set k v l).
Proof. intros Hk Hp. symmetry. apply assoc_set_comm; [intros E; apply Hk; symmetry; exact E|exact Hp]. Qed.

Lemma meta_present_set k (v : pval) l : k <> "metadata" -> assoc "metadata" l <> None -> assoc "metadata" (assoc_set k v l) <> None.
Proof. intros Hk Hp. rewrite assoc_set_other' by (intros E; apply Hk; symmetry; exact E). exact Hp. Qed.

Lemma meta_present_drop (l : list (string * pval)) : assoc "metadata" l <> None -> assoc "metadata" (drop_types l) <> None.
Proof. intros Hp. rewrite drop_types_assoc by discriminate. exact Hp. Qed.

Lemma drop_types_set_meta m fs : drop_types (assoc_set "metadata" m fs) = assoc_set "metadata" m (drop_types fs).
Proof. apply drop_types_set; discriminate. Qed.

Ltac mstep :=
  match goal with
  | |- context [fld_shape ?f ?fs] => destruct (fld_shape f fs) eqn:?; cbn [bind map_res]
  | |- context [fld ?f ?fs] => destruct (fld f fs) eqn:?; cbn [bind map_res]
  | |- context [if ?x then _ else _] => destruct x eqn:?; cbn [bind map_res]
  | |- context [match ?x with _ => _ end] => destruct x eqn:?; cbn [bind map_res]
  | |- context [bind ?r _] => destruct r eqn:?; cbn [bind map_res]
  end.

Lemma post_init_set_meta k fs m :
  assoc "metadata" fs <> None ->
  post_init k (assoc_set "metadata" m fs) = map_res (set_meta m) (post_init k fs).
Proof.
  intros Hp.
  destruct k; unfold post_init, elementwise, matvec; cbn [mapM]; meta_rw; cbn [bind].
  all: timeout 300 (repeat mstep).
  all: try reflexivity.
  all: cbn [set_meta]; rewrite ?drop_types_set_meta; try reflexivity.
  all: repeat (rewrite push_meta by (first [discriminate | repeat apply meta_present_set; try discriminate;
                                              first [exact Hp | apply meta_present_drop; exact Hp]]));
       rewrite ?drop_types_set_meta; reflexivity.
Qed.

(* ================================================================================================ *)
(* (5) the stored fields of a constructed leaf (facts computed from the generated table)            *)
(* ================================================================================================ *)
Definition leaf_keys (k : kind) : list string := filter not_type_key (class_keys k).

Lemma leaf_keys_facts_b :
  forallb (fun k => nodupb (leaf_keys k) && mem_str "metadata" (leaf_keys k) &&
                    negb (mem_str "type" (leaf_keys k)) && negb (mem_str "shape" (leaf_keys k)) &&
                    negb (mem_str "input_type" (leaf_keys k)) && negb (mem_str "output_type" (leaf_keys k))) all_kinds = true.
Proof. vm_compute. reflexivity. Qed.

Lemma not_mem_str s l : mem_str s l = false -> ~ In s l.
Proof. intros H Hin. apply mem_str_In in Hin. congruence. Qed.

Lemma constructed_keys k args k' fs ti to :
  construct k args = Ok (Leaf k' fs ti to) ->
  NoDup (map fst fs) /\ assoc "metadata" fs <> None /\ tag_free fs.
Proof.
  intros H. apply construct_keys in H. fold (leaf_keys k) in H.
  pose proof leaf_keys_facts_b as F. rewrite forallb_forall in F. specialize (F k (all_kinds_complete k)).
  rewrite <- H in F. repeat (apply andb_prop in F as [F ?]).
  repeat match goal with E : negb _ = true |- _ => apply negb_true_iff, not_mem_str in E end.
  split; [apply nodupb_NoDup; exact F|]. split.
  - intros E. apply assoc_none_keys in E. apply E. apply mem_str_In. assumption.
  - repeat split; apply assoc_not_in; assumption.
Qed.

(* what is passed is what is bound *)
Lemma bind_fields_assoc tbl A : forall b, bind_fields tbl A = Ok b ->
  forall f v, assoc f A = Some v -> In f (keys tbl) -> assoc f b = Some v.
Proof.
  induction tbl as [|[f0 d0] r IH]; intros b H f v Hf Hin; [destruct Hin|].
  cbn [bind_fields] in H. apply bind_ok in H as (v0 & Hv0 & H). apply bind_ok in H as (rest & Hrest & H).
  inversion H; subst b. cbn [assoc]. destruct (String.eqb f f0) eqn:E.
  - apply String.eqb_eq in E. subst f0. rewrite Hf in Hv0. inversion Hv0. reflexivity.
  - apply (IH _ Hrest _ _ Hf). destruct Hin as [Hin|Hin]; [|exact Hin]. cbn [fst] in Hin. subst f0.
    rewrite String.eqb_refl in E. discriminate.
Qed.

Lemma bind_args_assoc k A b f v : bind_args k A = Ok b -> assoc f A = Some v -> assoc f b = Some v.
Proof.
  unfold bind_args. destruct (class_fields k) as [tbl|]; [|discriminate].
  destruct (forallb _ A) eqn:Hall; [|discriminate]. intros Hb Hf.
  apply (bind_fields_assoc _ _ _ Hb _ _ Hf). rewrite forallb_forall in Hall.
  apply mem_str_In. exact (Hall _ (assoc_In _ _ _ Hf)).
Qed.

(* ================================================================================================ *)
(* (6) the side conditions of post_init_sim in the round-trip direction                             *)
(* ================================================================================================ *)
Definition keeps (a b : pval) : Prop :=
  vsim a b /\
  (is_ok (shape_attr a) = true -> is_ok (shape_attr b) = true) /\
  (is0d a = false -> is0d b = false) /\
  (is_ok (operand_shape a) = true -> is_ok (operand_shape b) = true) /\
  (is_pyint a = false -> is_pyint b = false).

Lemma keeps_refl a : keeps a a.
Proof. split; [apply vs_refl|]. repeat split; trivial. Qed.

Lemma brel_keeps f a b : f <> "metadata" -> brel f a b -> keeps a b.
Proof.
  intros Hf H. unfold brel in H. apply String.eqb_neq in Hf. rewrite Hf in H.
  destruct H as [[Hn Hok]| ->]; [|apply keeps_refl].
  split; [apply norm_val_vsim_deep; assumption|]. split; [apply norm_val_keeps_shape; exact Hn|].
  split; [intros _; apply (norm_val_no0d _ _ Hn)|]. split; [apply norm_val_keeps_operand; exact Hn|].
  intros _. apply (norm_val_not_pyint _ _ Hn).
Qed.

(* what the success of the constructor on the original side tells about the fields it read *)
Definition orig_ok (k : kind) (bfs : list (string * pval)) : Prop :=
  Forall (fun f => is_ok (fld_shape f bfs) = true) (shape_names k) /\
  Forall (fun f => fld_no0d f bfs) (no0d_names k) /\
  (k = KCubaLIF -> forall w, assoc "w_in" bfs = Some w -> is_ok (operand_shape w) = true) /\
  (k = KConv2d -> forall f v, In f ["padding"; "stride"; "dilation"] -> assoc f bfs = Some v -> is_pyint v = false).

Lemma side_names_b :
  forallb (fun k => negb (mem_str "metadata" (shape_names k ++ no0d_names k))) all_kinds = true.
Proof. vm_compute. reflexivity. Qed.

Lemma side_names_not_meta k f : In f (shape_names k ++ no0d_names k) -> f <> "metadata".
Proof.
  intros Hin ->. pose proof side_names_b as F. rewrite forallb_forall in F. specialize (F k (all_kinds_complete k)).
  apply negb_true_iff, not_mem_str in F. exact (F Hin).
Qed.

Definition keeps_fields (fs fs' : list (string * pval)) : Prop :=
  forall f, f <> "metadata" ->
    match assoc f fs, assoc f fs' with
    | Some a, Some b => keeps a b
    | None, None => True
    | _, _ => False
    end.

Lemma side_from k bfs bfs2 : keeps_fields bfs bfs2 -> orig_ok k bfs -> side k bfs bfs2.
Proof.
  intros Hk (Hsh & Hz & Hcu & Hc2). unfold side. split; [|split; [|split]].
  - apply Forall_forall. intros f Hin. rewrite Forall_forall in Hsh. specialize (Hsh f Hin).
    assert (Hf : f <> "metadata") by (apply (side_names_not_meta k), in_or_app; left; exact Hin).
    specialize (Hk f Hf). unfold shape_stable, fld_shape, fld in *.
    destruct (assoc f bfs) as [a|]; [|discriminate Hsh]. destruct (assoc f bfs2) as [b|]; [|contradiction].
    cbn [bind] in *. destruct Hk as (_ & Hs & _). rewrite Hsh, (Hs Hsh). reflexivity.
  - apply Forall_forall. intros f Hin. rewrite Forall_forall in Hz. specialize (Hz f Hin).
    assert (Hf : f <> "metadata") by (apply (side_names_not_meta k), in_or_app; right; exact Hin).
    specialize (Hk f Hf). split; [exact Hz|]. unfold fld_no0d in *.
    destruct (assoc f bfs) as [a|], (assoc f bfs2) as [b|]; try contradiction; [|exact I].
    destruct Hk as (_ & _ & H0 & _). apply H0. exact Hz.
  - intros Ek. specialize (Hcu Ek). specialize (Hk "w_in"). unfold opshape_stable.
    destruct (assoc "w_in" bfs) as [a|], (assoc "w_in" bfs2) as [b|]; try exact I.
    destruct (Hk ltac:(discriminate)) as (_ & _ & _ & Ho & _). rewrite (Hcu a eq_refl), (Ho (Hcu a eq_refl)). reflexivity.
  - intros Ek. specialize (Hc2 Ek). right.
    assert (Hps : forall f, In f ["padding"; "stride"; "dilation"] -> pyint_stable f bfs bfs2).
    { intros f Hin. unfold pyint_stable.
      assert (Hf : f <> "metadata") by (destruct Hin as [<-|[<-|[<-|[]]]]; discriminate).
      specialize (Hk f Hf). destruct (assoc f bfs) as [a|] eqn:Ea, (assoc f bfs2) as [b|]; try exact I.
      destruct Hk as (_ & _ & _ & _ & Hp). rewrite (Hc2 f a Hin Ea), (Hp (Hc2 f a Hin Ea)). reflexivity. }
    repeat split; apply Hps; cbn [In]; timeout 20 tauto.
Qed.

Lemma post_init_shapes k fs n :
  post_init k fs = Ok n -> assoc "input_shape" fs <> Some VNone ->
  Forall (fun f => is_ok (fld_shape f fs) = true) (shape_names k).
Proof.
  intros H Hish.
  destruct k; cbn [shape_names]; try apply Forall_nil;
    unfold post_init, elementwise, matvec in H; cbn [mapM] in H; ok_walk H;
    repeat match goal with E : bind _ _ = Ok _ |- _ => ok_walk E end;
    try (exfalso; apply Hish; apply fld_assoc; assumption);
    repeat (apply Forall_cons; [match goal with E : fld_shape ?f ?fs = Ok _ |- is_ok (fld_shape ?f ?fs) = true =>
                                  rewrite E; reflexivity end|]); apply Forall_nil.
Qed.

Lemma cuba_operand fs n w :
  post_init KCubaLIF fs = Ok n -> assoc "w_in" fs = Some w -> is_ok (operand_shape w) = true.
Proof.
  intros H Hw. unfold post_init in H. ok_walk H.
  all: match goal with E : fld "w_in" _ = Ok _ |- _ => apply fld_assoc in E; rewrite Hw in E; inversion E; subst end.
  all: match goal with E : operand_shape _ = Ok _ |- _ => rewrite E; reflexivity end.
Qed.

Lemma conv2d_stored args k' fs ti to :
  construct KConv2d args = Ok (Leaf k' fs ti to) ->
  forall f, In f ["padding"; "stride"; "dilation"] -> exists v, assoc f fs = Some v /\ is_pyint v = false.
Proof.
  intros H. open_construct H Hb. red_in H. cbn [assoc_set String.eqb Ascii.eqb Bool.eqb andb] in H.
  ok_walk H.
  all: intros f Hin; destruct Hin as [<-|[<-|[<-|[]]]]; cbn_fields; cbn [assoc String.eqb Ascii.eqb Bool.eqb andb];
       eexists; (split; [reflexivity|apply pair_if_int_not_pyint]).
Qed.

(* ================================================================================================ *)
(* (7) helpers for the leaf theorem                                                                 *)
(* ================================================================================================ *)
Lemma assoc_set_twice {A} k (v v0 : A) l : assoc_set k v (assoc_set k v0 l) = assoc_set k v l.
Proof.
  induction l as [|[k' v'] r IH]; cbn [assoc_set].
  - rewrite String.eqb_refl. reflexivity.
  - destruct (String.eqb k k') eqn:E; cbn [assoc_set].
    + rewrite String.eqb_refl. reflexivity.
    + rewrite E, IH. reflexivity.
Qed.

Lemma assoc_set_same {A} k (v : A) l : assoc k l = Some v -> assoc_set k v l = l.
Proof.
  induction l as [|[k' v'] r IH]; cbn [assoc assoc_set]; [discriminate|].
  destruct (String.eqb k k') eqn:E.
  - apply String.eqb_eq in E. subst k'. intros H. inversion H. reflexivity.
  - intros H. rewrite (IH H). reflexivity.
Qed.

Lemma fields_rel_weaken_keys (R R' : string -> pval -> pval -> Prop) fs fs' :
  (forall f a b, In f (map fst fs) -> R f a b -> R' f a b) -> fields_rel R fs fs' -> fields_rel R' fs fs'.
Proof.
  intros HR H. induction H as [|[k a] [k' b] r r' [Hk Hv] Hr IH]; [constructor|].
  cbn [fst snd] in Hk, Hv. subst k'. constructor.
  - split; [reflexivity|]. cbn [fst snd]. apply HR; [left; reflexivity|exact Hv].
  - apply IH. intros f a0 b0 Hin. apply HR. right. exact Hin.
Qed.

(* replace the metadata value on the right-hand side *)
Lemma fields_rel_set_meta (R R' : string -> pval -> pval -> Prop) fs fs' a m :
  fields_rel R fs fs' -> NoDup (map fst fs) ->
  (forall f x y, f <> "metadata" -> R f x y -> R' f x y) ->
  assoc "metadata" fs = Some a -> R' "metadata" a m ->
  fields_rel R' fs (assoc_set "metadata" m fs').
Proof.
  intros H Hnd HR. induction H as [|[k x] [k' y] r r' [Hk Hv] Hr IH]; intros Ha Hm; [discriminate Ha|].
  cbn [fst snd] in Hk, Hv. subst k'. cbn [map fst] in Hnd. inversion Hnd as [|? ? Hnot Hnd']; subst.
  cbn [assoc] in Ha. cbn [assoc_set]. destruct (String.eqb "metadata" k) eqn:E.
  - apply String.eqb_eq in E. subst k. inversion Ha; subst x. constructor; [split; [reflexivity|exact Hm]|].
    apply (fields_rel_weaken_keys R R'); [|exact Hr].
    intros f x0 y0 Hin. apply HR. intros ->. contradiction.
  - constructor; [|apply IH; assumption]. split; [reflexivity|]. cbn [fst snd]. apply HR; [|exact Hv].
    intros ->. rewrite String.eqb_refl in E. discriminate.
Qed.

(* the tail of the dictionary of a leaf: type tag and class-specific entry *)
Definition has_extra (k : kind) : bool := match k with KInput | KOutput | KFlatten => true | _ => false end.

Lemma norm_tail k s sv r :
  norm_entries (("type", VStr s) :: extra_entries k sv) = Ok r ->
  exists sv', r = ("type", VStr s) :: extra_entries k sv' /\ (has_extra k = true -> norm_val sv = Ok sv').
Proof.
  intros H. apply norm_entries_cons_inv in H as (here & rest & Hhere & Hrest & ->).
  unfold norm_here in Hhere. cbn in Hhere. inversion Hhere; subst here. clear Hhere.
  destruct k; cbn [extra_entries has_extra] in *;
    try (cbn in Hrest; inversion Hrest; subst rest; exists sv; split; [reflexivity|discriminate]).
  all: apply norm_entries_cons_inv in Hrest as (here & rest' & Hhere & Hrest & ->);
       cbn in Hrest; inversion Hrest; subst rest';
       unfold norm_here in Hhere; cbn [String.eqb Ascii.eqb Bool.eqb andb unusable_name orb] in Hhere;
       apply bind_ok in Hhere as (y & Hy & Hh); inversion Hh; subst here;
       exists y; split; [reflexivity|intros _; exact Hy].
Qed.

(* ================================================================================================ *)
(* (8) THE LEAF THEOREM                                                                             *)
(* ================================================================================================ *)
(* field relation of the result: metadata by the round-trip specification, the rest as in SimProofs.node_sim *)
Definition erel (k : kind) (f : string) (a b : pval) : Prop :=
  if String.eqb f "metadata" then norm_val a = Ok b else frel k f a b.

Definition leaf_domain (k : kind) (fs : list (string * pval)) : Prop :=
  (forall f v, In (f, v) fs -> f <> "metadata" -> rt_ok v) /\
  (forall f v, In f (no0d_names k) -> assoc f fs = Some v -> is0d v = false).

Lemma no0d_names_passed_b :
  forallb (fun k => forallb (fun f => mem_str f (leaf_keys k ++ map fst (xargs k VNone))) (no0d_names k)) all_kinds = true.
Proof. vm_compute. reflexivity. Qed.

Lemma no0d_names_passed k f sv : In f (no0d_names k) -> In f (leaf_keys k ++ map fst (xargs k sv)).
Proof.
  intros Hin. pose proof no0d_names_passed_b as F. rewrite forallb_forall in F. specialize (F k (all_kinds_complete k)).
  rewrite forallb_forall in F. specialize (F f Hin). apply mem_str_In in F. destruct k; exact F.
Qed.

Lemma class_keys_nodup_b : forallb (fun k => nodupb (class_keys k)) all_kinds = true.
Proof. vm_compute. reflexivity. Qed.

Lemma class_keys_nodup k : NoDup (class_keys k).
Proof.
  pose proof class_keys_nodup_b as F. rewrite forallb_forall in F. apply nodupb_NoDup. exact (F k (all_kinds_complete k)).
Qed.

Lemma rt_ok_ty_get key t : rt_ok (ty_get key t).
Proof.
  unfold ty_get. destruct t as [d|]; [|exact I]. destruct (assoc key d) as [v|]; [|exact I]. destruct v; exact I.
Qed.

Lemma xargs_assoc k sv f :
  assoc f (xargs k sv) = None \/
  (has_extra k = true /\ f <> "metadata" /\ exists i, i <> "metadata" /\ unusable_name i = false /\ has_bad_char i = false /\
     forall sv0, assoc f (xargs k sv0) = Some (VDict [(i, sv0)])).
Proof.
  destruct k; cbn [xargs assoc]; try (left; reflexivity).
  all: match goal with |- context [String.eqb ?x ?s] => destruct (String.eqb x s) eqn:E end; [|left; reflexivity].
  all: apply String.eqb_eq in E; subst; right; split; [reflexivity|]; split; [discriminate|].
  all: eexists; split; [|split; [|split; [|intros sv0; reflexivity]]]; [discriminate|reflexivity|reflexivity].
Qed.

Lemma norm_val_dict1 i sv sv' :
  i <> "metadata" -> unusable_name i = false -> has_bad_char i = false ->
  norm_val sv = Ok sv' -> norm_val (VDict [(i, sv)]) = Ok (VDict [(i, sv')]).
Proof.
  intros Hi Hu Hb Hn. rewrite norm_val_dict, norm_entries_cons'. rewrite Hb. unfold norm_here.
  apply String.eqb_neq in Hi. rewrite Hi, Hu, Hn. reflexivity.
Qed.

Lemma leaf_round_trip k args fs ti to d' fuel :
  k <> KGraph -> construct k args = Ok (Leaf k fs ti to) -> leaf_domain k fs ->
  norm_entries (to_dict (Leaf k fs ti to)) = Ok d' ->
  exists fs' ti' to', dict2node (S fuel) d' = Ok (Leaf k fs' ti' to') /\
     fields_rel (erel k) fs fs' /\
     ty_rel (loose_in k) (canon_tin k ti) ti' /\ ty_rel (loose_out k) (canon_tout k to) to'.
Proof.
  intros Hk Hc (Hok & H0d) Hn.
  destruct (constructed_keys _ _ _ _ _ _ Hc) as (Hnd & Hmeta & Htag).
  pose proof (construct_keys _ _ _ _ _ _ Hc) as Hkeys. fold (leaf_keys k) in Hkeys.
  (* the original side *)
  pose proof (construct_round k args k fs ti to Hk Hc) as Hround. unfold from_dict in Hround.
  rewrite to_dict_leaf in Hround, Hn. rewrite (dict2node_leaf_form _ _ _ _ Hk Htag) in Hround.
  set (sv := extra_val k ti to) in *.
  (* the file side *)
  apply norm_entries_app in Hn as (fsf & tl & Hfsf & Htl & ->).
  apply norm_tail in Htl as (sv' & -> & Hsv).
  assert (Htagf : tag_free fsf).
  { destruct Htag as (T1 & T2 & T3 & T4).
    repeat split; apply assoc_not_in; intros Hin; apply (norm_entries_keys _ _ _ Hfsf) in Hin;
      [apply assoc_none_keys in T1|apply assoc_none_keys in T2|apply assoc_none_keys in T3|apply assoc_none_keys in T4];
      contradiction. }
  rewrite (dict2node_leaf_form _ _ _ _ Hk Htagf).
  (* the keyword arguments *)
  unfold construct in Hround. destruct (bind_args k (fs ++ xargs k sv)) as [bfs|] eqn:Hb; [|discriminate Hround].
  cbn [bind] in Hround.
  assert (Harel : forall f, arel f (assoc f (fs ++ xargs k sv)) (assoc f (fsf ++ xargs k sv'))).
  { intros f. pose proof (norm_entries_assoc _ _ Hnd Hfsf f) as Ha. destruct (assoc f fs) as [v|] eqn:Ef.
    - rewrite (assoc_app_some _ _ _ _ Ef). destruct Ha as [(-> & -> & Hf)|(v' & Hv & Hf & _)].
      + rewrite (assoc_app_none _ _ _ Hf).
        destruct (xargs_assoc k sv' "metadata") as [->|(_ & Hne & _)]; [split; reflexivity|congruence].
      + rewrite (assoc_app_some _ _ _ _ Hf). unfold arel, brel. destruct (String.eqb f "metadata") eqn:E; [exact Hv|].
        left. split; [exact Hv|]. apply (Hok f v); [apply assoc_In; exact Ef|apply String.eqb_neq; exact E].
    - rewrite (assoc_app_none _ _ _ Ef), (assoc_app_none _ _ _ Ha).
      assert (Hfm : f <> "metadata") by (intros ->; contradiction).
      destruct (xargs_assoc k sv f) as [Hx|(Hex & _ & i & Hi & Hu & Hbad & Hx)].
      + rewrite Hx. destruct (xargs_assoc k sv' f) as [->|(_ & _ & i & _ & _ & _ & Hx')]; [exact Hfm|].
        rewrite Hx' in Hx. discriminate Hx.
      + rewrite !Hx. unfold arel, brel. apply String.eqb_neq in Hfm. rewrite Hfm. left. split.
        * apply norm_val_dict1; try assumption. apply Hsv. exact Hex.
        * cbn. split; [intros E; contradiction|]. split; [|exact I].
          subst sv. destruct k; try discriminate Hex; apply rt_ok_ty_get. }
  assert (Hsub : forall f, In f (map fst (fsf ++ xargs k sv')) -> In f (map fst (fs ++ xargs k sv))).
  { intros f. rewrite !map_app, !in_app_iff. intros [Hin|Hin]; [left; exact (norm_entries_keys _ _ _ Hfsf Hin)|right].
    destruct k; exact Hin. }
  destruct (bind_args_arel k _ _ _ Hsub Harel Hb) as (bfs' & Hb' & Hrel).
  unfold construct. rewrite Hb'. cbn [bind].
  (* metadata *)
  destruct (assoc "metadata" fs) as [m|] eqn:Em; [|exfalso; apply Hmeta; reflexivity].
  assert (Hbm : assoc "metadata" bfs = Some m) by (apply (bind_args_assoc _ _ _ _ _ Hb), assoc_app_some, Em).
  pose proof (fields_rel_assoc _ _ _ "metadata" Hrel) as Hm'. rewrite Hbm in Hm'.
  destruct (assoc "metadata" bfs') as [m'|] eqn:Em'; [|contradiction].
  unfold brel in Hm'. cbn [String.eqb Ascii.eqb Bool.eqb andb] in Hm'.
  assert (Hndb : NoDup (map fst bfs)) by (rewrite (bind_args_keys _ _ _ Hb); apply class_keys_nodup).
  set (bfs2 := assoc_set "metadata" m bfs').
  assert (Hsim : fields_sim bfs bfs2).
  { apply (fields_rel_set_meta brel (fun _ => vsim) bfs bfs' m m Hrel Hndb); [|exact Hbm|apply vs_refl].
    intros f x y Hf Hbr. apply (brel_keeps f x y Hf Hbr). }
  assert (Hkeeps : keeps_fields bfs bfs2).
  { intros f Hf. unfold bfs2. rewrite assoc_set_other' by exact Hf.
    pose proof (fields_rel_assoc _ _ _ f Hrel) as Hr.
    destruct (assoc f bfs) as [a|], (assoc f bfs') as [b|]; try contradiction; [|exact I].
    apply (brel_keeps f a b Hf Hr). }
  assert (Horig : orig_ok k bfs).
  { split; [|split; [|split]].
    - apply (post_init_shapes k bfs _ Hround). intros Hish.
      destruct (assoc "input_shape" fs) as [v|] eqn:Ei.
      + rewrite (bind_args_assoc _ _ _ _ _ Hb (assoc_app_some _ _ _ _ Ei)) in Hish. inversion Hish; subst v.
        pose proof (norm_entries_assoc _ _ Hnd Hfsf "input_shape") as Ha. rewrite Ei in Ha.
        destruct Ha as [(E & _)|(v' & Hv & _)]; [discriminate E|discriminate Hv].
      + apply assoc_in_keys in Hish. rewrite (bind_args_keys _ _ _ Hb) in Hish.
        assert (In "input_shape" (leaf_keys k)) as Hl by (apply filter_In; split; [exact Hish|reflexivity]).
        rewrite <- Hkeys in Hl. apply assoc_none_keys in Ei. contradiction.
    - apply Forall_forall. intros f Hin. unfold fld_no0d. destruct (assoc f bfs) as [v|] eqn:Ev; [|exact I].
      destruct (assoc f (fs ++ xargs k sv)) as [v0|] eqn:EA.
      + rewrite (bind_args_assoc _ _ _ _ _ Hb EA) in Ev. inversion Ev; subst v0.
        destruct (assoc f fs) as [v1|] eqn:Ef.
        * rewrite (assoc_app_some _ _ _ _ Ef) in EA. inversion EA; subst v1. exact (H0d f v Hin Ef).
        * rewrite (assoc_app_none _ _ _ Ef) in EA.
          destruct (xargs_assoc k sv f) as [Hx|(_ & _ & i & _ & _ & _ & Hx)]; rewrite Hx in EA; [discriminate EA|].
          inversion EA. reflexivity.
      + exfalso. apply assoc_none_keys in EA. apply EA. rewrite map_app, Hkeys. apply no0d_names_passed. exact Hin.
    - intros ->. intros w Hw. exact (cuba_operand bfs _ w Hround Hw).
    - intros ->. intros f v Hin Hv. destruct (conv2d_stored _ _ _ _ _ Hc f Hin) as (v0 & Hv0 & Hp).
      rewrite (bind_args_assoc _ _ _ _ _ Hb (assoc_app_some _ _ _ _ Hv0)) in Hv. inversion Hv; subst v0. exact Hp. }
  pose proof (post_init_sim k bfs bfs2 Hsim (side_from k bfs bfs2 Hkeeps Horig)) as Hpi.
  rewrite Hround in Hpi. destruct (post_init k bfs2) as [n2|] eqn:E2; [|contradiction].
  destruct n2 as [k2 f2 ti2 to2|]; [|contradiction]. cbn [res_sim res_rel node_sim] in Hpi.
  destruct Hpi as (<- & Hf2 & Hti & Hto).
  assert (Hbe : bfs' = assoc_set "metadata" m' bfs2)
    by (unfold bfs2; rewrite assoc_set_twice, (assoc_set_same _ _ _ Em'); reflexivity).
  rewrite Hbe, post_init_set_meta by (unfold bfs2; rewrite assoc_assoc_set, String.eqb_refl; discriminate).
  rewrite E2. cbn [map_res set_meta].
  eexists _, _, _. split; [reflexivity|]. split; [|split; assumption].
  apply (fields_rel_set_meta (frel k) (erel k) fs f2 m m' Hf2 Hnd); [|exact Em|].
  - intros f x y Hf Hfr. unfold erel. apply String.eqb_neq in Hf. rewrite Hf. exact Hfr.
  - unfold erel. cbn [String.eqb Ascii.eqb Bool.eqb andb]. exact Hm'.
Qed.

(* ================================================================================================ *)
(* (9) EQUIVALENCE OF THE NODE READ BACK WITH THE ORIGINAL                                          *)
(* ================================================================================================ *)
(* graph-level types (recomputed from the children by NIRGraph.__post_init__ on both sides): same names in the same
   order, same numbers, container of the numbers (tuple TSeq / array TArr) forgotten *)
Definition gty_rel (g g' : option (list (string * ty))) : Prop :=
  match g, g' with
  | None, None => True
  | Some l, Some l' => Forall2 (fun p q => fst p = fst q /\ ty_norm (snd p) = ty_norm (snd q)) l l'
  | _, _ => False
  end.

(* rt_rel a b: `b` is what reading the file of `a` may return *)
Fixpoint rt_rel (a b : node) {struct a} : Prop :=
  match a, b with
  | Leaf k fs ti to, Leaf k' fs' ti' to' =>
      k = k' /\ fields_rel (erel k) fs fs' /\ ty_rel (loose_in k) ti ti' /\ ty_rel (loose_out k) to to'
  | Graph ch es gi go m, Graph ch' es' gi' go' m' =>
      (fix all (l l' : list (string * node)) {struct l} : Prop :=
         match l, l' with
         | [], [] => True
         | x :: r, y :: r' => fst x = fst y /\ rt_rel (snd x) (snd y) /\ all r r'
         | _, _ => False
         end) ch ch'
      /\ es = es' /\ norm_val m = Ok m' /\ gty_rel gi gi' /\ gty_rel go go'
  | _, _ => False
  end.

Lemma rt_rel_graph ch es gi go m ch' es' gi' go' m' :
  rt_rel (Graph ch es gi go m) (Graph ch' es' gi' go' m') <->
  all2 rt_rel ch ch' /\ es = es' /\ norm_val m = Ok m' /\ gty_rel gi gi' /\ gty_rel go go'.
Proof.
  cbn [rt_rel].
  assert (forall l l' : list (string * node),
    (fix all (l l' : list (string * node)) {struct l} : Prop :=
         match l, l' with
         | [], [] => True
         | x :: r, y :: r' => fst x = fst y /\ rt_rel (snd x) (snd y) /\ all r r'
         | _, _ => False
         end) l l' <-> all2 rt_rel l l') as Hall.
  { induction l as [|x r IH]; intros [|y r']; cbn [all2]; try reflexivity. rewrite IH. reflexivity. }
  rewrite Hall. reflexivity.
Qed.

Lemma ty_rel_norm b t t' : ty_rel b t t' -> ty_norm t = ty_norm t'.
Proof. destruct b; cbn [ty_rel]; [trivial|intros ->; reflexivity]. Qed.

Lemma rt_rel_io a b : rt_rel a b ->
  is_input a = is_input b /\ is_output a = is_output b /\
  ty_norm (node_tin a) = ty_norm (node_tin b) /\ ty_norm (node_tout a) = ty_norm (node_tout b).
Proof.
  destruct a as [k fs ti to|ch es gi go m], b as [k' fs' ti' to'|ch' es' gi' go' m']; try (intros []; fail).
  - cbn [rt_rel]. intros (<- & _ & Hi & Ho). cbn [node_tin node_tout is_input is_output].
    repeat split; try reflexivity; eapply ty_rel_norm; eassumption.
  - intros _. repeat split.
Qed.

Lemma graph_types_rel l : forall l', all2 rt_rel l l' ->
  Forall2 (fun p q => fst p = fst q /\ ty_norm (snd p) = ty_norm (snd q))
    (map (fun p => (fst p, node_tin (snd p))) (inputs l)) (map (fun p => (fst p, node_tin (snd p))) (inputs l')) /\
  Forall2 (fun p q => fst p = fst q /\ ty_norm (snd p) = ty_norm (snd q))
    (map (fun p => (fst p, node_tout (snd p))) (outputs l)) (map (fun p => (fst p, node_tout (snd p))) (outputs l')).
Proof.
  induction l as [|x r IH]; intros [|y r'] H; cbn [all2] in H; try contradiction.
  - split; constructor.
  - destruct H as (Hn & Hxy & Hr). destruct (IH _ Hr) as [IH1 IH2].
    destruct (rt_rel_io _ _ Hxy) as (Hi & Ho & Hti & Hto).
    unfold inputs, outputs in *. cbn [filter]. rewrite <- Hi, <- Ho. split.
    + destruct (is_input (snd x)); [|exact IH1]. cbn [map]. constructor; [|exact IH1]. split; assumption.
    + destruct (is_output (snd x)); [|exact IH2]. cbn [map]. constructor; [|exact IH2]. split; assumption.
Qed.

Lemma mk_graph_types_rel l l' : all2 rt_rel l l' ->
  gty_rel (graph_tin l) (graph_tin l') /\ gty_rel (graph_tout l) (graph_tout l').
Proof.
  intros H. destruct (graph_types_rel _ _ H) as [H1 H2]. split; [|exact H2].
  unfold graph_tin. destruct (inputs l) as [|p t], (inputs l') as [|q t']; cbn [map] in H1; inversion H1; subst.
  - exact I.
  - cbn [gty_rel]. exact H1.
Qed.

(* ================================================================================================ *)
(* (10) graphs                                                                                      *)
(* ================================================================================================ *)
Lemma to_dict_nonempty n : to_dict n <> [].
Proof. intros E. pose proof (to_dict_type n) as H. rewrite E in H. destruct H. Qed.

(* the "nodes" dictionary is normalised child by child, names and order kept *)
Lemma children_norm ch : forall nodes',
  norm_entries (child_dicts ch) = Ok nodes' ->
  Forall2 (fun p q => fst p = fst q /\ exists dc', snd q = VDict dc' /\ norm_entries (to_dict (snd p)) = Ok dc') ch nodes'.
Proof.
  induction ch as [|[name c] r IH]; intros nodes' H.
  - cbn in H. inversion H. constructor.
  - cbn [child_dicts map fst snd] in H. fold (child_dicts r) in H.
    apply norm_entries_cons_inv in H as (here & rest & Hhere & Hrest & ->).
    destruct (norm_here_cases _ _ _ Hhere) as [(_ & E & _)|(y & Hy & -> & _)].
    + inversion E as [E']. exfalso. exact (to_dict_nonempty _ E').
    + rewrite norm_val_dict in Hy. apply bind_ok in Hy as (dc' & Hdc & Hy). inversion Hy; subst y.
      cbn [app]. constructor; [|apply IH; exact Hrest]. split; [reflexivity|]. exists dc'. split; [reflexivity|exact Hdc].
Qed.

Lemma go_children_rt (F : list (string * pval) -> result node) ch : forall nodes',
  Forall2 (fun p q => fst p = fst q /\ exists dc', snd q = VDict dc' /\
                      exists c', F dc' = Ok c' /\ rt_rel (canon (snd p)) c') ch nodes' ->
  exists ch', go_children F nodes' = Ok ch' /\ all2 rt_rel (map canon_child ch) ch'.
Proof.
  induction ch as [|[name c] r IH]; intros nodes' H; inversion H as [|p q t t' Hpq Ht]; subst.
  - exists []. split; [reflexivity|exact I].
  - destruct q as [name' v]. cbn [fst snd] in Hpq. destruct Hpq as (<- & dc' & -> & c' & Hc' & Hrel).
    destruct (IH _ Ht) as (ch' & Hch' & Hall).
    exists ((name, c') :: ch'). cbn [go_children]. rewrite Hc'. cbn [bind].
    fold (go_children F). rewrite Hch'. cbn [bind]. split; [reflexivity|].
    cbn [map all2 canon_child fst snd]. repeat split; assumption.
Qed.

Lemma children_step (F : list (string * pval) -> result node) (S : list (string * pval)) ch : forall ns,
  Forall2 (fun p q => fst p = fst q /\ exists dc', snd q = VDict dc' /\ norm_entries (to_dict (snd p)) = Ok dc') ch ns ->
  (forall q, In q ns -> In q S) ->
  Forall (fun p => forall dc' name, norm_entries (to_dict (snd p)) = Ok dc' -> In (name, VDict dc') S ->
                   exists c', F dc' = Ok c' /\ rt_rel (canon (snd p)) c') ch ->
  Forall2 (fun p q => fst p = fst q /\ exists dc', snd q = VDict dc' /\
                      exists c', F dc' = Ok c' /\ rt_rel (canon (snd p)) c') ch ns.
Proof.
  intros ns HF. induction HF as [|p q t t' Hpq Ht IH]; intros Hsub Hall; [constructor|].
  inversion Hall as [|? ? Hp Hall']; subst. constructor.
  - destruct Hpq as (Hname & dc' & Hq & Hdc). split; [exact Hname|]. exists dc'. split; [exact Hq|].
    apply (Hp dc' (fst q) Hdc). apply Hsub. left. rewrite <- Hq. destruct q; reflexivity.
  - apply IH; [|exact Hall']. intros q0 Hq0. apply Hsub. right. exact Hq0.
Qed.

(* the domain of the theorem, node by node *)
Fixpoint rt_dom (n : node) : Prop :=
  match n with
  | Leaf k fs _ _ => leaf_domain k fs
  | Graph ch _ _ _ _ =>
    (fix all (l : list (string * node)) : Prop :=
       match l with [] => True | p :: r => rt_dom (snd p) /\ all r end) ch
  end.

Lemma rt_dom_graph ch es gi go m : rt_dom (Graph ch es gi go m) <-> Forall (fun p => rt_dom (snd p)) ch.
Proof.
  cbn [rt_dom]. induction ch as [|p r IH].
  - split; [constructor|trivial].
  - split.
    + intros [H1 H2]. constructor; [exact H1|apply IH; exact H2].
    + intros H. inversion H as [|? ? H1 H2]. split; [exact H1|apply IH; exact H2].
Qed.

Lemma pval_depth_child name dc' nodes' d' :
  In (name, VDict dc') nodes' -> In ("nodes", VDict nodes') d' -> (pval_depth (VDict dc') + 2 <= pval_depth (VDict d'))%nat.
Proof.
  intros H1 H2. apply pval_depth_in in H1. apply pval_depth_in in H2. cbn [snd] in H1, H2. lia.
Qed.

Theorem built_round_trip : forall n, built n -> rt_dom n ->
  forall d', norm_entries (to_dict n) = Ok d' ->
  forall fuel, (pval_depth (VDict d') <= fuel)%nat ->
  exists n', dict2node (S fuel) d' = Ok n' /\ rt_rel (canon n) n'.
Proof.
  intros n Hb. induction Hb as [k args n Hk Hc|ch es m Hnd Hbs IH] using built_ind2; intros Hdom d' Hn fuel Hfuel.
  - destruct (construct_leaf _ _ _ Hc) as (fs & ti & to & ->). cbn [rt_dom] in Hdom.
    destruct (leaf_round_trip k args fs ti to d' fuel Hk Hc Hdom Hn) as (fs' & ti' & to' & Hd & Hf & Hi & Ho).
    exists (Leaf k fs' ti' to'). split; [exact Hd|]. cbn [canon rt_rel]. repeat split; assumption.
  - unfold mk_graph in *. apply rt_dom_graph in Hdom.
    cbn [to_dict] in Hn. fold (child_dicts ch) in Hn.
    apply norm_entries_cons_inv in Hn as (h1 & r1 & Hh1 & Hn & ->).
    apply norm_entries_cons_inv in Hn as (h2 & r2 & Hh2 & Hn & ->).
    apply norm_entries_cons_inv in Hn as (h3 & r3 & Hh3 & Hn & ->).
    apply norm_entries_cons_inv in Hn as (h4 & r4 & Hh4 & Hn & ->).
    cbn in Hn. inversion Hn; subst r4. clear Hn.
    unfold norm_here in Hh1, Hh2, Hh4. cbn [String.eqb Ascii.eqb Bool.eqb andb unusable_name orb] in Hh1, Hh2, Hh4.
    apply bind_ok in Hh1 as (y1 & Hy1 & Hh1). inversion Hh1; subst h1. clear Hh1.
    rewrite norm_val_dict in Hy1. apply bind_ok in Hy1 as (nodes' & Hnodes & Hy1). inversion Hy1; subst y1. clear Hy1.
    apply bind_ok in Hh2 as (ev & Hev & Hh2). inversion Hh2; subst h2. clear Hh2.
    apply edges_round_trip in Hev.
    cbn in Hh4. inversion Hh4; subst h4. clear Hh4.
    (* children *)
    assert (Hch : exists ch', go_children (dict2node fuel) nodes' = Ok ch' /\ all2 rt_rel (map canon_child ch) ch').
    { apply go_children_rt. apply (children_step (dict2node fuel) nodes' ch nodes' (children_norm _ _ Hnodes)); [trivial|].
      rewrite Forall_forall in IH, Hdom |- *. intros p Hp dc' name Hdc Hin.
      pose proof (pval_depth_child _ _ _ (("nodes", VDict nodes') :: ("edges", ev) :: h3 ++ [("type", VStr "NIRGraph")] ++ [])
                    Hin (or_introl eq_refl)) as Hd.
      cbn [app] in Hfuel, Hd. destruct fuel as [|f1]; [exfalso; lia|].
      apply (IH p Hp (Hdom p Hp) dc' Hdc f1). lia. }
    destruct Hch as (ch' & Hgo & Hall).
    destruct (mk_graph_types_rel _ _ Hall) as [Hgi Hgo'].
    rewrite canon_graph. unfold mk_graph.
    destruct (norm_here_cases _ _ _ Hh3) as [(_ & -> & ->)|(y & Hy & -> & _)].
    + exists (mk_graph ch' es (VDict [])). split.
      * cbn [app dict2node assoc String.eqb Ascii.eqb Bool.eqb andb bind].
        change "NIRGraph" with (kind_name KGraph). rewrite str2kind_name. cbn [bind].
        fold (go_children (dict2node fuel)). rewrite Hgo. cbn [bind]. rewrite Hev. cbn [bind]. reflexivity.
      * unfold mk_graph. apply rt_rel_graph. repeat split; assumption.
    + exists (mk_graph ch' es y). split.
      * cbn [app dict2node assoc String.eqb Ascii.eqb Bool.eqb andb bind].
        change "NIRGraph" with (kind_name KGraph). rewrite str2kind_name. cbn [bind].
        fold (go_children (dict2node fuel)). rewrite Hgo. cbn [bind]. rewrite Hev. cbn [bind]. reflexivity.
      * unfold mk_graph. apply rt_rel_graph. repeat split; assumption.
Qed.
