(* GraphProofs.v — lemmas about Model/Graph.v: the type check (C09) *)
From NIR Require Import Model.Graph Proofs.ShapesProofs Proofs.NodesProofs.
From Coq Require Import Lia Permutation.

(* an edge is consistent: both endpoints exist, the source's output type and the target's input
   type are single-entry dictionaries whose values are defined shapes, numerically equal *)
Definition edge_ok (ch : list (string * node)) (e : string * string) : Prop :=
  exists na nb ko ov ki iv x,
    assoc (fst e) ch = Some na /\ assoc (snd e) ch = Some nb /\
    child_tout na = Some [(ko, ov)] /\ child_tin nb = Some [(ki, iv)] /\
    tyv_nums ov = Some x /\ tyv_nums iv = Some x.

Lemma array_equal_true a b :
  array_equal a b = Ok true ->
  (exists x, tyv_nums a = Some x /\ tyv_nums b = Some x) \/ (a = TNone /\ b = TNone).
Proof.
  unfold array_equal. destruct (tyv_nums a) as [x|] eqn:Ha; destruct (tyv_nums b) as [y|] eqn:Hb.
  - intros H. inversion H as [H1]. apply shape_eqb_eq in H1. subst. left. eauto.
  - destruct a; cbn in Ha; try discriminate; destruct b; cbn in Hb; try discriminate; discriminate.
  - destruct a; cbn in Ha; try discriminate; destruct b; cbn in Hb; try discriminate; discriminate.
  - destruct a; cbn in Ha; try discriminate; destruct b; cbn in Hb; try discriminate; try discriminate.
    intros _. right. split; reflexivity.
Qed.

Lemma check_edge_ok ch e : check_edge ch e = Ok tt <-> edge_ok ch e.
Proof.
  unfold check_edge, edge_ok, lookup_child. split.
  - destruct (assoc (fst e) ch) as [na|] eqn:Ha; cbn [bind]; [|discriminate].
    destruct (assoc (snd e) ch) as [nb|] eqn:Hb; cbn [bind]; [|discriminate].
    destruct (ty_undef (child_tout na)) eqn:Uo; [discriminate|].
    destruct (ty_undef (child_tin nb)) eqn:Ui; [discriminate|].
    destruct (child_tout na) as [o|] eqn:Ho; [|discriminate].
    destruct (child_tin nb) as [i|] eqn:Hi; [|discriminate].
    destruct (negb (Nat.eqb (length o) (length i))); [discriminate|].
    destruct o as [|[ko ov] [|]]; try discriminate; destruct i as [|[ki iv] [|]]; try discriminate.
    destruct (array_equal iv ov) as [[|]|] eqn:Heq; cbn [bind]; try discriminate.
    intros _. apply array_equal_true in Heq as [(x & Hx1 & Hx2)|[-> ->]].
    + exists na, nb, ko, ov, ki, iv, x. repeat split; assumption.
    + cbn in Uo. discriminate.
  - intros (na & nb & ko & ov & ki & iv & x & Ha & Hb & Ho & Hi & Hov & Hiv).
    rewrite Ha, Hb. cbn [bind]. rewrite Ho, Hi.
    assert (ty_undef (Some [(ko, ov)]) = false) as ->.
    { cbn. destruct ov; cbn in Hov; try discriminate; reflexivity. }
    assert (ty_undef (Some [(ki, iv)]) = false) as ->.
    { cbn. destruct iv; cbn in Hiv; try discriminate; reflexivity. }
    cbn [length Nat.eqb negb]. unfold array_equal. rewrite Hov, Hiv, shape_eqb_refl. reflexivity.
Qed.

Lemma check_edges_sound_complete ch es : check_edges ch es = Ok true <-> Forall (edge_ok ch) es.
Proof.
  induction es as [|e es IH]; cbn [check_edges].
  - split; [constructor|reflexivity].
  - destruct (check_edge ch e) as [[]|err] eqn:He; cbn [bind].
    + rewrite IH. apply check_edge_ok in He. split.
      * intros H. constructor; assumption.
      * intros H. inversion H. assumption.
    + split; [discriminate|]. intros H. inversion H as [|? ? H1 H2]. apply check_edge_ok in H1. congruence.
Qed.

Lemma check_edges_never_false ch es b : check_edges ch es = Ok b -> b = true.
Proof.
  induction es as [|e es IH]; cbn [check_edges]; [intros H; inversion H; reflexivity|].
  destruct (check_edge ch e); cbn [bind]; [exact IH|discriminate].
Qed.

Lemma check_edges_perm ch es es' :
  Permutation es es' -> (check_edges ch es = Ok true <-> check_edges ch es' = Ok true).
Proof.
  intros P. rewrite !check_edges_sound_complete. split; intros H.
  - eapply Permutation_Forall; eassumption.
  - eapply Permutation_Forall; [apply Permutation_sym|]; eassumption.
Qed.
