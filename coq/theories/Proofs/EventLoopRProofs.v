(* EventLoopRProofs.v — property C20 for the event loop over the REALS (Gen/EventLoopR.v, the mechanical port of
   Model/EventLoop.v Section Loop from Q to R): spike times and recorded voltages DO NOT DEPEND ON THE RECORDING
   INTERVAL, for any neuron whose operations satisfy the flow laws L0, L1, L2.

   This file is the port of Proofs/EventLoopProofs.v (the same proof, lemma by lemma).  Differences with the Q file:
     - over R there is no setoid: every `==` is Leibniz `=`; the state equivalence `veq` of the Q file is specialised
       to `eq` (so the compatibility hypotheses advance_m / reset_m / volt_m / next_m and the lemmas about Qred / Qeq
       disappear: they hold by congruence);  `Forall2 Qeq l l'` becomes `l = l'`;
     - Rle_bool x y := if Rle_dec x y then true else false  is characterised by Rle_bool_iff / Rle_bool_false;
     - Rid (the image of Qred) is the identity: it is unfolded.

   Main results (all Qed; they depend only on the axioms of the standard library's real numbers):
     C20R_spikes      two runs with recording intervals r1, r2 > 0 (same neuron, schedule, duration, enough fuel):
                      the spike lists restricted to times <= duration are EQUAL.
     C20R_volts       a voltage recorded at the same time tau in both runs is the same number.
     C20R_spikes_ref, C20R_volts_ref   closed forms w.r.t. the reference run [ref] (the loop without record events).
   Hypotheses: L0 (advance by 0), L1 (semigroup, for non-negative steps), L2 (predicted spike delays are >= 0);
   the schedule is sorted and non-negative. *)
From Coq Require Import Reals List Lia Lra Bool.
From NIR Require Import Gen.EventLoopR.
Import ListNotations.
Open Scope R_scope.

(* ---------- Rle_bool ------------------------------------------------------------------------------------ *)
Lemma Rle_bool_iff x y : Rle_bool x y = true <-> x <= y.
Proof.
  unfold Rle_bool. destruct (Rle_dec x y) as [H|H]; split; intros K.
  - exact H.
  - reflexivity.
  - discriminate K.
  - contradiction.
Qed.

Lemma Rle_bool_false x y : Rle_bool x y = false <-> y < x.
Proof.
  unfold Rle_bool. destruct (Rle_dec x y) as [H|H]; split; intros K.
  - discriminate K.
  - exfalso. lra.
  - lra.
  - reflexivity.
Qed.

Lemma Rid_id x : Rid x = x.
Proof. reflexivity. Qed.

(* turn every boolean comparison of the context into a proposition *)
Ltac rprop :=
  repeat match goal with
         | H : Rle_bool _ _ = true |- _ => apply Rle_bool_iff in H
         | H : Rle_bool _ _ = false |- _ => apply Rle_bool_false in H
         | H : true = false |- _ => discriminate H
         | H : false = true |- _ => discriminate H
         | H : _ && _ = true |- _ => apply andb_true_iff in H; destruct H
         | H : negb _ = true |- _ => apply negb_true_iff in H
         | H : negb _ = false |- _ => apply negb_false_iff in H
         | |- Rle_bool _ _ = true => apply Rle_bool_iff
         | |- Rle_bool _ _ = false => apply Rle_bool_false
         end.

Lemma filter_rev {A} (f : A -> bool) l : filter f (rev l) = rev (filter f l).
Proof.
  induction l as [|x l IH]; cbn [rev filter]; [reflexivity|].
  rewrite filter_app, IH. cbn [filter]. destruct (f x); cbn [rev]; [reflexivity | apply app_nil_r].
Qed.

Lemma tadd_ge t d : (forall x, d = Some x -> 0 <= x) -> tle (Some t) (tadd t d) = true.
Proof.
  intros H. destruct d as [x|]; cbn [tadd tle]; [|reflexivity].
  apply Rle_bool_iff. unfold Rid. specialize (H x eq_refl). lra.
Qed.

#[local] Arguments l_time {V} _.
#[local] Arguments l_idx {V} _.
#[local] Arguments l_amp {V} _.
#[local] Arguments l_spike {V} _.
#[local] Arguments l_record {V} _.
#[local] Arguments l_input {V} _.
#[local] Arguments l_neuron {V} _.
#[local] Arguments l_volts {V} _.
#[local] Arguments l_spikes {V} _.
#[local] Arguments next_event {V} _.

Section C20R.
  Variable V : Type.
  Variable advance : V -> R -> R -> V.
  Variable next_spike : V -> R -> option R.
  Variable reset : V -> V.
  Variable volt : V -> R.

  (* flow laws *)
  Hypothesis L0 : forall v i, advance v i 0 = v.
  Hypothesis L1 : forall v i a b, 0 <= a -> 0 <= b -> advance (advance v i a) i b = advance v i (a + b).
  Hypothesis L2 : forall v i t, next_spike v i = Some t -> 0 <= t.

  Variable n0 : V.
  Variable times amps : list R.
  Hypothesis times_nonneg : forall a, nth_error times 0 = Some a -> 0 <= a.
  Hypothesis times_sorted :
    forall i a b, nth_error times i = Some a -> nth_error times (S i) = Some b -> a <= b.

  Notation lst := (lstate V).
  Notation step := (step V advance next_spike reset volt times amps).
  Notation loop := (EventLoopR.loop V advance next_spike reset volt).
  Notation simulate := (EventLoopR.simulate V advance next_spike reset volt).

  (* the three branches of [step] (Rid unfolded) *)
  Definition do_spike (s : lst) (t : R) : lst :=
    let n1 := reset (advance (l_neuron s) (l_amp s) (t - l_time s)) in
    {| l_time := t; l_idx := l_idx s; l_amp := l_amp s;
       l_spike := tadd t (next_spike n1 (l_amp s));
       l_record := l_record s; l_input := l_input s; l_neuron := n1;
       l_volts := l_volts s; l_spikes := t :: l_spikes s |}.

  Definition do_record (record_dt : R) (s : lst) : lst :=
    let t := l_record s in
    let n1 := advance (l_neuron s) (l_amp s) (t - l_time s) in
    {| l_time := t; l_idx := l_idx s; l_amp := l_amp s; l_spike := l_spike s;
       l_record := t + record_dt; l_input := l_input s; l_neuron := n1;
       l_volts := (t, volt n1) :: l_volts s; l_spikes := l_spikes s |}.

  Definition do_input (s : lst) (t : R) : lst :=
    let n1 := advance (l_neuron s) (l_amp s) (t - l_time s) in
    let a := nth (l_idx s) amps 0 in
    {| l_time := t; l_idx := S (l_idx s); l_amp := a;
       l_spike := tadd t (next_spike n1 a);
       l_record := l_record s; l_input := time_at times (S (l_idx s)); l_neuron := n1;
       l_volts := l_volts s; l_spikes := l_spikes s |}.

  Lemma step_eq r s :
    step r s = match next_event s with
               | EvSpike => match l_spike s with None => s | Some t => do_spike s t end
               | EvRecord => do_record r s
               | EvInput => match l_input s with None => s | Some t => do_input s t end
               end.
  Proof. reflexivity. Qed.

  (* ---------- the reference run: the same loop without record events ------------------------------ *)
  Definition rstep (u : lst) : lst :=
    if tle (l_spike u) (l_input u)
    then match l_spike u with Some t => do_spike u t | None => u end
    else match l_input u with Some t => do_input u t | None => u end.

  Fixpoint ref (k : nat) : lst :=
    match k with O => init V n0 times 0 | S j => rstep (ref j) end.

  (* time of the next event of the reference run (None: no more events) *)
  Definition rnext_time (u : lst) : option R :=
    if tle (l_spike u) (l_input u) then l_spike u else l_input u.

  Record RInv (u : lst) : Prop := {
    ri_input : l_input u = time_at times (l_idx u);
    ri_tsp : tle (Some (l_time u)) (l_spike u) = true;
    ri_tin : tle (Some (l_time u)) (l_input u) = true }.

  Ltac proj := cbn [l_time l_idx l_amp l_spike l_record l_input l_neuron l_volts l_spikes
                    do_spike do_record do_input].
  Ltac proj_in H := cbn [l_time l_idx l_amp l_spike l_record l_input l_neuron l_volts l_spikes
                    do_spike do_record do_input] in H.

  Lemma rinv_init : RInv (ref 0).
  Proof.
    constructor; cbn [ref init l_time l_idx l_spike l_input].
    - reflexivity.
    - reflexivity.
    - destruct (time_at times 0) as [a|] eqn:E; cbn [tle]; [|reflexivity].
      rprop. apply times_nonneg. exact E.
  Qed.

  Lemma rinv_step u : RInv u -> RInv (rstep u).
  Proof.
    intros [Hi Hs Hn]. unfold rstep. destruct (tle (l_spike u) (l_input u)) eqn:E.
    - destruct (l_spike u) as [t|] eqn:Es.
      + constructor; proj.
        * exact Hi.
        * apply tadd_ge. intros x Hx. eapply L2. exact Hx.
        * exact E.
      + constructor; [exact Hi | rewrite Es; exact Hs | exact Hn].
    - destruct (l_input u) as [t|] eqn:Ei.
      + constructor; proj.
        * reflexivity.
        * apply tadd_ge. intros x Hx. eapply L2. exact Hx.
        * destruct (time_at times (S (l_idx u))) as [b|] eqn:Eb; cbn [tle]; [|reflexivity].
          rprop. eapply times_sorted; [|exact Eb]. symmetry. exact Hi.
      + constructor; [rewrite Ei; exact Hi | exact Hs | rewrite Ei; exact Hn].
  Qed.

  Lemma ref_inv k : RInv (ref k).
  Proof. induction k as [|k IH]; [apply rinv_init | cbn [ref]; apply rinv_step; exact IH]. Qed.

  Lemma rnext_ge u : RInv u -> tle (Some (l_time u)) (rnext_time u) = true.
  Proof. intros [Hi Hs Hn]. unfold rnext_time. destruct (tle (l_spike u) (l_input u)); assumption. Qed.

  Lemma rstep_cases u :
    (rnext_time u = None /\ rstep u = u) \/
    (exists t, rnext_time u = Some t /\ l_time (rstep u) = t /\
               (l_spikes (rstep u) = t :: l_spikes u \/ l_spikes (rstep u) = l_spikes u)).
  Proof.
    unfold rnext_time, rstep. destruct (tle (l_spike u) (l_input u)) eqn:E.
    - destruct (l_spike u) as [t|] eqn:Es.
      + right. exists t. proj. timeout 20 auto.
      + left. timeout 20 auto.
    - destruct (l_input u) as [t|] eqn:Ei.
      + right. exists t. proj. timeout 20 auto.
      + left. timeout 20 auto.
  Qed.

  Lemma tle_lt_trans t X d : tle (Some t) X = true -> d < t -> tle X (Some d) = false.
  Proof.
    destruct X as [x|]; cbn [tle]; [|reflexivity]. intros H1 H2. rprop. lra.
  Qed.

  Lemma rstep_filter d u :
    RInv u -> tle (rnext_time u) (Some d) = false ->
    tle (rnext_time (rstep u)) (Some d) = false /\
    filter (fun t => Rle_bool t d) (l_spikes (rstep u)) = filter (fun t => Rle_bool t d) (l_spikes u).
  Proof.
    intros HI Hd. pose proof (rnext_ge _ (rinv_step _ HI)) as Hge.
    destruct (rstep_cases u) as [[Hn Hu]|[t [Hn [Ht Hsp]]]].
    - rewrite Hu. timeout 20 auto.
    - rewrite Hn in Hd. cbn [tle] in Hd. rprop. split.
      + eapply tle_lt_trans; [exact Hge|]. rewrite Ht. exact Hd.
      + destruct Hsp as [Hsp|Hsp]; rewrite Hsp; [|reflexivity].
        cbn [filter]. destruct (Rle_bool t d) eqn:E; [|reflexivity]. rprop. lra.
  Qed.

  Lemma ref_filter d k j :
    tle (rnext_time (ref k)) (Some d) = false ->
    tle (rnext_time (ref (j + k))) (Some d) = false /\
    filter (fun t => Rle_bool t d) (l_spikes (ref (j + k))) = filter (fun t => Rle_bool t d) (l_spikes (ref k)).
  Proof.
    intros Hd. induction j as [|j [IH1 IH2]]; [timeout 20 auto|].
    cbn [Nat.add ref]. destruct (rstep_filter d _ (ref_inv (j + k)) IH1) as [H1 H2].
    split; [exact H1 | congruence].
  Qed.

  Lemma ref_filter_any d k k' :
    tle (rnext_time (ref k)) (Some d) = false -> tle (rnext_time (ref k')) (Some d) = false ->
    filter (fun t => Rle_bool t d) (l_spikes (ref k)) = filter (fun t => Rle_bool t d) (l_spikes (ref k')).
  Proof.
    intros H1 H2. destruct (Nat.le_ge_cases k k') as [Hle|Hle].
    - replace k' with ((k' - k) + k)%nat by lia. symmetry. apply ref_filter. exact H1.
    - replace k with ((k - k') + k')%nat by lia. apply ref_filter. exact H2.
  Qed.

  (* ---------- relation between a state of a run WITH records and a state of the reference run ------- *)
  Record Rel (s u : lst) : Prop := {
    r_idx : l_idx s = l_idx u;
    r_amp : l_amp s = l_amp u;
    r_input : l_input s = l_input u;
    r_spike : l_spike s = l_spike u;                (* ABSOLUTE next-spike time *)
    r_time : l_time u <= l_time s;
    r_neuron : l_neuron s = advance (l_neuron u) (l_amp u) (l_time s - l_time u);
    r_rec : l_time s <= l_record s;
    r_tsp : tle (Some (l_time s)) (l_spike s) = true;
    r_tin : tle (Some (l_time s)) (l_input s) = true;
    r_spikes : l_spikes s = l_spikes u }.

  Lemma adv_merge ns nu i ts tu t :
    ns = advance nu i (ts - tu) -> tu <= ts -> ts <= t ->
    advance ns i (t - ts) = advance nu i (t - tu).
  Proof.
    intros Hn H1 H2. rewrite Hn. rewrite L1 by lra. f_equal. ring.
  Qed.

  Lemma adv_zero n i d : d = 0 -> n = advance n i d.
  Proof. intros Hd. rewrite Hd. symmetry. apply L0. Qed.

  Lemma next_event_record (s : lst) :
    next_event s = EvRecord ->
    tle (l_spike s) (Some (l_record s)) = false /\ tle (Some (l_record s)) (l_input s) = true.
  Proof.
    unfold next_event. intros He.
    destruct (tle (l_spike s) (Some (l_record s)) && tle (l_spike s) (l_input s)) eqn:E1; [discriminate|].
    destruct (tle (Some (l_record s)) (l_input s)) eqn:E2; [|discriminate].
    split; [|reflexivity].
    destruct (l_spike s) as [x|], (l_input s) as [y|]; cbn [tle] in *; try reflexivity.
    - apply andb_false_iff in E1. destruct E1 as [E1|E1]; [exact E1|]. rprop. lra.
    - rewrite andb_true_r in E1. exact E1.
  Qed.

  Lemma next_event_spike (s : lst) :
    next_event s = EvSpike ->
    exists t, l_spike s = Some t /\ t <= l_record s /\ tle (Some t) (l_input s) = true.
  Proof.
    unfold next_event. intros He.
    destruct (tle (l_spike s) (Some (l_record s)) && tle (l_spike s) (l_input s)) eqn:E1.
    - apply andb_true_iff in E1. destruct E1 as [E1 E2].
      destruct (l_spike s) as [t|]; cbn [tle] in E1; [|discriminate].
      exists t. rprop. timeout 20 auto.
    - destruct (tle (Some (l_record s)) (l_input s)); discriminate.
  Qed.

  Lemma next_event_input (s : lst) :
    next_event s = EvInput ->
    exists t, l_input s = Some t /\ t < l_record s /\ tle (l_spike s) (Some t) = false.
  Proof.
    unfold next_event. intros He.
    destruct (tle (l_spike s) (Some (l_record s)) && tle (l_spike s) (l_input s)) eqn:E1; [discriminate|].
    destruct (tle (Some (l_record s)) (l_input s)) eqn:E2; [discriminate|].
    destruct (l_input s) as [t|]; cbn [tle] in E2; [|discriminate].
    exists t. rprop. split; [reflexivity|]. split; [exact E2|].
    destruct (l_spike s) as [x|]; cbn [tle] in *; [|reflexivity].
    apply andb_false_iff in E1. destruct E1 as [E1|E1]; rprop; [lra | exact E1].
  Qed.

  Lemma rel_record r s u :
    0 <= r -> Rel s u -> next_event s = EvRecord -> Rel (do_record r s) u.
  Proof.
    intros Hr [Ri Ra Rin Rsp Rt Rn Rr Rts Rti Rsps] He.
    apply next_event_record in He. destruct He as [E1 E2].
    constructor; proj; try assumption.
    - lra.
    - rewrite Ra. apply adv_merge; [exact Rn | exact Rt | exact Rr].
    - lra.
    - destruct (l_spike s) as [x|]; cbn [tle] in *; [|reflexivity]. rprop. lra.
  Qed.

  Lemma rel_spike s u t :
    Rel s u -> next_event s = EvSpike -> l_spike s = Some t ->
    l_spike u = Some t /\ rstep u = do_spike u t /\ Rel (do_spike s t) (do_spike u t).
  Proof.
    intros [Ri Ra Rin Rsp Rt Rn Rr Rts Rti Rsps] He Es.
    destruct (next_event_spike _ He) as [t0 [Es0 [Hrec Hin]]].
    rewrite Es in Es0. injection Es0 as <-.
    rewrite Es in Rsp, Rts. cbn [tle] in Rts. rprop. symmetry in Rsp.
    split; [exact Rsp|].
    assert (Hin' : tle (Some t) (l_input u) = true) by (rewrite <- Rin; exact Hin).
    split.
    { unfold rstep. rewrite Rsp, Hin'. reflexivity. }
    assert (Hn1 : reset (advance (l_neuron s) (l_amp s) (t - l_time s)) =
                  reset (advance (l_neuron u) (l_amp u) (t - l_time u))).
    { f_equal. rewrite Ra. apply adv_merge; [exact Rn | exact Rt | exact Rts]. }
    constructor; proj.
    - exact Ri.
    - exact Ra.
    - exact Rin.
    - rewrite Hn1, Ra. reflexivity.
    - lra.
    - rewrite Hn1. apply adv_zero. lra.
    - exact Hrec.
    - apply tadd_ge. intros x Hx. eapply L2. exact Hx.
    - exact Hin.
    - rewrite Rsps. reflexivity.
  Qed.

  Lemma rel_input s u t :
    Rel s u -> RInv u -> next_event s = EvInput -> l_input s = Some t ->
    l_input u = Some t /\ rstep u = do_input u t /\ Rel (do_input s t) (do_input u t).
  Proof.
    intros [Ri Ra Rin Rsp Rt Rn Rr Rts Rti Rsps] [Ui _ _] He Ei.
    destruct (next_event_input _ He) as [t0 [Ei0 [Hrec Hsp]]].
    rewrite Ei in Ei0. injection Ei0 as <-.
    rewrite Ei in Rin, Rti. cbn [tle] in Rti. rprop. symmetry in Rin.
    split; [exact Rin|].
    assert (Hsp' : tle (l_spike u) (Some t) = false) by (rewrite <- Rsp; exact Hsp).
    split.
    { unfold rstep. rewrite Rin, Hsp'. reflexivity. }
    assert (Hn1 : advance (l_neuron s) (l_amp s) (t - l_time s) =
                  advance (l_neuron u) (l_amp u) (t - l_time u)).
    { rewrite Ra. apply adv_merge; [exact Rn | exact Rt | exact Rti]. }
    constructor; proj.
    - rewrite Ri. reflexivity.
    - rewrite Ri. reflexivity.
    - rewrite Ri. reflexivity.
    - rewrite Hn1, Ri. reflexivity.
    - lra.
    - rewrite Hn1. apply adv_zero. lra.
    - lra.
    - apply tadd_ge. intros x Hx. eapply L2. exact Hx.
    - destruct (time_at times (S (l_idx s))) as [b|] eqn:Eb; cbn [tle]; [|reflexivity].
      rprop. eapply times_sorted; [|exact Eb]. rewrite Ri.
      change (time_at times (l_idx u) = Some t). rewrite <- Ui. exact Rin.
    - exact Rsps.
  Qed.

  (* ---------- which reference segment a record time falls into -------------------------------------- *)
  (* [live u tau]: with the tie-breaking of the loop (spike < record < input change), a record at time tau
     is taken BEFORE the next event of u: tau is strictly before the next spike and not after the next
     input change. *)
  Definition live (u : lst) (tau : R) : Prop :=
    tle (l_spike u) (Some tau) = false /\ tle (Some tau) (l_input u) = true.

  Lemma live_mono u tau tau' : ~ live u tau -> tau <= tau' -> ~ live u tau'.
  Proof.
    intros H Hle [C1 C2]. apply H. split.
    - destruct (l_spike u) as [x|]; cbn [tle] in *; [|reflexivity]. rprop. lra.
    - destruct (l_input u) as [y|]; cbn [tle] in *; [|reflexivity]. rprop. lra.
  Qed.

  (* [RecAt j tau x]: x is the voltage of the reference run at time tau: the j-th reference state is the FIRST
     one whose segment contains tau, and x is the voltage of that state advanced to tau. *)
  Definition RecAt (j : nat) (tau x : R) : Prop :=
    live (ref j) tau /\ (forall i, (i < j)%nat -> ~ live (ref i) tau) /\ l_time (ref j) <= tau /\
    x = volt (advance (l_neuron (ref j)) (l_amp (ref j)) (tau - l_time (ref j))).

  Lemma RecAt_unique j j' tau x x' :
    RecAt j tau x -> RecAt j' tau x' -> x = x'.
  Proof.
    intros [A1 [A2 [A3 A4]]] [B1 [B2 [B3 B4]]].
    assert (Hj : j = j').
    { destruct (lt_eq_lt_dec j j') as [[H|H]|H]; [|exact H|].
      - exfalso. exact (B2 j H A1).
      - exfalso. exact (A2 j' H B1). }
    subst j'. rewrite A4, B4. reflexivity.
  Qed.

  Record Inv (s : lst) (k : nat) : Prop := {
    i_rel : Rel s (ref k);
    i_first : forall i, (i < k)%nat -> ~ live (ref i) (l_record s);
    i_volts : forall tau x, In (tau, x) (l_volts s) -> exists j, RecAt j tau x }.

  Lemma inv_init r : 0 <= r -> Inv (init V n0 times r) 0.
  Proof.
    intros Hr. constructor.
    - constructor; cbn [ref init l_time l_idx l_amp l_spike l_record l_input l_neuron l_volts l_spikes];
        try reflexivity.
      + lra.
      + apply adv_zero. lra.
      + exact Hr.
      + exact (ri_tin _ rinv_init).
    - intros i Hi. lia.
    - cbn [init l_volts]. intros tau x [].
  Qed.

  Lemma inv_step r s k : 0 <= r -> Inv s k -> Inv (step r s) k \/ Inv (step r s) (S k).
  Proof.
    intros Hr [R0 Hf Hv]. rewrite step_eq. destruct (next_event s) eqn:He.
    - (* spike *)
      destruct (next_event_spike _ He) as [t [Es [Hrec _]]]. rewrite Es. right.
      destruct (rel_spike _ _ _ R0 He Es) as [Eu [Hstep HR]].
      constructor.
      + cbn [ref]. rewrite Hstep. exact HR.
      + proj. intros i Hi [C1 C2]. assert (Hik : (i < k)%nat \/ i = k) by lia.
        destruct Hik as [Hik|Hik]; [exact (Hf i Hik (conj C1 C2))|]. subst i.
        rewrite Eu in C1. cbn [tle] in C1. rprop. lra.
      + proj. exact Hv.
    - (* record *)
      left. destruct (next_event_record _ He) as [E1 E2]. constructor.
      + apply rel_record; assumption.
      + proj. intros i Hi. eapply live_mono; [exact (Hf i Hi)|]. lra.
      + proj. intros tau x [Heq|Hin]; [|exact (Hv tau x Hin)].
        injection Heq as <- <-. exists k. destruct R0 as [Ri Ra Rin Rsp Rt Rn Rr Rts Rti Rsps].
        split; [|split; [exact Hf|split; [lra|]]].
        * split.
          -- rewrite <- Rsp. exact E1.
          -- rewrite <- Rin. exact E2.
        * f_equal. rewrite Ra. apply adv_merge; [exact Rn | exact Rt | exact Rr].
    - (* input change *)
      destruct (next_event_input _ He) as [t [Ei [Hrec _]]]. rewrite Ei. right.
      destruct (rel_input _ _ _ R0 (ref_inv k) He Ei) as [Eu [Hstep HR]].
      constructor.
      + cbn [ref]. rewrite Hstep. exact HR.
      + proj. intros i Hi [C1 C2]. assert (Hik : (i < k)%nat \/ i = k) by lia.
        destruct Hik as [Hik|Hik]; [exact (Hf i Hik (conj C1 C2))|]. subst i.
        rewrite Eu in C2. cbn [tle] in C2. rprop. lra.
      + proj. exact Hv.
  Qed.

  Lemma loop_inv r d : 0 <= r -> forall fuel s k sN,
    Inv s k -> loop fuel times amps r d s = Some sN -> exists kN, Inv sN kN /\ d < l_time sN.
  Proof.
    intros Hr. induction fuel as [|fuel IH]; intros s k sN HI HL; cbn [EventLoopR.loop] in HL; [discriminate|].
    destruct (Rle_bool (l_time s) d) eqn:E.
    - destruct (inv_step r s k Hr HI) as [HI'|HI']; eapply IH; eassumption.
    - injection HL as <-. exists k. rprop. split; assumption.
  Qed.

  Lemma rel_next_gt s u d : Rel s u -> d < l_time s -> tle (rnext_time u) (Some d) = false.
  Proof.
    intros [Ri Ra Rin Rsp Rt Rn Rr Rts Rti Rsps] Hd. unfold rnext_time.
    destruct (tle (l_spike u) (l_input u)).
    - rewrite <- Rsp. eapply tle_lt_trans; eassumption.
    - rewrite <- Rin. eapply tle_lt_trans; eassumption.
  Qed.

  Lemma simulate_inv fuel r d volts spikes :
    0 <= r -> simulate fuel n0 times amps r d = Some (volts, spikes) ->
    exists sN kN, volts = rev (l_volts sN) /\ spikes = rev (l_spikes sN) /\ Inv sN kN /\ d < l_time sN.
  Proof.
    intros Hr. unfold EventLoopR.simulate.
    destruct (loop fuel times amps r d (init V n0 times r)) as [sN|] eqn:HL; [|discriminate].
    intros H. injection H as <- <-.
    destruct (loop_inv r d Hr _ _ _ _ (inv_init r Hr) HL) as [kN [HI Hd]].
    exists sN, kN. timeout 20 auto.
  Qed.

  (* ---------- closed forms: a run with records versus the reference run ------------------------------- *)
  Theorem C20R_spikes_ref fuel r d volts spikes k :
    0 <= r -> simulate fuel n0 times amps r d = Some (volts, spikes) ->
    tle (rnext_time (ref k)) (Some d) = false ->        (* the k-th reference state is past the duration *)
    filter (fun t => Rle_bool t d) spikes = rev (filter (fun t => Rle_bool t d) (l_spikes (ref k))).
  Proof.
    intros Hr HS Hk. destruct (simulate_inv _ _ _ _ _ Hr HS) as [sN [kN [_ [-> [[R0 _ _] Hd]]]]].
    rewrite filter_rev. f_equal.
    rewrite (ref_filter_any d k kN Hk (rel_next_gt _ _ _ R0 Hd)).
    rewrite (r_spikes _ _ R0). reflexivity.
  Qed.

  Theorem C20R_volts_ref fuel r d volts spikes tau x :
    0 <= r -> simulate fuel n0 times amps r d = Some (volts, spikes) ->
    In (tau, x) volts -> exists j, RecAt j tau x.
  Proof.
    intros Hr HS Hin. destruct (simulate_inv _ _ _ _ _ Hr HS) as [sN [kN [-> [_ [[_ _ Hv] _]]]]].
    apply in_rev in Hin. exact (Hv tau x Hin).
  Qed.

  (* ---------- C20 over R: independence of the recording interval -------------------------------------- *)
  Theorem C20R_spikes fuel1 fuel2 r1 r2 d volts1 spikes1 volts2 spikes2 :
    0 < r1 -> 0 < r2 ->
    simulate fuel1 n0 times amps r1 d = Some (volts1, spikes1) ->
    simulate fuel2 n0 times amps r2 d = Some (volts2, spikes2) ->
    filter (fun t => Rle_bool t d) spikes1 = filter (fun t => Rle_bool t d) spikes2.
  Proof.
    intros Hr1 Hr2 H1 H2. apply Rlt_le in Hr1, Hr2.
    destruct (simulate_inv _ _ _ _ _ Hr1 H1) as [s1 [k1 [_ [_ [[R1 _ _] Hd1]]]]].
    pose proof (rel_next_gt _ _ _ R1 Hd1) as Hk.
    rewrite (C20R_spikes_ref _ _ _ _ _ k1 Hr1 H1 Hk).
    symmetry. exact (C20R_spikes_ref _ _ _ _ _ k1 Hr2 H2 Hk).
  Qed.

  Theorem C20R_volts fuel1 fuel2 r1 r2 d volts1 spikes1 volts2 spikes2 tau1 x1 tau2 x2 :
    0 < r1 -> 0 < r2 ->
    simulate fuel1 n0 times amps r1 d = Some (volts1, spikes1) ->
    simulate fuel2 n0 times amps r2 d = Some (volts2, spikes2) ->
    In (tau1, x1) volts1 -> In (tau2, x2) volts2 -> tau1 = tau2 -> x1 = x2.
  Proof.
    intros Hr1 Hr2 H1 H2 I1 I2 He. apply Rlt_le in Hr1, Hr2. subst tau2.
    destruct (C20R_volts_ref _ _ _ _ _ _ _ Hr1 H1 I1) as [j1 A1].
    destruct (C20R_volts_ref _ _ _ _ _ _ _ Hr2 H2 I2) as [j2 A2].
    exact (RecAt_unique _ _ _ _ _ A1 A2).
  Qed.
End C20R.

Print Assumptions C20R_spikes.
Print Assumptions C20R_volts.
Print Assumptions C20R_spikes_ref.
Print Assumptions C20R_volts_ref.
