(* SimProofs.v — the constructors of the model only look at NUMERIC VIEWS of hyper-parameters.
   A file round trip (Python int -> numpy int64 scalar, tuple/list of ints -> int64 ndarray, 0-d ndarray ->
   numpy scalar, str stays str) or a foreign encoder (any integer width, any string encoding) changes the
   REPRESENTATION of a value; `vsim` relates the representations of the same number(s); the theorems below say
   exactly which views are blind to that change, and under which side conditions `post_init` builds the same
   node from vsim-related fields (properties C01, C04, C14). *)
From NIR Require Import Model.Serial Proofs.SerialProofs.
From Coq Require Import Lia.

(* ================================================================================================ *)
(* (1) the similarity relation                                                                      *)
(* ================================================================================================ *)
Definition mkseq (c : bool) (l : list pval) : pval := if c then VTuple l else VList l.

(* the row reader of np_asarray for sequences of sequences of str (edge lists) *)
Definition row_strs (row : pval) : result (list string) :=
  match row with
  | VTuple r | VList r => mapM (fun x => match x with VStr s => Ok s | _ => Err TypeError end) r
  | _ => Err TypeError
  end.
Definition rows_val (rows : list (list string)) : pval := VList (map (fun r => VTuple (map VBytes r)) rows).

(* DESIGN NOTES
   - vs_seq_arr: the 1-d array has shape [lenZ zs] (the task text allowed any n).  With an arbitrary n the
     relation (closed under transitivity) would relate VArr dt [3] t (Some [1]) and VArr dt [5] t (Some [1]) through
     VTuple [VInt 1], and `shape_attr` would distinguish them; arrays produced by numpy / read from a file always
     satisfy n = length of the content, and this is what np_asarray produces.
   - VBool / VFloat / VBytes are related to themselves only (see the exceptions of norm_val below).
   - dictionaries are related key by key (needed for input_type = {"input": shape}). *)
Inductive vsim : pval -> pval -> Prop :=
| vs_refl a : vsim a a
| vs_sym a b : vsim a b -> vsim b a
| vs_trans a b c : vsim a b -> vsim b c -> vsim a c
| vs_int_np z dt tok : vsim (VInt z) (VNp dt tok (Some z))
| vs_np_np dt tok dt' tok' z : vsim (VNp dt tok (Some z)) (VNp dt' tok' (Some z))
| vs_seq_arr c l zs dt tok : ints_view l = Some zs -> vsim (mkseq c l) (VArr dt [lenZ zs] tok (Some zs))
| vs_seq_seq c c' l l' zs : ints_view l = Some zs -> ints_view l' = Some zs -> vsim (mkseq c l) (mkseq c' l')
| vs_arr0_np dt tok i : vsim (VArr dt [] tok i) (VNp dt tok (match i with Some [z] => Some z | _ => None end))
| vs_rows c l rows : ints_view l = None -> mapM row_strs l = Ok rows -> vsim (mkseq c l) (rows_val rows)
| vs_dict_cons k a b r r' : vsim a b -> vsim (VDict r) (VDict r') -> vsim (VDict ((k, a) :: r)) (VDict ((k, b) :: r')).

(* ================================================================================================ *)
(* (2) views that are invariant under vsim                                                          *)
(* ================================================================================================ *)
Definition str_view (v : pval) : option string := match v with VStr s => Some s | _ => None end.
Definition bool_view (v : pval) : option bool := match v with VBool b => Some b | _ => None end.
Definition is_none (v : pval) : bool := match v with VNone => true | _ => false end.
Definition is0d (v : pval) : bool := match v with VArr _ [] _ _ => true | _ => false end.

(* numpy.shape(v): the shape of the value seen as an array *)
Definition np_shape (v : pval) : option (list Z) :=
  match v with
  | VArr _ sh _ _ => Some sh
  | VNp _ _ _ | VInt _ | VFloat _ | VBool _ => Some []
  | VTuple l | VList l => option_map (fun zs => [lenZ zs]) (ints_view l)
  | _ => None
  end.

Definition tyv_norm (t : tyv) : tyv := match t with TSeq l => TArr l | x => x end.
Definition ty_norm (t : ty) : ty := option_map (map (fun p => (fst p, tyv_norm (snd p)))) t.

Lemma mapM_length {A B} (f : A -> result B) l : forall r, mapM f l = Ok r -> length r = length l.
Proof.
  induction l as [|x xs IH]; intros r H; cbn [mapM] in H.
  - inversion H. reflexivity.
  - destruct (f x); cbn [bind] in H; [|discriminate].
    destruct (mapM f xs) eqn:E; cbn [bind] in H; [|discriminate].
    inversion H. cbn [length]. f_equal. apply IH. reflexivity.
Qed.

Lemma ints_view_rows rows : rows <> [] -> ints_view (map (fun r => VTuple (map VBytes r)) rows) = None.
Proof. destruct rows as [|r rows]; [congruence|reflexivity]. Qed.

Lemma rows_nonempty l rows : ints_view l = None -> mapM row_strs l = Ok rows -> rows <> [].
Proof.
  intros Hi Hm ->. apply mapM_length in Hm. destruct l; [discriminate|discriminate].
Qed.

Ltac vsim_ind H :=
  induction H as [a|a b H IH|a b c H1 IH1 H2 IH2|z dt tok|dt tok dt' tok' z|c l zs dt tok Hl
                 |c c' l l' zs Hl Hl'|dt tok i|c l rows Hl Hrows|k a b r r' Ha IHa Hr IHr].

Lemma vsim_num_view a b : vsim a b -> num_view a = num_view b.
Proof.
  intros H. vsim_ind H; try reflexivity; try congruence.
  - destruct c; unfold num_view; cbn [mkseq int_view seq_view]; rewrite Hl; reflexivity.
  - destruct c, c'; unfold num_view; cbn [mkseq int_view seq_view]; rewrite Hl, Hl'; reflexivity.
  - destruct i as [[|z [|z' r]]|]; reflexivity.
  - pose proof (ints_view_rows rows (rows_nonempty _ _ Hl Hrows)) as Hr.
    destruct c; unfold num_view, rows_val; cbn [mkseq int_view seq_view]; rewrite Hl, Hr; reflexivity.
Qed.

Lemma vsim_str_view a b : vsim a b -> str_view a = str_view b.
Proof.
  intros H. vsim_ind H; try reflexivity; try congruence.
  - destruct c; reflexivity.
  - destruct c, c'; reflexivity.
  - destruct c; reflexivity.
Qed.

Lemma vsim_bool_view a b : vsim a b -> bool_view a = bool_view b.
Proof.
  intros H. vsim_ind H; try reflexivity; try congruence.
  - destruct c; reflexivity.
  - destruct c, c'; reflexivity.
  - destruct c; reflexivity.
Qed.

Lemma vsim_is_none a b : vsim a b -> is_none a = is_none b.
Proof.
  intros H. vsim_ind H; try reflexivity; try congruence.
  - destruct c; reflexivity.
  - destruct c, c'; reflexivity.
  - destruct c; reflexivity.
Qed.

Lemma vsim_is_dict a b : vsim a b -> is_dict a = is_dict b.
Proof.
  intros H. vsim_ind H; try reflexivity; try congruence.
  - destruct c; reflexivity.
  - destruct c, c'; reflexivity.
  - destruct c; reflexivity.
Qed.

Theorem vsim_pad_is_bad_string a b : vsim a b -> pad_is_bad_string a = pad_is_bad_string b.
Proof.
  intros H. vsim_ind H; try reflexivity; try congruence.
  - destruct c; reflexivity.
  - destruct c, c'; reflexivity.
  - destruct c; reflexivity.
Qed.

Lemma vsim_np_shape a b : vsim a b -> np_shape a = np_shape b.
Proof.
  intros H. vsim_ind H; try reflexivity; try congruence.
  - destruct c; cbn [mkseq np_shape]; rewrite Hl; reflexivity.
  - destruct c, c'; cbn [mkseq np_shape]; rewrite Hl, Hl'; reflexivity.
  - pose proof (ints_view_rows rows (rows_nonempty _ _ Hl Hrows)) as Hr.
    destruct c; unfold rows_val; cbn [mkseq np_shape]; rewrite Hl, Hr; reflexivity.
Qed.

(* the type value a dictionary entry denotes, container (tuple/list vs ndarray) forgotten *)
Theorem vsim_tyv a b : vsim a b -> tyv_norm (tyv_of_pval a) = tyv_norm (tyv_of_pval b).
Proof.
  intros H. vsim_ind H; try reflexivity; try congruence.
  - destruct c; cbn [mkseq tyv_of_pval]; rewrite Hl; reflexivity.
  - destruct c, c'; cbn [mkseq tyv_of_pval]; rewrite Hl, Hl'; reflexivity.
  - pose proof (ints_view_rows rows (rows_nonempty _ _ Hl Hrows)) as Hr.
    destruct c; unfold rows_val; cbn [mkseq tyv_of_pval]; rewrite Hl, Hr; reflexivity.
Qed.

Lemma tyv_nums_norm t : tyv_nums (tyv_norm t) = tyv_nums t.
Proof. destruct t; reflexivity. Qed.

Theorem vsim_tyv_nums a b : vsim a b -> tyv_nums (tyv_of_pval a) = tyv_nums (tyv_of_pval b).
Proof. intros H. rewrite <- (tyv_nums_norm (tyv_of_pval a)), (vsim_tyv _ _ H). apply tyv_nums_norm. Qed.

(* ---- seq_view: unconditional ---------------------------------------------------------------- *)
Lemma seq_view_of_num v : seq_view v = match num_view v with Some (NSeq l) => Some l | _ => None end.
Proof.
  unfold num_view. destruct (int_view v) as [z|] eqn:Hi.
  - destruct v; cbn in Hi; try discriminate; reflexivity.
  - destruct v; try reflexivity.
    + destruct sh as [|n [|m sh]]; [|destruct ints; reflexivity|reflexivity].
      destruct ints as [[|z [|z' r]]|]; reflexivity.
    + cbn [seq_view]. destruct (ints_view l); reflexivity.
    + cbn [seq_view]. destruct (ints_view l); reflexivity.
Qed.

Theorem vsim_seq_view a b : vsim a b -> seq_view a = seq_view b.
Proof. intros H. rewrite !seq_view_of_num, (vsim_num_view _ _ H). reflexivity. Qed.

(* ---- int_view: FALSE for a 0-d integer array against its numpy scalar -------------------------
   counterexample: vsim (VArr "int64" [] 0 (Some [5])) (VNp "int64" 0 (Some 5))   (vs_arr0_np)
                   int_view (VArr "int64" [] 0 (Some [5])) = None, int_view (VNp "int64" 0 (Some 5)) = Some 5.
   (`num_view` — the view the type comparison uses — is blind to it: vsim_num_view.)
   True statement: for values that are not 0-d ndarrays.  No condition on booleans is needed because vsim relates a
   VBool to itself only. *)
Example int_view_counterexample :
  vsim (VArr "int64" [] 0 (Some [5])) (VNp "int64" 0 (Some 5)) /\
  int_view (VArr "int64" [] 0 (Some [5])) <> int_view (VNp "int64" 0 (Some 5)).
Proof. split; [apply (vs_arr0_np "int64" 0 (Some [5]))|discriminate]. Qed.

Lemma int_view_of_num v : is0d v = false ->
  int_view v = match num_view v with Some (NScalar z) => Some z | _ => None end.
Proof.
  intros H0. unfold num_view. destruct (int_view v) as [z|] eqn:Hi; [reflexivity|].
  destruct v; try reflexivity.
  - destruct sh as [|n [|m sh]]; [discriminate| |reflexivity]. cbn [seq_view]. destruct ints; reflexivity.
  - cbn [seq_view]. destruct (ints_view l); reflexivity.
  - cbn [seq_view]. destruct (ints_view l); reflexivity.
Qed.

Theorem vsim_int_view a b : vsim a b -> is0d a = false -> is0d b = false -> int_view a = int_view b.
Proof. intros H Ha Hb. rewrite !int_view_of_num, (vsim_num_view _ _ H) by assumption. reflexivity. Qed.

(* ---- shape_attr: FALSE between a Python number and a numpy scalar ---------------------------------
   counterexample: vsim (VInt 3) (VNp "int64" 0 (Some 3)), shape_attr (VInt 3) = Err AttributeError,
   shape_attr (VNp "int64" 0 (Some 3)) = Ok [].
   True statements: (a) whenever both sides HAVE a .shape they are equal; (b) equality of the results under the
   side condition "both have the attribute or neither has"; (c) the shape numpy.shape() computes is invariant. *)
Example shape_attr_counterexample :
  vsim (VInt 3) (VNp "int64" 0 (Some 3)) /\
  shape_attr (VInt 3) = Err AttributeError /\ shape_attr (VNp "int64" 0 (Some 3)) = Ok [].
Proof. split; [apply vs_int_np|split; reflexivity]. Qed.

Lemma shape_attr_np_shape v s : shape_attr v = Ok s -> np_shape v = Some s.
Proof. destruct v; cbn; intros H; inversion H; reflexivity. Qed.

Theorem vsim_shape_attr_ok a b s s' : vsim a b -> shape_attr a = Ok s -> shape_attr b = Ok s' -> s = s'.
Proof.
  intros H Ha Hb. apply shape_attr_np_shape in Ha. apply shape_attr_np_shape in Hb.
  rewrite (vsim_np_shape _ _ H) in Ha. congruence.
Qed.

Lemma shape_attr_err v e : shape_attr v = Err e -> e = AttributeError.
Proof. destruct v; cbn; intros H; inversion H; reflexivity. Qed.

Theorem vsim_shape_attr a b :
  vsim a b -> is_ok (shape_attr a) = is_ok (shape_attr b) -> shape_attr a = shape_attr b.
Proof.
  intros H Hok. destruct (shape_attr a) as [s|e] eqn:Ha, (shape_attr b) as [s'|e'] eqn:Hb; try discriminate.
  - f_equal. eapply vsim_shape_attr_ok; eassumption.
  - apply shape_attr_err in Ha, Hb. congruence.
Qed.

(* operand_shape (the shape of w_in as a multiplication operand): same pattern.  Python numbers and numpy
   scalars agree (Ok []), but a tuple/list is rejected by the model whereas the array it becomes is accepted. *)
Example operand_shape_counterexample :
  vsim (VTuple [VInt 1; VInt 2]) (VArr "int64" [2] 0 (Some [1; 2])) /\
  operand_shape (VTuple [VInt 1; VInt 2]) = Err TypeError /\ operand_shape (VArr "int64" [2] 0 (Some [1; 2])) = Ok [2].
Proof. split; [apply (vs_seq_arr true [VInt 1; VInt 2] [1; 2]); reflexivity|split; reflexivity]. Qed.

Lemma operand_shape_np_shape v s : operand_shape v = Ok s -> np_shape v = Some s.
Proof. destruct v; cbn; intros H; inversion H; reflexivity. Qed.

Lemma operand_shape_err v e : operand_shape v = Err e -> e = TypeError.
Proof. destruct v; cbn; intros H; inversion H; reflexivity. Qed.

Theorem vsim_operand_shape a b :
  vsim a b -> is_ok (operand_shape a) = is_ok (operand_shape b) -> operand_shape a = operand_shape b.
Proof.
  intros H Hok. destruct (operand_shape a) as [s|e] eqn:Ha, (operand_shape b) as [s'|e'] eqn:Hb; try discriminate.
  - apply operand_shape_np_shape in Ha, Hb. rewrite (vsim_np_shape _ _ H) in Ha. congruence.
  - apply operand_shape_err in Ha, Hb. congruence.
Qed.

(* ---- hp_of ------------------------------------------------------------------------------------------ *)
Definition hp_norm (h : hp) : hp := match h with HArr l => HSeq l | x => x end.
(* hp_sim relates HSeq l and HArr l, HInt z and HInt z, HStr s and HStr s, HOther and HOther *)
Definition hp_sim (h h' : hp) : Prop := hp_norm h = hp_norm h'.

Lemma hp_sim_seq_arr l : hp_sim (HSeq l) (HArr l).
Proof. reflexivity. Qed.

Lemma hp_of_views v :
  hp_norm (hp_of v) =
  match int_view v with
  | Some z => HInt z
  | None => match seq_view v with
            | Some l => HSeq l
            | None => match str_view v with Some s => HStr s | None => HOther end
            end
  end.
Proof.
  unfold hp_of. destruct (int_view v) as [z|] eqn:Hi; [reflexivity|].
  destruct v; try reflexivity.
  - destruct sh as [|n [|m sh]]; [reflexivity| |reflexivity]. destruct ints; reflexivity.
  - cbn [seq_view]. destruct (ints_view l); reflexivity.
  - cbn [seq_view]. destruct (ints_view l); reflexivity.
Qed.

(* FALSE for a 0-d integer array against its numpy scalar (HOther vs HInt), for the same reason as int_view *)
Example hp_of_counterexample :
  hp_of (VArr "int64" [] 0 (Some [5])) = HOther /\ hp_of (VNp "int64" 0 (Some 5)) = HInt 5.
Proof. split; reflexivity. Qed.

Theorem vsim_hp_of a b : vsim a b -> is0d a = false -> is0d b = false -> hp_sim (hp_of a) (hp_of b).
Proof.
  intros H Ha Hb. unfold hp_sim. rewrite !hp_of_views.
  rewrite (vsim_int_view _ _ H Ha Hb), (vsim_seq_view _ _ H), (vsim_str_view _ _ H). reflexivity.
Qed.

(* hp_sim-related arguments give equal index_tuple, hp_ndim, hp_is_str and conv_out results *)
Lemma index_tuple_norm h i : index_tuple (hp_norm h) i = index_tuple h i.
Proof. destruct h; reflexivity. Qed.
Lemma hp_ndim_norm h : hp_ndim (hp_norm h) = hp_ndim h.
Proof. destruct h; reflexivity. Qed.
Lemma hp_is_str_norm h s : hp_is_str (hp_norm h) s = hp_is_str h s.
Proof. destruct h; reflexivity. Qed.

Theorem hp_sim_index_tuple h h' i : hp_sim h h' -> index_tuple h i = index_tuple h' i.
Proof. intros H. rewrite <- (index_tuple_norm h), H. apply index_tuple_norm. Qed.
Theorem hp_sim_ndim h h' : hp_sim h h' -> hp_ndim h = hp_ndim h'.
Proof. intros H. rewrite <- (hp_ndim_norm h), H. apply hp_ndim_norm. Qed.
Theorem hp_sim_is_str h h' s : hp_sim h h' -> hp_is_str h s = hp_is_str h' s.
Proof. intros H. rewrite <- (hp_is_str_norm h), H. apply hp_is_str_norm. Qed.

(* "agree on the axes i0 .. i0+cnt-1": what conv_out_axes can observe of a hyper-parameter *)
Definition hp_agree (i0 : Z) (cnt : nat) (h h' : hp) : Prop :=
  (forall s, hp_is_str h s = hp_is_str h' s) /\
  (forall i, i0 <= i < i0 + Z.of_nat cnt -> index_tuple h i = index_tuple h' i).

Lemma hp_sim_agree i0 cnt h h' : hp_sim h h' -> hp_agree i0 cnt h h'.
Proof. intros H. split; [intros s; apply hp_sim_is_str; exact H|intros i _; apply hp_sim_index_tuple; exact H]. Qed.

Lemma hp_agree_step i0 cnt h h' : hp_agree i0 (S cnt) h h' -> hp_agree (i0 + 1) cnt h h'.
Proof. intros [H1 H2]. split; [exact H1|]. intros i Hi. apply H2. lia. Qed.

Lemma conv_out_axes_agree cnt : forall i0 inp inp' pad pad' dil dil' ker ker' st st',
  hp_agree i0 cnt inp inp' -> hp_agree i0 cnt pad pad' -> hp_agree i0 cnt dil dil' ->
  hp_agree i0 cnt ker ker' -> hp_agree i0 cnt st st' ->
  conv_out_axes inp pad dil ker st i0 cnt = conv_out_axes inp' pad' dil' ker' st' i0 cnt.
Proof.
  induction cnt as [|c IH]; intros i0 inp inp' pad pad' dil dil' ker ker' st st' Hi Hp Hd Hk Hs; [reflexivity|].
  cbn [conv_out_axes].
  rewrite (IH (i0 + 1) inp inp' pad pad' dil dil' ker ker' st st') by (apply hp_agree_step; assumption).
  assert (Hr : i0 <= i0 < i0 + Z.of_nat (S c)) by lia.
  destruct Hi as [_ Hi], Hp as [Hps Hp], Hd as [_ Hd], Hk as [_ Hk], Hs as [_ Hs].
  rewrite (Hps "same"), (Hi _ Hr), (Hp _ Hr), (Hd _ Hr), (Hk _ Hr), (Hs _ Hr). reflexivity.
Qed.

Lemma hp_agree_refl i0 cnt h : hp_agree i0 cnt h h.
Proof. split; reflexivity. Qed.

Lemma conv_out_agree inp inp' pad pad' dil dil' ker ker' st st' :
  hp_sim inp inp' ->
  (forall nd, hp_ndim inp = Ok nd ->
     hp_agree 0 (Z.to_nat nd) pad pad' /\ hp_agree 0 (Z.to_nat nd) dil dil' /\
     hp_agree 0 (Z.to_nat nd) ker ker' /\ hp_agree 0 (Z.to_nat nd) st st') ->
  conv_out inp pad dil ker st = conv_out inp' pad' dil' ker' st'.
Proof.
  intros Hi H. unfold conv_out. rewrite <- (hp_sim_ndim _ _ Hi).
  destruct (hp_ndim inp) as [nd|e] eqn:Hnd; cbn [bind]; [|reflexivity].
  destruct (H nd eq_refl) as (Hp & Hd & Hk & Hs).
  rewrite <- (proj1 Hp "valid").
  apply conv_out_axes_agree; try assumption.
  - apply hp_sim_agree. exact Hi.
  - destruct (hp_is_str pad "valid"); [apply hp_agree_refl|exact Hp].
Qed.

Theorem hp_sim_conv_out inp inp' pad pad' dil dil' ker ker' st st' :
  hp_sim inp inp' -> hp_sim pad pad' -> hp_sim dil dil' -> hp_sim ker ker' -> hp_sim st st' ->
  conv_out inp pad dil ker st = conv_out inp' pad' dil' ker' st'.
Proof.
  intros Hi Hp Hd Hk Hs. apply conv_out_agree; [exact Hi|]. intros nd _.
  repeat split; try (intros s; apply hp_sim_is_str; assumption); intros i _; apply hp_sim_index_tuple; assumption.
Qed.

(* ---- parse_shape ------------------------------------------------------------------------------------ *)
Definition norm_tys (l : list (string * tyv)) : list (string * tyv) := map (fun p => (fst p, tyv_norm (snd p))) l.

(* what parse_shape returns when it returns, containers forgotten *)
Definition pshape_view (x : pval) (key : string) : list (string * tyv) :=
  match x with
  | VDict kv => map (fun p => (fst p, tyv_norm (tyv_of_pval (snd p)))) kv
  | _ => [(key, tyv_norm (tyv_of_pval x))]
  end.

Lemma vsim_pshape_view key a b : vsim a b -> pshape_view a key = pshape_view b key.
Proof.
  intros H. vsim_ind H; try reflexivity; try congruence.
  - destruct c; cbn [mkseq pshape_view tyv_of_pval]; rewrite Hl; reflexivity.
  - destruct c, c'; cbn [mkseq pshape_view tyv_of_pval]; rewrite Hl, Hl'; reflexivity.
  - pose proof (ints_view_rows rows (rows_nonempty _ _ Hl Hrows)) as Hr.
    destruct c; unfold rows_val; cbn [mkseq pshape_view tyv_of_pval]; rewrite Hl, Hr; reflexivity.
  - cbn [pshape_view map fst snd] in *. rewrite (vsim_tyv _ _ Ha), IHr. reflexivity.
Qed.

Lemma parse_shape_view x key t : parse_shape x key = Ok t -> norm_tys t = pshape_view x key.
Proof.
  destruct x; cbn [parse_shape]; intros H; inversion H; try reflexivity.
  - cbn [norm_tys map fst snd pshape_view tyv_of_pval]. destruct (ints_view l); reflexivity.
  - cbn [norm_tys map fst snd pshape_view tyv_of_pval]. destruct (ints_view l); reflexivity.
  - unfold norm_tys. rewrite map_map. reflexivity.
Qed.

(* whether parse_shape accepts the value, 0-d arrays counted with the numpy scalars they become *)
Definition pclass (v : pval) : bool :=
  match v with
  | VArr _ [] _ _ => false
  | VArr _ _ _ _ | VTuple _ | VList _ | VStr _ | VDict _ | VNone => true
  | _ => false
  end.

Lemma vsim_pclass a b : vsim a b -> pclass a = pclass b.
Proof.
  intros H. vsim_ind H; try reflexivity; try congruence.
  - destruct c; reflexivity.
  - destruct c, c'; reflexivity.
  - destruct c; reflexivity.
Qed.

Lemma parse_shape_ok x key : is0d x = false -> is_ok (parse_shape x key) = pclass x.
Proof. destruct x; try reflexivity. destruct sh; [discriminate|reflexivity]. Qed.

Lemma parse_shape_err x key e : parse_shape x key = Err e -> e = TypeError.
Proof. destruct x; cbn; intros H; inversion H; reflexivity. Qed.

(* FALSE for a 0-d array against its numpy scalar: the array is accepted (Ok [(key, TOther)]), the scalar is not *)
Example parse_shape_counterexample :
  vsim (VArr "float64" [] 0 None) (VNp "float64" 0 None) /\
  parse_shape (VArr "float64" [] 0 None) "input" = Ok [("input", TOther)] /\
  parse_shape (VNp "float64" 0 None) "input" = Err TypeError.
Proof. split; [apply (vs_arr0_np "float64" 0 None)|split; reflexivity]. Qed.

Definition res_rel {A} (R : A -> A -> Prop) (r r' : result A) : Prop :=
  match r, r' with Ok a, Ok b => R a b | Err _, Err _ => True | _, _ => False end.

Theorem vsim_parse_shape a b key :
  vsim a b -> is0d a = false -> is0d b = false ->
  res_rel (fun t t' => norm_tys t = norm_tys t') (parse_shape a key) (parse_shape b key).
Proof.
  intros H Ha Hb.
  pose proof (parse_shape_ok a key Ha) as Ka. pose proof (parse_shape_ok b key Hb) as Kb.
  rewrite (vsim_pclass _ _ H) in Ka. rewrite <- Kb in Ka.
  destruct (parse_shape a key) as [t|e] eqn:Pa, (parse_shape b key) as [t'|e'] eqn:Pb; try discriminate; cbn; [|exact I].
  rewrite (parse_shape_view _ _ _ Pa), (parse_shape_view _ _ _ Pb). apply vsim_pshape_view. exact H.
Qed.

(* ---- pair_if_int (Conv2d) --------------------------------------------------------------------------- *)
Definition is_pyint (v : pval) : bool := match v with VInt _ | VBool _ => true | _ => false end.

(* the paired value is seen like the scalar on the axes 0 and 1 — and only there *)
Lemma pair_if_int_agree v cnt : (cnt <= 2)%nat -> hp_agree 0 cnt (hp_of (pair_if_int v)) (hp_of v).
Proof.
  intros Hc. destruct v; try apply hp_agree_refl.
  - split; [reflexivity|]. intros i Hi. cbn [pair_if_int].
    assert (E : i = 0 \/ i = 1) by lia. destruct E as [->| ->]; reflexivity.
  - split; [reflexivity|]. intros i Hi. cbn [pair_if_int].
    assert (E : i = 0 \/ i = 1) by lia. destruct E as [->| ->]; destruct b; reflexivity.
Qed.

Example pair_if_int_axis2 :
  index_tuple (hp_of (pair_if_int (VInt 1))) 2 = Err IndexError /\
  index_tuple (hp_of (pair_if_int (VNp "int64" 0 (Some 1)))) 2 = Ok 1.
Proof. split; reflexivity. Qed.

Lemma hp_agree_sym i0 cnt h h' : hp_agree i0 cnt h h' -> hp_agree i0 cnt h' h.
Proof. intros [H1 H2]. split; [intros s; symmetry; apply H1|intros i Hi; symmetry; apply H2; exact Hi]. Qed.
Lemma hp_agree_trans i0 cnt h1 h2 h3 : hp_agree i0 cnt h1 h2 -> hp_agree i0 cnt h2 h3 -> hp_agree i0 cnt h1 h3.
Proof.
  intros [A1 A2] [B1 B2]. split; [intros s; rewrite A1; apply B1|intros i Hi; rewrite A2 by exact Hi; apply B2; exact Hi].
Qed.

Lemma vsim_pair_agree a b cnt :
  vsim a b -> is0d a = false -> is0d b = false -> (cnt <= 2)%nat ->
  hp_agree 0 cnt (hp_of (pair_if_int a)) (hp_of (pair_if_int b)).
Proof.
  intros H Ha Hb Hc.
  eapply hp_agree_trans; [apply pair_if_int_agree; exact Hc|].
  eapply hp_agree_trans; [apply hp_sim_agree, vsim_hp_of; eassumption|].
  apply hp_agree_sym, pair_if_int_agree. exact Hc.
Qed.

(* when both sides are Python ints, or neither is, pairing commutes with vsim on every axis *)
Lemma is_pyint_cases v : is_pyint v = true -> (exists z, v = VInt z) \/ (exists b, v = VBool b).
Proof. destruct v; try discriminate; intros _; [left|right]; eexists; reflexivity. Qed.

Lemma pair_if_int_not v : is_pyint v = false -> pair_if_int v = v.
Proof. destruct v; try discriminate; reflexivity. Qed.

Lemma vsim_pair_sim a b :
  vsim a b -> is0d a = false -> is0d b = false -> is_pyint a = is_pyint b ->
  hp_sim (hp_of (pair_if_int a)) (hp_of (pair_if_int b)).
Proof.
  intros H Ha Hb Hp. destruct (is_pyint a) eqn:Pa; symmetry in Hp.
  - pose proof (vsim_int_view _ _ H Ha Hb) as Hi. pose proof (vsim_bool_view _ _ H) as Hbv.
    destruct (is_pyint_cases _ Pa) as [[z ->]|[x ->]], (is_pyint_cases _ Hp) as [[z' ->]|[x' ->]];
      cbn in Hi, Hbv; try discriminate.
    + inversion Hi. reflexivity.
    + inversion Hbv. reflexivity.
  - rewrite !pair_if_int_not by assumption. apply vsim_hp_of; assumption.
Qed.

(* ================================================================================================ *)
(* (3) post_init on vsim-related fields                                                             *)
(* ================================================================================================ *)
Definition fields_rel (R : string -> pval -> pval -> Prop) (fs fs' : list (string * pval)) : Prop :=
  Forall2 (fun p q => fst p = fst q /\ R (fst p) (snd p) (snd q)) fs fs'.
(* same keys in the same order, vsim-related values *)
Definition fields_sim : list (string * pval) -> list (string * pval) -> Prop := fields_rel (fun _ => vsim).

Lemma fields_rel_assoc R fs fs' f : fields_rel R fs fs' ->
  match assoc f fs, assoc f fs' with Some a, Some b => R f a b | None, None => True | _, _ => False end.
Proof.
  intros H. induction H as [|[k a] [k' b] r r' [Hk Hv] Hr IH]; cbn [assoc]; [exact I|].
  cbn [fst snd] in Hk, Hv. subst k'. destruct (String.eqb f k) eqn:E; [|exact IH].
  apply String.eqb_eq in E. subst k. exact Hv.
Qed.

Lemma fld_rel R fs fs' f : fields_rel R fs fs' -> res_rel (R f) (fld f fs) (fld f fs').
Proof.
  intros H. pose proof (fields_rel_assoc R fs fs' f H) as Ha. unfold fld.
  destruct (assoc f fs), (assoc f fs'); cbn; try contradiction; assumption.
Qed.

Lemma fld_err f fs e : fld f fs = Err e -> e = AttributeError.
Proof. unfold fld. destruct (assoc f fs); intros H; inversion H; reflexivity. Qed.

Lemma assoc_del_rel R k fs fs' : fields_rel R fs fs' -> fields_rel R (assoc_del k fs) (assoc_del k fs').
Proof.
  intros H. induction H as [|[k1 a] [k2 b] r r' [Hk Hv] Hr IH]; cbn [assoc_del]; [constructor|].
  cbn [fst snd] in Hk, Hv. subst k2. destruct (String.eqb k k1); [exact IH|].
  constructor; [split; [reflexivity|exact Hv]|exact IH].
Qed.

Lemma drop_types_rel R fs fs' : fields_rel R fs fs' -> fields_rel R (drop_types fs) (drop_types fs').
Proof. intros H. unfold drop_types. apply assoc_del_rel, assoc_del_rel, H. Qed.

Lemma assoc_set_rel R k v v' fs fs' :
  fields_rel R fs fs' -> R k v v' -> fields_rel R (assoc_set k v fs) (assoc_set k v' fs').
Proof.
  intros H Hv. induction H as [|[k1 a] [k2 b] r r' [Hk Hab] Hr IH]; cbn [assoc_set].
  - constructor; [split; [reflexivity|exact Hv]|constructor].
  - cbn [fst snd] in Hk, Hab. subst k2. destruct (String.eqb k k1).
    + constructor; [split; [reflexivity|exact Hv]|exact Hr].
    + constructor; [split; [reflexivity|exact Hab]|exact IH].
Qed.

Lemma fields_rel_weaken (R R' : string -> pval -> pval -> Prop) fs fs' :
  (forall k a b, R k a b -> R' k a b) -> fields_rel R fs fs' -> fields_rel R' fs fs'.
Proof.
  intros HR H. induction H as [|p q r r' [Hk Hv] Hr IH]; constructor; [split; [exact Hk|apply HR; exact Hv]|exact IH].
Qed.

(* ---- Conv2d stores pair_if_int of stride / padding / dilation: a Python int becomes the pair (z, z), a numpy
   integer stays a scalar.  The two are NOT vsim (vsim never relates a scalar and a sequence, otherwise int_view
   and seq_view would not respect it).  CHOICE: for these three stored fields of a Conv2d the nodes are compared by
   c2sim = vsim, or "constant pair (z, z) against the integer scalar z" — which is all Conv2d (two spatial axes)
   can observe: both denote z on the axes 0 and 1 (c2sim_axes). *)
Inductive c2sim : pval -> pval -> Prop :=
| c2_v a b : vsim a b -> c2sim a b
| c2_l z a b : seq_view a = Some [z; z] -> int_view b = Some z -> c2sim a b
| c2_r z a b : int_view a = Some z -> seq_view b = Some [z; z] -> c2sim a b.

Lemma seq_view_no0d v l : seq_view v = Some l -> is0d v = false.
Proof. destruct v; try discriminate; try reflexivity. destruct sh; [discriminate|reflexivity]. Qed.
Lemma int_view_no0d v z : int_view v = Some z -> is0d v = false.
Proof. destruct v; try discriminate; reflexivity. Qed.
Lemma seq_view_not_int v l : seq_view v = Some l -> int_view v = None.
Proof. destruct v; try discriminate; reflexivity. Qed.
Lemma int_view_not_seq v z : int_view v = Some z -> seq_view v = None.
Proof. destruct v; try discriminate; reflexivity. Qed.

Lemma hp_of_seq v l : seq_view v = Some l -> hp_norm (hp_of v) = HSeq l.
Proof. intros H. rewrite hp_of_views, (seq_view_not_int _ _ H), H. reflexivity. Qed.
Lemma hp_of_int v z : int_view v = Some z -> hp_of v = HInt z.
Proof. intros H. unfold hp_of. rewrite H. reflexivity. Qed.

Theorem c2sim_axes a b : c2sim a b -> is0d a = false -> is0d b = false ->
  index_tuple (hp_of a) 0 = index_tuple (hp_of b) 0 /\ index_tuple (hp_of a) 1 = index_tuple (hp_of b) 1.
Proof.
  intros H Ha Hb. destruct H as [a b H|z a b Hs Hi|z a b Hi Hs].
  - pose proof (vsim_hp_of _ _ H Ha Hb) as Hh. split; apply hp_sim_index_tuple; exact Hh.
  - rewrite <- !(index_tuple_norm (hp_of a)), (hp_of_seq _ _ Hs), (hp_of_int _ _ Hi). split; reflexivity.
  - rewrite <- !(index_tuple_norm (hp_of b)), (hp_of_seq _ _ Hs), (hp_of_int _ _ Hi). split; reflexivity.
Qed.

Lemma pyint_pair v z : is_pyint v = true -> int_view v = Some z ->
  exists l, pair_if_int v = VTuple l /\ ints_view l = Some [z; z].
Proof.
  intros Hp Hi. destruct v; try discriminate; cbn in Hi; inversion Hi; subst; eexists; (split; [reflexivity|]).
  - reflexivity.
  - destruct b; reflexivity.
Qed.

Lemma is_pyint_int_view v : is_pyint v = true -> exists z, int_view v = Some z.
Proof. destruct v; try discriminate; intros _; eexists; reflexivity. Qed.

Theorem vsim_pair_c2sim a b :
  vsim a b -> is0d a = false -> is0d b = false -> c2sim (pair_if_int a) (pair_if_int b).
Proof.
  intros H Ha Hb. pose proof (vsim_int_view _ _ H Ha Hb) as Hi.
  destruct (is_pyint a) eqn:Pa, (is_pyint b) eqn:Pb.
  - destruct (is_pyint_int_view _ Pa) as [z Hz]. rewrite Hz in Hi. symmetry in Hi.
    destruct (pyint_pair _ _ Pa Hz) as (l & -> & Hl). destruct (pyint_pair _ _ Pb Hi) as (l' & -> & Hl').
    apply c2_v. apply (vs_seq_seq true true l l' [z; z]); assumption.
  - destruct (is_pyint_int_view _ Pa) as [z Hz]. rewrite Hz in Hi. symmetry in Hi.
    destruct (pyint_pair _ _ Pa Hz) as (l & -> & Hl). rewrite (pair_if_int_not _ Pb).
    apply (c2_l z); [exact Hl|exact Hi].
  - destruct (is_pyint_int_view _ Pb) as [z Hz]. rewrite Hz in Hi.
    destruct (pyint_pair _ _ Pb Hz) as (l & -> & Hl). rewrite (pair_if_int_not _ Pa).
    apply (c2_r z); [exact Hi|exact Hl].
  - rewrite !pair_if_int_not by assumption. apply c2_v. exact H.
Qed.

(* ---- the relation between the two nodes ------------------------------------------------------- *)
(* stored fields: vsim, except the three pair_if_int fields of a Conv2d (c2sim) *)
Definition frel (k : kind) (key : string) : pval -> pval -> Prop :=
  match k with
  | KConv2d => if mem_str key ["stride"; "padding"; "dilation"] then c2sim else vsim
  | _ => vsim
  end.

(* WHERE THE CONTAINER OF A TYPE MAY DIFFER (TSeq on one side, TArr on the other, same numbers): only for types
   that come from a DICTIONARY-valued input_type / output_type argument, i.e. the input and output type of
   Input / Output nodes and the input type of a Flatten node; a tuple inside the dictionary gives TSeq, the int64
   array it becomes in a file gives TArr.  Every other type of every kind is equal on the nose. *)
Definition loose_in (k : kind) : bool := match k with KInput | KOutput | KFlatten => true | _ => false end.
Definition loose_out (k : kind) : bool := match k with KInput | KOutput => true | _ => false end.
Definition ty_rel (loose : bool) (t t' : ty) : Prop := if loose then ty_norm t = ty_norm t' else t = t'.

Definition node_sim (n n' : node) : Prop :=
  match n, n' with
  | Leaf k f ti to, Leaf k' f' ti' to' =>
      k = k' /\ fields_rel (frel k) f f' /\ ty_rel (loose_in k) ti ti' /\ ty_rel (loose_out k) to to'
  | _, _ => False
  end.

(* both fail (exception classes are not observables), or both succeed with similar nodes *)
Definition res_sim : result node -> result node -> Prop := res_rel node_sim.

Lemma ty_rel_refl b t : ty_rel b t t.
Proof. destruct b; reflexivity. Qed.

Lemma ty_rel_tyv_nums b t t' key :
  ty_rel b t t' ->
  match t, t' with
  | Some d, Some d' => option_map tyv_nums (assoc key d) = option_map tyv_nums (assoc key d') /\ keys d = keys d'
  | None, None => True
  | _, _ => False
  end.
Proof.
  destruct b; cbn [ty_rel]; [|intros ->; destruct t'; [split; reflexivity|exact I]].
  destruct t as [d|], t' as [d'|]; cbn [ty_norm option_map]; try discriminate; [|intros _; exact I].
  intros H. inversion H as [Hm]. clear H. revert d' Hm.
  induction d as [|[k v] r IH]; intros [|[k' v'] r'] Hm; cbn [map] in Hm; try discriminate; [split; reflexivity|].
  cbn [fst snd] in Hm. inversion Hm as [[Hk Hv Hr]]. subst k'. destruct (IH _ Hr) as [IH1 IH2].
  cbn [assoc keys map fst]. split; [|unfold keys in IH2; rewrite IH2; reflexivity].
  destruct (String.eqb key k); [|exact IH1]. cbn [option_map]. f_equal.
  rewrite <- (tyv_nums_norm v), Hv. apply tyv_nums_norm.
Qed.

Lemma vsim_frel k key a b : vsim a b -> frel k key a b.
Proof. intros H. destruct k; try exact H. cbn [frel]. destruct (mem_str key _); [apply c2_v|]; exact H. Qed.

Lemma fields_sim_frel k f f' : fields_sim f f' -> fields_rel (frel k) f f'.
Proof. apply fields_rel_weaken. intros key a b. apply vsim_frel. Qed.

(* ---- side conditions ---------------------------------------------------------------------------- *)
(* S1 (shape_stable): the field read through `.shape` has the attribute on both sides or on neither, i.e. a Python
      number (no .shape: AttributeError) is not set against the numpy scalar it would become (shape ()).  *)
Definition shape_stable (f : string) (fs fs' : list (string * pval)) : Prop :=
  is_ok (fld_shape f fs) = is_ok (fld_shape f fs').
(* S2 (fld_no0d): the hyper-parameter read through int_view / hp_of / parse_shape is not a 0-d ndarray (the
      model — like the code — does not accept a 0-d array where it accepts the numpy scalar it becomes in a file) *)
Definition fld_no0d (f : string) (fs : list (string * pval)) : Prop :=
  match assoc f fs with Some v => is0d v = false | None => True end.
(* S3 (CubaLIF): w_in is an admissible operand on both sides or on neither (a tuple/list is not, an array is) *)
Definition opshape_stable (fs fs' : list (string * pval)) : Prop :=
  match assoc "w_in" fs, assoc "w_in" fs' with
  | Some a, Some b => is_ok (operand_shape a) = is_ok (operand_shape b)
  | _, _ => True
  end.
(* S4 (Conv2d): the input shape has at most two spatial entries (then a pair (z, z) and the scalar z cannot be told
      apart), OR each of padding / stride / dilation is a Python int on both sides or on neither. *)
Definition pyint_stable (f : string) (fs fs' : list (string * pval)) : Prop :=
  match assoc f fs, assoc f fs' with Some a, Some b => is_pyint a = is_pyint b | _, _ => True end.
Definition conv2d_cond (fs fs' : list (string * pval)) : Prop :=
  (forall ish sp, assoc "input_shape" fs = Some ish -> seq_view ish = Some sp -> (length sp <= 2)%nat) \/
  (pyint_stable "padding" fs fs' /\ pyint_stable "stride" fs fs' /\ pyint_stable "dilation" fs fs').

Definition shape_names (k : kind) : list string :=
  match k with
  | KAffine | KLinear | KConv1d | KConv2d => ["weight"]
  | KScale => ["scale"] | KDelay => ["delay"] | KThreshold => ["threshold"] | KI => ["r"]
  | KIF => ["r"; "v_threshold"] | KLI => ["tau"; "r"; "v_leak"] | KLIF => ["tau"; "r"; "v_leak"; "v_threshold"]
  | KCubaLIF => ["tau_syn"; "tau_mem"; "r"; "v_leak"; "v_threshold"]
  | _ => []
  end.
Definition no0d_names (k : kind) : list string :=
  match k with
  | KConv1d => ["padding"; "input_shape"; "stride"; "dilation"]
  | KConv2d => ["padding"; "stride"; "dilation"]
  | KFlatten => ["input_type"; "start_dim"; "end_dim"]
  | KInput => ["input_type"] | KOutput => ["output_type"]
  | _ => []
  end.

Definition side (k : kind) (fs fs' : list (string * pval)) : Prop :=
  Forall (fun f => shape_stable f fs fs') (shape_names k) /\
  Forall (fun f => fld_no0d f fs /\ fld_no0d f fs') (no0d_names k) /\
  (k = KCubaLIF -> opshape_stable fs fs') /\
  (k = KConv2d -> conv2d_cond fs fs').

(* ---- reading fields ------------------------------------------------------------------------------- *)
Lemma fld_shape_eq f fs fs' : fields_sim fs fs' -> shape_stable f fs fs' -> fld_shape f fs = fld_shape f fs'.
Proof.
  intros Hfs Hst. unfold shape_stable, fld_shape in *. pose proof (fld_rel _ _ _ f Hfs) as Hf.
  destruct (fld f fs) as [a|e] eqn:Ea, (fld f fs') as [b|e'] eqn:Eb; cbn [res_rel bind] in *; try contradiction.
  - apply vsim_shape_attr; assumption.
  - apply fld_err in Ea, Eb. congruence.
Qed.

Lemma fld_no0d_ok f fs v : fld_no0d f fs -> fld f fs = Ok v -> is0d v = false.
Proof. unfold fld_no0d, fld. destruct (assoc f fs); intros H E; inversion E; subst; exact H. Qed.

Lemma mapM_fld_shape_eq fs fs' names :
  fields_sim fs fs' -> Forall (fun f => shape_stable f fs fs') names ->
  mapM (fun f => fld_shape f fs) names = mapM (fun f => fld_shape f fs') names.
Proof.
  intros Hfs H. induction H as [|f r Hf Hr IH]; cbn [mapM]; [reflexivity|].
  rewrite (fld_shape_eq _ _ _ Hfs Hf), IH. reflexivity.
Qed.

(* ---- elementwise kinds: Scale, Delay, Threshold, I, IF, LI, LIF (and the first half of CubaLIF) ---- *)
Lemma elementwise_cases k fs fs' names :
  fields_sim fs fs' -> Forall (fun f => shape_stable f fs fs') names ->
  (exists e, elementwise k fs names = Err e /\ elementwise k fs' names = Err e) \/
  (exists sh, elementwise k fs names = Ok (Leaf k (drop_types fs) (arr_ty "input" sh) (arr_ty "output" sh)) /\
              elementwise k fs' names = Ok (Leaf k (drop_types fs') (arr_ty "input" sh) (arr_ty "output" sh))).
Proof.
  intros Hfs Hst. unfold elementwise. rewrite (mapM_fld_shape_eq _ _ _ Hfs Hst).
  destruct (mapM (fun f => fld_shape f fs') names) as [shapes|e]; cbn [bind]; [|left; eexists; split; reflexivity].
  destruct (all_same shapes); [|left; eexists; split; reflexivity].
  destruct shapes as [|sh r]; [left; eexists; split; reflexivity|].
  right. exists sh. split; reflexivity.
Qed.

Lemma leaf_sim_exact k fs fs' ti to :
  fields_sim fs fs' -> node_sim (Leaf k (drop_types fs) ti to) (Leaf k (drop_types fs') ti to).
Proof.
  intros Hfs. cbn [node_sim]. split; [reflexivity|]. split; [|split; apply ty_rel_refl].
  apply fields_sim_frel, drop_types_rel, Hfs.
Qed.

Theorem elementwise_sim k fs fs' names :
  fields_sim fs fs' -> Forall (fun f => shape_stable f fs fs') names ->
  res_sim (elementwise k fs names) (elementwise k fs' names).
Proof.
  intros Hfs Hst. destruct (elementwise_cases k _ _ _ Hfs Hst) as [(e & -> & ->)|(sh & -> & ->)]; [exact I|].
  apply leaf_sim_exact, Hfs.
Qed.

(* ---- Affine / Linear ------------------------------------------------------------------------------ *)
Theorem matvec_sim k fs fs' :
  fields_sim fs fs' -> shape_stable "weight" fs fs' -> res_sim (matvec k fs) (matvec k fs').
Proof.
  intros Hfs Hst. unfold matvec. rewrite (fld_shape_eq _ _ _ Hfs Hst).
  destruct (fld_shape "weight" fs') as [w|e]; cbn [bind]; [|exact I].
  destruct (Nat.ltb (length w) 2); [exact I|]. apply leaf_sim_exact, Hfs.
Qed.

(* ---- CubaLIF ----------------------------------------------------------------------------------------- *)
Theorem cubalif_sim fs fs' :
  fields_sim fs fs' -> side KCubaLIF fs fs' -> res_sim (post_init KCubaLIF fs) (post_init KCubaLIF fs').
Proof.
  intros Hfs (Hst & _ & Hop & _). specialize (Hop eq_refl). cbn [shape_names] in Hst.
  unfold post_init.
  destruct (elementwise_cases KCubaLIF _ _ _ Hfs Hst) as [(e & -> & ->)|(sh0 & -> & ->)]; [exact I|].
  cbn [bind].
  assert (Hvt : shape_stable "v_threshold" fs fs').
  { do 4 (inversion Hst as [|? ? _ Hst']; clear Hst; rename Hst' into Hst). inversion Hst; assumption. }
  rewrite (fld_shape_eq _ _ _ Hfs Hvt).
  destruct (fld_shape "v_threshold" fs') as [sh|e]; cbn [bind]; [|exact I].
  pose proof (fld_rel _ _ _ "w_in" Hfs) as Hw. unfold opshape_stable in Hop. unfold fld in *.
  destruct (assoc "w_in" fs) as [w|], (assoc "w_in" fs') as [w'|]; cbn [res_rel bind] in *; try contradiction; [|exact I].
  rewrite (vsim_operand_shape _ _ Hw Hop).
  destruct (operand_shape w') as [wsh|e]; cbn [bind]; [|exact I].
  destruct (broadcast_shapes sh wsh) as [r|]; [|exact I].
  destruct (shape_eqb r sh); [|exact I].
  cbn [res_sim res_rel node_sim]. split; [reflexivity|]. split; [|split; apply ty_rel_refl].
  apply fields_sim_frel. apply assoc_set_rel; [apply drop_types_rel, Hfs|apply vs_refl].
Qed.

(* ---- Input / Output / Flatten ---------------------------------------------------------------------- *)
Lemma assoc_norm_tys key t : assoc key (norm_tys t) = option_map tyv_norm (assoc key t).
Proof.
  induction t as [|[k v] r IH]; cbn [norm_tys map assoc fst snd]; [reflexivity|].
  destruct (String.eqb key k); [reflexivity|exact IH].
Qed.

Lemma norm_tys_assoc key t t' : norm_tys t = norm_tys t' ->
  match assoc key t, assoc key t' with
  | Some v, Some v' => tyv_norm v = tyv_norm v'
  | None, None => True
  | _, _ => False
  end.
Proof.
  intros H. pose proof (assoc_norm_tys key t) as A. rewrite H, assoc_norm_tys in A.
  destruct (assoc key t), (assoc key t'); cbn in A; try discriminate; [inversion A; reflexivity|exact I].
Qed.

Ltac fld_step Hfs f v v' Hv :=
  match type of Hfs with
  | fields_sim ?fs ?fs' =>
    pose proof (fld_rel _ _ _ f Hfs) as Hv;
    let E := fresh "E" in let E' := fresh "E" in
    destruct (fld f fs) as [v|] eqn:E; destruct (fld f fs') as [v'|] eqn:E';
    cbn [res_rel bind] in Hv |- *; [ |contradiction Hv|contradiction Hv|exact I]
  end.

Theorem input_sim fs fs' :
  fields_sim fs fs' -> side KInput fs fs' -> res_sim (post_init KInput fs) (post_init KInput fs').
Proof.
  intros Hfs (_ & Hz & _ & _). cbn [no0d_names] in Hz. inversion Hz as [|? ? [Hz1 Hz2] _]; subst. clear Hz.
  unfold post_init, res_sim.
  fld_step Hfs "input_type" x x' Hx.
  pose proof (vsim_parse_shape _ _ "input" Hx (fld_no0d_ok _ _ _ Hz1 E) (fld_no0d_ok _ _ _ Hz2 E0)) as Hp.
  destruct (parse_shape x "input") as [tin|], (parse_shape x' "input") as [tin'|]; cbn [res_rel bind] in *;
    try contradiction; [|exact I].
  pose proof (norm_tys_assoc "input" _ _ Hp) as Ha.
  destruct (assoc "input" tin) as [v|], (assoc "input" tin') as [v'|]; try contradiction; [|exact I].
  cbn [res_rel node_sim loose_in loose_out ty_rel ty_norm option_map map fst snd].
  split; [reflexivity|]. split; [apply fields_sim_frel, drop_types_rel, Hfs|].
  split; [f_equal; exact Hp|rewrite Ha; reflexivity].
Qed.

Theorem output_sim fs fs' :
  fields_sim fs fs' -> side KOutput fs fs' -> res_sim (post_init KOutput fs) (post_init KOutput fs').
Proof.
  intros Hfs (_ & Hz & _ & _). cbn [no0d_names] in Hz. inversion Hz as [|? ? [Hz1 Hz2] _]; subst. clear Hz.
  unfold post_init, res_sim.
  fld_step Hfs "output_type" x x' Hx.
  pose proof (vsim_parse_shape _ _ "output" Hx (fld_no0d_ok _ _ _ Hz1 E) (fld_no0d_ok _ _ _ Hz2 E0)) as Hp.
  destruct (parse_shape x "output") as [tout|], (parse_shape x' "output") as [tout'|]; cbn [res_rel bind] in *;
    try contradiction; [|exact I].
  pose proof (norm_tys_assoc "output" _ _ Hp) as Ha.
  destruct (assoc "output" tout) as [v|], (assoc "output" tout') as [v'|]; try contradiction; [|exact I].
  cbn [res_rel node_sim loose_in loose_out ty_rel ty_norm option_map map fst snd].
  split; [reflexivity|]. split; [apply fields_sim_frel, drop_types_rel, Hfs|].
  split; [rewrite Ha; reflexivity|f_equal; exact Hp].
Qed.

Lemma tyv_norm_cases v v' : tyv_norm v = tyv_norm v' ->
  (v = TNone /\ v' = TNone) \/ (v = TOther /\ v' = TOther) \/
  (exists l, (v = TArr l \/ v = TSeq l) /\ (v' = TArr l \/ v' = TSeq l)).
Proof.
  destruct v, v'; cbn; intros H; try discriminate; inversion H; subst; timeout 20 eauto 8.
Qed.

Theorem flatten_sim fs fs' :
  fields_sim fs fs' -> side KFlatten fs fs' -> res_sim (post_init KFlatten fs) (post_init KFlatten fs').
Proof.
  intros Hfs (_ & Hz & _ & _). cbn [no0d_names] in Hz.
  inversion Hz as [|? ? [Hz1 Hz2] Hz']; subst. clear Hz.
  inversion Hz' as [|? ? [Hs1 Hs2] Hz]; subst. clear Hz'.
  inversion Hz as [|? ? [He1 He2] _]; subst. clear Hz.
  unfold post_init, res_sim.
  fld_step Hfs "input_type" x x' Hx.
  pose proof (vsim_parse_shape _ _ "input" Hx (fld_no0d_ok _ _ _ Hz1 E) (fld_no0d_ok _ _ _ Hz2 E0)) as Hp.
  destruct (parse_shape x "input") as [tin|], (parse_shape x' "input") as [tin'|]; cbn [res_rel bind] in *;
    try contradiction; [|exact I].
  pose proof (norm_tys_assoc "input" _ _ Hp) as Ha.
  destruct (assoc "input" tin) as [v|], (assoc "input" tin') as [v'|]; try contradiction; [|exact I].
  assert (Hrest : forall sh,
    res_rel node_sim
      (do sd <- fld "start_dim" fs; do ed <- fld "end_dim" fs;
       match int_view sd, int_view ed with
       | Some s, Some e =>
         let out := flatten_out sh s e in
         if prodZ sh =? prodZ out then Ok (Leaf KFlatten (drop_types fs) (Some tin) (arr_ty "output" out))
         else Err ValueError
       | _, _ => Err TypeError
       end)
      (do sd <- fld "start_dim" fs'; do ed <- fld "end_dim" fs';
       match int_view sd, int_view ed with
       | Some s, Some e =>
         let out := flatten_out sh s e in
         if prodZ sh =? prodZ out then Ok (Leaf KFlatten (drop_types fs') (Some tin') (arr_ty "output" out))
         else Err ValueError
       | _, _ => Err TypeError
       end)).
  { intros sh.
    fld_step Hfs "start_dim" sd sd' Hsd. fld_step Hfs "end_dim" ed ed' Hed.
    rewrite <- (vsim_int_view _ _ Hsd (fld_no0d_ok _ _ _ Hs1 E1) (fld_no0d_ok _ _ _ Hs2 E2)).
    rewrite <- (vsim_int_view _ _ Hed (fld_no0d_ok _ _ _ He1 E3) (fld_no0d_ok _ _ _ He2 E4)).
    destruct (int_view sd) as [s|]; [|exact I]. destruct (int_view ed) as [e|]; [|exact I].
    cbv zeta. destruct (prodZ sh =? prodZ (flatten_out sh s e)); [|exact I].
    cbn [res_rel node_sim loose_in loose_out ty_rel ty_norm option_map].
    split; [reflexivity|]. split; [apply fields_sim_frel, drop_types_rel, Hfs|].
    split; [f_equal; exact Hp|reflexivity]. }
  destruct (tyv_norm_cases _ _ Ha) as [[-> ->]|[[-> ->]|(l & [-> | ->] & [-> | ->])]]; cbn [tyv_nums];
    try exact I; try apply Hrest.
  apply leaf_sim_exact, Hfs.
Qed.

(* ---- pools -------------------------------------------------------------------------------------------- *)
Theorem pool_sim k fs fs' :
  k = KSumPool2d \/ k = KAvgPool2d -> fields_sim fs fs' -> res_sim (post_init k fs) (post_init k fs').
Proof. intros [-> | ->] Hfs; apply leaf_sim_exact, Hfs. Qed.

(* ---- Conv1d -------------------------------------------------------------------------------------------- *)
Lemma none_match {A} (v : pval) (X Y : A) :
  match v with VNone => X | _ => Y end = if is_none v then X else Y.
Proof. destruct v; reflexivity. Qed.

Theorem conv1d_sim fs fs' :
  fields_sim fs fs' -> side KConv1d fs fs' -> res_sim (post_init KConv1d fs) (post_init KConv1d fs').
Proof.
  intros Hfs (Hst & Hz & _ & _). cbn [shape_names no0d_names] in Hst, Hz.
  inversion Hst as [|? ? Hw _]; subst. clear Hst.
  inversion Hz as [|? ? [Hp1 Hp2] Hz1]; subst. clear Hz.
  inversion Hz1 as [|? ? [Hi1 Hi2] Hz2]; subst. clear Hz1.
  inversion Hz2 as [|? ? [Hs1 Hs2] Hz3]; subst. clear Hz2.
  inversion Hz3 as [|? ? [Hd1 Hd2] _]; subst. clear Hz3.
  unfold post_init, res_sim.
  fld_step Hfs "padding" pad pad' Hpad.
  rewrite <- (vsim_pad_is_bad_string _ _ Hpad). destruct (pad_is_bad_string pad); [exact I|].
  fld_step Hfs "input_shape" ish ish' Hish.
  rewrite !none_match. rewrite <- (vsim_is_none _ _ Hish).
  destruct (is_none ish); [apply leaf_sim_exact, Hfs|].
  rewrite (fld_shape_eq _ _ _ Hfs Hw).
  destruct (fld_shape "weight" fs') as [w|]; cbn [bind]; [|exact I].
  destruct (py_index w 1) as [c_in|]; cbn [bind]; [|exact I].
  rewrite <- (vsim_int_view _ _ Hish (fld_no0d_ok _ _ _ Hi1 E1) (fld_no0d_ok _ _ _ Hi2 E2)).
  destruct (int_view ish) as [n|]; [|exact I].
  destruct (py_index w 2) as [kk|]; cbn [bind]; [|exact I].
  destruct (py_index w 0) as [c_out|]; cbn [bind]; [|exact I].
  fld_step Hfs "stride" st st' Hst.
  fld_step Hfs "dilation" dil dil' Hdil.
  rewrite (hp_sim_conv_out (HInt n) (HInt n) (hp_of pad) (hp_of pad') (hp_of dil) (hp_of dil') (HInt kk) (HInt kk)
             (hp_of st) (hp_of st')); try reflexivity.
  - destruct (conv_out _ _ _ _ _) as [out|]; cbn [bind]; [|exact I]. apply leaf_sim_exact, Hfs.
  - apply vsim_hp_of; [exact Hpad|exact (fld_no0d_ok _ _ _ Hp1 E)|exact (fld_no0d_ok _ _ _ Hp2 E0)].
  - apply vsim_hp_of; [exact Hdil|exact (fld_no0d_ok _ _ _ Hd1 E5)|exact (fld_no0d_ok _ _ _ Hd2 E6)].
  - apply vsim_hp_of; [exact Hst|exact (fld_no0d_ok _ _ _ Hs1 E3)|exact (fld_no0d_ok _ _ _ Hs2 E4)].
Qed.

(* ---- Conv2d -------------------------------------------------------------------------------------------- *)
Lemma pair_agree_either a b cnt :
  vsim a b -> is0d a = false -> is0d b = false -> ((cnt <= 2)%nat \/ is_pyint a = is_pyint b) ->
  hp_agree 0 cnt (hp_of (pair_if_int a)) (hp_of (pair_if_int b)).
Proof.
  intros H Ha Hb [Hc|Hp]; [apply vsim_pair_agree; assumption|apply hp_sim_agree, vsim_pair_sim; assumption].
Qed.

Lemma fld_ok_assoc f fs v : fld f fs = Ok v -> assoc f fs = Some v.
Proof. unfold fld. destruct (assoc f fs); intros H; inversion H; reflexivity. Qed.

Lemma pyint_stable_ok f fs fs' a b :
  pyint_stable f fs fs' -> fld f fs = Ok a -> fld f fs' = Ok b -> is_pyint a = is_pyint b.
Proof.
  unfold pyint_stable. intros H Ea Eb. rewrite (fld_ok_assoc _ _ _ Ea), (fld_ok_assoc _ _ _ Eb) in H. exact H.
Qed.

Lemma hp_ndim_seq v sp nd : seq_view v = Some sp -> hp_ndim (hp_of v) = Ok nd -> Z.to_nat nd = length sp.
Proof.
  intros Hs Hn. rewrite <- hp_ndim_norm, (hp_of_seq _ _ Hs) in Hn. cbn [hp_ndim] in Hn. inversion Hn.
  unfold lenZ. apply Nat2Z.id.
Qed.

Theorem conv2d_sim fs fs' :
  fields_sim fs fs' -> side KConv2d fs fs' -> res_sim (post_init KConv2d fs) (post_init KConv2d fs').
Proof.
  intros Hfs (Hst & Hz & _ & Hc). specialize (Hc eq_refl). cbn [shape_names no0d_names] in Hst, Hz.
  inversion Hst as [|? ? Hw _]; subst. clear Hst.
  inversion Hz as [|? ? [Hp1 Hp2] Hz1]; subst. clear Hz.
  inversion Hz1 as [|? ? [Hs1 Hs2] Hz2]; subst. clear Hz1.
  inversion Hz2 as [|? ? [Hd1 Hd2] _]; subst. clear Hz2.
  unfold post_init, res_sim.
  fld_step Hfs "padding" pad pad' Hpad.
  rewrite <- (vsim_pad_is_bad_string _ _ Hpad). destruct (pad_is_bad_string pad); [exact I|].
  fld_step Hfs "stride" st st' Hstr.
  fld_step Hfs "dilation" dil dil' Hdil.
  pose proof (fld_no0d_ok _ _ _ Hp1 E) as Zp. pose proof (fld_no0d_ok _ _ _ Hp2 E0) as Zp'.
  pose proof (fld_no0d_ok _ _ _ Hs1 E1) as Zs. pose proof (fld_no0d_ok _ _ _ Hs2 E2) as Zs'.
  pose proof (fld_no0d_ok _ _ _ Hd1 E3) as Zd. pose proof (fld_no0d_ok _ _ _ Hd2 E4) as Zd'.
  cbv zeta.
  assert (Hstored : fields_rel (frel KConv2d)
            (drop_types (assoc_set "dilation" (pair_if_int dil) (assoc_set "stride" (pair_if_int st)
                           (assoc_set "padding" (pair_if_int pad) fs))))
            (drop_types (assoc_set "dilation" (pair_if_int dil') (assoc_set "stride" (pair_if_int st')
                           (assoc_set "padding" (pair_if_int pad') fs'))))).
  { apply drop_types_rel. repeat apply assoc_set_rel; [apply fields_sim_frel, Hfs| | |];
      apply vsim_pair_c2sim; assumption. }
  fld_step Hfs "input_shape" ish ish' Hish.
  rewrite !none_match. rewrite <- (vsim_is_none _ _ Hish).
  destruct (is_none ish).
  { cbn [res_rel node_sim]. split; [reflexivity|]. split; [exact Hstored|split; apply ty_rel_refl]. }
  rewrite (fld_shape_eq _ _ _ Hfs Hw).
  destruct (fld_shape "weight" fs') as [w|]; cbn [bind]; [|exact I].
  destruct (py_index w 1) as [c_in|]; cbn [bind]; [|exact I].
  rewrite <- (vsim_seq_view _ _ Hish).
  destruct (seq_view ish) as [sp|] eqn:Hsp; [|exact I].
  destruct (py_index w 0) as [c_out|]; cbn [bind]; [|exact I].
  assert (Hsp' : seq_view ish' = Some sp) by (rewrite <- (vsim_seq_view _ _ Hish); exact Hsp).
  rewrite (conv_out_agree (hp_of ish) (hp_of ish') (hp_of (pair_if_int pad)) (hp_of (pair_if_int pad'))
             (hp_of (pair_if_int dil)) (hp_of (pair_if_int dil')) (HSeq (skipn 2 w)) (HSeq (skipn 2 w))
             (hp_of (pair_if_int st)) (hp_of (pair_if_int st'))).
  - destruct (conv_out _ _ _ _ _) as [out|]; cbn [bind]; [|exact I].
    cbn [res_rel node_sim]. split; [reflexivity|]. split; [exact Hstored|split; apply ty_rel_refl].
  - apply vsim_hp_of; [exact Hish|exact (seq_view_no0d _ _ Hsp)|exact (seq_view_no0d _ _ Hsp')].
  - intros nd Hnd. rewrite (hp_ndim_seq _ _ _ Hsp Hnd).
    assert (Hor : forall f a b, In f ["padding"; "stride"; "dilation"] -> fld f fs = Ok a -> fld f fs' = Ok b ->
                    (length sp <= 2)%nat \/ is_pyint a = is_pyint b).
    { intros f a b Hin Ea Eb. destruct Hc as [Hc|(C1 & C2 & C3)].
      - left. exact (Hc _ _ (fld_ok_assoc _ _ _ E5) Hsp).
      - right. destruct Hin as [<-|[<-|[<-|[]]]];
          [exact (pyint_stable_ok _ _ _ _ _ C1 Ea Eb)|exact (pyint_stable_ok _ _ _ _ _ C2 Ea Eb)
          |exact (pyint_stable_ok _ _ _ _ _ C3 Ea Eb)]. }
    split; [|split; [|split]].
    + apply pair_agree_either; try assumption. apply (Hor "padding"); [cbn; tauto|exact E|exact E0].
    + apply pair_agree_either; try assumption. apply (Hor "dilation"); [cbn; tauto|exact E3|exact E4].
    + apply hp_agree_refl.
    + apply pair_agree_either; try assumption. apply (Hor "stride"); [cbn; tauto|exact E1|exact E2].
Qed.

(* ---- MAIN THEOREM ------------------------------------------------------------------------------------------
   If two field lists have the same keys in the same order and vsim-related values, then post_init k fs and
   post_init k fs' either both fail, or both succeed with the same kind, vsim-related stored fields (c2sim for
   the three paired fields of a Conv2d) and the same input/output types (exactly equal, except the dictionary-born
   types of Input / Output / Flatten which are equal up to the container TArr/TSeq: ty_rel, loose_in, loose_out).
   SIDE CONDITIONS (`side k fs fs'`), each shown necessary by a counterexample below:
     S1  shape_stable f     for every f in shape_names k   (fields read through .shape)
     S2  fld_no0d f on both sides for every f in no0d_names k (fields read through int_view / hp_of / parse_shape)
     S3  opshape_stable     for CubaLIF (w_in)
     S4  conv2d_cond        for Conv2d
   No condition at all for SumPool2d / AvgPool2d.  KGraph is excluded (post_init KGraph always fails: graphs are
   built by mk_graph), and for it the statement holds trivially, so `k <> KGraph` is not even needed. *)
Theorem post_init_sim : forall k fs fs',
  fields_sim fs fs' -> side k fs fs' -> res_sim (post_init k fs) (post_init k fs').
Proof.
  intros k fs fs' Hfs Hside.
  destruct k;
    try (destruct Hside as (Hst & _); cbn [shape_names] in Hst; unfold post_init;
         first [apply elementwise_sim; assumption
               |apply matvec_sim; [assumption|inversion Hst; assumption]]).
  - apply input_sim; assumption.
  - apply output_sim; assumption.
  - apply conv1d_sim; assumption.
  - apply conv2d_sim; assumption.
  - apply pool_sim; [left; reflexivity|assumption].
  - apply pool_sim; [right; reflexivity|assumption].
  - apply flatten_sim; assumption.
  - apply cubalif_sim; assumption.
  - exact I.
Qed.

(* the form asked for in the task *)
Corollary post_init_sim' : forall k fs fs',
  k <> KGraph -> fields_sim fs fs' -> side k fs fs' -> res_sim (post_init k fs) (post_init k fs').
Proof. intros k fs fs' _. apply post_init_sim. Qed.

(* what res_sim gives about the types, in the vocabulary of tyv_nums *)
Corollary post_init_sim_types k fs fs' f ti to f' ti' to' k' :
  fields_sim fs fs' -> side k fs fs' ->
  post_init k fs = Ok (Leaf k f ti to) -> post_init k fs' = Ok (Leaf k' f' ti' to') ->
  k = k' /\
  (loose_in k = false -> ti = ti') /\ (loose_out k = false -> to = to') /\
  ty_norm ti = ty_norm ti' /\ ty_norm to = ty_norm to'.
Proof.
  intros Hfs Hs E E'. pose proof (post_init_sim k fs fs' Hfs Hs) as H. rewrite E, E' in H.
  cbn [res_sim res_rel node_sim] in H. destruct H as (Hk & _ & Hi & Ho). split; [exact Hk|].
  unfold ty_rel in Hi, Ho. destruct (loose_in k), (loose_out k);
    repeat split; try discriminate; try (intros _; assumption); try assumption; subst; reflexivity.
Qed.

(* ---- the side conditions are necessary: counterexamples (both sides vsim-related field by field) ---- *)
Definition arr1 : pval := VArr "float32" [3] 7 None.
(* S1: Scale(scale = 3) raises, Scale(scale = np.int64(3)) does not *)
Example S1_needed :
  is_ok (post_init KScale [("scale", VInt 3)]) = false /\
  is_ok (post_init KScale [("scale", VNp "int64" 0 (Some 3))]) = true.
Proof. split; reflexivity. Qed.
(* S2: Flatten(start_dim = 0-d array) raises, the numpy scalar it becomes does not *)
Example S2_needed :
  let fs x := [("input_type", VDict [("input", VTuple [VInt 2; VInt 3])]); ("start_dim", x); ("end_dim", VInt (-1))] in
  is_ok (post_init KFlatten (fs (VArr "int64" [] 0 (Some [0])))) = false /\
  is_ok (post_init KFlatten (fs (VNp "int64" 0 (Some 0)))) = true.
Proof. split; reflexivity. Qed.
(* S3: CubaLIF(w_in = (1, 1, 1)) is rejected by the model, the array it becomes is accepted *)
Example S3_needed :
  let fs x := [("tau_syn", arr1); ("tau_mem", arr1); ("r", arr1); ("v_leak", arr1); ("v_threshold", arr1); ("w_in", x)] in
  is_ok (post_init KCubaLIF (fs (VTuple [VInt 1; VInt 1; VInt 1]))) = false /\
  is_ok (post_init KCubaLIF (fs (VArr "int64" [3] 0 (Some [1; 1; 1])))) = true.
Proof. split; reflexivity. Qed.
(* S4: three spatial entries, stride = 1 (paired, no axis 2) against stride = np.int64(1) (a scalar on every axis) *)
Example S4_needed :
  let fs x := [("input_shape", VTuple [VInt 5; VInt 5; VInt 5]); ("weight", VArr "float32" [2; 2; 1; 1; 1] 7 None);
               ("stride", x); ("padding", VTuple [VInt 0; VInt 0; VInt 0]);
               ("dilation", VTuple [VInt 1; VInt 1; VInt 1])] in
  is_ok (post_init KConv2d (fs (VInt 1))) = false /\
  is_ok (post_init KConv2d (fs (VNp "int64" 0 (Some 1)))) = true.
Proof. split; reflexivity. Qed.

(* ================================================================================================ *)
(* (4) files written by other producers: the physical string encoding is not observable (C04)       *)
(* ================================================================================================ *)
(* same tree, the `enc` tags of H5Str / H5Strs arbitrary *)
Inductive h5_enc_sim : h5 -> h5 -> Prop :=
| es_str e e' s : h5_enc_sim (H5Str e s) (H5Str e' s)
| es_strs e e' rows : h5_enc_sim (H5Strs e rows) (H5Strs e' rows)
| es_data v : h5_enc_sim (H5Data v) (H5Data v)
| es_nil : h5_enc_sim (H5Group []) (H5Group [])
| es_cons k a b r r' : h5_enc_sim a b -> h5_enc_sim (H5Group r) (H5Group r') ->
                       h5_enc_sim (H5Group ((k, a) :: r)) (H5Group ((k, b) :: r')).

Lemma h5_enc_sim_refl t : h5_enc_sim t t.
Proof.
  revert t. fix IH 1. intros [ms|e s|v|e rows]; try constructor.
  induction ms as [|[k a] r IHr]; constructor; [apply IH|exact IHr].
Qed.

Theorem hdf2dict_enc t t' : h5_enc_sim t t' -> hdf2dict t = hdf2dict t'.
Proof.
  intros H. induction H as [e e' s|e e' rows|v| |k a b r r' Ha IHa Hr IHr]; try reflexivity.
  cbn [hdf2dict map fst snd] in *. rewrite IHa. inversion IHr as [Hm]. reflexivity.
Qed.

Lemma h5_member_enc t t' k : h5_enc_sim t t' ->
  match h5_member k t, h5_member k t' with
  | Ok n, Ok n' => h5_enc_sim n n'
  | Err e, Err e' => e = e'
  | _, _ => False
  end.
Proof.
  intros H. induction H as [e e' s|e e' rows|v| |k0 a b r r' Ha IHa Hr IHr]; try reflexivity.
  cbn [h5_member assoc] in *. destruct (String.eqb k k0); [exact Ha|exact IHr].
Qed.

Theorem read_enc t t' : h5_enc_sim t t' -> read t = read t'.
Proof.
  intros H. unfold read. pose proof (h5_member_enc t t' "node" H) as Hm.
  destruct (h5_member "node" t) as [n|e], (h5_member "node" t') as [n'|e']; try contradiction; cbn [bind].
  - rewrite (hdf2dict_enc _ _ Hm). reflexivity.
  - rewrite Hm. reflexivity.
Qed.

Theorem read_version_enc t t' : h5_enc_sim t t' -> read_version t = read_version t'.
Proof.
  intros H. unfold read_version. pose proof (h5_member_enc t t' "version" H) as Hm.
  destruct (h5_member "version" t) as [n|e], (h5_member "version" t') as [n'|e']; try contradiction; cbn [bind].
  - destruct Hm; reflexivity.
  - rewrite Hm. reflexivity.
Qed.

(* ================================================================================================ *)
(* (1, continued) the file round trip `norm_val` moves a value inside its vsim class                *)
(* ================================================================================================ *)
Definition roundtrip_exception (v : pval) : bool :=
  match v with VBool _ | VFloat _ | VBytes _ | VDict _ => true | _ => false end.

Lemma read_np_asarray_np dt tok i : read_dataset (H5Data (VArr dt [] tok (option_map (fun z => [z]) i))) = VNp dt tok i.
Proof. destruct i; reflexivity. Qed.

Lemma norm_val_seq_cases c l v' : norm_val (mkseq c l) = Ok v' ->
  (exists zs dt tok, ints_view l = Some zs /\ v' = VArr dt [lenZ zs] tok (Some zs)) \/
  (exists rows, ints_view l = None /\ mapM row_strs l = Ok rows /\ v' = rows_val rows).
Proof.
  intros H.
  assert (H' : (do d <- np_asarray (mkseq c l); Ok (read_dataset d)) = Ok v') by (destruct c; exact H). clear H.
  assert (Hnp : np_asarray (mkseq c l) =
    match l with
    | [] => Ok (H5Data (VArr "float64" [0] (-1) (Some [])))
    | _ => match ints_view l with
           | Some zs => if forallb int64_ok zs then Ok (H5Data (VArr "int64" [lenZ zs] (-1) (Some zs))) else Err TypeError
           | None => match mapM row_strs l with Ok rows => Ok (H5Strs "vlen-utf-8" rows) | Err _ => Err TypeError end
           end
    end) by (destruct c; reflexivity).
  rewrite Hnp in H'. clear Hnp.
  destruct l as [|x r].
  - cbn [bind read_dataset] in H'. inversion H'. left. exists [], "float64", (-1). split; reflexivity.
  - remember (x :: r) as l eqn:El. clear El.
    destruct (ints_view l) as [zs|] eqn:Hi.
    + destruct (forallb int64_ok zs); [|discriminate]. cbn [bind read_dataset] in H'. inversion H'.
      left. exists zs, "int64", (-1). split; [reflexivity|]. destruct zs; reflexivity.
    + destruct (mapM row_strs l) as [rows|] eqn:Hm; [|discriminate]. cbn [bind read_dataset] in H'. inversion H'.
      right. exists rows. repeat split; reflexivity.
Qed.

Lemma norm_val_seq c l v' : norm_val (mkseq c l) = Ok v' -> vsim (mkseq c l) v'.
Proof.
  intros H. destruct (norm_val_seq_cases _ _ _ H) as [(zs & dt & tok & Hi & ->)|(rows & Hi & Hm & ->)].
  - apply vs_seq_arr. exact Hi.
  - apply vs_rows; assumption.
Qed.

Theorem norm_val_vsim v v' : norm_val v = Ok v' -> roundtrip_exception v = false -> vsim v v'.
Proof.
  intros H Hex. destruct v; try discriminate.
  - cbn in H. destruct (int64_ok z); [inversion H; apply vs_int_np|].
    destruct ((0 <=? z) && (z <? 18446744073709551616)); [inversion H; apply vs_int_np|discriminate].
  - cbn in H. inversion H. apply vs_refl.
  - destruct sh as [|n sh].
    + rewrite norm_val_array0 in H. inversion H. apply vs_arr0_np.
    + rewrite norm_val_array in H by discriminate. inversion H. apply vs_refl.
  - rewrite norm_val_npscalar in H. inversion H. apply vs_refl.
  - apply (norm_val_seq true). exact H.
  - apply (norm_val_seq false). exact H.
Qed.

(* ---- the exact exceptions ------------------------------------------------------------------------ *)
Definition is_float (v : pval) : bool := match v with VFloat _ => true | _ => false end.
Lemma vsim_is_float a b : vsim a b -> is_float a = is_float b.
Proof.
  intros H. vsim_ind H; try reflexivity; try congruence.
  - destruct c; reflexivity.
  - destruct c, c'; reflexivity.
  - destruct c; reflexivity.
Qed.

(* bool: becomes a numpy bool_ scalar, which the model does not read as an integer (int_view changes) *)
Theorem norm_val_bool b :
  norm_val (VBool b) = Ok (VNp "bool" (-1) None) /\ ~ vsim (VBool b) (VNp "bool" (-1) None) /\
  int_view (VBool b) = Some (if b then 1 else 0) /\ int_view (VNp "bool" (-1) None) = None.
Proof.
  split; [reflexivity|]. split; [|split; reflexivity].
  intros H. apply vsim_int_view in H; [discriminate|reflexivity|reflexivity].
Qed.

(* float: becomes a numpy float64 scalar (content not modelled).  Not vsim (vsim keeps floats apart), yet every
   view except shape_attr gives the same answer: the only observable change is `.shape` (S1 again). *)
Theorem norm_val_float x :
  let a := VFloat x in let b := VNp "float64" (-1) None in
  norm_val a = Ok b /\ ~ vsim a b /\
  int_view a = int_view b /\ seq_view a = seq_view b /\ num_view a = num_view b /\ hp_of a = hp_of b /\
  tyv_of_pval a = tyv_of_pval b /\ pad_is_bad_string a = pad_is_bad_string b /\ pair_if_int a = a /\ pair_if_int b = b /\
  operand_shape a = operand_shape b /\ (forall key, parse_shape a key = parse_shape b key) /\
  shape_attr a = Err AttributeError /\ shape_attr b = Ok [].
Proof.
  cbv zeta. split; [reflexivity|]. split; [intros H; apply vsim_is_float in H; discriminate|].
  repeat split; reflexivity.
Qed.

(* bytes: come back as str; a bytes padding is always rejected, the str it becomes may be accepted *)
Theorem norm_val_bytes s :
  norm_val (VBytes s) = Ok (VStr s) /\ ~ vsim (VBytes s) (VStr s) /\
  pad_is_bad_string (VBytes "same") = true /\ pad_is_bad_string (VStr "same") = false.
Proof.
  split; [reflexivity|]. split; [|split; reflexivity].
  intros H. apply vsim_str_view in H. discriminate.
Qed.

(* None cannot be written at all *)
Lemma norm_val_none : norm_val VNone = Err TypeError.
Proof. reflexivity. Qed.

(* ---- dictionaries: entry by entry, provided no empty "metadata" entry is dropped -------------------- *)
Fixpoint rt_ok (v : pval) : Prop :=
  match v with
  | VBool _ | VFloat _ | VBytes _ => False
  | VDict kv =>
    (fix go (l : list (string * pval)) : Prop :=
       match l with
       | [] => True
       | (k, x) :: r => (k = "metadata" -> x <> VDict []) /\ rt_ok x /\ go r
       end) kv
  | _ => True
  end.

Lemma rt_ok_cons k x r : rt_ok (VDict ((k, x) :: r)) <-> (k = "metadata" -> x <> VDict []) /\ rt_ok x /\ rt_ok (VDict r).
Proof. reflexivity. Qed.

Lemma rt_ok_exception v : rt_ok v -> is_dict v = false -> roundtrip_exception v = false.
Proof. destruct v; cbn; try reflexivity; try contradiction; discriminate. Qed.

Lemma fields_sim_dict kv kv' : fields_sim kv kv' -> vsim (VDict kv) (VDict kv').
Proof.
  intros H. induction H as [|[k a] [k' b] r r' [Hk Hv] Hr IH]; [apply vs_refl|].
  cbn [fst snd] in Hk, Hv. subst k'. apply vs_dict_cons; assumption.
Qed.

Lemma norm_entries_sim_gen kv :
  Forall (fun p => forall v', rt_ok (snd p) -> norm_val (snd p) = Ok v' -> vsim (snd p) v') kv ->
  forall kv', rt_ok (VDict kv) -> norm_entries kv = Ok kv' -> fields_sim kv kv'.
Proof.
  intros IH. induction kv as [|[k x] r IHr]; intros kv' Hok Hn.
  - cbn in Hn. inversion Hn. constructor.
  - apply rt_ok_cons in Hok as (Hmeta & Hx & Hr). inversion IH as [|? ? Px Pr]; subst.
    rewrite norm_entries_cons in Hn. destruct (has_bad_char k); [discriminate|].
    apply bind_ok in Hn as (here & Hhere & Hn). apply bind_ok in Hn as (rest & Hrest & Hn). inversion Hn; subst kv'.
    assert (Hy : exists y, norm_val x = Ok y /\ here = [(k, y)]).
    { destruct (String.eqb k "metadata") eqn:Ek.
      - apply String.eqb_eq in Ek. specialize (Hmeta Ek). destruct x; try discriminate.
        destruct kv as [|e0 kv0]; [congruence|].
        apply bind_ok in Hhere as (y & Hy & Hh). inversion Hh. eauto.
      - destruct (unusable_name k); [discriminate|].
        apply bind_ok in Hhere as (y & Hy & Hh). inversion Hh. eauto. }
    destruct Hy as (y & Hy & ->). cbn [app].
    constructor; [split; [reflexivity|apply Px; assumption]|apply IHr; assumption].
Qed.

Theorem norm_val_vsim_deep v : forall v', rt_ok v -> norm_val v = Ok v' -> vsim v v'.
Proof.
  induction v as [|z|b|b|s|s|dt sh tok ints|dt tok i|l _|l _|kv IH] using pval_ind2; intros v' Hok H;
    try (apply norm_val_vsim; [exact H|reflexivity]); try contradiction.
  rewrite norm_val_dict in H. apply bind_ok in H as (kv' & Hn & H). inversion H; subst v'. clear H.
  apply fields_sim_dict. eapply norm_entries_sim_gen; eassumption.
Qed.

(* a dictionary of fields (without an empty "metadata" entry, which the writer drops, and without bool / float /
   bytes values) is read back with the same keys in the same order and vsim-related values: exactly the
   hypothesis `fields_sim` of post_init_sim *)
Theorem norm_entries_fields_sim kv kv' : rt_ok (VDict kv) -> norm_entries kv = Ok kv' -> fields_sim kv kv'.
Proof.
  intros Hok H. apply norm_entries_sim_gen; [|exact Hok|exact H].
  apply Forall_forall. intros p _ v' Hp Hv. apply norm_val_vsim_deep; assumption.
Qed.

(* ================================================================================================ *)
(* keyword binding respects fields_sim, hence so does the constructor call                          *)
(* ================================================================================================ *)
Lemma fields_sim_keys fs fs' : fields_sim fs fs' -> keys fs = keys fs'.
Proof.
  intros H. induction H as [|p q r r' [Hk _] Hr IH]; [reflexivity|]. unfold keys in *. cbn [map]. rewrite Hk, IH. reflexivity.
Qed.

Lemma bind_fields_sim tbl args args' :
  fields_sim args args' -> res_rel fields_sim (bind_fields tbl args) (bind_fields tbl args').
Proof.
  intros H. induction tbl as [|[f d] r IH]; cbn [bind_fields]; [constructor|].
  pose proof (fields_rel_assoc _ _ _ f H) as Ha.
  assert (Hv : res_rel vsim
            match assoc f args with Some v => Ok v | None =>
              match d with FMandatory => Err TypeError | FDefault v => Ok v | FDictFactory => Ok (VDict []) | FUnknown => Err OtherError end end
            match assoc f args' with Some v => Ok v | None =>
              match d with FMandatory => Err TypeError | FDefault v => Ok v | FDictFactory => Ok (VDict []) | FUnknown => Err OtherError end end).
  { destruct (assoc f args), (assoc f args'); try contradiction; [exact Ha|].
    destruct d; cbn; try exact I; apply vs_refl. }
  destruct (match assoc f args with Some v => Ok v | None => _ end) as [v|],
           (match assoc f args' with Some v => Ok v | None => _ end) as [v'|]; cbn [res_rel bind] in *; try contradiction; [|exact I].
  destruct (bind_fields r args) as [rest|], (bind_fields r args') as [rest'|]; cbn [res_rel bind] in *; try contradiction; [|exact I].
  constructor; [split; [reflexivity|exact Hv]|exact IH].
Qed.

Lemma forallb_keys (P : string -> bool) (fs fs' : list (string * pval)) :
  fields_sim fs fs' -> forallb (fun a => P (fst a)) fs = forallb (fun a => P (fst a)) fs'.
Proof.
  intros H. induction H as [|p q r r' [Hk _] Hr IH]; [reflexivity|]. cbn [forallb]. rewrite Hk, IH. reflexivity.
Qed.

Theorem bind_args_sim k args args' :
  fields_sim args args' -> res_rel fields_sim (bind_args k args) (bind_args k args').
Proof.
  intros H. unfold bind_args. destruct (class_fields k) as [tbl|]; [|exact I].
  rewrite <- (forallb_keys (fun s => mem_str s (keys tbl)) _ _ H).
  destruct (forallb _ args); [apply bind_fields_sim; exact H|exact I].
Qed.

(* the call Cls[keyword arguments] on vsim-related keyword arguments: the side conditions are those of post_init on the bound fields *)
Theorem construct_sim k args args' :
  fields_sim args args' ->
  (forall fs fs', bind_args k args = Ok fs -> bind_args k args' = Ok fs' -> side k fs fs') ->
  res_sim (construct k args) (construct k args').
Proof.
  intros H Hside. unfold construct. pose proof (bind_args_sim k _ _ H) as Hb.
  destruct (bind_args k args) as [fs|], (bind_args k args') as [fs'|]; cbn [res_rel bind] in *; try contradiction; [|exact I].
  apply post_init_sim; [exact Hb|apply Hside; reflexivity].
Qed.

(* ================================================================================================ *)
(* the side conditions in the round-trip direction                                                  *)
(* ================================================================================================ *)
(* what a value read back from a file can be *)
Lemma norm_val_range v v' : norm_val v = Ok v' ->
  match v' with
  | VStr _ | VNp _ _ _ | VDict _ | VList _ => True
  | VArr _ sh _ _ => sh <> []
  | _ => False
  end.
Proof.
  intros H. destruct v.
  - discriminate H.
  - cbn in H. destruct (int64_ok z); [inversion H; exact I|].
    destruct ((0 <=? z) && (z <? 18446744073709551616)); [inversion H; exact I|discriminate].
  - cbn in H. inversion H. exact I.
  - cbn in H. inversion H. exact I.
  - cbn in H. inversion H. exact I.
  - cbn in H. inversion H. exact I.
  - destruct sh as [|n sh].
    + rewrite norm_val_array0 in H. inversion H. exact I.
    + rewrite norm_val_array in H by discriminate. inversion H. discriminate.
  - rewrite norm_val_npscalar in H. inversion H. exact I.
  - destruct (norm_val_seq_cases true _ _ H) as [(zs & dt & tok & _ & ->)|(rows & _ & _ & ->)]; [discriminate|exact I].
  - destruct (norm_val_seq_cases false _ _ H) as [(zs & dt & tok & _ & ->)|(rows & _ & _ & ->)]; [discriminate|exact I].
  - rewrite norm_val_dict in H. apply bind_ok in H as (l' & _ & H). inversion H. exact I.
Qed.

(* S2 always holds on the file side: a value read back is never a 0-d ndarray *)
Theorem norm_val_no0d v v' : norm_val v = Ok v' -> is0d v' = false.
Proof. intros H. apply norm_val_range in H. destruct v'; try reflexivity. destruct sh; [congruence|reflexivity]. Qed.

(* S4 (second alternative) on the file side: a value read back is never a Python int; and a stored Conv2d
   hyper-parameter never is either *)
Theorem norm_val_not_pyint v v' : norm_val v = Ok v' -> is_pyint v' = false.
Proof. intros H. apply norm_val_range in H. destruct v'; try reflexivity; contradiction. Qed.
Lemma pair_if_int_not_pyint v : is_pyint (pair_if_int v) = false.
Proof. destruct v; reflexivity. Qed.

(* S1 from the original to the file side: a value that has a .shape still has one when read back *)
Theorem norm_val_keeps_shape v v' :
  norm_val v = Ok v' -> is_ok (shape_attr v) = true -> is_ok (shape_attr v') = true.
Proof.
  intros H Hs. destruct v; try discriminate Hs.
  - destruct sh as [|n sh].
    + rewrite norm_val_array0 in H. inversion H. reflexivity.
    + rewrite norm_val_array in H by discriminate. inversion H. reflexivity.
  - rewrite norm_val_npscalar in H. inversion H. reflexivity.
Qed.

(* S3 from the original to the file side *)
Theorem norm_val_keeps_operand v v' :
  norm_val v = Ok v' -> is_ok (operand_shape v) = true -> is_ok (operand_shape v') = true.
Proof.
  intros H Hs. destruct v; try discriminate Hs.
  - cbn in H. destruct (int64_ok z); [inversion H; reflexivity|].
    destruct ((0 <=? z) && (z <? 18446744073709551616)); [inversion H; reflexivity|discriminate].
  - cbn in H. inversion H. reflexivity.
  - cbn in H. inversion H. reflexivity.
  - destruct sh as [|n sh].
    + rewrite norm_val_array0 in H. inversion H. reflexivity.
    + rewrite norm_val_array in H by discriminate. inversion H. reflexivity.
  - rewrite norm_val_npscalar in H. inversion H. reflexivity.
Qed.
