(* MirrorClosedProofs.v
   GROUP A (property C12): the graph-level input_type/output_type mirror the Input/Output children,
     after construction, inference (also when it raises), from_list, from_dict and read.
   GROUP B (property C18): deserialisation is closed-world (only the whitelisted primitives can be
     reached through the "type" string) and the keyword binding is strict.
   Facts about Gen/Tables.v (GENERATED) are proved by computation only, so they are re-checked
   whenever the table changes. *)
From NIR Require Import Model.Graph Model.Serial.
From Coq Require Import Lia List Bool String.

(* ---- small generic helpers -------------------------------------------------------------------- *)
Lemma mem_str_In s l : mem_str s l = true <-> In s l.
Proof.
  induction l as [|x r IH]; cbn [mem_str In].
  - split; [discriminate|intros []].
  - rewrite orb_true_iff, IH, String.eqb_eq. split; intros [H|H]; timeout 20 auto.
Qed.

Lemma assoc_In {A} k (l : list (string * A)) v : assoc k l = Some v -> In (k, v) l.
Proof.
  induction l as [|[k' v'] r IH]; cbn [assoc In]; [discriminate|].
  destruct (String.eqb k k') eqn:E.
  - apply String.eqb_eq in E. intros H. inversion H. subst. left. reflexivity.
  - intros H. right. apply IH. exact H.
Qed.

(* ================================================================================================ *)
(* GROUP A                                                                                          *)
(* ================================================================================================ *)
Definition mirrors (g : node) : Prop :=
  match g with
  | Graph ch _ gi go _ => gi = graph_tin ch /\ go = graph_tout ch
  | Leaf _ _ _ _ => True
  end.

Fixpoint mirrors_deep (g : node) : Prop :=
  match g with
  | Leaf _ _ _ _ => True
  | Graph ch _ gi go _ =>
    (gi = graph_tin ch /\ go = graph_tout ch) /\
    (fix all (l : list (string * node)) : Prop :=
       match l with [] => True | p :: r => mirrors_deep (snd p) /\ all r end) ch
  end.

Lemma mirrors_deep_graph ch es gi go m :
  mirrors_deep (Graph ch es gi go m) <->
  mirrors (Graph ch es gi go m) /\ Forall (fun p => mirrors_deep (snd p)) ch.
Proof.
  cbn [mirrors_deep mirrors].
  assert (forall l : list (string * node),
     (fix all (l : list (string * node)) : Prop :=
        match l with [] => True | p :: r => mirrors_deep (snd p) /\ all r end) l
     <-> Forall (fun p => mirrors_deep (snd p)) l) as Hall.
  { induction l as [|p r IH].
    - split; [constructor|trivial].
    - split.
      + intros [H1 H2]. constructor; [exact H1|apply IH; exact H2].
      + intros H. inversion H as [|? ? H1 H2]. split; [exact H1|apply IH; exact H2]. }
  rewrite Hall. reflexivity.
Qed.

Lemma mirrors_deep_leaf k fs ti to : mirrors_deep (Leaf k fs ti to).
Proof. exact I. Qed.

Lemma mirrors_deep_mirrors g : mirrors_deep g -> mirrors g.
Proof.
  destruct g as [k fs ti to|ch es gi go m]; [intros _; exact I|].
  rewrite mirrors_deep_graph. intros [H _]. exact H.
Qed.

(* (A1) *)
Theorem mk_graph_mirrors : forall ch es m, mirrors (mk_graph ch es m).
Proof. intros ch es m. unfold mk_graph. cbn [mirrors]. split; reflexivity. Qed.

Lemma mk_graph_mirrors_deep ch es m :
  Forall (fun p => mirrors_deep (snd p)) ch -> mirrors_deep (mk_graph ch es m).
Proof.
  intros H. unfold mk_graph. apply mirrors_deep_graph. split; [|exact H].
  apply (mk_graph_mirrors ch es m).
Qed.

(* (A2) *)
Theorem inputs_are_input_children : forall ch, inputs ch = filter (fun p => is_input (snd p)) ch.
Proof. reflexivity. Qed.

Theorem outputs_are_output_children : forall ch, outputs ch = filter (fun p => is_output (snd p)) ch.
Proof. reflexivity. Qed.

Theorem graph_tin_spec : forall ch,
  graph_tin ch = match inputs ch with
                 | [] => None
                 | l => Some (map (fun p => (fst p, node_tin (snd p))) l)
                 end.
Proof. reflexivity. Qed.

Theorem graph_tout_spec : forall ch,
  graph_tout ch = Some (map (fun p => (fst p, node_tout (snd p))) (outputs ch)).
Proof. reflexivity. Qed.

(* the entries of the graph-level types are exactly the Input (Output) children, by name, with
   the child's current type *)
Theorem graph_tin_entries : forall ch l name t,
  graph_tin ch = Some l ->
  (In (name, t) l <-> exists n, In (name, n) ch /\ is_input n = true /\ t = node_tin n).
Proof.
  intros ch l name t H. unfold graph_tin in H.
  assert (l = map (fun p => (fst p, node_tin (snd p))) (inputs ch)) as ->.
  { destruct (inputs ch) as [|p r]; [discriminate|]. inversion H. reflexivity. }
  clear H. rewrite in_map_iff. unfold inputs. split.
  - intros [[nm n] [Heq Hin]]. cbn [fst snd] in Heq. inversion Heq. subst.
    apply filter_In in Hin. cbn [snd] in Hin. destruct Hin as [Hin Hi].
    exists n. repeat split; assumption.
  - intros [n [Hin [Hi ->]]]. exists (name, n). split; [reflexivity|].
    apply filter_In. split; assumption.
Qed.

Theorem graph_tin_none : forall ch,
  graph_tin ch = None <-> (forall p, In p ch -> is_input (snd p) = false).
Proof.
  intros ch. unfold graph_tin, inputs. split.
  - destruct (filter (fun p => is_input (snd p)) ch) as [|q r] eqn:E; [|discriminate].
    intros _ p Hin. destruct (is_input (snd p)) eqn:Hi; [|reflexivity].
    assert (In p (filter (fun p => is_input (snd p)) ch)) as Hf by (apply filter_In; split; assumption).
    rewrite E in Hf. destruct Hf.
  - intros H. destruct (filter (fun p => is_input (snd p)) ch) as [|q r] eqn:E; [reflexivity|].
    assert (In q (filter (fun p => is_input (snd p)) ch)) as Hf by (rewrite E; left; reflexivity).
    apply filter_In in Hf. destruct Hf as [Hin Hi]. rewrite (H q Hin) in Hi. discriminate.
Qed.

Theorem graph_tout_entries : forall ch l name t,
  graph_tout ch = Some l ->
  (In (name, t) l <-> exists n, In (name, n) ch /\ is_output n = true /\ t = node_tout n).
Proof.
  intros ch l name t H. unfold graph_tout in H. inversion H. subst l. clear H.
  rewrite in_map_iff. unfold outputs. split.
  - intros [[nm n] [Heq Hin]]. cbn [fst snd] in Heq. inversion Heq. subst.
    apply filter_In in Hin. cbn [snd] in Hin. destruct Hin as [Hin Hi].
    exists n. repeat split; assumption.
  - intros [n [Hin [Hi ->]]]. exists (name, n). split; [reflexivity|].
    apply filter_In. split; assumption.
Qed.

(* (A3) *)
Lemma assoc_assoc_set {A} k k' (v : A) l :
  assoc k (assoc_set k' v l) = if String.eqb k k' then Some v else assoc k l.
Proof.
  induction l as [|[k2 v2] r IH]; cbn [assoc_set assoc].
  - destruct (String.eqb k k'); reflexivity.
  - destruct (String.eqb k' k2) eqn:E2; cbn [assoc].
    + apply String.eqb_eq in E2. subst k2. destruct (String.eqb k k'); reflexivity.
    + destruct (String.eqb k k2) eqn:E3.
      * apply String.eqb_eq in E3. subst k2.
        rewrite String.eqb_sym in E2. rewrite E2. reflexivity.
      * exact IH.
Qed.

Lemma assoc_set_Forall {A} (P : string * A -> Prop) k v l :
  Forall P l -> (forall k0, P (k0, v)) -> Forall P (assoc_set k v l).
Proof.
  intros Hl Hv. induction Hl as [|[k2 v2] r H1 H2 IH]; cbn [assoc_set].
  - constructor; [apply Hv|constructor].
  - destruct (String.eqb k k2); constructor; timeout 20 auto.
Qed.

(* the loop body never builds or alters a graph: the target is returned unchanged, or both the
   old and the new target are leaves *)
Lemma apply_edge_cases pre post post' ex :
  apply_edge pre post = (post', ex) ->
  post' = post \/ (is_graph post' = false /\ is_graph post = false).
Proof.
  unfold apply_edge.
  destruct pre as [pk pfs pti pto|]; destruct post as [k fs tin tout|];
    try (intros H; inversion H; left; reflexivity).
  destruct tin as [i|]; [|intros H; inversion H; left; reflexivity].
  destruct pto as [o|]; [|intros H; inversion H; left; reflexivity].
  destruct (values_equal o i) as [eq|e]; [|intros H; inversion H; left; reflexivity].
  match goal with |- (if ?c then _ else _) = _ -> _ => destruct c end.
  - match goal with |- context [derive_output ?a ?b ?c ?d] =>
      destruct (derive_output a b c d) as [[fs' r] ex'] end.
    intros H. inversion H. right. split; reflexivity.
  - intros H. inversion H. right. split; reflexivity.
Qed.

Section RunPreserves.
  Variable P : node -> Prop.
  Hypothesis P_leaf : forall n, is_graph n = false -> P n.

  Lemma run_preserves_Forall fuel es : forall st st' oc,
    run fuel es st = (st', oc) ->
    Forall (fun p => P (snd p)) (st_ch st) -> Forall (fun p => P (snd p)) (st_ch st').
  Proof.
    induction fuel as [|f IH]; intros st st' oc; cbn [run].
    - intros H. inversion H. subst. trivial.
    - destruct (pop_last (st_ready st)) as [[rest [pre_k post_k]]|].
      2:{ intros H. inversion H. subst. trivial. }
      destruct (lookup_child pre_k (st_ch st)) as [pre|e1] eqn:Hpre.
      2:{ intros H. inversion H. subst. cbn [st_ch]. trivial. }
      destruct (lookup_child post_k (st_ch st)) as [post|e2] eqn:Hpost.
      2:{ intros H. inversion H. subst. cbn [st_ch]. trivial. }
      destruct (apply_edge pre post) as [post' ex] eqn:Hae.
      intros H HF.
      assert (Forall (fun p => P (snd p)) (set_child post_k post' (st_ch st))) as HF'.
      { unfold set_child. apply assoc_set_Forall; [exact HF|]. intros k0. cbn [snd].
        apply apply_edge_cases in Hae. destruct Hae as [->|[Hg _]].
        - unfold lookup_child in Hpost. destruct (assoc post_k (st_ch st)) as [n|] eqn:Ha; [|discriminate].
          inversion Hpost. subst n. apply assoc_In in Ha.
          rewrite Forall_forall in HF. apply (HF (post_k, post) Ha).
        - apply P_leaf. exact Hg. }
      destruct ex as [e|].
      + inversion H. subst. cbn [st_ch]. exact HF'.
      + apply IH in H; [exact H|]. cbn [st_ch]. exact HF'.
  Qed.
End RunPreserves.

(* nested graphs are not modified by inference: a name is bound to a given Graph child afterwards
   iff it was bound to that same child before *)
Lemma run_graph_children_unchanged fuel es : forall st st' oc,
  run fuel es st = (st', oc) ->
  forall k c, is_graph c = true -> (assoc k (st_ch st') = Some c <-> assoc k (st_ch st) = Some c).
Proof.
  induction fuel as [|f IH]; intros st st' oc; cbn [run].
  - intros H. inversion H. subst. intros. reflexivity.
  - destruct (pop_last (st_ready st)) as [[rest [pre_k post_k]]|].
    2:{ intros H. inversion H. subst. intros. reflexivity. }
    destruct (lookup_child pre_k (st_ch st)) as [pre|e1] eqn:Hpre.
    2:{ intros H. inversion H. subst. cbn [st_ch]. intros. reflexivity. }
    destruct (lookup_child post_k (st_ch st)) as [post|e2] eqn:Hpost.
    2:{ intros H. inversion H. subst. cbn [st_ch]. intros. reflexivity. }
    destruct (apply_edge pre post) as [post' ex] eqn:Hae.
    intros H k c Hc.
    assert (assoc k (set_child post_k post' (st_ch st)) = Some c <-> assoc k (st_ch st) = Some c) as Hstep.
    { unfold set_child. rewrite assoc_assoc_set. destruct (String.eqb k post_k) eqn:E; [|reflexivity].
      apply String.eqb_eq in E. subst k.
      unfold lookup_child in Hpost. destruct (assoc post_k (st_ch st)) as [n|] eqn:Ha; [|discriminate].
      inversion Hpost. subst n.
      apply apply_edge_cases in Hae. destruct Hae as [->|[Hg1 Hg2]]; [reflexivity|].
      split; intros Heq; inversion Heq; subst c; congruence. }
    destruct ex as [e|].
    + inversion H. subst. cbn [st_ch]. exact Hstep.
    + apply IH with (k := k) (c := c) in H; [|exact Hc]. cbn [st_ch] in H.
      rewrite H. exact Hstep.
Qed.

Lemma infer_types_shape g g' oc :
  infer_types g = (g', oc) ->
  g' = g \/ exists ch es gi go m st oc',
      g = Graph ch es gi go m /\ run (infer_fuel ch es) es (init_state ch es) = (st, oc') /\
      g' = mk_graph (st_ch st) es m.
Proof.
  unfold infer_types. destruct g as [k fs ti to|ch es gi go m].
  - intros H. inversion H. left. reflexivity.
  - destruct (negb (gty_undef gi)).
    + destruct (run (infer_fuel ch es) es (init_state ch es)) as [st oc'] eqn:Hr.
      intros H. inversion H. right. exists ch, es, gi, go, m, st, oc'. repeat split. exact Hr.
    + destruct (negb (gty_undef go)); intros H; inversion H; left; reflexivity.
Qed.

Theorem infer_types_mirrors : forall g g' oc, infer_types g = (g', oc) -> mirrors g -> mirrors g'.
Proof.
  intros g g' oc H Hm. apply infer_types_shape in H.
  destruct H as [->|(ch & es & gi & go & m & st & oc' & -> & Hr & ->)]; [exact Hm|].
  apply mk_graph_mirrors.
Qed.

Theorem infer_types_mirrors_deep : forall g g' oc,
  infer_types g = (g', oc) -> mirrors_deep g -> mirrors_deep g'.
Proof.
  intros g g' oc H Hm. apply infer_types_shape in H.
  destruct H as [->|(ch & es & gi & go & m & st & oc' & -> & Hr & ->)]; [exact Hm|].
  apply mk_graph_mirrors_deep. apply mirrors_deep_graph in Hm. destruct Hm as [_ HF].
  eapply run_preserves_Forall in Hr.
  - exact Hr.
  - intros n Hn. destruct n; [exact I|discriminate].
  - cbn [init_state st_ch]. exact HF.
Qed.

(* every child of the result that is a Graph is identical to the corresponding child before *)
Theorem infer_types_nested_unchanged : forall ch es gi go m ch' es' gi' go' m' oc,
  infer_types (Graph ch es gi go m) = (Graph ch' es' gi' go' m', oc) ->
  forall k c, is_graph c = true -> (assoc k ch' = Some c <-> assoc k ch = Some c).
Proof.
  intros ch es gi go m ch' es' gi' go' m' oc H k c Hc. apply infer_types_shape in H.
  destruct H as [H|(ch0 & es0 & gi0 & go0 & m0 & st & oc' & Hg & Hr & Hg')].
  - inversion H. reflexivity.
  - inversion Hg. subst ch0 es0 gi0 go0 m0. unfold mk_graph in Hg'. inversion Hg'. subst.
    apply (run_graph_children_unchanged _ _ _ _ _ Hr k c Hc).
Qed.

(* (A4) *)
Lemma from_list_shape ns g :
  from_list ns = Ok g -> exists ch es m, g = mk_graph ch es m.
Proof.
  unfold from_list. destruct ns as [|first rest]; [discriminate|].
  destruct (if is_input first then Ok [] else do i <- input_of_ty (child_tin first); Ok [("input", i)])
    as [pre|e]; cbn [bind]; [|discriminate].
  match goal with |- bind ?r _ = _ -> _ => destruct r as [d2|e] end; cbn [bind]; [|discriminate].
  intros H. inversion H. timeout 20 eauto.
Qed.

Theorem from_list_mirrors : forall ns g, from_list ns = Ok g -> mirrors g.
Proof.
  intros ns g H. apply from_list_shape in H. destruct H as (ch & es & m & ->). apply mk_graph_mirrors.
Qed.

Lemma input_of_ty_leaf t n : input_of_ty t = Ok n -> is_graph n = false.
Proof.
  unfold input_of_ty. destruct t as [d|].
  - destruct (assoc "input" d); [|discriminate]. intros H. inversion H. reflexivity.
  - intros H. inversion H. reflexivity.
Qed.

Lemma output_of_ty_leaf t n : output_of_ty t = Ok n -> is_graph n = false.
Proof.
  unfold output_of_ty. destruct t as [d|].
  - destruct (assoc "output" d); [|discriminate]. intros H. inversion H. reflexivity.
  - intros H. inversion H. reflexivity.
Qed.

Lemma name_nodes_Forall (P : node -> Prop) ns : forall earlier,
  Forall P ns -> Forall (fun p => P (snd p)) (name_nodes ns earlier).
Proof.
  induction ns as [|n r IH]; intros earlier H; cbn [name_nodes]; [constructor|].
  inversion H as [|? ? H1 H2]. constructor; [exact H1|apply IH; exact H2].
Qed.

Lemma fold_assoc_set_Forall (P : node -> Prop) (l : list (string * node)) : forall d,
  Forall (fun p => P (snd p)) l -> Forall (fun p => P (snd p)) d ->
  Forall (fun p => P (snd p)) (fold_left (fun d kn => assoc_set (fst kn) (snd kn) d) l d).
Proof.
  induction l as [|[k n] r IH]; intros d Hl Hd; cbn [fold_left]; [exact Hd|].
  inversion Hl as [|? ? H1 H2]. apply IH; [exact H2|].
  apply assoc_set_Forall; [exact Hd|]. intros k0. exact H1.
Qed.

(* deep version: from_list adds only leaves (an Input and/or an Output) to the given nodes *)
Theorem from_list_mirrors_deep : forall ns g,
  Forall mirrors_deep ns -> from_list ns = Ok g -> mirrors_deep g.
Proof.
  intros ns g HF. unfold from_list. destruct ns as [|first rest]; [discriminate|].
  destruct (if is_input first then Ok [] else do i <- input_of_ty (child_tin first); Ok [("input", i)])
    as [pre|e] eqn:Hpre; cbn [bind]; [|discriminate].
  assert (Forall (fun p => mirrors_deep (snd p)) pre) as Hp.
  { destruct (is_input first).
    - inversion Hpre. constructor.
    - destruct (input_of_ty (child_tin first)) as [i|] eqn:Hi; cbn [bind] in Hpre; [|discriminate].
      inversion Hpre. constructor; [|constructor]. cbn [snd].
      apply input_of_ty_leaf in Hi. destruct i; [exact I|discriminate]. }
  set (d1 := fold_left (fun d kn => assoc_set (fst kn) (snd kn) d) (name_nodes (first :: rest) []) pre).
  assert (Forall (fun p => mirrors_deep (snd p)) d1) as Hd1.
  { apply fold_assoc_set_Forall; [|exact Hp]. apply name_nodes_Forall. exact HF. }
  destruct (if is_output (last (first :: rest) first) then Ok d1
            else do o <- output_of_ty (child_tout (last (first :: rest) first)); Ok (assoc_set "output" o d1))
    as [d2|e] eqn:Hd2; cbn [bind]; [|discriminate].
  intros H. inversion H. apply mk_graph_mirrors_deep.
  destruct (is_output (last (first :: rest) first)).
  - inversion Hd2. subst d2. exact Hd1.
  - destruct (output_of_ty (child_tout (last (first :: rest) first))) as [o|] eqn:Ho;
      cbn [bind] in Hd2; [|discriminate].
    inversion Hd2. apply assoc_set_Forall; [exact Hd1|]. intros k0. cbn [snd].
    apply output_of_ty_leaf in Ho. destruct o; [exact I|discriminate].
Qed.

(* ================================================================================================ *)
(* GROUP B                                                                                          *)
(* ================================================================================================ *)

(* walk through a successful monadic computation, one scrutinee at a time *)
Ltac ok_step H :=
  match type of H with
  | Ok _ = Ok _ => inversion H; subst; clear H
  | Err _ = Ok _ => discriminate H
  | bind ?r _ = Ok _ => let E := fresh "E" in destruct r eqn:E; cbn [bind] in H
  | (if ?c then _ else _) = Ok _ => let E := fresh "E" in destruct c eqn:E
  | (match ?x with _ => _ end) = Ok _ => let E := fresh "E" in destruct x eqn:E
  end.
Ltac ok_walk H := repeat ok_step H.

(* ---- post_init preserves the kind and builds a leaf ------------------------------------------- *)
Lemma elementwise_leaf k fs names n :
  elementwise k fs names = Ok n -> exists f ti to, n = Leaf k f ti to.
Proof. unfold elementwise. intros H. ok_walk H. timeout 20 eauto. Qed.

Lemma matvec_leaf k fs n : matvec k fs = Ok n -> exists f ti to, n = Leaf k f ti to.
Proof. unfold matvec. intros H. ok_walk H. timeout 20 eauto. Qed.

Lemma post_init_leaf k fs n : post_init k fs = Ok n -> exists f ti to, n = Leaf k f ti to.
Proof.
  intros H. destruct k; unfold post_init in H; cbv beta iota zeta in H;
    try (apply elementwise_leaf in H; exact H);
    try (apply matvec_leaf in H; exact H);
    try (ok_walk H; timeout 20 eauto; fail).
  (* CubaLIF *)
  ok_walk H.
  match goal with E : elementwise _ _ _ = Ok _ |- _ => apply elementwise_leaf in E;
    destruct E as (f0 & ti0 & to0 & E); inversion E; subst end.
  timeout 20 eauto.
Qed.

Lemma construct_leaf k args n : construct k args = Ok n -> exists f ti to, n = Leaf k f ti to.
Proof.
  unfold construct. destruct (bind_args k args) as [fs|e]; cbn [bind]; [|discriminate].
  apply post_init_leaf.
Qed.

Theorem construct_kind : forall k args n, construct k args = Ok n -> node_kind n = k.
Proof.
  intros k args n H. apply construct_leaf in H. destruct H as (f & ti & to & ->). reflexivity.
Qed.

Theorem post_init_kind : forall k fs n, post_init k fs = Ok n -> node_kind n = k.
Proof.
  intros k fs n H. apply post_init_leaf in H. destruct H as (f & ti & to & ->). reflexivity.
Qed.

Theorem construct_never_graph : forall k args n, construct k args = Ok n -> is_graph n = false.
Proof.
  intros k args n H. apply construct_leaf in H. destruct H as (f & ti & to & ->). reflexivity.
Qed.

(* ---- (B1) the whitelist, by computation on the generated table --------------------------------- *)
Fixpoint nodupb (l : list string) : bool :=
  match l with [] => true | x :: r => negb (mem_str x r) && nodupb r end.

Lemma nodupb_NoDup l : nodupb l = true -> NoDup l.
Proof.
  induction l as [|x r IH]; cbn [nodupb]; [constructor|].
  rewrite andb_true_iff, negb_true_iff. intros [H1 H2]. constructor; [|apply IH; exact H2].
  intros Hin. apply mem_str_In in Hin. congruence.
Qed.

Definition binding_ok (p : string * string) : bool :=
  String.eqb (fst p) (snd p) && match kind_of_name (snd p) with Some _ => true | None => false end.

Lemma whitelist_binding_ok : forallb binding_ok whitelist_binding = true.
Proof. vm_compute. reflexivity. Qed.

Theorem whitelist_is_the_18_primitives :
  Forall (fun p => fst p = snd p /\ kind_of_name (snd p) <> None) whitelist_binding /\
  map fst whitelist_binding = whitelist /\
  List.length whitelist = 18%nat /\
  NoDup whitelist.
Proof.
  split; [|split; [|split]].
  - apply Forall_forall. intros p Hin.
    pose proof whitelist_binding_ok as H. rewrite forallb_forall in H. specialize (H p Hin).
    unfold binding_ok in H. apply andb_true_iff in H. destruct H as [H1 H2].
    apply String.eqb_eq in H1. split; [exact H1|].
    destruct (kind_of_name (snd p)); [discriminate|discriminate].
  - vm_compute. reflexivity.
  - vm_compute. reflexivity.
  - apply nodupb_NoDup. vm_compute. reflexivity.
Qed.

Lemma kind_of_name_sound s k : kind_of_name s = Some k -> kind_name k = s.
Proof.
  unfold kind_of_name. intros H. apply find_some in H. destruct H as [_ H].
  apply String.eqb_eq. exact H.
Qed.

Lemma all_kinds_whitelisted : forallb (fun k => mem_str (kind_name k) whitelist) all_kinds = true.
Proof. vm_compute. reflexivity. Qed.

Lemma all_kinds_complete k : In k all_kinds.
Proof. destruct k; unfold all_kinds; cbn [In]; timeout 20 tauto. Qed.

(* the whitelist is exactly the set of names of the 18 modelled primitives *)
Theorem whitelist_exact : forall s, In s whitelist <-> exists k, kind_name k = s.
Proof.
  intros s. split.
  - intros Hin. destruct whitelist_is_the_18_primitives as (HF & Hm & _ & _).
    rewrite <- Hm in Hin. apply in_map_iff in Hin. destruct Hin as [p [Hp Hin]].
    rewrite Forall_forall in HF. destruct (HF p Hin) as [Heq Hk].
    destruct (kind_of_name (snd p)) as [k|] eqn:E; [|congruence].
    exists k. apply kind_of_name_sound in E. congruence.
  - intros [k <-]. pose proof all_kinds_whitelisted as H. rewrite forallb_forall in H.
    apply mem_str_In. apply H. apply all_kinds_complete.
Qed.

(* names that exist in the nir / nir.ir namespaces but are not primitives cannot be reached *)
Lemma non_primitives_not_whitelisted :
  forallb (fun s => negb (mem_str s whitelist))
          ["NIRNode"; "dict2NIRNode"; "str2NIRNode"; "read"; "write"; "typing"; "__builtins__";
           "eval"; "exec"; "open"; "__import__"; "Any"; "Dict"; "PackageNotFoundError"] = true.
Proof. vm_compute. reflexivity. Qed.

(* ---- (B2) ---------------------------------------------------------------------------------------- *)
Theorem str2kind_closed : forall s k, str2kind s = Ok k -> In s whitelist /\ kind_name k = s.
Proof.
  intros s k. unfold str2kind.
  destruct (mem_str s whitelist) eqn:Hm; [|discriminate].
  destruct (assoc s whitelist_binding) as [cname|] eqn:Ha; [|discriminate].
  destruct (kind_of_name cname) as [k'|] eqn:Hk; [|discriminate].
  intros H. inversion H. subst k'. split; [apply mem_str_In; exact Hm|].
  apply kind_of_name_sound in Hk. apply assoc_In in Ha.
  destruct whitelist_is_the_18_primitives as (HF & _). rewrite Forall_forall in HF.
  destruct (HF _ Ha) as [Heq _]. cbn [fst snd] in Heq. congruence.
Qed.

Theorem str2kind_rejects_unlisted : forall s, ~ In s whitelist -> str2kind s = Err AssertionError.
Proof.
  intros s Hn. unfold str2kind. destruct (mem_str s whitelist) eqn:Hm; [|reflexivity].
  apply mem_str_In in Hm. contradiction.
Qed.

(* ---- (B3) ---------------------------------------------------------------------------------------- *)
Lemma dict2node_kind fuel d n :
  dict2node fuel d = Ok n ->
  exists s k, assoc "type" d = Some (VStr s) /\ str2kind s = Ok k /\ node_kind n = k.
Proof.
  destruct fuel as [|f]; [discriminate|]. cbn [dict2node].
  destruct (assoc "type" d) as [tv|]; [|discriminate].
  destruct tv as [| | | |s| | | | | |]; cbn [bind]; try discriminate.
  destruct (str2kind s) as [k|e] eqn:Hk; cbn [bind]; [|discriminate].
  intros H. exists s, k. split; [reflexivity|]. split; [exact Hk|].
  clear Hk.
  destruct k; ok_walk H; try (apply construct_kind in H; exact H); reflexivity.
Qed.

Theorem dict2node_closed : forall fuel d n, dict2node fuel d = Ok n ->
  exists s, assoc "type" d = Some (VStr s) /\ In s whitelist /\ kind_name (node_kind n) = s.
Proof.
  intros fuel d n H. apply dict2node_kind in H. destruct H as (s & k & Ht & Hk & Hn).
  apply str2kind_closed in Hk. destruct Hk as [Hin Hname].
  exists s. subst k. repeat split; assumption.
Qed.

(* a type tag that is not a str (in particular bytes) is rejected *)
Theorem dict2node_type_must_be_str : forall fuel d tv,
  assoc "type" d = Some tv -> (forall s, tv <> VStr s) -> exists e, dict2node fuel d = Err e.
Proof.
  intros fuel d tv Ht Hns. destruct fuel as [|f]; [eexists; reflexivity|].
  cbn [dict2node]. rewrite Ht.
  destruct tv; try (eexists; reflexivity). exfalso. eapply Hns. reflexivity.
Qed.

Theorem dict2node_rejects_bytes_tag : forall fuel d s,
  assoc "type" d = Some (VBytes s) -> exists e, dict2node fuel d = Err e.
Proof.
  intros fuel d s Ht. apply (dict2node_type_must_be_str fuel d (VBytes s) Ht). intros s0. discriminate.
Qed.

Theorem dict2node_rejects_unlisted : forall fuel d s,
  assoc "type" d = Some (VStr s) -> ~ In s whitelist -> exists e, dict2node fuel d = Err e.
Proof.
  intros fuel d s Ht Hn. destruct fuel as [|f]; [eexists; reflexivity|].
  cbn [dict2node]. rewrite Ht. cbn [bind]. rewrite (str2kind_rejects_unlisted s Hn). cbn [bind].
  eexists. reflexivity.
Qed.

Theorem from_dict_closed : forall d n, from_dict d = Ok n ->
  exists s, assoc "type" d = Some (VStr s) /\ In s whitelist /\ kind_name (node_kind n) = s.
Proof. intros d n. unfold from_dict. apply dict2node_closed. Qed.

(* ---- (B4) strict keyword binding -------------------------------------------------------------------- *)
Theorem bind_args_unknown_key : forall k args fs f v,
  class_fields k = Some fs -> In (f, v) args -> ~ In f (keys fs) -> bind_args k args = Err TypeError.
Proof.
  intros k args fs f v Hc Hin Hn. unfold bind_args. rewrite Hc.
  destruct (forallb (fun a => mem_str (fst a) (keys fs)) args) eqn:E; [|reflexivity].
  rewrite forallb_forall in E. specialize (E (f, v) Hin). cbn [fst] in E.
  apply mem_str_In in E. contradiction.
Qed.

Lemma bind_fields_missing_mandatory fs : forall args f,
  In (f, FMandatory) fs -> assoc f args = None -> exists e, bind_fields fs args = Err e.
Proof.
  induction fs as [|[f0 d0] r IH]; intros args f Hin Ha; [destruct Hin|].
  cbn [bind_fields]. destruct Hin as [Heq|Hin].
  - inversion Heq. subst f0 d0. rewrite Ha. cbn [bind]. eexists. reflexivity.
  - match goal with |- exists e, bind ?x _ = _ => destruct x as [v0|e0] end; cbn [bind];
      [|eexists; reflexivity].
    destruct (IH args f Hin Ha) as [e He]. rewrite He. cbn [bind]. eexists. reflexivity.
Qed.

Theorem bind_args_missing_mandatory : forall k args fs f,
  class_fields k = Some fs -> In (f, FMandatory) fs -> assoc f args = None ->
  exists e, bind_args k args = Err e.
Proof.
  intros k args fs f Hc Hin Ha. unfold bind_args. rewrite Hc.
  destruct (forallb (fun a => mem_str (fst a) (keys fs)) args); [|eexists; reflexivity].
  apply (bind_fields_missing_mandatory fs args f Hin Ha).
Qed.

Theorem construct_unknown_key : forall k args fs f v,
  class_fields k = Some fs -> In (f, v) args -> ~ In f (keys fs) -> construct k args = Err TypeError.
Proof.
  intros k args fs f v Hc Hin Hn. unfold construct.
  rewrite (bind_args_unknown_key k args fs f v Hc Hin Hn). reflexivity.
Qed.

Theorem construct_missing_mandatory : forall k args fs f,
  class_fields k = Some fs -> In (f, FMandatory) fs -> assoc f args = None ->
  exists e, construct k args = Err e.
Proof.
  intros k args fs f Hc Hin Ha. unfold construct.
  destruct (bind_args_missing_mandatory k args fs f Hc Hin Ha) as [e He]. rewrite He.
  cbn [bind]. eexists. reflexivity.
Qed.

(* every modelled kind has a field table (computation on the generated table), so the premise
   `class_fields k = Some fs` of the theorems above is never vacuous *)
Lemma class_fields_total : forall k, class_fields k <> None.
Proof. intros k. destruct k; vm_compute; discriminate. Qed.

(* ================================================================================================ *)
(* GROUP A, continued: (A5) from_dict / read, (A6) compositions                                     *)
(* ================================================================================================ *)
Lemma children_go_Forall (P : node -> Prop) (F : list (string * pval) -> result node) :
  (forall cd c, F cd = Ok c -> P c) ->
  forall l ch,
    (fix go (l : list (string * pval)) : result (list (string * node)) :=
       match l with
       | [] => Ok []
       | (name, v) :: r =>
         do c <- (match v with VDict cd => F cd | _ => Err TypeError end);
         do rest <- go r; Ok ((name, c) :: rest)
       end) l = Ok ch ->
    Forall (fun p => P (snd p)) ch.
Proof.
  intros HF. induction l as [|[name v] r IH]; intros ch H.
  - inversion H. constructor.
  - destruct v; cbn [bind] in H; try discriminate.
    destruct (F kv) as [c|e] eqn:Hc; cbn [bind] in H; [|discriminate].
    match type of H with bind ?x _ = _ => destruct x as [rest|e] eqn:Hr end; cbn [bind] in H; [|discriminate].
    inversion H. constructor; [cbn [snd]; eapply HF; exact Hc|]. apply IH. reflexivity.
Qed.

Theorem from_dict_mirrors_deep : forall fuel d g, dict2node fuel d = Ok g -> mirrors_deep g.
Proof.
  induction fuel as [|f IH]; intros d g; [discriminate|]. cbn [dict2node].
  destruct (assoc "type" d) as [tv|]; [|discriminate].
  destruct tv as [| | | |s| | | | | |]; cbn [bind]; try discriminate.
  destruct (str2kind s) as [k|e]; cbn [bind]; [|discriminate].
  intros H.
  assert (forall k0 args, construct k0 args = Ok g -> mirrors_deep g) as Hleaf.
  { intros k0 args Hc. apply construct_leaf in Hc. destruct Hc as (f0 & ti & to & ->). exact I. }
  destruct k; try (ok_walk H; eapply Hleaf; exact H; fail).
  (* KGraph *)
  destruct (match assoc "nodes" d with
            | Some (VDict l) => Ok l | Some _ => Err AttributeError | None => Err KeyError end)
    as [nodesv|e]; cbn [bind] in H; [|discriminate].
  match type of H with bind ?x _ = _ => destruct x as [ch|e] eqn:Hch end; cbn [bind] in H; [|discriminate].
  apply (children_go_Forall mirrors_deep (dict2node f) (IH)) in Hch.
  ok_walk H. apply mk_graph_mirrors_deep. exact Hch.
Qed.

Theorem from_dict_mirrors_deep' : forall d g, from_dict d = Ok g -> mirrors_deep g.
Proof. intros d g. unfold from_dict. apply from_dict_mirrors_deep. Qed.

Theorem read_mirrors_deep : forall t g, read t = Ok g -> mirrors_deep g.
Proof.
  intros t g. unfold read. destruct (h5_member "node" t) as [n|e]; cbn [bind]; [|discriminate].
  destruct (hdf2dict n); try discriminate. apply from_dict_mirrors_deep'.
Qed.

(* (A6) *)
Inductive op := OInfer | ODict | OFile.

Definition apply_op (o : op) (g : node) : result node :=
  match o with
  | OInfer => Ok (fst (infer_types g))
  | ODict => from_dict (to_dict g)
  | OFile => do t <- write g; read t
  end.

Fixpoint apply_ops (ops : list op) (g : node) : result node :=
  match ops with
  | [] => Ok g
  | o :: r => do g1 <- apply_op o g; apply_ops r g1
  end.

Lemma op_mirror o g g' : mirrors_deep g -> apply_op o g = Ok g' -> mirrors_deep g'.
Proof.
  intros Hm. destruct o; cbn [apply_op].
  - intros H. inversion H. destruct (infer_types g) as [g1 oc] eqn:Hi. cbn [fst].
    eapply infer_types_mirrors_deep; eassumption.
  - apply from_dict_mirrors_deep'.
  - destruct (write g) as [t|e]; cbn [bind]; [|discriminate]. apply read_mirrors_deep.
Qed.

Theorem ops_mirror : forall ops g g', mirrors_deep g -> apply_ops ops g = Ok g' -> mirrors_deep g'.
Proof.
  induction ops as [|o r IH]; intros g g' Hm; cbn [apply_ops].
  - intros H. inversion H. subst. exact Hm.
  - destruct (apply_op o g) as [g1|e] eqn:Ho; cbn [bind]; [|discriminate].
    apply IH. eapply op_mirror; eassumption.
Qed.

Corollary ops_mirror_top : forall ops g g', mirrors_deep g -> apply_ops ops g = Ok g' -> mirrors g'.
Proof. intros ops g g' Hm H. apply mirrors_deep_mirrors. eapply ops_mirror; eassumption. Qed.

Print Assumptions mk_graph_mirrors.
Print Assumptions graph_tin_entries.
Print Assumptions graph_tout_entries.
Print Assumptions infer_types_mirrors.
Print Assumptions infer_types_mirrors_deep.
Print Assumptions infer_types_nested_unchanged.
Print Assumptions from_list_mirrors.
Print Assumptions from_list_mirrors_deep.
Print Assumptions from_dict_mirrors_deep.
Print Assumptions read_mirrors_deep.
Print Assumptions ops_mirror.
Print Assumptions whitelist_is_the_18_primitives.
Print Assumptions whitelist_exact.
Print Assumptions str2kind_closed.
Print Assumptions construct_kind.
Print Assumptions dict2node_closed.
Print Assumptions dict2node_rejects_bytes_tag.
Print Assumptions dict2node_rejects_unlisted.
Print Assumptions bind_args_unknown_key.
Print Assumptions bind_args_missing_mandatory.
Print Assumptions construct_unknown_key.
Print Assumptions construct_missing_mandatory.
