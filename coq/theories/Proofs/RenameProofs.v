(* RenameProofs.v — node names are OPAQUE identifiers for the type check and for type inference.

   Renaming the (top-level) children of a graph by an injective function on names, and renaming
   the edge end points (and the keys of the graph-level type dictionaries, which are keyed by
   child names) accordingly, commutes with check_types and with infer_types — for ALL strings:
   the model contains no special case for a name with a dot, "->", a digit string, ...

   Where names are used by the two operations (checked by the proofs below):
     - lookup_child / set_child : assoc / assoc_set, which use only String.eqb on names;
     - out_edges, init_state    : String.eqb and mem_str on names;
     - graph_tin / graph_tout   : copy the child names as keys, never inspect them.
   No function on this path sorts names or looks at string structure.  (The only string surgery
   of the inference, rename_keys / str_replace, acts on the PORT names "input"/"output" inside the
   type dictionaries of a node, which a renaming of nodes leaves alone.) *)
From NIR Require Import Model.Graph.
From NIR Require Import Proofs.InferProofs.
From Coq Require Import Lia.

(* ---- definitions -------------------------------------------------------------------------------- *)
Definition injective (f : string -> string) := forall a b, f a = f b -> a = b.

(* renaming the keys of any association list *)
Definition rename_assoc {A} (f : string -> string) (l : list (string * A)) : list (string * A) :=
  map (fun kv => (f (fst kv), snd kv)) l.

Definition rename_children (f : string -> string) (ch : list (string * node)) : list (string * node) :=
  map (fun kn => (f (fst kn), snd kn)) ch.
Definition rename_edge (f : string -> string) (e : string * string) := (f (fst e), f (snd e)).
Definition rename_edges (f : string -> string) (es : list (string * string)) :=
  map (fun e => (f (fst e), f (snd e))) es.
(* graph-level type dictionaries: keyed by the names of the Input / Output children *)
Definition rename_gty (f : string -> string) (g : option (list (string * ty))) :=
  option_map (rename_assoc f) g.

(* only the top level of a graph is renamed *)
Definition rename_graph (f : string -> string) (g : node) : node :=
  match g with
  | Graph ch es gi go m => Graph (rename_children f ch) (rename_edges f es) (rename_gty f gi) (rename_gty f go) m
  | Leaf _ _ _ _ => g
  end.

Definition rename_state (f : string -> string) (st : istate) : istate :=
  {| st_ch := rename_children f (st_ch st);
     st_ready := rename_edges f (st_ready st);
     st_seen := map f (st_seen st) |}.

Lemma rename_children_assoc f ch : rename_children f ch = rename_assoc f ch.
Proof. reflexivity. Qed.

(* ---- names are compared only by equality --------------------------------------------------------- *)
Lemma eqb_injective f a b : injective f -> String.eqb (f a) (f b) = String.eqb a b.
Proof.
  intros Hf. destruct (String.eqb a b) eqn:E.
  - apply String.eqb_eq in E. subst. apply String.eqb_refl.
  - apply String.eqb_neq in E. apply String.eqb_neq. intros H. apply E, Hf, H.
Qed.

(* (R1), for any value type *)
Lemma assoc_rename_assoc {A} f k (l : list (string * A)) :
  injective f -> assoc (f k) (rename_assoc f l) = assoc k l.
Proof.
  intros Hf. induction l as [|[k' v] r IH]; [reflexivity|].
  cbn [rename_assoc map assoc fst snd]. rewrite (eqb_injective f k k' Hf).
  destruct (String.eqb k k'); [reflexivity|exact IH].
Qed.

(* (R1) *)
Theorem assoc_rename f k ch :
  injective f -> assoc (f k) (rename_children f ch) = assoc k ch.
Proof. intros Hf. rewrite rename_children_assoc. apply assoc_rename_assoc, Hf. Qed.

Lemma assoc_set_rename {A} f k (v : A) l :
  injective f -> assoc_set (f k) v (rename_assoc f l) = rename_assoc f (assoc_set k v l).
Proof.
  intros Hf. induction l as [|[k' v'] r IH]; [reflexivity|].
  cbn [rename_assoc map assoc_set fst snd]. rewrite (eqb_injective f k k' Hf).
  destruct (String.eqb k k').
  - reflexivity.
  - cbn [map fst snd]. f_equal. exact IH.
Qed.

Lemma mem_str_rename f s l : injective f -> mem_str (f s) (map f l) = mem_str s l.
Proof.
  intros Hf. induction l as [|x r IH]; [reflexivity|].
  cbn [map mem_str]. rewrite (eqb_injective f s x Hf), IH. reflexivity.
Qed.

Lemma keys_rename {A} f (l : list (string * A)) : keys (rename_assoc f l) = map f (keys l).
Proof. unfold keys, rename_assoc. rewrite !map_map. reflexivity. Qed.

Lemma filter_rename_assoc {A} f (p : A -> bool) (l : list (string * A)) :
  filter (fun kv => p (snd kv)) (rename_assoc f l) = rename_assoc f (filter (fun kv => p (snd kv)) l).
Proof.
  induction l as [|[k v] r IH]; [reflexivity|].
  cbn [rename_assoc map filter fst snd]. destruct (p v).
  - cbn [map fst snd]. f_equal. exact IH.
  - exact IH.
Qed.

Lemma inputs_rename f ch : inputs (rename_children f ch) = rename_children f (inputs ch).
Proof. unfold inputs. apply (filter_rename_assoc f is_input). Qed.

Lemma outputs_rename f ch : outputs (rename_children f ch) = rename_children f (outputs ch).
Proof. unfold outputs. apply (filter_rename_assoc f is_output). Qed.

Lemma lookup_child_rename f k ch :
  injective f -> lookup_child (f k) (rename_children f ch) = lookup_child k ch.
Proof. intros Hf. unfold lookup_child. rewrite (assoc_rename f k ch Hf). reflexivity. Qed.

Lemma set_child_rename f k n ch :
  injective f -> set_child (f k) n (rename_children f ch) = rename_children f (set_child k n ch).
Proof. intros Hf. unfold set_child. rewrite !rename_children_assoc. apply assoc_set_rename, Hf. Qed.

(* ---- (R2) the type check ------------------------------------------------------------------------- *)
Lemma check_edge_rename f ch e :
  injective f -> check_edge (rename_children f ch) (rename_edge f e) = check_edge ch e.
Proof.
  intros Hf. unfold check_edge, rename_edge. cbn [fst snd].
  rewrite !(lookup_child_rename f _ ch Hf). reflexivity.
Qed.

Lemma check_edges_rename f ch es :
  injective f -> check_edges (rename_children f ch) (rename_edges f es) = check_edges ch es.
Proof.
  intros Hf. induction es as [|e r IH]; [reflexivity|].
  cbn [rename_edges map check_edges]. fold (rename_edge f e). fold (rename_edges f r).
  rewrite (check_edge_rename f ch e Hf), IH. reflexivity.
Qed.

(* check_types ignores the graph-level type dictionaries and the metadata: arbitrary ones on
   either side *)
Theorem check_rename f ch es gi go m gi' go' m' :
  injective f ->
  check_types (Graph (rename_children f ch) (rename_edges f es) gi' go' m')
  = check_types (Graph ch es gi go m).
Proof. intros Hf. cbn [check_types]. apply check_edges_rename, Hf. Qed.

Corollary check_rename_graph f g : injective f -> check_types (rename_graph f g) = check_types g.
Proof. intros Hf. destruct g as [k fs ti to|ch es gi go m]; [reflexivity|]. apply check_rename, Hf. Qed.

(* ---- (R3) type inference -------------------------------------------------------------------------- *)
Lemma map_rev_pop {A B} (g : A -> B) (l : list A) :
  pop_last (map g l) =
  match pop_last l with None => None | Some (r, x) => Some (map g r, g x) end.
Proof.
  unfold pop_last. rewrite <- map_rev. destruct (rev l) as [|x r]; [reflexivity|].
  cbn [map]. rewrite map_rev. reflexivity.
Qed.

Lemma pop_last_rename f l :
  pop_last (rename_edges f l) =
  match pop_last l with None => None | Some (r, x) => Some (rename_edges f r, rename_edge f x) end.
Proof. unfold rename_edges. apply (map_rev_pop (rename_edge f)). Qed.

Lemma out_edges_rename f es k seen :
  injective f ->
  out_edges (rename_edges f es) (f k) (map f seen) = rename_edges f (out_edges es k seen).
Proof.
  intros Hf. unfold out_edges. induction es as [|[a b] r IH]; [reflexivity|].
  cbn [rename_edges map filter fst snd].
  rewrite (eqb_injective f a k Hf), (mem_str_rename f b seen Hf).
  destruct (String.eqb a k && negb (mem_str b seen))%bool.
  - cbn [map fst snd]. f_equal. exact IH.
  - exact IH.
Qed.

Lemma init_ready_rename f ch es :
  injective f ->
  filter (fun e => mem_str (fst e) (keys (inputs (rename_children f ch)))) (rename_edges f es)
  = rename_edges f (filter (fun e => mem_str (fst e) (keys (inputs ch))) es).
Proof.
  intros Hf. rewrite inputs_rename, rename_children_assoc, keys_rename.
  induction es as [|[a b] r IH]; [reflexivity|].
  cbn [rename_edges map filter fst snd]. rewrite (mem_str_rename f a _ Hf).
  destruct (mem_str a (keys (inputs ch))).
  - cbn [map fst snd]. f_equal. exact IH.
  - exact IH.
Qed.

Lemma init_state_rename f ch es :
  injective f ->
  init_state (rename_children f ch) (rename_edges f es) = rename_state f (init_state ch es).
Proof.
  intros Hf. unfold init_state, rename_state. cbn [st_ch st_ready st_seen].
  rewrite (init_ready_rename f ch es Hf). f_equal.
  unfold rename_edges. rewrite !map_map. reflexivity.
Qed.

(* the step lemma: one iteration of the work-list loop commutes with the renaming *)
Definition rename_step_res (f : string -> string) (r : step_res) : step_res :=
  match r with
  | SDone => SDone
  | SStop st e => SStop (rename_state f st) e
  | SNext st => SNext (rename_state f st)
  end.

Lemma step_rename f es st :
  injective f ->
  step (rename_edges f es) (rename_state f st) = rename_step_res f (step es st).
Proof.
  intros Hf. unfold step. cbn [rename_state st_ch st_ready st_seen].
  rewrite pop_last_rename.
  destruct (pop_last (st_ready st)) as [[rest [pre_k post_k]]|]; [|reflexivity].
  cbn [rename_edge fst snd].
  rewrite !(lookup_child_rename f _ _ Hf).
  destruct (lookup_child pre_k (st_ch st)) as [pre|e1];
    destruct (lookup_child post_k (st_ch st)) as [post|e2]; try reflexivity.
  destruct (apply_edge pre post) as [post' [e|]].
  - cbn [rename_step_res]. unfold rename_state. cbn [st_ch st_ready st_seen].
    rewrite (set_child_rename f _ _ _ Hf). reflexivity.
  - cbn [rename_step_res]. unfold rename_state. cbn [st_ch st_ready st_seen].
    rewrite (set_child_rename f _ _ _ Hf).
    change (f post_k :: map f (st_seen st)) with (map f (post_k :: st_seen st)).
    rewrite (out_edges_rename f es post_k _ Hf).
    unfold rename_edges. rewrite map_app. reflexivity.
Qed.

Lemma run_rename f es :
  injective f -> forall fuel st,
  run fuel (rename_edges f es) (rename_state f st)
  = (rename_state f (fst (run fuel es st)), snd (run fuel es st)).
Proof.
  intros Hf. induction fuel as [|n IH]; intros st; [reflexivity|].
  rewrite !run_S, (step_rename f es st Hf).
  destruct (step es st) as [|st' e|st']; cbn [rename_step_res fst snd]; try reflexivity.
  apply IH.
Qed.

Lemma infer_fuel_rename f ch es :
  infer_fuel (rename_children f ch) (rename_edges f es) = infer_fuel ch es.
Proof. unfold infer_fuel, rename_children, rename_edges. rewrite !map_length. reflexivity. Qed.

Lemma gty_undef_rename f g : gty_undef (rename_gty f g) = gty_undef g.
Proof.
  destruct g as [l|]; [|reflexivity]. cbn [rename_gty option_map gty_undef].
  induction l as [|[k v] r IH]; [reflexivity|].
  cbn [rename_assoc map existsb fst snd]. f_equal. exact IH.
Qed.

Lemma graph_tin_rename f ch : graph_tin (rename_children f ch) = rename_gty f (graph_tin ch).
Proof.
  unfold graph_tin. rewrite inputs_rename.
  destruct (inputs ch) as [|[k n] r]; [reflexivity|].
  cbn [rename_children map fst snd rename_gty option_map rename_assoc]. f_equal. f_equal.
  rewrite !map_map. reflexivity.
Qed.

Lemma graph_tout_rename f ch : graph_tout (rename_children f ch) = rename_gty f (graph_tout ch).
Proof.
  unfold graph_tout. rewrite outputs_rename.
  cbn [rename_gty option_map]. f_equal. unfold rename_children, rename_assoc.
  rewrite !map_map. reflexivity.
Qed.

Lemma mk_graph_rename f ch es m :
  mk_graph (rename_children f ch) (rename_edges f es) m = rename_graph f (mk_graph ch es m).
Proof. unfold mk_graph. cbn [rename_graph]. rewrite graph_tin_rename, graph_tout_rename. reflexivity. Qed.

(* (R3), functional form: inference on the renamed graph = renaming of the inference result,
   same outcome *)
Theorem infer_rename_graph f g :
  injective f ->
  infer_types (rename_graph f g) = (rename_graph f (fst (infer_types g)), snd (infer_types g)).
Proof.
  intros Hf. destruct g as [k fs ti to|ch es gi go m]; [reflexivity|].
  cbn [rename_graph infer_types]. rewrite !gty_undef_rename.
  destruct (negb (gty_undef gi)).
  - rewrite infer_fuel_rename, (init_state_rename f ch es Hf), (run_rename f es Hf).
    destruct (run (infer_fuel ch es) es (init_state ch es)) as [st oc].
    cbn [fst snd rename_state st_ch]. rewrite mk_graph_rename. reflexivity.
  - destruct (negb (gty_undef go)); reflexivity.
Qed.

(* (R3), in the form of the specification *)
Theorem infer_rename f ch es gi go m ch' gi1 go1 oc :
  injective f ->
  infer_types (Graph ch es gi go m) = (Graph ch' es gi1 go1 m, oc) ->
  infer_types (Graph (rename_children f ch) (rename_edges f es) (rename_gty f gi) (rename_gty f go) m)
  = (Graph (rename_children f ch') (rename_edges f es) (rename_gty f gi1) (rename_gty f go1) m, oc).
Proof.
  intros Hf H.
  change (Graph (rename_children f ch) (rename_edges f es) (rename_gty f gi) (rename_gty f go) m)
    with (rename_graph f (Graph ch es gi go m)).
  rewrite (infer_rename_graph f _ Hf), H. reflexivity.
Qed.

(* the result of infer_types on a graph always has this shape (same edges, same metadata), so the
   hypothesis of infer_rename is no restriction *)
Lemma infer_types_shape ch es gi go m :
  exists ch' gi1 go1, fst (infer_types (Graph ch es gi go m)) = Graph ch' es gi1 go1 m.
Proof.
  cbn [infer_types]. destruct (negb (gty_undef gi)).
  - destruct (run (infer_fuel ch es) es (init_state ch es)) as [st oc]. unfold mk_graph.
    cbn [fst]. eauto.
  - destruct (negb (gty_undef go)); cbn [fst]; eauto.
Qed.

(* ---- (R4) prefixing every name --------------------------------------------------------------------- *)
Definition prefix_by (p : string) : string -> string := fun s => append p s.

Lemma prefix_injective p : injective (prefix_by p).
Proof.
  unfold injective, prefix_by. induction p as [|c p IH]; intros a b H.
  - exact H.
  - cbn [append] in H. inversion H as [H']. apply IH, H'.
Qed.

Corollary check_prefix p ch es gi go m gi' go' m' :
  check_types (Graph (rename_children (prefix_by p) ch) (rename_edges (prefix_by p) es) gi' go' m')
  = check_types (Graph ch es gi go m).
Proof. apply check_rename, prefix_injective. Qed.

Corollary infer_prefix p g :
  infer_types (rename_graph (prefix_by p) g)
  = (rename_graph (prefix_by p) (fst (infer_types g)), snd (infer_types g)).
Proof. apply infer_rename_graph, prefix_injective. Qed.

(* a 2-node graph whose names are "fc" and "fc.gate": the dotted name gets no special meaning *)
Example check_dotted_names (n1 n2 : node) gi go m p :
  check_types (Graph [(p ++ "fc", n1); (p ++ "fc.gate", n2)]
                     [(p ++ "fc", p ++ "fc.gate")] gi go m)%string
  = check_types (Graph [("fc", n1); ("fc.gate", n2)] [("fc", "fc.gate")] gi go m).
Proof.
  exact (check_prefix p [("fc", n1); ("fc.gate", n2)] [("fc", "fc.gate")] gi go m gi go m).
Qed.

(* ... and the same names can be exchanged for unrelated ones: a renaming defined by cases *)
Definition swap_fc (s : string) : string :=
  if String.eqb s "fc" then "a" else if String.eqb s "fc.gate" then "b"
  else ("x" ++ s)%string.

Lemma swap_fc_injective : injective swap_fc.
Proof.
  unfold injective, swap_fc. intros a b.
  destruct (String.eqb a "fc") eqn:A1; destruct (String.eqb b "fc") eqn:B1;
  destruct (String.eqb a "fc.gate") eqn:A2; destruct (String.eqb b "fc.gate") eqn:B2;
  repeat match goal with
         | H : String.eqb _ _ = true |- _ => apply String.eqb_eq in H
         | H : String.eqb _ _ = false |- _ => apply String.eqb_neq in H
         end;
  subst; intros H; try reflexivity; try discriminate H; try congruence.
  cbn [append] in H. inversion H. reflexivity.
Qed.

Example check_dotted_names_swapped (n1 n2 : node) gi go m :
  check_types (Graph [("a", n1); ("b", n2)] [("a", "b")] gi go m)
  = check_types (Graph [("fc", n1); ("fc.gate", n2)] [("fc", "fc.gate")] gi go m).
Proof.
  exact (check_rename swap_fc [("fc", n1); ("fc.gate", n2)] [("fc", "fc.gate")] gi go m gi go m
           swap_fc_injective).
Qed.

(* Injectivity is needed: merging two names changes lookups.  With the constant renaming the edge
   ("a","b") becomes a self-loop on the first child. *)
Example rename_not_injective_counterexample :
  let n1 := Leaf KInput [] (Some [("input", TArr [2])]) (Some [("output", TArr [2])]) in
  let n2 := Leaf KOutput [] (Some [("input", TArr [3])]) (Some [("output", TArr [3])]) in
  let f := fun _ : string => "c" in
  check_types (Graph [("a", n1); ("b", n2)] [("a", "b")] None None (VDict [])) = Err ValueError /\
  check_types (Graph (rename_children f [("a", n1); ("b", n2)]) (rename_edges f [("a", "b")])
                     None None (VDict [])) = Ok true.
Proof. split; vm_compute; reflexivity. Qed.

Print Assumptions assoc_rename.
Print Assumptions check_rename.
Print Assumptions step_rename.
Print Assumptions infer_rename_graph.
Print Assumptions infer_rename.
Print Assumptions check_prefix.
Print Assumptions infer_prefix.
