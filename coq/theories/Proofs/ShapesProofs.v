(* ShapesProofs.v — lemmas about Model/Shapes.v used by Props/C06.v and Props/C07.v *)
From NIR Require Import Base.Base Model.Shapes.
From Coq Require Import Lia ZifyBool.
Ltac Zify.zify_post_hook ::= Z.to_euclidean_division_equations.

(* ---------- list facts ---------- *)
Lemma prodZ_app a b : prodZ (a ++ b) = prodZ a * prodZ b.
Proof. unfold prodZ. induction a as [|x a IH]; cbn [app fold_right]; [lia|]. rewrite IH. ring. Qed.

Lemma lenZ_nonneg {A} (l : list A) : 0 <= lenZ l.
Proof. unfold lenZ; lia. Qed.

Lemma firstn_skipn_all {A} (l : list A) (a m : nat) :
  (a + m >= length l)%nat -> firstn m (skipn a l) = skipn a l.
Proof. intros H. apply firstn_all2. rewrite skipn_length. lia. Qed.

Lemma skipn_skipn_add {A} (l : list A) (a m : nat) : skipn m (skipn a l) = skipn (a + m) l.
Proof.
  revert l; induction a as [|a IH]; intros l; cbn [skipn plus]; [reflexivity|].
  destruct l as [|x l]; [destruct m; reflexivity|]. apply IH.
Qed.

(* ---------- py_slice on in-range bounds ---------- *)
Lemma py_slice_upto {A} (l : list A) (s : Z) :
  - lenZ l <= s < lenZ l ->
  py_slice l None (Some s) = firstn (Z.to_nat (norm_dim (lenZ l) s)) l.
Proof.
  intros H. unfold py_slice, slice_bound, norm_dim.
  destruct (s <? 0) eqn:Hs.
  - destruct (Z.max 0 (s + lenZ l) <=? 0) eqn:Hc.
    + replace (Z.to_nat (s + lenZ l)) with 0%nat by lia. reflexivity.
    + cbn [skipn Z.to_nat]. f_equal. lia.
  - destruct (Z.min s (lenZ l) <=? 0) eqn:Hc.
    + replace (Z.to_nat s) with 0%nat by lia. reflexivity.
    + cbn [skipn Z.to_nat]. f_equal. lia.
Qed.

Lemma py_slice_from {A} (l : list A) (s : Z) :
  - lenZ l <= s < lenZ l ->
  py_slice l (Some s) None = skipn (Z.to_nat (norm_dim (lenZ l) s)) l.
Proof.
  intros H. unfold py_slice, slice_bound, norm_dim.
  assert (Hl : lenZ l = Z.of_nat (length l)) by reflexivity.
  destruct (s <? 0) eqn:Hs.
  - destruct (lenZ l <=? Z.max 0 (s + lenZ l)) eqn:Hc; [lia|].
    replace (Z.max 0 (s + lenZ l)) with (s + lenZ l) by lia.
    apply firstn_skipn_all. lia.
  - destruct (lenZ l <=? Z.min s (lenZ l)) eqn:Hc; [lia|].
    replace (Z.min s (lenZ l)) with s by lia.
    apply firstn_skipn_all. lia.
Qed.

(* l[e+1:] where e is a valid index different from -1 *)
Lemma py_slice_after {A} (l : list A) (e : Z) :
  - lenZ l <= e < lenZ l -> e <> -1 ->
  py_slice l (Some (e + 1)) None = skipn (Z.to_nat (norm_dim (lenZ l) e + 1)) l.
Proof.
  intros H Hne. unfold py_slice, slice_bound, norm_dim.
  assert (Hl : lenZ l = Z.of_nat (length l)) by reflexivity.
  destruct (e <? 0) eqn:He.
  - destruct (e + 1 <? 0) eqn:He1; [|lia].
    destruct (lenZ l <=? Z.max 0 (e + 1 + lenZ l)) eqn:Hc; [lia|].
    replace (Z.max 0 (e + 1 + lenZ l)) with (e + lenZ l + 1) by lia.
    apply firstn_skipn_all. lia.
  - destruct (e + 1 <? 0) eqn:He1; [lia|].
    destruct (lenZ l <=? Z.min (e + 1) (lenZ l)) eqn:Hc.
    + symmetry. apply skipn_all2. lia.
    + replace (Z.min (e + 1) (lenZ l)) with (e + 1) by lia.
      apply firstn_skipn_all. lia.
Qed.

(* l[s:e+1] where s, e are valid indices, e <> -1, norm s <= norm e *)
Lemma py_slice_mid {A} (l : list A) (s e : Z) :
  - lenZ l <= s < lenZ l -> - lenZ l <= e < lenZ l -> e <> -1 ->
  norm_dim (lenZ l) s <= norm_dim (lenZ l) e ->
  py_slice l (Some s) (Some (e + 1)) =
  firstn (Z.to_nat (norm_dim (lenZ l) e + 1 - norm_dim (lenZ l) s))
         (skipn (Z.to_nat (norm_dim (lenZ l) s)) l).
Proof.
  intros Hs He Hne Hle. unfold py_slice, slice_bound, norm_dim in *.
  destruct (s <? 0) eqn:Hs0; destruct (e <? 0) eqn:He0;
    destruct (e + 1 <? 0) eqn:He1; try lia.
  all: match goal with |- (if ?c then _ else _) = _ => destruct c eqn:Hc end; try lia.
  all: f_equal; try lia; f_equal; lia.
Qed.

(* ---------- C07: flatten ---------- *)
Lemma flatten_out_spec (sh : list Z) (s e : Z) :
  let n := lenZ sh in
  1 <= n -> - n <= s < n -> - n <= e < n -> norm_dim n s <= norm_dim n e ->
  flatten_out sh s e =
  flatten_spec sh (Z.to_nat (norm_dim n s)) (Z.to_nat (norm_dim n e)).
Proof.
  intros n Hn Hs He Hle. unfold flatten_out, flatten_spec. subst n.
  assert (Hl : lenZ sh = Z.of_nat (length sh)) by reflexivity.
  f_equal; [|f_equal].
  - (* head *)
    destruct (s =? 0) eqn:Hs0.
    + assert (s = 0) by lia. subst s. reflexivity.
    + apply py_slice_upto; assumption.
  - (* merged dimension *)
    f_equal.
    destruct (e =? -1) eqn:He1.
    + assert (e = -1) by lia. subst e. rewrite py_slice_from by assumption.
      f_equal. symmetry. apply firstn_skipn_all. unfold norm_dim in *.
      change (-1 <? 0) with true in *. cbv iota in *.
      destruct (s <? 0) eqn:Hs0; lia.
    + rewrite py_slice_mid by (try assumption; lia). f_equal. f_equal.
      unfold norm_dim in *. destruct (s <? 0) eqn:Hs0; destruct (e <? 0) eqn:He0; lia.
  - (* tail *)
    destruct ((e =? -1) || (e =? lenZ sh - 1)) eqn:Hc.
    + symmetry. apply skipn_all2. unfold norm_dim. destruct (e <? 0) eqn:He0; lia.
    + rewrite py_slice_after by (try assumption; lia). f_equal.
      unfold norm_dim in *. destruct (e <? 0) eqn:He0; lia.
Qed.

Lemma prodZ_split (l : list Z) (a : nat) : prodZ l = prodZ (firstn a l) * prodZ (skipn a l).
Proof. rewrite <- prodZ_app, firstn_skipn. reflexivity. Qed.

Lemma flatten_spec_prod (sh : list Z) (a b : nat) :
  (a <= b)%nat -> prodZ (flatten_spec sh a b) = prodZ sh.
Proof.
  intros Hab. unfold flatten_spec.
  rewrite !prodZ_app.
  rewrite (prodZ_split sh a).
  rewrite (prodZ_split (skipn a sh) (b + 1 - a)).
  rewrite skipn_skipn_add.
  replace (a + (b + 1 - a))%nat with (b + 1)%nat by lia.
  change (prodZ [prodZ (firstn (b + 1 - a) (skipn a sh))])
    with (prodZ (firstn (b + 1 - a) (skipn a sh)) * 1).
  ring.
Qed.

(* everything outside the merged range is untouched, and the rank drops by (b - a) *)
Lemma flatten_spec_length (sh : list Z) (a b : nat) :
  (a <= b < length sh)%nat -> length (flatten_spec sh a b) = (length sh - (b - a))%nat.
Proof.
  intros H. unfold flatten_spec. rewrite !app_length, firstn_length, skipn_length.
  cbn [length]. lia.
Qed.

(* ---------- C06: convolution arithmetic ---------- *)
Lemma count_upto_le (c : Z) (m : nat) :
  0 <= c -> count_upto (fun i => i <=? c) m = Z.min (Z.of_nat m) (c + 1).
Proof.
  intros Hc. induction m as [|m IH]; cbn [count_upto]; [lia|].
  rewrite IH. destruct (Z.of_nat m <=? c) eqn:H; lia.
Qed.

Lemma count_upto_ext (f g : Z -> bool) (m : nat) :
  (forall i, 0 <= i < Z.of_nat m -> f i = g i) -> count_upto f m = count_upto g m.
Proof.
  induction m as [|m IH]; intros H; cbn [count_upto]; [reflexivity|].
  rewrite IH by (intros i Hi; apply H; lia). rewrite (H (Z.of_nat m)) by lia. reflexivity.
Qed.

Lemma conv_axis_counts_positions (n p d k s : Z) :
  1 <= s -> 1 <= d -> 1 <= k -> 0 <= p -> d * (k - 1) + 1 <= n + 2 * p ->
  conv_axis n p d k s = positions n p d k s.
Proof.
  intros Hs Hd Hk Hp Hfit. unfold positions, conv_axis.
  set (N := n + 2 * p). set (E := d * (k - 1)).
  assert (HE : 0 <= E) by (unfold E; nia).
  replace (n + 2 * p - d * (k - 1) - 1) with (N - E - 1) by (unfold N, E; ring).
  rewrite (count_upto_ext _ (fun i => i <=? (N - E - 1) / s)).
  - rewrite count_upto_le.
    + assert ((N - E - 1) / s <= N - E - 1) by (apply Z.div_le_upper_bound; nia).
      lia.
    + apply Z.div_pos; lia.
  - intros i Hi. unfold fits. fold N. fold E.
    assert (Hq : s * ((N - E - 1) / s) <= N - E - 1 < s * ((N - E - 1) / s) + s).
    { pose proof (Z.div_mod (N - E - 1) s ltac:(lia)).
      pose proof (Z.mod_pos_bound (N - E - 1) s ltac:(lia)). lia. }
    destruct (i <=? (N - E - 1) / s) eqn:Hc; destruct (i * s + E + 1 <=? N) eqn:Hf;
      try reflexivity; exfalso; nia.
Qed.

(* the last position fits, the next one does not *)
Lemma conv_axis_bounds (n p d k s : Z) :
  1 <= s ->
  let o := conv_axis n p d k s in
  (o - 1) * s + d * (k - 1) + 1 <= n + 2 * p < o * s + d * (k - 1) + 1.
Proof.
  intros Hs o. unfold o, conv_axis.
  set (X := n + 2 * p - d * (k - 1) - 1).
  pose proof (Z.div_mod X s ltac:(lia)). pose proof (Z.mod_pos_bound X s ltac:(lia)).
  unfold X in *. nia.
Qed.

Lemma conv_axis_unique (n p d k s o : Z) :
  1 <= s ->
  (o - 1) * s + d * (k - 1) + 1 <= n + 2 * p < o * s + d * (k - 1) + 1 ->
  o = conv_axis n p d k s.
Proof.
  intros Hs H. pose proof (conv_axis_bounds n p d k s Hs) as B. cbn zeta in B.
  set (c := conv_axis n p d k s) in *. nia.
Qed.

(* 'same' with stride 1, symmetric padding p = d(k-1)/2 when d(k-1) is even *)
Lemma conv_axis_same (n d k : Z) :
  (d * (k - 1)) mod 2 = 0 -> conv_axis n (d * (k - 1) / 2) d k 1 = n.
Proof.
  intros H. unfold conv_axis. rewrite Z.div_1_r.
  pose proof (Z.div_mod (d * (k - 1)) 2 ltac:(lia)). lia.
Qed.

(* 'valid' is zero padding *)
Lemma conv_out_valid (input dilation kernel stride : hp) (nd : Z) :
  hp_ndim input = Ok nd ->
  conv_out input (HStr "valid") dilation kernel stride =
  conv_out input (HSeq (repeat 0 (Z.to_nat nd))) dilation kernel stride.
Proof. intros H. unfold conv_out. rewrite H. cbn. reflexivity. Qed.

(* scalar / tuple / array forms are interchangeable: index_tuple only sees the values *)
Lemma index_tuple_forms (l : list Z) (i : Z) : index_tuple (HSeq l) i = index_tuple (HArr l) i.
Proof. reflexivity. Qed.

Lemma index_tuple_scalar (z : Z) (m : nat) (i : Z) :
  0 <= i < Z.of_nat m -> index_tuple (HSeq (repeat z m)) i = index_tuple (HInt z) i.
Proof.
  intros Hi. cbn [index_tuple]. unfold py_index, lenZ. rewrite repeat_length.
  destruct (i <? 0) eqn:H0; [lia|].
  destruct ((i <? 0) || (Z.of_nat m <=? i)) eqn:Hc; [lia|].
  destruct (nth_error (repeat z m) (Z.to_nat i)) eqn:Hn.
  - apply nth_error_In, repeat_spec in Hn. subst. reflexivity.
  - apply nth_error_None in Hn. rewrite repeat_length in Hn. lia.
Qed.

Lemma norm_dim_range (n i : Z) : - n <= i < n -> 0 <= norm_dim n i < n.
Proof. intros H. unfold norm_dim. destruct (i <? 0) eqn:Hi; lia. Qed.

Lemma flatten_out_prod (sh : list Z) (s e : Z) :
  let n := lenZ sh in
  1 <= n -> - n <= s < n -> - n <= e < n -> norm_dim n s <= norm_dim n e ->
  prodZ (flatten_out sh s e) = prodZ sh.
Proof.
  intros n Hn Hs He Hle. rewrite flatten_out_spec by assumption.
  apply flatten_spec_prod.
  pose proof (norm_dim_range _ _ Hs). pose proof (norm_dim_range _ _ He). fold n. lia.
Qed.

Lemma flatten_out_rank (sh : list Z) (s e : Z) :
  let n := lenZ sh in
  1 <= n -> - n <= s < n -> - n <= e < n -> norm_dim n s <= norm_dim n e ->
  lenZ (flatten_out sh s e) = n - (norm_dim n e - norm_dim n s).
Proof.
  intros n Hn Hs He Hle. rewrite flatten_out_spec by assumption.
  pose proof (norm_dim_range _ _ Hs). pose proof (norm_dim_range _ _ He). fold n in H, H0 |- *.
  unfold lenZ at 1. rewrite flatten_spec_length; unfold n, lenZ in *; lia.
Qed.

Lemma conv_out_axes_same (l : list Z) (dilation kernel stride : hp) (cnt : nat) (i : Z) :
  0 <= i -> (Z.to_nat i + cnt = length l)%nat ->
  conv_out_axes (HSeq l) (HStr "same") dilation kernel stride i cnt = Ok (skipn (Z.to_nat i) l).
Proof.
  revert i. induction cnt as [|c IH]; intros i Hi Hlen; cbn [conv_out_axes].
  - rewrite skipn_all2 by lia. reflexivity.
  - cbn [hp_is_str String.eqb Ascii.eqb Bool.eqb index_tuple].
    change (hp_is_str (HStr "same") "same") with true. cbv iota.
    unfold py_index, lenZ.
    destruct (i <? 0) eqn:Hi0; [lia|].
    destruct ((i <? 0) || (Z.of_nat (length l) <=? i)) eqn:Hc; [lia|].
    destruct (nth_error l (Z.to_nat i)) as [x|] eqn:Hn.
    + cbn [bind]. rewrite IH by lia. cbn [bind].
      replace (Z.to_nat (i + 1)) with (S (Z.to_nat i)) by lia.
      f_equal.
      clear - Hn. revert l Hn. generalize (Z.to_nat i) as m.
      induction m as [|m IHm]; intros [|y l] Hn; cbn in *; try discriminate.
      * congruence.
      * apply IHm. assumption.
    + apply nth_error_None in Hn. lia.
Qed.

Lemma conv_out_same (l : list Z) (dilation kernel stride : hp) :
  conv_out (HSeq l) (HStr "same") dilation kernel stride = Ok l.
Proof.
  unfold conv_out. cbn [hp_ndim bind].
  change (hp_is_str (HStr "same") "valid") with false. cbv iota.
  unfold lenZ. rewrite Nat2Z.id.
  rewrite conv_out_axes_same; [reflexivity|lia|reflexivity].
Qed.
