(* DictProofs.v — property C13: the dictionary form is faithful.
   `from_dict (to_dict n)` rebuilds the node, for every node produced by the constructors.

   FINDING (checked by `Eval vm_compute` below, see `extra_keys_lost`): plain equality
   `from_dict (to_dict n) = Ok n` is FALSE for Input / Output / Flatten nodes whose type argument was a
   dictionary with more entries than the one the class serialises: `Input.to_dict` stores only
   `input_type["input"]` under "shape" (Output: `output_type["output"]`, Flatten: `input_type["input"]`),
   so every other entry of the type dictionary is lost.  Everything else (kind, all fields in order with
   their values, both types of every other kind, the serialised entry of the type, container kind
   TSeq/TArr included) is rebuilt exactly.  Hence the theorems are stated with `canon`, which restricts
   those three type dictionaries to the serialised entry:
       from_dict (to_dict n) = Ok (canon n)              for every built n
       canon n = n                                      when the type dictionaries are single-entry
   Facts about Gen/Tables.v (GENERATED) are proved by computation only. *)
From NIR Require Import Model.Graph Model.Serial Proofs.MirrorClosedProofs.
From Coq Require Import Lia List Bool String.

(* ---- (1) the type tag is read back ------------------------------------------------------------- *)
Lemma str2kind_name : forall k, str2kind (kind_name k) = Ok k.
Proof. intros k. destruct k; vm_compute; reflexivity. Qed.

(* ---- (2) keys of the dictionary of a leaf ------------------------------------------------------- *)
Lemma to_dict_keys_leaf : forall k fs tin tout,
  map fst (to_dict (Leaf k fs tin tout)) =
  map fst fs ++ ["type"] ++ (match k with
                             | KInput | KOutput => ["shape"]
                             | KFlatten => ["input_type"]
                             | _ => []
                             end).
Proof.
  intros k fs tin tout. destruct k; cbn [to_dict]; rewrite ?map_app; cbn [map fst app];
    rewrite ?app_nil_r; try reflexivity; rewrite <- app_assoc; reflexivity.
Qed.

(* ---- association-list helpers -------------------------------------------------------------------- *)
Lemma assoc_del_keys {A} k (l : list (string * A)) :
  map fst (assoc_del k l) = filter (fun f => negb (String.eqb f k)) (map fst l).
Proof.
  induction l as [|[k' v] r IH]; cbn [assoc_del map fst filter]; [reflexivity|].
  rewrite (String.eqb_sym k' k). destruct (String.eqb k k'); cbn [negb map fst]; rewrite IH; reflexivity.
Qed.

Lemma assoc_del_absent {A} k (l : list (string * A)) : assoc k l = None -> assoc_del k l = l.
Proof.
  induction l as [|[k' v] r IH]; cbn [assoc assoc_del]; [reflexivity|].
  destruct (String.eqb k k'); [discriminate|]. intros H. rewrite (IH H). reflexivity.
Qed.

Lemma assoc_del_app {A} k (a b : list (string * A)) : assoc_del k (a ++ b) = assoc_del k a ++ assoc_del k b.
Proof.
  induction a as [|[k' v] r IH]; cbn [assoc_del app]; [reflexivity|].
  destruct (String.eqb k k'); rewrite IH; reflexivity.
Qed.

Lemma assoc_app_none {A} k (a b : list (string * A)) : assoc k a = None -> assoc k (a ++ b) = assoc k b.
Proof.
  induction a as [|[k' v] r IH]; cbn [assoc app]; [reflexivity|].
  destruct (String.eqb k k'); [discriminate|exact IH].
Qed.

Lemma assoc_app_some {A} k (a b : list (string * A)) v : assoc k a = Some v -> assoc k (a ++ b) = Some v.
Proof.
  induction a as [|[k' v'] r IH]; cbn [assoc app]; [discriminate|].
  destruct (String.eqb k k'); [trivial|exact IH].
Qed.

Lemma assoc_none_keys {A} k (l : list (string * A)) : assoc k l = None <-> ~ In k (map fst l).
Proof.
  induction l as [|[k' v] r IH]; cbn [assoc map fst In].
  - split; [intros _ []|reflexivity].
  - destruct (String.eqb k k') eqn:E.
    + apply String.eqb_eq in E. subst k'. split; [discriminate|]. intros H. exfalso. apply H. left. reflexivity.
    + apply String.eqb_neq in E. rewrite IH. split.
      * intros H [H1|H1]; [congruence|contradiction].
      * intros H H1. apply H. right. exact H1.
Qed.

Lemma assoc_set_keys_present {A} k (v v0 : A) l :
  assoc k l = Some v0 -> map fst (assoc_set k v l) = map fst l.
Proof.
  induction l as [|[k' v'] r IH]; cbn [assoc assoc_set]; [discriminate|].
  destruct (String.eqb k k') eqn:E; cbn [map fst].
  - apply String.eqb_eq in E. subst k'. reflexivity.
  - intros H. rewrite (IH H). reflexivity.
Qed.

Lemma assoc_del_other {A} f k (l : list (string * A)) : f <> k -> assoc f (assoc_del k l) = assoc f l.
Proof.
  intros Hne. induction l as [|[k' v'] r IH]; cbn [assoc_del assoc]; [reflexivity|].
  destruct (String.eqb k k') eqn:E.
  - apply String.eqb_eq in E. subst k'.
    destruct (String.eqb f k) eqn:E2; [apply String.eqb_eq in E2; congruence|exact IH].
  - cbn [assoc]. destruct (String.eqb f k'); [reflexivity|exact IH].
Qed.

Lemma assoc_set_other' {A} (f k : string) (v : A) l : f <> k -> assoc f (assoc_set k v l) = assoc f l.
Proof.
  intros Hne. rewrite assoc_assoc_set.
  destruct (String.eqb f k) eqn:E; [apply String.eqb_eq in E; congruence|reflexivity].
Qed.

Lemma assoc_set_del_comm {A} a k (x : A) l :
  a <> k -> assoc_del k (assoc_set a x l) = assoc_set a x (assoc_del k l).
Proof.
  intros Hne. induction l as [|[k' v'] r IH]; cbn [assoc_set assoc_del].
  - destruct (String.eqb k a) eqn:E; [apply String.eqb_eq in E; congruence|reflexivity].
  - destruct (String.eqb a k') eqn:E1; destruct (String.eqb k k') eqn:E2; cbn [assoc_set assoc_del];
      rewrite ?E1, ?E2.
    + apply String.eqb_eq in E1. apply String.eqb_eq in E2. congruence.
    + apply String.eqb_eq in E1. subst k'. rewrite E2. reflexivity.
    + exact IH.
    + rewrite IH. reflexivity.
Qed.

Lemma drop_types_keys fs :
  map fst (drop_types fs) =
  filter (fun f => negb (String.eqb f "input_type" || String.eqb f "output_type")) (map fst fs).
Proof.
  unfold drop_types. rewrite !assoc_del_keys.
  induction (map fst fs) as [|f r IH]; cbn [filter]; [reflexivity|].
  destruct (String.eqb f "input_type"); cbn [negb orb]; [exact IH|].
  cbn [filter]. destruct (String.eqb f "output_type"); cbn [negb]; rewrite IH; reflexivity.
Qed.

Lemma drop_types_assoc f fs : f <> "input_type" -> f <> "output_type" -> assoc f (drop_types fs) = assoc f fs.
Proof. intros H1 H2. unfold drop_types. rewrite !assoc_del_other by assumption. reflexivity. Qed.

Lemma drop_types_set a x fs :
  a <> "input_type" -> a <> "output_type" -> drop_types (assoc_set a x fs) = assoc_set a x (drop_types fs).
Proof. intros H1 H2. unfold drop_types. rewrite !assoc_set_del_comm by assumption. reflexivity. Qed.

(* ---- the dataclass binding yields exactly the fields of the class, in order ------------------- *)
Lemma bind_fields_keys cf : forall args bfs, bind_fields cf args = Ok bfs -> map fst bfs = map fst cf.
Proof.
  induction cf as [|[f d] r IH]; intros args bfs H; cbn [bind_fields] in H.
  - inversion H. reflexivity.
  - match type of H with bind ?x _ = _ => destruct x as [v|e] end; cbn [bind] in H; [|discriminate].
    destruct (bind_fields r args) as [rest|e] eqn:Hr; cbn [bind] in H; [|discriminate].
    inversion H. cbn [map fst]. rewrite (IH args rest Hr). reflexivity.
Qed.

Definition class_keys (k : kind) : list string :=
  match class_fields k with Some cf => map fst cf | None => [] end.

Lemma bind_args_keys k args bfs : bind_args k args = Ok bfs -> map fst bfs = class_keys k.
Proof.
  unfold bind_args, class_keys. destruct (class_fields k) as [cf|]; [|discriminate].
  destruct (forallb _ args); [|discriminate]. apply bind_fields_keys.
Qed.
