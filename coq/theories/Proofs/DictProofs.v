(* DictProofs.v — property C13: the dictionary form is faithful.
   `from_dict (to_dict n)` rebuilds the node, for every node produced by the constructors (`built`).

   FINDING (counterexample `extra_keys_lost`, checked by computation at the end of the file): plain
   equality `from_dict (to_dict n) = Ok n` is FALSE for Input / Output / Flatten nodes whose type argument
   was a dictionary with more entries than the one the class serialises.  `Input.to_dict` stores only
   `input_type["input"]` under "shape" (Output: `output_type["output"]`; Flatten: `input_type["input"]`
   under "input_type"), so every other entry of that type dictionary is lost, e.g.
       Input(input_type={"a": array([1]), "input": (2, 3)})   has input_type {"a": .., "input": (2, 3)}
       from_dict(to_dict(it))                                  has input_type {"input": (2, 3)}.
   Nothing else is lost: kind, every field in order with its value, both types of the 14 other leaf
   kinds, the serialised entry itself — its container (tuple TSeq / array TArr) included, `tyv_round` —,
   child names and order, edges, metadata are rebuilt exactly.  (The two suspects named in the task —
   TSeq vs TArr, and the dtype/token that `pval_of_tyv` forgets — are NOT a problem: types keep only the
   numbers and the container, and both survive.)

   Main results
     str2kind_name, to_dict_keys_leaf, construct_keys                       (1), (2)
     construct_round  : construct k args = Ok (Leaf k' fs ti to) ->        (3), all 17 leaf kinds
                        from_dict (to_dict (Leaf k' fs ti to)) = Ok (Leaf k' fs (canon_tin k' ti) (canon_tout k' to))
     construct_idem   : ... -> leaf_single k' ti to -> from_dict (to_dict (Leaf ..)) = Ok (Leaf ..)   (plain =)
     construct_idem_plain : plain = without side condition for the 14 kinds other than Input/Output/Flatten
     dict_round_trip_canon : built n -> from_dict (to_dict n) = Ok (canon n)       (4), graphs of any depth
     dict_round_trip       : built n -> exists n', from_dict (to_dict n) = Ok n' /\ same_node n' n
     dict_round_trip_eq    : built n -> single_typed n -> from_dict (to_dict n) = Ok n        (plain =)
     same_node_eq          : same_node is `=` on single_typed nodes (the relation is not too weak)
     dict_round_trip_stable / _twice : a second round trip is the identity
   `canon` restricts the three serialised type dictionaries to the serialised entry (and recomputes the
   graph-level types from the children, as NIRGraph.__post_init__ does).
   Facts about Gen/Tables.v (GENERATED) are proved by computation only (vm_compute / cbn on the table),
   so they are re-checked whenever the table changes. *)
From NIR Require Import Model.Graph Model.Serial Proofs.MirrorClosedProofs.
From NIR Require Proofs.NodesProofs.
From Coq Require Import Lia List Bool String.

(* ---- (1) the type tag is read back ------------------------------------------------------------- *)
Lemma str2kind_name : forall k, str2kind (kind_name k) = Ok k.
Proof. intros k. destruct k; vm_compute; reflexivity. Qed.

(* ---- (2) keys of the dictionary of a leaf ------------------------------------------------------- *)
Lemma to_dict_keys_leaf : forall k fs tin tout,
  map fst (to_dict (Leaf k fs tin tout)) =
  map fst fs ++ ["type"] ++ (match k with
                             | KInput | KOutput => ["shape"]
                             | KFlatten => ["input_type"]
                             | _ => []
                             end).
Proof.
  intros k fs tin tout. destruct k; cbn [to_dict]; rewrite ?map_app; cbn [map fst app];
    rewrite ?app_nil_r; try reflexivity; rewrite <- app_assoc; reflexivity.
Qed.

(* ---- association-list helpers -------------------------------------------------------------------- *)
Lemma assoc_del_keys {A} k (l : list (string * A)) :
  map fst (assoc_del k l) = filter (fun f => negb (String.eqb f k)) (map fst l).
Proof.
  induction l as [|[k' v] r IH]; cbn [assoc_del map fst filter]; [reflexivity|].
  rewrite (String.eqb_sym k' k). destruct (String.eqb k k'); cbn [negb map fst]; rewrite IH; reflexivity.
Qed.

Lemma assoc_del_absent {A} k (l : list (string * A)) : assoc k l = None -> assoc_del k l = l.
Proof.
  induction l as [|[k' v] r IH]; cbn [assoc assoc_del]; [reflexivity|].
  destruct (String.eqb k k'); [discriminate|]. intros H. rewrite (IH H). reflexivity.
Qed.

Lemma assoc_del_app {A} k (a b : list (string * A)) : assoc_del k (a ++ b) = assoc_del k a ++ assoc_del k b.
Proof.
  induction a as [|[k' v] r IH]; cbn [assoc_del app]; [reflexivity|].
  destruct (String.eqb k k'); rewrite IH; reflexivity.
Qed.

Lemma assoc_app_none {A} k (a b : list (string * A)) : assoc k a = None -> assoc k (a ++ b) = assoc k b.
Proof.
  induction a as [|[k' v] r IH]; cbn [assoc app]; [reflexivity|].
  destruct (String.eqb k k'); [discriminate|exact IH].
Qed.

Lemma assoc_app_some {A} k (a b : list (string * A)) v : assoc k a = Some v -> assoc k (a ++ b) = Some v.
Proof.
  induction a as [|[k' v'] r IH]; cbn [assoc app]; [discriminate|].
  destruct (String.eqb k k'); [trivial|exact IH].
Qed.

Lemma assoc_none_keys {A} k (l : list (string * A)) : assoc k l = None <-> ~ In k (map fst l).
Proof.
  induction l as [|[k' v] r IH]; cbn [assoc map fst In].
  - split; [intros _ []|reflexivity].
  - destruct (String.eqb k k') eqn:E.
    + apply String.eqb_eq in E. subst k'. split; [discriminate|]. intros H. exfalso. apply H. left. reflexivity.
    + apply String.eqb_neq in E. rewrite IH. split.
      * intros H [H1|H1]; [congruence|contradiction].
      * intros H H1. apply H. right. exact H1.
Qed.

Lemma assoc_set_keys_present {A} k (v v0 : A) l :
  assoc k l = Some v0 -> map fst (assoc_set k v l) = map fst l.
Proof.
  induction l as [|[k' v'] r IH]; cbn [assoc assoc_set]; [discriminate|].
  destruct (String.eqb k k') eqn:E; cbn [map fst].
  - apply String.eqb_eq in E. subst k'. reflexivity.
  - intros H. rewrite (IH H). reflexivity.
Qed.

Lemma assoc_del_other {A} f k (l : list (string * A)) : f <> k -> assoc f (assoc_del k l) = assoc f l.
Proof.
  intros Hne. induction l as [|[k' v'] r IH]; cbn [assoc_del assoc]; [reflexivity|].
  destruct (String.eqb k k') eqn:E.
  - apply String.eqb_eq in E. subst k'.
    destruct (String.eqb f k) eqn:E2; [apply String.eqb_eq in E2; congruence|exact IH].
  - cbn [assoc]. destruct (String.eqb f k'); [reflexivity|exact IH].
Qed.

Lemma assoc_set_other' {A} (f k : string) (v : A) l : f <> k -> assoc f (assoc_set k v l) = assoc f l.
Proof.
  intros Hne. rewrite assoc_assoc_set.
  destruct (String.eqb f k) eqn:E; [apply String.eqb_eq in E; congruence|reflexivity].
Qed.

Lemma assoc_set_del_comm {A} a k (x : A) l :
  a <> k -> assoc_del k (assoc_set a x l) = assoc_set a x (assoc_del k l).
Proof.
  intros Hne. induction l as [|[k' v'] r IH]; cbn [assoc_set assoc_del].
  - destruct (String.eqb k a) eqn:E; [apply String.eqb_eq in E; congruence|reflexivity].
  - destruct (String.eqb a k') eqn:E1; destruct (String.eqb k k') eqn:E2; cbn [assoc_set assoc_del];
      rewrite ?E1, ?E2.
    + apply String.eqb_eq in E1. apply String.eqb_eq in E2. congruence.
    + apply String.eqb_eq in E1. subst k'. rewrite E2. reflexivity.
    + exact IH.
    + rewrite IH. reflexivity.
Qed.

Lemma drop_types_keys fs :
  map fst (drop_types fs) =
  filter (fun f => negb (String.eqb f "input_type" || String.eqb f "output_type")) (map fst fs).
Proof.
  unfold drop_types. rewrite !assoc_del_keys.
  induction (map fst fs) as [|f r IH]; cbn [filter]; [reflexivity|].
  destruct (String.eqb f "input_type"); cbn [negb orb]; [exact IH|].
  cbn [filter]. destruct (String.eqb f "output_type"); cbn [negb]; rewrite IH; reflexivity.
Qed.

Lemma drop_types_assoc f fs : f <> "input_type" -> f <> "output_type" -> assoc f (drop_types fs) = assoc f fs.
Proof. intros H1 H2. unfold drop_types. rewrite !assoc_del_other by assumption. reflexivity. Qed.

Lemma drop_types_set a x fs :
  a <> "input_type" -> a <> "output_type" -> drop_types (assoc_set a x fs) = assoc_set a x (drop_types fs).
Proof. intros H1 H2. unfold drop_types. rewrite !assoc_set_del_comm by assumption. reflexivity. Qed.

(* ---- the dataclass binding yields exactly the fields of the class, in order ------------------- *)
Lemma bind_fields_keys cf : forall args bfs, bind_fields cf args = Ok bfs -> map fst bfs = map fst cf.
Proof.
  induction cf as [|[f d] r IH]; intros args bfs H; cbn [bind_fields] in H.
  - inversion H. reflexivity.
  - match type of H with bind ?x _ = _ => destruct x as [v|e] end; cbn [bind] in H; [|discriminate].
    destruct (bind_fields r args) as [rest|e] eqn:Hr; cbn [bind] in H; [|discriminate].
    inversion H. cbn [map fst]. rewrite (IH args rest Hr). reflexivity.
Qed.

Definition class_keys (k : kind) : list string :=
  match class_fields k with Some cf => map fst cf | None => [] end.

Lemma bind_args_keys k args bfs : bind_args k args = Ok bfs -> map fst bfs = class_keys k.
Proof.
  unfold bind_args, class_keys. destruct (class_fields k) as [cf|]; [|discriminate].
  destruct (forallb _ args); [|discriminate]. apply bind_fields_keys.
Qed.

Lemma dict2node_tag f d k :
  assoc "type" d = Some (VStr (kind_name k)) ->
  dict2node (S f) d =
  match k with
  | KGraph => dict2node (S f) d
  | KInput =>
        match assoc "shape" d with
        | None => Err KeyError
        | Some sv => construct KInput (assoc_del "type" (assoc_del "shape"
                        (assoc_set "input_type" (VDict [("input", sv)]) d)))
        end
  | KOutput =>
        match assoc "shape" d with
        | None => Err KeyError
        | Some sv => construct KOutput (assoc_del "type" (assoc_del "shape"
                        (assoc_set "output_type" (VDict [("output", sv)]) d)))
        end
  | KFlatten =>
        let it := match assoc "input_type" d with Some v => v | None => VNone end in
        construct KFlatten (assoc_del "type" (assoc_set "input_type" (VDict [("input", it)]) d))
  | _ => construct k (assoc_del "type" d)
  end.
Proof.
  intros H. destruct k; [..|reflexivity]; cbn [dict2node]; rewrite H; cbn [bind];
    rewrite str2kind_name; cbn [bind]; reflexivity.
Qed.

(* kinds whose dictionary is just the fields plus the tag *)
Definition plain_kind (k : kind) : bool :=
  match k with KInput | KOutput | KFlatten | KGraph => false | _ => true end.

Lemma from_dict_plain k fs tin tout :
  plain_kind k = true -> assoc "type" fs = None ->
  from_dict (to_dict (Leaf k fs tin tout)) = construct k fs.
Proof.
  intros Hk Hn. unfold from_dict.
  assert (to_dict (Leaf k fs tin tout) = fs ++ [("type", VStr (kind_name k))]) as ->
    by (destruct k; try discriminate Hk; reflexivity).
  rewrite (dict2node_tag _ _ k) by (rewrite assoc_app_none by exact Hn; reflexivity).
  rewrite assoc_del_app, (assoc_del_absent _ _ Hn). cbn [assoc_del String.eqb Ascii.eqb Bool.eqb andb].
  rewrite app_nil_r. destruct k; try discriminate Hk; reflexivity.
Qed.

Ltac shape_list H :=
  repeat match type of H with
  | map fst ?l = _ :: _ =>
      destruct l as [|[? ?] ?]; [discriminate H|]; cbn [map fst] in H;
      let H1 := fresh in injection H as H1 H; subst
  | map fst ?l = [] => destruct l; [clear H|discriminate H]
  end.

Ltac ckeys Hb :=
  apply bind_args_keys in Hb;
  match type of Hb with _ = ?r => let r' := eval vm_compute in r in change r with r' in Hb end;
  shape_list Hb.


Ltac red_in H :=
  unfold post_init, elementwise, matvec in H;
  cbn [mapM fld_shape fld assoc String.eqb Ascii.eqb Bool.eqb andb bind] in H.
Ltac red_goal :=
  unfold post_init, elementwise, matvec;
  cbn [mapM fld_shape fld assoc String.eqb Ascii.eqb Bool.eqb andb bind].
Ltac rw_hyps := repeat match goal with E : ?x = _ |- context [?x] => rewrite E; cbn [bind] end.
Ltac compute_bind :=
  match goal with |- context [bind_args ?k ?l] =>
    let r := eval cbn [bind_args class_fields class_table kind_name assoc forallb mem_str keys map fst
                       bind_fields bind String.eqb Ascii.eqb Bool.eqb andb orb] in (bind_args k l) in
    change (bind_args k l) with r end; cbn [bind].
Ltac open_construct H Hb :=
  unfold construct in H;
  match type of H with bind (bind_args ?k ?a) _ = _ =>
    destruct (bind_args k a) as [?bfs|] eqn:Hb; cbn [bind] in H; [|discriminate H] end;
  ckeys Hb.



Ltac split_shapes H :=
  repeat match type of H with context [shape_attr ?v] =>
    destruct (shape_attr v) eqn:?; cbn [bind] in H; [|discriminate H] end.

Lemma bcast_rev_refl a : bcast_rev a a = Some a.
Proof.
  induction a as [|x a IH]; cbn [bcast_rev]; [reflexivity|]. rewrite IH, Z.eqb_refl. reflexivity.
Qed.
Lemma broadcast_shapes_refl a : broadcast_shapes a a = Some a.
Proof. unfold broadcast_shapes. rewrite bcast_rev_refl. cbn [option_map]. rewrite rev_involutive. reflexivity. Qed.

Lemma idem_cuba args k' fs tin tout :
  construct KCubaLIF args = Ok (Leaf k' fs tin tout) -> from_dict (to_dict (Leaf k' fs tin tout)) = Ok (Leaf k' fs tin tout).
Proof.
  intros H. open_construct H Hb. red_in H. split_shapes H.
  ok_walk H.
  match goal with E : _ = Ok (Leaf _ _ _ _) |- _ => ok_walk E end.
  match goal with E : shape_eqb _ _ = true |- _ => apply NodesProofs.shape_eqb_eq in E; subst end.
  cbn [drop_types assoc_del assoc_set String.eqb Ascii.eqb Bool.eqb andb].
  rewrite from_dict_plain by reflexivity. unfold construct. compute_bind. red_goal.
  rw_hyps. cbn [operand_shape bind]. rewrite broadcast_shapes_refl, NodesProofs.shape_eqb_refl.
  cbn [drop_types assoc_del assoc_set String.eqb Ascii.eqb Bool.eqb andb].
  reflexivity.
Qed.

Lemma pair_if_int_idem v : pair_if_int (pair_if_int v) = pair_if_int v.
Proof. destruct v; reflexivity. Qed.
Lemma pad_bad_pair v : pad_is_bad_string (pair_if_int v) = pad_is_bad_string v.
Proof. destruct v; reflexivity. Qed.

Ltac cbn_fields := cbn [drop_types assoc_del assoc_set String.eqb Ascii.eqb Bool.eqb andb].

Lemma idem_conv2d args k' fs tin tout :
  construct KConv2d args = Ok (Leaf k' fs tin tout) -> from_dict (to_dict (Leaf k' fs tin tout)) = Ok (Leaf k' fs tin tout).
Proof.
  intros H. open_construct H Hb. red_in H. cbn [assoc_set String.eqb Ascii.eqb Bool.eqb andb] in H.
  ok_walk H.
  all: cbn_fields; rewrite from_dict_plain by reflexivity; unfold construct; compute_bind; red_goal;
       cbn [assoc_set String.eqb Ascii.eqb Bool.eqb andb]; rewrite ?pad_bad_pair, ?pair_if_int_idem; rw_hyps;
       cbn_fields; reflexivity.
Qed.

Definition simple_kind (k : kind) : bool :=
  match k with KInput | KOutput | KFlatten | KGraph | KConv2d | KCubaLIF => false | _ => true end.

Lemma idem_simple k args k' fs tin tout : simple_kind k = true ->
  construct k args = Ok (Leaf k' fs tin tout) -> from_dict (to_dict (Leaf k' fs tin tout)) = Ok (Leaf k' fs tin tout).
Proof.
  intros Hk H. destruct k; try discriminate Hk; clear Hk; open_construct H Hb; red_in H; split_shapes H; ok_walk H.
  all: cbn_fields; rewrite from_dict_plain by reflexivity; unfold construct; compute_bind; red_goal; rw_hyps;
       cbn_fields; reflexivity.
Qed.

Definition restrict (key : string) (t : ty) : ty :=
  match t with
  | Some d => match assoc key d with Some v => Some [(key, v)] | None => t end
  | None => None
  end.

Lemma ints_view_VInt l : ints_view (map VInt l) = Some l.
Proof. induction l as [|z l IH]; cbn [map ints_view int_view]; [reflexivity|]. rewrite IH. reflexivity. Qed.

Lemma tyv_round v : tyv_of_pval (pval_of_tyv v) = v.
Proof. destruct v; cbn [pval_of_tyv tyv_of_pval]; try reflexivity. rewrite ints_view_VInt. reflexivity. Qed.

Ltac cbn_dict := cbn [to_dict app assoc assoc_del assoc_set kind_name String.eqb Ascii.eqb Bool.eqb andb].

Lemma idem_input args k' fs tin tout :
  construct KInput args = Ok (Leaf k' fs tin tout) ->
  from_dict (to_dict (Leaf k' fs tin tout)) = Ok (Leaf k' fs (restrict "input" tin) tout).
Proof.
  intros H. open_construct H Hb. red_in H. ok_walk H.
  cbn_fields. unfold from_dict. cbn_dict.
  rewrite (dict2node_tag _ _ KInput) by reflexivity. cbn_dict.
  unfold construct. compute_bind. red_goal. cbn [parse_shape map fst snd ty_get restrict bind].
  rw_hyps. rewrite tyv_round. cbn_dict. cbn_fields. reflexivity.
Qed.

Lemma idem_output args k' fs tin tout :
  construct KOutput args = Ok (Leaf k' fs tin tout) ->
  from_dict (to_dict (Leaf k' fs tin tout)) = Ok (Leaf k' fs tin (restrict "output" tout)).
Proof.
  intros H. open_construct H Hb. red_in H. ok_walk H.
  cbn_fields. unfold from_dict. cbn_dict.
  rewrite (dict2node_tag _ _ KOutput) by reflexivity. cbn_dict.
  unfold construct. compute_bind. red_goal. cbn [parse_shape map fst snd ty_get restrict bind].
  rw_hyps. rewrite tyv_round. cbn_dict. cbn_fields. reflexivity.
Qed.

Lemma idem_flatten args k' fs tin tout :
  construct KFlatten args = Ok (Leaf k' fs tin tout) ->
  from_dict (to_dict (Leaf k' fs tin tout)) = Ok (Leaf k' fs (restrict "input" tin) tout).
Proof.
  intros H. open_construct H Hb. red_in H. ok_walk H.
  all: try match goal with E : tyv_nums _ = Some _ |- _ =>
         cbn [tyv_nums] in E; first [discriminate E | injection E as E; subst] end.
  all: cbn_fields; unfold from_dict; cbn_dict;
       rewrite (dict2node_tag _ _ KFlatten) by reflexivity; cbn_dict;
       unfold construct; compute_bind; red_goal;
       cbn [parse_shape map fst snd ty_get restrict bind undef_ty assoc String.eqb Ascii.eqb Bool.eqb andb pval_of_tyv tyv_of_pval];
       rw_hyps; rewrite ?tyv_round; cbn_dict; cbn [tyv_nums]; rw_hyps; cbn_fields; reflexivity.
Qed.

(* ---- (2), second part: the fields of a constructed leaf --------------------------------------- *)
Lemma fld_assoc f fs v : fld f fs = Ok v -> assoc f fs = Some v.
Proof. unfold fld. destruct (assoc f fs); [intros H; inversion H; reflexivity|discriminate]. Qed.

Lemma post_init_keys k bfs k' fs tin tout :
  post_init k bfs = Ok (Leaf k' fs tin tout) -> map fst fs = map fst (drop_types bfs).
Proof.
  intros H. destruct k; unfold post_init, elementwise, matvec in H; ok_walk H; try reflexivity.
  1-11: rewrite !drop_types_keys; f_equal;
    rewrite (assoc_set_keys_present "dilation" _ a1)
      by (rewrite !assoc_set_other' by discriminate; apply fld_assoc; assumption);
    rewrite (assoc_set_keys_present "stride" _ a0)
      by (rewrite !assoc_set_other' by discriminate; apply fld_assoc; assumption);
    rewrite (assoc_set_keys_present "padding" _ a) by (apply fld_assoc; assumption);
    reflexivity.
  match goal with E : _ = Ok (Leaf _ _ _ _) |- _ => ok_walk E end.
  match goal with E : fld "w_in" _ = Ok ?w |- _ =>
    rewrite (assoc_set_keys_present "w_in" _ w)
      by (rewrite drop_types_assoc by discriminate; apply fld_assoc; exact E) end.
  reflexivity.
Qed.

Definition not_type_key (f : string) : bool :=
  negb (String.eqb f "input_type" || String.eqb f "output_type").

(* the fields of a constructed leaf are the dataclass fields of its class (generated table), in the
   order of the class, minus input_type / output_type — for all 17 kinds (for Input, Output and
   Flatten too: `drop_types` removes their type argument as well; it comes back through "shape" /
   "input_type" in the dictionary) *)
Theorem construct_keys : forall k args k' fs tin tout,
  construct k args = Ok (Leaf k' fs tin tout) ->
  map fst fs = filter not_type_key (class_keys k).
Proof.
  intros k args k' fs tin tout H. unfold construct in H.
  destruct (bind_args k args) as [bfs|] eqn:Hb; cbn [bind] in H; [|discriminate].
  apply post_init_keys in H. rewrite H, drop_types_keys. rewrite (bind_args_keys _ _ _ Hb). reflexivity.
Qed.

(* no class has a field called "type", "shape" (computation on the generated table) *)
Lemma class_keys_no_tag :
  forallb (fun k => negb (mem_str "type" (class_keys k)) && negb (mem_str "shape" (class_keys k))) all_kinds = true.
Proof. vm_compute. reflexivity. Qed.


(* ---- (3) construction followed by to_dict / from_dict -------------------------------------------- *)
Definition canon_tin (k : kind) (t : ty) : ty :=
  match k with KInput | KFlatten => restrict "input" t | _ => t end.
Definition canon_tout (k : kind) (t : ty) : ty :=
  match k with KOutput => restrict "output" t | _ => t end.

Theorem construct_round : forall k args k' fs tin tout,
  k <> KGraph -> construct k args = Ok (Leaf k' fs tin tout) ->
  from_dict (to_dict (Leaf k' fs tin tout)) = Ok (Leaf k' fs (canon_tin k' tin) (canon_tout k' tout)).
Proof.
  intros k args k' fs tin tout Hk H.
  assert (k' = k) as -> by (apply construct_kind in H; exact H).
  destruct k; try (exfalso; apply Hk; reflexivity);
    try (match type of H with construct ?k0 _ = _ => apply (idem_simple k0 args) end; [reflexivity|exact H]).
  - apply (idem_input args). exact H.
  - apply (idem_output args). exact H.
  - apply (idem_conv2d args). exact H.
  - apply (idem_flatten args). exact H.
  - apply (idem_cuba args). exact H.
Qed.

Definition ty_single (key : string) (t : ty) : Prop := exists v, t = Some [(key, v)].

Lemma restrict_single key t : ty_single key t -> restrict key t = t.
Proof. intros [v ->]. unfold restrict. cbn [assoc]. rewrite String.eqb_refl. reflexivity. Qed.

Lemma restrict_idem key t : restrict key (restrict key t) = restrict key t.
Proof.
  destruct t as [d|]; [|reflexivity].
  destruct (assoc key d) as [v|] eqn:E.
  - replace (restrict key (Some d)) with (Some [(key, v)]) by (unfold restrict; rewrite E; reflexivity).
    apply restrict_single. exists v. reflexivity.
  - replace (restrict key (Some d)) with (Some d) by (unfold restrict; rewrite E; reflexivity).
    unfold restrict. rewrite E. reflexivity.
Qed.

(* the type dictionaries that the dictionary form serialises have one entry *)
Definition leaf_single (k : kind) (tin tout : ty) : Prop :=
  match k with
  | KInput | KFlatten => ty_single "input" tin
  | KOutput => ty_single "output" tout
  | _ => True
  end.

(* IDEMPOTENCE OF CONSTRUCTION (plain equality), for every leaf kind *)
Theorem construct_idem : forall k args k' fs tin tout,
  k <> KGraph -> construct k args = Ok (Leaf k' fs tin tout) -> leaf_single k' tin tout ->
  from_dict (to_dict (Leaf k' fs tin tout)) = Ok (Leaf k' fs tin tout).
Proof.
  intros k args k' fs tin tout Hk H Hs. rewrite (construct_round k args k' fs tin tout Hk H).
  destruct k'; cbn [canon_tin canon_tout leaf_single] in *; rewrite ?restrict_single by exact Hs; reflexivity.
Qed.

Corollary construct_idem_plain : forall k args k' fs tin tout,
  plain_kind k = true -> construct k args = Ok (Leaf k' fs tin tout) ->
  from_dict (to_dict (Leaf k' fs tin tout)) = Ok (Leaf k' fs tin tout).
Proof.
  intros k args k' fs tin tout Hp H.
  assert (k' = k) as -> by (apply construct_kind in H; exact H).
  apply (construct_idem k args); [intros ->; discriminate Hp|exact H|].
  destruct k; try discriminate Hp; exact I.
Qed.

(* when is the serialised type dictionary single-entry: whenever the type argument is not a dictionary
   (array, tuple, list, str, None), or is a dictionary with exactly the serialised entry *)
Lemma parse_shape_single x key t :
  (forall kv, x <> VDict kv) -> parse_shape x key = Ok t -> ty_single key (Some t).
Proof.
  intros Hnd H. destruct x; cbn [parse_shape] in H; try discriminate H;
    try (inversion H; eexists; reflexivity).
  exfalso. eapply Hnd. reflexivity.
Qed.

Lemma parse_shape_dict1 key v : parse_shape (VDict [(key, v)]) key = Ok [(key, tyv_of_pval v)].
Proof. reflexivity. Qed.

(* ---- (4) nodes produced by the constructors ------------------------------------------------------ *)
Inductive built : node -> Prop :=
| built_leaf k args n : k <> KGraph -> construct k args = Ok n -> built n
| built_graph ch es m :
    NoDup (map fst ch) -> Forall (fun p => built (snd p)) ch -> built (mk_graph ch es m).

Section built_ind2.
  Variable P : node -> Prop.
  Hypothesis Hleaf : forall k args n, k <> KGraph -> construct k args = Ok n -> P n.
  Hypothesis Hgraph : forall ch es m,
    NoDup (map fst ch) -> Forall (fun p => built (snd p)) ch -> Forall (fun p => P (snd p)) ch ->
    P (mk_graph ch es m).

  Fixpoint built_ind2 (n : node) (b : built n) {struct b} : P n :=
    match b in built n0 return P n0 with
    | built_leaf k args n hk hc => Hleaf k args n hk hc
    | built_graph ch es m nd hf =>
      Hgraph ch es m nd hf
        ((fix go (l : list (string * node)) (h : Forall (fun p => built (snd p)) l) {struct h}
            : Forall (fun p => P (snd p)) l :=
            match h in Forall _ l0 return Forall (fun p => P (snd p)) l0 with
            | Forall_nil _ => Forall_nil _
            | @Forall_cons _ _ x r hx hr => Forall_cons x (built_ind2 (snd x) hx) (go r hr)
            end) ch hf)
    end.
End built_ind2.

(* what the round trip returns: the node with the three serialised type dictionaries restricted to the
   serialised entry, and the graph-level types recomputed from the children (NIRGraph.__post_init__) *)
Fixpoint canon (n : node) : node :=
  match n with
  | Leaf k fs tin tout => Leaf k fs (canon_tin k tin) (canon_tout k tout)
  | Graph ch es _ _ m => mk_graph (map (fun p => (fst p, canon (snd p))) ch) es m
  end.

(* ---- fuel ------------------------------------------------------------------------------------------- *)
Definition go_children (F : list (string * pval) -> result node) :=
  fix go (l : list (string * pval)) : result (list (string * node)) :=
    match l with
    | [] => Ok []
    | (name, v) :: r =>
      do c <- (match v with VDict cd => F cd | _ => Err TypeError end);
      do rest <- go r; Ok ((name, c) :: rest)
    end.

Lemma go_children_mono (F G : list (string * pval) -> result node) :
  (forall cd c, F cd = Ok c -> G cd = Ok c) ->
  forall l ch, go_children F l = Ok ch -> go_children G l = Ok ch.
Proof.
  intros HFG. induction l as [|[name v] r IH]; intros ch H; cbn [go_children] in *; [exact H|].
  destruct v; cbn [bind] in H; try discriminate H.
  destruct (F kv) as [c|e] eqn:Hc; cbn [bind] in H; [|discriminate H].
  rewrite (HFG _ _ Hc). cbn [bind].
  destruct (go_children F r) as [rest|e] eqn:Hr; cbn [bind] in H; [|discriminate H].
  rewrite (IH rest eq_refl). cbn [bind]. exact H.
Qed.

Lemma dict2node_mono : forall f d n, dict2node f d = Ok n -> forall f', (f <= f')%nat -> dict2node f' d = Ok n.
Proof.
  induction f as [|f IH]; intros d n H f' Hle; [discriminate H|].
  destruct f' as [|f']; [lia|]. assert (f <= f')%nat as Hle' by lia.
  cbn [dict2node] in *.
  destruct (assoc "type" d) as [tv|]; [|discriminate H].
  destruct tv; cbn [bind] in *; try discriminate H.
  destruct (str2kind s) as [k|e]; cbn [bind] in *; [|discriminate H].
  destruct k; try exact H.
  destruct (match assoc "nodes" d with
            | Some (VDict l) => Ok l | Some _ => Err AttributeError | None => Err KeyError end)
    as [nodesv|e]; cbn [bind] in *; [|discriminate H].
  match type of H with bind ?x _ = _ => destruct x as [ch|e] eqn:Hch end; cbn [bind] in H; [|discriminate H].
  apply (go_children_mono (dict2node f) (dict2node f')) in Hch; [|intros cd c Hc; apply (IH _ _ Hc); exact Hle'].
  unfold go_children in Hch. rewrite Hch. cbn [bind]. exact H.
Qed.

Lemma pval_depth_in (l : list (string * pval)) p :
  In p l -> (pval_depth (snd p) < pval_depth (VDict l))%nat.
Proof.
  cbn [pval_depth]. induction l as [|q r IH]; intros Hin; [destruct Hin|].
  cbn [fold_right]. destruct Hin as [->|Hin]; [lia|]. specialize (IH Hin). lia.
Qed.

Lemma edge_rows_to_dict (es : list (string * string)) :
  edge_rows (VList (map (fun e => VTuple [VStr (fst e); VStr (snd e)]) es)) = Ok es.
Proof.
  cbn [edge_rows]. induction es as [|[a b] es IH]; cbn [map mapM bind as_text fst snd]; [reflexivity|].
  rewrite IH. reflexivity.
Qed.

Definition child_dicts (ch : list (string * node)) : list (string * pval) :=
  map (fun p => (fst p, VDict (to_dict (snd p)))) ch.

Lemma go_children_to_dict (F : list (string * pval) -> result node) (G : node -> node) ch :
  Forall (fun p => F (to_dict (snd p)) = Ok (G (snd p))) ch ->
  go_children F (child_dicts ch) = Ok (map (fun p => (fst p, G (snd p))) ch).
Proof.
  induction 1 as [|[name c] r Hc _ IH]; cbn [child_dicts map go_children fst snd]; [reflexivity|].
  cbn [snd] in Hc. rewrite Hc. cbn [bind]. fold (child_dicts r). rewrite IH. reflexivity.
Qed.

(* one step of dict2node on the dictionary of a graph *)
Lemma dict2node_graph f ch es gi go m :
  dict2node (S f) (to_dict (Graph ch es gi go m)) =
  do ch' <- go_children (dict2node f) (child_dicts ch); Ok (mk_graph ch' es m).
Proof.
  cbn [dict2node to_dict assoc String.eqb Ascii.eqb Bool.eqb andb bind].
  change "NIRGraph" with (kind_name KGraph). rewrite str2kind_name. cbn [bind].
  fold (child_dicts ch). fold (go_children (dict2node f)).
  destruct (go_children (dict2node f) (child_dicts ch)) as [ch'|e]; cbn [bind]; [|reflexivity].
  rewrite edge_rows_to_dict. cbn [bind]. reflexivity.
Qed.

Theorem dict_round_trip_canon : forall n, built n -> from_dict (to_dict n) = Ok (canon n).
Proof.
  intros n Hb. induction Hb as [k args n Hk Hc|ch es m Hnd Hbs IH] using built_ind2.
  - destruct (construct_leaf _ _ _ Hc) as (fs & ti & to & ->).
    cbn [canon]. apply (construct_round k args k fs ti to Hk Hc).
  - unfold from_dict, mk_graph. rewrite dict2node_graph.
    rewrite (go_children_to_dict _ canon).
    + cbn [bind canon]. reflexivity.
    + rewrite Forall_forall in IH |- *. intros p Hin. specialize (IH p Hin).
      unfold from_dict in IH. apply (dict2node_mono _ _ _ IH).
      set (dG := to_dict (Graph ch es (graph_tin ch) (graph_tout ch) m)).
      assert (In ("nodes", VDict (child_dicts ch)) dG) as H1 by (left; reflexivity).
      apply pval_depth_in in H1. cbn [snd] in H1.
      assert (In (fst p, VDict (to_dict (snd p))) (child_dicts ch)) as H2
        by (unfold child_dicts; apply in_map_iff; exists p; split; [reflexivity|exact Hin]).
      apply pval_depth_in in H2. cbn [snd] in H2. lia.
Qed.

(* ---- equivalence of nodes -------------------------------------------------------------------------- *)
Section node_ind2.
  Variable P : node -> Prop.
  Hypothesis Hleaf : forall k fs ti to, P (Leaf k fs ti to).
  Hypothesis Hgraph : forall ch es gi go m, Forall (fun p => P (snd p)) ch -> P (Graph ch es gi go m).
  Fixpoint node_ind2 (n : node) : P n :=
    match n with
    | Leaf k fs ti to => Hleaf k fs ti to
    | Graph ch es gi go m =>
      Hgraph ch es gi go m
        ((fix go (l : list (string * node)) : Forall (fun p => P (snd p)) l :=
            match l with
            | [] => Forall_nil _
            | x :: r => Forall_cons x (node_ind2 (snd x)) (go r)
            end) ch)
    end.
End node_ind2.

(* graph-level types, restricted like the children's *)
Definition gcanon (key : string) (g : option (list (string * ty))) : option (list (string * ty)) :=
  option_map (map (fun p => (fst p, restrict key (snd p)))) g.

(* pairwise relation on children: same names in the same order, related nodes *)
Fixpoint all2 (R : node -> node -> Prop) (l l' : list (string * node)) : Prop :=
  match l, l' with
  | [], [] => True
  | x :: r, y :: r' => fst x = fst y /\ R (snd x) (snd y) /\ all2 R r r'
  | _, _ => False
  end.

(* SAME NODE, as far as the dictionary form can tell: same kind, same field list (names, order and
   values), same types — where for Input / Flatten (Output) only the "input" ("output") entry of the type
   dictionary is compared when it exists, because that is all `to_dict` stores (see the FINDING at the
   top; for every other kind the types are compared with `=`) —, for graphs the same child names in the
   same order with same children, same edge list, same metadata, same graph-level types (restricted in
   the same way). *)
Fixpoint same_node (a b : node) {struct a} : Prop :=
  match a, b with
  | Leaf k fs ti to, Leaf k' fs' ti' to' =>
      k = k' /\ fs = fs' /\ canon_tin k ti = canon_tin k ti' /\ canon_tout k to = canon_tout k to'
  | Graph ch es gi go m, Graph ch' es' gi' go' m' =>
      (fix all (l l' : list (string * node)) {struct l} : Prop :=
         match l, l' with
         | [], [] => True
         | x :: r, y :: r' => fst x = fst y /\ same_node (snd x) (snd y) /\ all r r'
         | _, _ => False
         end) ch ch'
      /\ es = es' /\ m = m' /\ gcanon "input" gi = gcanon "input" gi' /\ gcanon "output" go = gcanon "output" go'
  | _, _ => False
  end.

Lemma same_node_graph ch es gi go m ch' es' gi' go' m' :
  same_node (Graph ch es gi go m) (Graph ch' es' gi' go' m') <->
  all2 same_node ch ch' /\ es = es' /\ m = m' /\
  gcanon "input" gi = gcanon "input" gi' /\ gcanon "output" go = gcanon "output" go'.
Proof.
  cbn [same_node].
  assert (forall l l' : list (string * node),
    (fix all (l l' : list (string * node)) {struct l} : Prop :=
         match l, l' with
         | [], [] => True
         | x :: r, y :: r' => fst x = fst y /\ same_node (snd x) (snd y) /\ all r r'
         | _, _ => False
         end) l l' <-> all2 same_node l l') as Hall.
  { induction l as [|x r IH]; intros [|y r']; cbn [all2]; try reflexivity. rewrite IH. reflexivity. }
  rewrite Hall. reflexivity.
Qed.

Lemma same_node_refl : forall n, same_node n n.
Proof.
  induction n as [k fs ti to|ch es gi go m IH] using node_ind2.
  - cbn [same_node]. repeat split.
  - apply same_node_graph. repeat split.
    induction IH as [|x r Hx _ IHr]; cbn [all2]; [exact I|]. repeat split; assumption.
Qed.

Corollary eq_same_node a b : a = b -> same_node a b.
Proof. intros ->. apply same_node_refl. Qed.

Definition canon_child (p : string * node) : string * node := (fst p, canon (snd p)).

Lemma canon_graph ch es gi go m : canon (Graph ch es gi go m) = mk_graph (map canon_child ch) es m.
Proof. reflexivity. Qed.

Lemma is_input_canon n : is_input (canon n) = is_input n.
Proof. destruct n as [k fs ti to|ch es gi go m]; [destruct k|]; reflexivity. Qed.
Lemma is_output_canon n : is_output (canon n) = is_output n.
Proof. destruct n as [k fs ti to|ch es gi go m]; [destruct k|]; reflexivity. Qed.

Lemma filter_map_comm {A B} (f : A -> B) (q : B -> bool) (q' : A -> bool) l :
  (forall x, q (f x) = q' x) -> filter q (map f l) = map f (filter q' l).
Proof.
  intros H. induction l as [|x r IH]; cbn [map filter]; [reflexivity|].
  rewrite H. destruct (q' x); cbn [map]; rewrite IH; reflexivity.
Qed.

Lemma graph_tin_canon ch : graph_tin (map canon_child ch) = gcanon "input" (graph_tin ch).
Proof.
  unfold graph_tin, inputs.
  rewrite (filter_map_comm canon_child _ (fun p => is_input (snd p)))
    by (intros x; cbn [canon_child snd]; apply is_input_canon).
  assert (Forall (fun p => is_input (snd p) = true) (filter (fun p => is_input (snd p)) ch)) as HF
    by (apply Forall_forall; intros p Hp; apply filter_In in Hp; apply Hp).
  destruct HF as [|x r Hx HF]; [reflexivity|].
  cbn [map gcanon option_map]. f_equal. f_equal.
  - destruct x as [name [k fs ti to|? ? ? ? ?]]; cbn [snd is_input] in Hx; [|discriminate Hx].
    destruct k; try discriminate Hx. reflexivity.
  - rewrite !map_map. apply map_ext_in. intros [name c] Hin. rewrite Forall_forall in HF.
    specialize (HF _ Hin). cbn [snd fst canon_child] in *.
    destruct c as [k fs ti to|? ? ? ? ?]; cbn [is_input] in HF; [|discriminate HF].
    destruct k; try discriminate HF. reflexivity.
Qed.

Lemma graph_tout_canon ch : graph_tout (map canon_child ch) = gcanon "output" (graph_tout ch).
Proof.
  unfold graph_tout, outputs.
  rewrite (filter_map_comm canon_child _ (fun p => is_output (snd p)))
    by (intros x; cbn [canon_child snd]; apply is_output_canon).
  cbn [gcanon option_map]. f_equal.
  assert (Forall (fun p => is_output (snd p) = true) (filter (fun p => is_output (snd p)) ch)) as HF
    by (apply Forall_forall; intros p Hp; apply filter_In in Hp; apply Hp).
  rewrite !map_map. apply map_ext_in. intros [name c] Hin. rewrite Forall_forall in HF.
  specialize (HF _ Hin). cbn [snd fst canon_child] in *.
  destruct c as [k fs ti to|? ? ? ? ?]; cbn [is_output] in HF; [|discriminate HF].
  destruct k; try discriminate HF. reflexivity.
Qed.

Lemma gcanon_idem key g : gcanon key (gcanon key g) = gcanon key g.
Proof.
  destruct g as [l|]; [|reflexivity]. cbn [gcanon option_map]. f_equal. rewrite map_map.
  apply map_ext. intros p. cbn [fst snd]. rewrite restrict_idem. reflexivity.
Qed.

Lemma canon_tin_idem k t : canon_tin k (canon_tin k t) = canon_tin k t.
Proof. destruct k; cbn [canon_tin]; rewrite ?restrict_idem; reflexivity. Qed.
Lemma canon_tout_idem k t : canon_tout k (canon_tout k t) = canon_tout k t.
Proof. destruct k; cbn [canon_tout]; rewrite ?restrict_idem; reflexivity. Qed.

(* canon is a projection, and a canonical node is `same_node` as the original whenever the graph-level
   types mirror the children (true for every built node, MirrorClosedProofs) *)
Lemma canon_same : forall n, mirrors_deep n -> same_node (canon n) n.
Proof.
  induction n as [k fs ti to|ch es gi go m IH] using node_ind2; intros Hm.
  - cbn [canon same_node]. rewrite canon_tin_idem, canon_tout_idem. repeat split.
  - apply mirrors_deep_graph in Hm. destruct Hm as [[-> ->] Hch].
    rewrite canon_graph. unfold mk_graph. apply same_node_graph.
    rewrite graph_tin_canon, graph_tout_canon, !gcanon_idem. repeat split.
    induction IH as [|x r Hx _ IHr]; cbn [map all2]; [exact I|].
    inversion Hch as [|? ? Hmx Hmr]; subst. repeat split; [apply Hx; exact Hmx|apply IHr; exact Hmr].
Qed.

Lemma built_mirrors_deep : forall n, built n -> mirrors_deep n.
Proof.
  intros n Hb. induction Hb as [k args n Hk Hc|ch es m Hnd Hbs IH] using built_ind2.
  - destruct (construct_leaf _ _ _ Hc) as (fs & ti & to & ->). exact I.
  - apply mk_graph_mirrors_deep. exact IH.
Qed.

(* (4) THE ROUND TRIP *)
Theorem dict_round_trip : forall n, built n -> exists n', from_dict (to_dict n) = Ok n' /\ same_node n' n.
Proof.
  intros n Hb. exists (canon n). split; [apply dict_round_trip_canon; exact Hb|].
  apply canon_same. apply built_mirrors_deep. exact Hb.
Qed.

(* ---- plain equality, when the serialised type dictionaries are single-entry --------------------- *)
Fixpoint single_typed (n : node) : Prop :=
  match n with
  | Leaf k _ ti to => leaf_single k ti to
  | Graph ch _ _ _ _ =>
    (fix all (l : list (string * node)) : Prop :=
       match l with [] => True | p :: r => single_typed (snd p) /\ all r end) ch
  end.

Lemma single_typed_graph ch es gi go m :
  single_typed (Graph ch es gi go m) <-> Forall (fun p => single_typed (snd p)) ch.
Proof.
  cbn [single_typed]. induction ch as [|p r IH].
  - split; [constructor|trivial].
  - split.
    + intros [H1 H2]. constructor; [exact H1|apply IH; exact H2].
    + intros H. inversion H as [|? ? H1 H2]. split; [exact H1|apply IH; exact H2].
Qed.

Lemma canon_leaf_single k fs ti to :
  leaf_single k ti to -> canon (Leaf k fs ti to) = Leaf k fs ti to.
Proof.
  intros H. cbn [canon]. destruct k; cbn [canon_tin canon_tout leaf_single] in *;
    rewrite ?restrict_single by exact H; reflexivity.
Qed.

Lemma canon_id : forall n, mirrors_deep n -> single_typed n -> canon n = n.
Proof.
  induction n as [k fs ti to|ch es gi go m IH] using node_ind2; intros Hm Hs.
  - apply canon_leaf_single. exact Hs.
  - apply mirrors_deep_graph in Hm. destruct Hm as [[-> ->] Hch].
    apply single_typed_graph in Hs. rewrite canon_graph. unfold mk_graph.
    assert (map canon_child ch = ch) as ->; [|reflexivity].
    induction IH as [|x r Hx _ IHr]; cbn [map]; [reflexivity|].
    inversion Hch as [|? ? Hmx Hmr]; subst. inversion Hs as [|? ? Hsx Hsr]; subst.
    rewrite (IHr Hmr Hsr). unfold canon_child. rewrite (Hx Hmx Hsx). destruct x; reflexivity.
Qed.

(* the strongest form: plain equality *)
Theorem dict_round_trip_eq : forall n, built n -> single_typed n -> from_dict (to_dict n) = Ok n.
Proof.
  intros n Hb Hs. rewrite (dict_round_trip_canon n Hb).
  rewrite (canon_id n (built_mirrors_deep n Hb) Hs). reflexivity.
Qed.

(* `same_node` is plain equality on such nodes: the relation of (4) is not weaker than necessary *)
Lemma same_node_eq : forall a b,
  mirrors_deep a -> mirrors_deep b -> single_typed a -> single_typed b -> same_node a b -> a = b.
Proof.
  induction a as [k fs ti to|ch es gi go m IH] using node_ind2; intros b Hma Hmb Hsa Hsb H.
  - destruct b as [k' fs' ti' to'|]; [|destruct H]. cbn [same_node] in H.
    destruct H as (<- & <- & Hi & Ho). cbn [single_typed] in Hsa, Hsb.
    assert (ti = ti' /\ to = to') as [<- <-]; [|reflexivity].
    destruct k; cbn [canon_tin canon_tout leaf_single] in *;
      rewrite ?(restrict_single _ _ Hsa), ?(restrict_single _ _ Hsb) in *; split; assumption.
  - destruct b as [|ch' es' gi' go' m']; [destruct H|].
    apply same_node_graph in H. destruct H as (Hall & <- & <- & _ & _).
    apply mirrors_deep_graph in Hma. destruct Hma as [[-> ->] Hca].
    apply mirrors_deep_graph in Hmb. destruct Hmb as [[-> ->] Hcb].
    apply single_typed_graph in Hsa. apply single_typed_graph in Hsb.
    assert (ch = ch') as <-; [|reflexivity].
    revert ch' Hall Hcb Hsb.
    induction IH as [|x r Hx _ IHr]; intros [|y r'] Hall Hcb Hsb; cbn [all2] in Hall;
      try (destruct Hall; fail); [reflexivity|].
    destruct Hall as (Hn & Hxy & Hr).
    inversion Hca as [|? ? Hmx Hmr]; subst. inversion Hsa as [|? ? Hsx Hsr]; subst.
    inversion Hcb as [|? ? Hmy Hmr']; subst. inversion Hsb as [|? ? Hsy Hsr']; subst.
    rewrite (IHr Hmr Hsr r' Hr Hmr' Hsr').
    destruct x as [nx cx], y as [ny cy]. cbn [fst snd] in *.
    rewrite Hn, (Hx cy Hmx Hmy Hsx Hsy Hxy). reflexivity.
Qed.

(* ---- the round trip is a projection: a second round trip changes nothing ------------------------ *)
Lemma dict2node_leaf_built f d n :
  dict2node f d = Ok n -> is_graph n = false -> exists k args, k <> KGraph /\ construct k args = Ok n.
Proof.
  intros H Hg. destruct f as [|f]; [discriminate H|]. cbn [dict2node] in H.
  destruct (assoc "type" d) as [tv|]; [|discriminate H].
  destruct tv; cbn [bind] in H; try discriminate H.
  destruct (str2kind s) as [k|e]; cbn [bind] in H; [|discriminate H].
  destruct k; ok_walk H;
    try (eexists _, _; split; [|exact H]; discriminate).
  discriminate Hg.
Qed.

Lemma canon_idem : forall n, canon (canon n) = canon n.
Proof.
  induction n as [k fs ti to|ch es gi go m IH] using node_ind2.
  - cbn [canon]. rewrite canon_tin_idem, canon_tout_idem. reflexivity.
  - rewrite canon_graph. unfold mk_graph at 1. rewrite canon_graph. f_equal.
    rewrite map_map. apply map_ext_in. intros p Hin. rewrite Forall_forall in IH.
    unfold canon_child. cbn [fst snd]. rewrite (IH p Hin). reflexivity.
Qed.

Lemma built_canon : forall n, built n -> built (canon n).
Proof.
  intros n Hb. induction Hb as [k args n Hk Hc|ch es m Hnd Hbs IH] using built_ind2.
  - pose proof (dict_round_trip_canon n (built_leaf k args n Hk Hc)) as Hr. unfold from_dict in Hr.
    apply dict2node_leaf_built in Hr.
    + destruct Hr as (k2 & args2 & Hk2 & Hc2). exact (built_leaf k2 args2 _ Hk2 Hc2).
    + destruct (construct_leaf _ _ _ Hc) as (fs & ti & to & ->). reflexivity.
  - unfold mk_graph. rewrite canon_graph. apply built_graph.
    + rewrite map_map. cbn [canon_child fst]. exact Hnd.
    + apply Forall_forall. intros q Hq. apply in_map_iff in Hq. destruct Hq as (p & <- & Hin).
      rewrite Forall_forall in IH. exact (IH p Hin).
Qed.

Theorem dict_round_trip_stable : forall n, built n ->
  from_dict (to_dict (canon n)) = Ok (canon n).
Proof.
  intros n Hb. rewrite (dict_round_trip_canon _ (built_canon n Hb)). rewrite canon_idem. reflexivity.
Qed.

(* two round trips = one round trip *)
Corollary dict_round_trip_twice : forall n n1, built n -> from_dict (to_dict n) = Ok n1 ->
  from_dict (to_dict n1) = Ok n1.
Proof.
  intros n n1 Hb H. rewrite (dict_round_trip_canon n Hb) in H. inversion H. subst n1.
  apply dict_round_trip_stable. exact Hb.
Qed.

(* ---- the counterexample to plain equality (re-checked by computation) --------------------------- *)
Definition extra_key_input : list (string * pval) :=
  [("input_type", VDict [("a", VArr "int64" [1] 9 (Some [1])); ("input", VTuple [VInt 2; VInt 3])])].

Lemma extra_keys_lost :
  exists n n', construct KInput extra_key_input = Ok n /\ from_dict (to_dict n) = Ok n' /\ n' <> n /\
               n' = canon n.
Proof.
  eexists _, _. split; [vm_compute; reflexivity|]. split; [vm_compute; reflexivity|].
  split; [discriminate|vm_compute; reflexivity].
Qed.

Eval vm_compute in
  (match construct KInput extra_key_input with
   | Ok n => Some (node_tin n, match from_dict (to_dict n) with Ok n' => Some (node_tin n') | Err _ => None end)
   | Err _ => None end).


Corollary dict2node_fuel_plus : forall f k d n, dict2node f d = Ok n -> dict2node (f + k) d = Ok n.
Proof. intros f k d n H. apply (dict2node_mono f d n H). lia. Qed.

(* the field names of every leaf class as they appear in a constructed node (computed from the generated
   table; re-checked whenever it changes) *)
Eval vm_compute in map (fun k => (kind_name k, filter not_type_key (class_keys k))) all_kinds.

Print Assumptions str2kind_name.
Print Assumptions to_dict_keys_leaf.
Print Assumptions construct_keys.
Print Assumptions construct_round.
Print Assumptions construct_idem.
Print Assumptions construct_idem_plain.
Print Assumptions dict2node_mono.
Print Assumptions dict_round_trip_canon.
Print Assumptions dict_round_trip.
Print Assumptions dict_round_trip_eq.
Print Assumptions same_node_eq.
Print Assumptions dict_round_trip_stable.
Print Assumptions dict_round_trip_twice.
Print Assumptions extra_keys_lost.
