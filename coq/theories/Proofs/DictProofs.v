(* DictProofs.v — property C13: the dictionary form is faithful.
   `from_dict (to_dict n)` rebuilds the node, for every node produced by the constructors.

   FINDING (checked by `Eval vm_compute` below, see `extra_keys_lost`): plain equality
   `from_dict (to_dict n) = Ok n` is FALSE for Input / Output / Flatten nodes whose type argument was a
   dictionary with more entries than the one the class serialises: `Input.to_dict` stores only
   `input_type["input"]` under "shape" (Output: `output_type["output"]`, Flatten: `input_type["input"]`),
   so every other entry of the type dictionary is lost.  Everything else (kind, all fields in order with
   their values, both types of every other kind, the serialised entry of the type, container kind
   TSeq/TArr included) is rebuilt exactly.  Hence the theorems are stated with `canon`, which restricts
   those three type dictionaries to the serialised entry:
       from_dict (to_dict n) = Ok (canon n)              for every built n
       canon n = n                                      when the type dictionaries are single-entry
   Facts about Gen/Tables.v (GENERATED) are proved by computation only. *)
From NIR Require Import Model.Graph Model.Serial Proofs.MirrorClosedProofs.
From NIR Require Proofs.NodesProofs.
From Coq Require Import Lia List Bool String.

(* ---- (1) the type tag is read back ------------------------------------------------------------- *)
Lemma str2kind_name : forall k, str2kind (kind_name k) = Ok k.
Proof. intros k. destruct k; vm_compute; reflexivity. Qed.

(* ---- (2) keys of the dictionary of a leaf ------------------------------------------------------- *)
Lemma to_dict_keys_leaf : forall k fs tin tout,
  map fst (to_dict (Leaf k fs tin tout)) =
  map fst fs ++ ["type"] ++ (match k with
                             | KInput | KOutput => ["shape"]
                             | KFlatten => ["input_type"]
                             | _ => []
                             end).
Proof.
  intros k fs tin tout. destruct k; cbn [to_dict]; rewrite ?map_app; cbn [map fst app];
    rewrite ?app_nil_r; try reflexivity; rewrite <- app_assoc; reflexivity.
Qed.

(* ---- association-list helpers -------------------------------------------------------------------- *)
Lemma assoc_del_keys {A} k (l : list (string * A)) :
  map fst (assoc_del k l) = filter (fun f => negb (String.eqb f k)) (map fst l).
Proof.
  induction l as [|[k' v] r IH]; cbn [assoc_del map fst filter]; [reflexivity|].
  rewrite (String.eqb_sym k' k). destruct (String.eqb k k'); cbn [negb map fst]; rewrite IH; reflexivity.
Qed.

Lemma assoc_del_absent {A} k (l : list (string * A)) : assoc k l = None -> assoc_del k l = l.
Proof.
  induction l as [|[k' v] r IH]; cbn [assoc assoc_del]; [reflexivity|].
  destruct (String.eqb k k'); [discriminate|]. intros H. rewrite (IH H). reflexivity.
Qed.

Lemma assoc_del_app {A} k (a b : list (string * A)) : assoc_del k (a ++ b) = assoc_del k a ++ assoc_del k b.
Proof.
  induction a as [|[k' v] r IH]; cbn [assoc_del app]; [reflexivity|].
  destruct (String.eqb k k'); rewrite IH; reflexivity.
Qed.

Lemma assoc_app_none {A} k (a b : list (string * A)) : assoc k a = None -> assoc k (a ++ b) = assoc k b.
Proof.
  induction a as [|[k' v] r IH]; cbn [assoc app]; [reflexivity|].
  destruct (String.eqb k k'); [discriminate|exact IH].
Qed.

Lemma assoc_app_some {A} k (a b : list (string * A)) v : assoc k a = Some v -> assoc k (a ++ b) = Some v.
Proof.
  induction a as [|[k' v'] r IH]; cbn [assoc app]; [discriminate|].
  destruct (String.eqb k k'); [trivial|exact IH].
Qed.

Lemma assoc_none_keys {A} k (l : list (string * A)) : assoc k l = None <-> ~ In k (map fst l).
Proof.
  induction l as [|[k' v] r IH]; cbn [assoc map fst In].
  - split; [intros _ []|reflexivity].
  - destruct (String.eqb k k') eqn:E.
    + apply String.eqb_eq in E. subst k'. split; [discriminate|]. intros H. exfalso. apply H. left. reflexivity.
    + apply String.eqb_neq in E. rewrite IH. split.
      * intros H [H1|H1]; [congruence|contradiction].
      * intros H H1. apply H. right. exact H1.
Qed.

Lemma assoc_set_keys_present {A} k (v v0 : A) l :
  assoc k l = Some v0 -> map fst (assoc_set k v l) = map fst l.
Proof.
  induction l as [|[k' v'] r IH]; cbn [assoc assoc_set]; [discriminate|].
  destruct (String.eqb k k') eqn:E; cbn [map fst].
  - apply String.eqb_eq in E. subst k'. reflexivity.
  - intros H. rewrite (IH H). reflexivity.
Qed.

Lemma assoc_del_other {A} f k (l : list (string * A)) : f <> k -> assoc f (assoc_del k l) = assoc f l.
Proof.
  intros Hne. induction l as [|[k' v'] r IH]; cbn [assoc_del assoc]; [reflexivity|].
  destruct (String.eqb k k') eqn:E.
  - apply String.eqb_eq in E. subst k'.
    destruct (String.eqb f k) eqn:E2; [apply String.eqb_eq in E2; congruence|exact IH].
  - cbn [assoc]. destruct (String.eqb f k'); [reflexivity|exact IH].
Qed.

Lemma assoc_set_other' {A} (f k : string) (v : A) l : f <> k -> assoc f (assoc_set k v l) = assoc f l.
Proof.
  intros Hne. rewrite assoc_assoc_set.
  destruct (String.eqb f k) eqn:E; [apply String.eqb_eq in E; congruence|reflexivity].
Qed.

Lemma assoc_set_del_comm {A} a k (x : A) l :
  a <> k -> assoc_del k (assoc_set a x l) = assoc_set a x (assoc_del k l).
Proof.
  intros Hne. induction l as [|[k' v'] r IH]; cbn [assoc_set assoc_del].
  - destruct (String.eqb k a) eqn:E; [apply String.eqb_eq in E; congruence|reflexivity].
  - destruct (String.eqb a k') eqn:E1; destruct (String.eqb k k') eqn:E2; cbn [assoc_set assoc_del];
      rewrite ?E1, ?E2.
    + apply String.eqb_eq in E1. apply String.eqb_eq in E2. congruence.
    + apply String.eqb_eq in E1. subst k'. rewrite E2. reflexivity.
    + exact IH.
    + rewrite IH. reflexivity.
Qed.

Lemma drop_types_keys fs :
  map fst (drop_types fs) =
  filter (fun f => negb (String.eqb f "input_type" || String.eqb f "output_type")) (map fst fs).
Proof.
  unfold drop_types. rewrite !assoc_del_keys.
  induction (map fst fs) as [|f r IH]; cbn [filter]; [reflexivity|].
  destruct (String.eqb f "input_type"); cbn [negb orb]; [exact IH|].
  cbn [filter]. destruct (String.eqb f "output_type"); cbn [negb]; rewrite IH; reflexivity.
Qed.

Lemma drop_types_assoc f fs : f <> "input_type" -> f <> "output_type" -> assoc f (drop_types fs) = assoc f fs.
Proof. intros H1 H2. unfold drop_types. rewrite !assoc_del_other by assumption. reflexivity. Qed.

Lemma drop_types_set a x fs :
  a <> "input_type" -> a <> "output_type" -> drop_types (assoc_set a x fs) = assoc_set a x (drop_types fs).
Proof. intros H1 H2. unfold drop_types. rewrite !assoc_set_del_comm by assumption. reflexivity. Qed.

(* ---- the dataclass binding yields exactly the fields of the class, in order ------------------- *)
Lemma bind_fields_keys cf : forall args bfs, bind_fields cf args = Ok bfs -> map fst bfs = map fst cf.
Proof.
  induction cf as [|[f d] r IH]; intros args bfs H; cbn [bind_fields] in H.
  - inversion H. reflexivity.
  - match type of H with bind ?x _ = _ => destruct x as [v|e] end; cbn [bind] in H; [|discriminate].
    destruct (bind_fields r args) as [rest|e] eqn:Hr; cbn [bind] in H; [|discriminate].
    inversion H. cbn [map fst]. rewrite (IH args rest Hr). reflexivity.
Qed.

Definition class_keys (k : kind) : list string :=
  match class_fields k with Some cf => map fst cf | None => [] end.

Lemma bind_args_keys k args bfs : bind_args k args = Ok bfs -> map fst bfs = class_keys k.
Proof.
  unfold bind_args, class_keys. destruct (class_fields k) as [cf|]; [|discriminate].
  destruct (forallb _ args); [|discriminate]. apply bind_fields_keys.
Qed.

Lemma dict2node_tag f d k :
  assoc "type" d = Some (VStr (kind_name k)) ->
  dict2node (S f) d =
  match k with
  | KGraph => dict2node (S f) d
  | KInput =>
        match assoc "shape" d with
        | None => Err KeyError
        | Some sv => construct KInput (assoc_del "type" (assoc_del "shape"
                        (assoc_set "input_type" (VDict [("input", sv)]) d)))
        end
  | KOutput =>
        match assoc "shape" d with
        | None => Err KeyError
        | Some sv => construct KOutput (assoc_del "type" (assoc_del "shape"
                        (assoc_set "output_type" (VDict [("output", sv)]) d)))
        end
  | KFlatten =>
        let it := match assoc "input_type" d with Some v => v | None => VNone end in
        construct KFlatten (assoc_del "type" (assoc_set "input_type" (VDict [("input", it)]) d))
  | _ => construct k (assoc_del "type" d)
  end.
Proof.
  intros H. destruct k; [..|reflexivity]; cbn [dict2node]; rewrite H; cbn [bind];
    rewrite str2kind_name; cbn [bind]; reflexivity.
Qed.

(* kinds whose dictionary is just the fields plus the tag *)
Definition plain_kind (k : kind) : bool :=
  match k with KInput | KOutput | KFlatten | KGraph => false | _ => true end.

Lemma from_dict_plain k fs tin tout :
  plain_kind k = true -> assoc "type" fs = None ->
  from_dict (to_dict (Leaf k fs tin tout)) = construct k fs.
Proof.
  intros Hk Hn. unfold from_dict.
  assert (to_dict (Leaf k fs tin tout) = fs ++ [("type", VStr (kind_name k))]) as ->
    by (destruct k; try discriminate Hk; reflexivity).
  rewrite (dict2node_tag _ _ k) by (rewrite assoc_app_none by exact Hn; reflexivity).
  rewrite assoc_del_app, (assoc_del_absent _ _ Hn). cbn [assoc_del String.eqb Ascii.eqb Bool.eqb andb].
  rewrite app_nil_r. destruct k; try discriminate Hk; reflexivity.
Qed.

Ltac shape_list H :=
  repeat match type of H with
  | map fst ?l = _ :: _ =>
      destruct l as [|[? ?] ?]; [discriminate H|]; cbn [map fst] in H;
      let H1 := fresh in injection H as H1 H; subst
  | map fst ?l = [] => destruct l; [clear H|discriminate H]
  end.

Ltac ckeys Hb :=
  apply bind_args_keys in Hb;
  match type of Hb with _ = ?r => let r' := eval vm_compute in r in change r with r' in Hb end;
  shape_list Hb.


Ltac red_in H :=
  unfold post_init, elementwise, matvec in H;
  cbn [mapM fld_shape fld assoc String.eqb Ascii.eqb Bool.eqb andb bind] in H.
Ltac red_goal :=
  unfold post_init, elementwise, matvec;
  cbn [mapM fld_shape fld assoc String.eqb Ascii.eqb Bool.eqb andb bind].
Ltac rw_hyps := repeat match goal with E : ?x = _ |- context [?x] => rewrite E; cbn [bind] end.
Ltac compute_bind :=
  match goal with |- context [bind_args ?k ?l] =>
    let r := eval cbn [bind_args class_fields class_table kind_name assoc forallb mem_str keys map fst
                       bind_fields bind String.eqb Ascii.eqb Bool.eqb andb orb] in (bind_args k l) in
    change (bind_args k l) with r end; cbn [bind].
Ltac open_construct H Hb :=
  unfold construct in H;
  match type of H with bind (bind_args ?k ?a) _ = _ =>
    destruct (bind_args k a) as [?bfs|] eqn:Hb; cbn [bind] in H; [|discriminate H] end;
  ckeys Hb.



Ltac split_shapes H :=
  repeat match type of H with context [shape_attr ?v] =>
    destruct (shape_attr v) eqn:?; cbn [bind] in H; [|discriminate H] end.

Lemma bcast_rev_refl a : bcast_rev a a = Some a.
Proof.
  induction a as [|x a IH]; cbn [bcast_rev]; [reflexivity|]. rewrite IH, Z.eqb_refl. reflexivity.
Qed.
Lemma broadcast_shapes_refl a : broadcast_shapes a a = Some a.
Proof. unfold broadcast_shapes. rewrite bcast_rev_refl. cbn [option_map]. rewrite rev_involutive. reflexivity. Qed.

Lemma idem_cuba args k' fs tin tout :
  construct KCubaLIF args = Ok (Leaf k' fs tin tout) -> from_dict (to_dict (Leaf k' fs tin tout)) = Ok (Leaf k' fs tin tout).
Proof.
  intros H. open_construct H Hb. red_in H. split_shapes H.
  ok_walk H.
  match goal with E : _ = Ok (Leaf _ _ _ _) |- _ => ok_walk E end.
  match goal with E : shape_eqb _ _ = true |- _ => apply NodesProofs.shape_eqb_eq in E; subst end.
  cbn [drop_types assoc_del assoc_set String.eqb Ascii.eqb Bool.eqb andb].
  rewrite from_dict_plain by reflexivity. unfold construct. compute_bind. red_goal.
  rw_hyps. cbn [operand_shape bind]. rewrite broadcast_shapes_refl, NodesProofs.shape_eqb_refl.
  cbn [drop_types assoc_del assoc_set String.eqb Ascii.eqb Bool.eqb andb].
  reflexivity.
Qed.

Lemma pair_if_int_idem v : pair_if_int (pair_if_int v) = pair_if_int v.
Proof. destruct v; reflexivity. Qed.
Lemma pad_bad_pair v : pad_is_bad_string (pair_if_int v) = pad_is_bad_string v.
Proof. destruct v; reflexivity. Qed.

Ltac cbn_fields := cbn [drop_types assoc_del assoc_set String.eqb Ascii.eqb Bool.eqb andb].

Lemma idem_conv2d args k' fs tin tout :
  construct KConv2d args = Ok (Leaf k' fs tin tout) -> from_dict (to_dict (Leaf k' fs tin tout)) = Ok (Leaf k' fs tin tout).
Proof.
  intros H. open_construct H Hb. red_in H. cbn [assoc_set String.eqb Ascii.eqb Bool.eqb andb] in H.
  ok_walk H.
  all: cbn_fields; rewrite from_dict_plain by reflexivity; unfold construct; compute_bind; red_goal;
       cbn [assoc_set String.eqb Ascii.eqb Bool.eqb andb]; rewrite ?pad_bad_pair, ?pair_if_int_idem; rw_hyps;
       cbn_fields; reflexivity.
Qed.

Definition simple_kind (k : kind) : bool :=
  match k with KInput | KOutput | KFlatten | KGraph | KConv2d | KCubaLIF => false | _ => true end.

Lemma idem_simple k args k' fs tin tout : simple_kind k = true ->
  construct k args = Ok (Leaf k' fs tin tout) -> from_dict (to_dict (Leaf k' fs tin tout)) = Ok (Leaf k' fs tin tout).
Proof.
  intros Hk H. destruct k; try discriminate Hk; clear Hk; open_construct H Hb; red_in H; split_shapes H; ok_walk H.
  all: cbn_fields; rewrite from_dict_plain by reflexivity; unfold construct; compute_bind; red_goal; rw_hyps;
       cbn_fields; reflexivity.
Qed.

Definition restrict (key : string) (t : ty) : ty :=
  match t with
  | Some d => match assoc key d with Some v => Some [(key, v)] | None => t end
  | None => None
  end.

Lemma ints_view_VInt l : ints_view (map VInt l) = Some l.
Proof. induction l as [|z l IH]; cbn [map ints_view int_view]; [reflexivity|]. rewrite IH. reflexivity. Qed.

Lemma tyv_round v : tyv_of_pval (pval_of_tyv v) = v.
Proof. destruct v; cbn [pval_of_tyv tyv_of_pval]; try reflexivity. rewrite ints_view_VInt. reflexivity. Qed.

Ltac cbn_dict := cbn [to_dict app assoc assoc_del assoc_set kind_name String.eqb Ascii.eqb Bool.eqb andb].

Lemma idem_input args k' fs tin tout :
  construct KInput args = Ok (Leaf k' fs tin tout) ->
  from_dict (to_dict (Leaf k' fs tin tout)) = Ok (Leaf k' fs (restrict "input" tin) tout).
Proof.
  intros H. open_construct H Hb. red_in H. ok_walk H.
  cbn_fields. unfold from_dict. cbn_dict.
  rewrite (dict2node_tag _ _ KInput) by reflexivity. cbn_dict.
  unfold construct. compute_bind. red_goal. cbn [parse_shape map fst snd ty_get restrict bind].
  rw_hyps. rewrite tyv_round. cbn_dict. cbn_fields. reflexivity.
Qed.

Lemma idem_output args k' fs tin tout :
  construct KOutput args = Ok (Leaf k' fs tin tout) ->
  from_dict (to_dict (Leaf k' fs tin tout)) = Ok (Leaf k' fs tin (restrict "output" tout)).
Proof.
  intros H. open_construct H Hb. red_in H. ok_walk H.
  cbn_fields. unfold from_dict. cbn_dict.
  rewrite (dict2node_tag _ _ KOutput) by reflexivity. cbn_dict.
  unfold construct. compute_bind. red_goal. cbn [parse_shape map fst snd ty_get restrict bind].
  rw_hyps. rewrite tyv_round. cbn_dict. cbn_fields. reflexivity.
Qed.

Lemma idem_flatten args k' fs tin tout :
  construct KFlatten args = Ok (Leaf k' fs tin tout) ->
  from_dict (to_dict (Leaf k' fs tin tout)) = Ok (Leaf k' fs (restrict "input" tin) tout).
Proof.
  intros H. open_construct H Hb. red_in H. ok_walk H.
  all: try match goal with E : tyv_nums _ = Some _ |- _ =>
         cbn [tyv_nums] in E; first [discriminate E | injection E as E; subst] end.
  all: cbn_fields; unfold from_dict; cbn_dict;
       rewrite (dict2node_tag _ _ KFlatten) by reflexivity; cbn_dict;
       unfold construct; compute_bind; red_goal;
       cbn [parse_shape map fst snd ty_get restrict bind undef_ty assoc String.eqb Ascii.eqb Bool.eqb andb pval_of_tyv tyv_of_pval];
       rw_hyps; rewrite ?tyv_round; cbn_dict; cbn [tyv_nums]; rw_hyps; cbn_fields; reflexivity.
Qed.
