(* EventLoopProofs.v — property C20 for the event loop of the exact LIF simulator (Model/EventLoop.v):
   spike times and recorded voltages DO NOT DEPEND ON THE RECORDING INTERVAL, for any neuron whose operations
   satisfy the flow laws.

   Main results (all Qed, closed under the global context):
     C20_spikes      (G1)  two runs with recording intervals r1, r2 > 0 (same neuron, schedule, duration, enough
                           fuel): the spike lists restricted to times <= duration are pointwise ==.
     C20_volts       (G2)  a voltage recorded at tau1 in run 1 and at tau2 == tau1 in run 2: the voltages are ==
                           (no restriction tau <= duration is needed: it also holds for the last record of each
                           run, which lies beyond the duration).
     C20_spikes_ref, C20_volts_ref   closed forms w.r.t. the REFERENCE run [ref] (the same loop without record
                           events): the spikes <= duration of any run are those of the reference run, and a
                           voltage recorded at tau is [RecAt j tau x]: the voltage of the first reference state
                           whose segment contains tau, advanced to tau. Tie-breaking (see [live]): a record
                           coinciding with a spike records the value AFTER the reset (tau must be strictly before
                           the next spike of the segment), a record coinciding with an input change records the
                           value BEFORE the change (tau may equal the next input change of the segment).
     if_L0 .. if_L4, if_*_m          the integrate-and-fire instance [ifn] satisfies every law (L0-L4 and the
                           compatibility of all operations with ==), so the hypotheses are not vacuous;
     C20_if_spikes, C20_if_volts     the two theorems instantiated for [if_simulate].

   Hypotheses actually needed.  Only L0, L1, L2 and compatibility with the state equivalence: L3/L4 (shift of the
   predicted spike time under [advance]) are NOT needed, because [step] never recomputes l_spike at a record event —
   l_spike is an ABSOLUTE time that a record event leaves untouched.  (They are proved for the instance anyway.)
   The schedule must be sorted and non-negative (times_nonneg, times_sorted): otherwise the loop calls
   [advance] with a negative delta_t, about which the laws say nothing.
   The proofs only use 0 <= r (lemmas loop_inv, C20_*_ref); for r = 0 the loop never terminates, so that case is
   vacuous; the final theorems are stated with 0 < r as in the property.

   Observations on the model versus the Python loop (run_event_based_simulation):
     - empty schedule: the model starts with l_input = None (no input change ever); Python evaluates
       inputs.times[0] OUTSIDE the try/except and raises IndexError.
     - record_dt = 0: infinitely many records at time 0 (model: out of fuel -> None; Python: does not terminate);
       record_dt < 0: next_record_time decreases forever, delta_t is negative, current_time never exceeds the
       duration: same non-termination.
     - the initial next-spike time is +infinity whatever the initial state: a neuron that would already spike with
       zero input only does so after the first input change (same in model and Python).
     - the last event of a run lies BEYOND the duration and is still recorded (a spike or a record with time >
       duration); which one it is depends on the recording interval, hence (G1) is stated for the spikes <=
       duration (examples if_run_a / if_run_b below: raw spike lists [1;2;3] versus [1;2] for duration 29/10). *)
From Coq Require Import QArith List Lia Lqa Bool Setoid Morphisms.
From NIR Require Import Model.EventLoop.
Import ListNotations.
Open Scope Q_scope.

(* ---------- option Q up to Qeq, None = +infinity ---------------------------------------------------- *)
Definition oeq (a b : option Q) : Prop :=
  match a, b with
  | None, None => True
  | Some x, Some y => x == y
  | _, _ => False
  end.

Lemma oeq_refl a : oeq a a.
Proof. destruct a; cbn; [reflexivity | exact I]. Qed.

Lemma oeq_sym a b : oeq a b -> oeq b a.
Proof. destruct a, b; cbn; try tauto. intros H; symmetry; exact H. Qed.

Lemma oeq_trans a b c : oeq a b -> oeq b c -> oeq a c.
Proof. destruct a, b, c; cbn; try tauto. intros H1 H2; rewrite H1; exact H2. Qed.

Lemma Qle_bool_false x y : Qle_bool x y = false <-> y < x.
Proof.
  split.
  - intros H. apply Qnot_le_lt. intros C. apply Qle_bool_iff in C. congruence.
  - intros H. destruct (Qle_bool x y) eqn:E; [|reflexivity].
    apply Qle_bool_iff in E. exfalso. apply (Qlt_not_le _ _ H E).
Qed.

(* turn every boolean comparison of the context into a proposition *)
Ltac qprop :=
  repeat match goal with
         | H : Qle_bool _ _ = true |- _ => apply Qle_bool_iff in H
         | H : Qle_bool _ _ = false |- _ => apply Qle_bool_false in H
         | H : true = false |- _ => discriminate H
         | H : false = true |- _ => discriminate H
         | H : _ && _ = true |- _ => apply andb_true_iff in H; destruct H
         | H : negb _ = true |- _ => apply negb_true_iff in H
         | H : negb _ = false |- _ => apply negb_false_iff in H
         | |- Qle_bool _ _ = true => apply Qle_bool_iff
         | |- Qle_bool _ _ = false => apply Qle_bool_false
         end.

Lemma tle_oeq a a' b b' : oeq a a' -> oeq b b' -> tle a b = tle a' b'.
Proof.
  destruct a, a', b, b'; cbn; try tauto; intros H1 H2; try reflexivity.
  rewrite H1, H2. reflexivity.
Qed.

Lemma filter_rev {A} (f : A -> bool) l : filter f (rev l) = rev (filter f l).
Proof.
  induction l as [|x l IH]; cbn; [reflexivity|].
  rewrite filter_app, IH. cbn. destruct (f x); cbn; [reflexivity | apply app_nil_r].
Qed.

Lemma Forall2_rev' {A B} (R : A -> B -> Prop) l l' : Forall2 R l l' -> Forall2 R (rev l) (rev l').
Proof.
  induction 1 as [|x y l l' Hxy Hl IH]; cbn; [constructor|].
  apply Forall2_app; [exact IH | constructor; [exact Hxy | constructor]].
Qed.

Lemma filter_Qeq d l l' :
  Forall2 Qeq l l' ->
  Forall2 Qeq (filter (fun t => Qle_bool t d) l) (filter (fun t => Qle_bool t d) l').
Proof.
  induction 1 as [|x y l l' Hxy Hl IH]; cbn; [constructor|].
  rewrite Hxy. destruct (Qle_bool y d); [constructor; assumption | exact IH].
Qed.

Lemma Forall2_Qeq_refl l : Forall2 Qeq l l.
Proof. induction l; constructor; [reflexivity | assumption]. Qed.

Lemma Forall2_Qeq_sym l l' : Forall2 Qeq l l' -> Forall2 Qeq l' l.
Proof. induction 1; constructor; [symmetry|]; assumption. Qed.

Lemma Forall2_Qeq_trans l1 l2 l3 : Forall2 Qeq l1 l2 -> Forall2 Qeq l2 l3 -> Forall2 Qeq l1 l3.
Proof.
  intros H; revert l3. induction H as [|x y l l' Hxy Hl IH]; intros l3 H3; inversion H3; subst; constructor.
  - rewrite Hxy. assumption.
  - apply IH. assumption.
Qed.

Lemma tadd_ge t d : (forall x, d = Some x -> 0 <= x) -> tle (Some t) (tadd t d) = true.
Proof.
  intros H. destruct d as [x|]; cbn [tadd tle]; [|reflexivity].
  apply Qle_bool_iff. rewrite Qred_correct. specialize (H x eq_refl). lra.
Qed.

Lemma tadd_oeq t t' d d' : t == t' -> oeq d d' -> oeq (tadd t d) (tadd t' d').
Proof.
  intros Ht Hd. destruct d, d'; cbn [oeq tadd] in *; try tauto. rewrite !Qred_correct, Ht, Hd. reflexivity.
Qed.

#[local] Arguments l_time {V} _.
#[local] Arguments l_idx {V} _.
#[local] Arguments l_amp {V} _.
#[local] Arguments l_spike {V} _.
#[local] Arguments l_record {V} _.
#[local] Arguments l_input {V} _.
#[local] Arguments l_neuron {V} _.
#[local] Arguments l_volts {V} _.
#[local] Arguments l_spikes {V} _.
#[local] Arguments next_event {V} _.

Section C20.
  Variable V : Type.
  Variable advance : V -> Q -> Q -> V.
  Variable next_spike : V -> Q -> option Q.
  Variable reset : V -> V.
  Variable volt : V -> Q.

  (* state equivalence, respected by every operation *)
  Variable veq : V -> V -> Prop.
  Hypothesis veq_refl : forall v, veq v v.
  Hypothesis veq_sym : forall v w, veq v w -> veq w v.
  Hypothesis veq_trans : forall v w x, veq v w -> veq w x -> veq v x.
  Hypothesis advance_m : forall v v' i i' a a',
      veq v v' -> i == i' -> a == a' -> veq (advance v i a) (advance v' i' a').
  Hypothesis reset_m : forall v v', veq v v' -> veq (reset v) (reset v').
  Hypothesis volt_m : forall v v', veq v v' -> volt v == volt v'.
  Hypothesis next_m : forall v v' i i', veq v v' -> i == i' -> oeq (next_spike v i) (next_spike v' i').
  (* flow laws *)
  Hypothesis L0 : forall v i, veq (advance v i 0) v.
  Hypothesis L1 : forall v i a b, 0 <= a -> 0 <= b -> veq (advance (advance v i a) i b) (advance v i (a + b)).
  Hypothesis L2 : forall v i t, next_spike v i = Some t -> 0 <= t.

  Variable n0 : V.
  Variable times amps : list Q.
  Hypothesis times_nonneg : forall a, nth_error times 0 = Some a -> 0 <= a.
  Hypothesis times_sorted :
    forall i a b, nth_error times i = Some a -> nth_error times (S i) = Some b -> a <= b.

  Notation lst := (lstate V).
  Notation step := (step V advance next_spike reset volt times amps).
  Notation loop := (EventLoop.loop V advance next_spike reset volt).
  Notation simulate := (EventLoop.simulate V advance next_spike reset volt).

  (* the three branches of [step] *)
  Definition do_spike (s : lst) (t : Q) : lst :=
    let n1 := reset (advance (l_neuron s) (l_amp s) (Qred (t - l_time s))) in
    {| l_time := t; l_idx := l_idx s; l_amp := l_amp s;
       l_spike := tadd t (next_spike n1 (l_amp s));
       l_record := l_record s; l_input := l_input s; l_neuron := n1;
       l_volts := l_volts s; l_spikes := t :: l_spikes s |}.

  Definition do_record (record_dt : Q) (s : lst) : lst :=
    let t := l_record s in
    let n1 := advance (l_neuron s) (l_amp s) (Qred (t - l_time s)) in
    {| l_time := t; l_idx := l_idx s; l_amp := l_amp s; l_spike := l_spike s;
       l_record := Qred (t + record_dt); l_input := l_input s; l_neuron := n1;
       l_volts := (t, volt n1) :: l_volts s; l_spikes := l_spikes s |}.

  Definition do_input (s : lst) (t : Q) : lst :=
    let n1 := advance (l_neuron s) (l_amp s) (Qred (t - l_time s)) in
    let a := nth (l_idx s) amps 0 in
    {| l_time := t; l_idx := S (l_idx s); l_amp := a;
       l_spike := tadd t (next_spike n1 a);
       l_record := l_record s; l_input := time_at times (S (l_idx s)); l_neuron := n1;
       l_volts := l_volts s; l_spikes := l_spikes s |}.

  Lemma step_eq r s :
    step r s = match next_event s with
               | EvSpike => match l_spike s with None => s | Some t => do_spike s t end
               | EvRecord => do_record r s
               | EvInput => match l_input s with None => s | Some t => do_input s t end
               end.
  Proof. reflexivity. Qed.

  (* ---------- the reference run: the same loop without record events ------------------------------ *)
  Definition rstep (u : lst) : lst :=
    if tle (l_spike u) (l_input u)
    then match l_spike u with Some t => do_spike u t | None => u end
    else match l_input u with Some t => do_input u t | None => u end.

  Fixpoint ref (k : nat) : lst :=
    match k with O => init V n0 times 0 | S j => rstep (ref j) end.

  (* time of the next event of the reference run (None: no more events) *)
  Definition rnext_time (u : lst) : option Q :=
    if tle (l_spike u) (l_input u) then l_spike u else l_input u.

  Record RInv (u : lst) : Prop := {
    ri_input : l_input u = time_at times (l_idx u);
    ri_tsp : tle (Some (l_time u)) (l_spike u) = true;
    ri_tin : tle (Some (l_time u)) (l_input u) = true }.

  Ltac proj := cbn [l_time l_idx l_amp l_spike l_record l_input l_neuron l_volts l_spikes
                    do_spike do_record do_input].
  Ltac proj_in H := cbn [l_time l_idx l_amp l_spike l_record l_input l_neuron l_volts l_spikes
                    do_spike do_record do_input] in H.

  Lemma rinv_init : RInv (ref 0).
  Proof.
    constructor; cbn [ref init l_time l_idx l_spike l_input].
    - reflexivity.
    - reflexivity.
    - destruct (time_at times 0) as [a|] eqn:E; cbn [tle]; [|reflexivity].
      qprop. apply times_nonneg. exact E.
  Qed.

  Lemma rinv_step u : RInv u -> RInv (rstep u).
  Proof.
    intros [Hi Hs Hn]. unfold rstep. destruct (tle (l_spike u) (l_input u)) eqn:E.
    - destruct (l_spike u) as [t|] eqn:Es.
      + constructor; proj.
        * exact Hi.
        * apply tadd_ge. intros x Hx. eapply L2. exact Hx.
        * exact E.
      + constructor; [exact Hi | rewrite Es; exact Hs | exact Hn].
    - destruct (l_input u) as [t|] eqn:Ei.
      + constructor; proj.
        * reflexivity.
        * apply tadd_ge. intros x Hx. eapply L2. exact Hx.
        * destruct (time_at times (S (l_idx u))) as [b|] eqn:Eb; cbn [tle]; [|reflexivity].
          qprop. eapply times_sorted; [|exact Eb]. symmetry. exact Hi.
      + constructor; [rewrite Ei; exact Hi | exact Hs | rewrite Ei; exact Hn].
  Qed.

  Lemma ref_inv k : RInv (ref k).
  Proof. induction k as [|k IH]; [apply rinv_init | cbn [ref]; apply rinv_step; exact IH]. Qed.

  Lemma rnext_ge u : RInv u -> tle (Some (l_time u)) (rnext_time u) = true.
  Proof. intros [Hi Hs Hn]. unfold rnext_time. destruct (tle (l_spike u) (l_input u)); assumption. Qed.

  Lemma rstep_cases u :
    (rnext_time u = None /\ rstep u = u) \/
    (exists t, rnext_time u = Some t /\ l_time (rstep u) = t /\
               (l_spikes (rstep u) = t :: l_spikes u \/ l_spikes (rstep u) = l_spikes u)).
  Proof.
    unfold rnext_time, rstep. destruct (tle (l_spike u) (l_input u)) eqn:E.
    - destruct (l_spike u) as [t|] eqn:Es.
      + right. exists t. proj. timeout 20 auto.
      + left. timeout 20 auto.
    - destruct (l_input u) as [t|] eqn:Ei.
      + right. exists t. proj. timeout 20 auto.
      + left. timeout 20 auto.
  Qed.

  Lemma tle_lt_trans t X d : tle (Some t) X = true -> d < t -> tle X (Some d) = false.
  Proof.
    destruct X as [x|]; cbn [tle]; [|reflexivity]. intros H1 H2. qprop. lra.
  Qed.

  Lemma rstep_filter d u :
    RInv u -> tle (rnext_time u) (Some d) = false ->
    tle (rnext_time (rstep u)) (Some d) = false /\
    filter (fun t => Qle_bool t d) (l_spikes (rstep u)) = filter (fun t => Qle_bool t d) (l_spikes u).
  Proof.
    intros HI Hd. pose proof (rnext_ge _ (rinv_step _ HI)) as Hge.
    destruct (rstep_cases u) as [[Hn Hu]|[t [Hn [Ht Hsp]]]].
    - rewrite Hu. timeout 20 auto.
    - rewrite Hn in Hd. cbn [tle] in Hd. qprop. split.
      + eapply tle_lt_trans; [exact Hge|]. rewrite Ht. exact Hd.
      + destruct Hsp as [Hsp|Hsp]; rewrite Hsp; [|reflexivity].
        cbn [filter]. destruct (Qle_bool t d) eqn:E; [|reflexivity]. qprop. lra.
  Qed.

  Lemma ref_filter d k j :
    tle (rnext_time (ref k)) (Some d) = false ->
    tle (rnext_time (ref (j + k))) (Some d) = false /\
    filter (fun t => Qle_bool t d) (l_spikes (ref (j + k))) = filter (fun t => Qle_bool t d) (l_spikes (ref k)).
  Proof.
    intros Hd. induction j as [|j [IH1 IH2]]; [timeout 20 auto|].
    cbn [Nat.add ref]. destruct (rstep_filter d _ (ref_inv (j + k)) IH1) as [H1 H2].
    split; [exact H1 | congruence].
  Qed.

  Lemma ref_filter_any d k k' :
    tle (rnext_time (ref k)) (Some d) = false -> tle (rnext_time (ref k')) (Some d) = false ->
    filter (fun t => Qle_bool t d) (l_spikes (ref k)) = filter (fun t => Qle_bool t d) (l_spikes (ref k')).
  Proof.
    intros H1 H2. destruct (Nat.le_ge_cases k k') as [Hle|Hle].
    - replace k' with ((k' - k) + k)%nat by lia. symmetry. apply ref_filter. exact H1.
    - replace k with ((k - k') + k')%nat by lia. apply ref_filter. exact H2.
  Qed.

  (* ---------- relation between a state of a run WITH records and a state of the reference run ------- *)
  Record Rel (s u : lst) : Prop := {
    r_idx : l_idx s = l_idx u;
    r_amp : l_amp s = l_amp u;
    r_input : l_input s = l_input u;
    r_spike : oeq (l_spike s) (l_spike u);          (* ABSOLUTE next-spike time *)
    r_time : l_time u <= l_time s;
    r_neuron : veq (l_neuron s) (advance (l_neuron u) (l_amp u) (l_time s - l_time u));
    r_rec : l_time s <= l_record s;
    r_tsp : tle (Some (l_time s)) (l_spike s) = true;
    r_tin : tle (Some (l_time s)) (l_input s) = true;
    r_spikes : Forall2 Qeq (l_spikes s) (l_spikes u) }.

  Lemma adv_merge ns nu i ts tu t d :
    veq ns (advance nu i (ts - tu)) -> tu <= ts -> ts <= t -> d == t - ts ->
    veq (advance ns i d) (advance nu i (t - tu)).
  Proof.
    intros Hn H1 H2 Hd.
    eapply veq_trans; [apply advance_m; [exact Hn | reflexivity | exact Hd]|].
    eapply veq_trans; [apply L1; lra|].
    apply advance_m; [apply veq_refl | reflexivity | lra].
  Qed.

  Lemma adv_zero n i d : d == 0 -> veq n (advance n i d).
  Proof.
    intros Hd. apply veq_sym. eapply veq_trans; [|apply (L0 n i)].
    apply advance_m; [apply veq_refl | reflexivity | exact Hd].
  Qed.

  Lemma next_event_record (s : lst) :
    next_event s = EvRecord ->
    tle (l_spike s) (Some (l_record s)) = false /\ tle (Some (l_record s)) (l_input s) = true.
  Proof.
    unfold next_event. intros He.
    destruct (tle (l_spike s) (Some (l_record s)) && tle (l_spike s) (l_input s)) eqn:E1; [discriminate|].
    destruct (tle (Some (l_record s)) (l_input s)) eqn:E2; [|discriminate].
    split; [|reflexivity].
    destruct (l_spike s) as [x|], (l_input s) as [y|]; cbn [tle] in *; try reflexivity.
    - apply andb_false_iff in E1. destruct E1 as [E1|E1]; [exact E1|]. qprop. lra.
    - rewrite andb_true_r in E1. exact E1.
  Qed.

  Lemma next_event_spike (s : lst) :
    next_event s = EvSpike ->
    exists t, l_spike s = Some t /\ t <= l_record s /\ tle (Some t) (l_input s) = true.
  Proof.
    unfold next_event. intros He.
    destruct (tle (l_spike s) (Some (l_record s)) && tle (l_spike s) (l_input s)) eqn:E1.
    - apply andb_true_iff in E1. destruct E1 as [E1 E2].
      destruct (l_spike s) as [t|]; cbn [tle] in E1; [|discriminate].
      exists t. qprop. timeout 20 auto.
    - destruct (tle (Some (l_record s)) (l_input s)); discriminate.
  Qed.

  Lemma next_event_input (s : lst) :
    next_event s = EvInput ->
    exists t, l_input s = Some t /\ t < l_record s /\ tle (l_spike s) (Some t) = false.
  Proof.
    unfold next_event. intros He.
    destruct (tle (l_spike s) (Some (l_record s)) && tle (l_spike s) (l_input s)) eqn:E1; [discriminate|].
    destruct (tle (Some (l_record s)) (l_input s)) eqn:E2; [discriminate|].
    destruct (l_input s) as [t|]; cbn [tle] in E2; [|discriminate].
    exists t. qprop. split; [reflexivity|]. split; [exact E2|].
    destruct (l_spike s) as [x|]; cbn [tle] in *; [|reflexivity].
    apply andb_false_iff in E1. destruct E1 as [E1|E1]; qprop; [lra | exact E1].
  Qed.

  Lemma rel_record r s u :
    0 <= r -> Rel s u -> next_event s = EvRecord -> Rel (do_record r s) u.
  Proof.
    intros Hr [Ri Ra Rin Rsp Rt Rn Rr Rts Rti Rsps] He.
    apply next_event_record in He. destruct He as [E1 E2].
    constructor; proj; try assumption.
    - lra.
    - rewrite <- Ra. eapply adv_merge; [rewrite Ra; exact Rn | exact Rt | exact Rr | apply Qred_correct].
    - rewrite Qred_correct. lra.
    - destruct (l_spike s) as [x|]; cbn [tle] in *; [|reflexivity]. qprop. lra.
  Qed.

  Lemma rel_spike s u t :
    Rel s u -> next_event s = EvSpike -> l_spike s = Some t ->
    exists t', l_spike u = Some t' /\ t == t' /\ rstep u = do_spike u t' /\
               Rel (do_spike s t) (do_spike u t').
  Proof.
    intros [Ri Ra Rin Rsp Rt Rn Rr Rts Rti Rsps] He Es.
    destruct (next_event_spike _ He) as [t0 [Es0 [Hrec Hin]]].
    rewrite Es in Es0. injection Es0 as <-.
    rewrite Es in Rsp, Rts. cbn [tle] in Rts. qprop.
    destruct (l_spike u) as [t'|] eqn:Eu; cbn [oeq] in Rsp; [|tauto].
    exists t'. split; [reflexivity|]. split; [exact Rsp|].
    assert (Hin' : tle (Some t') (l_input u) = true).
    { rewrite <- Rin. rewrite <- (tle_oeq (Some t) (Some t') _ _ Rsp (oeq_refl _)). exact Hin. }
    split.
    { unfold rstep. rewrite Eu, Hin'. reflexivity. }
    assert (Hn1 : veq (reset (advance (l_neuron s) (l_amp s) (Qred (t - l_time s))))
                      (reset (advance (l_neuron u) (l_amp u) (Qred (t' - l_time u))))).
    { apply reset_m. rewrite Ra.
      eapply veq_trans; [eapply (adv_merge _ _ _ _ _ t); [exact Rn | exact Rt | exact Rts | apply Qred_correct]|].
      apply advance_m; [apply veq_refl | reflexivity |]. rewrite Qred_correct, Rsp. reflexivity. }
    constructor; proj.
    - exact Ri.
    - exact Ra.
    - exact Rin.
    - apply tadd_oeq; [exact Rsp|]. apply next_m; [exact Hn1 | rewrite Ra; reflexivity].
    - lra.
    - eapply veq_trans; [exact Hn1|]. apply adv_zero. lra.
    - exact Hrec.
    - apply tadd_ge. intros x Hx. eapply L2. exact Hx.
    - exact Hin.
    - constructor; [exact Rsp | exact Rsps].
  Qed.

  Lemma rel_input s u t :
    Rel s u -> RInv u -> next_event s = EvInput -> l_input s = Some t ->
    l_input u = Some t /\ rstep u = do_input u t /\ Rel (do_input s t) (do_input u t).
  Proof.
    intros [Ri Ra Rin Rsp Rt Rn Rr Rts Rti Rsps] [Ui _ _] He Ei.
    destruct (next_event_input _ He) as [t0 [Ei0 [Hrec Hsp]]].
    rewrite Ei in Ei0. injection Ei0 as <-.
    rewrite Ei in Rin, Rti. cbn [tle] in Rti. qprop. symmetry in Rin.
    split; [exact Rin|].
    assert (Hsp' : tle (l_spike u) (Some t) = false).
    { rewrite (tle_oeq _ _ _ _ (oeq_sym _ _ Rsp) (oeq_refl (Some t))). exact Hsp. }
    split.
    { unfold rstep. rewrite Rin, Hsp'. reflexivity. }
    assert (Hn1 : veq (advance (l_neuron s) (l_amp s) (Qred (t - l_time s)))
                      (advance (l_neuron u) (l_amp u) (Qred (t - l_time u)))).
    { rewrite Ra.
      eapply veq_trans; [eapply (adv_merge _ _ _ _ _ t); [exact Rn | exact Rt | exact Rti | apply Qred_correct]|].
      apply advance_m; [apply veq_refl | reflexivity |]. rewrite Qred_correct. reflexivity. }
    constructor; proj.
    - rewrite Ri. reflexivity.
    - rewrite Ri. reflexivity.
    - rewrite Ri. reflexivity.
    - apply tadd_oeq; [reflexivity|]. apply next_m; [exact Hn1 | rewrite Ri; reflexivity].
    - lra.
    - eapply veq_trans; [exact Hn1|]. apply adv_zero. lra.
    - lra.
    - apply tadd_ge. intros x Hx. eapply L2. exact Hx.
    - destruct (time_at times (S (l_idx s))) as [b|] eqn:Eb; cbn [tle]; [|reflexivity].
      qprop. eapply times_sorted; [|exact Eb]. rewrite Ri. change (time_at times (l_idx u) = Some t). rewrite <- Ui. exact Rin.
    - exact Rsps.
  Qed.

  (* ---------- which reference segment a record time falls into -------------------------------------- *)
  (* [live u tau]: with the tie-breaking of the loop (spike < record < input change), a record at time tau
     is taken BEFORE the next event of u: tau is strictly before the next spike and not after the next
     input change. *)
  Definition live (u : lst) (tau : Q) : Prop :=
    tle (l_spike u) (Some tau) = false /\ tle (Some tau) (l_input u) = true.

  Lemma live_mono u tau tau' : ~ live u tau -> tau <= tau' -> ~ live u tau'.
  Proof.
    intros H Hle [C1 C2]. apply H. split.
    - destruct (l_spike u) as [x|]; cbn [tle] in *; [|reflexivity]. qprop. lra.
    - destruct (l_input u) as [y|]; cbn [tle] in *; [|reflexivity]. qprop. lra.
  Qed.

  Lemma live_Qeq u tau tau' : tau == tau' -> live u tau -> live u tau'.
  Proof.
    intros He [C1 C2]. split.
    - rewrite <- (tle_oeq _ _ (Some tau) (Some tau') (oeq_refl _) He). exact C1.
    - rewrite <- (tle_oeq (Some tau) (Some tau') _ _ He (oeq_refl _)). exact C2.
  Qed.

  (* [RecAt j tau x]: x is the voltage of the reference run at time tau: the j-th reference state is the FIRST
     one whose segment contains tau, and x is the voltage of that state advanced to tau. *)
  Definition RecAt (j : nat) (tau x : Q) : Prop :=
    live (ref j) tau /\ (forall i, (i < j)%nat -> ~ live (ref i) tau) /\ l_time (ref j) <= tau /\
    x == volt (advance (l_neuron (ref j)) (l_amp (ref j)) (tau - l_time (ref j))).

  Lemma RecAt_unique j j' tau tau' x x' :
    RecAt j tau x -> RecAt j' tau' x' -> tau == tau' -> x == x'.
  Proof.
    intros [A1 [A2 [A3 A4]]] [B1 [B2 [B3 B4]]] He.
    assert (Hj : j = j').
    { destruct (lt_eq_lt_dec j j') as [[H|H]|H]; [|exact H|].
      - exfalso. apply (B2 j H). eapply live_Qeq; [exact He | exact A1].
      - exfalso. apply (A2 j' H). eapply live_Qeq; [symmetry; exact He | exact B1]. }
    subst j'. rewrite A4, B4. apply volt_m.
    apply advance_m; [apply veq_refl | reflexivity | rewrite He; reflexivity].
  Qed.

  Record Inv (s : lst) (k : nat) : Prop := {
    i_rel : Rel s (ref k);
    i_first : forall i, (i < k)%nat -> ~ live (ref i) (l_record s);
    i_volts : forall tau x, In (tau, x) (l_volts s) -> exists j, RecAt j tau x }.

  Lemma inv_init r : 0 <= r -> Inv (init V n0 times r) 0.
  Proof.
    intros Hr. constructor.
    - constructor; cbn [ref init l_time l_idx l_amp l_spike l_record l_input l_neuron l_volts l_spikes];
        try reflexivity; try exact I.
      + lra.
      + apply adv_zero. lra.
      + exact Hr.
      + exact (ri_tin _ rinv_init).
      + constructor.
    - intros i Hi. lia.
    - cbn [init l_volts]. intros tau x [].
  Qed.

  Lemma inv_step r s k : 0 <= r -> Inv s k -> Inv (step r s) k \/ Inv (step r s) (S k).
  Proof.
    intros Hr [R Hf Hv]. rewrite step_eq. destruct (next_event s) eqn:He.
    - (* spike *)
      destruct (next_event_spike _ He) as [t [Es [Hrec _]]]. rewrite Es. right.
      destruct (rel_spike _ _ _ R He Es) as [t' [Eu [Ht [Hstep HR]]]].
      constructor.
      + cbn [ref]. rewrite Hstep. exact HR.
      + proj. intros i Hi [C1 C2]. assert (Hik : (i < k)%nat \/ i = k) by lia.
        destruct Hik as [Hik|Hik]; [exact (Hf i Hik (conj C1 C2))|]. subst i.
        rewrite Eu in C1. cbn [tle] in C1. qprop. lra.
      + proj. exact Hv.
    - (* record *)
      left. destruct (next_event_record _ He) as [E1 E2]. constructor.
      + apply rel_record; assumption.
      + proj. intros i Hi. eapply live_mono; [exact (Hf i Hi)|]. rewrite Qred_correct. lra.
      + proj. intros tau x [Heq|Hin]; [|exact (Hv tau x Hin)].
        injection Heq as <- <-. exists k. destruct R as [Ri Ra Rin Rsp Rt Rn Rr Rts Rti Rsps].
        split; [|split; [exact Hf|split; [lra|]]].
        * split.
          -- rewrite <- (tle_oeq _ _ _ _ Rsp (oeq_refl (Some (l_record s)))). exact E1.
          -- rewrite <- Rin. exact E2.
        * apply volt_m. rewrite Ra.
          eapply adv_merge; [exact Rn | exact Rt | exact Rr | exact (Qred_correct (l_record s - l_time s))].
    - (* input change *)
      destruct (next_event_input _ He) as [t [Ei [Hrec _]]]. rewrite Ei. right.
      destruct (rel_input _ _ _ R (ref_inv k) He Ei) as [Eu [Hstep HR]].
      constructor.
      + cbn [ref]. rewrite Hstep. exact HR.
      + proj. intros i Hi [C1 C2]. assert (Hik : (i < k)%nat \/ i = k) by lia.
        destruct Hik as [Hik|Hik]; [exact (Hf i Hik (conj C1 C2))|]. subst i.
        rewrite Eu in C2. cbn [tle] in C2. qprop. lra.
      + proj. exact Hv.
  Qed.

  Lemma loop_inv r d : 0 <= r -> forall fuel s k sN,
    Inv s k -> loop fuel times amps r d s = Some sN -> exists kN, Inv sN kN /\ d < l_time sN.
  Proof.
    intros Hr. induction fuel as [|fuel IH]; intros s k sN HI HL; cbn [EventLoop.loop] in HL; [discriminate|].
    destruct (Qle_bool (l_time s) d) eqn:E.
    - destruct (inv_step r s k Hr HI) as [HI'|HI']; eapply IH; eassumption.
    - injection HL as <-. exists k. qprop. split; assumption.
  Qed.

  Lemma rel_next_gt s u d : Rel s u -> d < l_time s -> tle (rnext_time u) (Some d) = false.
  Proof.
    intros [Ri Ra Rin Rsp Rt Rn Rr Rts Rti Rsps] Hd. unfold rnext_time.
    destruct (tle (l_spike u) (l_input u)).
    - rewrite <- (tle_oeq _ _ _ _ Rsp (oeq_refl (Some d))). eapply tle_lt_trans; eassumption.
    - rewrite <- Rin. eapply tle_lt_trans; eassumption.
  Qed.

  Lemma simulate_inv fuel r d volts spikes :
    0 <= r -> simulate fuel n0 times amps r d = Some (volts, spikes) ->
    exists sN kN, volts = rev (l_volts sN) /\ spikes = rev (l_spikes sN) /\ Inv sN kN /\ d < l_time sN.
  Proof.
    intros Hr. unfold EventLoop.simulate.
    destruct (loop fuel times amps r d (init V n0 times r)) as [sN|] eqn:HL; [|discriminate].
    intros H. injection H as <- <-.
    destruct (loop_inv r d Hr _ _ _ _ (inv_init r Hr) HL) as [kN [HI Hd]].
    exists sN, kN. timeout 20 auto.
  Qed.

  (* ---------- closed forms: a run with records versus the reference run ------------------------------- *)
  Theorem C20_spikes_ref fuel r d volts spikes k :
    0 <= r -> simulate fuel n0 times amps r d = Some (volts, spikes) ->
    tle (rnext_time (ref k)) (Some d) = false ->        (* the k-th reference state is past the duration *)
    Forall2 Qeq (filter (fun t => Qle_bool t d) spikes)
                (rev (filter (fun t => Qle_bool t d) (l_spikes (ref k)))).
  Proof.
    intros Hr HS Hk. destruct (simulate_inv _ _ _ _ _ Hr HS) as [sN [kN [_ [-> [[R _ _] Hd]]]]].
    rewrite filter_rev. apply Forall2_rev'.
    rewrite (ref_filter_any d k kN Hk (rel_next_gt _ _ _ R Hd)).
    apply filter_Qeq. exact (r_spikes _ _ R).
  Qed.

  Theorem C20_volts_ref fuel r d volts spikes tau x :
    0 <= r -> simulate fuel n0 times amps r d = Some (volts, spikes) ->
    In (tau, x) volts -> exists j, RecAt j tau x.
  Proof.
    intros Hr HS Hin. destruct (simulate_inv _ _ _ _ _ Hr HS) as [sN [kN [-> [_ [[_ _ Hv] _]]]]].
    apply in_rev in Hin. exact (Hv tau x Hin).
  Qed.

  (* ---------- C20: independence of the recording interval -------------------------------------------- *)
  Theorem C20_spikes fuel1 fuel2 r1 r2 d volts1 spikes1 volts2 spikes2 :
    0 < r1 -> 0 < r2 ->
    simulate fuel1 n0 times amps r1 d = Some (volts1, spikes1) ->
    simulate fuel2 n0 times amps r2 d = Some (volts2, spikes2) ->
    Forall2 Qeq (filter (fun t => Qle_bool t d) spikes1) (filter (fun t => Qle_bool t d) spikes2).
  Proof.
    intros Hr1 Hr2 H1 H2. apply Qlt_le_weak in Hr1, Hr2.
    destruct (simulate_inv _ _ _ _ _ Hr1 H1) as [s1 [k1 [_ [_ [[R1 _ _] Hd1]]]]].
    pose proof (rel_next_gt _ _ _ R1 Hd1) as Hk.
    eapply Forall2_Qeq_trans; [exact (C20_spikes_ref _ _ _ _ _ k1 Hr1 H1 Hk)|].
    apply Forall2_Qeq_sym. exact (C20_spikes_ref _ _ _ _ _ k1 Hr2 H2 Hk).
  Qed.

  Theorem C20_volts fuel1 fuel2 r1 r2 d volts1 spikes1 volts2 spikes2 tau1 x1 tau2 x2 :
    0 < r1 -> 0 < r2 ->
    simulate fuel1 n0 times amps r1 d = Some (volts1, spikes1) ->
    simulate fuel2 n0 times amps r2 d = Some (volts2, spikes2) ->
    In (tau1, x1) volts1 -> In (tau2, x2) volts2 -> tau1 == tau2 -> x1 == x2.
  Proof.
    intros Hr1 Hr2 H1 H2 I1 I2 He. apply Qlt_le_weak in Hr1, Hr2.
    destruct (C20_volts_ref _ _ _ _ _ _ _ Hr1 H1 I1) as [j1 A1].
    destruct (C20_volts_ref _ _ _ _ _ _ _ Hr2 H2 I2) as [j2 A2].
    exact (RecAt_unique _ _ _ _ _ _ A1 A2 He).
  Qed.
End C20.

(* ---------- the integrate-and-fire instance satisfies the laws (the hypotheses are not vacuous) --------- *)
Definition if_veq (n n' : ifn) : Prop :=
  if_r n = if_r n' /\ if_thr n = if_thr n' /\ if_v n == if_v n'.

Lemma if_veq_refl n : if_veq n n.
Proof. unfold if_veq. repeat split; reflexivity. Qed.

Lemma if_veq_sym n n' : if_veq n n' -> if_veq n' n.
Proof. unfold if_veq. intros [H1 [H2 H3]]. repeat split; symmetry; assumption. Qed.

Lemma if_veq_trans n1 n2 n3 : if_veq n1 n2 -> if_veq n2 n3 -> if_veq n1 n3.
Proof.
  unfold if_veq. intros [H1 [H2 H3]] [K1 [K2 K3]].
  repeat split; [congruence | congruence | rewrite H3; exact K3].
Qed.

Lemma if_advance_m n n' i i' a a' :
  if_veq n n' -> i == i' -> a == a' -> if_veq (if_advance n i a) (if_advance n' i' a').
Proof.
  unfold if_veq, if_advance. cbn [if_v if_r if_thr]. intros [H1 [H2 H3]] Hi Ha.
  repeat split; [assumption | assumption |].
  rewrite !Qred_correct, H1, H3, Hi, Ha. reflexivity.
Qed.

Lemma if_reset_m n n' : if_veq n n' -> if_veq (if_reset n) (if_reset n').
Proof.
  unfold if_veq, if_reset. cbn [if_v if_r if_thr]. intros [H1 [H2 H3]].
  repeat split; [assumption | assumption |].
  rewrite !Qred_correct, H2, H3. reflexivity.
Qed.

Lemma if_volt_m n n' : if_veq n n' -> if_v n == if_v n'.
Proof. intros [_ [_ H]]. exact H. Qed.

Lemma if_next_m n n' i i' : if_veq n n' -> i == i' -> oeq (if_next n i) (if_next n' i').
Proof.
  unfold if_veq, if_next. intros [H1 [H2 H3]] Hi. rewrite <- H1, <- H2.
  assert (Hd : Qred (if_r n * i) == Qred (if_r n * i')) by (rewrite !Qred_correct, Hi; reflexivity).
  assert (Ht : Qred ((if_thr n - if_v n) / Qred (if_r n * i)) ==
               Qred ((if_thr n - if_v n') / Qred (if_r n * i'))).
  { rewrite (Qred_correct ((if_thr n - if_v n) / _)), (Qred_correct ((if_thr n - if_v n') / _)).
    rewrite Hd, H3. reflexivity. }
  rewrite <- Hd. destruct (Qle_bool (Qred (if_r n * i)) 0); [exact I|].
  rewrite <- Ht. destruct (Qle_bool 0 (Qred ((if_thr n - if_v n) / Qred (if_r n * i)))); [exact Ht | exact I].
Qed.

Lemma if_L0 n i : if_veq (if_advance n i 0) n.
Proof.
  unfold if_veq, if_advance. cbn [if_v if_r if_thr]. repeat split.
  rewrite Qred_correct. ring.
Qed.

Lemma if_L1 n i a b :
  0 <= a -> 0 <= b -> if_veq (if_advance (if_advance n i a) i b) (if_advance n i (a + b)).
Proof.
  intros _ _. unfold if_veq, if_advance. cbn [if_v if_r if_thr]. repeat split.
  rewrite !Qred_correct. ring.
Qed.

Lemma if_L2 n i t : if_next n i = Some t -> 0 <= t.
Proof.
  unfold if_next. destruct (Qle_bool (Qred (if_r n * i)) 0); [discriminate|].
  destruct (Qle_bool 0 (Qred ((if_thr n - if_v n) / Qred (if_r n * i)))) eqn:E; [|discriminate].
  intros H. injection H as <-. qprop. exact E.
Qed.

(* time to threshold after advancing by a *)
Lemma if_shift n i a :
  0 < if_r n * i ->
  Qred ((if_thr n - Qred (if_v n + if_r n * i * a)) / Qred (if_r n * i)) ==
  Qred ((if_thr n - if_v n) / Qred (if_r n * i)) - a.
Proof.
  intros Hd. rewrite (Qred_correct (_ / _)), (Qred_correct (_ / _)). rewrite !Qred_correct.
  field. split; intros C; rewrite C in Hd; lra.
Qed.

Lemma if_L3 n i t a :
  if_next n i = Some t -> 0 <= a -> a < t ->
  exists t', if_next (if_advance n i a) i = Some t' /\ a + t' == t.
Proof.
  unfold if_next, if_advance. cbn [if_v if_r if_thr].
  destruct (Qle_bool (Qred (if_r n * i)) 0) eqn:Ed; [discriminate|].
  destruct (Qle_bool 0 (Qred ((if_thr n - if_v n) / Qred (if_r n * i)))) eqn:E; [|discriminate].
  intros H Ha Hat.
  assert (Ht : t = Qred ((if_thr n - if_v n) / Qred (if_r n * i))) by congruence. clear H. subst t.
  apply Qle_bool_false in Ed. rewrite Qred_correct in Ed.
  pose proof (if_shift n i a Ed) as Hs.
  destruct (Qle_bool 0 (Qred ((if_thr n - Qred (if_v n + if_r n * i * a)) / Qred (if_r n * i)))) eqn:E'.
  - eexists. split; [reflexivity|]. rewrite Hs. ring.
  - exfalso. apply Qle_bool_false in E'. rewrite Hs in E'. lra.
Qed.

Lemma if_L4 n i a : if_next n i = None -> 0 <= a -> if_next (if_advance n i a) i = None.
Proof.
  unfold if_next, if_advance. cbn [if_v if_r if_thr].
  destruct (Qle_bool (Qred (if_r n * i)) 0) eqn:Ed; [reflexivity|].
  destruct (Qle_bool 0 (Qred ((if_thr n - if_v n) / Qred (if_r n * i)))) eqn:E; [discriminate|].
  intros _ Ha.
  apply Qle_bool_false in Ed. rewrite Qred_correct in Ed.
  pose proof (if_shift n i a Ed) as Hs.
  destruct (Qle_bool 0 (Qred ((if_thr n - Qred (if_v n + if_r n * i * a)) / Qred (if_r n * i)))) eqn:E';
    [|reflexivity].
  exfalso. apply Qle_bool_iff in E'. apply Qle_bool_false in E. rewrite Hs in E'. lra.
Qed.

(* ---------- C20 for the concrete integrate-and-fire simulator ---------------------------------------- *)
Theorem C20_if_spikes fuel1 fuel2 r thr times amps r1 r2 d volts1 spikes1 volts2 spikes2 :
  (forall a, nth_error times 0 = Some a -> 0 <= a) ->
  (forall i a b, nth_error times i = Some a -> nth_error times (S i) = Some b -> a <= b) ->
  0 < r1 -> 0 < r2 ->
  if_simulate fuel1 r thr times amps r1 d = Some (volts1, spikes1) ->
  if_simulate fuel2 r thr times amps r2 d = Some (volts2, spikes2) ->
  Forall2 Qeq (filter (fun t => Qle_bool t d) spikes1) (filter (fun t => Qle_bool t d) spikes2).
Proof.
  unfold if_simulate. intros H0 Hs Hr1 Hr2 H1 H2.
  exact (C20_spikes ifn if_advance if_next if_reset if_v if_veq if_veq_refl if_veq_sym if_veq_trans if_advance_m if_reset_m if_volt_m if_next_m if_L0 if_L1 if_L2
           _ times amps H0 Hs _ _ _ _ _ _ _ _ _ Hr1 Hr2 H1 H2).
Qed.

Theorem C20_if_volts fuel1 fuel2 r thr times amps r1 r2 d volts1 spikes1 volts2 spikes2 tau1 x1 tau2 x2 :
  (forall a, nth_error times 0 = Some a -> 0 <= a) ->
  (forall i a b, nth_error times i = Some a -> nth_error times (S i) = Some b -> a <= b) ->
  0 < r1 -> 0 < r2 ->
  if_simulate fuel1 r thr times amps r1 d = Some (volts1, spikes1) ->
  if_simulate fuel2 r thr times amps r2 d = Some (volts2, spikes2) ->
  In (tau1, x1) volts1 -> In (tau2, x2) volts2 -> tau1 == tau2 -> x1 == x2.
Proof.
  unfold if_simulate. intros H0 Hs Hr1 Hr2 H1 H2 I1 I2 He.
  exact (C20_volts ifn if_advance if_next if_reset if_v if_veq if_veq_refl if_veq_sym if_veq_trans if_advance_m if_reset_m if_volt_m if_next_m if_L0 if_L1 if_L2
           _ times amps H0 Hs _ _ _ _ _ _ _ _ _ _ _ _ _ Hr1 Hr2 H1 H2 I1 I2 He).
Qed.

(* concrete runs (the premises "simulate = Some _" are satisfiable): drive 1 from t = 0, threshold 1, duration
   29/10.  Recording every 1/2: the last event is the spike at 3 > duration, which is recorded; recording every
   59/20: the last event is the record at 59/20, the spike at 3 is never reached.  The raw spike lists differ,
   their restrictions to times <= duration agree — this is why (G1) carries the restriction. *)
Example if_run_a :
  option_map snd (if_simulate 100 1 1 [0] [1] (1#2) (29#10)) = Some [1; 2; 3].
Proof. vm_compute. reflexivity. Qed.

Example if_run_b :
  if_simulate 100 1 1 [0] [1] (59#20) (29#10) = Some ([(59#20, 19#20)], [1; 2]).
Proof. vm_compute. reflexivity. Qed.

Print Assumptions C20_spikes.
Print Assumptions C20_volts.
Print Assumptions C20_spikes_ref.
Print Assumptions C20_volts_ref.
Print Assumptions C20_if_spikes.
Print Assumptions C20_if_volts.
Print Assumptions if_L3.
Print Assumptions if_L4.
