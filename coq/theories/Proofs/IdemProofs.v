(* IdemProofs.v — property C10, "running type inference a second time changes nothing".

   The statement  forall g g1, flat g -> infer_types g = (g1, Finished) -> infer_types g1 = (g1, Finished)
   is FALSE in the model; three independent counterexamples are checked by computation at the end of
   this file (`counterexample_*`):
   (CE1) an Output node that is the SOURCE of an edge and has two predecessors: its output type follows
         its input type, so it changes during the run; a successor fed by it and by another node may end
         with a type that has the right numbers but a different container (TSeq vs TArr) or key in the
         second run;
   (CE2) a type value that is neither None nor an array/sequence (TOther): the first run copies it into an
         empty input type, the second run then compares TOther with TOther and np.array_equal raises;
   (CE3) graph-level types that do not agree with the children (e.g. a graph without Input child whose
         input_type was given by hand): the first run refreshes them, the second run refuses to start.
   What is proved (`Print Assumptions`: closed under the global context):
   - `infer_idempotent_graph` / `infer_idempotent` / `infer_idempotent_mk`: idempotence when child names
     are distinct (a dictionary), NO OUTPUT NODE IS THE SOURCE OF AN EDGE, no output type contains TOther
     and the graph-level input type recomputed from the children is defined (automatic for mk_graph).
     Nested graphs among the children, cycles, inconsistent edges, several predecessors, undefined
     Conv/Pool/Flatten types, arbitrary keys and containers in the types are all allowed.
   - `infer_idempotent_canonical` / `_mk`: Output nodes MAY be sources, provided every child is a leaf
     whose types are in the canonical form written by the constructors and by the loop itself:
     {"input": v} and {"output": w} with v, w None or an array.
   Proof: both runs pop the same edges in the same order (the schedule depends on names, kinds and the
   seen/ready lists only); run 2 starts from the final state F of run 1, and at every common step each
   child of run 2 is related (`rel`, resp. equality in the canonical case) to the child of run 1 and to
   its final value in F; when run 1 stops, the relation collapses to "run 2 state = F". *)
From NIR Require Import Model.Graph Proofs.NodesProofs Proofs.InferProofs.
From Coq Require Import Lia.

(* ---- small list facts ------------------------------------------------------------------------------ *)
Lemma idem_pop_last_snoc {A} (l : list A) x : pop_last (l ++ [x]) = Some (l, x).
Proof. unfold pop_last. rewrite rev_app_distr. cbn [rev app]. rewrite rev_involutive. reflexivity. Qed.

Lemma idem_NoDup_In_assoc {A} k (l : list (string * A)) v :
  NoDup (map fst l) -> In (k, v) l -> assoc k l = Some v.
Proof.
  induction l as [|[k' v'] r IH]; cbn [map fst In assoc]; [intros _ []|].
  intros Hnd Hin. inversion Hnd as [|? ? Hni Hnd']; subst.
  destruct Hin as [Hin|Hin].
  - inversion Hin; subst. rewrite String.eqb_refl. reflexivity.
  - destruct (String.eqb k k') eqn:E; [|apply IH; assumption].
    apply String.eqb_eq in E. subst k'. exfalso. apply Hni.
    change k with (fst (k, v)). apply in_map. exact Hin.
Qed.

Lemma idem_assoc_In {A} k (l : list (string * A)) v : assoc k l = Some v -> In (k, v) l.
Proof.
  induction l as [|[k' v'] r IH]; cbn [assoc In]; [discriminate|].
  destruct (String.eqb k k') eqn:E.
  - intros H. inversion H; subst. apply String.eqb_eq in E. subst. left. reflexivity.
  - intros H. right. apply IH. exact H.
Qed.

Lemma idem_keys_assoc {A} k (l : list (string * A)) : In k (map fst l) -> exists v, assoc k l = Some v.
Proof.
  induction l as [|[k' v'] r IH]; cbn [map fst In assoc]; [intros []|].
  intros H. destruct (String.eqb k k') eqn:E; [eexists; reflexivity|].
  destruct H as [H|H]; [subst; rewrite String.eqb_refl in E; discriminate|apply IH; exact H].
Qed.

(* two dictionaries with the same distinct keys and the same lookups are equal *)
Lemma idem_assoc_ext {A} (a : list (string * A)) : forall b,
  NoDup (map fst a) -> map fst b = map fst a ->
  (forall k v, assoc k a = Some v -> assoc k b = Some v) -> b = a.
Proof.
  induction a as [|[k0 v0] r IH]; intros b Hnd Hk H.
  - destruct b; [reflexivity|discriminate].
  - destruct b as [|[k1 v1] r']; [discriminate|]. cbn [map fst] in Hk. inversion Hk as [[Hk1 Hk2]]. subst k1.
    inversion Hnd as [|? ? Hni Hnd']; subst.
    pose proof (H k0 v0) as H0. cbn [assoc] in H0. rewrite String.eqb_refl in H0.
    specialize (H0 eq_refl). inversion H0; subst v1. f_equal.
    apply IH; [exact Hnd'|exact Hk2|].
    intros k v Hkv. assert (Hne : String.eqb k k0 = false).
    { destruct (String.eqb k k0) eqn:E; [|reflexivity]. apply String.eqb_eq in E. subst k.
      exfalso. apply Hni. eapply assoc_in_keys. exact Hkv. }
    specialize (H k v). cbn [assoc] in H. rewrite Hne in H. apply H. exact Hkv.
Qed.

(* ---- type dictionaries up to keys and container ------------------------------------------------------ *)
(* np.array_equal sees only the numbers: a tuple and an array with the same entries are equal *)
Definition canon (t : tyv) : tyv := match t with TSeq l => TArr l | _ => t end.
Definition vals (l : list (string * tyv)) : list tyv := map (fun p => canon (snd p)) l.
Definition sim (a b : list (string * tyv)) : Prop := vals a = vals b.
Definition nother (l : list (string * tyv)) : Prop := ~ In TOther (vals l).

Lemma sim_refl a : sim a a.
Proof. reflexivity. Qed.
Lemma sim_sym a b : sim a b -> sim b a.
Proof. unfold sim. intros H. symmetry. exact H. Qed.
Lemma sim_trans a b c : sim a b -> sim b c -> sim a c.
Proof. unfold sim. intros H1 H2. congruence. Qed.

Lemma sim_length a b : sim a b -> length a = length b.
Proof. unfold sim, vals. intros H. apply (f_equal (@length tyv)) in H. rewrite !map_length in H. exact H. Qed.

Lemma array_equal_canon_r x y y' : canon y = canon y' -> array_equal x y = array_equal x y'.
Proof.
  destruct y as [|l|l|]; destruct y' as [|l'|l'|]; cbn [canon]; intros H; try discriminate;
    try reflexivity; inversion H; subst; destruct x; reflexivity.
Qed.

Lemma array_equal_true_canon x y : array_equal x y = Ok true -> canon x = canon y.
Proof.
  unfold array_equal.
  destruct x as [|l|l|]; destruct y as [|l'|l'|]; cbn [tyv_nums canon]; intros H; try discriminate;
    try reflexivity; inversion H as [H1]; apply shape_eqb_eq in H1; subst; reflexivity.
Qed.

Lemma values_equal_sim o i i' : sim i i' -> values_equal o i = values_equal o i'.
Proof.
  unfold sim, vals. intros H.
  destruct i as [|[k1 x1] [|[k2 x2] r]]; destruct i' as [|[k1' x1'] [|[k2' x2'] r']];
    cbn [map snd] in H; try discriminate; try reflexivity.
  all: destruct o as [|[ko y] [|p q]]; cbn [values_equal]; try reflexivity.
  inversion H as [H1]. apply array_equal_canon_r. exact H1.
Qed.

Lemma tyv_is_none_canon x : tyv_is_none (canon x) = tyv_is_none x.
Proof. destruct x; reflexivity. Qed.

Lemma ty_undef_sim i i' : sim i i' -> ty_undef (Some i) = ty_undef (Some i').
Proof.
  unfold sim, vals, ty_undef. revert i'. induction i as [|[k x] r IH]; intros [|[k' x'] r'] H;
    cbn [map snd] in H; try discriminate; [reflexivity|].
  inversion H as [[H1 H2]]. cbn [existsb snd].
  rewrite <- (tyv_is_none_canon x), <- (tyv_is_none_canon x'), H1. f_equal. apply IH. exact H2.
Qed.

Lemma values_equal_ok_len o i eq : values_equal o i = Ok eq -> (length o <= 1 /\ length i <= 1)%nat.
Proof.
  destruct o as [|[ko y] [|p q]]; destruct i as [|[ki x] [|p' q']]; cbn [values_equal length];
    intros H; try discriminate; lia.
Qed.

Lemma values_equal_true_sim o i : values_equal o i = Ok true -> sim o i.
Proof.
  destruct o as [|[ko y] [|p q]]; destruct i as [|[ki x] [|p' q']]; cbn [values_equal];
    intros H; try discriminate; [reflexivity|].
  apply array_equal_true_canon in H. unfold sim, vals. cbn [map snd]. rewrite H. reflexivity.
Qed.

Lemma vals_rename a b l : (length l <= 1)%nat -> vals (rename_keys a b l) = vals l.
Proof.
  destruct l as [|[k x] [|p q]]; cbn [length]; intros H; [reflexivity|reflexivity|lia].
Qed.

Lemma length_rename a b l : (length l <= 1)%nat -> (length (rename_keys a b l) <= 1)%nat.
Proof.
  destruct l as [|[k x] [|p q]]; cbn [length]; intros H; [cbn; lia|cbn; lia|lia].
Qed.

(* without TOther and with at most one entry on each side, the comparison does not raise *)
Lemma values_equal_total o i :
  (length o <= 1)%nat -> (length i <= 1)%nat -> nother o -> nother i -> exists eq, values_equal o i = Ok eq.
Proof.
  unfold nother, vals.
  destruct o as [|[ko y] [|p q]]; destruct i as [|[ki x] [|p' q']]; cbn [length map snd In values_equal];
    intros H1 H2 H3 H4; try lia; try (eexists; reflexivity).
  unfold array_equal.
  destruct y; destruct x; cbn [tyv_nums canon] in *; try (eexists; reflexivity);
    exfalso; timeout 20 tauto.
Qed.

(* ---- the loop body on two leaves ---------------------------------------------------------------------- *)
Definition derives (k : kind) : bool :=
  match k with KConv1d | KConv2d | KSumPool2d | KAvgPool2d | KFlatten => true | _ => false end.

(* does the body overwrite the target's input type? *)
Definition rewr (o i : list (string * tyv)) (eq : bool) : bool :=
  ty_undef (Some i) || (negb (Nat.eqb (length i) (length o)) || negb eq).
Definition new_tin (o i : list (string * tyv)) (eq : bool) : list (string * tyv) :=
  if rewr o i eq then rename_keys "output" "input" o else i.

Lemma kind_eqb_output k : kind_eqb k KOutput = true <-> k = KOutput.
Proof. destruct k; vm_compute; split; intros H; try discriminate; reflexivity. Qed.

Lemma kind_eqb_output_false k : k <> KOutput -> kind_eqb k KOutput = false.
Proof.
  intros H. destruct (kind_eqb k KOutput) eqn:E; [|reflexivity]. apply kind_eqb_output in E. contradiction.
Qed.

Lemma apply_edge_leaf pk pfs pti o k fs i tout eq :
  values_equal o i = Ok eq ->
  apply_edge (Leaf pk pfs pti (Some o)) (Leaf k fs (Some i) tout) =
  let i' := new_tin o i eq in
  let tout1 := if kind_eqb k KOutput then Some (rename_keys "input" "output" i') else tout in
  if ty_undef tout1 then
    let '(fs', r, ex) := derive_output k fs o i' in
    (Leaf k fs' (Some i') (match r with Some t => Some t | None => tout1 end), ex)
  else (Leaf k fs (Some i') tout1, None).
Proof. intros H. cbn [apply_edge]. rewrite H. reflexivity. Qed.

Lemma derive_nonderiving k fs o i : derives k = false -> derive_output k fs o i = (fs, None, None).
Proof. destruct k; cbn [derives]; intros H; try discriminate; reflexivity. Qed.

Lemma derive_ok k fs o i fs' r :
  derives k = true -> derive_output k fs o i = (fs', r, None) -> exists t, r = Some [("output", TArr t)].
Proof.
  intros Hk H. destruct k; cbn [derives] in Hk; try discriminate; cbn [derive_output] in H.
  - match type of H with match ?X with Ok _ => _ | Err _ => _ end = _ => destruct X as [ish|e0] end;
      [|discriminate].
    match type of H with match ?X with Ok _ => _ | Err _ => _ end = _ => destruct X as [t|e1] end;
      [|discriminate]. inversion H; subst. eexists; reflexivity.
  - match type of H with match ?X with Ok _ => _ | Err _ => _ end = _ => destruct X as [ish|e0] end;
      [|discriminate].
    match type of H with match ?X with Ok _ => _ | Err _ => _ end = _ => destruct X as [t|e1] end;
      [|discriminate]. inversion H; subst. eexists; reflexivity.
  - match type of H with match ?X with Ok _ => _ | Err _ => _ end = _ => destruct X as [t|e0] end;
      [|discriminate]. inversion H; subst. eexists; reflexivity.
  - match type of H with match ?X with Ok _ => _ | Err _ => _ end = _ => destruct X as [t|e0] end;
      [|discriminate]. inversion H; subst. eexists; reflexivity.
  - match type of H with match ?X with Ok _ => _ | Err _ => _ end = _ => destruct X as [[sh out]|e0] end;
      [|discriminate]. inversion H; subst. eexists; reflexivity.
Qed.

(* inversion of a body execution that did not raise *)
Lemma apply_edge_inv pre post post' :
  apply_edge pre post = (post', None) ->
  exists pk pfs pti o k fs i tout eq fs' tout',
    pre = Leaf pk pfs pti (Some o) /\ post = Leaf k fs (Some i) tout /\ values_equal o i = Ok eq /\
    post' = Leaf k fs' (Some (new_tin o i eq)) tout' /\
    (k = KOutput -> fs' = fs /\ tout' = Some (rename_keys "input" "output" (new_tin o i eq))) /\
    (k <> KOutput ->
       (ty_undef tout = false /\ fs' = fs /\ tout' = tout) \/
       (ty_undef tout = true /\ derives k = false /\ fs' = fs /\ tout' = tout) \/
       (ty_undef tout = true /\ derives k = true /\ exists t, tout' = Some [("output", TArr t)])).
Proof.
  intros H.
  destruct pre as [pk pfs pti pto|? ? ? ? ?]; [|cbn [apply_edge] in H; discriminate].
  destruct post as [k fs ti tout|? ? ? ? ?]; [|cbn [apply_edge] in H; discriminate].
  destruct ti as [i|]; [|cbn [apply_edge] in H; discriminate].
  destruct pto as [o|]; [|cbn [apply_edge] in H; discriminate].
  destruct (values_equal o i) as [eq|e] eqn:EV; [|cbn [apply_edge] in H; rewrite EV in H; discriminate].
  rewrite (apply_edge_leaf _ _ _ _ _ _ _ _ _ EV) in H. cbv zeta in H.
  exists pk, pfs, pti, o, k, fs, i, tout, eq.
  destruct (kind_eqb k KOutput) eqn:EK.
  - apply kind_eqb_output in EK. subst k.
    assert (Hd : derive_output KOutput fs o (new_tin o i eq) = (fs, None, None)) by reflexivity.
    rewrite Hd in H.
    assert (H' : post' = Leaf KOutput fs (Some (new_tin o i eq))
                   (Some (rename_keys "input" "output" (new_tin o i eq)))).
    { destruct (ty_undef (Some (rename_keys "input" "output" (new_tin o i eq)))); inversion H; reflexivity. }
    eexists _, _. do 2 (split; [reflexivity|]). split; [exact EV|]. split; [exact H'|]. split.
    + intros _. split; reflexivity.
    + intros Hne. contradiction.
  - assert (Hk : k <> KOutput). { intros ->. vm_compute in EK. discriminate. }
    destruct (ty_undef tout) eqn:EU.
    + destruct (derives k) eqn:ED.
      * destruct (derive_output k fs o (new_tin o i eq)) as [[fs' r] ex] eqn:EDO.
        inversion H; subst. destruct (derive_ok _ _ _ _ _ _ ED EDO) as [t ->].
        eexists _, _. do 2 (split; [reflexivity|]). split; [exact EV|]. split; [reflexivity|]. split; [intros; contradiction|].
        intros _. right. right. split; [reflexivity|]. split; [reflexivity|]. eexists; reflexivity.
      * rewrite derive_nonderiving in H by exact ED. inversion H; subst.
        eexists _, _. do 2 (split; [reflexivity|]). split; [exact EV|]. split; [reflexivity|]. split; [intros; contradiction|].
        intros _. right. left. repeat split; reflexivity.
    + inversion H; subst. eexists _, _. do 2 (split; [reflexivity|]). split; [exact EV|]. split; [reflexivity|]. split; [intros; contradiction|].
      intros _. left. repeat split; reflexivity.
Qed.

Lemma rewr_false_sim o i eq : values_equal o i = Ok eq -> rewr o i eq = false -> sim o i.
Proof.
  unfold rewr. intros HV HR. apply orb_false_iff in HR as [_ HR]. apply orb_false_iff in HR as [_ HR].
  apply negb_false_iff in HR. subst eq. apply values_equal_true_sim. exact HV.
Qed.

Lemma new_tin_len o i eq : values_equal o i = Ok eq -> (length (new_tin o i eq) <= 1)%nat.
Proof.
  intros HV. apply values_equal_ok_len in HV as [Ho Hi]. unfold new_tin.
  destruct (rewr o i eq); [apply length_rename; exact Ho|exact Hi].
Qed.

Lemma nother_sim a b : sim a b -> nother a -> nother b.
Proof. unfold sim, nother. intros H. rewrite H. exact (fun x => x). Qed.

Lemma nother_rename a b l : (length l <= 1)%nat -> nother l -> nother (rename_keys a b l).
Proof. unfold nother. intros H. rewrite vals_rename by exact H. exact (fun x => x). Qed.

Lemma new_tin_nother o i eq : values_equal o i = Ok eq -> nother o -> nother (new_tin o i eq).
Proof.
  intros HV Ho. unfold new_tin. destruct (rewr o i eq) eqn:HR.
  - apply nother_rename; [|exact Ho]. apply values_equal_ok_len in HV. apply HV.
  - eapply nother_sim; [|exact Ho]. eapply rewr_false_sim; eassumption.
Qed.

(* the decision to overwrite depends on the old input type only up to keys and container *)
Lemma rewr_sim o i i' eq eq' :
  sim i i' -> values_equal o i = Ok eq -> values_equal o i' = Ok eq' -> rewr o i eq = rewr o i' eq'.
Proof.
  intros HS HV HV'. rewrite (values_equal_sim o i i' HS) in HV. rewrite HV in HV'. inversion HV'; subst eq'.
  unfold rewr. rewrite (ty_undef_sim i i' HS), (sim_length i i' HS). reflexivity.
Qed.

(* ---- node predicates -------------------------------------------------------------------------------------- *)
Definition ty_nother (t : ty) : Prop := match t with None => True | Some l => nother l end.

(* the output type of such a node is never written again *)
Definition settled (n : node) : Prop :=
  match n with
  | Leaf k _ _ tout => k <> KOutput /\ (ty_undef tout = false \/ derives k = false)
  | Graph _ _ _ _ _ => False
  end.

(* what a node looks like once the body has run on it without raising *)
Definition proc (n : node) : Prop :=
  match n with
  | Leaf k _ (Some i) tout =>
    (length i <= 1)%nat /\ nother i /\
    (k = KOutput -> tout = Some (rename_keys "input" "output" i)) /\
    (k <> KOutput -> ty_undef tout = false \/ derives k = false)
  | _ => False
  end.

Lemma apply_edge_stable pk pfs pti o k fs i tout eq :
  values_equal o i = Ok eq ->
  (k <> KOutput -> ty_undef tout = false \/ derives k = false) ->
  apply_edge (Leaf pk pfs pti (Some o)) (Leaf k fs (Some i) tout) =
  (Leaf k fs (Some (new_tin o i eq))
     (if kind_eqb k KOutput then Some (rename_keys "input" "output" (new_tin o i eq)) else tout), None).
Proof.
  intros HV Hs. rewrite (apply_edge_leaf _ _ _ _ _ _ _ _ _ HV). cbv zeta.
  destruct (kind_eqb k KOutput) eqn:EK.
  - apply kind_eqb_output in EK. subst k.
    assert (Hd : derive_output KOutput fs o (new_tin o i eq) = (fs, None, None)) by reflexivity.
    rewrite Hd. destruct (ty_undef (Some (rename_keys "input" "output" (new_tin o i eq)))); reflexivity.
  - assert (Hk : k <> KOutput). { intros ->. vm_compute in EK. discriminate. }
    destruct (Hs Hk) as [HU|HD].
    + rewrite HU. reflexivity.
    + rewrite (derive_nonderiving _ _ _ _ HD). destruct (ty_undef tout); reflexivity.
Qed.

Lemma nother_arr t : nother [("output", TArr t)].
Proof. unfold nother, vals. cbn [map snd canon In]. intros [H|[]]. discriminate. Qed.

(* effect of one body execution on the target, as far as run 1 is concerned *)
Definition inv1 (n n' : node) : Prop :=
  node_kind n' = node_kind n /\
  (settled n -> settled n' /\ node_tout n' = node_tout n /\ node_fields n' = node_fields n) /\
  (proc n -> proc n') /\
  (node_tin n <> None -> node_tin n' <> None) /\
  (derives (node_kind n) = false -> node_fields n' = node_fields n).

Lemma inv1_refl n : inv1 n n.
Proof. unfold inv1. repeat split; timeout 20 auto. Qed.

Lemma inv1_trans a b c : inv1 a b -> inv1 b c -> inv1 a c.
Proof.
  intros (K1 & S1 & P1 & T1 & D1) (K2 & S2 & P2 & T2 & D2). unfold inv1.
  split; [congruence|]. split; [|split; [|split]].
  - intros Ha. destruct (S1 Ha) as (Sb & O1 & F1). destruct (S2 Sb) as (Sc & O2 & F2).
    split; [exact Sc|]. split; congruence.
  - intros Ha. apply P2, P1, Ha.
  - intros Ha. apply T2, T1, Ha.
  - intros Ha. rewrite D2, D1; [reflexivity|exact Ha|rewrite K1; exact Ha].
Qed.

Lemma apply_edge_pres pre post post' :
  apply_edge pre post = (post', None) -> ty_nother (node_tout pre) ->
  proc post' /\ inv1 post post' /\ (ty_nother (node_tout post) -> ty_nother (node_tout post')).
Proof.
  intros H Hno.
  apply apply_edge_inv in H
    as (pk & pfs & pti & o & k & fs & i & tout & eq & fs' & tout' & -> & -> & HV & -> & HO & HN).
  cbn [node_tout ty_nother] in Hno.
  pose proof (new_tin_len _ _ _ HV) as Hlen. pose proof (new_tin_nother _ _ _ HV Hno) as Hnoi.
  assert (Hproc : proc (Leaf k fs' (Some (new_tin o i eq)) tout')).
  { cbn [proc]. split; [exact Hlen|]. split; [exact Hnoi|]. split.
    - intros Hk. apply HO. exact Hk.
    - intros Hk. destruct (HN Hk) as [(HU & _ & ->)|[(_ & HD & _ & ->)|(_ & _ & t & ->)]].
      + left. exact HU.
      + right. exact HD.
      + left. reflexivity. }
  split; [exact Hproc|]. split.
  - unfold inv1. cbn [node_kind node_tout node_fields node_tin settled].
    split; [reflexivity|]. split; [|split; [|split]].
    + intros [Hk Hs]. destruct (HN Hk) as [(HU & -> & ->)|[(_ & HD & -> & ->)|(HU & HD & _)]].
      * split; [split; [exact Hk|left; exact HU]|split; reflexivity].
      * split; [split; [exact Hk|right; exact HD]|split; reflexivity].
      * destruct Hs as [Hs|Hs]; congruence.
    + intros _. exact Hproc.
    + intros _. discriminate.
    + intros HD. destruct (kind_eqb k KOutput) eqn:EK.
      * apply kind_eqb_output in EK. apply HO. exact EK.
      * assert (Hk : k <> KOutput). { intros ->. vm_compute in EK. discriminate. }
        destruct (HN Hk) as [(_ & -> & _)|[(_ & _ & -> & _)|(_ & HD' & _)]];
          [reflexivity|reflexivity|congruence].
  - cbn [node_tout]. intros Hto.
    destruct (kind_eqb k KOutput) eqn:EK.
    + apply kind_eqb_output in EK. destruct (HO EK) as [_ ->]. cbn [ty_nother].
      apply nother_rename; assumption.
    + assert (Hk : k <> KOutput). { intros ->. vm_compute in EK. discriminate. }
      destruct (HN Hk) as [(_ & _ & ->)|[(_ & _ & _ & ->)|(_ & _ & t & ->)]];
        [exact Hto|exact Hto|apply nother_arr].
Qed.

(* ---- run 1: what is known about the final state from an intermediate state ----------------------------- *)
Definition all_no (ch : list (string * node)) : Prop :=
  forall k n, assoc k ch = Some n -> ty_nother (node_tout n).

Definition ch_inv1 (ch ch' : list (string * node)) : Prop :=
  forall k n, assoc k ch = Some n -> exists n', assoc k ch' = Some n' /\ inv1 n n'.

Lemma ch_inv1_refl ch : ch_inv1 ch ch.
Proof. intros k n H. exists n. split; [exact H|apply inv1_refl]. Qed.

Lemma ch_inv1_trans a b c : ch_inv1 a b -> ch_inv1 b c -> ch_inv1 a c.
Proof.
  intros H1 H2 k n H. destruct (H1 k n H) as (n1 & Hn1 & I1). destruct (H2 k n1 Hn1) as (n2 & Hn2 & I2).
  exists n2. split; [exact Hn2|]. eapply inv1_trans; eassumption.
Qed.

Lemma step_next_inv1 es st st' :
  step es st = SNext st' -> all_no (st_ch st) -> ch_inv1 (st_ch st) (st_ch st') /\ all_no (st_ch st').
Proof.
  intros Hs Hno.
  apply step_next in Hs as (rest & pre_k & post_k & pre & post & post' & _ & Hpre & Hpost & Ha & ->).
  cbn [st_ch].
  destruct (apply_edge_pres _ _ _ Ha (Hno _ _ Hpre)) as (_ & Hinv & Hno').
  split.
  - intros k n Hk. rewrite assoc_assoc_set. destruct (String.eqb k post_k) eqn:E.
    + apply String.eqb_eq in E. subst k. rewrite Hpost in Hk. inversion Hk; subst n.
      exists post'. split; [reflexivity|exact Hinv].
    + exists n. split; [exact Hk|apply inv1_refl].
  - intros k n. rewrite assoc_assoc_set. destruct (String.eqb k post_k) eqn:E.
    + intros Hk. inversion Hk; subst n. apply Hno'. eapply Hno. exact Hpost.
    + intros Hk. eapply Hno. exact Hk.
Qed.

Lemma run_inv1 es : forall fuel st F,
  all_no (st_ch st) -> run fuel es st = (F, Finished) -> ch_inv1 (st_ch st) (st_ch F) /\ all_no (st_ch F).
Proof.
  induction fuel as [|f IH]; intros st F Hno H; [cbn [run] in H; discriminate|].
  rewrite run_S in H. destruct (step es st) as [|st' e|st'] eqn:Est.
  - inversion H; subst. split; [apply ch_inv1_refl|exact Hno].
  - discriminate.
  - destruct (step_next_inv1 _ _ _ Est Hno) as [H1 Hno'].
    destruct (IH st' F Hno' H) as [H2 HnoF]. split; [|exact HnoF].
    eapply ch_inv1_trans; eassumption.
Qed.

(* ---- the relation between run 1 (n1), run 2 (n2) and the final state of run 1 (nF) ---------------------- *)
(* Run 2 starts from the final state of run 1.  At the same step of the common schedule a child is, in
   run 2, either still as in the final state; or it has the same input type as in run 1 (and, for an
   Output node, the same output type); or its input type agrees with that of run 1 up to keys and
   container and run 1 will still overwrite it (it differs in value from the final one). *)
Definition rel (n1 n2 nF : node) : Prop :=
  n2 = nF \/
  exists k fs1 t1 o1 fs t2 o2 tF oF,
    n1 = Leaf k fs1 (Some t1) o1 /\ n2 = Leaf k fs (Some t2) o2 /\ nF = Leaf k fs (Some tF) oF /\
    (k <> KOutput -> o2 = oF) /\
    ((t1 = t2 /\ (k = KOutput -> o1 = o2)) \/ (sim t1 t2 /\ ~ sim t1 tF)).

Definition out2 (k : kind) (t2 : list (string * tyv)) (oF : ty) : ty :=
  if kind_eqb k KOutput then Some (rename_keys "input" "output" t2) else oF.

Lemma rel_E k fs1 t o1 fsF oF tF :
  (k = KOutput -> o1 = Some (rename_keys "input" "output" t)) ->
  rel (Leaf k fs1 (Some t) o1) (Leaf k fsF (Some t) (out2 k t oF)) (Leaf k fsF (Some tF) oF).
Proof.
  intros HO. right. exists k, fs1, t, o1, fsF, t, (out2 k t oF), tF, oF.
  do 3 (split; [reflexivity|]). split.
  - intros Hk. unfold out2. rewrite kind_eqb_output_false by exact Hk. reflexivity.
  - left. split; [reflexivity|]. intros Hk. rewrite (HO Hk). unfold out2.
    subst k. reflexivity.
Qed.

Lemma rel_L k fs1 t1 o1 fsF t2 oF tF :
  sim t1 t2 -> ~ sim t1 tF ->
  rel (Leaf k fs1 (Some t1) o1) (Leaf k fsF (Some t2) (out2 k t2 oF)) (Leaf k fsF (Some tF) oF).
Proof.
  intros H1 H2. right. exists k, fs1, t1, o1, fsF, t2, (out2 k t2 oF), tF, oF.
  do 3 (split; [reflexivity|]). split.
  - intros Hk. unfold out2. rewrite kind_eqb_output_false by exact Hk. reflexivity.
  - right. split; assumption.
Qed.

Lemma rel_step_core k fs1' tout1' fsF tF oF o i1 eq1 t2 eq2 :
  values_equal o i1 = Ok eq1 -> values_equal o t2 = Ok eq2 ->
  (k = KOutput -> tout1' = Some (rename_keys "input" "output" (new_tin o i1 eq1))) ->
  proc (Leaf k fsF (Some tF) oF) ->
  (t2 = tF \/ i1 = t2 \/ (sim i1 t2 /\ ~ sim i1 tF)) ->
  rel (Leaf k fs1' (Some (new_tin o i1 eq1)) tout1')
      (Leaf k fsF (Some (new_tin o t2 eq2)) (out2 k (new_tin o t2 eq2) oF))
      (Leaf k fsF (Some tF) oF).
Proof.
  intros HV1 HV2 HO (HlF & HnF & HOF & _) D.
  pose proof (values_equal_ok_len _ _ _ HV1) as [Hlo _].
  destruct D as [->|[->|[HS HNS]]].
  - (* run 2 still has the final input type *)
    destruct (rewr o tF eq2) eqn:R2.
    + destruct (rewr o i1 eq1) eqn:R1.
      * assert (E : new_tin o tF eq2 = new_tin o i1 eq1). { unfold new_tin. rewrite R1, R2. reflexivity. }
        rewrite E. apply rel_E. exact HO.
      * apply rel_L.
        -- unfold new_tin. rewrite R1, R2. unfold sim. rewrite vals_rename by exact Hlo.
           symmetry. apply (rewr_false_sim _ _ _ HV1 R1).
        -- unfold new_tin at 1. rewrite R1. intros HS.
           rewrite (rewr_sim _ _ _ _ _ HS HV1 HV2) in R1. congruence.
    + left. unfold new_tin. rewrite R2. f_equal. unfold out2.
      destruct (kind_eqb k KOutput) eqn:EK; [|reflexivity].
      apply kind_eqb_output in EK. symmetry. apply HOF. exact EK.
  - (* same input type in both runs *)
    rewrite HV1 in HV2. inversion HV2; subst eq2. apply rel_E. exact HO.
  - (* same up to keys and container, still to be overwritten by run 1 *)
    pose proof (rewr_sim _ _ _ _ _ HS HV1 HV2) as HR.
    destruct (rewr o i1 eq1) eqn:R1.
    + assert (E : new_tin o t2 eq2 = new_tin o i1 eq1). { unfold new_tin. rewrite R1, <- HR. reflexivity. }
      rewrite E. apply rel_E. exact HO.
    + assert (E1 : new_tin o i1 eq1 = i1). { unfold new_tin. rewrite R1. reflexivity. }
      assert (E2 : new_tin o t2 eq2 = t2). { unfold new_tin. rewrite <- HR. reflexivity. }
      rewrite E1, E2. apply rel_L; assumption.
Qed.

Lemma apply_edge_stable2 pk pfs pti o k fs t2 o2 oF eq2 :
  values_equal o t2 = Ok eq2 ->
  (k <> KOutput -> o2 = oF) ->
  (k <> KOutput -> ty_undef oF = false \/ derives k = false) ->
  apply_edge (Leaf pk pfs pti (Some o)) (Leaf k fs (Some t2) o2) =
  (Leaf k fs (Some (new_tin o t2 eq2)) (out2 k (new_tin o t2 eq2) oF), None).
Proof.
  intros HV Ho Hd. rewrite (apply_edge_stable _ _ _ _ _ _ _ _ _ HV).
  - unfold out2. destruct (kind_eqb k KOutput) eqn:EK; [reflexivity|].
    assert (Hk : k <> KOutput). { intros ->. vm_compute in EK. discriminate. }
    rewrite (Ho Hk). reflexivity.
  - intros Hk. rewrite (Ho Hk). apply Hd. exact Hk.
Qed.

Lemma rel_step pre1 pre2 post1 post1' post2 nF o :
  apply_edge pre1 post1 = (post1', None) ->
  node_tout pre1 = Some o -> (exists pk pfs pti, pre2 = Leaf pk pfs pti (Some o)) -> nother o ->
  rel post1 post2 nF -> inv1 post1' nF ->
  exists post2', apply_edge pre2 post2 = (post2', None) /\ rel post1' post2' nF.
Proof.
  intros H Hto (pk2 & pfs2 & pti2 & ->) Hno HR (HK & _ & HP & _).
  assert (Hno' : ty_nother (node_tout pre1)). { rewrite Hto. exact Hno. }
  destruct (apply_edge_pres _ _ _ H Hno') as (Hproc & _ & _).
  specialize (HP Hproc).
  apply apply_edge_inv in H
    as (pk & pfs & pti & o0 & k & fs1 & i1 & tout1 & eq1 & fs1' & tout1' & -> & -> & HV1 & -> & HO & _).
  cbn [node_tout] in Hto. inversion Hto; subst o0. clear Hto.
  assert (HO' : k = KOutput -> tout1' = Some (rename_keys "input" "output" (new_tin o i1 eq1))).
  { intros Hk. apply HO. exact Hk. }
  destruct nF as [kF fsF [tF|] oF|? ? ? ? ?]; cbn [proc] in HP; try contradiction.
  cbn [node_kind] in HK. subst kF.
  pose proof HP as (HlF & HnF & _ & HdF).
  pose proof (values_equal_ok_len _ _ _ HV1) as [Hlo _].
  destruct HR as [->|(k' & fs1_ & t1 & o1 & fs & t2 & o2 & tF' & oF' & E1 & -> & E3 & Ho2 & D)].
  - destruct (values_equal_total o tF Hlo HlF Hno HnF) as [eq2 HV2].
    eexists. split.
    + apply (apply_edge_stable2 _ _ _ _ _ _ _ _ oF _ HV2); [intros _; reflexivity|exact HdF].
    + apply (rel_step_core _ _ _ _ _ _ _ _ _ _ _ HV1 HV2 HO' HP). left. reflexivity.
  - inversion E1; subst k' fs1_ t1 o1. inversion E3; subst fs tF' oF'. clear E1 E3.
    assert (HV2 : exists eq2, values_equal o t2 = Ok eq2).
    { destruct D as [[<- _]|[HS _]]; [exists eq1; exact HV1|].
      exists eq1. rewrite <- (values_equal_sim o i1 t2 HS). exact HV1. }
    destruct HV2 as [eq2 HV2].
    eexists. split.
    + apply (apply_edge_stable2 _ _ _ _ _ _ _ _ oF _ HV2); [exact Ho2|exact HdF].
    + apply (rel_step_core _ _ _ _ _ _ _ _ _ _ _ HV1 HV2 HO' HP).
      right. destruct D as [[Ht _]|D]; [left; exact Ht|right; exact D].
Qed.

Lemma rel_end n n2 : rel n n2 n -> n2 = n.
Proof.
  intros [H|(k & fs1 & t1 & o1 & fs & t2 & o2 & tF & oF & E1 & -> & E3 & Ho2 & D)]; [exact H|].
  rewrite E1 in E3. inversion E3; subst fs tF oF. rewrite E1.
  destruct D as [[<- Ho]|[_ HN]]; [|exfalso; apply HN; apply sim_refl].
  f_equal. destruct (kind_eqb k KOutput) eqn:EK.
  - apply kind_eqb_output in EK. symmetry. apply Ho. exact EK.
  - apply Ho2. intros ->. vm_compute in EK. discriminate.
Qed.

Lemma rel_src n1 n2 nF :
  rel n1 n2 nF -> settled n1 -> settled nF -> node_tout nF = node_tout n1 ->
  exists pk pfs pti, n2 = Leaf pk pfs pti (node_tout n1).
Proof.
  intros [->|(k & fs1 & t1 & o1 & fs & t2 & o2 & tF & oF & -> & -> & -> & Ho2 & _)] S1 SF HT.
  - destruct nF as [k fs ti to|? ? ? ? ?]; [|contradiction]. cbn [node_tout] in HT. subst to.
    eexists _, _, _. reflexivity.
  - cbn [settled] in S1. destruct S1 as [Hk _]. cbn [node_tout] in *. subst oF. rewrite (Ho2 Hk).
    eexists _, _, _. reflexivity.
Qed.

Lemma proc_settled n : proc n -> node_kind n <> KOutput -> settled n.
Proof.
  destruct n as [k fs [i|] to|? ? ? ? ?]; cbn [proc node_kind settled]; try contradiction.
  intros (_ & _ & _ & H) Hk. split; [exact Hk|apply H; exact Hk].
Qed.

(* ---- run 2 follows run 1 ---------------------------------------------------------------------------------- *)
Definition ch_rel (ch1 ch2 chF : list (string * node)) : Prop :=
  forall k n1, assoc k ch1 = Some n1 ->
    exists n2 nF, assoc k ch2 = Some n2 /\ assoc k chF = Some nF /\ rel n1 n2 nF.

Definition src_ok (ch : list (string * node)) (ready : list (string * string)) : Prop :=
  forall a b n, In (a, b) ready -> assoc a ch = Some n -> settled n.

Definition no_out_src (es : list (string * string)) (ch : list (string * node)) : Prop :=
  forall a b n, In (a, b) es -> assoc a ch = Some n -> node_kind n <> KOutput.

Lemma step_done_intro es st : st_ready st = [] -> step es st = SDone.
Proof. intros H. unfold step. rewrite H. reflexivity. Qed.

Lemma step_next_intro es st rest pre_k post_k pre post post' :
  st_ready st = rest ++ [(pre_k, post_k)] ->
  assoc pre_k (st_ch st) = Some pre -> assoc post_k (st_ch st) = Some post ->
  apply_edge pre post = (post', None) ->
  step es st = SNext {| st_ch := assoc_set post_k post' (st_ch st);
                        st_ready := rest ++ out_edges es post_k (post_k :: st_seen st);
                        st_seen := post_k :: st_seen st |}.
Proof.
  intros Hr Hpre Hpost Ha. unfold step. rewrite Hr, idem_pop_last_snoc. unfold lookup_child.
  rewrite Hpre, Hpost, Ha. reflexivity.
Qed.

Lemma out_edges_src es k seen a b : In (a, b) (out_edges es k seen) -> a = k /\ In (a, b) es.
Proof.
  unfold out_edges. intros H. apply filter_In in H as [Hin H]. cbn [fst snd] in H.
  apply andb_true_iff in H as [H _]. apply String.eqb_eq in H. split; assumption.
Qed.

Lemma run_second es : forall fuel s1 s2 F,
  run fuel es s1 = (F, Finished) ->
  st_ready s2 = st_ready s1 -> st_seen s2 = st_seen s1 ->
  all_no (st_ch s1) -> ch_rel (st_ch s1) (st_ch s2) (st_ch F) ->
  src_ok (st_ch s1) (st_ready s1) -> no_out_src es (st_ch s1) ->
  map fst (st_ch s2) = map fst (st_ch s1) -> NoDup (map fst (st_ch s1)) ->
  exists F2, run fuel es s2 = (F2, Finished) /\ st_ch F2 = st_ch F.
Proof.
  induction fuel as [|f IH]; intros s1 s2 F H Hr Hs Hno HR Hsrc Hnos Hkeys Hnd;
    [cbn [run] in H; discriminate|].
  rewrite run_S in H. destruct (step es s1) as [|st' e|s1'] eqn:Est; [| discriminate |].
  - (* run 1 is finished: so is run 2, and the relation collapses to equality *)
    inversion H; subst F. apply step_done in Est.
    exists s2. split.
    + rewrite run_S, step_done_intro; [reflexivity|]. rewrite Hr. exact Est.
    + apply idem_assoc_ext; [exact Hnd|exact Hkeys|].
      intros k v Hk. destruct (HR k v Hk) as (n2 & nF & H2 & HF & Hrel).
      rewrite Hk in HF. inversion HF; subst nF. apply rel_end in Hrel. subst n2. exact H2.
  - (* one more iteration *)
    destruct (step_next_inv1 _ _ _ Est Hno) as [Hinv01 Hno'].
    destruct (run_inv1 es f s1' F Hno' H) as [Hinv1F _].
    pose proof (ch_inv1_trans _ _ _ Hinv01 Hinv1F) as Hinv0F.
    apply step_next in Est
      as (rest & pre_k & post_k & pre1 & post1 & post1' & Hready & Hpre & Hpost & Ha & ->).
    cbn [st_ch st_ready st_seen] in *.
    (* the source *)
    assert (Hset : settled pre1).
    { apply (Hsrc pre_k post_k); [|exact Hpre]. rewrite Hready. apply in_or_app. right. left. reflexivity. }
    destruct (Hinv0F _ _ Hpre) as (nFa & HFa & _ & HSa & _).
    destruct (HSa Hset) as (HsetF & HtoF & _).
    destruct (HR _ _ Hpre) as (pre2 & nFa' & Hpre2 & HFa' & Hrela).
    rewrite HFa in HFa'. inversion HFa'; subst nFa'. clear HFa'.
    destruct (rel_src _ _ _ Hrela Hset HsetF HtoF) as (pk2 & pfs2 & pti2 & Epre2).
    assert (Hto : exists o, node_tout pre1 = Some o).
    { pose proof Ha as Ha'. apply apply_edge_inv in Ha'
        as (pk & pfs & pti & o & k & fs1 & i1 & tout1 & eq1 & fs1' & tout1' & -> & _).
      exists o. reflexivity. }
    destruct Hto as [o Hto].
    assert (Hnoo : nother o). { pose proof (Hno _ _ Hpre) as Hn. rewrite Hto in Hn. exact Hn. }
    (* the target *)
    destruct (HR _ _ Hpost) as (post2 & nFb & Hpost2 & HFb & Hrelb).
    assert (Hpost1' : assoc post_k (assoc_set post_k post1' (st_ch s1)) = Some post1').
    { rewrite assoc_assoc_set, String.eqb_refl. reflexivity. }
    destruct (Hinv1F _ _ Hpost1') as (nFb' & HFb' & Hinvb).
    rewrite HFb in HFb'. inversion HFb'; subst nFb'. clear HFb'.
    destruct (rel_step pre1 pre2 post1 post1' post2 nFb o Ha Hto) as (post2' & Ha2 & Hrelb');
      [exists pk2, pfs2, pti2; rewrite Epre2, Hto; reflexivity|exact Hnoo|exact Hrelb|exact Hinvb|].
    (* run 2 performs the same pop *)
    pose proof (step_next_intro es s2 rest pre_k post_k pre2 post2 post2'
                  ltac:(rewrite Hr; exact Hready) Hpre2 Hpost2 Ha2) as Est2.
    rewrite run_S, Est2.
    destruct (apply_edge_pres _ _ _ Ha (Hno _ _ Hpre)) as (Hproc1' & Hinv11' & _).
    apply (IH _ _ F H); cbn [st_ch st_ready st_seen].
    + rewrite Hs. reflexivity.
    + rewrite Hs. reflexivity.
    + exact Hno'.
    + intros k n1. rewrite !assoc_assoc_set. destruct (String.eqb k post_k) eqn:E.
      * apply String.eqb_eq in E. subst k. intros Hk. inversion Hk; subst n1.
        exists post2', nFb. split; [reflexivity|]. split; [exact HFb|exact Hrelb'].
      * intros Hk. apply HR. exact Hk.
    + intros a b n Hin. rewrite assoc_assoc_set. destruct (String.eqb a post_k) eqn:E.
      * apply String.eqb_eq in E. subst a. intros Hn. inversion Hn; subst n.
        apply in_app_or in Hin as [Hin|Hin].
        -- destruct Hinv11' as (_ & HS & _). apply HS.
           apply (Hsrc post_k b); [|exact Hpost]. rewrite Hready. apply in_or_app. left. exact Hin.
        -- apply out_edges_src in Hin as [_ Hin]. apply proc_settled; [exact Hproc1'|].
           destruct Hinv11' as (HK & _). rewrite HK. apply (Hnos post_k b); assumption.
      * intros Hn. apply in_app_or in Hin as [Hin|Hin].
        -- apply (Hsrc a b); [|exact Hn]. rewrite Hready. apply in_or_app. left. exact Hin.
        -- apply out_edges_src in Hin as [Ea _]. subst a. rewrite String.eqb_refl in E. discriminate.
    + intros a b n Hin. rewrite assoc_assoc_set. destruct (String.eqb a post_k) eqn:E.
      * apply String.eqb_eq in E. subst a. intros Hn. inversion Hn; subst n.
        destruct Hinv11' as (HK & _). rewrite HK. apply (Hnos post_k b); assumption.
      * intros Hn. apply (Hnos a b); assumption.
    + rewrite (assoc_set_keys _ _ _ _ Hpost2), (assoc_set_keys _ _ _ _ Hpost). exact Hkeys.
    + rewrite (assoc_set_keys _ _ _ _ Hpost). exact Hnd.
Qed.

(* ---- from the loop to infer_types ----------------------------------------------------------------------- *)
Lemma is_input_kind n : is_input n = true <-> node_kind n = KInput.
Proof.
  destruct n as [k fs ti to|? ? ? ? ?]; cbn [is_input node_kind]; [|split; discriminate].
  destruct k; split; intros H; try discriminate; reflexivity.
Qed.

Lemma is_output_kind n : is_output n = false <-> node_kind n <> KOutput.
Proof.
  destruct n as [k fs ti to|? ? ? ? ?]; cbn [is_output node_kind]; [|split; [discriminate|reflexivity]].
  destruct k; split; intros H; try discriminate; try reflexivity. exfalso. apply H. reflexivity.
Qed.

Lemma inputs_name ch a : NoDup (map fst ch) ->
  (In a (keys (inputs ch)) <-> exists n, assoc a ch = Some n /\ is_input n = true).
Proof.
  intros Hnd. unfold keys, inputs. split.
  - intros H. apply in_map_iff in H as ([k n] & Hk & H). cbn [fst] in Hk. subst k.
    apply filter_In in H as [Hin Hi]. cbn [snd] in Hi. exists n. split; [|exact Hi].
    apply idem_NoDup_In_assoc; assumption.
  - intros (n & Hn & Hi). apply in_map_iff. exists (a, n). split; [reflexivity|].
    apply filter_In. split; [apply idem_assoc_In; exact Hn|exact Hi].
Qed.

Lemma ch_back ch chF : map fst chF = map fst ch -> ch_inv1 ch chF ->
  forall k n', assoc k chF = Some n' -> exists n, assoc k ch = Some n /\ inv1 n n'.
Proof.
  intros Hk Hinv k n' H. pose proof (assoc_in_keys _ _ _ H) as Hin. rewrite Hk in Hin.
  destruct (idem_keys_assoc _ _ Hin) as [n Hn]. destruct (Hinv _ _ Hn) as (n'' & Hn'' & I).
  rewrite H in Hn''. inversion Hn''; subst n''. exists n. split; assumption.
Qed.

Lemma inputs_name_frame ch chF a :
  NoDup (map fst ch) -> map fst chF = map fst ch -> ch_inv1 ch chF ->
  mem_str a (keys (inputs chF)) = mem_str a (keys (inputs ch)).
Proof.
  intros Hnd Hk Hinv.
  assert (HndF : NoDup (map fst chF)) by (rewrite Hk; exact Hnd).
  assert (Hiff : In a (keys (inputs chF)) <-> In a (keys (inputs ch))).
  { rewrite (inputs_name chF a HndF), (inputs_name ch a Hnd). split.
    - intros (n' & Hn' & Hi). destruct (ch_back _ _ Hk Hinv _ _ Hn') as (n & Hn & (HK & _)).
      exists n. split; [exact Hn|]. apply is_input_kind. rewrite <- HK. apply is_input_kind. exact Hi.
    - intros (n & Hn & Hi). destruct (Hinv _ _ Hn) as (n' & Hn' & (HK & _)).
      exists n'. split; [exact Hn'|]. apply is_input_kind. rewrite HK. apply is_input_kind. exact Hi. }
  destruct (mem_str a (keys (inputs chF))) eqn:E1; destruct (mem_str a (keys (inputs ch))) eqn:E2;
    try reflexivity.
  - apply mem_str_In in E1. apply Hiff in E1. apply mem_str_In in E1. congruence.
  - apply mem_str_In in E2. apply Hiff in E2. apply mem_str_In in E2. congruence.
Qed.

(* the graph-level input type is defined: there is an Input child and every Input child has an input type *)
Lemma graph_tin_def ch :
  gty_undef (graph_tin ch) = false <->
  (inputs ch <> [] /\ forall k n, In (k, n) ch -> is_input n = true -> node_tin n <> None).
Proof.
  unfold graph_tin. split.
  - intros H. destruct (inputs ch) as [|p l] eqn:EI; [cbn [gty_undef] in H; discriminate|].
    split; [discriminate|]. intros k n Hin Hi Hnone.
    assert (Hin' : In (k, n) (inputs ch)). { apply filter_In. split; [exact Hin|exact Hi]. }
    rewrite EI in Hin'. cbn [gty_undef] in H.
    assert (Hex : existsb (fun p0 : string * ty => match snd p0 with None => true | Some _ => false end)
                    (map (fun p0 => (fst p0, node_tin (snd p0))) (p :: l)) = true).
    { apply existsb_exists. exists (k, node_tin n). split.
      - apply in_map_iff. exists (k, n). split; [reflexivity|exact Hin'].
      - cbn [snd]. rewrite Hnone. reflexivity. }
    pose proof (eq_trans (eq_sym Hex) H) as X. discriminate X.
  - intros [Hne Hall]. destruct (inputs ch) as [|p l] eqn:EI; [contradiction|]. cbn [gty_undef].
    destruct (existsb _ _) eqn:Hex; [|reflexivity]. exfalso.
    apply existsb_exists in Hex as ([k t] & Hin & Ht). cbn [snd] in Ht.
    apply in_map_iff in Hin as ([k' n] & E & Hin). cbn [fst snd] in E. inversion E; subst k' t.
    rewrite <- EI in Hin. apply filter_In in Hin as [Hin Hi]. cbn [snd] in Hi.
    apply (Hall _ _ Hin Hi). destruct (node_tin n); [discriminate|reflexivity].
Qed.

Lemma graph_tin_frame ch chF :
  NoDup (map fst ch) -> map fst chF = map fst ch -> ch_inv1 ch chF ->
  gty_undef (graph_tin ch) = false -> gty_undef (graph_tin chF) = false.
Proof.
  intros Hnd Hk Hinv H. apply graph_tin_def in H as [Hne Hall]. apply graph_tin_def.
  assert (HndF : NoDup (map fst chF)) by (rewrite Hk; exact Hnd).
  split.
  - destruct (inputs ch) as [|[k n] l] eqn:EI; [contradiction|].
    assert (Hin : In (k, n) (inputs ch)) by (rewrite EI; left; reflexivity).
    apply filter_In in Hin as [Hin Hi]. cbn [snd] in Hi.
    apply idem_NoDup_In_assoc in Hin; [|exact Hnd].
    destruct (Hinv _ _ Hin) as (n' & Hn' & (HK & _)).
    assert (Hin' : In (k, n') (inputs chF)).
    { apply filter_In. split; [apply idem_assoc_In; exact Hn'|]. cbn [snd].
      apply is_input_kind. rewrite HK. apply is_input_kind. exact Hi. }
    intros E. rewrite E in Hin'. destruct Hin'.
  - intros k n' Hin' Hi'. apply idem_NoDup_In_assoc in Hin'; [|exact HndF].
    destruct (ch_back _ _ Hk Hinv _ _ Hin') as (n & Hn & (HK & _ & _ & HT & _)).
    apply HT. apply (Hall k n); [apply idem_assoc_In; exact Hn|].
    apply is_input_kind. rewrite <- HK. apply is_input_kind. exact Hi'.
Qed.

Lemma infer_fuel_frame ch chF es : map fst chF = map fst ch -> infer_fuel chF es = infer_fuel ch es.
Proof.
  intros H. unfold infer_fuel. apply (f_equal (@length string)) in H. rewrite !map_length in H.
  rewrite H. reflexivity.
Qed.

(* hypotheses of the idempotence theorem on the children and edges of a graph *)
Definition idem_ok (ch : list (string * node)) (es : list (string * string)) : Prop :=
  NoDup (map fst ch) /\                                                   (* a dictionary *)
  (forall a b n, In (a, b) es -> assoc a ch = Some n -> is_output n = false) /\   (* see CE1 *)
  (forall k n, In (k, n) ch -> ty_nother (node_tout n)) /\                (* see CE2 *)
  gty_undef (graph_tin ch) = false.                                       (* see CE3 *)

(* common part: the second call starts the loop with the same fuel, ready list and seen set *)
Lemma infer_second ch es gi go m g1 :
  NoDup (map fst ch) -> all_no ch -> gty_undef (graph_tin ch) = false ->
  infer_types (Graph ch es gi go m) = (g1, Finished) ->
  (forall F, run (infer_fuel ch es) es (init_state ch es) = (F, Finished) ->
     ch_inv1 ch (st_ch F) -> map fst (st_ch F) = map fst ch ->
     st_ready (init_state (st_ch F) es) = st_ready (init_state ch es) ->
     st_seen (init_state (st_ch F) es) = st_seen (init_state ch es) ->
     exists F2, run (infer_fuel ch es) es (init_state (st_ch F) es) = (F2, Finished) /\ st_ch F2 = st_ch F) ->
  infer_types g1 = (g1, Finished).
Proof.
  intros Hnd Hno Hgt H Hsecond.
  cbn [infer_types] in H. destruct (negb (gty_undef gi)).
  2:{ destruct (negb (gty_undef go)); discriminate. }
  destruct (run (infer_fuel ch es) es (init_state ch es)) as [F oc] eqn:ER.
  inversion H; subst g1 oc. clear H.
  destruct (run_inv1 es _ (init_state ch es) F Hno ER) as [Hinv _]. cbn [init_state st_ch] in Hinv.
  pose proof (run_names (infer_fuel ch es) es (init_state ch es)) as Hkeys.
  rewrite ER in Hkeys. cbn [fst init_state st_ch] in Hkeys.
  pose proof (graph_tin_frame _ _ Hnd Hkeys Hinv Hgt) as HgtF.
  assert (Hready : st_ready (init_state (st_ch F) es) = st_ready (init_state ch es)).
  { unfold init_state. cbn [st_ready]. apply filter_ext. intros e.
    apply inputs_name_frame; assumption. }
  assert (Hseen : st_seen (init_state (st_ch F) es) = st_seen (init_state ch es)).
  { unfold init_state in *. cbn [st_seen st_ready] in *. rewrite Hready. reflexivity. }
  destruct (Hsecond F eq_refl Hinv Hkeys Hready Hseen) as (F2 & HR2 & HF2).
  unfold mk_graph at 1. cbn [infer_types]. rewrite HgtF. cbn [negb].
  rewrite (infer_fuel_frame _ _ _ Hkeys), HR2, HF2. reflexivity.
Qed.

(* the sources of the initial ready list are Input nodes, whose output type is never written *)
Lemma init_src_settled ch es a b n :
  NoDup (map fst ch) -> In (a, b) (st_ready (init_state ch es)) -> assoc a ch = Some n -> settled n.
Proof.
  intros Hnd Hin Hn. cbn [init_state st_ready] in Hin.
  apply filter_In in Hin as [_ Hm]. cbn [fst] in Hm. apply mem_str_In in Hm.
  apply (inputs_name ch a Hnd) in Hm as (n0 & Hn0 & Hi). rewrite Hn in Hn0. inversion Hn0; subst n0.
  destruct n as [k fs ti to|? ? ? ? ?]; [|discriminate]. destruct k; try discriminate.
  cbn [settled derives]. split; [discriminate|right; reflexivity].
Qed.

Theorem infer_idempotent_graph : forall ch es gi go m g1,
  idem_ok ch es ->
  infer_types (Graph ch es gi go m) = (g1, Finished) -> infer_types g1 = (g1, Finished).
Proof.
  intros ch es gi go m g1 (Hnd & Hout & Hnoth & Hgt) H.
  assert (Hno : all_no ch). { intros k n Hk. apply (Hnoth k). apply idem_assoc_In. exact Hk. }
  apply (infer_second ch es gi go m g1 Hnd Hno Hgt H).
  intros F ER Hinv Hkeys Hready Hseen.
  apply (run_second es (infer_fuel ch es) (init_state ch es) (init_state (st_ch F) es) F ER).
  - exact Hready.
  - exact Hseen.
  - exact Hno.
  - cbn [init_state st_ch]. intros k n1 Hk. destruct (Hinv _ _ Hk) as (n' & Hn' & _).
    exists n', n'. split; [exact Hn'|]. split; [exact Hn'|]. left. reflexivity.
  - intros a b n Hin Hn. eapply init_src_settled; eassumption.
  - cbn [init_state st_ch]. intros a b n Hin Hn. apply is_output_kind. apply (Hout a b); assumption.
  - exact Hkeys.
  - exact Hnd.
Qed.

(* the same for any node: only graphs can make infer_types return *)
Definition idem_wf (g : node) : Prop :=
  match g with Graph ch es _ _ _ => idem_ok ch es | Leaf _ _ _ _ => True end.

Theorem infer_idempotent : forall g g1,
  idem_wf g -> infer_types g = (g1, Finished) -> infer_types g1 = (g1, Finished).
Proof.
  intros [k fs ti to|ch es gi go m] g1 Hwf H; [cbn [infer_types] in H; discriminate|].
  eapply infer_idempotent_graph; eassumption.
Qed.

(* for a graph as built by the constructor (graph-level types computed from the children), the last
   hypothesis follows from the fact that the first run started *)
Theorem infer_idempotent_mk : forall ch es m g1,
  NoDup (map fst ch) ->
  (forall a b n, In (a, b) es -> assoc a ch = Some n -> is_output n = false) ->
  (forall k n, In (k, n) ch -> ty_nother (node_tout n)) ->
  infer_types (mk_graph ch es m) = (g1, Finished) -> infer_types g1 = (g1, Finished).
Proof.
  intros ch es m g1 H1 H2 H3 H. eapply infer_idempotent_graph; [|exact H].
  split; [exact H1|]. split; [exact H2|]. split; [exact H3|].
  unfold mk_graph in H. cbn [infer_types] in H.
  destruct (gty_undef (graph_tin ch)); [|reflexivity]. cbn [negb] in H.
  destruct (negb (gty_undef (graph_tout ch))); discriminate.
Qed.

(* ================================================================================================== *)
(* Second theorem: Output nodes MAY be sources, provided every child carries types in the canonical
   form produced by the node constructors: {"input": v} / {"output": w} with v, w None or an array.
   Then "equal up to keys and container" is equality, and after its first processing a child is
   identical in both runs. *)
Definition cval (v : tyv) : Prop := v = TNone \/ exists l, v = TArr l.
Definition cnode (n : node) : Prop :=
  exists k fs vi vo, n = Leaf k fs (Some [("input", vi)]) (Some [("output", vo)]) /\ cval vi /\ cval vo.
Definition all_canon (ch : list (string * node)) : Prop := forall k n, assoc k ch = Some n -> cnode n.

Lemma rename_out_in v : rename_keys "output" "input" [("output", v)] = [("input", v)].
Proof. reflexivity. Qed.
Lemma rename_in_out v : rename_keys "input" "output" [("input", v)] = [("output", v)].
Proof. reflexivity. Qed.

Lemma cval_nother k v : cval v -> nother [(k, v)].
Proof.
  unfold nother, vals. cbn [map snd In]. intros [->|[l ->]] [H|[]]; discriminate.
Qed.

Lemma cval_canon_inj v w : cval v -> cval w -> canon v = canon w -> v = w.
Proof. intros [->|[l ->]] [->|[l' ->]]; cbn [canon]; intros H; congruence. Qed.

Lemma new_tin_canon vo vi eq :
  cval vo -> cval vi -> values_equal [("output", vo)] [("input", vi)] = Ok eq ->
  new_tin [("output", vo)] [("input", vi)] eq = [("input", vo)].
Proof.
  intros Hvo Hvi HV. unfold new_tin. destruct (rewr _ _ eq) eqn:R; [apply rename_out_in|].
  pose proof (rewr_false_sim _ _ _ HV R) as HS. unfold sim, vals in HS. cbn [map snd] in HS.
  inversion HS as [HC]. rewrite (cval_canon_inj _ _ Hvo Hvi HC). reflexivity.
Qed.

Lemma cnode_no n : cnode n -> ty_nother (node_tout n).
Proof.
  intros (k & fs & vi & vo & -> & _ & Hvo). cbn [node_tout ty_nother]. apply cval_nother. exact Hvo.
Qed.

Lemma all_canon_no ch : all_canon ch -> all_no ch.
Proof. intros H k n Hk. apply cnode_no. eapply H. exact Hk. Qed.

Lemma apply_edge_canon pre post post' :
  apply_edge pre post = (post', None) -> cnode pre -> cnode post ->
  cnode post' /\ exists vo, node_tout pre = Some [("output", vo)] /\ node_tin post' = Some [("input", vo)].
Proof.
  intros H (pk & pfs & pvi & pvo & -> & _ & Hpvo) (k & fs & vi & vo & -> & Hvi & Hvo).
  apply apply_edge_inv in H
    as (pk' & pfs' & pti' & o & k' & fs0 & i & tout & eq & fs' & tout' & E1 & E2 & HV & -> & HO & HN).
  inversion E1; subst pk' pfs' pti' o. inversion E2; subst k' fs0 i tout. clear E1 E2.
  rewrite (new_tin_canon _ _ _ Hpvo Hvi HV) in *.
  split; [|exists pvo; split; reflexivity].
  destruct (kind_eqb k KOutput) eqn:EK.
  - apply kind_eqb_output in EK. destruct (HO EK) as [_ ->]. rewrite rename_in_out.
    exists k, fs', pvo, pvo. split; [reflexivity|split; exact Hpvo].
  - assert (Hk : k <> KOutput). { intros ->. vm_compute in EK. discriminate. }
    destruct (HN Hk) as [(_ & _ & ->)|[(_ & _ & _ & ->)|(_ & _ & t & ->)]].
    + exists k, fs', pvo, vo. split; [reflexivity|split; assumption].
    + exists k, fs', pvo, vo. split; [reflexivity|split; assumption].
    + exists k, fs', pvo, (TArr t). split; [reflexivity|]. split; [exact Hpvo|right; eexists; reflexivity].
Qed.

Lemma step_next_canon es st st' : step es st = SNext st' -> all_canon (st_ch st) -> all_canon (st_ch st').
Proof.
  intros Hs Hc.
  apply step_next in Hs as (rest & pre_k & post_k & pre & post & post' & _ & Hpre & Hpost & Ha & ->).
  cbn [st_ch]. intros k n. rewrite assoc_assoc_set. destruct (String.eqb k post_k) eqn:E.
  - intros Hk. inversion Hk; subst n.
    apply (apply_edge_canon _ _ _ Ha (Hc _ _ Hpre) (Hc _ _ Hpost)).
  - intros Hk. eapply Hc. exact Hk.
Qed.

Lemma run_canon es : forall fuel st F,
  all_canon (st_ch st) -> run fuel es st = (F, Finished) -> all_canon (st_ch F).
Proof.
  induction fuel as [|f IH]; intros st F Hc H; [cbn [run] in H; discriminate|].
  rewrite run_S in H. destruct (step es st) as [|st' e|st'] eqn:Est.
  - inversion H; subst. exact Hc.
  - discriminate.
  - apply (IH st' F); [eapply step_next_canon; eassumption|exact H].
Qed.

Lemma apply_edge_pre_irrel a b c a' b' c' t post :
  apply_edge (Leaf a b c t) post = apply_edge (Leaf a' b' c' t) post.
Proof. destruct post; reflexivity. Qed.

(* in run 2 the body leaves the target exactly as it left it in run 1 *)
Lemma relc_step pre1 pre2 post1 post1' post2 nF :
  apply_edge pre1 post1 = (post1', None) ->
  (exists pk pfs pti, pre2 = Leaf pk pfs pti (node_tout pre1)) ->
  cnode pre1 -> cnode post1 -> cnode nF ->
  post2 = nF \/ post2 = post1 -> inv1 post1' nF ->
  apply_edge pre2 post2 = (post1', None).
Proof.
  intros H (pk2 & pfs2 & pti2 & ->) Cpre Cpost CF D Hinv.
  destruct D as [->| ->].
  2:{ destruct Cpre as (pk & pfs & pvi & pvo & -> & _). cbn [node_tout].
      rewrite <- H. apply apply_edge_pre_irrel. }
  destruct (apply_edge_canon _ _ _ H Cpre Cpost) as (Cpost' & vo & Hto & Hti').
  destruct (apply_edge_pres _ _ _ H (cnode_no _ Cpre)) as (Hproc & _ & _).
  destruct Hinv as (HK & HS & HP & _ & HD). specialize (HP Hproc).
  rewrite Hto.
  destruct CF as (k & fsF & vF & oF & -> & CvF & CoF).
  destruct Cpost' as (k' & fs1' & vi' & vo' & -> & Cvi' & Cvo').
  cbn [node_kind] in HK. subst k'. cbn [node_tin] in Hti'. inversion Hti'; subst vi'. clear Hti'.
  assert (Cvo : cval vo).
  { destruct Cpre as (pk & pfs & pvi & pvo & -> & _ & Hpvo). cbn [node_tout] in Hto.
    inversion Hto; subst. exact Hpvo. }
  destruct (values_equal_total [("output", vo)] [("input", vF)]) as [eq2 HV2];
    [cbn; lia|cbn; lia|apply cval_nother; exact Cvo|apply cval_nother; exact CvF|].
  pose proof HP as (_ & _ & HOF & HdF).
  rewrite (apply_edge_stable2 _ _ _ _ _ _ _ _ (Some [("output", oF)]) _ HV2);
    [|intros _; reflexivity|exact HdF].
  rewrite (new_tin_canon _ _ _ Cvo CvF HV2).
  cbn [node_fields node_tout node_kind] in HS, HD.
  destruct (kind_eqb k KOutput) eqn:EK.
  - pose proof EK as EK'. apply kind_eqb_output in EK'. subst k.
    rewrite HD by reflexivity. unfold out2. cbn [kind_eqb]. rewrite rename_in_out.
    destruct Hproc as (_ & _ & HO1 & _). rewrite (HO1 eq_refl), rename_in_out. reflexivity.
  - assert (Hk : k <> KOutput). { intros ->. vm_compute in EK. discriminate. }
    assert (Hset : settled (Leaf k fs1' (Some [("input", vo)]) (Some [("output", vo')]))).
    { apply proc_settled; [exact Hproc|exact Hk]. }
    destruct (HS Hset) as (_ & HT & HF). rewrite HF. unfold out2. rewrite EK. rewrite HT. reflexivity.
Qed.

Definition ch_relc (ch1 ch2 chF : list (string * node)) : Prop :=
  forall k n1, assoc k ch1 = Some n1 ->
    exists n2 nF, assoc k ch2 = Some n2 /\ assoc k chF = Some nF /\ (n2 = nF \/ n2 = n1).

(* the source of a ready edge is an Input node (never written) or has been processed (same in both runs) *)
Definition src_c (ch1 ch2 : list (string * node)) (ready : list (string * string)) : Prop :=
  forall a b n1, In (a, b) ready -> assoc a ch1 = Some n1 -> settled n1 \/ assoc a ch2 = Some n1.

Lemma run_second_c es : forall fuel s1 s2 F,
  run fuel es s1 = (F, Finished) ->
  st_ready s2 = st_ready s1 -> st_seen s2 = st_seen s1 ->
  all_canon (st_ch s1) -> ch_relc (st_ch s1) (st_ch s2) (st_ch F) ->
  src_c (st_ch s1) (st_ch s2) (st_ready s1) ->
  map fst (st_ch s2) = map fst (st_ch s1) -> NoDup (map fst (st_ch s1)) ->
  exists F2, run fuel es s2 = (F2, Finished) /\ st_ch F2 = st_ch F.
Proof.
  induction fuel as [|f IH]; intros s1 s2 F H Hr Hs Hc HR Hsrc Hkeys Hnd;
    [cbn [run] in H; discriminate|].
  pose proof (run_canon es _ _ _ Hc H) as HcF.
  pose proof (all_canon_no _ Hc) as Hno.
  rewrite run_S in H. destruct (step es s1) as [|st' e|s1'] eqn:Est; [| discriminate |].
  - inversion H; subst F. apply step_done in Est.
    exists s2. split.
    + rewrite run_S, step_done_intro; [reflexivity|]. rewrite Hr. exact Est.
    + apply idem_assoc_ext; [exact Hnd|exact Hkeys|].
      intros k v Hk. destruct (HR k v Hk) as (n2 & nF & H2 & HF & D).
      rewrite Hk in HF. inversion HF; subst nF. destruct D as [->| ->]; exact H2.
  - pose proof (step_next_canon _ _ _ Est Hc) as Hc'.
    destruct (step_next_inv1 _ _ _ Est Hno) as [Hinv01 Hno'].
    destruct (run_inv1 es f s1' F Hno' H) as [Hinv1F _].
    pose proof (ch_inv1_trans _ _ _ Hinv01 Hinv1F) as Hinv0F.
    apply step_next in Est
      as (rest & pre_k & post_k & pre1 & post1 & post1' & Hready & Hpre & Hpost & Ha & ->).
    cbn [st_ch st_ready st_seen] in *.
    (* the source *)
    destruct (HR _ _ Hpre) as (pre2 & nFa & Hpre2 & HFa & Da).
    assert (Epre2 : exists pk pfs pti, pre2 = Leaf pk pfs pti (node_tout pre1)).
    { assert (Hleaf : exists pk pfs pti, pre1 = Leaf pk pfs pti (node_tout pre1)).
      { destruct (Hc _ _ Hpre) as (pk & pfs & pvi & pvo & -> & _). eexists _, _, _. reflexivity. }
      destruct Da as [->| ->]; [|exact Hleaf].
      destruct (Hsrc pre_k post_k pre1) as [Hset|Hsame]; [|exact Hpre| |].
      - rewrite Hready. apply in_or_app. right. left. reflexivity.
      - destruct (Hinv0F _ _ Hpre) as (nFa' & HFa' & _ & HSa & _).
        rewrite HFa in HFa'. inversion HFa'; subst nFa'.
        destruct (HSa Hset) as (HsetF & HtoF & _). rewrite <- HtoF.
        destruct nFa as [k fs ti to|? ? ? ? ?]; [|contradiction]. eexists _, _, _. reflexivity.
      - rewrite Hpre2 in Hsame. inversion Hsame; subst nFa. exact Hleaf. }
    (* the target *)
    destruct (HR _ _ Hpost) as (post2 & nFb & Hpost2 & HFb & Db).
    assert (Hpost1' : assoc post_k (assoc_set post_k post1' (st_ch s1)) = Some post1').
    { rewrite assoc_assoc_set, String.eqb_refl. reflexivity. }
    destruct (Hinv1F _ _ Hpost1') as (nFb' & HFb' & Hinvb).
    rewrite HFb in HFb'. inversion HFb'; subst nFb'. clear HFb'.
    pose proof (relc_step pre1 pre2 post1 post1' post2 nFb Ha Epre2
                  (Hc _ _ Hpre) (Hc _ _ Hpost) (HcF _ _ HFb) Db Hinvb) as Ha2.
    pose proof (step_next_intro es s2 rest pre_k post_k pre2 post2 post1'
                  ltac:(rewrite Hr; exact Hready) Hpre2 Hpost2 Ha2) as Est2.
    rewrite run_S, Est2.
    apply (IH _ _ F H); cbn [st_ch st_ready st_seen].
    + rewrite Hs. reflexivity.
    + rewrite Hs. reflexivity.
    + exact Hc'.
    + intros k n1. rewrite !assoc_assoc_set. destruct (String.eqb k post_k) eqn:E.
      * apply String.eqb_eq in E. subst k. intros Hk. inversion Hk; subst n1.
        exists post1', nFb. split; [reflexivity|]. split; [exact HFb|right; reflexivity].
      * intros Hk. apply HR. exact Hk.
    + intros a b n Hin. rewrite !assoc_assoc_set. destruct (String.eqb a post_k) eqn:E.
      * intros Hn. right. exact Hn.
      * intros Hn. apply in_app_or in Hin as [Hin|Hin].
        -- apply (Hsrc a b); [|exact Hn]. rewrite Hready. apply in_or_app. left. exact Hin.
        -- apply out_edges_src in Hin as [Ea _]. subst a. rewrite String.eqb_refl in E. discriminate.
    + rewrite (assoc_set_keys _ _ _ _ Hpost2), (assoc_set_keys _ _ _ _ Hpost). exact Hkeys.
    + rewrite (assoc_set_keys _ _ _ _ Hpost). exact Hnd.
Qed.

Theorem infer_idempotent_canonical : forall ch es gi go m g1,
  NoDup (map fst ch) ->
  (forall k n, In (k, n) ch -> cnode n) ->
  gty_undef (graph_tin ch) = false ->
  infer_types (Graph ch es gi go m) = (g1, Finished) -> infer_types g1 = (g1, Finished).
Proof.
  intros ch es gi go m g1 Hnd Hcn Hgt H.
  assert (Hc : all_canon ch). { intros k n Hk. apply (Hcn k). apply idem_assoc_In. exact Hk. }
  apply (infer_second ch es gi go m g1 Hnd (all_canon_no _ Hc) Hgt H).
  intros F ER Hinv Hkeys Hready Hseen.
  apply (run_second_c es (infer_fuel ch es) (init_state ch es) (init_state (st_ch F) es) F ER).
  - exact Hready.
  - exact Hseen.
  - exact Hc.
  - cbn [init_state st_ch]. intros k n1 Hk. destruct (Hinv _ _ Hk) as (n' & Hn' & _).
    exists n', n'. split; [exact Hn'|]. split; [exact Hn'|]. left. reflexivity.
  - intros a b n Hin Hn. left. eapply init_src_settled; eassumption.
  - exact Hkeys.
  - exact Hnd.
Qed.

Theorem infer_idempotent_canonical_mk : forall ch es m g1,
  NoDup (map fst ch) -> (forall k n, In (k, n) ch -> cnode n) ->
  infer_types (mk_graph ch es m) = (g1, Finished) -> infer_types g1 = (g1, Finished).
Proof.
  intros ch es m g1 H1 H2 H. eapply infer_idempotent_canonical; [exact H1|exact H2| |exact H].
  unfold mk_graph in H. cbn [infer_types] in H.
  destruct (gty_undef (graph_tin ch)); [|reflexivity]. cbn [negb] in H.
  destruct (negb (gty_undef (graph_tout ch))); discriminate.
Qed.

(* ================================================================================================== *)
(* Sanity: a 4-node graph with a cycle (a -> b -> a) and an inconsistent edge (a produces [3], b
   declares [5]); idempotence by computation, and the graph satisfies the hypotheses of both theorems. *)
Definition ex_ch : list (string * node) :=
  [("i", Leaf KInput [] (Some [("input", TArr [2])]) (Some [("output", TArr [2])]));
   ("a", Leaf KScale [] (Some [("input", TArr [2])]) (Some [("output", TArr [3])]));
   ("b", Leaf KScale [] (Some [("input", TArr [5])]) (Some [("output", TArr [2])]));
   ("o", Leaf KOutput [] (Some [("input", TNone)]) (Some [("output", TNone)]))].
Definition ex_es : list (string * string) := [("i", "a"); ("a", "b"); ("b", "a"); ("b", "o")].
Definition ex_g : node := mk_graph ex_ch ex_es (VDict []).

Example ex_idempotent_by_computation :
  snd (infer_types ex_g) = Finished /\
  fst (infer_types ex_g) <> ex_g /\
  infer_types (fst (infer_types ex_g)) = (fst (infer_types ex_g), Finished).
Proof.
  split; [vm_compute; reflexivity|]. split; [|vm_compute; reflexivity].
  vm_compute. intros H. discriminate H.
Qed.

Lemma ex_nodup : NoDup (map fst ex_ch).
Proof.
  cbn [map fst ex_ch]. repeat constructor; cbn [In]; intros H;
    repeat (destruct H as [H|H]; [discriminate H|]); exact H.
Qed.

Example ex_idem_ok : idem_ok ex_ch ex_es.
Proof.
  split; [exact ex_nodup|]. split; [|split; [|vm_compute; reflexivity]].
  - intros a b n Hin. cbn [ex_es In] in Hin.
    repeat (destruct Hin as [Hin|Hin]; [inversion Hin; subst a b; vm_compute; intros Hn; inversion Hn; reflexivity|]).
    destruct Hin.
  - intros k n Hin. cbn [ex_ch In] in Hin.
    repeat (destruct Hin as [Hin|Hin];
            [inversion Hin; subst k n; cbn [node_tout ty_nother]; unfold nother, vals; cbn [map snd canon In];
             intros [H|[]]; discriminate H|]).
    destruct Hin.
Qed.

Example ex_idempotent_by_theorem : forall g1,
  infer_types ex_g = (g1, Finished) -> infer_types g1 = (g1, Finished).
Proof. intros g1. apply infer_idempotent_graph. exact ex_idem_ok. Qed.

(* an Output node with two different predecessors that is itself a source, canonical types *)
Definition ex2_ch : list (string * node) :=
  [("a1", Leaf KInput [] (Some [("input", TArr [4])]) (Some [("output", TArr [4])]));
   ("a2", Leaf KInput [] (Some [("input", TArr [3])]) (Some [("output", TArr [3])]));
   ("c", Leaf KOutput [] (Some [("input", TArr [3])]) (Some [("output", TArr [3])]));
   ("x", Leaf KScale [] (Some [("input", TArr [3])]) (Some [("output", TArr [4])]));
   ("d", Leaf KScale [] (Some [("input", TArr [7])]) (Some [("output", TArr [7])]))].
Definition ex2_es : list (string * string) :=
  [("a1", "c"); ("a2", "c"); ("c", "d"); ("c", "x"); ("x", "d")].

Example ex2_idempotent_by_computation :
  let g := mk_graph ex2_ch ex2_es (VDict []) in
  snd (infer_types g) = Finished /\
  infer_types (fst (infer_types g)) = (fst (infer_types g), Finished).
Proof. split; vm_compute; reflexivity. Qed.

Example ex2_canonical : forall k n, In (k, n) ex2_ch -> cnode n.
Proof.
  intros k n Hin. cbn [ex2_ch In] in Hin.
  repeat (destruct Hin as [Hin|Hin];
          [inversion Hin; subst k n; eexists _, _, _, _; split; [reflexivity|];
           split; right; eexists; reflexivity|]).
  destruct Hin.
Qed.

(* ---- the counterexamples to the unrestricted statement ------------------------------------------------- *)
(* CE1: ex2 with the Output node's stale input type written as a tuple (TSeq): d ends with
   {"input": (3,)} after the first run and with {"input": array([3])} after the second *)
Definition ce1_g : node :=
  mk_graph
    [("a1", Leaf KInput [] (Some [("input", TArr [4])]) (Some [("output", TArr [4])]));
     ("a2", Leaf KInput [] (Some [("input", TArr [3])]) (Some [("output", TArr [3])]));
     ("c", Leaf KOutput [] (Some [("input", TSeq [3])]) (Some [("output", TSeq [3])]));
     ("x", Leaf KScale [] (Some [("input", TArr [3])]) (Some [("output", TArr [4])]));
     ("d", Leaf KScale [] (Some [("input", TArr [7])]) (Some [("output", TArr [7])]))]
    ex2_es (VDict []).

Example counterexample_output_source :
  snd (infer_types ce1_g) = Finished /\
  snd (infer_types (fst (infer_types ce1_g))) = Finished /\
  fst (infer_types (fst (infer_types ce1_g))) <> fst (infer_types ce1_g).
Proof.
  split; [vm_compute; reflexivity|]. split; [vm_compute; reflexivity|].
  vm_compute. intros H. discriminate H.
Qed.

(* CE2: TOther is copied into an empty input type; the second run compares TOther with TOther *)
Definition ce2_g : node :=
  mk_graph
    [("a", Leaf KInput [] (Some [("input", TOther)]) (Some [("output", TOther)]));
     ("b", Leaf KScale [] (Some []) (Some [("output", TArr [1])]))]
    [("a", "b")] (VDict []).

Example counterexample_other :
  snd (infer_types ce2_g) = Finished /\
  snd (infer_types (fst (infer_types ce2_g))) = Raised OtherError.
Proof. split; vm_compute; reflexivity. Qed.

(* CE3: graph-level input type given by hand on a graph without Input child *)
Example counterexample_graph_types :
  let g := Graph [] [] (Some []) None VNone in
  snd (infer_types g) = Finished /\
  snd (infer_types (fst (infer_types g))) = Raised NotImplementedErr.
Proof. split; vm_compute; reflexivity. Qed.

Print Assumptions infer_idempotent.
Print Assumptions infer_idempotent_graph.
Print Assumptions infer_idempotent_mk.
Print Assumptions infer_idempotent_canonical.
Print Assumptions infer_idempotent_canonical_mk.
Print Assumptions ex_idempotent_by_computation.
Print Assumptions ex_idempotent_by_theorem.
Print Assumptions ex2_idempotent_by_computation.
Print Assumptions counterexample_output_source.
Print Assumptions counterexample_other.
Print Assumptions counterexample_graph_types.
