(* SerialProofs.v — the dictionary -> HDF5 tree -> dictionary round trip of Model/Serial.v refines an
   explicit, readable specification `norm_val` of what a file round trip does to a dictionary. *)
From NIR Require Import Model.Serial.
From Coq Require Import Lia.

(* ---- specification: the effect of write + read on a dictionary ------------------------------- *)
(* strings stay strings; an ndarray stays THE SAME ndarray (dtype, shape, content token) — a 0-d one
   comes back as the numpy scalar of the same dtype and token; Python numbers become numpy scalars;
   integer tuples/lists become int64 arrays; empty metadata disappears; dictionaries recurse. *)
Fixpoint norm_val (v : pval) : result pval :=
  let fix entries (l : list (string * pval)) : result (list (string * pval)) :=
    match l with
    | [] => Ok []
    | (k, x) :: r =>
      if has_bad_char k then Err ValueError else
      do here <-
        (if String.eqb k "metadata" then
           match x with
           | VDict [] => Ok []
           | VDict _ => do y <- norm_val x; Ok [(k, y)]
           | _ => Err AttributeError
           end
         else if unusable_name k then Err ValueError
         else do y <- norm_val x; Ok [(k, y)]);
      do rest <- entries r;
      Ok (here ++ rest)
    end in
  match v with
  | VStr s => Ok (VStr s)
  | VArr dt [] tok i => Ok (VNp dt tok (match i with Some [z] => Some z | _ => None end))
  | VArr _ _ _ _ => Ok v
  | VDict l => do l' <- entries l; Ok (VDict l')
  | _ => do d <- np_asarray v; Ok (read_dataset d)
  end.

Definition norm_entries : list (string * pval) -> result (list (string * pval)) :=
  fix entries (l : list (string * pval)) : result (list (string * pval)) :=
    match l with
    | [] => Ok []
    | (k, x) :: r =>
      if has_bad_char k then Err ValueError else
      do here <-
        (if String.eqb k "metadata" then
           match x with
           | VDict [] => Ok []
           | VDict _ => do y <- norm_val x; Ok [(k, y)]
           | _ => Err AttributeError
           end
         else if unusable_name k then Err ValueError
         else do y <- norm_val x; Ok [(k, y)]);
      do rest <- entries r;
      Ok (here ++ rest)
    end.

Lemma norm_val_dict l : norm_val (VDict l) = do l' <- norm_entries l; Ok (VDict l').
Proof. reflexivity. Qed.

Lemma norm_entries_cons k x r :
  norm_entries ((k, x) :: r) =
  if has_bad_char k then Err ValueError else
  do here <-
    (if String.eqb k "metadata" then
       match x with
       | VDict [] => Ok []
       | VDict _ => do y <- norm_val x; Ok [(k, y)]
       | _ => Err AttributeError
       end
     else if unusable_name k then Err ValueError
     else do y <- norm_val x; Ok [(k, y)]);
  do rest <- norm_entries r;
  Ok (here ++ rest).
Proof. reflexivity. Qed.

Definition hdf_entries (ms : list (string * h5)) : list (string * pval) :=
  map (fun p => (fst p, hdf2dict (snd p))) ms.

Lemma hdf_entries_app a b : hdf_entries (a ++ b) = hdf_entries a ++ hdf_entries b.
Proof. unfold hdf_entries. apply map_app. Qed.

Lemma hdf2dict_group ms : hdf2dict (H5Group ms) = VDict (hdf_entries ms).
Proof. reflexivity. Qed.

Lemma hdf2dict_leaf d : (forall ms, d <> H5Group ms) -> hdf2dict d = read_dataset d.
Proof. destruct d; intros H; try reflexivity. exfalso. eapply H. reflexivity. Qed.

Lemma np_asarray_not_group v d : np_asarray v = Ok d -> forall ms, d <> H5Group ms.
Proof.
  intros H ms ->. destruct v; cbn in H; try discriminate.
  - destruct (int64_ok z); [discriminate|]. destruct ((0 <=? z) && (z <? 18446744073709551616)); discriminate.
  - destruct l as [|a l]; [discriminate|].
    destruct (ints_view (a :: l)); [destruct (forallb int64_ok l0); discriminate|].
    destruct (mapM _ (a :: l)); discriminate.
  - destruct l as [|a l]; [discriminate|].
    destruct (ints_view (a :: l)); [destruct (forallb int64_ok l0); discriminate|].
    destruct (mapM _ (a :: l)); discriminate.
Qed.

(* THE REFINEMENT: whatever write_rec produces, reading it back yields norm_entries of the input *)
Lemma write_rec_refines fuel : forall kv ms,
  write_rec fuel kv = Ok ms -> norm_entries kv = Ok (hdf_entries ms).
Proof.
  induction fuel as [|f IH]; intros kv ms H; [discriminate|].
  revert ms H. induction kv as [|[k x] r IHr]; intros ms H.
  - cbn in H. inversion H. reflexivity.
  - cbn [write_rec] in H. rewrite norm_entries_cons.
    destruct (has_bad_char k); [discriminate|].
    (* the entry itself *)
    match type of H with (do here <- ?E; _) = _ => destruct E as [here|e] eqn:Hhere end; [|discriminate].
    cbn [bind] in H.
    destruct (write_rec f r) as [rest|e] eqn:Hrest; [|discriminate]. cbn [bind] in H.
    inversion H; subst ms. clear H.
    assert (Hr : norm_entries r = Ok (hdf_entries rest)).
    { (* the tail is processed with the same fuel f < S f: use the outer hypothesis on fuel *)
      apply IH. exact Hrest. }
    rewrite Hr.
    assert (Hh :
      (if String.eqb k "metadata" then
         match x with
         | VDict [] => Ok []
         | VDict _ => do y <- norm_val x; Ok [(k, y)]
         | _ => Err AttributeError
         end
       else if unusable_name k then Err ValueError
       else do y <- norm_val x; Ok [(k, y)]) = Ok (hdf_entries here)).
    { destruct (String.eqb k "metadata").
      - destruct x; try discriminate. destruct kv as [|e0 kv0].
        + inversion Hhere. reflexivity.
        + destruct (write_rec f (e0 :: kv0)) as [m|] eqn:Hm; [|discriminate]. inversion Hhere.
          rewrite norm_val_dict, (IH _ _ Hm). reflexivity.
      - destruct (unusable_name k); [discriminate|].
        destruct x.
        11: { destruct (write_rec f kv) as [m|] eqn:Hm; [|discriminate]. inversion Hhere.
              rewrite norm_val_dict, (IH _ _ Hm). reflexivity. }
        all: cbn [norm_val bind] in Hhere |- *.
        5: { inversion Hhere. reflexivity. }
        6: { inversion Hhere. destruct sh; reflexivity. }
        all: destruct (np_asarray _) as [d|] eqn:Hd; [|discriminate]; inversion Hhere; cbn [bind];
             cbn [hdf_entries map fst snd];
             rewrite (hdf2dict_leaf d (np_asarray_not_group _ _ Hd)); reflexivity. }
    rewrite Hh. cbn [bind]. rewrite hdf_entries_app. reflexivity.
Qed.

(* ---- consequences ---------------------------------------------------------------------------------- *)
Lemma bind_ok {A B} (r : result A) (f : A -> result B) b :
  bind r f = Ok b -> exists a, r = Ok a /\ f a = Ok b.
Proof. destruct r; cbn; [eauto|discriminate]. Qed.

(* reading what write produced = from_dict of the normalised dictionary *)
Theorem read_write_refines (g : node) (t : h5) :
  write g = Ok t ->
  exists d', norm_entries (to_dict g) = Ok d' /\ read t = from_dict d' /\ read_version t = Ok nir_version.
Proof.
  unfold write. intros H. apply bind_ok in H as (ms & Hw & Ht). inversion Ht; subst t. clear Ht.
  apply write_rec_refines in Hw. exists (hdf_entries ms). split; [exact Hw|]. split; reflexivity.
Qed.

(* an ndarray is a fixed point of the round trip: identical dtype, shape and content token *)
Lemma norm_val_array dt sh tok i : sh <> [] -> norm_val (VArr dt sh tok i) = Ok (VArr dt sh tok i).
Proof. destruct sh; [congruence|reflexivity]. Qed.

(* a 0-d ndarray comes back as the numpy scalar of the same dtype and content *)
Lemma norm_val_array0 dt tok i :
  norm_val (VArr dt [] tok i) = Ok (VNp dt tok (match i with Some [z] => Some z | _ => None end)).
Proof. reflexivity. Qed.

Lemma norm_val_str s : norm_val (VStr s) = Ok (VStr s).
Proof. reflexivity. Qed.

Lemma norm_val_npscalar dt tok i : norm_val (VNp dt tok i) = Ok (VNp dt tok i).
Proof. destruct i; reflexivity. Qed.

(* membership is preserved entry by entry (at every level: apply repeatedly through VDict) *)
Lemma norm_entries_in kv : forall kv' k v,
  norm_entries kv = Ok kv' -> In (k, v) kv ->
  (k = "metadata" /\ v = VDict []) \/ exists v', norm_val v = Ok v' /\ In (k, v') kv'.
Proof.
  induction kv as [|[k0 x] r IH]; intros kv' k v H Hin; [destruct Hin|].
  rewrite norm_entries_cons in H.
  destruct (has_bad_char k0); [discriminate|].
  apply bind_ok in H as (here & Hhere & H). apply bind_ok in H as (rest & Hrest & H). inversion H; subst kv'.
  destruct Hin as [E|Hin].
  - inversion E; subst k0 x. clear E.
    destruct (String.eqb k "metadata") eqn:Hk.
    + apply String.eqb_eq in Hk. subst k.
      destruct v; try discriminate. destruct kv as [|e0 kv0].
      * left. split; reflexivity.
      * right. apply bind_ok in Hhere as (y & Hy & Hh). inversion Hh; subst here.
        exists y. split; [exact Hy|]. apply in_or_app. left. left. reflexivity.
    + destruct (unusable_name k); [discriminate|].
      right. apply bind_ok in Hhere as (y & Hy & Hh). inversion Hh; subst here.
      exists y. split; [exact Hy|]. apply in_or_app. left. left. reflexivity.
  - destruct (IH _ _ _ Hrest Hin) as [L|(v' & Hv & Hin')]; [left; exact L|].
    right. exists v'. split; [exact Hv|]. apply in_or_app. right. exact Hin'.
Qed.

(* nothing is invented: every entry of the result comes from an entry of the input *)
Lemma norm_entries_from kv : forall kv' k v',
  norm_entries kv = Ok kv' -> In (k, v') kv' -> exists v, In (k, v) kv /\ norm_val v = Ok v'.
Proof.
  induction kv as [|[k0 x] r IH]; intros kv' k v' H Hin.
  - cbn in H. inversion H; subst. destruct Hin.
  - rewrite norm_entries_cons in H.
    destruct (has_bad_char k0); [discriminate|].
    apply bind_ok in H as (here & Hhere & H). apply bind_ok in H as (rest & Hrest & H). inversion H; subst kv'.
    apply in_app_or in Hin as [Hin|Hin].
    + assert (Hx : here = [] \/ exists y, norm_val x = Ok y /\ here = [(k0, y)]).
      { destruct (String.eqb k0 "metadata").
        - destruct x; try discriminate. destruct kv as [|e0 kv0].
          + inversion Hhere. left. reflexivity.
          + apply bind_ok in Hhere as (y & Hy & Hh). inversion Hh. right. eauto.
        - destruct (unusable_name k0); [discriminate|].
          apply bind_ok in Hhere as (y & Hy & Hh). inversion Hh. right. eauto. }
      destruct Hx as [->|(y & Hy & ->)]; [destruct Hin|].
      destruct Hin as [E|[]]. inversion E; subst. exists x. split; [left; reflexivity|exact Hy].
    + destruct (IH _ _ _ Hrest Hin) as (v & Hv & Hn). exists v. split; [right; exact Hv|exact Hn].
Qed.

(* the array-valued entries of a dictionary are read back IDENTICAL *)
Theorem arrays_survive kv kv' k dt sh tok i :
  norm_entries kv = Ok kv' -> In (k, VArr dt sh tok i) kv -> sh <> [] -> In (k, VArr dt sh tok i) kv'.
Proof.
  intros H Hin Hsh. destruct (norm_entries_in _ _ _ _ H Hin) as [[_ E]|(v' & Hv & Hin')]; [discriminate|].
  rewrite norm_val_array in Hv by assumption. inversion Hv; subst. exact Hin'.
Qed.

Theorem arrays0_survive kv kv' k dt tok i :
  norm_entries kv = Ok kv' -> In (k, VArr dt [] tok i) kv ->
  In (k, VNp dt tok (match i with Some [z] => Some z | _ => None end)) kv'.
Proof.
  intros H Hin. destruct (norm_entries_in _ _ _ _ H Hin) as [[_ E]|(v' & Hv & Hin')]; [discriminate|].
  rewrite norm_val_array0 in Hv. inversion Hv; subst. exact Hin'.
Qed.

(* nested dictionaries (sub-graphs, nodes, metadata trees) recurse: the same statement holds inside *)
Theorem subdict_survives kv kv' k l :
  norm_entries kv = Ok kv' -> In (k, VDict l) kv -> (k <> "metadata" \/ l <> []) ->
  exists l', norm_entries l = Ok l' /\ In (k, VDict l') kv'.
Proof.
  intros H Hin Hne. destruct (norm_entries_in _ _ _ _ H Hin) as [[E1 E2]|(v' & Hv & Hin')].
  - inversion E2; subst. destruct Hne as [Hne|Hne]; congruence.
  - rewrite norm_val_dict in Hv. apply bind_ok in Hv as (l' & Hl & Hv). inversion Hv; subst.
    exists l'. split; assumption.
Qed.

(* integers keep their value (Python int -> numpy int64/uint64 scalar; int tuples/lists -> int64 array) *)
Lemma norm_val_int z v' : norm_val (VInt z) = Ok v' -> int_view v' = Some z.
Proof.
  cbn. destruct (int64_ok z); [intros H; inversion H; reflexivity|].
  destruct ((0 <=? z) && (z <? 18446744073709551616)); [intros H; inversion H; reflexivity|discriminate].
Qed.

Lemma norm_val_ints l zs v' :
  ints_view l = Some zs -> l <> [] -> norm_val (VTuple l) = Ok v' \/ norm_val (VList l) = Ok v' ->
  seq_view v' = Some zs.
Proof.
  intros Hi Hne [H|H]; cbn in H; destruct l as [|a l]; try congruence; rewrite Hi in H;
    destruct (forallb int64_ok zs); try discriminate; inversion H; reflexivity.
Qed.


(* ---- paths into nested dictionaries -------------------------------------------------------------- *)
Inductive reach : list (string * pval) -> list string -> pval -> Prop :=
| reach_here d k v : In (k, v) d -> reach d [k] v
| reach_down d k l p v : In (k, VDict l) d -> p <> [] -> reach l p v -> reach d (k :: p) v.

Lemma reach_nonempty d p v : reach d p v -> d <> [].
Proof. intros H; destruct H as [d k v Hin|d k l p v Hin _ _]; intros ->; destruct Hin. Qed.

(* every array reachable in the dictionary is reachable, IDENTICAL, in the dictionary read back *)
Theorem arrays_survive_deep d d' p dt sh tok i :
  norm_entries d = Ok d' -> reach d p (VArr dt sh tok i) -> sh <> [] -> reach d' p (VArr dt sh tok i).
Proof.
  intros H R Hsh. revert d' H.
  remember (VArr dt sh tok i) as a eqn:Ea.
  induction R as [d k v Hin|d k l p v Hin Hp R IH]; intros d' H; subst.
  - constructor. eapply arrays_survive; eassumption.
  - destruct (subdict_survives _ _ _ _ H Hin) as (l' & Hl & Hin').
    { right. eapply reach_nonempty. exact R. }
    eapply reach_down; [exact Hin'|exact Hp|]. apply IH; [reflexivity|exact Hl].
Qed.

Theorem arrays0_survive_deep d d' p dt tok i :
  norm_entries d = Ok d' -> reach d p (VArr dt [] tok i) ->
  reach d' p (VNp dt tok (match i with Some [z] => Some z | _ => None end)).
Proof.
  intros H R. revert d' H.
  remember (VArr dt [] tok i) as a eqn:Ea.
  induction R as [d k v Hin|d k l p v Hin Hp R IH]; intros d' H; subst.
  - constructor. eapply arrays0_survive; eassumption.
  - destruct (subdict_survives _ _ _ _ H Hin) as (l' & Hl & Hin').
    { right. eapply reach_nonempty. exact R. }
    eapply reach_down; [exact Hin'|exact Hp|]. apply IH; [reflexivity|exact Hl].
Qed.

(* strings (type tags, padding modes, metadata text) likewise *)
Theorem strings_survive_deep d d' p s :
  norm_entries d = Ok d' -> reach d p (VStr s) -> reach d' p (VStr s).
Proof.
  intros H R. revert d' H.
  remember (VStr s) as a eqn:Ea.
  induction R as [d k v Hin|d k l p v Hin Hp R IH]; intros d' H; subst.
  - constructor. destruct (norm_entries_in _ _ _ _ H Hin) as [[_ E]|(v' & Hv & Hin')]; [discriminate|].
    cbn in Hv. inversion Hv; subst. exact Hin'.
  - destruct (subdict_survives _ _ _ _ H Hin) as (l' & Hl & Hin').
    { right. eapply reach_nonempty. exact R. }
    eapply reach_down; [exact Hin'|exact Hp|]. apply IH; [reflexivity|exact Hl].
Qed.

(* ---- the dictionary form contains every field of every node, at every depth -------------------- *)
Lemma to_dict_leaf_field k fs tin tout f v :
  In (f, v) fs -> In (f, v) (to_dict (Leaf k fs tin tout)).
Proof. intros H. cbn [to_dict]. destruct k; repeat rewrite in_app_iff; auto. Qed.

Lemma to_dict_type n : In ("type", VStr (kind_name (node_kind n))) (to_dict n).
Proof.
  destruct n as [k fs tin tout|ch es gi go m]; cbn [to_dict node_kind].
  - destruct k; repeat rewrite in_app_iff; cbn [In]; auto 6.
  - right. right. right. left. reflexivity.
Qed.

Lemma to_dict_child ch es gi go m name c :
  In (name, c) ch ->
  exists l, In ("nodes", VDict l) (to_dict (Graph ch es gi go m)) /\ In (name, VDict (to_dict c)) l.
Proof.
  intros H. cbn [to_dict]. eexists. split; [left; reflexivity|].
  apply in_map_iff. exists (name, c). split; [reflexivity|exact H].
Qed.

(* field f of the child `name` of a graph sits at path nodes/name/f *)
Lemma to_dict_reach_child_field ch es gi go m name k fs tin tout f v :
  In (name, Leaf k fs tin tout) ch -> In (f, v) fs ->
  reach (to_dict (Graph ch es gi go m)) ["nodes"; name; f] v.
Proof.
  intros Hc Hf. destruct (to_dict_child ch es gi go m _ _ Hc) as (l & Hl & Hin).
  eapply reach_down; [exact Hl|discriminate|].
  eapply reach_down; [exact Hin|discriminate|].
  constructor. apply to_dict_leaf_field. exact Hf.
Qed.

Lemma to_dict_reach_metadata ch es gi go m : reach (to_dict (Graph ch es gi go m)) ["metadata"] m.
Proof. constructor. cbn [to_dict]. right. right. left. reflexivity. Qed.

Lemma to_dict_edges ch es gi go m :
  In ("edges", VList (map (fun e => VTuple [VStr (fst e); VStr (snd e)]) es)) (to_dict (Graph ch es gi go m)).
Proof. cbn [to_dict]. right. left. reflexivity. Qed.

(* ---- the edge list survives in order, duplicates and all -------------------------------------- *)
Lemma mapM_strs (l : list string) :
  mapM (fun x => match x with VStr s => Ok s | _ => Err TypeError end) (map VStr l) = Ok l.
Proof. induction l as [|a l IH]; cbn [map mapM]; [reflexivity|]. rewrite IH. reflexivity. Qed.

Lemma edges_rows es :
  mapM (fun row => match row with
                   | VTuple r | VList r =>
                     mapM (fun x => match x with VStr s => Ok s | _ => Err TypeError end) r
                   | _ => Err TypeError
                   end) (map (fun e => VTuple [VStr (fst e); VStr (snd e)]) es)
  = Ok (map (fun e => [fst e; snd e]) es).
Proof. induction es as [|e es IH]; cbn [map mapM bind]; [reflexivity|]. rewrite IH. reflexivity. Qed.

Lemma edge_rows_read (es : list (string * string)) :
  edge_rows (VList (map (fun r => VTuple (map VBytes r)) (map (fun e => [fst e; snd e]) es))) = Ok es.
Proof.
  cbn [edge_rows]. induction es as [|[a b] es IH]; cbn [map mapM bind as_text fst snd]; [reflexivity|].
  rewrite IH. reflexivity.
Qed.

Lemma ints_view_strs es : es <> [] ->
  ints_view (map (fun e : string * string => VTuple [VStr (fst e); VStr (snd e)]) es) = None.
Proof. destruct es as [|e es]; [congruence|]. reflexivity. Qed.

(* write + read of the edge list of a graph yields exactly the same list of pairs (C01: same edge
   list in the same order, duplicates, self-loops and dotted addresses included) *)
Theorem edges_round_trip es v' :
  norm_val (VList (map (fun e => VTuple [VStr (fst e); VStr (snd e)]) es)) = Ok v' ->
  edge_rows v' = Ok es.
Proof.
  destruct es as [|e es].
  - cbn. intros H. inversion H. reflexivity.
  - remember (e :: es) as l eqn:El. intros H.
    assert (Hne : l <> []) by (subst; discriminate).
    cbn [norm_val np_asarray] in H.
    destruct (map _ l) as [|x xs] eqn:Hm; [subst; discriminate|]. rewrite <- Hm in H.
    rewrite (ints_view_strs l Hne), edges_rows in H. cbn [bind read_dataset] in H.
    inversion H. apply edge_rows_read.
Qed.


(* ---- metadata is semantically inert (C16) ------------------------------------------------------- *)
Definition res_types (r : result node) : result (ty * ty) :=
  match r with
  | Ok (Leaf _ _ tin tout) => Ok (tin, tout)
  | Ok (Graph _ _ _ _ _) => Err OtherError
  | Err e => Err e
  end.

Lemma assoc_set_other {A} (f k : string) (v : A) l : f <> k -> assoc f (assoc_set k v l) = assoc f l.
Proof.
  intros Hne. induction l as [|[k' v'] r IH]; cbn [assoc_set assoc].
  - destruct (String.eqb f k) eqn:E; [apply String.eqb_eq in E; congruence|reflexivity].
  - destruct (String.eqb k k') eqn:E.
    + apply String.eqb_eq in E. subst k'. cbn [assoc].
      destruct (String.eqb f k) eqn:E2; [apply String.eqb_eq in E2; congruence|reflexivity].
    + cbn [assoc]. destruct (String.eqb f k'); [reflexivity|exact IH].
Qed.

Lemma fld_meta f m fs : f <> "metadata" -> fld f (assoc_set "metadata" m fs) = fld f fs.
Proof. intros H. unfold fld. rewrite assoc_set_other by exact H. reflexivity. Qed.

Lemma fld_shape_meta f m fs : f <> "metadata" -> fld_shape f (assoc_set "metadata" m fs) = fld_shape f fs.
Proof. intros H. unfold fld_shape. rewrite fld_meta by exact H. reflexivity. Qed.

Ltac meta_rw := repeat (rewrite fld_meta by discriminate); repeat (rewrite fld_shape_meta by discriminate).
Ltac step :=
  match goal with
  | |- res_types ?a = res_types ?a => reflexivity
  | |- context [fld_shape ?f ?fs] => destruct (fld_shape f fs) eqn:?; cbn [bind res_types]
  | |- context [fld ?f ?fs] => destruct (fld f fs) eqn:?; cbn [bind res_types]
  | |- context [if ?x then _ else _] => destruct x eqn:?; cbn [bind res_types]
  | |- context [match ?x with _ => _ end] => destruct x eqn:?; cbn [bind res_types]
  | |- context [bind ?r _] => destruct r eqn:?; cbn [bind res_types]
  end.

Lemma post_init_ignores_metadata k fs m :
  res_types (post_init k (assoc_set "metadata" m fs)) = res_types (post_init k fs).
Proof.
  destruct k; unfold post_init, elementwise, matvec; cbn [mapM]; meta_rw; cbn [bind].
  all: timeout 300 (repeat step).
  all: reflexivity.
Qed.


(* inference: the recomputation of an undefined output type never looks at metadata *)
Definition dproj (d : dres) : option (list (string * tyv)) * option exn := (snd (fst d), snd d).

Lemma derive_output_ignores_metadata k fs m o i :
  dproj (derive_output k (assoc_set "metadata" m fs) o i) = dproj (derive_output k fs o i).
Proof.
  destruct k; unfold derive_output; meta_rw; cbn [bind]; try reflexivity.
  all: timeout 300 (repeat match goal with
         | |- dproj ?a = dproj ?a => reflexivity
         | |- context [if ?x then _ else _] => destruct x eqn:?; cbn [bind dproj fst snd]
         | |- context [match ?x with _ => _ end] => destruct x eqn:?; cbn [bind dproj fst snd]
         | |- context [bind ?r _] => destruct r eqn:?; cbn [bind dproj fst snd]
         end).
  all: try reflexivity.
Qed.

(* the type check only reads the two types of each child: any change confined to fields (metadata
   included) leaves the verdict unchanged *)
Definition same_types (a b : node) : Prop := child_tin a = child_tin b /\ child_tout a = child_tout b.

Lemma check_edge_types_only ch ch' e :
  (forall k, match assoc k ch, assoc k ch' with
             | Some a, Some b => same_types a b
             | None, None => True
             | _, _ => False
             end) ->
  check_edge ch e = check_edge ch' e.
Proof.
  intros H. unfold check_edge, lookup_child.
  pose proof (H (fst e)) as H1. pose proof (H (snd e)) as H2.
  destruct (assoc (fst e) ch) as [a|], (assoc (fst e) ch') as [a'|]; try contradiction; cbn [bind]; [|reflexivity].
  destruct (assoc (snd e) ch) as [b|], (assoc (snd e) ch') as [b'|]; try contradiction; cbn [bind]; [|reflexivity].
  destruct H1 as [_ H1]. destruct H2 as [H2 _]. rewrite H1, H2. reflexivity.
Qed.

Lemma check_edges_types_only ch ch' es :
  (forall k, match assoc k ch, assoc k ch' with
             | Some a, Some b => same_types a b
             | None, None => True
             | _, _ => False
             end) ->
  check_edges ch es = check_edges ch' es.
Proof.
  intros H. induction es as [|e es IH]; cbn [check_edges]; [reflexivity|].
  rewrite (check_edge_types_only _ _ _ H), IH. reflexivity.
Qed.

(* in the file, an entry other than "metadata" is written independently of the metadata value *)
Lemma norm_entries_other_independent kv1 : forall kv2 r1 r2,
  Forall2 (fun a b => fst a = fst b /\ (fst a <> "metadata" -> snd a = snd b)) kv1 kv2 ->
  norm_entries kv1 = Ok r1 -> norm_entries kv2 = Ok r2 ->
  filter (fun p => negb (String.eqb (fst p) "metadata")) r1 =
  filter (fun p => negb (String.eqb (fst p) "metadata")) r2.
Proof.
  induction kv1 as [|[k x] t IH]; intros kv2 r1 r2 HF H1 H2; inversion HF as [|a b ta tb Hab HT]; subst.
  - cbn in H1, H2. inversion H1; inversion H2; reflexivity.
  - destruct b as [k' y]. cbn [fst snd] in Hab. destruct Hab as [<- Hv].
    rewrite norm_entries_cons in H1, H2.
    destruct (has_bad_char k); [discriminate|].
    apply bind_ok in H1 as (h1 & Hh1 & H1). apply bind_ok in H1 as (t1 & Ht1 & H1). inversion H1; subst r1.
    apply bind_ok in H2 as (h2 & Hh2 & H2). apply bind_ok in H2 as (t2 & Ht2 & H2). inversion H2; subst r2.
    rewrite !filter_app. rewrite (IH _ _ _ HT Ht1 Ht2). f_equal.
    destruct (String.eqb k "metadata") eqn:Hk.
    + (* the metadata entry itself: whatever is written carries the key "metadata" and is filtered out *)
      assert (Hf : forall h v, (match v with VDict [] => Ok [] | VDict _ => do y <- norm_val v; Ok [(k, y)]
                                | _ => Err AttributeError end) = Ok h ->
                   filter (fun p => negb (String.eqb (fst p) "metadata")) h = []).
      { intros h v Hh. destruct v; try discriminate. destruct kv as [|e0 kv0]; [inversion Hh; reflexivity|].
        apply bind_ok in Hh as (yy & _ & Hh). inversion Hh. cbn [filter fst]. rewrite Hk. reflexivity. }
      rewrite (Hf _ _ Hh1), (Hf _ _ Hh2). reflexivity.
    + assert (x = y) by (apply Hv; intros ->; discriminate). subst y.
      rewrite Hh1 in Hh2. inversion Hh2. reflexivity.
Qed.
