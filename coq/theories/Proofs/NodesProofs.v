(* NodesProofs.v — lemmas about Model/Nodes.v and the per-node rules of Model/Graph.v *)
From NIR Require Import Model.Graph Proofs.ShapesProofs.
From Coq Require Import Lia ZifyBool.

(* the admissible forms of a shape argument holding the integers sh *)
Inductive shape_arg (sh : list Z) : pval -> tyv -> Prop :=
| SA_arr dt tok n : shape_arg sh (VArr dt [n] tok (Some sh)) (TArr sh)
| SA_tuple l : ints_view l = Some sh -> shape_arg sh (VTuple l) (TArr sh)
| SA_list l : ints_view l = Some sh -> shape_arg sh (VList l) (TArr sh).

Definition valid_dims (sh : list Z) (s e : Z) : Prop :=
  let n := lenZ sh in
  1 <= n /\ - n <= s < n /\ - n <= e < n /\ norm_dim n s <= norm_dim n e.

Lemma valid_dims_prod sh s e : valid_dims sh s e -> (prodZ sh =? prodZ (flatten_out sh s e)) = true.
Proof.
  intros (H1 & H2 & H3 & H4). rewrite flatten_out_prod by assumption. apply Z.eqb_refl.
Qed.

(* binding the keyword arguments of Flatten against the REGENERATED field table *)
Lemma bind_flatten (x : pval) (s e : pval) :
  bind_args KFlatten [("input_type", x); ("start_dim", s); ("end_dim", e)] =
  Ok [("input_type", x); ("start_dim", s); ("end_dim", e); ("output_type", VNone);
      ("metadata", VDict [])].
Proof. reflexivity. Qed.

Lemma parse_shape_arg sh x tv : shape_arg sh x tv -> parse_shape x "input" = Ok [("input", tv)].
Proof. intros H; destruct H; cbn; try rewrite H; reflexivity. Qed.

Lemma shape_arg_nums sh x tv : shape_arg sh x tv -> tv = TArr sh.
Proof. intros H; destruct H; reflexivity. Qed.

(* construction: ndarray / list / tuple *)
Lemma flatten_construct (sh : list Z) (x : pval) (tv : tyv) (s e : Z) :
  shape_arg sh x tv -> valid_dims sh s e ->
  construct KFlatten [("input_type", x); ("start_dim", VInt s); ("end_dim", VInt e)] =
  Ok (Leaf KFlatten [("start_dim", VInt s); ("end_dim", VInt e); ("metadata", VDict [])]
        (Some [("input", TArr sh)]) (Some [("output", TArr (flatten_out sh s e))])).
Proof.
  intros Hx Hv. unfold construct. rewrite bind_flatten. cbn [bind].
  unfold post_init. cbn [fld assoc String.eqb Ascii.eqb Bool.eqb bind].
  rewrite (parse_shape_arg _ _ _ Hx). rewrite (shape_arg_nums _ _ _ Hx).
  cbn [bind assoc String.eqb Ascii.eqb Bool.eqb tyv_nums int_view].
  rewrite (valid_dims_prod _ _ _ Hv). reflexivity.
Qed.

(* construction: dict form {"input": ndarray} *)
Lemma flatten_construct_dict (sh : list Z) dt tok n (s e : Z) :
  valid_dims sh s e ->
  construct KFlatten [("input_type", VDict [("input", VArr dt [n] tok (Some sh))]);
                      ("start_dim", VInt s); ("end_dim", VInt e)] =
  Ok (Leaf KFlatten [("start_dim", VInt s); ("end_dim", VInt e); ("metadata", VDict [])]
        (Some [("input", TArr sh)]) (Some [("output", TArr (flatten_out sh s e))])).
Proof.
  intros Hv. unfold construct. rewrite bind_flatten. cbn [bind].
  unfold post_init.
  cbn [fld assoc String.eqb Ascii.eqb Bool.eqb bind parse_shape map fst snd tyv_of_pval tyv_nums int_view].
  rewrite (valid_dims_prod _ _ _ Hv). reflexivity.
Qed.

(* inference on a Flatten whose output is undefined *)
Lemma flatten_infer (sh : list Z) (s e : Z) fs pre :
  fld "start_dim" fs = Ok (VInt s) -> fld "end_dim" fs = Ok (VInt e) -> valid_dims sh s e ->
  derive_output KFlatten fs pre [("input", TArr sh)] =
  (fs, Some [("output", TArr (flatten_out sh s e))], None).
Proof.
  intros Hs He Hv. unfold derive_output, get_key.
  cbn [assoc String.eqb Ascii.eqb Bool.eqb bind tyv_nums].
  rewrite Hs, He. cbn [bind int_view]. rewrite (valid_dims_prod _ _ _ Hv). reflexivity.
Qed.

Lemma py_index_0 {A} (a : A) r : py_index (a :: r) 0 = Ok a.
Proof.
  unfold py_index, lenZ. cbn [length]. change (0 <? 0) with false. cbv iota.
  destruct ((0 <? 0) || (Z.of_nat (S (length r)) <=? 0)) eqn:E; [lia|]. reflexivity.
Qed.
Lemma py_index_1 {A} (a b : A) r : py_index (a :: b :: r) 1 = Ok b.
Proof.
  unfold py_index, lenZ. cbn [length]. change (1 <? 0) with false. cbv iota.
  destruct ((1 <? 0) || (Z.of_nat (S (S (length r))) <=? 1)) eqn:E; [lia|]. reflexivity.
Qed.
Lemma py_index_2 {A} (a b c : A) r : py_index (a :: b :: c :: r) 2 = Ok c.
Proof.
  unfold py_index, lenZ. cbn [length]. change (2 <? 0) with false. cbv iota.
  destruct ((2 <? 0) || (Z.of_nat (S (S (S (length r)))) <=? 2)) eqn:E; [lia|]. reflexivity.
Qed.

(* ---------- C06: Conv / pooling node types ---------- *)
Lemma bind_conv2d ish w stride pad dil groups bias :
  bind_args KConv2d [("input_shape", ish); ("weight", w); ("stride", stride); ("padding", pad);
                     ("dilation", dil); ("groups", groups); ("bias", bias)] =
  Ok [("input_shape", ish); ("weight", w); ("stride", stride); ("padding", pad);
      ("dilation", dil); ("groups", groups); ("bias", bias); ("metadata", VDict [])].
Proof. reflexivity. Qed.

Lemma bind_conv1d ish w stride pad dil groups bias :
  bind_args KConv1d [("input_shape", ish); ("weight", w); ("stride", stride); ("padding", pad);
                     ("dilation", dil); ("groups", groups); ("bias", bias)] =
  Ok [("input_shape", ish); ("weight", w); ("stride", stride); ("padding", pad);
      ("dilation", dil); ("groups", groups); ("bias", bias); ("input_type", VNone);
      ("output_type", VNone); ("metadata", VDict [])].
Proof. reflexivity. Qed.

(* Conv2d: declared input = (C_in; spatial input), declared output = (C_out; conv_out with the
   kernel size OF EACH AXIS = weight.shape[2:]) *)
Lemma conv2d_types dt tok wi (co ci k1 k2 : Z) ish pad dil stride groups bias sp out :
  pad_is_bad_string pad = false -> seq_view ish = Some sp ->
  conv_out (hp_of ish) (hp_of (pair_if_int pad)) (hp_of (pair_if_int dil)) (HSeq [k1; k2])
           (hp_of (pair_if_int stride)) = Ok out ->
  exists fs,
    construct KConv2d [("input_shape", ish); ("weight", VArr dt [co; ci; k1; k2] tok wi);
                       ("stride", stride); ("padding", pad); ("dilation", dil);
                       ("groups", groups); ("bias", bias)] =
    Ok (Leaf KConv2d fs (arr_ty "input" (ci :: sp)) (arr_ty "output" (co :: out))).
Proof.
  intros Hpad Hseq Hout. unfold construct. rewrite bind_conv2d. cbn [bind].
  unfold post_init. cbn [fld assoc String.eqb Ascii.eqb Bool.eqb bind].
  rewrite Hpad.
  assert (Hnn : match ish with VNone => False | _ => True end).
  { destruct ish; cbn in Hseq; try discriminate; exact I. }
  destruct ish; try contradiction;
    cbn [fld_shape fld assoc String.eqb Ascii.eqb Bool.eqb bind shape_attr];
    rewrite py_index_1, py_index_0; cbn [bind];
    rewrite Hseq; cbn [skipn] in *; rewrite Hout; cbn [bind]; eexists; reflexivity.
Qed.

Lemma conv1d_types dt tok wi (co ci k : Z) ish n pad dil stride groups bias out :
  pad_is_bad_string pad = false -> ish <> VNone -> int_view ish = Some n ->
  conv_out (HInt n) (hp_of pad) (hp_of dil) (HInt k) (hp_of stride) = Ok out ->
  exists fs,
    construct KConv1d [("input_shape", ish); ("weight", VArr dt [co; ci; k] tok wi);
                       ("stride", stride); ("padding", pad); ("dilation", dil);
                       ("groups", groups); ("bias", bias)] =
    Ok (Leaf KConv1d fs (arr_ty "input" [ci; n]) (arr_ty "output" (co :: out))).
Proof.
  intros Hpad Hnn Hint Hout. unfold construct. rewrite bind_conv1d. cbn [bind].
  unfold post_init. cbn [fld assoc String.eqb Ascii.eqb Bool.eqb bind].
  rewrite Hpad.
  destruct ish; try congruence;
    cbn [fld_shape fld assoc String.eqb Ascii.eqb Bool.eqb bind shape_attr];
    rewrite py_index_1, py_index_2, py_index_0; cbn [bind];
    rewrite Hint; cbn [bind]; rewrite Hout; cbn [bind]; eexists; reflexivity.
Qed.

(* the per-axis content of conv_out for explicit pairs: one application of the formula per axis,
   each with ITS OWN kernel size, stride, padding and dilation *)
Lemma conv_out_pairs (n1 n2 p1 p2 d1 d2 k1 k2 s1 s2 : Z) :
  s1 <> 0 -> s2 <> 0 ->
  conv_out (HSeq [n1; n2]) (HSeq [p1; p2]) (HSeq [d1; d2]) (HSeq [k1; k2]) (HSeq [s1; s2]) =
  Ok [conv_axis n1 p1 d1 k1 s1; conv_axis n2 p2 d2 k2 s2].
Proof.
  intros H1 H2. unfold conv_out. cbn [hp_ndim bind].
  change (Z.to_nat (lenZ [n1; n2])) with 2%nat.
  change (hp_is_str (HSeq [p1; p2]) "valid") with false. cbv iota.
  cbn [conv_out_axes hp_is_str index_tuple].
  change (0 + 1) with 1.
  rewrite !py_index_0, !py_index_1. cbn [bind].
  destruct (s1 =? 0) eqn:E1; [lia|]. destruct (s2 =? 0) eqn:E2; [lia|]. reflexivity.
Qed.

Lemma conv_out_scalar (n p d k s : Z) :
  s <> 0 -> conv_out (HInt n) (HInt p) (HInt d) (HInt k) (HInt s) = Ok [conv_axis n p d k s].
Proof.
  intros H. unfold conv_out. cbn [hp_ndim bind]. change (Z.to_nat 1) with 1%nat.
  change (hp_is_str (HInt p) "valid") with false. cbv iota.
  cbn [conv_out_axes hp_is_str index_tuple bind].
  destruct (s =? 0) eqn:E; [lia|]. reflexivity.
Qed.

(* pooling typed by inference: channel copied, dilation 1, the pool's own kernel/stride/padding *)
Lemma pool_infer (k : kind) fs (c : Z) (sp out : list Z) (ks stride pad : pval) :
  k = KSumPool2d \/ k = KAvgPool2d ->
  fld "kernel_size" fs = Ok ks -> fld "stride" fs = Ok stride -> fld "padding" fs = Ok pad ->
  conv_out (HArr sp) (hp_of pad) (HInt 1) (hp_of ks) (hp_of stride) = Ok out ->
  derive_output k fs [("output", TArr (c :: sp))] [("input", TArr (c :: sp))] =
  (fs, Some [("output", TArr (c :: out))], None).
Proof.
  intros Hk Hks Hst Hpad Hout.
  assert (Hsl : py_slice (c :: sp) (Some 1) None = sp).
  { unfold py_slice, slice_bound, lenZ. cbn [length].
    change (1 <? 0) with false. cbv iota.
    destruct (Z.of_nat (S (length sp)) <=? Z.min 1 (Z.of_nat (S (length sp)))) eqn:E.
    - destruct sp; [reflexivity|cbn [length] in E; lia].
    - replace (Z.min 1 (Z.of_nat (S (length sp)))) with 1 by lia.
      change (Z.to_nat 1) with 1%nat. cbn [skipn].
      apply firstn_all2. lia. }
  destruct Hk; subst k; unfold derive_output, get_key, tyv_from, tyv_index;
    cbn [assoc String.eqb Ascii.eqb Bool.eqb bind tyv_nums];
    rewrite Hsl, Hpad, Hks, Hst; cbn [bind]; rewrite Hout; cbn [bind];
    rewrite py_index_0; reflexivity.
Qed.

(* ---------- C05 / C19: constructors ---------- *)
Lemma shape_eqb_eq (a b : list Z) : shape_eqb a b = true <-> a = b.
Proof.
  unfold shape_eqb. revert b. induction a as [|x a IH]; intros [|y b]; cbn [list_eqb];
    try (split; [discriminate|discriminate]); try (split; reflexivity).
  rewrite Bool.andb_true_iff, IH, Z.eqb_eq. split.
  - intros [-> ->]. reflexivity.
  - intros H. inversion H. split; reflexivity.
Qed.

Lemma shape_eqb_refl (a : list Z) : shape_eqb a a = true.
Proof. apply shape_eqb_eq. reflexivity. Qed.

Lemma all_same_spec (l : list (list Z)) :
  all_same l = true <-> (forall a b, In a l -> In b l -> a = b).
Proof.
  induction l as [|x l IH]; [cbn; split; [intros _ a b []|reflexivity]|].
  destruct l as [|y l].
  - cbn. split; [intros _ a b [<-|[]] [<-|[]]; reflexivity|reflexivity].
  - change (all_same (x :: y :: l)) with (shape_eqb x y && all_same (y :: l)).
    rewrite Bool.andb_true_iff, shape_eqb_eq, IH. split.
    + intros [-> H] a b [<-|Ha] [<-|Hb]; try reflexivity.
      * apply H; [left; reflexivity|assumption].
      * apply H; [assumption|left; reflexivity].
      * apply H; assumption.
    + intros H. split.
      * apply H; [left; reflexivity|right; left; reflexivity].
      * intros a b Ha Hb. apply H; right; assumption.
Qed.

(* element-wise primitives: accepted iff every listed parameter has a .shape and all are equal;
   then both types are that common shape *)
Lemma elementwise_ok k fs names n :
  elementwise k fs names = Ok n <->
  exists sh rest, mapM (fun f => fld_shape f fs) names = Ok (sh :: rest)
                  /\ all_same (sh :: rest) = true
                  /\ n = Leaf k (drop_types fs) (arr_ty "input" sh) (arr_ty "output" sh).
Proof.
  unfold elementwise. destruct (mapM _ names) as [shapes|e]; cbn [bind].
  - destruct (all_same shapes) eqn:Hs.
    + destruct shapes as [|sh rest].
      * split; [discriminate|intros (sh & rest & H & _); discriminate].
      * split.
        -- intros H. inversion H. exists sh, rest. repeat split; assumption.
        -- intros (sh' & rest' & H & _ & ->). inversion H. reflexivity.
    + split; [discriminate|]. intros (sh & rest & H & Hs' & _). inversion H. subst. congruence.
  - split; [discriminate|intros (sh & rest & H & _); discriminate].
Qed.

Lemma firstn_nth_split (w : list Z) :
  (2 <= length w)%nat ->
  w = firstn (length w - 2) w ++ [nth (length w - 2) w 0; nth (length w - 1) w 0].
Proof.
  intros H. rewrite <- (firstn_skipn (length w - 2) w) at 1. f_equal.
  remember (skipn (length w - 2) w) as t eqn:Ht.
  assert (Hl : length t = 2%nat) by (subst t; rewrite skipn_length; lia).
  destruct t as [|a [|b [|c t]]]; cbn in Hl; try lia.
  assert (Ha : nth (length w - 2) w 0 = a).
  { rewrite <- (firstn_skipn (length w - 2) w) at 2. rewrite app_nth2; rewrite firstn_length_le by lia; [|lia].
    rewrite Nat.sub_diag, <- Ht. reflexivity. }
  assert (Hb : nth (length w - 1) w 0 = b).
  { rewrite <- (firstn_skipn (length w - 2) w) at 2. rewrite app_nth2; rewrite firstn_length_le by lia; [|lia].
    replace (length w - 1 - (length w - 2))%nat with 1%nat by lia. rewrite <- Ht. reflexivity. }
  rewrite Ha, Hb. reflexivity.
Qed.

(* the batched matrix-vector shape rule: W : b ++ [m; n] maps x : b ++ [n] to y : b ++ [m] *)
Definition matvec_rel (w x y : list Z) : Prop :=
  exists b m n, w = b ++ [m; n] /\ x = b ++ [n] /\ y = b ++ [m].

Lemma matvec_ok k fs n :
  matvec k fs = Ok n <->
  exists w, fld_shape "weight" fs = Ok w /\ (2 <= length w)%nat /\
            exists x y, matvec_rel w x y /\
                        n = Leaf k (drop_types fs) (arr_ty "input" x) (arr_ty "output" y).
Proof.
  unfold matvec. destruct (fld_shape "weight" fs) as [w|e]; cbn [bind].
  - destruct (Nat.ltb (length w) 2) eqn:Hl.
    + apply Nat.ltb_lt in Hl. split; [discriminate|]. intros (w' & H & H2 & _). inversion H. subst. lia.
    + apply Nat.ltb_ge in Hl. split.
      * intros H. inversion H. exists w. repeat split; try assumption.
        eexists _, _. split; [|reflexivity].
        exists (firstn (length w - 2) w), (nth (length w - 2) w 0), (nth (length w - 1) w 0).
        repeat split. apply firstn_nth_split. assumption.
      * intros (w' & H & H2 & x & y & (b & m & nn & Hw & -> & ->) & ->). inversion H. subst w'.
        subst w. rewrite !app_length. cbn [length].
        replace (length b + 2 - 2)%nat with (length b) by lia.
        replace (length b + 2 - 1)%nat with (S (length b)) by lia.
        rewrite firstn_app, firstn_all, Nat.sub_diag. cbn [firstn]. rewrite app_nil_r.
        rewrite !app_nth2 by lia. rewrite Nat.sub_diag.
        replace (S (length b) - length b)%nat with 1%nat by lia. reflexivity.
  - split; [discriminate|intros (w & H & _); discriminate].
Qed.

(* matvec_rel is functional in w: x and y are determined *)
Lemma app2_inj (b b' : list Z) m n m' n' :
  b ++ [m; n] = b' ++ [m'; n'] -> b = b' /\ m = m' /\ n = n'.
Proof.
  intros H.
  replace (b ++ [m; n]) with ((b ++ [m]) ++ [n]) in H by (rewrite <- app_assoc; reflexivity).
  replace (b' ++ [m'; n']) with ((b' ++ [m']) ++ [n']) in H by (rewrite <- app_assoc; reflexivity).
  apply app_inj_tail_iff in H as [H ->]. apply app_inj_tail_iff in H as [-> ->]. auto.
Qed.

Lemma matvec_rel_fun w x y x' y' : matvec_rel w x y -> matvec_rel w x' y' -> x = x' /\ y = y'.
Proof.
  intros (b & m & n & Hw & -> & ->) (b' & m' & n' & Hw' & -> & ->). subst w.
  apply app2_inj in Hw' as (-> & -> & ->). split; reflexivity.
Qed.

(* Input / Output mirror the normalised shape to the other side *)
Lemma bind_input x : bind_args KInput [("input_type", x)] = Ok [("input_type", x); ("metadata", VDict [])].
Proof. reflexivity. Qed.
Lemma bind_output x : bind_args KOutput [("output_type", x)] = Ok [("output_type", x); ("metadata", VDict [])].
Proof. reflexivity. Qed.

Lemma parse_shape_arg_key sh x tv key : shape_arg sh x tv -> parse_shape x key = Ok [(key, tv)].
Proof. intros H; destruct H; cbn; try rewrite H; reflexivity. Qed.

Lemma input_construct sh x tv :
  shape_arg sh x tv ->
  construct KInput [("input_type", x)] =
  Ok (Leaf KInput [("metadata", VDict [])] (arr_ty "input" sh) (arr_ty "output" sh)).
Proof.
  intros H. unfold construct. rewrite bind_input. cbn [bind]. unfold post_init.
  cbn [fld assoc String.eqb Ascii.eqb Bool.eqb bind].
  rewrite (parse_shape_arg_key _ _ _ "input" H), (shape_arg_nums _ _ _ H). reflexivity.
Qed.

Lemma output_construct sh x tv :
  shape_arg sh x tv ->
  construct KOutput [("output_type", x)] =
  Ok (Leaf KOutput [("metadata", VDict [])] (arr_ty "input" sh) (arr_ty "output" sh)).
Proof.
  intros H. unfold construct. rewrite bind_output. cbn [bind]. unfold post_init.
  cbn [fld assoc String.eqb Ascii.eqb Bool.eqb bind].
  rewrite (parse_shape_arg_key _ _ _ "output" H), (shape_arg_nums _ _ _ H). reflexivity.
Qed.

Lemma input_construct_dict sh dt tok n :
  construct KInput [("input_type", VDict [("input", VArr dt [n] tok (Some sh))])] =
  Ok (Leaf KInput [("metadata", VDict [])] (arr_ty "input" sh) (arr_ty "output" sh)).
Proof. reflexivity. Qed.

Lemma output_construct_dict sh dt tok n :
  construct KOutput [("output_type", VDict [("output", VArr dt [n] tok (Some sh))])] =
  Ok (Leaf KOutput [("metadata", VDict [])] (arr_ty "input" sh) (arr_ty "output" sh)).
Proof. reflexivity. Qed.

(* padding strings *)
Lemma pad_string_ok s : pad_is_bad_string (VStr s) = false <-> s = "same" \/ s = "valid".
Proof.
  cbn [pad_is_bad_string]. rewrite Bool.negb_false_iff, Bool.orb_true_iff, !String.eqb_eq. tauto.
Qed.

Lemma pad_bytes_bad s : pad_is_bad_string (VBytes s) = true.
Proof. reflexivity. Qed.

Lemma conv_rejects_bad_padding k fs pad :
  k = KConv1d \/ k = KConv2d -> fld "padding" fs = Ok pad -> pad_is_bad_string pad = true ->
  post_init k fs = Err ValueError.
Proof. intros [->| ->] H Hb; unfold post_init; rewrite H; cbn [bind]; rewrite Hb; reflexivity. Qed.

(* ---------- CubaLIF ---------- *)
Definition cuba_params : list string := ["tau_syn"; "tau_mem"; "r"; "v_leak"; "v_threshold"].

Lemma mapM_ok_all {A B} (f : A -> result B) l r :
  mapM f l = Ok r -> Forall2 (fun a b => f a = Ok b) l r.
Proof.
  revert r. induction l as [|x l IH]; intros r H; cbn [mapM] in H.
  - inversion H. constructor.
  - destruct (f x) eqn:Hx; cbn [bind] in H; [|discriminate].
    destruct (mapM f l) eqn:Hl; cbn [bind] in H; [|discriminate].
    inversion H. constructor; [assumption|apply IH; reflexivity].
Qed.

Lemma mapM_all_ok {A B} (f : A -> result B) l r :
  Forall2 (fun a b => f a = Ok b) l r -> mapM f l = Ok r.
Proof.
  induction 1 as [|x y l r Hx _ IH]; cbn [mapM]; [reflexivity|]. rewrite Hx, IH. reflexivity.
Qed.

Definition w_in_materialised (sh : list Z) (w : pval) : pval := VArr "?" sh (-1) None.

Lemma w_in_materialised_shape sh w : shape_attr (w_in_materialised sh w) = Ok sh.
Proof. reflexivity. Qed.

(* accepted => all five parameters share one shape, w_in broadcasts to exactly that shape, and the
   stored w_in is materialised to it; both types are that shape *)
Lemma cuba_accepts fs n :
  post_init KCubaLIF fs = Ok n ->
  exists sh w wsh,
    (forall p, In p cuba_params -> fld_shape p fs = Ok sh) /\
    fld "w_in" fs = Ok w /\ operand_shape w = Ok wsh /\ broadcast_shapes sh wsh = Some sh /\
    n = Leaf KCubaLIF (assoc_set "w_in" (w_in_materialised sh w) (drop_types fs))
             (arr_ty "input" sh) (arr_ty "output" sh).
Proof.
  unfold post_init. intros H.
  destruct (elementwise KCubaLIF fs _) as [n0|] eqn:He; cbn [bind] in H; [|discriminate].
  apply elementwise_ok in He as (sh & rest & Hm & Hs & ->).
  pose proof (mapM_ok_all _ _ _ Hm) as HF.
  rewrite all_same_spec in Hs.
  assert (Hall : forall p, In p cuba_params -> fld_shape p fs = Ok sh).
  { inversion HF as [|? ? ? ? H1 HF1]; subst. inversion HF1 as [|? ? ? ? H2 HF2]; subst.
    inversion HF2 as [|? ? ? ? H3 HF3]; subst. inversion HF3 as [|? ? ? ? H4 HF4]; subst.
    inversion HF4 as [|? ? ? ? H5 HF5]; subst. inversion HF5; subst.
    intros p [<-|[<-|[<-|[<-|[<-|[]]]]]].
    - assumption.
    - rewrite H2. f_equal. symmetry. apply Hs; cbn; auto 10.
    - rewrite H3. f_equal. symmetry. apply Hs; cbn; auto 10.
    - rewrite H4. f_equal. symmetry. apply Hs; cbn; auto 10.
    - rewrite H5. f_equal. symmetry. apply Hs; cbn; auto 10. }
  rewrite (Hall "v_threshold") in H by (cbn; auto 6). cbn [bind] in H.
  destruct (fld "w_in" fs) as [w|] eqn:Hw; cbn [bind] in H; [|discriminate].
  destruct (operand_shape w) as [wsh|] eqn:Hws; cbn [bind] in H; [|discriminate].
  destruct (broadcast_shapes sh wsh) as [r|] eqn:Hb; [|discriminate].
  destruct (shape_eqb r sh) eqn:Hr; [|discriminate].
  apply shape_eqb_eq in Hr. subst r.
  exists sh, w, wsh. repeat split; try assumption.
  inversion H. reflexivity.
Qed.

(* well-formed => accepted *)
Lemma cuba_accepts_conv fs sh w wsh :
  (forall p, In p cuba_params -> fld_shape p fs = Ok sh) ->
  fld "w_in" fs = Ok w -> operand_shape w = Ok wsh -> broadcast_shapes sh wsh = Some sh ->
  post_init KCubaLIF fs =
  Ok (Leaf KCubaLIF (assoc_set "w_in" (w_in_materialised sh w) (drop_types fs))
           (arr_ty "input" sh) (arr_ty "output" sh)).
Proof.
  intros Hall Hw Hws Hb. unfold post_init.
  assert (He : elementwise KCubaLIF fs cuba_params =
               Ok (Leaf KCubaLIF (drop_types fs) (arr_ty "input" sh) (arr_ty "output" sh))).
  { apply elementwise_ok. exists sh, [sh; sh; sh; sh]. repeat split.
    - apply mapM_all_ok. unfold cuba_params.
      repeat (constructor; [apply Hall; cbn; auto 6|]). constructor.
    - cbn [all_same]. rewrite !shape_eqb_refl. reflexivity. }
  unfold cuba_params in He. rewrite He. cbn [bind].
  rewrite (Hall "v_threshold") by (cbn; auto 6). cbn [bind].
  rewrite Hw. cbn [bind]. rewrite Hws. cbn [bind]. rewrite Hb, shape_eqb_refl.
  reflexivity.
Qed.

(* rejected when the broadcast result is not the parameter shape (w_in broadcasts "up") *)
Lemma cuba_rejects_up fs sh w wsh r :
  (forall p, In p cuba_params -> fld_shape p fs = Ok sh) ->
  fld "w_in" fs = Ok w -> operand_shape w = Ok wsh -> broadcast_shapes sh wsh = Some r -> r <> sh ->
  post_init KCubaLIF fs = Err AssertionError.
Proof.
  intros Hall Hw Hws Hb Hne. unfold post_init.
  assert (He : elementwise KCubaLIF fs cuba_params =
               Ok (Leaf KCubaLIF (drop_types fs) (arr_ty "input" sh) (arr_ty "output" sh))).
  { apply elementwise_ok. exists sh, [sh; sh; sh; sh]. repeat split.
    - apply mapM_all_ok. unfold cuba_params.
      repeat (constructor; [apply Hall; cbn; auto 6|]). constructor.
    - cbn [all_same]. rewrite !shape_eqb_refl. reflexivity. }
  unfold cuba_params in He. rewrite He. cbn [bind].
  rewrite (Hall "v_threshold") by (cbn; auto 6). cbn [bind].
  rewrite Hw. cbn [bind]. rewrite Hws. cbn [bind]. rewrite Hb.
  destruct (shape_eqb r sh) eqn:E; [apply shape_eqb_eq in E; contradiction|reflexivity].
Qed.
