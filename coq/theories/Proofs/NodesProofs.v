(* NodesProofs.v — lemmas about Model/Nodes.v and the per-node rules of Model/Graph.v *)
From NIR Require Import Model.Graph Proofs.ShapesProofs.
From Coq Require Import Lia ZifyBool.

(* the admissible forms of a shape argument holding the integers sh *)
Inductive shape_arg (sh : list Z) : pval -> tyv -> Prop :=
| SA_arr dt tok n : shape_arg sh (VArr dt [n] tok (Some sh)) (TArr sh)
| SA_tuple l : ints_view l = Some sh -> shape_arg sh (VTuple l) (TArr sh)
| SA_list l : ints_view l = Some sh -> shape_arg sh (VList l) (TArr sh).

Definition valid_dims (sh : list Z) (s e : Z) : Prop :=
  let n := lenZ sh in
  1 <= n /\ - n <= s < n /\ - n <= e < n /\ norm_dim n s <= norm_dim n e.

Lemma valid_dims_prod sh s e : valid_dims sh s e -> (prodZ sh =? prodZ (flatten_out sh s e)) = true.
Proof.
  intros (H1 & H2 & H3 & H4). rewrite flatten_out_prod by assumption. apply Z.eqb_refl.
Qed.

(* binding the keyword arguments of Flatten against the REGENERATED field table *)
Lemma bind_flatten (x : pval) (s e : pval) :
  bind_args KFlatten [("input_type", x); ("start_dim", s); ("end_dim", e)] =
  Ok [("input_type", x); ("start_dim", s); ("end_dim", e); ("output_type", VNone);
      ("metadata", VDict [])].
Proof. reflexivity. Qed.

Lemma parse_shape_arg sh x tv : shape_arg sh x tv -> parse_shape x "input" = Ok [("input", tv)].
Proof. intros H; destruct H; cbn; try rewrite H; reflexivity. Qed.

Lemma shape_arg_nums sh x tv : shape_arg sh x tv -> tv = TArr sh.
Proof. intros H; destruct H; reflexivity. Qed.

(* construction: ndarray / list / tuple *)
Lemma flatten_construct (sh : list Z) (x : pval) (tv : tyv) (s e : Z) :
  shape_arg sh x tv -> valid_dims sh s e ->
  construct KFlatten [("input_type", x); ("start_dim", VInt s); ("end_dim", VInt e)] =
  Ok (Leaf KFlatten [("start_dim", VInt s); ("end_dim", VInt e); ("metadata", VDict [])]
        (Some [("input", TArr sh)]) (Some [("output", TArr (flatten_out sh s e))])).
Proof.
  intros Hx Hv. unfold construct. rewrite bind_flatten. cbn [bind].
  unfold post_init. cbn [fld assoc String.eqb Ascii.eqb Bool.eqb bind].
  rewrite (parse_shape_arg _ _ _ Hx). rewrite (shape_arg_nums _ _ _ Hx).
  cbn [bind assoc String.eqb Ascii.eqb Bool.eqb tyv_nums int_view].
  rewrite (valid_dims_prod _ _ _ Hv). reflexivity.
Qed.

(* construction: dict form {"input": ndarray} *)
Lemma flatten_construct_dict (sh : list Z) dt tok n (s e : Z) :
  valid_dims sh s e ->
  construct KFlatten [("input_type", VDict [("input", VArr dt [n] tok (Some sh))]);
                      ("start_dim", VInt s); ("end_dim", VInt e)] =
  Ok (Leaf KFlatten [("start_dim", VInt s); ("end_dim", VInt e); ("metadata", VDict [])]
        (Some [("input", TArr sh)]) (Some [("output", TArr (flatten_out sh s e))])).
Proof.
  intros Hv. unfold construct. rewrite bind_flatten. cbn [bind].
  unfold post_init.
  cbn [fld assoc String.eqb Ascii.eqb Bool.eqb bind parse_shape map fst snd tyv_of_pval tyv_nums int_view].
  rewrite (valid_dims_prod _ _ _ Hv). reflexivity.
Qed.

(* inference on a Flatten whose output is undefined *)
Lemma flatten_infer (sh : list Z) (s e : Z) fs pre :
  fld "start_dim" fs = Ok (VInt s) -> fld "end_dim" fs = Ok (VInt e) -> valid_dims sh s e ->
  derive_output KFlatten fs pre [("input", TArr sh)] =
  (fs, Some [("output", TArr (flatten_out sh s e))], None).
Proof.
  intros Hs He Hv. unfold derive_output, get_key.
  cbn [assoc String.eqb Ascii.eqb Bool.eqb bind tyv_nums].
  rewrite Hs, He. cbn [bind int_view]. rewrite (valid_dims_prod _ _ _ Hv). reflexivity.
Qed.

Lemma py_index_0 {A} (a : A) r : py_index (a :: r) 0 = Ok a.
Proof.
  unfold py_index, lenZ. cbn [length]. change (0 <? 0) with false. cbv iota.
  destruct ((0 <? 0) || (Z.of_nat (S (length r)) <=? 0)) eqn:E; [lia|]. reflexivity.
Qed.
Lemma py_index_1 {A} (a b : A) r : py_index (a :: b :: r) 1 = Ok b.
Proof.
  unfold py_index, lenZ. cbn [length]. change (1 <? 0) with false. cbv iota.
  destruct ((1 <? 0) || (Z.of_nat (S (S (length r))) <=? 1)) eqn:E; [lia|]. reflexivity.
Qed.
Lemma py_index_2 {A} (a b c : A) r : py_index (a :: b :: c :: r) 2 = Ok c.
Proof.
  unfold py_index, lenZ. cbn [length]. change (2 <? 0) with false. cbv iota.
  destruct ((2 <? 0) || (Z.of_nat (S (S (S (length r)))) <=? 2)) eqn:E; [lia|]. reflexivity.
Qed.

(* ---------- C06: Conv / pooling node types ---------- *)
Lemma bind_conv2d ish w stride pad dil groups bias :
  bind_args KConv2d [("input_shape", ish); ("weight", w); ("stride", stride); ("padding", pad);
                     ("dilation", dil); ("groups", groups); ("bias", bias)] =
  Ok [("input_shape", ish); ("weight", w); ("stride", stride); ("padding", pad);
      ("dilation", dil); ("groups", groups); ("bias", bias); ("metadata", VDict [])].
Proof. reflexivity. Qed.

Lemma bind_conv1d ish w stride pad dil groups bias :
  bind_args KConv1d [("input_shape", ish); ("weight", w); ("stride", stride); ("padding", pad);
                     ("dilation", dil); ("groups", groups); ("bias", bias)] =
  Ok [("input_shape", ish); ("weight", w); ("stride", stride); ("padding", pad);
      ("dilation", dil); ("groups", groups); ("bias", bias); ("input_type", VNone);
      ("output_type", VNone); ("metadata", VDict [])].
Proof. reflexivity. Qed.

(* Conv2d: declared input = (C_in; spatial input), declared output = (C_out; conv_out with the
   kernel size OF EACH AXIS = weight.shape[2:]) *)
Lemma conv2d_types dt tok wi (co ci k1 k2 : Z) ish pad dil stride groups bias sp out :
  pad_is_bad_string pad = false -> seq_view ish = Some sp ->
  conv_out (hp_of ish) (hp_of (pair_if_int pad)) (hp_of (pair_if_int dil)) (HSeq [k1; k2])
           (hp_of (pair_if_int stride)) = Ok out ->
  exists fs,
    construct KConv2d [("input_shape", ish); ("weight", VArr dt [co; ci; k1; k2] tok wi);
                       ("stride", stride); ("padding", pad); ("dilation", dil);
                       ("groups", groups); ("bias", bias)] =
    Ok (Leaf KConv2d fs (arr_ty "input" (ci :: sp)) (arr_ty "output" (co :: out))).
Proof.
  intros Hpad Hseq Hout. unfold construct. rewrite bind_conv2d. cbn [bind].
  unfold post_init. cbn [fld assoc String.eqb Ascii.eqb Bool.eqb bind].
  rewrite Hpad.
  assert (Hnn : match ish with VNone => False | _ => True end).
  { destruct ish; cbn in Hseq; try discriminate; exact I. }
  destruct ish; try contradiction;
    cbn [fld_shape fld assoc String.eqb Ascii.eqb Bool.eqb bind shape_attr];
    rewrite py_index_1, py_index_0; cbn [bind];
    rewrite Hseq; cbn [skipn] in *; rewrite Hout; cbn [bind]; eexists; reflexivity.
Qed.

Lemma conv1d_types dt tok wi (co ci k : Z) ish n pad dil stride groups bias out :
  pad_is_bad_string pad = false -> ish <> VNone -> int_view ish = Some n ->
  conv_out (HInt n) (hp_of pad) (hp_of dil) (HInt k) (hp_of stride) = Ok out ->
  exists fs,
    construct KConv1d [("input_shape", ish); ("weight", VArr dt [co; ci; k] tok wi);
                       ("stride", stride); ("padding", pad); ("dilation", dil);
                       ("groups", groups); ("bias", bias)] =
    Ok (Leaf KConv1d fs (arr_ty "input" [ci; n]) (arr_ty "output" (co :: out))).
Proof.
  intros Hpad Hnn Hint Hout. unfold construct. rewrite bind_conv1d. cbn [bind].
  unfold post_init. cbn [fld assoc String.eqb Ascii.eqb Bool.eqb bind].
  rewrite Hpad.
  destruct ish; try congruence;
    cbn [fld_shape fld assoc String.eqb Ascii.eqb Bool.eqb bind shape_attr];
    rewrite py_index_1, py_index_2, py_index_0; cbn [bind];
    rewrite Hint; cbn [bind]; rewrite Hout; cbn [bind]; eexists; reflexivity.
Qed.

(* the per-axis content of conv_out for explicit pairs: one application of the formula per axis,
   each with ITS OWN kernel size, stride, padding and dilation *)
Lemma conv_out_pairs (n1 n2 p1 p2 d1 d2 k1 k2 s1 s2 : Z) :
  s1 <> 0 -> s2 <> 0 ->
  conv_out (HSeq [n1; n2]) (HSeq [p1; p2]) (HSeq [d1; d2]) (HSeq [k1; k2]) (HSeq [s1; s2]) =
  Ok [conv_axis n1 p1 d1 k1 s1; conv_axis n2 p2 d2 k2 s2].
Proof.
  intros H1 H2. unfold conv_out. cbn [hp_ndim bind].
  change (Z.to_nat (lenZ [n1; n2])) with 2%nat.
  change (hp_is_str (HSeq [p1; p2]) "valid") with false. cbv iota.
  cbn [conv_out_axes hp_is_str index_tuple].
  change (0 + 1) with 1.
  rewrite !py_index_0, !py_index_1. cbn [bind].
  destruct (s1 =? 0) eqn:E1; [lia|]. destruct (s2 =? 0) eqn:E2; [lia|]. reflexivity.
Qed.

Lemma conv_out_scalar (n p d k s : Z) :
  s <> 0 -> conv_out (HInt n) (HInt p) (HInt d) (HInt k) (HInt s) = Ok [conv_axis n p d k s].
Proof.
  intros H. unfold conv_out. cbn [hp_ndim bind]. change (Z.to_nat 1) with 1%nat.
  change (hp_is_str (HInt p) "valid") with false. cbv iota.
  cbn [conv_out_axes hp_is_str index_tuple bind].
  destruct (s =? 0) eqn:E; [lia|]. reflexivity.
Qed.

(* pooling typed by inference: channel copied, dilation 1, the pool's own kernel/stride/padding *)
Lemma pool_infer (k : kind) fs (c : Z) (sp out : list Z) (ks stride pad : pval) :
  k = KSumPool2d \/ k = KAvgPool2d ->
  fld "kernel_size" fs = Ok ks -> fld "stride" fs = Ok stride -> fld "padding" fs = Ok pad ->
  conv_out (HArr sp) (hp_of pad) (HInt 1) (hp_of ks) (hp_of stride) = Ok out ->
  derive_output k fs [("output", TArr (c :: sp))] [("input", TArr (c :: sp))] =
  (fs, Some [("output", TArr (c :: out))], None).
Proof.
  intros Hk Hks Hst Hpad Hout.
  assert (Hsl : py_slice (c :: sp) (Some 1) None = sp).
  { unfold py_slice, slice_bound, lenZ. cbn [length].
    change (1 <? 0) with false. cbv iota.
    destruct (Z.of_nat (S (length sp)) <=? Z.min 1 (Z.of_nat (S (length sp)))) eqn:E.
    - destruct sp; [reflexivity|cbn [length] in E; lia].
    - replace (Z.min 1 (Z.of_nat (S (length sp)))) with 1 by lia.
      change (Z.to_nat 1) with 1%nat. cbn [skipn].
      apply firstn_all2. lia. }
  destruct Hk; subst k; unfold derive_output, get_key, tyv_from, tyv_index;
    cbn [assoc String.eqb Ascii.eqb Bool.eqb bind tyv_nums];
    rewrite Hsl, Hpad, Hks, Hst; cbn [bind]; rewrite Hout; cbn [bind];
    rewrite py_index_0; reflexivity.
Qed.
