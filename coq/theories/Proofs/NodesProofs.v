(* NodesProofs.v — lemmas about Model/Nodes.v and the per-node rules of Model/Graph.v *)
From NIR Require Import Model.Graph Proofs.ShapesProofs.
From Coq Require Import Lia ZifyBool.

(* the admissible forms of a shape argument holding the integers sh *)
Inductive shape_arg (sh : list Z) : pval -> tyv -> Prop :=
| SA_arr dt tok n : shape_arg sh (VArr dt [n] tok (Some sh)) (TArr sh)
| SA_tuple l : ints_view l = Some sh -> shape_arg sh (VTuple l) (TArr sh)
| SA_list l : ints_view l = Some sh -> shape_arg sh (VList l) (TArr sh).

Definition valid_dims (sh : list Z) (s e : Z) : Prop :=
  let n := lenZ sh in
  1 <= n /\ - n <= s < n /\ - n <= e < n /\ norm_dim n s <= norm_dim n e.

Lemma valid_dims_prod sh s e : valid_dims sh s e -> (prodZ sh =? prodZ (flatten_out sh s e)) = true.
Proof.
  intros (H1 & H2 & H3 & H4). rewrite flatten_out_prod by assumption. apply Z.eqb_refl.
Qed.

(* binding the keyword arguments of Flatten against the REGENERATED field table *)
Lemma bind_flatten (x : pval) (s e : pval) :
  bind_args KFlatten [("input_type", x); ("start_dim", s); ("end_dim", e)] =
  Ok [("input_type", x); ("start_dim", s); ("end_dim", e); ("output_type", VNone);
      ("metadata", VDict [])].
Proof. reflexivity. Qed.

Lemma parse_shape_arg sh x tv : shape_arg sh x tv -> parse_shape x "input" = Ok [("input", tv)].
Proof. intros H; destruct H; cbn; try rewrite H; reflexivity. Qed.

Lemma shape_arg_nums sh x tv : shape_arg sh x tv -> tv = TArr sh.
Proof. intros H; destruct H; reflexivity. Qed.

(* construction: ndarray / list / tuple *)
Lemma flatten_construct (sh : list Z) (x : pval) (tv : tyv) (s e : Z) :
  shape_arg sh x tv -> valid_dims sh s e ->
  construct KFlatten [("input_type", x); ("start_dim", VInt s); ("end_dim", VInt e)] =
  Ok (Leaf KFlatten [("start_dim", VInt s); ("end_dim", VInt e); ("metadata", VDict [])]
        (Some [("input", TArr sh)]) (Some [("output", TArr (flatten_out sh s e))])).
Proof.
  intros Hx Hv. unfold construct. rewrite bind_flatten. cbn [bind].
  unfold post_init. cbn [fld assoc String.eqb Ascii.eqb Bool.eqb bind].
  rewrite (parse_shape_arg _ _ _ Hx). rewrite (shape_arg_nums _ _ _ Hx).
  cbn [bind assoc String.eqb Ascii.eqb Bool.eqb tyv_nums int_view].
  rewrite (valid_dims_prod _ _ _ Hv). reflexivity.
Qed.

(* construction: dict form {"input": ndarray} *)
Lemma flatten_construct_dict (sh : list Z) dt tok n (s e : Z) :
  valid_dims sh s e ->
  construct KFlatten [("input_type", VDict [("input", VArr dt [n] tok (Some sh))]);
                      ("start_dim", VInt s); ("end_dim", VInt e)] =
  Ok (Leaf KFlatten [("start_dim", VInt s); ("end_dim", VInt e); ("metadata", VDict [])]
        (Some [("input", TArr sh)]) (Some [("output", TArr (flatten_out sh s e))])).
Proof.
  intros Hv. unfold construct. rewrite bind_flatten. cbn [bind].
  unfold post_init.
  cbn [fld assoc String.eqb Ascii.eqb Bool.eqb bind parse_shape map fst snd tyv_of_pval tyv_nums int_view].
  rewrite (valid_dims_prod _ _ _ Hv). reflexivity.
Qed.

(* inference on a Flatten whose output is undefined *)
Lemma flatten_infer (sh : list Z) (s e : Z) fs pre :
  fld "start_dim" fs = Ok (VInt s) -> fld "end_dim" fs = Ok (VInt e) -> valid_dims sh s e ->
  derive_output KFlatten fs pre [("input", TArr sh)] =
  (fs, Some [("output", TArr (flatten_out sh s e))], None).
Proof.
  intros Hs He Hv. unfold derive_output, get_key.
  cbn [assoc String.eqb Ascii.eqb Bool.eqb bind tyv_nums].
  rewrite Hs, He. cbn [bind int_view]. rewrite (valid_dims_prod _ _ _ Hv). reflexivity.
Qed.
