(* LifProofs.v — real-analysis lemmas about the TRANSLATED closed forms (Gen/LifFormulas.v) *)
From Coq Require Import Reals Lra Psatz.
From Coquelicot Require Import Coquelicot.
From NIR Require Import Gen.LifFormulas.
Open Scope R_scope.

(* canonical form: v_inf + (v - v_inf) e^{-t/tau}.  This is the ONLY lemma about `advance` that looks at the
   translated term; it first brings every exponent to the form (- t / tau), so that algebraically equivalent
   rewrites of the Python formula still prove. *)
Ltac canon_exp t tau :=
  repeat match goal with
         | |- context [exp ?E] =>
           lazymatch E with
           | (- t / tau) => fail
           | _ => replace E with (- t / tau) by (unfold Rdiv; first [ring | field])
           end
         end.

Lemma advance_canonical tau r v_leak thr v i t :
  advance tau r v_leak thr v i t = (v_leak + r * i) + (v - (v_leak + r * i)) * exp (- t / tau).
Proof. unfold advance. canon_exp t tau. ring. Qed.

Lemma advance_zero tau r v_leak thr v i : advance tau r v_leak thr v i 0 = v.
Proof.
  rewrite advance_canonical. replace (- 0 / tau) with 0 by (unfold Rdiv; ring). rewrite exp_0. ring.
Qed.

Lemma exp_split a b tau : exp (- (a + b) / tau) = exp (- a / tau) * exp (- b / tau).
Proof. rewrite <- exp_plus. f_equal. unfold Rdiv. ring. Qed.

Lemma advance_semigroup tau r v_leak thr v i a b :
  advance tau r v_leak thr (advance tau r v_leak thr v i a) i b = advance tau r v_leak thr v i (a + b).
Proof. rewrite !advance_canonical. rewrite exp_split. ring. Qed.

Lemma advance_ode tau r v_leak thr v i t : tau <> 0 ->
  is_derive (fun t => advance tau r v_leak thr v i t) t
            (((v_leak - advance tau r v_leak thr v i t) + r * i) / tau).
Proof.
  intros Ht.
  apply (is_derive_ext (fun t => (v_leak + r * i) + (v - (v_leak + r * i)) * exp (- t / tau))).
  { intros x. symmetry. apply advance_canonical. }
  rewrite advance_canonical.
  auto_derive; [exact I|]. unfold Rdiv. generalize (exp (- t * / tau)). intros E. field. exact Ht.
Qed.

Section Spike.
Variables tau r v_leak thr : R.
Hypothesis Htau : 0 < tau.
Notation adv := (advance tau r v_leak thr).
Notation nxt := (next_spike tau r v_leak thr).

Lemma exp_ratio (L : R) :
  0 < L -> exp (- (-1 * tau * ln L) / tau) = L.
Proof.
  intros HL. replace (- (-1 * tau * ln L) / tau) with (ln L) by (field; lra). apply exp_ln. exact HL.
Qed.

Lemma ratio_bounds v i :
  v < thr -> thr < v_leak + r * i ->
  let L := (thr - v_leak - r * i) / (v - v_leak - r * i) in 0 < L < 1.
Proof.
  intros H1 H2 L. unfold L.
  assert (Hd : v - v_leak - r * i < 0) by lra.
  assert (Hn : thr - v_leak - r * i < 0) by lra.
  split.
  - replace ((thr - v_leak - r * i) / (v - v_leak - r * i))
      with ((- (thr - v_leak - r * i)) / (- (v - v_leak - r * i))) by (field; lra).
    apply Rdiv_lt_0_compat; lra.
  - replace ((thr - v_leak - r * i) / (v - v_leak - r * i))
      with ((- (thr - v_leak - r * i)) / (- (v - v_leak - r * i))) by (field; lra).
    apply (Rmult_lt_reg_r (- (v - v_leak - r * i))); [lra|].
    unfold Rdiv. rewrite Rmult_assoc, Rinv_l by lra. lra.
Qed.

(* case analysis over every decision of the translated term, whatever their nesting or negation *)
Ltac split_decs :=
  repeat (match goal with
          | |- context [Req_EM_T ?a ?b] => destruct (Req_EM_T a b)
          | |- context [Rgt_dec ?a ?b] => destruct (Rgt_dec a b)
          | |- context [Rge_dec ?a ?b] => destruct (Rge_dec a b)
          | |- context [Rlt_dec ?a ?b] => destruct (Rlt_dec a b)
          | |- context [Rle_dec ?a ?b] => destruct (Rle_dec a b)
          end; cbn [negb andb orb]).

Lemma no_spike_contra v i :
  v < thr -> v_leak + r * i <= thr ->
  v - v_leak - r * i <> 0 ->
  (thr - v_leak - r * i) / (v - v_leak - r * i) > 0 ->
  -1 * tau * ln ((thr - v_leak - r * i) / (v - v_leak - r * i)) >= 0 -> False.
Proof.
  intros H1 H2 NE HL Ht.
  set (L := (thr - v_leak - r * i) / (v - v_leak - r * i)) in *.
  destruct (Rlt_dec (v - v_leak - r * i) 0) as [Hd|Hd].
  - assert (L <= 0).
    { unfold L. replace ((thr - v_leak - r * i) / (v - v_leak - r * i))
        with (- ((thr - v_leak - r * i) / (- (v - v_leak - r * i)))) by (field; lra).
      assert (0 <= (thr - v_leak - r * i) / - (v - v_leak - r * i)); [|lra].
      apply Rmult_le_pos; [lra|]. left. apply Rinv_0_lt_compat. lra. }
    lra.
  - assert (Hd' : 0 < v - v_leak - r * i) by lra.
    assert (1 < L).
    { unfold L. apply (Rmult_lt_reg_r (v - v_leak - r * i)); [lra|].
      unfold Rdiv. rewrite Rmult_assoc, Rinv_l by lra. lra. }
    assert (0 < ln L) by (rewrite <- ln_1; apply ln_increasing; lra).
    nra.
Qed.

Lemma spike_time v i :
  v < thr -> thr < v_leak + r * i ->
  exists t, nxt v i = Some t /\ 0 < t /\ adv v i t = thr /\
            forall s, 0 <= s < t -> adv v i s < thr.
Proof.
  intros H1 H2.
  pose proof (ratio_bounds v i H1 H2) as [HL0 HL1]. cbv zeta in *.
  set (L := (thr - v_leak - r * i) / (v - v_leak - r * i)) in *.
  assert (Hd : v - v_leak - r * i < 0) by lra.
  assert (Hln : ln L < 0) by (rewrite <- ln_1; apply ln_increasing; lra).
  exists (-1 * tau * ln L). repeat split.
  - assert (Ht : -1 * tau * ln L >= 0) by nra.
    unfold next_spike. fold L. split_decs; try reflexivity; try (f_equal; ring); exfalso; try lra; try nra.
  - nra.
  - rewrite advance_canonical, (exp_ratio L HL0). unfold L. field. lra.
  - intros s [Hs0 Hs1]. rewrite advance_canonical.
    assert (He : L < exp (- s / tau)).
    { rewrite <- (exp_ratio L HL0). apply exp_increasing.
      unfold Rdiv. apply Rmult_lt_compat_r; [apply Rinv_0_lt_compat; lra|lra]. }
    assert (Hthr : v_leak + r * i + (v - (v_leak + r * i)) * L = thr) by (unfold L; field; lra).
    assert (Hneg : v - (v_leak + r * i) < 0) by lra.
    pose proof (Rmult_lt_gt_compat_neg_l _ _ _ Hneg He). lra.
Qed.

Lemma no_spike v i :
  v < thr -> v_leak + r * i <= thr ->
  nxt v i = None /\ forall t, 0 <= t -> adv v i t < thr.
Proof.
  intros H1 H2. split.
  - unfold next_spike. split_decs; try reflexivity; exfalso;
      match goal with
      | Ha : _ <> 0, Hb : _ > 0, Hc : _ >= 0 |- _ => exact (no_spike_contra v i H1 H2 Ha Hb Hc)
      end.
  - intros t Ht. rewrite advance_canonical.
    assert (He : 0 < exp (- t / tau) <= 1).
    { split; [apply exp_pos|]. rewrite <- exp_0. destruct Ht as [Ht|<-].
      - left. apply exp_increasing. unfold Rdiv.
        replace 0 with (0 * / tau) by ring. apply Rmult_lt_compat_r; [apply Rinv_0_lt_compat; lra|lra].
      - right. f_equal. unfold Rdiv. ring. }
    nra.
Qed.

(* the predicted spike time shifts with the elapsed time: absolute spike times do not depend on
   where intermediate events (e.g. voltage recordings) are placed *)
Lemma spike_shift v i t a :
  v < thr -> thr < v_leak + r * i -> nxt v i = Some t -> 0 <= a < t ->
  exists t', nxt (adv v i a) i = Some t' /\ a + t' = t.
Proof.
  intros H1 H2 Hn [Ha0 Ha1].
  destruct (spike_time v i H1 H2) as (t0 & Hn0 & Ht0 & Hat & Hmono).
  rewrite Hn in Hn0. inversion Hn0; subst t0. clear Hn0.
  assert (Hv' : adv v i a < thr) by (apply Hmono; lra).
  destruct (spike_time (adv v i a) i Hv' H2) as (t' & Hn' & Ht' & Hat' & Hmono').
  exists t'. split; [exact Hn'|].
  (* both a + t' and t are the first crossing of thr *)
  rewrite advance_semigroup in Hat'.
  destruct (Rtotal_order (a + t') t) as [Hlt|[Heq|Hgt]]; [|exact Heq|].
  - exfalso. pose proof (Hmono (a + t') ltac:(lra)). lra.
  - exfalso. pose proof (Hmono' (t - a) ltac:(lra)) as Hc.
    rewrite advance_semigroup in Hc. replace (a + (t - a)) with t in Hc by ring. lra.
Qed.
End Spike.

Lemma cuba_is_euler dt tau_syn tau_mem r v_leak thr w_in I0 v0 x :
  let v' := v0 + dt * ((v_leak - v0 + r * I0) / tau_mem) in
  let I' := I0 + dt * ((- I0 + w_in * x) / tau_syn) in
  cuba_step dt tau_syn tau_mem r v_leak thr w_in I0 v0 x =
  (if Rgt_dec v' thr then true else false, if Rgt_dec v' thr then v' - thr else v', I').
Proof.
  intros v' I'. unfold cuba_step.
  replace (v0 + dt / tau_mem * (v_leak - v0 + r * I0)) with v' by (unfold v', Rdiv; ring).
  replace (I0 + dt / tau_syn * (- I0 + w_in * x)) with I' by (unfold I', Rdiv; ring).
  destruct (Rgt_dec v' thr); f_equal; f_equal; ring.
Qed.

Lemma lim_neg_div tau : 0 < tau -> is_lim (fun t => - t / tau) p_infty m_infty.
Proof.
  intros Htau.
  apply (is_lim_ext (fun t => (- / tau) * t)); [intros t; unfold Rdiv; ring|].
  replace m_infty with (Rbar_mult (Finite (- / tau)) p_infty).
  - apply is_lim_scal_l. apply is_lim_id.
  - assert (H : - / tau < 0) by (apply Ropp_lt_gt_0_contravar, Rinv_0_lt_compat; exact Htau).
    unfold Rbar_mult, Rbar_mult'. destruct (Rle_dec 0 (- / tau)) as [H0|H0]; [exfalso; lra|reflexivity].
Qed.

Lemma advance_limit tau r v_leak thr v i : 0 < tau ->
  is_lim (fun t => advance tau r v_leak thr v i t) p_infty (v_leak + r * i).
Proof.
  intros Htau.
  apply (is_lim_ext (fun t => (v_leak + r * i) + (v - (v_leak + r * i)) * exp (- t / tau))).
  { intros t. symmetry. apply advance_canonical. }
  eapply is_lim_plus.
  - apply is_lim_const.
  - apply is_lim_scal_l.
    apply (is_lim_comp exp (fun t => - t / tau) p_infty 0 m_infty).
    + apply is_lim_exp_m.
    + apply lim_neg_div. exact Htau.
    + exists 0. intros t _. discriminate.
  - unfold is_Rbar_plus. cbn. f_equal. f_equal. ring.
Qed.
