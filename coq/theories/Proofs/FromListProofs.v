(* FromListProofs.v — properties of from_list, name_nodes, unique_name, zip_next, dec, lower
   (Model/Graph.v). *)
From NIR Require Import Model.Graph.
From Coq Require Import Lia DecimalString DecimalNat.

Local Open Scope nat_scope.

(* ---- (1) order ---------------------------------------------------------------------------- *)
Theorem name_nodes_order : forall ns earlier, map snd (name_nodes ns earlier) = ns.
Proof.
  induction ns as [|n r IH]; intros earlier.
  - reflexivity.
  - cbn [name_nodes map snd]. rewrite IH. reflexivity.
Qed.

Lemma name_nodes_length ns : forall earlier, length (name_nodes ns earlier) = length ns.
Proof.
  induction ns as [|n r IH]; intros earlier; cbn [name_nodes length]; [reflexivity|].
  rewrite IH. reflexivity.
Qed.

(* ---- (2) naming scheme -------------------------------------------------------------------- *)
Definition base_of (n : node) : string := lower (kind_name (node_kind n)).

Theorem name_nodes_scheme : forall ns earlier i n, nth_error ns i = Some n ->
  exists nm, nth_error (map fst (name_nodes ns earlier)) i = Some nm /\
    let base := lower (kind_name (node_kind n)) in
    let k := count_occ_str base (earlier ++ map (fun x => lower (kind_name (node_kind x))) (firstn i ns)) in
    nm = match k with O => base | _ => (base ++ "_" ++ dec k)%string end.
Proof.
  induction ns as [|m r IH]; intros earlier i n Hn.
  - destruct i; discriminate Hn.
  - destruct i as [|i].
    + cbn [nth_error] in Hn. injection Hn as Hn. subst m.
      exists (unique_name (lower (kind_name (node_kind n))) earlier). split.
      * reflexivity.
      * cbn [firstn map]. rewrite List.app_nil_r. reflexivity.
    + cbn [nth_error] in Hn.
      destruct (IH (earlier ++ [lower (kind_name (node_kind m))]) i n Hn) as [nm [H1 H2]].
      exists nm. split.
      * cbn [name_nodes map nth_error]. exact H1.
      * cbn [firstn map]. rewrite <- List.app_assoc in H2. exact H2.
Qed.

(* ---- (3) decimal rendering ---------------------------------------------------------------- *)
Lemma to_uint_not_nil n : Nat.to_uint n <> Decimal.Nil.
Proof.
  intros H.
  assert (E : Nat.of_uint (Nat.to_uint n) = n) by apply Unsigned.of_to.
  rewrite H in E. cbn in E. subst n. discriminate H.
Qed.

Theorem dec_inj : forall a b, dec a = dec b -> a = b.
Proof.
  intros a b H. unfold dec in H.
  apply Unsigned.to_uint_inj.
  assert (Ha := NilZero.usu (Nat.to_uint a) (to_uint_not_nil a)).
  assert (Hb := NilZero.usu (Nat.to_uint b) (to_uint_not_nil b)).
  rewrite H in Ha. rewrite Ha in Hb. injection Hb as Hb. exact Hb.
Qed.

(* ---- (4) base names ----------------------------------------------------------------------- *)
Fixpoint has_us (s : string) : bool :=
  match s with
  | EmptyString => false
  | String c r => (Ascii.eqb c "_" || has_us r)%bool
  end.

Lemma has_us_get s : has_us s = false -> forall i, get i s <> Some "_"%char.
Proof.
  induction s as [|c r IH]; intros H i.
  - destruct i; discriminate.
  - cbn [has_us] in H. apply Bool.orb_false_iff in H. destruct H as [Hc Hr].
    destruct i as [|i]; cbn [get].
    + intros E. injection E as E. subst c. discriminate Hc.
    + apply IH. exact Hr.
Qed.

Lemma get_has_us s : (forall i, get i s <> Some "_"%char) -> has_us s = false.
Proof.
  induction s as [|c r IH]; intros H.
  - reflexivity.
  - cbn [has_us]. apply Bool.orb_false_iff. split.
    + destruct (Ascii.eqb c "_") eqn:E; [|reflexivity].
      apply Ascii.eqb_eq in E. subst c. exfalso. apply (H O). reflexivity.
    + apply IH. intros i. apply (H (S i)).
Qed.

Lemma all_kinds_complete k : In k all_kinds.
Proof. destruct k; cbn [all_kinds In]; tauto. Qed.

Lemma base_has_us k : has_us (lower (kind_name k)) = false.
Proof. destruct k; vm_compute; reflexivity. Qed.

Theorem base_names_no_underscore : forall k, In k all_kinds ->
  forall i, get i (lower (kind_name k)) <> Some "_"%char.
Proof. intros k _. apply has_us_get. apply base_has_us. Qed.

Theorem base_names_distinct : forall k1 k2,
  lower (kind_name k1) = lower (kind_name k2) -> k1 = k2.
Proof.
  intros k1 k2 H. destruct k1; destruct k2; try reflexivity; vm_compute in H; discriminate H.
Qed.

(* a name determines (base, counter) *)
Fixpoint before_us (s : string) : string :=
  match s with
  | EmptyString => EmptyString
  | String c r => if Ascii.eqb c "_" then EmptyString else String c (before_us r)
  end.
Fixpoint after_us (s : string) : string :=
  match s with
  | EmptyString => EmptyString
  | String c r => if Ascii.eqb c "_" then r else after_us r
  end.

Lemma has_us_app b t : has_us (b ++ String "_" t) = true.
Proof.
  induction b as [|c r IH]; cbn [append has_us].
  - reflexivity.
  - rewrite IH. apply Bool.orb_true_r.
Qed.

Lemma before_us_app b t : has_us b = false -> before_us (b ++ String "_" t) = b.
Proof.
  induction b as [|c r IH]; intros H; cbn [append before_us].
  - reflexivity.
  - cbn [has_us] in H. apply Bool.orb_false_iff in H. destruct H as [Hc Hr].
    rewrite Hc. rewrite (IH Hr). reflexivity.
Qed.

Lemma after_us_app b t : has_us b = false -> after_us (b ++ String "_" t) = t.
Proof.
  induction b as [|c r IH]; intros H; cbn [append after_us].
  - reflexivity.
  - cbn [has_us] in H. apply Bool.orb_false_iff in H. destruct H as [Hc Hr].
    rewrite Hc. exact (IH Hr).
Qed.

Lemma unique_name_inj b1 e1 b2 e2 :
  has_us b1 = false -> has_us b2 = false ->
  unique_name b1 e1 = unique_name b2 e2 ->
  b1 = b2 /\ count_occ_str b1 e1 = count_occ_str b2 e2.
Proof.
  intros H1 H2 E. unfold unique_name in E.
  destruct (count_occ_str b1 e1) as [|k1] eqn:C1; destruct (count_occ_str b2 e2) as [|k2] eqn:C2.
  - split; [exact E | reflexivity].
  - exfalso. assert (X := has_us_app b2 (dec (S k2))).
    change (b2 ++ "_" ++ dec (S k2))%string with (b2 ++ String "_" (dec (S k2)))%string in E.
    rewrite <- E in X. rewrite H1 in X. discriminate X.
  - exfalso. assert (X := has_us_app b1 (dec (S k1))).
    change (b1 ++ "_" ++ dec (S k1))%string with (b1 ++ String "_" (dec (S k1)))%string in E.
    rewrite E in X. rewrite H2 in X. discriminate X.
  - change (b1 ++ "_" ++ dec (S k1))%string with (b1 ++ String "_" (dec (S k1)))%string in E.
    change (b2 ++ "_" ++ dec (S k2))%string with (b2 ++ String "_" (dec (S k2)))%string in E.
    assert (Eb := f_equal before_us E). rewrite !before_us_app in Eb by assumption.
    assert (Ea := f_equal after_us E). rewrite !after_us_app in Ea by assumption.
    apply dec_inj in Ea. split; [exact Eb | exact Ea].
Qed.

(* ---- (5) names are pairwise distinct ------------------------------------------------------ *)
Lemma count_occ_str_app s a b :
  count_occ_str s (a ++ b) = count_occ_str s a + count_occ_str s b.
Proof.
  induction a as [|x r IH]; cbn [app count_occ_str].
  - reflexivity.
  - rewrite IH. lia.
Qed.

Lemma name_nodes_in ns : forall earlier nm,
  In nm (map fst (name_nodes ns earlier)) ->
  exists n extra, In n ns /\ nm = unique_name (base_of n) (earlier ++ extra).
Proof.
  induction ns as [|m r IH]; intros earlier nm H.
  - destruct H.
  - cbn [name_nodes map fst In] in H. destruct H as [H|H].
    + exists m, []. split; [left; reflexivity|]. rewrite List.app_nil_r. symmetry. exact H.
    + destruct (IH _ _ H) as [n [extra [Hin Hnm]]].
      exists n, ([lower (kind_name (node_kind m))] ++ extra). split; [right; exact Hin|].
      rewrite List.app_assoc. exact Hnm.
Qed.

Lemma base_of_has_us n : has_us (base_of n) = false.
Proof. apply base_has_us. Qed.

Lemma name_nodes_NoDup_gen ns : forall earlier, NoDup (map fst (name_nodes ns earlier)).
Proof.
  induction ns as [|m r IH]; intros earlier.
  - constructor.
  - cbn [name_nodes map fst]. constructor; [|apply IH].
    intros H. destruct (name_nodes_in _ _ _ H) as [n [extra [_ E]]].
    fold (base_of m) in E.
    apply unique_name_inj in E; try apply base_of_has_us.
    destruct E as [Eb Ec]. rewrite <- Eb in Ec.
    rewrite !count_occ_str_app in Ec. cbn [count_occ_str] in Ec.
    rewrite String.eqb_refl in Ec. lia.
Qed.

Theorem name_nodes_NoDup : forall ns, NoDup (map fst (name_nodes ns [])).
Proof. intros ns. apply name_nodes_NoDup_gen. Qed.

(* ---- (6) zip_next ------------------------------------------------------------------------- *)
Theorem zip_next_chain : forall l, zip_next l = combine l (tl l).
Proof.
  induction l as [|a r IH].
  - reflexivity.
  - destruct r as [|b r'].
    + reflexivity.
    + change (zip_next (a :: b :: r')) with ((a, b) :: zip_next (b :: r')).
      rewrite IH. reflexivity.
Qed.

(* ---- (7) from_list ------------------------------------------------------------------------ *)
Lemma assoc_set_fresh {A} k (v : A) d :
  ~ In k (map fst d) -> assoc_set k v d = d ++ [(k, v)].
Proof.
  induction d as [|[k' v'] r IH]; intros H.
  - reflexivity.
  - cbn [assoc_set app]. cbn [map fst In] in H.
    destruct (String.eqb k k') eqn:E.
    + apply String.eqb_eq in E. subst k'. exfalso. apply H. left. reflexivity.
    + rewrite IH; [reflexivity|]. intros X. apply H. right. exact X.
Qed.

(* dict insertions of fresh, pairwise distinct keys never overwrite: they are plain append *)
Lemma fold_assoc_set_append {A} (l : list (string * A)) : forall d,
  NoDup (map fst l) ->
  (forall k, In k (map fst l) -> ~ In k (map fst d)) ->
  fold_left (fun d kn => assoc_set (fst kn) (snd kn) d) l d = d ++ l.
Proof.
  induction l as [|[k v] r IH]; intros d Hnd Hdis.
  - cbn [fold_left]. rewrite List.app_nil_r. reflexivity.
  - cbn [fold_left fst snd]. cbn [map fst] in Hnd, Hdis.
    inversion Hnd as [|x xs Hk Hr]; subst x xs.
    rewrite assoc_set_fresh by (apply Hdis; left; reflexivity).
    rewrite IH.
    + rewrite <- List.app_assoc. reflexivity.
    + exact Hr.
    + intros k' Hk' X. rewrite map_app in X. apply in_app_or in X. destruct X as [X|X].
      * apply (Hdis k'); [right; exact Hk' | exact X].
      * cbn [map fst In] in X. destruct X as [X|[]]. subst k'. apply Hk. exact Hk'.
Qed.

Lemma node_kind_input n : node_kind n = KInput -> is_input n = true.
Proof. destruct n as [k fs ti to|]; cbn [node_kind is_input]; intros H; [subst k; reflexivity | discriminate H]. Qed.

Lemma node_kind_output n : node_kind n = KOutput -> is_output n = true.
Proof. destruct n as [k fs ti to|]; cbn [node_kind is_output]; intros H; [subst k; reflexivity | discriminate H]. Qed.

(* the name "input" is generated only for an Input node, "output" only for an Output node *)
Lemma name_input_inv ns earlier :
  In "input"%string (map fst (name_nodes ns earlier)) -> exists n, In n ns /\ is_input n = true.
Proof.
  intros H. destruct (name_nodes_in _ _ _ H) as [n [extra [Hin E]]].
  exists n. split; [exact Hin|].
  change "input"%string with (unique_name (lower (kind_name KInput)) []) in E.
  apply unique_name_inj in E; [| apply base_has_us | apply base_of_has_us].
  destruct E as [E _]. apply base_names_distinct in E. apply node_kind_input. symmetry. exact E.
Qed.

Lemma name_output_inv ns earlier :
  In "output"%string (map fst (name_nodes ns earlier)) -> exists n, In n ns /\ is_output n = true.
Proof.
  intros H. destruct (name_nodes_in _ _ _ H) as [n [extra [Hin E]]].
  exists n. split; [exact Hin|].
  change "output"%string with (unique_name (lower (kind_name KOutput)) []) in E.
  apply unique_name_inj in E; [| apply base_has_us | apply base_of_has_us].
  destruct E as [E _]. apply base_names_distinct in E. apply node_kind_output. symmetry. exact E.
Qed.

Lemma no_input_name first rest :
  is_input first = false ->
  (forall n, In n rest -> is_input n = false) ->
  ~ In "input"%string (map fst (name_nodes (first :: rest) [])).
Proof.
  intros H1 Hr H. destruct (name_input_inv _ _ H) as [n [Hin Hn]].
  destruct Hin as [Hin|Hin].
  - subst n. rewrite H1 in Hn. discriminate Hn.
  - rewrite (Hr n Hin) in Hn. discriminate Hn.
Qed.

Lemma no_output_name ns first :
  ns <> [] ->
  is_output (last ns first) = false ->
  (forall n, In n (removelast ns) -> is_output n = false) ->
  ~ In "output"%string (map fst (name_nodes ns [])).
Proof.
  intros Hne H1 Hr H. destruct (name_output_inv _ _ H) as [n [Hin Hn]].
  rewrite (app_removelast_last first Hne) in Hin. apply in_app_or in Hin.
  destruct Hin as [Hin|Hin].
  - rewrite (Hr n Hin) in Hn. discriminate Hn.
  - destruct Hin as [Hin|[]]. subst n. rewrite H1 in Hn. discriminate Hn.
Qed.

Theorem from_list_structure : forall ns first rest, ns = first :: rest ->
  (forall n, In n ns -> is_graph n = false) ->
  (forall n, In n rest -> is_input n = false) ->
  (forall n, In n (removelast ns) -> is_output n = false) ->
  forall g, from_list ns = Ok g ->
  exists pre post ch,
    g = mk_graph ch (zip_next (map fst ch)) (VDict []) /\
    ch = pre ++ name_nodes ns [] ++ post /\
    (is_input first = true -> pre = []) /\
    (is_input first = false -> exists i, pre = [("input"%string, i)] /\ input_of_ty (child_tin first) = Ok i) /\
    (is_output (last ns first) = true -> post = []) /\
    (is_output (last ns first) = false -> exists o, post = [("output"%string, o)] /\
                                           output_of_ty (child_tout (last ns first)) = Ok o).
Proof.
  intros ns first rest Hns _ Hin Hout g Hfl.
  assert (Hne : ns <> []) by (rewrite Hns; discriminate).
  assert (Fin : is_input first = false -> ~ In "input"%string (map fst (name_nodes ns []))).
  { intros H. rewrite Hns. apply no_input_name; assumption. }
  assert (Fout : is_output (last ns first) = false -> ~ In "output"%string (map fst (name_nodes ns []))).
  { intros H. apply (no_output_name ns first); assumption. }
  assert (Hnd := name_nodes_NoDup ns).
  assert (Hfl' :
    (do pre <- (if is_input first then Ok []
                else do i <- input_of_ty (child_tin first); Ok [("input"%string, i)]);
     let d1 := fold_left (fun d kn => assoc_set (fst kn) (snd kn) d) (name_nodes ns []) pre in
     do d2 <- (if is_output (last ns first) then Ok d1
               else do o <- output_of_ty (child_tout (last ns first)); Ok (assoc_set "output"%string o d1));
     Ok (mk_graph d2 (zip_next (keys d2)) (VDict []))) = Ok g).
  { rewrite <- Hfl. rewrite Hns. reflexivity. }
  clear Hfl. unfold keys in Hfl'.
  remember (name_nodes ns []) as names eqn:Hnames.
  remember (last ns first) as lastn eqn:Hlast.
  destruct (is_input first) eqn:Hi1.
  - (* first is an Input *)
    cbn [bind] in Hfl'.
    rewrite fold_assoc_set_append in Hfl'; [| exact Hnd | intros k _ []].
    cbn [app] in Hfl'.
    destruct (is_output lastn) eqn:Ho.
    + cbn [bind] in Hfl'. injection Hfl' as Hg.
      exists [], [], names. rewrite List.app_nil_r. cbn [app].
      repeat split; try reflexivity; try (symmetry; exact Hg); intros X; discriminate X.
    + destruct (output_of_ty (child_tout lastn)) as [o|e] eqn:Hoo; cbn [bind] in Hfl'; [|discriminate Hfl'].
      rewrite assoc_set_fresh in Hfl' by (apply Fout; reflexivity).
      injection Hfl' as Hg.
      exists [], [("output"%string, o)], (names ++ [("output"%string, o)]). cbn [app].
      repeat split; try reflexivity; try (symmetry; exact Hg); try (intros X; discriminate X).
      intros _. exists o. split; reflexivity.
  - (* an Input is inserted in front *)
    destruct (input_of_ty (child_tin first)) as [i|e] eqn:Hii; cbn [bind] in Hfl'; [|discriminate Hfl'].
    rewrite fold_assoc_set_append in Hfl'; [| exact Hnd |].
    2:{ intros k Hk X. cbn [map fst In] in X. destruct X as [X|[]]. subst k.
        apply (Fin eq_refl). exact Hk. }
    destruct (is_output lastn) eqn:Ho.
    + cbn [bind] in Hfl'. injection Hfl' as Hg.
      exists [("input"%string, i)], [], ([("input"%string, i)] ++ names). rewrite List.app_nil_r.
      repeat split; try reflexivity; try (symmetry; exact Hg); try (intros X; discriminate X).
      intros _. exists i. split; reflexivity.
    + destruct (output_of_ty (child_tout lastn)) as [o|e] eqn:Hoo; cbn [bind] in Hfl'; [|discriminate Hfl'].
      rewrite assoc_set_fresh in Hfl'.
      2:{ rewrite map_app. intros X. apply in_app_or in X. destruct X as [X|X].
          - cbn [map fst In] in X. destruct X as [X|[]]. discriminate X.
          - apply (Fout eq_refl). exact X. }
      injection Hfl' as Hg.
      exists [("input"%string, i)], [("output"%string, o)],
             (([("input"%string, i)] ++ names) ++ [("output"%string, o)]).
      repeat split; try reflexivity; try (symmetry; exact Hg); try (intros X; discriminate X).
      * intros _. exists i. split; reflexivity.
      * intros _. exists o. split; reflexivity.
Qed.

Print Assumptions name_nodes_order.
Print Assumptions name_nodes_scheme.
Print Assumptions dec_inj.
Print Assumptions base_names_no_underscore.
Print Assumptions base_names_distinct.
Print Assumptions name_nodes_NoDup.
Print Assumptions zip_next_chain.
Print Assumptions from_list_structure.
