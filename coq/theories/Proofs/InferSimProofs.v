(* InferSimProofs.v — property C14: TYPE INFERENCE COMMUTES WITH SERIALISATION (graph level), and a leftover of
   property C10: inference touches no child that is not reachable from an Input.

   PART B (C10)
     run_touches_only_reachable   : ~ reach ch es k -> assoc k (st_ch (fst (run fuel es (init_state ch es)))) = assoc k ch
     infer_touches_only_reachable : the same for infer_types (edge list and metadata unchanged, child k untouched)
     (`reach` = RestoreProofs.reach, written `reachable` here because SerialProofs has a `reach` of its own.  Invariant:
     the source of every entry of the work list is reachable, so every popped target is, so set_child only sees
     reachable names.)

   PART A (C14)
     infer_respects_grel  : the core.  grel g g' -> grel (fst (infer_types g)) (fst (infer_types g')) /\ same outcome.
        `grel` relates two graphs whose children are pairwise `isim`: same names in the same order, same kind, input and
        output types equal up to the container (tuple TSeq / array TArr) of the numbers (SimProofs.ty_norm), and the same
        VIEW of every field the loop reads (hpsim: hp_of of padding / dilation / stride / kernel_size / start_dim /
        end_dim up to HSeq / HArr, .shape of a Conv weight); same edges; graph-level types related as in rt_rel.
        Proof: apply_edge only looks at types through tyv_nums / None-ness / keys / length (values_equal_norm,
        ty_undef_norm, rename_keys_norm, derive_output_norm) and at fields through the views (derive_output_hpsim, with
        SimProofs.hp_sim_conv_out), so one loop iteration maps related targets to related targets and raises on both
        sides or on neither (apply_edge_sim); the schedule depends on names, edges and Input-ness only, so both runs pop
        the same edges (run_sim: lock-step simulation, same work list and same `seen` on both sides).
     infer_respects_rel   : rt_rel g g' (RoundTripProofs: g' is what a file round trip of g may return) + side
        conditions -> raised oc = raised oc' /\ types_rel g1 g1'.
        types_rel: same child names in the same order, same kinds, input and output type of EVERY child equal up to the
        container, same edges, graph-level types equal up to the container.  (Not `equal, except dictionary-born types`
        as in rt_rel: the loop copies the output type of the source into the input type of the target, container
        included: container_differs.)
        Side conditions (found by computation, each shown necessary):
          S-hp  the hyper-parameters the loop reads (hp_names) are not 0-d ndarrays, on the children of g AND of g'
                (pool_0d_needed, hp_read_side_needed): a 0-d array is rejected where the numpy scalar is accepted;
          S-w   the weight of a Conv1d / Conv2d child of g is an ndarray with at least one axis (weight_needed: a Conv
                built without input shape never looked at its weight; a tuple has no .shape, the array it becomes has).
     infer_commutes_with_file : built g -> rt_domain g -> write g = Ok t -> read t = Ok g' -> S-pool g ->
          types_rel (fst (infer_types g)) (fst (infer_types g')) /\ raised (snd ..) = raised (snd ..).
        Everything else is DISCHARGED: S-hp on g' holds for whatever is read from a written file (read_hp_no0d: values
        read back are never 0-d arrays, bound defaults are not, Conv2d pairing keeps that); on g, padding / stride /
        dilation of Conv nodes are D2 of rt_domain, a written Flatten has a defined input type so its constructor read
        both dimensions as integers (flatten_leaf_dims), a written Conv has an input shape so its constructor read
        the weight (conv_leaf_weight).  What remains is
          S-pool  kernel_size / stride / padding of the SumPool2d / AvgPool2d children of g are not 0-d ndarrays
        (their constructor reads nothing).  THE STATEMENT WITHOUT S-pool IS FALSE: pool_0d_needed.
        (infer_commutes_with_file_gen: the same with S-hp and S-w on g as hypotheses instead.)
     check_types_rel / check_after_infer_file : _check_types returns the same result on types_rel-related graphs.
     infer_commutes_with_dict(_eq) : built g -> single_typed g -> from_dict (to_dict g) = Ok g' ->
          infer_types g' = infer_types g.   With D3 (single_typed, already part of rt_domain) the dictionary round trip
        is the identity.  WITHOUT D3 THE STATEMENT IS FALSE (dict_single_needed): the type-dictionary entries that
        to_dict drops change the outcome of np.array_equal in the loop.  (D3 is asked at every depth, as in
        DictProofs, although inference only looks at the direct children: sufficient, not necessary.)
   Nothing of the task is left unproved; the two corollaries carry the extra hypotheses S-pool and D3, both necessary. *)
From NIR Require Import Model.Graph Model.Serial Proofs.InferProofs Proofs.RestoreProofs Proofs.MirrorClosedProofs
  Proofs.SerialProofs Proofs.SimProofs Proofs.DictProofs Proofs.RoundTripProofs.
From Coq Require Import Lia List Bool String.

(* ================================================================================================ *)
(* PART B (C10): inference touches only children reachable from an Input                            *)
(* ================================================================================================ *)
Notation reachable := RestoreProofs.reach.

(* every entry of the work list is an edge whose source is reachable *)
Definition ready_reach (ch : list (string * node)) (es ready : list (string * string)) : Prop :=
  forall a b, In (a, b) ready -> In (a, b) es /\ reachable ch es a.

Lemma init_ready_reach ch es : ready_reach ch es (st_ready (init_state ch es)).
Proof.
  unfold init_state. cbn [st_ready]. intros a b Hab. apply filter_In in Hab as [Hin Hm]. split; [exact Hin|].
  cbn [fst] in Hm. apply InferProofs.mem_str_In in Hm. unfold keys, inputs in Hm.
  apply in_map_iff in Hm as ([c n] & Hc & Hp). cbn [fst] in Hc. subst c.
  apply filter_In in Hp as [Hp Hi]. cbn [snd] in Hi. exact (reach_input ch es a n Hp Hi).
Qed.

Lemma out_edges_reach ch es q seen : reachable ch es q -> ready_reach ch es (out_edges es q seen).
Proof.
  intros Hq a b Hab. unfold out_edges in Hab. apply filter_In in Hab as [Hin Hc]. split; [exact Hin|].
  apply andb_true_iff in Hc as [Hc _]. cbn [fst] in Hc. apply String.eqb_eq in Hc. subst a. exact Hq.
Qed.

Lemma run_unreachable_gen ch es k : ~ reachable ch es k ->
  forall fuel st, ready_reach ch es (st_ready st) ->
  assoc k (st_ch (fst (run fuel es st))) = assoc k (st_ch st).
Proof.
  intros Hk. induction fuel as [|f IH]; intros st Hr; [reflexivity|].
  assert (Hset : forall rest p q n', st_ready st = rest ++ [(p, q)] ->
            assoc k (assoc_set q n' (st_ch st)) = assoc k (st_ch st) /\ reachable ch es q /\
            ready_reach ch es rest).
  { intros rest p q n' E.
    destruct (Hr p q) as [Hin Hp]; [rewrite E; apply in_or_app; right; left; reflexivity|].
    assert (Hq : reachable ch es q) by exact (reach_edge ch es p q Hp Hin).
    split; [|split; [exact Hq|]].
    - rewrite InferProofs.assoc_assoc_set. destruct (String.eqb k q) eqn:Ekq; [|reflexivity].
      apply String.eqb_eq in Ekq. subst q. contradiction.
    - intros a b Hab. apply Hr. rewrite E. apply in_or_app. left. exact Hab. }
  rewrite run_S. destruct (step es st) as [|st' e|st'] eqn:Est; cbn [fst].
  - reflexivity.
  - apply step_stop in Est as [_ [->|(rest & p & q & pre & post & post' & E & _ & _ & _ & ->)]]; [reflexivity|].
    apply (Hset rest p q post' E).
  - apply step_next in Est as (rest & p & q & pre & post & post' & E & _ & _ & _ & ->).
    destruct (Hset rest p q post' E) as (H1 & Hq & Hrest).
    rewrite IH; cbn [st_ch st_ready]; [exact H1|].
    intros a b Hab. apply in_app_or in Hab as [Hab|Hab]; [apply Hrest; exact Hab|].
    apply (out_edges_reach ch es q _ Hq a b Hab).
Qed.

Theorem run_touches_only_reachable : forall fuel ch es k,
  ~ reachable ch es k -> assoc k (st_ch (fst (run fuel es (init_state ch es)))) = assoc k ch.
Proof.
  intros fuel ch es k Hk. rewrite (run_unreachable_gen ch es k Hk fuel (init_state ch es) (init_ready_reach ch es)).
  reflexivity.
Qed.

Theorem infer_touches_only_reachable : forall ch es gi go m g' oc k,
  infer_types (Graph ch es gi go m) = (g', oc) -> ~ reachable ch es k ->
  exists ch' gi' go', g' = Graph ch' es gi' go' m /\ assoc k ch' = assoc k ch.
Proof.
  intros ch es gi go m g' oc k H Hk. cbn [infer_types] in H. destruct (negb (gty_undef gi)).
  - pose proof (run_touches_only_reachable (infer_fuel ch es) ch es k Hk) as Hr.
    destruct (run (infer_fuel ch es) es (init_state ch es)) as [st o] eqn:ER. cbn [fst] in Hr.
    inversion H; subst. unfold mk_graph. eexists _, _, _. split; [reflexivity|exact Hr].
  - destruct (negb (gty_undef go)); inversion H; subst; exists ch, gi, go; split; reflexivity.
Qed.


(* ================================================================================================ *)
(* PART A (C14): inference commutes with serialisation                                              *)
(* ================================================================================================ *)
Definition raised (oc : outcome) : bool := match oc with Finished => false | Raised _ => true end.

(* ---- (A1) what the loop can see of a type dictionary: numbers, None / other, keys — not the container ---------- *)
Lemma ty_norm_some l : ty_norm (Some l) = Some (norm_tys l).
Proof. reflexivity. Qed.

Lemma array_equal_norm a b : array_equal (tyv_norm a) (tyv_norm b) = array_equal a b.
Proof. destruct a, b; reflexivity. Qed.

Lemma values_equal_norm a b : values_equal (norm_tys a) (norm_tys b) = values_equal a b.
Proof.
  destruct a as [|[ka x] [|pa ra]], b as [|[kb y] [|pb rb]]; try reflexivity.
  cbn [norm_tys map fst snd values_equal]. apply array_equal_norm.
Qed.

Lemma tyv_is_none_norm v : tyv_is_none (tyv_norm v) = tyv_is_none v.
Proof. destruct v; reflexivity. Qed.

Lemma ty_undef_norm t : ty_undef (ty_norm t) = ty_undef t.
Proof.
  destruct t as [l|]; [|reflexivity]. cbn [ty_norm option_map ty_undef].
  induction l as [|[k v] r IH]; cbn [map existsb fst snd]; [reflexivity|]. rewrite tyv_is_none_norm, IH. reflexivity.
Qed.

Lemma norm_tys_length l : List.length (norm_tys l) = List.length l.
Proof. apply map_length. Qed.

Lemma norm_tys_assoc_set k v d : norm_tys (assoc_set k v d) = assoc_set k (tyv_norm v) (norm_tys d).
Proof.
  induction d as [|[k' v'] r IH]; cbn [assoc_set norm_tys map fst snd]; [reflexivity|].
  destruct (String.eqb k k'); cbn [map fst snd]; [reflexivity|]. f_equal. exact IH.
Qed.

Lemma rename_keys_norm old new l : rename_keys old new (norm_tys l) = norm_tys (rename_keys old new l).
Proof.
  unfold rename_keys, dict_of. change (@nil (string * tyv)) with (norm_tys []) at 1. generalize (@nil (string * tyv)).
  induction l as [|[k v] r IH]; intros acc; cbn [norm_tys map fold_left fst snd]; [reflexivity|].
  rewrite <- norm_tys_assoc_set. apply IH.
Qed.

Lemma derive_output_norm k fs o i : derive_output k fs (norm_tys o) (norm_tys i) = derive_output k fs o i.
Proof.
  destruct k; cbn [derive_output]; try reflexivity; unfold get_key; rewrite !assoc_norm_tys;
    destruct (assoc "input" i) as [[| | |]|]; try reflexivity;
    destruct (assoc "output" o) as [[| | |]|]; reflexivity.
Qed.

(* ---- (A2) what the loop can see of the fields of a node ----------------------------------------------------- *)
(* a hyper-parameter is read through hp_of (int_view for the Flatten dimensions), the weight of a Conv through .shape *)
Definition hpv (v : pval) : hp := hp_norm (hp_of v).

Definition hp_names (k : kind) : list string :=
  match k with
  | KConv1d | KConv2d => ["padding"; "dilation"; "stride"]
  | KSumPool2d | KAvgPool2d => ["padding"; "kernel_size"; "stride"]
  | KFlatten => ["start_dim"; "end_dim"]
  | _ => []
  end.
Definition is_conv (k : kind) : bool := match k with KConv1d | KConv2d => true | _ => false end.

Definition hpsim (k : kind) (fs fs' : list (string * pval)) : Prop :=
  (forall f, In f (hp_names k) -> option_map hpv (assoc f fs) = option_map hpv (assoc f fs')) /\
  (is_conv k = true -> fld_shape "weight" fs = fld_shape "weight" fs').

Lemma hpsim_refl k fs : hpsim k fs fs.
Proof. split; reflexivity. Qed.

Lemma int_view_hpv v : int_view v = match hpv v with HInt z => Some z | _ => None end.
Proof.
  unfold hpv, hp_of. destruct (int_view v) as [z|] eqn:E; [reflexivity|].
  destruct v; try reflexivity.
  - destruct sh as [|n [|m sh]]; try reflexivity. destruct ints; reflexivity.
  - destruct (ints_view l); reflexivity.
  - destruct (ints_view l); reflexivity.
Qed.

Lemma fld_hpv f fs fs' : option_map hpv (assoc f fs) = option_map hpv (assoc f fs') ->
  (exists a b, fld f fs = Ok a /\ fld f fs' = Ok b /\ hp_sim (hp_of a) (hp_of b)) \/
  (fld f fs = Err AttributeError /\ fld f fs' = Err AttributeError).
Proof.
  unfold fld. destruct (assoc f fs) as [a|], (assoc f fs') as [b|]; cbn [option_map]; intros H; try discriminate H.
  - left. exists a, b. repeat split. inversion H. unfold hp_sim. assumption.
  - right. split; reflexivity.
Qed.

Definition conv_body (ish : pval) (fs : list (string * pval)) : result (list Z) :=
  do w <- fld_shape "weight" fs;
  do pad <- fld "padding" fs; do dil <- fld "dilation" fs; do stride <- fld "stride" fs;
  do out <- conv_out (hp_of ish) (hp_of pad) (hp_of dil) (HSeq (skipn 2 w)) (hp_of stride);
  do c_out <- py_index w 0;
  Ok (c_out :: out).

Definition pool_body (pre_out tin : list (string * tyv)) (fs : list (string * pval)) : result (list Z) :=
  do pv <- get_key "output" pre_out;
  do sp <- tyv_from pv 1;
  do pad <- fld "padding" fs; do ks <- fld "kernel_size" fs; do stride <- fld "stride" fs;
  do out <- conv_out (HArr sp) (hp_of pad) (HInt 1) (hp_of ks) (hp_of stride);
  do tv <- get_key "input" tin;
  do c <- tyv_index tv 0;
  Ok (c :: out).

Definition flatten_body (tin : list (string * tyv)) (fs : list (string * pval)) : result (list Z * list Z) :=
  do tv <- get_key "input" tin;
  match tyv_nums tv with
  | None => Err TypeError
  | Some sh =>
    do sd <- fld "start_dim" fs; do ed <- fld "end_dim" fs;
    match int_view sd, int_view ed with
    | Some s, Some e => Ok (sh, flatten_out sh s e)
    | _, _ => Err TypeError
    end
  end.

Lemma conv_body_hpsim k ish fs fs' : is_conv k = true -> hpsim k fs fs' -> conv_body ish fs = conv_body ish fs'.
Proof.
  intros Hk [H Hw]. unfold conv_body. rewrite <- (Hw Hk).
  destruct (fld_shape "weight" fs) as [w|e]; cbn [bind]; [|reflexivity].
  assert (Hn : hp_names k = ["padding"; "dilation"; "stride"]) by (destruct k; try discriminate Hk; reflexivity).
  rewrite Hn in H.
  assert (H1 := H "padding" ltac:(cbn [In]; timeout 20 tauto)).
  assert (H2 := H "dilation" ltac:(cbn [In]; timeout 20 tauto)).
  assert (H3 := H "stride" ltac:(cbn [In]; timeout 20 tauto)).
  destruct (fld_hpv _ _ _ H1) as [(a1 & b1 & -> & -> & S1)|[-> ->]]; cbn [bind]; [|reflexivity].
  destruct (fld_hpv _ _ _ H2) as [(a2 & b2 & -> & -> & S2)|[-> ->]]; cbn [bind]; [|reflexivity].
  destruct (fld_hpv _ _ _ H3) as [(a3 & b3 & -> & -> & S3)|[-> ->]]; cbn [bind]; [|reflexivity].
  rewrite (hp_sim_conv_out (hp_of ish) (hp_of ish) _ _ _ _ (HSeq (skipn 2 w)) (HSeq (skipn 2 w)) _ _
             eq_refl S1 S2 eq_refl S3).
  reflexivity.
Qed.

Lemma pool_body_hpsim k o i fs fs' :
  k = KSumPool2d \/ k = KAvgPool2d -> hpsim k fs fs' -> pool_body o i fs = pool_body o i fs'.
Proof.
  intros Hk [H _]. unfold pool_body.
  destruct (get_key "output" o) as [pv|e]; cbn [bind]; [|reflexivity].
  destruct (tyv_from pv 1) as [sp|e]; cbn [bind]; [|reflexivity].
  assert (Hn : hp_names k = ["padding"; "kernel_size"; "stride"]) by (destruct Hk as [-> | ->]; reflexivity).
  rewrite Hn in H.
  assert (H1 := H "padding" ltac:(cbn [In]; timeout 20 tauto)).
  assert (H2 := H "kernel_size" ltac:(cbn [In]; timeout 20 tauto)).
  assert (H3 := H "stride" ltac:(cbn [In]; timeout 20 tauto)).
  destruct (fld_hpv _ _ _ H1) as [(a1 & b1 & -> & -> & S1)|[-> ->]]; cbn [bind]; [|reflexivity].
  destruct (fld_hpv _ _ _ H2) as [(a2 & b2 & -> & -> & S2)|[-> ->]]; cbn [bind]; [|reflexivity].
  destruct (fld_hpv _ _ _ H3) as [(a3 & b3 & -> & -> & S3)|[-> ->]]; cbn [bind]; [|reflexivity].
  rewrite (hp_sim_conv_out (HArr sp) (HArr sp) _ _ (HInt 1) (HInt 1) _ _ _ _ eq_refl S1 eq_refl S2 S3).
  reflexivity.
Qed.

Lemma flatten_body_hpsim i fs fs' : hpsim KFlatten fs fs' -> flatten_body i fs = flatten_body i fs'.
Proof.
  intros [H _]. unfold flatten_body. cbn [hp_names] in H.
  destruct (get_key "input" i) as [tv|e]; cbn [bind]; [|reflexivity].
  destruct (tyv_nums tv) as [sh|]; [|reflexivity].
  assert (H1 := H "start_dim" ltac:(cbn [In]; timeout 20 tauto)).
  assert (H2 := H "end_dim" ltac:(cbn [In]; timeout 20 tauto)).
  destruct (fld_hpv _ _ _ H1) as [(a1 & b1 & -> & -> & S1)|[-> ->]]; cbn [bind]; [|reflexivity].
  destruct (fld_hpv _ _ _ H2) as [(a2 & b2 & -> & -> & S2)|[-> ->]]; cbn [bind]; [|reflexivity].
  rewrite !int_view_hpv. unfold hpv. unfold hp_sim in S1, S2. rewrite S1, S2. reflexivity.
Qed.

Lemma hpsim_set_ish k v fs fs' : hpsim k fs fs' -> hpsim k (assoc_set "input_shape" v fs) (assoc_set "input_shape" v fs').
Proof.
  intros [H Hw]. split.
  - intros f Hf. rewrite !InferProofs.assoc_assoc_set.
    destruct (String.eqb f "input_shape") eqn:E; [reflexivity|]. apply H. exact Hf.
  - intros Hk. unfold fld_shape, fld. rewrite !InferProofs.assoc_assoc_set. cbn [String.eqb Ascii.eqb Bool.eqb].
    apply Hw. exact Hk.
Qed.

(* the result of derive_output but for the field list *)
Ltac dfin H := split; [reflexivity|split; [reflexivity|first [exact H | apply hpsim_set_ish; exact H]]].

Lemma derive_output_hpsim k fs fs' o i : hpsim k fs fs' ->
  snd (fst (derive_output k fs o i)) = snd (fst (derive_output k fs' o i)) /\
  snd (derive_output k fs o i) = snd (derive_output k fs' o i) /\
  hpsim k (fst (fst (derive_output k fs o i))) (fst (fst (derive_output k fs' o i))).
Proof.
  intros H. destruct k; cbn [derive_output fst snd]; try (dfin H).
  - (* Conv1d *)
    match goal with |- context [match ?X with Ok _ => _ | Err _ => _ end] => destruct X as [ish|e] end;
      cbn [fst snd]; [|dfin H].
    fold (conv_body ish fs). fold (conv_body ish fs').
    rewrite <- (conv_body_hpsim KConv1d ish fs fs' eq_refl H).
    destruct (conv_body ish fs); cbn [fst snd]; dfin H.
  - (* Conv2d *)
    match goal with |- context [match ?X with Ok _ => _ | Err _ => _ end] => destruct X as [ish|e] end;
      cbn [fst snd]; [|dfin H].
    fold (conv_body ish fs). fold (conv_body ish fs').
    rewrite <- (conv_body_hpsim KConv2d ish fs fs' eq_refl H).
    destruct (conv_body ish fs); cbn [fst snd]; dfin H.
  - fold (pool_body o i fs). fold (pool_body o i fs').
    rewrite <- (pool_body_hpsim KSumPool2d o i fs fs' (or_introl eq_refl) H).
    destruct (pool_body o i fs); cbn [fst snd]; dfin H.
  - fold (pool_body o i fs). fold (pool_body o i fs').
    rewrite <- (pool_body_hpsim KAvgPool2d o i fs fs' (or_intror eq_refl) H).
    destruct (pool_body o i fs); cbn [fst snd]; dfin H.
  - fold (flatten_body i fs). fold (flatten_body i fs').
    rewrite <- (flatten_body_hpsim i fs fs' H).
    destruct (flatten_body i fs) as [[sh out]|]; cbn [fst snd]; dfin H.
Qed.

(* ---- (A3) the relation between two children that inference cannot tell apart ---------------------------------- *)
(* leaves: same kind, same view of the hyper-parameters, types equal up to the container (TSeq / TArr) of the numbers;
   nested graphs (never modified, the loop raises NotImplementedError on them): graph-level types related as in rt_rel *)
Definition isim (n n' : node) : Prop :=
  match n, n' with
  | Leaf k fs ti to, Leaf k' fs' ti' to' =>
      k = k' /\ hpsim k fs fs' /\ ty_norm ti = ty_norm ti' /\ ty_norm to = ty_norm to'
  | Graph _ _ gi go _, Graph _ _ gi' go' _ => gty_rel gi gi' /\ gty_rel go go'
  | _, _ => False
  end.

Definition is_none_exn (e : option exn) : bool := match e with None => true | Some _ => false end.

Lemma apply_edge_sim pre pre' post post' : isim pre pre' -> isim post post' ->
  isim (fst (apply_edge pre post)) (fst (apply_edge pre' post')) /\
  is_none_exn (snd (apply_edge pre post)) = is_none_exn (snd (apply_edge pre' post')).
Proof.
  intros Hpre Hpost.
  destruct pre as [pk pfs pti pto|pch pes pgi pgo pm], pre' as [pk' pfs' pti' pto'|pch' pes' pgi' pgo' pm'];
    try contradiction.
  2:{ cbn [apply_edge fst snd]. split; [exact Hpost|reflexivity]. }
  destruct post as [k fs ti to|ch es gi go m], post' as [k' fs' ti' to'|ch' es' gi' go' m']; try contradiction.
  2:{ cbn [apply_edge fst snd]. split; [exact Hpost|reflexivity]. }
  destruct Hpre as (_ & _ & _ & Hpo). destruct Hpost as (<- & Hfs & Hti & Hto).
  cbn [apply_edge].
  destruct ti as [i|], ti' as [i'|]; try discriminate Hti.
  2:{ cbn [fst snd]. split; [|reflexivity]. cbn [isim]. split; [reflexivity|]. split; [exact Hfs|]. split; assumption. }
  destruct pto as [o|], pto' as [o'|]; try discriminate Hpo.
  2:{ cbn [fst snd]. split; [|reflexivity]. cbn [isim]. split; [reflexivity|]. split; [exact Hfs|]. split; assumption. }
  rewrite !ty_norm_some in Hti, Hpo. injection Hti as Hi. injection Hpo as Ho.
  rewrite <- (values_equal_norm o i), <- (values_equal_norm o' i'), <- Hi, <- Ho.
  destruct (values_equal (norm_tys o) (norm_tys i)) as [eq|e].
  2:{ cbn [fst snd]. split; [|reflexivity]. cbn [isim]. rewrite !ty_norm_some, Hi.
      split; [reflexivity|]. split; [exact Hfs|]. split; [reflexivity|exact Hto]. }
  rewrite <- (ty_undef_norm (Some i)), <- (ty_undef_norm (Some i')), !ty_norm_some, <- Hi.
  rewrite <- (norm_tys_length i), <- (norm_tys_length i'), <- (norm_tys_length o), <- (norm_tys_length o'), <- Hi, <- Ho.
  set (c := (ty_undef (Some (norm_tys i)) ||
             (negb (Nat.eqb (List.length (norm_tys i)) (List.length (norm_tys o))) || negb eq))%bool).
  set (j := if c then rename_keys "output" "input" o else i).
  set (j' := if c then rename_keys "output" "input" o' else i').
  assert (Hj : norm_tys j = norm_tys j').
  { unfold j, j'. destruct c; [|exact Hi]. rewrite <- !rename_keys_norm, Ho. reflexivity. }
  set (t1 := if kind_eqb k KOutput then Some (rename_keys "input" "output" j) else to).
  set (t1' := if kind_eqb k KOutput then Some (rename_keys "input" "output" j') else to').
  assert (Ht1 : ty_norm t1 = ty_norm t1').
  { unfold t1, t1'. destruct (kind_eqb k KOutput); [|exact Hto].
    rewrite !ty_norm_some, <- !rename_keys_norm, Hj. reflexivity. }
  rewrite <- (ty_undef_norm t1), <- (ty_undef_norm t1'), <- Ht1.
  destruct (ty_undef (ty_norm t1)).
  - rewrite <- (derive_output_norm k fs o j), <- (derive_output_norm k fs' o' j'), <- Ho, <- Hj.
    destruct (derive_output_hpsim k fs fs' (norm_tys o) (norm_tys j) Hfs) as (Hr & Hex & Hf).
    destruct (derive_output k fs (norm_tys o) (norm_tys j)) as [[f1 r1] e1].
    destruct (derive_output k fs' (norm_tys o) (norm_tys j)) as [[f2 r2] e2].
    cbn [fst snd] in *. subst r2 e2. split; [|reflexivity].
    cbn [isim]. split; [reflexivity|]. split; [exact Hf|]. rewrite !ty_norm_some, Hj. split; [reflexivity|].
    destruct r1; [reflexivity|exact Ht1].
  - cbn [fst snd]. split; [|reflexivity].
    cbn [isim]. rewrite !ty_norm_some, Hj. split; [reflexivity|]. split; [exact Hfs|]. split; [reflexivity|exact Ht1].
Qed.

(* ---- (A4) children dictionaries, and the lock-step simulation of the loop ------------------------------------ *)
Definition chsim (ch ch' : list (string * node)) : Prop :=
  Forall2 (fun p q => fst p = fst q /\ isim (snd p) (snd q)) ch ch'.

Lemma chsim_assoc ch ch' k : chsim ch ch' ->
  match assoc k ch, assoc k ch' with Some a, Some b => isim a b | None, None => True | _, _ => False end.
Proof.
  intros H. induction H as [|[k1 a] [k2 b] r r' [Hk Hab] Hr IH]; cbn [assoc]; [exact I|].
  cbn [fst snd] in Hk, Hab. subst k2. destruct (String.eqb k k1); [exact Hab|exact IH].
Qed.

Lemma chsim_set ch ch' k n n' : chsim ch ch' -> isim n n' -> chsim (assoc_set k n ch) (assoc_set k n' ch').
Proof.
  intros H Hn. induction H as [|[k1 a] [k2 b] r r' [Hk Hab] Hr IH]; cbn [assoc_set].
  - constructor; [split; [reflexivity|exact Hn]|constructor].
  - cbn [fst snd] in Hk, Hab. subst k2. destruct (String.eqb k k1).
    + constructor; [split; [reflexivity|exact Hn]|exact Hr].
    + constructor; [split; [reflexivity|exact Hab]|exact IH].
Qed.

Lemma chsim_length ch ch' : chsim ch ch' -> List.length ch = List.length ch'.
Proof. intros H. induction H; cbn [List.length]; [reflexivity|f_equal; assumption]. Qed.

Lemma chsim_names ch ch' : chsim ch ch' -> map fst ch = map fst ch'.
Proof. intros H. induction H as [|p q r r' [Hk _] _ IH]; cbn [map]; [reflexivity|]. rewrite Hk, IH. reflexivity. Qed.

Lemma isim_io n n' : isim n n' ->
  is_input n = is_input n' /\ is_output n = is_output n' /\
  ty_norm (node_tin n) = ty_norm (node_tin n') /\ ty_norm (node_tout n) = ty_norm (node_tout n').
Proof.
  destruct n as [k fs ti to|ch es gi go m], n' as [k' fs' ti' to'|ch' es' gi' go' m']; try (intros []; fail).
  - intros (<- & _ & Hi & Ho). cbn [is_input is_output node_tin node_tout]. repeat split; assumption.
  - intros _. repeat split.
Qed.

Lemma chsim_input_keys ch ch' : chsim ch ch' -> keys (inputs ch) = keys (inputs ch').
Proof.
  intros H. unfold keys, inputs. induction H as [|p q r r' [Hk Hpq] _ IH]; cbn [filter]; [reflexivity|].
  destruct (isim_io _ _ Hpq) as (Hi & _). rewrite <- Hi. destruct (is_input (snd p)); cbn [map]; [|exact IH].
  rewrite Hk, IH. reflexivity.
Qed.

Definition gentry (p q : string * ty) : Prop := fst p = fst q /\ ty_norm (snd p) = ty_norm (snd q).

Lemma chsim_graph_types ch ch' : chsim ch ch' ->
  gty_rel (graph_tin ch) (graph_tin ch') /\ gty_rel (graph_tout ch) (graph_tout ch').
Proof.
  intros H.
  assert (Hio : Forall2 gentry (map (fun p => (fst p, node_tin (snd p))) (inputs ch))
                               (map (fun p => (fst p, node_tin (snd p))) (inputs ch')) /\
                Forall2 gentry (map (fun p => (fst p, node_tout (snd p))) (outputs ch))
                               (map (fun p => (fst p, node_tout (snd p))) (outputs ch'))).
  { unfold inputs, outputs. induction H as [|p q r r' [Hk Hpq] _ [IH1 IH2]]; cbn [filter map]; [split; constructor|].
    destruct (isim_io _ _ Hpq) as (Hi & Ho & Hti & Hto). rewrite <- Hi, <- Ho. split.
    - destruct (is_input (snd p)); [|exact IH1]. cbn [map]. constructor; [split; assumption|exact IH1].
    - destruct (is_output (snd p)); [|exact IH2]. cbn [map]. constructor; [split; assumption|exact IH2]. }
  destruct Hio as [H1 H2]. split; [|exact H2].
  unfold graph_tin. destruct (inputs ch) as [|p t], (inputs ch') as [|q t']; cbn [map] in H1; inversion H1; subst.
  - exact I.
  - cbn [gty_rel]. exact H1.
Qed.

Lemma run_sim fuel es : forall st st',
  chsim (st_ch st) (st_ch st') -> st_ready st = st_ready st' -> st_seen st = st_seen st' ->
  chsim (st_ch (fst (run fuel es st))) (st_ch (fst (run fuel es st'))) /\
  raised (snd (run fuel es st)) = raised (snd (run fuel es st')).
Proof.
  induction fuel as [|f IH]; intros st st' Hch Hr Hs; cbn [run].
  - cbn [fst snd]. split; [exact Hch|reflexivity].
  - rewrite <- Hr, <- Hs. destruct (pop_last (st_ready st)) as [[rest [pk qk]]|].
    2:{ cbn [fst snd]. split; [exact Hch|reflexivity]. }
    unfold lookup_child.
    pose proof (chsim_assoc _ _ pk Hch) as Hp. pose proof (chsim_assoc _ _ qk Hch) as Hq.
    destruct (assoc pk (st_ch st)) as [pre|], (assoc pk (st_ch st')) as [pre'|]; try contradiction.
    2:{ destruct (assoc qk (st_ch st)), (assoc qk (st_ch st')); try contradiction;
          cbn [fst snd st_ch raised]; (split; [exact Hch|reflexivity]). }
    destruct (assoc qk (st_ch st)) as [post|], (assoc qk (st_ch st')) as [post'|]; try contradiction.
    2:{ cbn [fst snd st_ch raised]. split; [exact Hch|reflexivity]. }
    destruct (apply_edge_sim pre pre' post post' Hp Hq) as [Hn He].
    destruct (apply_edge pre post) as [p1 e1], (apply_edge pre' post') as [p2 e2]. cbn [fst snd] in Hn, He.
    assert (Hset : chsim (set_child qk p1 (st_ch st)) (set_child qk p2 (st_ch st')))
      by (apply chsim_set; assumption).
    destruct e1 as [e1|], e2 as [e2|]; try discriminate He.
    + cbn [fst snd st_ch raised]. split; [exact Hset|reflexivity].
    + apply IH; cbn [st_ch st_ready st_seen]; [exact Hset|reflexivity|reflexivity].
Qed.

(* ---- (A5) infer_types on related graphs ------------------------------------------------------------------------ *)
(* the relation on whole graphs: children pairwise related (same names, same order), same edges, related graph-level
   types.  (A leaf is not a graph: infer_types raises AttributeError and returns it unchanged.) *)
Definition grel (g g' : node) : Prop :=
  match g, g' with
  | Graph ch es gi go _, Graph ch' es' gi' go' _ => chsim ch ch' /\ es = es' /\ gty_rel gi gi' /\ gty_rel go go'
  | Leaf _ _ _ _, Leaf _ _ _ _ => isim g g'
  | _, _ => False
  end.

Lemma gty_undef_rel g g' : gty_rel g g' -> gty_undef g = gty_undef g'.
Proof.
  destruct g as [l|], g' as [l'|]; cbn [gty_rel]; try contradiction; [|reflexivity].
  intros H. cbn [gty_undef]. induction H as [|[kp tp] [kq tq] r r' [_ Hpq] _ IH]; cbn [existsb]; [reflexivity|].
  rewrite IH. cbn [snd] in *. destruct tp, tq; try discriminate Hpq; reflexivity.
Qed.

Theorem infer_respects_grel : forall g g', grel g g' ->
  grel (fst (infer_types g)) (fst (infer_types g')) /\
  raised (snd (infer_types g)) = raised (snd (infer_types g')).
Proof.
  intros g g' H.
  destruct g as [k fs ti to|ch es gi go m], g' as [k' fs' ti' to'|ch' es' gi' go' m']; try contradiction.
  - cbn [infer_types fst snd]. split; [exact H|reflexivity].
  - destruct H as (Hch & <- & Hgi & Hgo). cbn [infer_types].
    rewrite <- (gty_undef_rel _ _ Hgi), <- (gty_undef_rel _ _ Hgo).
    destruct (negb (gty_undef gi)).
    + assert (Hinit : st_ready (init_state ch es) = st_ready (init_state ch' es)).
      { unfold init_state. cbn [st_ready]. rewrite (chsim_input_keys _ _ Hch). reflexivity. }
      assert (Hfuel : infer_fuel ch es = infer_fuel ch' es).
      { unfold infer_fuel. rewrite (chsim_length _ _ Hch). reflexivity. }
      rewrite <- Hfuel.
      destruct (run_sim (infer_fuel ch es) es (init_state ch es) (init_state ch' es) Hch Hinit) as [Hc Ho].
      { unfold init_state. cbn [st_seen st_ready]. rewrite (chsim_input_keys _ _ Hch). reflexivity. }
      destruct (run (infer_fuel ch es) es (init_state ch es)) as [st oc].
      destruct (run (infer_fuel ch es) es (init_state ch' es)) as [st' oc'].
      cbn [fst snd] in *. split; [|exact Ho].
      unfold mk_graph. cbn [grel]. destruct (chsim_graph_types _ _ Hc) as [G1 G2]. repeat split; assumption.
    + destruct (negb (gty_undef go)); cbn [fst snd]; (split; [|reflexivity]); cbn [grel]; repeat split; assumption.
Qed.

(* ---- (A6) from the round-trip relation rt_rel to grel: the side conditions ------------------------------------- *)
(* what the theorems claim about the two graphs after inference: same child names in the same order, same kinds, input and
   output type of every child equal up to the container (tuple TSeq / array TArr) of the numbers — for EVERY kind, because
   the loop copies the output type of the source into the input type of the target, container included —, same edges,
   graph-level types related as in rt_rel *)
Definition tsim (n n' : node) : Prop :=
  match n, n' with
  | Leaf k _ ti to, Leaf k' _ ti' to' => k = k' /\ ty_norm ti = ty_norm ti' /\ ty_norm to = ty_norm to'
  | Graph _ _ gi go _, Graph _ _ gi' go' _ => gty_rel gi gi' /\ gty_rel go go'
  | _, _ => False
  end.

Definition types_rel (g g' : node) : Prop :=
  match g, g' with
  | Graph ch es gi go _, Graph ch' es' gi' go' _ =>
      Forall2 (fun p q => fst p = fst q /\ tsim (snd p) (snd q)) ch ch' /\ es = es' /\ gty_rel gi gi' /\ gty_rel go go'
  | Leaf _ _ _ _, Leaf _ _ _ _ => tsim g g'
  | _, _ => False
  end.

Lemma isim_tsim n n' : isim n n' -> tsim n n'.
Proof.
  destruct n as [k fs ti to|ch es gi go m], n' as [k' fs' ti' to'|ch' es' gi' go' m']; cbn [isim tsim]; try (intros []; fail).
  - intros (Hk & _ & Hi & Ho). repeat split; assumption.
  - trivial.
Qed.

Lemma grel_types_rel g g' : grel g g' -> types_rel g g'.
Proof.
  destruct g as [k fs ti to|ch es gi go m], g' as [k' fs' ti' to'|ch' es' gi' go' m']; try (intros []; fail).
  - apply isim_tsim.
  - intros (Hch & He & Hgi & Hgo). cbn [types_rel]. split; [|repeat split; assumption].
    induction Hch as [|p q r r' [Hk Hpq] _ IH]; constructor; [split; [exact Hk|apply isim_tsim; exact Hpq]|exact IH].
Qed.

(* S-hp: a hyper-parameter that inference reads (hp_names) is not a 0-d ndarray — on BOTH sides: a 0-d array is rejected
   where the numpy scalar it becomes in a file is accepted (hp_of / int_view; SimProofs S2) *)
Definition hp_no0d (n : node) : Prop :=
  match n with
  | Leaf k fs _ _ => forall f v, In f (hp_names k) -> assoc f fs = Some v -> is0d v = false
  | Graph _ _ _ _ _ => True
  end.
(* S-w: the weight of a Conv1d / Conv2d child is an ndarray with at least one axis (then it is read back identical) *)
Definition weight_ok (n : node) : Prop :=
  match n with
  | Leaf k fs _ _ => is_conv k = true -> exists dt sh tok i, assoc "weight" fs = Some (VArr dt sh tok i) /\ sh <> []
  | Graph _ _ _ _ _ => True
  end.
(* inference looks at the direct children only *)
Definition children_all (P : node -> Prop) (g : node) : Prop :=
  match g with
  | Graph ch _ _ _ _ => Forall (fun p => P (snd p)) ch
  | Leaf _ _ _ _ => P g
  end.

Lemma hp_names_not_meta k f : In f (hp_names k) -> f <> "metadata".
Proof. destruct k; cbn [hp_names In]; intros H; repeat (destruct H as [<-|H]; [discriminate|]); destruct H. Qed.

Lemma rt_rel_isim n n' : rt_rel n n' -> hp_no0d n -> weight_ok n -> hp_no0d n' -> isim n n'.
Proof.
  destruct n as [k fs ti to|ch es gi go m], n' as [k' fs' ti' to'|ch' es' gi' go' m']; try (intros []; fail).
  - cbn [rt_rel hp_no0d weight_ok isim]. intros (<- & Hf & Hi & Ho & Har) H0 Hw H0'.
    split; [reflexivity|]. split; [|split; eapply ty_rel_norm; eassumption].
    split.
    + intros f Hin. pose proof (fields_rel_assoc _ _ _ f Hf) as Hr.
      specialize (H0 f). specialize (H0' f).
      destruct (assoc f fs) as [a|], (assoc f fs') as [b|]; try contradiction; [|reflexivity].
      apply (erel_other f a b (hp_names_not_meta k f Hin)) in Hr. cbn [option_map]. f_equal.
      apply (vsim_hp_of a b Hr); [apply (H0 a Hin eq_refl)|apply (H0' b Hin eq_refl)].
    + intros Hk. destruct (Hw Hk) as (dt & sh & tok & i & Ea & Hsh).
      unfold fld_shape, fld. rewrite Ea, (Har _ _ _ _ _ Ea Hsh). reflexivity.
  - intros H _ _ _. apply rt_rel_graph in H as (_ & _ & _ & Hgi & Hgo). cbn [isim]. split; assumption.
Qed.

Lemma rt_rel_grel g g' :
  rt_rel g g' -> children_all hp_no0d g -> children_all weight_ok g -> children_all hp_no0d g' -> grel g g'.
Proof.
  destruct g as [k fs ti to|ch es gi go m], g' as [k' fs' ti' to'|ch' es' gi' go' m']; try (intros []; fail).
  - cbn [children_all grel]. apply rt_rel_isim.
  - intros H H0 Hw H0'. apply rt_rel_graph in H as (Hall & He & _ & Hgi & Hgo).
    cbn [children_all grel] in *. split; [|repeat split; assumption]. clear He Hgi Hgo.
    revert ch' Hall H0'. induction ch as [|x r IH]; intros [|y r'] Hall H0'; cbn [all2] in Hall; try contradiction;
      [constructor|].
    destruct Hall as (Hn & Hxy & Hr).
    inversion H0 as [|? ? A1 A2]; inversion Hw as [|? ? B1 B2]; inversion H0' as [|? ? C1 C2]; subst.
    constructor; [split; [exact Hn|apply rt_rel_isim; assumption]|apply IH; assumption].
Qed.

(* INFERENCE CANNOT TELL RELATED GRAPHS APART.  g: the original, g': what a file round trip may return (rt_rel).
   Side conditions (both needed, see the counterexamples at the end of the file):
     S-hp on the children of g and of g', S-w on the children of g. *)
Theorem infer_respects_rel : forall g g', rt_rel g g' ->
  children_all hp_no0d g -> children_all weight_ok g -> children_all hp_no0d g' ->
  let '(g1, oc) := infer_types g in
  let '(g1', oc') := infer_types g' in
  raised oc = raised oc' /\ types_rel g1 g1'.
Proof.
  intros g g' H H0 Hw H0'.
  destruct (infer_respects_grel g g' (rt_rel_grel g g' H H0 Hw H0')) as [Hg Ho].
  destruct (infer_types g) as [g1 oc], (infer_types g') as [g1' oc']. cbn [fst snd] in *.
  split; [exact Ho|apply grel_types_rel; exact Hg].
Qed.

(* ---- (A7) the read side: S-hp holds for whatever is read from a written file ----------------------------------- *)
(* a value read back from a file (SerialProofs.norm_val) is never a 0-d ndarray; dictionaries recurse *)
Definition fb (v : pval) : Prop := exists v0, norm_val v0 = Ok v.
Definition fb_vals (d : list (string * pval)) : Prop := Forall (fun p => fb (snd p)) d.
Definition no0d_vals (d : list (string * pval)) : Prop := Forall (fun p => is0d (snd p) = false) d.

Lemma norm_entries_fb kv kv' : norm_entries kv = Ok kv' -> fb_vals kv'.
Proof.
  intros H. apply Forall_forall. intros [k v'] Hin. destruct (norm_entries_from _ _ _ _ H Hin) as (v & _ & Hv).
  exists v. exact Hv.
Qed.

Lemma norm_val_dict_inv v l' : norm_val v = Ok (VDict l') -> exists l, v = VDict l /\ norm_entries l = Ok l'.
Proof.
  intros H. destruct v.
  - discriminate H.
  - cbn in H. destruct (int64_ok z); [inversion H|].
    destruct ((0 <=? z) && (z <? 18446744073709551616)); [inversion H|discriminate].
  - cbn in H. inversion H.
  - cbn in H. inversion H.
  - cbn in H. inversion H.
  - cbn in H. inversion H.
  - destruct sh as [|n sh].
    + rewrite norm_val_array0 in H. inversion H.
    + rewrite norm_val_array in H by discriminate. inversion H.
  - rewrite norm_val_npscalar in H. inversion H.
  - destruct (norm_val_seq_cases true _ _ H) as [(zs & dt & tok & _ & E)|(rows & _ & _ & E)]; discriminate E.
  - destruct (norm_val_seq_cases false _ _ H) as [(zs & dt & tok & _ & E)|(rows & _ & _ & E)]; discriminate E.
  - rewrite norm_val_dict in H. apply bind_ok in H as (l0 & Hl & H). inversion H; subst l0. exists kv. split; [reflexivity|exact Hl].
Qed.

Lemma fb_no0d v : fb v -> is0d v = false.
Proof. intros [v0 H]. exact (norm_val_no0d _ _ H). Qed.

Lemma fb_dict l : fb (VDict l) -> fb_vals l.
Proof. intros [v0 H]. apply norm_val_dict_inv in H as (l0 & _ & H). exact (norm_entries_fb _ _ H). Qed.

Lemma fb_vals_no0d d : fb_vals d -> no0d_vals d.
Proof. apply Forall_impl. intros p. apply fb_no0d. Qed.

Lemma no0d_assoc d f v : no0d_vals d -> assoc f d = Some v -> is0d v = false.
Proof. intros H Ha. apply assoc_In in Ha. unfold no0d_vals in H. rewrite Forall_forall in H. exact (H _ Ha). Qed.

Lemma no0d_del k d : no0d_vals d -> no0d_vals (assoc_del k d).
Proof.
  intros H. induction H as [|[k' v'] r Hv _ IH]; cbn [assoc_del]; [constructor|].
  destruct (String.eqb k k'); [exact IH|constructor; [exact Hv|exact IH]].
Qed.

Lemma no0d_set k v d : no0d_vals d -> is0d v = false -> no0d_vals (assoc_set k v d).
Proof. intros H Hv. apply assoc_set_Forall; [exact H|]. intros k0. exact Hv. Qed.

(* keyword binding: a bound value is an argument or a default of the (generated) class table *)
Lemma defaults_no0d_b :
  forallb (fun k => match class_fields k with
                    | Some tbl => forallb (fun p => match snd p with FDefault v => negb (is0d v) | _ => true end) tbl
                    | None => true
                    end) all_kinds = true.
Proof. vm_compute. reflexivity. Qed.

Lemma bind_fields_no0d tbl args :
  (forall f v, In (f, FDefault v) tbl -> is0d v = false) -> no0d_vals args ->
  forall b, bind_fields tbl args = Ok b -> no0d_vals b.
Proof.
  intros Hd Ha. induction tbl as [|[f d] r IH]; intros b H; cbn [bind_fields] in H.
  - inversion H. constructor.
  - apply bind_ok in H as (v & Hv & H). apply bind_ok in H as (rest & Hrest & H). inversion H; subst b.
    constructor; [|apply IH; [intros f0 v0 Hin; apply (Hd f0 v0); right; exact Hin|exact Hrest]].
    cbn [snd]. destruct (assoc f args) as [a|] eqn:Ea.
    + inversion Hv; subst a. exact (no0d_assoc _ _ _ Ha Ea).
    + destruct d; inversion Hv; subst; [apply (Hd f v); left; reflexivity|reflexivity].
Qed.

Lemma bind_args_no0d k args b : no0d_vals args -> bind_args k args = Ok b -> no0d_vals b.
Proof.
  intros Ha H. unfold bind_args in H. destruct (class_fields k) as [tbl|] eqn:Hc; [|discriminate H].
  destruct (forallb _ args); [|discriminate H].
  apply (bind_fields_no0d tbl args); [|exact Ha|exact H].
  intros f v Hin. pose proof defaults_no0d_b as F. rewrite forallb_forall in F.
  specialize (F k (all_kinds_complete k)). rewrite Hc in F. rewrite forallb_forall in F.
  specialize (F _ Hin). cbn [snd] in F. apply negb_true_iff in F. exact F.
Qed.

Lemma is0d_pair v : is0d v = false -> is0d (pair_if_int v) = false.
Proof. destruct v; intros H; try exact H; reflexivity. Qed.

(* the stored hyper-parameters are the bound ones (paired, for a Conv2d) *)
Lemma post_init_hp_no0d k bfs n : post_init k bfs = Ok n -> no0d_vals bfs -> hp_no0d n.
Proof.
  intros H Hd. destruct (post_init_leaf _ _ _ H) as (f & ti & to & ->). cbn [hp_no0d]. intros g v Hin Hv.
  assert (Hg : g <> "input_type" /\ g <> "output_type").
  { destruct k; cbn [hp_names In] in Hin; repeat (destruct Hin as [<-|Hin]; [split; discriminate|]); destruct Hin. }
  destruct Hg as [G1 G2].
  destruct k; cbn [hp_names] in Hin; try (destruct Hin; fail).
  - unfold post_init in H. ok_walk H; rewrite drop_types_assoc in Hv by assumption; exact (no0d_assoc _ _ _ Hd Hv).
  - assert (Hin' : In g ["padding"; "stride"; "dilation"]) by (cbn [In] in Hin |- *; timeout 20 tauto).
    rewrite (conv2d_fields _ _ _ _ _ _ H Hin') in Hv.
    destruct (assoc g bfs) as [v0|] eqn:E0; [|discriminate Hv]. cbn [option_map] in Hv. inversion Hv.
    apply is0d_pair. exact (no0d_assoc _ _ _ Hd E0).
  - unfold post_init in H. inversion H; subst. rewrite drop_types_assoc in Hv by assumption. exact (no0d_assoc _ _ _ Hd Hv).
  - unfold post_init in H. inversion H; subst. rewrite drop_types_assoc in Hv by assumption. exact (no0d_assoc _ _ _ Hd Hv).
  - unfold post_init in H. ok_walk H; rewrite drop_types_assoc in Hv by assumption; exact (no0d_assoc _ _ _ Hd Hv).
Qed.

Lemma construct_hp_no0d k args n : construct k args = Ok n -> no0d_vals args -> hp_no0d n.
Proof.
  unfold construct. intros H Ha. apply bind_ok in H as (bfs & Hb & H).
  apply (post_init_hp_no0d k bfs n H). exact (bind_args_no0d k args bfs Ha Hb).
Qed.

(* from_dict / dict2node on a dictionary without 0-d arrays *)
Lemma dict2node_hp_no0d fuel d n : dict2node fuel d = Ok n -> no0d_vals d -> hp_no0d n.
Proof.
  destruct n as [k fs ti to|ch es gi go m]; [|intros _ _; exact I].
  intros H Hd. destruct fuel as [|f]; [discriminate H|]. cbn [dict2node] in H.
  destruct (assoc "type" d) as [tv|]; [|discriminate H].
  destruct tv; cbn [bind] in H; try discriminate H.
  destruct (str2kind s) as [k0|e]; cbn [bind] in H; [|discriminate H].
  destruct k0; ok_walk H;
    apply (construct_hp_no0d _ _ _ H); repeat first [apply no0d_del | apply no0d_set; [|reflexivity] | exact Hd].
Qed.

Lemma go_children_hp_no0d (F : list (string * pval) -> result node) l :
  Forall (fun p => forall cd c, snd p = VDict cd -> F cd = Ok c -> hp_no0d c) l ->
  forall ch, go_children F l = Ok ch -> Forall (fun p => hp_no0d (snd p)) ch.
Proof.
  intros HF. induction HF as [|[name v] r Hx _ IH]; intros ch H; cbn [go_children] in H.
  - inversion H. constructor.
  - apply bind_ok in H as (c & Hc & H). apply bind_ok in H as (rest & Hrest & H). inversion H; subst ch.
    constructor; [|apply IH; exact Hrest]. cbn [snd] in *.
    destruct v; try discriminate Hc. exact (Hx kv c eq_refl Hc).
Qed.

Lemma dict2node_graph_children f d ch es gi go m :
  dict2node (S f) d = Ok (Graph ch es gi go m) ->
  exists l, assoc "nodes" d = Some (VDict l) /\ go_children (dict2node f) l = Ok ch.
Proof.
  intros H. cbn [dict2node] in H.
  destruct (assoc "type" d) as [tv|]; [|discriminate H].
  destruct tv; cbn [bind] in H; try discriminate H.
  destruct (str2kind s) as [k0|e]; cbn [bind] in H; [|discriminate H].
  destruct k0;
    try (ok_walk H; apply construct_leaf in H; destruct H as (? & ? & ? & H); discriminate H).
  fold (go_children (dict2node f)) in H.
  destruct (assoc "nodes" d) as [[| | | | | | | | | |l]|]; cbn [bind] in H; try discriminate H.
  destruct (go_children (dict2node f) l) as [ch0|e] eqn:Hgo; cbn [bind] in H; [|discriminate H].
  exists l. split; [reflexivity|]. ok_walk H. exact Hgo.
Qed.

Lemma dict2node_children_no0d fuel d n : dict2node fuel d = Ok n -> fb_vals d -> children_all hp_no0d n.
Proof.
  intros H Hd. destruct n as [k fs ti to|ch es gi go m]; cbn [children_all].
  - exact (dict2node_hp_no0d _ _ _ H (fb_vals_no0d _ Hd)).
  - destruct fuel as [|f]; [discriminate H|].
    apply dict2node_graph_children in H as (l & Hn & Hgo).
    apply (go_children_hp_no0d (dict2node f) l); [|exact Hgo].
    assert (Hl : fb_vals l).
    { apply fb_dict. apply assoc_In in Hn. unfold fb_vals in Hd. rewrite Forall_forall in Hd. exact (Hd _ Hn). }
    unfold fb_vals in Hl. rewrite Forall_forall in Hl |- *. intros p Hp cd c Ecd Hc.
    apply (dict2node_hp_no0d _ _ _ Hc). apply fb_vals_no0d, fb_dict. rewrite <- Ecd. exact (Hl _ Hp).
Qed.

(* S-hp on the read side needs no hypothesis *)
Theorem read_hp_no0d g t g' : write g = Ok t -> read t = Ok g' -> children_all hp_no0d g'.
Proof.
  intros Hw Hr. destruct (read_write_refines g t Hw) as (d' & Hn & Hrd & _).
  rewrite Hrd in Hr. unfold from_dict in Hr.
  exact (dict2node_children_no0d _ _ _ Hr (norm_entries_fb _ _ Hn)).
Qed.

(* ---- (A8) INFERENCE COMMUTES WITH THE FILE ROUND TRIP, side conditions stated on the original graph --------- *)
Theorem infer_commutes_with_file_gen : forall g t g',
  built g -> rt_domain g -> write g = Ok t -> read t = Ok g' ->
  children_all hp_no0d g -> children_all weight_ok g ->
  types_rel (fst (infer_types g)) (fst (infer_types g')) /\
  raised (snd (infer_types g)) = raised (snd (infer_types g')).
Proof.
  intros g t g' Hb Hd Hw Hr H0 Hwt.
  destruct (file_round_trip g t Hb Hd Hw) as (g2 & Hr2 & He). rewrite Hr in Hr2. inversion Hr2; subst g2.
  pose proof (infer_respects_rel g g' He H0 Hwt (read_hp_no0d g t g' Hw Hr)) as H.
  destruct (infer_types g) as [g1 oc], (infer_types g') as [g1' oc']. cbn [fst snd].
  destruct H as [Ho Ht]. split; assumption.
Qed.

(* ---- (A9) discharging the side conditions on the original graph ----------------------------------------------- *)
(* A graph that `write` accepts has no None-valued field and no undefined serialised type: a Conv1d / Conv2d child was
   built WITH an input shape, so its constructor read the weight (an ndarray with at least two axes), and a Flatten child
   was built with a defined input type, so its constructor read both dimensions as integers.  Their hyper-parameters
   padding / stride / dilation are covered by D2 of rt_domain.  What is left is the pooling nodes, whose constructor
   reads nothing: *)
Definition is_pool (k : kind) : bool := match k with KSumPool2d | KAvgPool2d => true | _ => false end.
(* S-pool: kernel_size / stride / padding of a SumPool2d / AvgPool2d child are not 0-d ndarrays *)
Definition pool_no0d (n : node) : Prop :=
  match n with
  | Leaf k fs _ _ => is_pool k = true -> forall f v, In f (hp_names k) -> assoc f fs = Some v -> is0d v = false
  | Graph _ _ _ _ _ => True
  end.

Lemma py_index_nil_1 : py_index (@nil Z) 1 = Err IndexError.
Proof. reflexivity. Qed.

Lemma conv_leaf_weight k bfs f ti to :
  is_conv k = true -> post_init k bfs = Ok (Leaf k f ti to) -> assoc "input_shape" f <> Some VNone ->
  exists dt sh tok i, assoc "weight" f = Some (VArr dt sh tok i) /\ sh <> [].
Proof.
  intros Hk H Hne.
  destruct k; try discriminate Hk; unfold post_init in H; ok_walk H.
  all: try (exfalso; apply Hne; rewrite drop_types_assoc by discriminate; rewrite ?InferProofs.assoc_assoc_set;
            cbn [String.eqb Ascii.eqb Bool.eqb andb]; apply fld_assoc; assumption).
  all: match goal with Ew : fld_shape "weight" _ = Ok ?w, Ec : py_index ?w 1 = Ok _ |- _ =>
         unfold fld_shape in Ew; apply bind_ok in Ew as (x & Ex & Es); apply fld_assoc in Ex;
         destruct x; try discriminate Es; cbn [shape_attr] in Es; inversion Es; subst;
         try (rewrite py_index_nil_1 in Ec; discriminate Ec)
       end.
  all: eexists _, _, _, _; split;
       [rewrite drop_types_assoc by discriminate; rewrite ?InferProofs.assoc_assoc_set;
        cbn [String.eqb Ascii.eqb Bool.eqb andb]; eassumption
       |intros ->; match goal with Ec : py_index [] 1 = Ok _ |- _ => rewrite py_index_nil_1 in Ec; discriminate Ec end].
Qed.

Lemma flatten_leaf_dims bfs f ti to :
  post_init KFlatten bfs = Ok (Leaf KFlatten f ti to) -> ty_get "input" ti <> VNone ->
  forall g v, In g ["start_dim"; "end_dim"] -> assoc g f = Some v -> is0d v = false.
Proof.
  intros H Hne g v Hin Hv.
  assert (Hg : g <> "input_type" /\ g <> "output_type")
    by (destruct Hin as [<-|[<-|[]]]; split; discriminate).
  destruct Hg as [G1 G2].
  unfold post_init in H. ok_walk H.
  all: try (exfalso; apply Hne; reflexivity).
  all: try (exfalso; apply Hne; cbn [ty_get]; match goal with E : assoc "input" _ = Some TNone |- _ => rewrite E end; reflexivity).
  all: rewrite drop_types_assoc in Hv by assumption.
  all: destruct Hin as [<-|[<-|[]]];
       match goal with E : fld ?s _ = Ok ?a, E' : int_view ?a = Some _ |- _ =>
         apply fld_assoc in E; rewrite Hv in E; inversion E; subst; exact (int_view_no0d _ _ E') end.
Qed.

Lemma norm_entries_no_none kv kv' f : norm_entries kv = Ok kv' -> assoc f kv <> Some VNone.
Proof.
  intros H Ha. apply assoc_In in Ha. destruct (norm_entries_in _ _ _ _ H Ha) as [[_ E]|(v' & Hv & _)]; discriminate.
Qed.

(* one constructed leaf that the writer accepts *)
Lemma leaf_side k args fs ti to d' :
  k <> KGraph -> construct k args = Ok (Leaf k fs ti to) -> leaf_domain k fs ->
  norm_entries (to_dict (Leaf k fs ti to)) = Ok d' -> pool_no0d (Leaf k fs ti to) ->
  hp_no0d (Leaf k fs ti to) /\ weight_ok (Leaf k fs ti to).
Proof.
  intros Hk Hc [_ Hd2] Hn Hp.
  rewrite to_dict_leaf in Hn. apply norm_entries_app in Hn as (fsf & tl & Hfsf & Htl & _).
  apply norm_tail in Htl as (sv' & _ & Hsv).
  unfold construct in Hc. apply bind_ok in Hc as (bfs & Hb & Hpi).
  cbn [hp_no0d weight_ok pool_no0d] in *. split.
  - intros f v Hin Hv. destruct k; cbn [hp_names] in Hin; try (destruct Hin; fail).
    + apply (Hd2 f v); [cbn [hp0_names In] in Hin |- *; timeout 20 tauto|exact Hv].
    + apply (Hd2 f v); [cbn [hp0_names In] in Hin |- *; timeout 20 tauto|exact Hv].
    + apply (Hp eq_refl f v Hin Hv).
    + apply (Hp eq_refl f v Hin Hv).
    + apply (fun Hne => flatten_leaf_dims bfs fs ti to Hpi Hne f v Hin Hv).
      intros E. specialize (Hsv eq_refl). cbn [extra_val] in Hsv. rewrite E in Hsv. discriminate Hsv.
  - intros Hconv. apply (conv_leaf_weight k bfs fs ti to Hconv Hpi). apply (norm_entries_no_none _ _ _ Hfsf).
Qed.

Lemma built_leaf_inv k fs ti to :
  built (Leaf k fs ti to) -> k <> KGraph /\ exists args, construct k args = Ok (Leaf k fs ti to).
Proof.
  intros Hb. inversion Hb as [k0 args n Hk0 Hc|]; subst.
  pose proof (construct_kind _ _ _ Hc) as E. cbn [node_kind] in E. subst k0. split; [exact Hk0|exists args; exact Hc].
Qed.

Lemma node_side n d' :
  built n -> rt_dom n -> norm_entries (to_dict n) = Ok d' -> pool_no0d n -> hp_no0d n /\ weight_ok n.
Proof.
  destruct n as [k fs ti to|ch es gi go m]; [|intros; split; exact I].
  intros Hb Hd Hn Hp. destruct (built_leaf_inv _ _ _ _ Hb) as (Hk & args & Hc).
  exact (leaf_side k args fs ti to d' Hk Hc Hd Hn Hp).
Qed.

Lemma built_graph_inv ch es gi go m : built (Graph ch es gi go m) -> Forall (fun p => built (snd p)) ch.
Proof.
  intros Hb. inversion Hb as [k0 args n Hk0 Hc|ch0 es0 m0 Hnd Hbs E].
  - apply construct_leaf in Hc as (? & ? & ? & E). discriminate E.
  - exact Hbs.
Qed.

(* every child of a written graph is accepted by the writer *)
Lemma written_children ch es gi go m d' :
  norm_entries (to_dict (Graph ch es gi go m)) = Ok d' ->
  Forall (fun p => exists dc', norm_entries (to_dict (snd p)) = Ok dc') ch.
Proof.
  intros Hn. cbn [to_dict] in Hn. fold (child_dicts ch) in Hn.
  apply norm_entries_cons_inv in Hn as (h1 & r1 & Hh1 & _ & _).
  unfold norm_here in Hh1. cbn [String.eqb Ascii.eqb Bool.eqb andb unusable_name orb] in Hh1.
  apply bind_ok in Hh1 as (y1 & Hy1 & _).
  rewrite norm_val_dict in Hy1. apply bind_ok in Hy1 as (nodes' & Hnodes & _).
  pose proof (children_norm _ _ Hnodes) as HF. clear Hnodes.
  induction HF as [|p q r r' (_ & dc' & _ & Hdc) _ IH]; constructor; [exists dc'; exact Hdc|exact IH].
Qed.

Lemma graph_side g d' :
  built g -> rt_dom g -> norm_entries (to_dict g) = Ok d' -> children_all pool_no0d g ->
  children_all hp_no0d g /\ children_all weight_ok g.
Proof.
  destruct g as [k fs ti to|ch es gi go m]; cbn [children_all].
  - apply node_side.
  - intros Hb Hd Hn Hp. apply built_graph_inv in Hb. apply rt_dom_graph in Hd. apply written_children in Hn.
    assert (H : Forall (fun p => hp_no0d (snd p) /\ weight_ok (snd p)) ch).
    { rewrite Forall_forall in *. intros p Hin. destruct (Hn p Hin) as (dc' & Hdc).
      exact (node_side (snd p) dc' (Hb p Hin) (Hd p Hin) Hdc (Hp p Hin)). }
    split; eapply Forall_impl; try exact H; intros p [H1 H2]; assumption.
Qed.

(* THE FILE THEOREM.  Hypotheses of file_round_trip, plus S-pool on the direct children of g (needed: pool_0d_needed) *)
Theorem infer_commutes_with_file : forall g t g',
  built g -> rt_domain g -> write g = Ok t -> read t = Ok g' -> children_all pool_no0d g ->
  types_rel (fst (infer_types g)) (fst (infer_types g')) /\
  raised (snd (infer_types g)) = raised (snd (infer_types g')).
Proof.
  intros g t g' Hb Hd Hw Hr Hp.
  destruct (read_write_refines g t Hw) as (d' & Hn & _).
  destruct (graph_side g d' Hb (proj1 Hd) Hn Hp) as [H0 Hwt].
  exact (infer_commutes_with_file_gen g t g' Hb Hd Hw Hr H0 Hwt).
Qed.

(* ---- (A10) INFERENCE COMMUTES WITH THE DICTIONARY ROUND TRIP ------------------------------------------------- *)
Lemma gty_rel_refl g : gty_rel g g.
Proof. destruct g as [l|]; [|exact I]. cbn [gty_rel]. induction l; constructor; [split; reflexivity|assumption]. Qed.

Lemma tsim_refl n : tsim n n.
Proof. destruct n; cbn [tsim]; repeat split; apply gty_rel_refl. Qed.

Lemma types_rel_refl g : types_rel g g.
Proof.
  destruct g as [k fs ti to|ch es gi go m]; [apply tsim_refl|]. cbn [types_rel].
  split; [|repeat split; apply gty_rel_refl]. induction ch; constructor; [split; [reflexivity|apply tsim_refl]|assumption].
Qed.

(* With D3 (single_typed, part of rt_domain) the dictionary round trip is the identity (DictProofs.dict_round_trip_eq), so
   the two inference runs are EQUAL.  Without D3 the statement is false: dict_single_needed below. *)
Theorem infer_commutes_with_dict_eq : forall g g',
  built g -> single_typed g -> from_dict (to_dict g) = Ok g' -> infer_types g' = infer_types g.
Proof.
  intros g g' Hb Hs H. rewrite (dict_round_trip_eq g Hb Hs) in H. inversion H. reflexivity.
Qed.

Theorem infer_commutes_with_dict : forall g g',
  built g -> single_typed g -> from_dict (to_dict g) = Ok g' ->
  types_rel (fst (infer_types g)) (fst (infer_types g')) /\
  raised (snd (infer_types g)) = raised (snd (infer_types g')).
Proof.
  intros g g' Hb Hs H. rewrite (infer_commutes_with_dict_eq g g' Hb Hs H). split; [apply types_rel_refl|reflexivity].
Qed.

(* ---- (A11) reading types_rel; _check_types cannot tell the two results apart either ------------------------------ *)
Definition chrel (ch ch' : list (string * node)) : Prop :=
  Forall2 (fun p q => fst p = fst q /\ tsim (snd p) (snd q)) ch ch'.

Lemma types_rel_graph ch es gi go m ch' es' gi' go' m' :
  types_rel (Graph ch es gi go m) (Graph ch' es' gi' go' m') <->
  chrel ch ch' /\ es = es' /\ gty_rel gi gi' /\ gty_rel go go'.
Proof. reflexivity. Qed.

Lemma chrel_names ch ch' : chrel ch ch' -> map fst ch = map fst ch'.
Proof. intros H. induction H as [|p q r r' [Hk _] _ IH]; cbn [map]; [reflexivity|]. rewrite Hk, IH. reflexivity. Qed.

Lemma chrel_assoc ch ch' k : chrel ch ch' ->
  match assoc k ch, assoc k ch' with Some a, Some b => tsim a b | None, None => True | _, _ => False end.
Proof.
  intros H. induction H as [|[k1 a] [k2 b] r r' [Hk Hab] Hr IH]; cbn [assoc]; [exact I|].
  cbn [fst snd] in Hk, Hab. subst k2. destruct (String.eqb k k1); [exact Hab|exact IH].
Qed.

Lemma gty_rel_other gi gi' : gty_rel gi gi' ->
  option_map (map (fun p : string * ty => (fst p, TOther))) gi = option_map (map (fun p : string * ty => (fst p, TOther))) gi'.
Proof.
  destruct gi as [l|], gi' as [l'|]; cbn [gty_rel option_map]; try contradiction; [|reflexivity].
  intros H. f_equal. induction H as [|p q r r' [Hk _] _ IH]; cbn [map]; [reflexivity|]. rewrite Hk, IH. reflexivity.
Qed.

Lemma tsim_child_types n n' : tsim n n' ->
  ty_norm (child_tin n) = ty_norm (child_tin n') /\ ty_norm (child_tout n) = ty_norm (child_tout n').
Proof.
  destruct n as [k fs ti to|ch es gi go m], n' as [k' fs' ti' to'|ch' es' gi' go' m']; cbn [tsim]; try (intros []; fail).
  - intros (_ & Hi & Ho). split; assumption.
  - intros [Hi Ho]. cbn [child_tin child_tout]. rewrite (gty_rel_other _ _ Hi), (gty_rel_other _ _ Ho). split; reflexivity.
Qed.

Definition check_body (tout tin : ty) : result unit :=
  if ty_undef tout then Err ValueError else
  if ty_undef tin then Err ValueError else
  match tout, tin with
  | Some o, Some i =>
    if negb (Nat.eqb (List.length o) (List.length i)) then Err ValueError else
    match o, i with
    | [(_, ov)], [(_, iv)] =>
      do eq <- array_equal iv ov;
      if eq then Ok tt else Err ValueError
    | _, _ => Err NotImplementedErr
    end
  | _, _ => Err ValueError
  end.

Lemma check_body_norm tout tin : check_body (ty_norm tout) (ty_norm tin) = check_body tout tin.
Proof.
  unfold check_body. rewrite !ty_undef_norm.
  destruct (ty_undef tout); [reflexivity|]. destruct (ty_undef tin); [reflexivity|].
  destruct tout as [o|], tin as [i|]; try reflexivity. rewrite !ty_norm_some, !norm_tys_length.
  destruct (negb (Nat.eqb (List.length o) (List.length i))); [reflexivity|].
  destruct o as [|[ko ov] [|po ro]], i as [|[ki iv] [|pi ri]]; try reflexivity.
  cbn [norm_tys map fst snd]. rewrite array_equal_norm. reflexivity.
Qed.

Lemma check_edge_rel ch ch' e : chrel ch ch' -> check_edge ch e = check_edge ch' e.
Proof.
  intros H. unfold check_edge, lookup_child.
  pose proof (chrel_assoc _ _ (fst e) H) as Hp. pose proof (chrel_assoc _ _ (snd e) H) as Hq.
  destruct (assoc (fst e) ch) as [pre|], (assoc (fst e) ch') as [pre'|]; try contradiction; cbn [bind]; [|reflexivity].
  destruct (assoc (snd e) ch) as [post|], (assoc (snd e) ch') as [post'|]; try contradiction; cbn [bind]; [|reflexivity].
  destruct (tsim_child_types _ _ Hp) as [_ Ho]. destruct (tsim_child_types _ _ Hq) as [Hi _].
  change (check_body (child_tout pre) (child_tin post) = check_body (child_tout pre') (child_tin post')).
  rewrite <- (check_body_norm (child_tout pre)), <- (check_body_norm (child_tout pre')), Ho, Hi. reflexivity.
Qed.

(* _check_types returns the same result (the same exception class, even) on related graphs *)
Theorem check_types_rel g g' : types_rel g g' -> check_types g = check_types g'.
Proof.
  destruct g as [k fs ti to|ch es gi go m], g' as [k' fs' ti' to'|ch' es' gi' go' m']; try (intros []; fail); [reflexivity|].
  intros (Hch & <- & _ & _). cbn [check_types].
  induction es as [|e r IH]; cbn [check_edges]; [reflexivity|]. rewrite (check_edge_rel _ _ e Hch), IH. reflexivity.
Qed.

Corollary check_after_infer_file : forall g t g',
  built g -> rt_domain g -> write g = Ok t -> read t = Ok g' -> children_all pool_no0d g ->
  check_types (fst (infer_types g)) = check_types (fst (infer_types g')).
Proof.
  intros g t g' Hb Hd Hw Hr Hp. apply check_types_rel. apply (infer_commutes_with_file g t g' Hb Hd Hw Hr Hp).
Qed.

(* ================================================================================================ *)
(* EXAMPLES AND COUNTEREXAMPLES (all checked by computation)                                        *)
(* ================================================================================================ *)
(* the example graph of RoundTripProofs (Input -> Conv2d -> Flatten -> CubaLIF -> Output) has no pooling child *)
Example ex_infer_commutes : forall g', read ex_file = Ok g' ->
  types_rel (fst (infer_types ex_graph)) (fst (infer_types g')) /\
  raised (snd (infer_types ex_graph)) = raised (snd (infer_types g')).
Proof.
  intros g' Hr. apply (infer_commutes_with_file ex_graph ex_file g' ex_built ex_domain ex_write Hr).
  unfold ex_graph, mk_graph, ex_children. cbn [children_all].
  repeat (apply Forall_cons; [cbn [snd pool_no0d is_pool]; discriminate|]). apply Forall_nil.
Qed.

(* graphs with a pooling node: Input (2,8,8) -> SumPool2d -> Output (2,4,4) *)
Definition pool_args (ks : pval) : list (string * (kind * list (string * pval))) :=
  [("input", (KInput, [("input_type", VDict [("input", VTuple [VInt 2; VInt 8; VInt 8])])]));
   ("p", (KSumPool2d, [("kernel_size", ks); ("stride", VInt 2); ("padding", VInt 0)]));
   ("output", (KOutput, [("output_type", VDict [("output", VTuple [VInt 2; VInt 4; VInt 4])])]))].
Definition pool_children (ks : pval) : list (string * node) :=
  map (fun p => (fst p, match construct (fst (snd p)) (snd (snd p)) with Ok n => n | Err _ => dummy end)) (pool_args ks).
Definition pool_graph (ks : pval) : node :=
  mk_graph (pool_children ks) [("input", "p"); ("p", "output")] (VDict []).

Lemma pool_graph_built ks : is_ok (construct KSumPool2d [("kernel_size", ks); ("stride", VInt 2); ("padding", VInt 0)]) = true ->
  built (pool_graph ks).
Proof.
  intros H. unfold pool_graph. apply built_graph.
  - apply nodupb_NoDup. reflexivity.
  - unfold pool_children. apply built_children. unfold pool_args. cbn [forallb fst snd]. rewrite H. reflexivity.
Qed.

(* (1) the good case: the theorem applies; and the types are NOT equal after inference — the pooling node, whose types
   are equal on the nose before (rt_rel: not a dictionary-born type), receives the tuple of the Input node on one side
   and the array it became on the other: this is why types_rel forgets the container for every kind *)
Definition pool_ok : node := pool_graph (VInt 2).
Definition pool_ok_file : h5 := Eval vm_compute in match write pool_ok with Ok t => t | Err _ => H5Group [] end.
Definition pool_ok_read : node := Eval vm_compute in match read pool_ok_file with Ok g => g | Err _ => dummy end.

Lemma pool_ok_domain : rt_domain pool_ok.
Proof.
  split.
  - unfold pool_ok, pool_graph, mk_graph. apply rt_dom_graph. vm_compute pool_children.
    repeat (apply Forall_cons; [cbn [snd rt_dom]; dom_leaf|]). apply Forall_nil.
  - unfold pool_ok, pool_graph, mk_graph. apply single_typed_graph. vm_compute pool_children.
    repeat (apply Forall_cons; [cbn [snd single_typed leaf_single]; try exact I; eexists; reflexivity|]). apply Forall_nil.
Qed.

Example pool_ok_commutes :
  types_rel (fst (infer_types pool_ok)) (fst (infer_types pool_ok_read)) /\
  raised (snd (infer_types pool_ok)) = raised (snd (infer_types pool_ok_read)).
Proof.
  apply (infer_commutes_with_file pool_ok pool_ok_file pool_ok_read).
  - apply pool_graph_built. reflexivity.
  - exact pool_ok_domain.
  - vm_compute. reflexivity.
  - vm_compute. reflexivity.
  - unfold pool_ok, pool_graph, mk_graph. cbn [children_all]. vm_compute pool_children.
    repeat (apply Forall_cons; [cbn [snd pool_no0d is_pool]; try discriminate|]); [|apply Forall_nil].
    intros _ f v Hin Hv. cbn [hp_names In] in Hin.
    repeat (destruct Hin as [<-|Hin]; [cbn in Hv; inversion Hv; reflexivity|]). destruct Hin.
Qed.

Definition tin_of (name : string) (g : node) : ty :=
  match g with Graph ch _ _ _ _ => match assoc name ch with Some n => node_tin n | None => None end | _ => None end.

Example container_differs :
  tin_of "p" (fst (infer_types pool_ok)) = Some [("input", TSeq [2; 8; 8])] /\
  tin_of "p" (fst (infer_types pool_ok_read)) = Some [("input", TArr [2; 8; 8])].
Proof. split; vm_compute; reflexivity. Qed.

(* (2) S-pool IS NEEDED: a pooling node whose kernel_size is a 0-d integer array is constructed (the constructor reads
   nothing), is in rt_domain (D2 only speaks about Conv nodes), is written and read back — as the numpy scalar.  On the
   original graph inference RAISES (a 0-d array is no integer for calculate_conv_output), on the graph read back it
   FINISHES and restores the output type: infer_commutes_with_file is false without S-pool. *)
Definition ks0 : pval := VArr "int64" [] 5 (Some [2]).
Definition pool_bad : node := pool_graph ks0.
Definition pool_bad_file : h5 := Eval vm_compute in match write pool_bad with Ok t => t | Err _ => H5Group [] end.
Definition pool_bad_read : node := Eval vm_compute in match read pool_bad_file with Ok g => g | Err _ => dummy end.

Lemma pool_bad_domain : rt_domain pool_bad.
Proof.
  split.
  - unfold pool_bad, pool_graph, mk_graph. apply rt_dom_graph. vm_compute pool_children.
    repeat (apply Forall_cons; [cbn [snd rt_dom]; dom_leaf|]). apply Forall_nil.
  - unfold pool_bad, pool_graph, mk_graph. apply single_typed_graph. vm_compute pool_children.
    repeat (apply Forall_cons; [cbn [snd single_typed leaf_single]; try exact I; eexists; reflexivity|]). apply Forall_nil.
Qed.

Example pool_0d_needed :
  built pool_bad /\ rt_domain pool_bad /\ write pool_bad = Ok pool_bad_file /\ read pool_bad_file = Ok pool_bad_read /\
  snd (infer_types pool_bad) = Raised TypeError /\ snd (infer_types pool_bad_read) = Finished /\
  ~ children_all pool_no0d pool_bad.
Proof.
  split; [apply pool_graph_built; reflexivity|]. split; [exact pool_bad_domain|].
  split; [vm_compute; reflexivity|]. split; [vm_compute; reflexivity|].
  split; [vm_compute; reflexivity|]. split; [vm_compute; reflexivity|].
  unfold pool_bad, pool_graph, mk_graph. cbn [children_all]. vm_compute pool_children. intros H.
  inversion H as [|? ? _ H1]; subst. inversion H1 as [|? ? H2 _]; subst. cbn [snd pool_no0d] in H2.
  specialize (H2 eq_refl "kernel_size" ks0 (or_intror (or_introl eq_refl)) eq_refl). discriminate H2.
Qed.

(* (3) the side conditions of infer_respects_rel (hand-built rt_rel-related graphs) *)
Definition hb_out : node := Leaf KOutput [("metadata", VDict [])] (Some [("input", TNone)]) (Some [("output", TNone)]).
Definition hb_in (sh : list Z) : node :=
  Leaf KInput [("metadata", VDict [])] (Some [("input", TArr sh)]) (Some [("output", TArr sh)]).
Definition hb_graph (sh : list Z) (n : node) : node :=
  mk_graph [("input", hb_in sh); ("x", n); ("output", hb_out)] [("input", "x"); ("x", "output")] (VDict []).

Ltac hb_rel tac :=
  unfold hb_graph, mk_graph; apply rt_rel_graph;
  split; [|split; [reflexivity|split; [vm_compute; reflexivity|split; vm_compute; repeat constructor]]];
  cbn [all2 fst snd rt_rel hb_in hb_out]; repeat split; try reflexivity;
  try (repeat (apply Forall2_cons;
               [split; [reflexivity|]; unfold erel; cbn [String.eqb Ascii.eqb Bool.eqb andb fst snd]; first [tac | vsolve]|]);
       apply Forall2_nil);
  try asolve.

(* S-w: a Conv1d built without input shape never read its weight: a tuple has no .shape, the array it becomes has one *)
Definition hb_conv (w : pval) : node :=
  Leaf KConv1d [("input_shape", VNone); ("weight", w); ("stride", VInt 1); ("padding", VStr "same"); ("dilation", VInt 1);
                ("groups", VInt 1); ("bias", VArr "float32" [4] 12 None); ("metadata", VDict [])]
       (Some [("input", TNone)]) (Some [("output", TNone)]).
Definition w_tuple : pval := VTuple [VInt 3; VInt 4; VInt 5].
Definition w_array : pval := VArr "int64" [3] 0 (Some [3; 4; 5]).

Example weight_needed :
  rt_rel (hb_graph [2; 8] (hb_conv w_tuple)) (hb_graph [2; 8] (hb_conv w_array)) /\
  children_all hp_no0d (hb_graph [2; 8] (hb_conv w_tuple)) /\ children_all hp_no0d (hb_graph [2; 8] (hb_conv w_array)) /\
  snd (infer_types (hb_graph [2; 8] (hb_conv w_tuple))) = Raised AttributeError /\
  snd (infer_types (hb_graph [2; 8] (hb_conv w_array))) = Finished.
Proof.
  split; [unfold hb_conv, w_tuple, w_array; hb_rel fail|].
  split; [|split; [|split; vm_compute; reflexivity]].
  all: unfold hb_graph, mk_graph; cbn [children_all];
       repeat (apply Forall_cons; [cbn [snd hb_in hb_out hb_conv hp_no0d hp_names]|]); try apply Forall_nil;
       try (intros f v []; fail);
       intros f v Hin Hv; cbn [In] in Hin;
       repeat (destruct Hin as [<-|Hin]; [cbn in Hv; inversion Hv; reflexivity|]); destruct Hin.
Qed.

(* S-hp on the side read back: rt_rel alone allows a numpy scalar to be set against the 0-d array of the same content
   (vsim is symmetric); a file never contains one (read_hp_no0d), but the hypothesis cannot be dropped from
   infer_respects_rel *)
Definition hb_pool (s : pval) : node :=
  Leaf KSumPool2d [("kernel_size", VInt 2); ("stride", s); ("padding", VInt 0); ("metadata", VDict [])]
       (Some [("input", TNone)]) (Some [("output", TNone)]).
Definition s_np : pval := VNp "int64" 5 (Some 2).
Definition s_0d : pval := VArr "int64" [] 5 (Some [2]).

Example hp_read_side_needed :
  rt_rel (hb_graph [2; 8; 8] (hb_pool s_np)) (hb_graph [2; 8; 8] (hb_pool s_0d)) /\
  children_all hp_no0d (hb_graph [2; 8; 8] (hb_pool s_np)) /\ children_all weight_ok (hb_graph [2; 8; 8] (hb_pool s_np)) /\
  snd (infer_types (hb_graph [2; 8; 8] (hb_pool s_np))) = Finished /\
  snd (infer_types (hb_graph [2; 8; 8] (hb_pool s_0d))) = Raised TypeError.
Proof.
  split; [unfold hb_pool, s_np, s_0d; hb_rel ltac:(apply vs_sym; apply (vs_arr0_np "int64" 5 (Some [2])))|].
  split; [|split; [|split; vm_compute; reflexivity]].
  - unfold hb_graph, mk_graph; cbn [children_all].
    repeat (apply Forall_cons; [cbn [snd hb_in hb_out hb_pool hp_no0d hp_names]|]); try apply Forall_nil;
      try (intros f v []; fail).
    intros f v Hin Hv; cbn [In] in Hin.
    repeat (destruct Hin as [<-|Hin]; [cbn in Hv; inversion Hv; reflexivity|]); destruct Hin.
  - unfold hb_graph, mk_graph; cbn [children_all].
    repeat (apply Forall_cons; [cbn [snd hb_in hb_out hb_pool weight_ok is_conv]; discriminate|]). apply Forall_nil.
Qed.

(* (4) D3 IS NEEDED for the dictionary round trip: a Flatten node built from a type dictionary with an extra entry loses
   that entry in the dictionary form (DictProofs.extra_keys_lost); inference raises on the original (np.array_equal on
   dictionaries of different sizes) and finishes on the node rebuilt from the dictionary *)
Definition flat2_args : list (string * (kind * list (string * pval))) :=
  [("input", (KInput, [("input_type", VDict [("input", VTuple [VInt 2; VInt 8])])]));
   ("fl", (KFlatten, [("input_type", VDict [("input", VTuple [VInt 2; VInt 8]); ("a", VTuple [VInt 1])]);
                      ("start_dim", VInt 0); ("end_dim", VInt (-1))]));
   ("output", (KOutput, [("output_type", VDict [("output", VTuple [VInt 16])])]))].
Definition flat2_graph : node :=
  mk_graph (map (fun p => (fst p, match construct (fst (snd p)) (snd (snd p)) with Ok n => n | Err _ => dummy end)) flat2_args)
           [("input", "fl"); ("fl", "output")] (VDict []).
Definition flat2_back : node := Eval vm_compute in match from_dict (to_dict flat2_graph) with Ok g => g | Err _ => dummy end.

Example dict_single_needed :
  built flat2_graph /\ from_dict (to_dict flat2_graph) = Ok flat2_back /\
  snd (infer_types flat2_graph) = Raised OtherError /\ snd (infer_types flat2_back) = Finished.
Proof.
  split; [|split; [|split]]; try (vm_compute; reflexivity).
  unfold flat2_graph. apply built_graph.
  - apply nodupb_NoDup. vm_compute. reflexivity.
  - apply built_children. vm_compute. reflexivity.
Qed.

Print Assumptions run_touches_only_reachable.
Print Assumptions infer_touches_only_reachable.
Print Assumptions infer_respects_grel.
Print Assumptions infer_respects_rel.
Print Assumptions read_hp_no0d.
Print Assumptions infer_commutes_with_file_gen.
Print Assumptions infer_commutes_with_file.
Print Assumptions check_types_rel.
Print Assumptions check_after_infer_file.
Print Assumptions infer_commutes_with_dict_eq.
Print Assumptions infer_commutes_with_dict.
Print Assumptions ex_infer_commutes.
Print Assumptions pool_ok_commutes.
Print Assumptions container_differs.
Print Assumptions pool_0d_needed.
Print Assumptions weight_needed.
Print Assumptions hp_read_side_needed.
Print Assumptions dict_single_needed.
