(* AliasProofs.v — freshness / independence theorems about the object-identity model Model/Alias.v.

   Every identity reachable from `to_dict g n` is newly allocated (>= n), no two positions of the dictionary
   share an object or memory, hence (for a graph whose identities are all below n) mutating the graph never
   changes the dictionary and vice versa; two dictionaries of one graph, and two reads of one file, are
   independent of each other.  Standard library only; every theorem is closed under the global context. *)
From NIR Require Import Model.Alias.
From Coq Require Import Lia Permutation.

(* ---- named equivalents of the inner fixpoints --------------------------------------------------------- *)
Fixpoint copy_list (l : list obj) (n : Z) {struct l} : list obj * Z :=
  match l with
  | [] => ([], n)
  | x :: r => let '(x', n1) := asdict_inner x n in
              let '(r', n2) := copy_list r n1 in (x' :: r', n2)
  end.

Fixpoint copy_kv (l : list (string * obj)) (n : Z) {struct l} : list (string * obj) * Z :=
  match l with
  | [] => ([], n)
  | (k, x) :: r => let '(x', n1) := asdict_inner x n in
                   let '(r', n2) := copy_kv r n1 in ((k, x') :: r', n2)
  end.

Lemma asdict_inner_tup l n :
  asdict_inner (OTup l) n = let '(l', n') := copy_list l n in (OTup l', n').
Proof. reflexivity. Qed.

Lemma asdict_inner_lst id l n :
  asdict_inner (OLst id l) n = let '(l', n') := copy_list l (n + 1) in (OLst n l', n').
Proof. reflexivity. Qed.

Lemma asdict_inner_dct id kv n :
  asdict_inner (ODct id kv) n = let '(kv', n') := copy_kv kv (n + 1) in (ODct n kv', n').
Proof. reflexivity. Qed.

Lemma asdict_inner_node id cls kv n :
  asdict_inner (ONode id cls kv) n = let '(kv', n') := copy_kv kv (n + 1) in (ODct n kv', n').
Proof. reflexivity. Qed.

Fixpoint todict_children (l : list (string * obj)) (n : Z) {struct l} : list (string * obj) * Z :=
  match l with
  | [] => ([], n)
  | (ck, c) :: cr => let '(c', n1) := to_dict c n in
                     let '(cr', n2) := todict_children cr n1 in ((ck, c') :: cr', n2)
  end.

Definition todict_field (is_graph : bool) (k : string) (v : obj) (n : Z) : obj * Z :=
  match v with
  | ODct _ ch =>
      if is_graph && String.eqb k "nodes" then
        let '(ch', n') := todict_children ch (n + 1) in (ODct n ch', n')
      else asdict_inner v n
  | _ => asdict_inner v n
  end.

Definition todict_fields (is_graph : bool) : list (string * obj) -> Z -> list (string * obj) * Z :=
  fix go (l : list (string * obj)) (n : Z) {struct l} : list (string * obj) * Z :=
  match l with
  | [] => ([], n)
  | (k, v) :: r => let '(v', n1) := todict_field is_graph k v n in
                   let '(r', n2) := go r n1 in ((k, v') :: r', n2)
  end.

Lemma todict_fields_nil g n : todict_fields g [] n = ([], n).
Proof. reflexivity. Qed.

Lemma todict_fields_cons g k v r n :
  todict_fields g ((k, v) :: r) n =
  let '(v', n1) := todict_field g k v n in
  let '(r', n2) := todict_fields g r n1 in ((k, v') :: r', n2).
Proof. reflexivity. Qed.

Lemma to_dict_node id cls fs n :
  to_dict (ONode id cls fs) n =
  let '(kv, n1) := todict_fields (String.eqb cls "NIRGraph") fs (n + 1) in
  let kv1 := filter (not_key "input_type") (filter (not_key "output_type") kv) ++ [("type", OAtom)] in
  let '(extra, n2) := class_extra cls fs n1 in
  (ODct n (kv1 ++ extra), n2).
Proof. reflexivity. Qed.

Lemma to_dict_non_node o n :
  match o with ONode _ _ _ => True | _ => to_dict o n = asdict_inner o n end.
Proof. destruct o; reflexivity || exact I. Qed.

(* ---- induction principle reaching inside the nested lists ---------------------------------------------- *)
Fixpoint obj_ind2 (P : obj -> Prop)
  (HAtom : P OAtom)
  (HArr : forall id buf tok, P (OArr id buf tok))
  (HTup : forall l, Forall P l -> P (OTup l))
  (HLst : forall id l, Forall P l -> P (OLst id l))
  (HDct : forall id kv, Forall (fun p => P (snd p)) kv -> P (ODct id kv))
  (HNode : forall id cls fs, Forall (fun p => P (snd p)) fs -> P (ONode id cls fs))
  (o : obj) {struct o} : P o :=
  let rec := obj_ind2 P HAtom HArr HTup HLst HDct HNode in
  match o with
  | OAtom => HAtom
  | OArr id buf tok => HArr id buf tok
  | OTup l =>
      HTup l ((fix go (l : list obj) : Forall P l :=
                 match l with
                 | [] => Forall_nil _
                 | x :: r => Forall_cons x (obj_ind2 P HAtom HArr HTup HLst HDct HNode x) (go r)
                 end) l)
  | OLst id l =>
      HLst id l ((fix go (l : list obj) : Forall P l :=
                    match l with
                    | [] => Forall_nil _
                    | x :: r => Forall_cons x (obj_ind2 P HAtom HArr HTup HLst HDct HNode x) (go r)
                    end) l)
  | ODct id kv =>
      HDct id kv ((fix go (l : list (string * obj)) : Forall (fun p => P (snd p)) l :=
                     match l with
                     | [] => Forall_nil _
                     | x :: r => Forall_cons x (obj_ind2 P HAtom HArr HTup HLst HDct HNode (snd x)) (go r)
                     end) kv)
  | ONode id cls fs =>
      HNode id cls fs ((fix go (l : list (string * obj)) : Forall (fun p => P (snd p)) l :=
                          match l with
                          | [] => Forall_nil _
                          | x :: r => Forall_cons x (obj_ind2 P HAtom HArr HTup HLst HDct HNode (snd x)) (go r)
                          end) fs)
  end.

(* ---- definitions ---------------------------------------------------------------------------------------- *)
Definition fresh_in (o : obj) (lo hi : Z) : Prop := Forall (fun i => lo <= i < hi) (ids o).
Definition below (o : obj) (n : Z) : Prop := Forall (fun i => i < n) (ids o).

(* identities of the values of an association list *)
Definition kids (kv : list (string * obj)) : list Z := flat_map (fun p => ids (snd p)) kv.

Definition inr (lo hi : Z) (l : list Z) : Prop := Forall (fun i => lo <= i < hi) l.

(* the allocator moved from n to n', and the identities l were all taken from [n, n'), each once *)
Definition spec3 (n n' : Z) (l : list Z) : Prop := n <= n' /\ inr n n' l /\ NoDup l.

Lemma inr_weaken lo hi lo' hi' l : lo' <= lo -> hi <= hi' -> inr lo hi l -> inr lo' hi' l.
Proof.
  intros H1 H2 H. unfold inr in *. eapply Forall_impl; [|exact H].
  cbv beta. intros a Ha. lia.
Qed.

Lemma inr_incl lo hi a b : incl a b -> inr lo hi b -> inr lo hi a.
Proof.
  intros Hi Hb. unfold inr in *. rewrite Forall_forall in *. intros x Hx. apply Hb. apply Hi. exact Hx.
Qed.

Lemma nodup_app_ranges lo mid hi a b :
  NoDup a -> NoDup b -> inr lo mid a -> inr mid hi b -> NoDup (a ++ b).
Proof.
  intros Ha Hb Ra Rb. induction a as [|x a IH]; cbn [app]; [exact Hb|].
  inversion Ha as [|x' a' Hx Ha']; subst. inversion Ra as [|x' a' Rx Ra']; subst.
  constructor; [|apply IH; assumption].
  rewrite in_app_iff. intros [Hin|Hin]; [contradiction|].
  unfold inr in Rb. rewrite Forall_forall in Rb. specialize (Rb x Hin). lia.
Qed.

Lemma spec3_nil n : spec3 n n [].
Proof. split; [lia|]. split; constructor. Qed.

Lemma spec3_seq n n1 n2 a b : spec3 n n1 a -> spec3 n1 n2 b -> spec3 n n2 (a ++ b).
Proof.
  intros (H1 & H2 & H3) (H4 & H5 & H6). split; [lia|]. split.
  - apply Forall_app. split.
    + apply (inr_weaken n n1); [lia|lia|exact H2].
    + apply (inr_weaken n1 n2); [lia|lia|exact H5].
  - apply (nodup_app_ranges n n1 n2); assumption.
Qed.

Lemma spec3_cons n n' l : spec3 (n + 1) n' l -> spec3 n n' (n :: l).
Proof.
  intros (H1 & H2 & H3). split; [lia|]. split.
  - constructor; [lia|]. apply (inr_weaken (n + 1) n'); [lia|lia|exact H2].
  - constructor; [|exact H3]. intro Hin. unfold inr in H2. rewrite Forall_forall in H2.
    specialize (H2 n Hin). lia.
Qed.

Lemma kids_app a b : kids (a ++ b) = kids a ++ kids b.
Proof. unfold kids. apply flat_map_app. Qed.

(* ---- (A1) asdict_inner allocates only fresh identities, each once --------------------------------------- *)
Definition Pas (o : obj) : Prop :=
  forall n d n', asdict_inner o n = (d, n') -> spec3 n n' (ids d).

Lemma copy_list_spec l :
  Forall Pas l -> forall n l' n', copy_list l n = (l', n') -> spec3 n n' (flat_map ids l').
Proof.
  induction 1 as [|x r Hx Hr IH]; intros n l' n' E; cbn [copy_list] in E.
  - inversion E; subst. apply spec3_nil.
  - destruct (asdict_inner x n) as [x' n1] eqn:E1.
    destruct (copy_list r n1) as [r' n2] eqn:E2. inversion E; subst.
    cbn [flat_map]. apply (spec3_seq n n1 n'); [exact (Hx _ _ _ E1)|exact (IH _ _ _ E2)].
Qed.

Lemma copy_kv_spec l :
  Forall (fun p => Pas (snd p)) l ->
  forall n l' n', copy_kv l n = (l', n') -> spec3 n n' (kids l').
Proof.
  induction 1 as [|[k x] r Hx Hr IH]; intros n l' n' E; cbn [copy_kv] in E.
  - inversion E; subst. apply spec3_nil.
  - destruct (asdict_inner x n) as [x' n1] eqn:E1.
    destruct (copy_kv r n1) as [r' n2] eqn:E2. inversion E; subst.
    unfold kids. cbn [flat_map snd]. apply (spec3_seq n n1 n'); [exact (Hx _ _ _ E1)|exact (IH _ _ _ E2)].
Qed.

Lemma asdict_spec : forall o, Pas o.
Proof.
  apply obj_ind2; unfold Pas.
  - intros n d n' E. cbn [asdict_inner] in E. inversion E; subst. cbn [ids]. apply spec3_nil.
  - intros id buf tok n d n' E. cbn [asdict_inner] in E. inversion E; subst. cbn [ids].
    apply spec3_cons. replace (n + 2) with (n + 1 + 1) by lia. apply spec3_cons. apply spec3_nil.
  - intros l Hl n d n' E. rewrite asdict_inner_tup in E.
    destruct (copy_list l n) as [l' m] eqn:E1. inversion E; subst. cbn [ids].
    exact (copy_list_spec l Hl _ _ _ E1).
  - intros id l Hl n d n' E. rewrite asdict_inner_lst in E.
    destruct (copy_list l (n + 1)) as [l' m] eqn:E1. inversion E; subst. cbn [ids].
    apply spec3_cons. exact (copy_list_spec l Hl _ _ _ E1).
  - intros id kv Hkv n d n' E. rewrite asdict_inner_dct in E.
    destruct (copy_kv kv (n + 1)) as [kv' m] eqn:E1. inversion E; subst. cbn [ids].
    apply spec3_cons. exact (copy_kv_spec kv Hkv _ _ _ E1).
  - intros id cls kv Hkv n d n' E. rewrite asdict_inner_node in E.
    destruct (copy_kv kv (n + 1)) as [kv' m] eqn:E1. inversion E; subst. cbn [ids].
    apply spec3_cons. exact (copy_kv_spec kv Hkv _ _ _ E1).
Qed.

Theorem asdict_fresh : forall o n d n',
  asdict_inner o n = (d, n') -> n <= n' /\ fresh_in d n n' /\ NoDup (ids d).
Proof. intros o n d n' E. exact (asdict_spec o n d n' E). Qed.

(* ---- (A4) a mutation of an identity that does not occur changes nothing ---------------------------------- *)
Lemma map_id_forall {A} (f : A -> A) l : Forall (fun x => f x = x) l -> map f l = l.
Proof. induction 1 as [|x r Hx Hr IH]; cbn [map]; congruence. Qed.

Lemma Forall_flat_notin {A} (f : A -> list Z) (Q : A -> Prop) p l :
  Forall (fun x => ~ In p (f x) -> Q x) l -> ~ In p (flat_map f l) -> Forall Q l.
Proof.
  induction 1 as [|x r Hx Hr IH]; intro H; constructor.
  - apply Hx. intro Hin. apply H. cbn [flat_map]. apply in_or_app. left. exact Hin.
  - apply IH. intro Hin. apply H. cbn [flat_map]. apply in_or_app. right. exact Hin.
Qed.

Lemma update_kv_notin p new (kv : list (string * obj)) :
  Forall (fun q => ~ In p (ids (snd q)) -> update p new (snd q) = snd q) kv ->
  ~ In p (flat_map (fun q => ids (snd q)) kv) ->
  map (fun q => (fst q, update p new (snd q))) kv = kv.
Proof.
  intros HF Hn. apply map_id_forall.
  pose proof (Forall_flat_notin (fun q : string * obj => ids (snd q))
                (fun q => update p new (snd q) = snd q) p kv HF Hn) as HQ.
  revert HQ. apply Forall_impl. intros q Hv. destruct q as [k v]. cbn [fst snd] in *. rewrite Hv. reflexivity.
Qed.

Theorem update_notin : forall p new o, ~ In p (ids o) -> update p new o = o.
Proof.
  intros p new. apply (obj_ind2 (fun o => ~ In p (ids o) -> update p new o = o)).
  - intros Hn. reflexivity.
  - intros id buf tok H. cbn [update]. cbn [ids] in H.
    destruct (buf =? p) eqn:E; [|reflexivity]. apply Z.eqb_eq in E. exfalso. apply H.
    right. left. exact E.
  - intros l Hl H. cbn [update]. f_equal. apply map_id_forall. cbn [ids] in H.
    exact (Forall_flat_notin ids (fun x => update p new x = x) p l Hl H).
  - intros id l Hl H. cbn [update]. cbn [ids] in H.
    destruct (id =? p) eqn:E.
    + apply Z.eqb_eq in E. exfalso. apply H. left. exact E.
    + f_equal. apply map_id_forall.
      apply (Forall_flat_notin ids (fun x => update p new x = x) p l Hl).
      intro Hin. apply H. right. exact Hin.
  - intros id kv Hkv H. cbn [update]. cbn [ids] in H.
    destruct (id =? p) eqn:E.
    + apply Z.eqb_eq in E. exfalso. apply H. left. exact E.
    + f_equal. apply update_kv_notin; [exact Hkv|]. intro Hin. apply H. right. exact Hin.
  - intros id cls kv Hkv H. cbn [update]. cbn [ids] in H.
    destruct (id =? p) eqn:E.
    + apply Z.eqb_eq in E. exfalso. apply H. left. exact E.
    + f_equal. apply update_kv_notin; [exact Hkv|]. intro Hin. apply H. right. exact Hin.
Qed.

(* ---- (A8) the allocator start used by alias_pattern is above every identity of the graph ----------------- *)
Lemma fold_max_ge l : forall a, a <= fold_left Z.max l a /\ Forall (fun i => i <= fold_left Z.max l a) l.
Proof.
  induction l as [|x r IH]; intro a; cbn [fold_left].
  - split; [lia|constructor].
  - destruct (IH (Z.max a x)) as [H1 H2]. split; [lia|]. constructor; [lia|exact H2].
Qed.

Theorem max_id_below : forall o, below o (max_id o + 1).
Proof.
  intro o. unfold below, max_id. destruct (fold_max_ge (ids o) 0) as [_ H].
  eapply Forall_impl; [|exact H]. cbv beta. intros a Ha. lia.
Qed.

(* ---- (A2) to_dict allocates only fresh identities, each once --------------------------------------------- *)
Definition Ptd (o : obj) : Prop :=
  forall n d n', to_dict o n = (d, n') -> spec3 n n' (ids d).
(* obj_ind2 reaches the direct components only; the children of a graph sit two levels down (inside the
   dictionary stored in the field `nodes`), so the induction carries the statement for them as well *)
Definition Pch (o : obj) : Prop :=
  match o with ODct _ ch => Forall (fun q => Ptd (snd q)) ch | _ => True end.

Lemma todict_children_spec l :
  Forall (fun p => Ptd (snd p)) l ->
  forall n l' n', todict_children l n = (l', n') -> spec3 n n' (kids l').
Proof.
  induction 1 as [|[k x] r Hx Hr IH]; intros n l' n' E; cbn [todict_children] in E.
  - inversion E; subst. apply spec3_nil.
  - destruct (to_dict x n) as [x' n1] eqn:E1.
    destruct (todict_children r n1) as [r' n2] eqn:E2. inversion E; subst.
    unfold kids. cbn [flat_map snd]. apply (spec3_seq n n1 n'); [exact (Hx _ _ _ E1)|exact (IH _ _ _ E2)].
Qed.

Lemma todict_field_spec g k v :
  Pch v -> forall n d n', todict_field g k v n = (d, n') -> spec3 n n' (ids d).
Proof.
  intros Hv n d n' E.
  destruct v as [|id buf tok|l|id l|id ch|id cls fs]; cbn [todict_field] in E;
    try exact (asdict_spec _ _ _ _ E).
  destruct (g && String.eqb k "nodes") eqn:Eg; [|exact (asdict_spec _ _ _ _ E)].
  destruct (todict_children ch (n + 1)) as [ch' m] eqn:E1. inversion E; subst. cbn [ids].
  apply spec3_cons. exact (todict_children_spec ch Hv _ _ _ E1).
Qed.

Lemma todict_fields_spec g l :
  Forall (fun p => Pch (snd p)) l ->
  forall n l' n', todict_fields g l n = (l', n') -> spec3 n n' (kids l').
Proof.
  induction 1 as [|[k x] r Hx Hr IH]; intros n l' n' E.
  - rewrite todict_fields_nil in E. inversion E; subst. apply spec3_nil.
  - rewrite todict_fields_cons in E.
    destruct (todict_field g k x n) as [x' n1] eqn:E1.
    destruct (todict_fields g r n1) as [r' n2] eqn:E2. inversion E; subst.
    unfold kids. cbn [flat_map snd].
    apply (spec3_seq n n1 n'); [exact (todict_field_spec g k x Hx _ _ _ E1)|exact (IH _ _ _ E2)].
Qed.

(* deleting entries keeps freshness and uniqueness *)
Lemma kids_filter_incl f kv : incl (kids (filter f kv)) (kids kv).
Proof.
  unfold kids. intros i Hi. apply in_flat_map in Hi. destruct Hi as (q & Hq & Hi).
  apply filter_In in Hq. destruct Hq as [Hq _]. apply in_flat_map. exists q. split; assumption.
Qed.

Lemma nodup_app_incl (a b b' : list Z) : NoDup (a ++ b) -> incl b' b -> NoDup b' -> NoDup (a ++ b').
Proof.
  intros H Hi Hb. induction a as [|x a IH]; cbn [app] in *; [exact Hb|].
  inversion H as [|x' l' Hx Hl]; subst. constructor; [|exact (IH Hl)].
  intro Hin. apply Hx. apply in_app_or in Hin. apply in_or_app.
  destruct Hin as [Hin|Hin]; [left; exact Hin|right; apply Hi; exact Hin].
Qed.

Lemma nodup_app_r (a b : list Z) : NoDup (a ++ b) -> NoDup b.
Proof.
  induction a as [|x a IH]; cbn [app]; intro H; [exact H|].
  inversion H as [|x' l' Hx Hl]; subst. exact (IH Hl).
Qed.

Lemma nodup_kids_filter f kv : NoDup (kids kv) -> NoDup (kids (filter f kv)).
Proof.
  induction kv as [|q r IH]; intro H; [exact H|].
  unfold kids in H. cbn [flat_map] in H. fold (kids r) in H.
  pose proof (nodup_app_r _ _ H) as Hr.
  cbn [filter]. destruct (f q).
  - unfold kids. cbn [flat_map]. fold (kids (filter f r)).
    apply (nodup_app_incl _ (kids r)); [exact H|apply kids_filter_incl|exact (IH Hr)].
  - exact (IH Hr).
Qed.

Lemma spec3_filter f n n' kv : spec3 n n' (kids kv) -> spec3 n n' (kids (filter f kv)).
Proof.
  intros (H1 & H2 & H3). split; [exact H1|]. split.
  - exact (inr_incl _ _ _ _ (kids_filter_incl f kv) H2).
  - exact (nodup_kids_filter f kv H3).
Qed.

Lemma add_spec (key : string) (src : option obj) n e n' :
  match src with
  | Some v => let '(v', m) := deepcopy v n in ([(key, v')], m)
  | None => ([], n)
  end = (e, n') -> spec3 n n' (kids e).
Proof.
  intro E. destruct src as [v|].
  - unfold deepcopy in E. destruct (asdict_inner v n) as [v' m] eqn:E1. inversion E; subst.
    unfold kids. cbn [flat_map snd]. rewrite app_nil_r. exact (asdict_spec _ _ _ _ E1).
  - inversion E; subst. apply spec3_nil.
Qed.

Lemma class_extra_spec cls fs n e n' : class_extra cls fs n = (e, n') -> spec3 n n' (kids e).
Proof.
  unfold class_extra. intro E.
  destruct (String.eqb cls "Input"); [exact (add_spec _ _ _ _ _ E)|].
  destruct (String.eqb cls "Output"); [exact (add_spec _ _ _ _ _ E)|].
  destruct (String.eqb cls "Flatten"); [exact (add_spec _ _ _ _ _ E)|].
  inversion E; subst. apply spec3_nil.
Qed.

Lemma to_dict_spec : forall o, Ptd o /\ Pch o.
Proof.
  apply (obj_ind2 (fun o => Ptd o /\ Pch o)).
  - split; [|exact I]. intros n d n' E. exact (asdict_spec OAtom _ _ _ E).
  - intros id buf tok. split; [|exact I]. intros n d n' E. exact (asdict_spec (OArr id buf tok) _ _ _ E).
  - intros l _. split; [|exact I]. intros n d n' E. exact (asdict_spec (OTup l) _ _ _ E).
  - intros id l _. split; [|exact I]. intros n d n' E. exact (asdict_spec (OLst id l) _ _ _ E).
  - intros id kv Hkv. split.
    + intros n d n' E. exact (asdict_spec (ODct id kv) _ _ _ E).
    + cbn [Pch]. revert Hkv. apply Forall_impl. intros q [Hq _]. exact Hq.
  - intros id cls fs Hfs. split; [|exact I]. intros n d n' E.
    rewrite to_dict_node in E.
    destruct (todict_fields (String.eqb cls "NIRGraph") fs (n + 1)) as [kv n1] eqn:E1.
    cbv zeta in E.
    destruct (class_extra cls fs n1) as [extra n2] eqn:E2. inversion E; subst.
    cbn [ids]. apply spec3_cons.
    change (spec3 (n + 1) n'
              (kids ((filter (not_key "input_type") (filter (not_key "output_type") kv)
                      ++ [("type", OAtom)]) ++ extra))).
    rewrite kids_app. apply (spec3_seq (n + 1) n1 n'); [|exact (class_extra_spec _ _ _ _ _ E2)].
    rewrite kids_app. change (kids [("type", OAtom)]) with (@nil Z). rewrite app_nil_r.
    apply spec3_filter. apply spec3_filter.
    apply (todict_fields_spec (String.eqb cls "NIRGraph") fs); [|exact E1].
    revert Hfs. apply Forall_impl. intros q [_ Hq]. exact Hq.
Qed.

Theorem to_dict_fresh : forall o n d n',
  to_dict o n = (d, n') -> n <= n' /\ fresh_in d n n' /\ NoDup (ids d).
Proof. intros o n d n' E. exact (proj1 (to_dict_spec o) n d n' E). Qed.

(* ---- (A3) the dictionary shares no identity with a graph living below the allocator ---------------------- *)
Lemma fresh_below_disjoint g d n n' :
  below g n -> fresh_in d n n' -> forall i, In i (ids g) -> ~ In i (ids d).
Proof.
  intros Hg Hd i Hi Hi'. unfold below in Hg. unfold fresh_in in Hd. rewrite Forall_forall in Hg, Hd.
  specialize (Hg i Hi). specialize (Hd i Hi'). lia.
Qed.

Theorem to_dict_disjoint : forall g n d n',
  below g n -> to_dict g n = (d, n') -> forall i, In i (ids g) -> ~ In i (ids d).
Proof.
  intros g n d n' Hg E. destruct (to_dict_fresh g n d n' E) as (_ & Hd & _).
  exact (fresh_below_disjoint g d n n' Hg Hd).
Qed.

(* ---- (A5) changing either afterwards never changes the other -------------------------------------------- *)
Theorem dict_unaffected_by_graph_mutation : forall g n d n' p new,
  below g n -> to_dict g n = (d, n') -> In p (ids g) -> update p new d = d.
Proof.
  intros g n d n' p new Hg E Hp. apply update_notin. exact (to_dict_disjoint g n d n' Hg E p Hp).
Qed.

Theorem graph_unaffected_by_dict_mutation : forall g n d n' p new,
  below g n -> to_dict g n = (d, n') -> In p (ids d) -> update p new g = g.
Proof.
  intros g n d n' p new Hg E Hp. apply update_notin. intro Hin.
  exact (to_dict_disjoint g n d n' Hg E p Hin Hp).
Qed.

(* ---- (A6) two dictionaries of one graph are independent of each other ------------------------------------ *)
Lemma fresh_fresh_disjoint a b n n1 n2 :
  fresh_in a n n1 -> fresh_in b n1 n2 -> forall i, In i (ids a) -> ~ In i (ids b).
Proof.
  intros Ha Hb i Hi Hi'. unfold fresh_in in *. rewrite Forall_forall in Ha, Hb.
  specialize (Ha i Hi). specialize (Hb i Hi'). lia.
Qed.

Theorem two_dicts_independent : forall g n d1 n1 d2 n2,
  to_dict g n = (d1, n1) -> to_dict g n1 = (d2, n2) ->
  (forall p new, In p (ids d1) -> update p new d2 = d2) /\
  (forall p new, In p (ids d2) -> update p new d1 = d1).
Proof.
  intros g n d1 n1 d2 n2 E1 E2.
  destruct (to_dict_fresh g n d1 n1 E1) as (_ & H1 & _).
  destruct (to_dict_fresh g n1 d2 n2 E2) as (_ & H2 & _).
  split; intros p new Hp; apply update_notin.
  - exact (fresh_fresh_disjoint d1 d2 n n1 n2 H1 H2 p Hp).
  - intro Hin. exact (fresh_fresh_disjoint d1 d2 n n1 n2 H1 H2 p Hin Hp).
Qed.

(* the same for two materialisations of one skeleton (the earlier model of two reads; `materialise` is still
   defined in Alias.v) *)
Theorem materialise_independent : forall s n a n1 b n2,
  materialise s n = (a, n1) -> materialise s n1 = (b, n2) ->
  (forall p new, In p (ids a) -> update p new b = b) /\
  (forall p new, In p (ids b) -> update p new a = a).
Proof.
  intros s n a n1 b n2 E1 E2. unfold materialise in *.
  destruct (asdict_fresh s n a n1 E1) as (_ & H1 & _).
  destruct (asdict_fresh s n1 b n2 E2) as (_ & H2 & _).
  split; intros p new Hp; apply update_notin.
  - exact (fresh_fresh_disjoint a b n n1 n2 H1 H2 p Hp).
  - intro Hin. exact (fresh_fresh_disjoint a b n n1 n2 H1 H2 p Hin Hp).
Qed.

(* ---- (A7') two reads: the second result is the first one shifted above every identity of the first ------- *)
Lemma flat_map_map {A B C} (f : B -> list C) (g : A -> B) l :
  flat_map f (map g l) = flat_map (fun x => f (g x)) l.
Proof. induction l as [|x r IH]; cbn [map flat_map]; [reflexivity|]. rewrite IH. reflexivity. Qed.

Lemma flat_map_ext_forall {A B} (f g : A -> list B) l :
  Forall (fun x => f x = g x) l -> flat_map f l = flat_map g l.
Proof. induction 1 as [|x r Hx Hr IH]; cbn [flat_map]; [reflexivity|]. rewrite Hx, IH. reflexivity. Qed.

Lemma map_flat_map {A B C} (h : B -> C) (f : A -> list B) l :
  map h (flat_map f l) = flat_map (fun x => map h (f x)) l.
Proof.
  induction l as [|x r IH]; cbn [map flat_map]; [reflexivity|]. rewrite map_app, IH. reflexivity.
Qed.

Theorem ids_shift : forall k o, ids (shift k o) = map (fun i => i + k) (ids o).
Proof.
  intro k. apply (obj_ind2 (fun o => ids (shift k o) = map (fun i => i + k) (ids o))).
  - reflexivity.
  - intros id buf tok. reflexivity.
  - intros l Hl. cbn [shift ids]. rewrite flat_map_map, map_flat_map.
    apply flat_map_ext_forall. exact Hl.
  - intros id l Hl. cbn [shift ids map]. f_equal. rewrite flat_map_map, map_flat_map.
    apply flat_map_ext_forall. exact Hl.
  - intros id kv Hkv. cbn [shift ids map]. f_equal. rewrite flat_map_map, map_flat_map.
    apply flat_map_ext_forall. exact Hkv.
  - intros id cls kv Hkv. cbn [shift ids map]. f_equal. rewrite flat_map_map, map_flat_map.
    apply flat_map_ext_forall. exact Hkv.
Qed.

Theorem ids_le_max : forall o i, In i (ids o) -> i <= max_id o.
Proof.
  intros o i Hi. unfold max_id. destruct (fold_max_ge (ids o) 0) as [_ H].
  rewrite Forall_forall in H. exact (H i Hi).
Qed.

Lemma max_id_nonneg o : 0 <= max_id o.
Proof. unfold max_id. exact (proj1 (fold_max_ge (ids o) 0)). Qed.

(* The hypothesis 0 <= i is needed: with a negative identity the shifted copy can land on an identity of the
   first result (see reads_counterexample below). *)
Theorem reads_independent : forall a, (forall i, In i (ids a) -> 0 <= i) ->
  (forall p new, In p (ids a) -> update p new (second_read a) = second_read a) /\
  (forall p new, In p (ids (second_read a)) -> update p new a = a).
Proof.
  intros a Hpos.
  assert (Hdis : forall p, In p (ids a) -> ~ In p (ids (second_read a))).
  { intros p Hp Hin. unfold second_read in Hin. rewrite ids_shift in Hin.
    apply in_map_iff in Hin. destruct Hin as (j & Hj & Hjin).
    pose proof (ids_le_max a p Hp) as H1. pose proof (Hpos j Hjin) as H2. lia. }
  split; intros p new Hp; apply update_notin.
  - exact (Hdis p Hp).
  - intro Hin. exact (Hdis p Hin Hp).
Qed.

(* without 0 <= i the statement is false: identities -1 and 0, shifted by max_id + 1 = 1, give 0 and 1 *)
Example reads_counterexample :
  let a := OLst (-1) [OLst 0 []] in
  In 0 (ids a) /\ update 0 OAtom (second_read a) <> second_read a.
Proof. split; [right; left; reflexivity|]. vm_compute. discriminate. Qed.

(* ---- (A9) the sorted walk visits the same identities ----------------------------------------------------- *)
Lemma insert_kv_perm p l : Permutation (insert_kv p l) (p :: l).
Proof.
  induction l as [|q r IH]; cbn [insert_kv]; [apply Permutation_refl|].
  destruct (String.leb (fst p) (fst q)); [apply Permutation_refl|].
  apply (perm_trans (l' := q :: p :: r)); [apply perm_skip; exact IH|apply perm_swap].
Qed.

Lemma sort_kv_perm l : Permutation (sort_kv l) l.
Proof.
  induction l as [|q r IH]; [apply Permutation_refl|].
  unfold sort_kv. cbn [fold_right]. fold (sort_kv r).
  apply (perm_trans (l' := q :: sort_kv r)); [apply insert_kv_perm|apply perm_skip; exact IH].
Qed.

Lemma perm_flat_map {A B} (f : A -> list B) l l' :
  Permutation l l' -> Permutation (flat_map f l) (flat_map f l').
Proof.
  induction 1 as [|x l l' H IH|x y l|l l' l'' H1 IH1 H2 IH2]; cbn [flat_map].
  - apply Permutation_refl.
  - apply Permutation_app_head. exact IH.
  - rewrite !app_assoc. apply Permutation_app_tail. apply Permutation_app_comm.
  - exact (perm_trans IH1 IH2).
Qed.

Lemma flat_map_perm_forall {A B} (f g : A -> list B) l :
  Forall (fun x => Permutation (f x) (g x)) l -> Permutation (flat_map f l) (flat_map g l).
Proof.
  induction 1 as [|x r Hx Hr IH]; cbn [flat_map]; [apply Permutation_refl|].
  apply Permutation_app; assumption.
Qed.

Theorem ids_sorted_perm : forall o, Permutation (ids_sorted o) (ids o).
Proof.
  apply (obj_ind2 (fun o => Permutation (ids_sorted o) (ids o))).
  - apply Permutation_refl.
  - intros id buf tok. apply Permutation_refl.
  - intros l Hl. cbn [ids_sorted ids]. apply flat_map_perm_forall. exact Hl.
  - intros id l Hl. cbn [ids_sorted ids]. apply perm_skip. apply flat_map_perm_forall. exact Hl.
  - intros id kv Hkv. cbn [ids_sorted ids]. apply perm_skip.
    apply (perm_trans (l' := flat_map snd (map (fun p : string * obj => (fst p, ids_sorted (snd p))) kv))).
    + apply perm_flat_map. apply sort_kv_perm.
    + rewrite flat_map_map. cbn [snd].
      apply (flat_map_perm_forall (fun p : string * obj => ids_sorted (snd p)) (fun p => ids (snd p))).
      exact Hkv.
  - intros id cls kv Hkv. cbn [ids_sorted ids]. apply perm_skip.
    apply (flat_map_perm_forall (fun p : string * obj => ids_sorted (snd p)) (fun p => ids (snd p))).
    exact Hkv.
Qed.

(* ---- (A10) asdict_inner preserves the content ------------------------------------------------------------- *)
Fixpoint toks (o : obj) : list Z :=
  match o with
  | OAtom => []
  | OArr _ _ tok => [tok]
  | OTup l => flat_map toks l
  | OLst _ l => flat_map toks l
  | ODct _ kv => flat_map (fun p => toks (snd p)) kv
  | ONode _ _ fs => flat_map (fun p => toks (snd p)) fs
  end.

Definition ktoks (kv : list (string * obj)) : list Z := flat_map (fun p => toks (snd p)) kv.

Lemma copy_list_toks l :
  Forall (fun o => forall n, toks (fst (asdict_inner o n)) = toks o) l ->
  forall n, flat_map toks (fst (copy_list l n)) = flat_map toks l.
Proof.
  induction 1 as [|x r Hx Hr IH]; intro n; cbn [copy_list]; [reflexivity|].
  specialize (Hx n). destruct (asdict_inner x n) as [x' n1] eqn:E1.
  specialize (IH n1). destruct (copy_list r n1) as [r' n2] eqn:E2.
  cbn [fst flat_map] in *. rewrite Hx, IH. reflexivity.
Qed.

Lemma copy_kv_toks l :
  Forall (fun p => forall n, toks (fst (asdict_inner (snd p) n)) = toks (snd p)) l ->
  forall n, ktoks (fst (copy_kv l n)) = ktoks l.
Proof.
  induction 1 as [|[k x] r Hx Hr IH]; intro n; cbn [copy_kv]; [reflexivity|].
  cbn [snd] in Hx. specialize (Hx n). destruct (asdict_inner x n) as [x' n1] eqn:E1.
  specialize (IH n1). destruct (copy_kv r n1) as [r' n2] eqn:E2.
  unfold ktoks in *. cbn [fst snd flat_map] in *. rewrite Hx, IH. reflexivity.
Qed.

Theorem asdict_toks : forall o n, toks (fst (asdict_inner o n)) = toks o.
Proof.
  apply (obj_ind2 (fun o => forall n, toks (fst (asdict_inner o n)) = toks o)).
  - intro n. reflexivity.
  - intros id buf tok n. reflexivity.
  - intros l Hl n. rewrite asdict_inner_tup. pose proof (copy_list_toks l Hl n) as H.
    destruct (copy_list l n) as [l' m]. cbn [fst toks] in *. exact H.
  - intros id l Hl n. rewrite asdict_inner_lst. pose proof (copy_list_toks l Hl (n + 1)) as H.
    destruct (copy_list l (n + 1)) as [l' m]. cbn [fst toks] in *. exact H.
  - intros id kv Hkv n. rewrite asdict_inner_dct. pose proof (copy_kv_toks kv Hkv (n + 1)) as H.
    destruct (copy_kv kv (n + 1)) as [kv' m]. cbn [fst toks] in *. exact H.
  - intros id cls kv Hkv n. rewrite asdict_inner_node. pose proof (copy_kv_toks kv Hkv (n + 1)) as H.
    destruct (copy_kv kv (n + 1)) as [kv' m]. cbn [fst toks] in *. exact H.
Qed.

(* ---- examples ------------------------------------------------------------------------------------------------ *)
Definition below_b (o : obj) (n : Z) : bool := forallb (fun i => i <? n) (ids o).

Lemma below_b_ok o n : below_b o n = true -> below o n.
Proof.
  unfold below_b, below. intro H. apply Forall_forall. intros i Hi.
  rewrite forallb_forall in H. specialize (H i Hi). apply Z.ltb_lt. exact H.
Qed.

Fixpoint nodup_b (l : list Z) : bool :=
  match l with
  | [] => true
  | x :: r => negb (existsb (Z.eqb x) r) && nodup_b r
  end.

Lemma nodup_b_ok l : nodup_b l = true -> NoDup l.
Proof.
  induction l as [|x r IH]; cbn [nodup_b]; intro H; [constructor|].
  apply andb_prop in H. destruct H as [H1 H2]. constructor; [|exact (IH H2)].
  intro Hin. apply negb_true_iff in H1.
  assert (Hex : existsb (Z.eqb x) r = true).
  { apply existsb_exists. exists x. split; [exact Hin|apply Z.eqb_refl]. }
  rewrite Hex in H1. discriminate.
Qed.

Definition disjoint_b (a b : list Z) : bool := forallb (fun i => negb (existsb (Z.eqb i) b)) a.

(* a graph with two children; in child "a" one array sits under two fields (same id, same memory) and a view of
   it under a third (other id, same memory); the metadata dictionary holds a list with an array; child "in" is an
   Input node whose two type dictionaries hold one and the same array *)
Definition ex_g : obj :=
  ONode 1 "NIRGraph"
    [("nodes", ODct 2
        [("a", ONode 3 "Linear"
                 [("weight", OArr 4 5 100); ("weight2", OArr 4 5 100); ("view", OArr 6 5 100);
                  ("input_type", ODct 7 [("input", OArr 8 9 7)]);
                  ("output_type", ODct 10 [("output", OArr 11 12 7)]);
                  ("metadata", ODct 13 [("tags", OLst 14 [OAtom; OArr 15 16 3])])]);
         ("in", ONode 17 "Input"
                  [("input_type", ODct 18 [("input", OArr 19 20 5)]);
                   ("output_type", ODct 21 [("output", OArr 19 20 5)]);
                   ("metadata", ODct 22 [])])]);
     ("edges", OLst 23 [OTup [OAtom; OAtom]]);
     ("input_type", ODct 24 [("in", OArr 19 20 5)]);
     ("output_type", ODct 25 []);
     ("metadata", ODct 26 [("l", OLst 27 [OAtom])])].

Example ex_g_has_sharing : nodup_b (ids ex_g) = false.
Proof. vm_compute. reflexivity. Qed.

Example ex_g_below : below ex_g 100.
Proof. apply below_b_ok. vm_compute. reflexivity. Qed.

Example ex_dict :
  to_dict ex_g 100 =
  (ODct 100
     [("nodes", ODct 101
         [("a", ODct 102
                  [("weight", OArr 103 104 100); ("weight2", OArr 105 106 100); ("view", OArr 107 108 100);
                   ("metadata", ODct 115 [("tags", OLst 116 [OAtom; OArr 117 118 3])]);
                   ("type", OAtom)]);
          ("in", ODct 119
                   [("metadata", ODct 126 []); ("type", OAtom); ("shape", OArr 127 128 5)])]);
      ("edges", OLst 129 [OTup [OAtom; OAtom]]);
      ("metadata", ODct 134 [("l", OLst 135 [OAtom])]);
      ("type", OAtom)], 136).
Proof. vm_compute. reflexivity. Qed.

Example ex_dict_nodup : nodup_b (ids (fst (to_dict ex_g 100))) = true.
Proof. vm_compute. reflexivity. Qed.

Example ex_dict_nodup_prop : NoDup (ids (fst (to_dict ex_g 100))).
Proof. apply nodup_b_ok. vm_compute. reflexivity. Qed.

Example ex_disjoint_b : disjoint_b (ids ex_g) (ids (fst (to_dict ex_g 100))) = true.
Proof. vm_compute. reflexivity. Qed.

(* the statement of A3 instantiated *)
Example ex_disjoint : forall i, In i (ids ex_g) -> ~ In i (ids (fst (to_dict ex_g 100))).
Proof.
  apply (to_dict_disjoint ex_g 100 (fst (to_dict ex_g 100)) (snd (to_dict ex_g 100)) ex_g_below).
  destruct (to_dict ex_g 100) as [d m]. reflexivity.
Qed.

(* the allocator start used by alias_pattern *)
Example ex_g_below_max : below ex_g (max_id ex_g + 1).
Proof. apply max_id_below. Qed.

Print Assumptions asdict_fresh.
Print Assumptions to_dict_fresh.
Print Assumptions to_dict_disjoint.
Print Assumptions update_notin.
Print Assumptions dict_unaffected_by_graph_mutation.
Print Assumptions graph_unaffected_by_dict_mutation.
Print Assumptions two_dicts_independent.
Print Assumptions reads_independent.
Print Assumptions max_id_below.
Print Assumptions ids_shift.
Print Assumptions ids_le_max.
Print Assumptions materialise_independent.
Print Assumptions ids_sorted_perm.
Print Assumptions asdict_toks.
Print Assumptions ex_disjoint.
