(* LifLoopProofs.v — the generic recording-interval-independence theorems of EventLoopRProofs.v (event loop over R,
   Gen/EventLoopR.v) INSTANTIATED with the translated LIF neuron (Gen/LifFormulas.v: advance, next_spike, reset,
   generated from the Python source).  Neuron state = the membrane voltage (a real number), volt = identity.

   Laws:  L0 = LifProofs.advance_zero, L1 = LifProofs.advance_semigroup (neither has a side condition: they hold for
   every tau, even tau = 0, because x / 0 is a total function in Coq's reals), L2 = lif_next_nonneg below
   (next_spike returns Some t only under a test t >= 0; proved by destructing EVERY decision of the translated term,
   whatever their nesting).  Consequently `0 < tau` is NOT needed: lif_*_any_tau are the theorems without it, and
   lif_spikes_independent_of_record_dt / lif_voltages_independent_of_record_dt carry `0 < tau` only to have the
   shape of the property as documented. *)
From Coq Require Import Reals List Lia Lra Bool.
From NIR Require Import Gen.LifFormulas Gen.EventLoopR Proofs.LifProofs Proofs.EventLoopRProofs.
Import ListNotations.
Open Scope R_scope.

Definition lif_advance (tau r v_leak thr : R) (v i dt : R) : R := LifFormulas.advance tau r v_leak thr v i dt.
Definition lif_next (tau r v_leak thr : R) (v i : R) : option R := LifFormulas.next_spike tau r v_leak thr v i.
Definition lif_reset (tau r v_leak thr : R) (v : R) : R := LifFormulas.reset tau r v_leak thr v.

Definition lif_simulate (tau r v_leak thr : R) (fuel : nat) (v0 : R) (times amps : list R) (record_dt duration : R)
  : option (list (R * R) * list R) :=
  EventLoopR.simulate R (lif_advance tau r v_leak thr) (lif_next tau r v_leak thr) (lif_reset tau r v_leak thr)
                      (fun v => v) fuel v0 times amps record_dt duration.

(* ---------- the three laws ---------------------------------------------------------------------------------- *)
Lemma lif_L0 tau r v_leak thr v i : lif_advance tau r v_leak thr v i 0 = v.
Proof. unfold lif_advance. apply advance_zero. Qed.

Lemma lif_L1 tau r v_leak thr v i a b :
  0 <= a -> 0 <= b ->
  lif_advance tau r v_leak thr (lif_advance tau r v_leak thr v i a) i b = lif_advance tau r v_leak thr v i (a + b).
Proof. intros _ _. unfold lif_advance. apply advance_semigroup. Qed.

(* destruct every sumbool decision `if c then _ else _` occurring in hypothesis H, innermost or not, in any order *)
Ltac destruct_decisions H :=
  repeat (match type of H with
          | context [if ?c then _ else _] =>
            lazymatch type of c with
            | sumbool _ _ => destruct c
            end
          end; cbv beta iota in H; cbn [negb andb orb] in H).

(* L2: a predicted spike delay is never negative.  The script does not look at the structure of the translated term:
   all decisions are destructed; in every branch either no time is returned (discriminate) or the returned time is
   guarded by a decision that makes it non-negative (lra). *)
Lemma lif_next_nonneg tau r v_leak thr v i t : lif_next tau r v_leak thr v i = Some t -> 0 <= t.
Proof.
  unfold lif_next, LifFormulas.next_spike. intros H. cbv beta zeta in H.
  destruct_decisions H; try discriminate H; injection H as <-; lra.
Qed.

(* ---------- the theorems, without any hypothesis on tau ----------------------------------------------------- *)
Theorem lif_spikes_independent_of_record_dt_any_tau :
  forall tau r v_leak thr v0 times amps,
    (forall a, nth_error times 0 = Some a -> 0 <= a) ->
    (forall i a b, nth_error times i = Some a -> nth_error times (S i) = Some b -> a <= b) ->
    forall fuel1 fuel2 r1 r2 d volts1 spikes1 volts2 spikes2,
    0 < r1 -> 0 < r2 ->
    lif_simulate tau r v_leak thr fuel1 v0 times amps r1 d = Some (volts1, spikes1) ->
    lif_simulate tau r v_leak thr fuel2 v0 times amps r2 d = Some (volts2, spikes2) ->
    filter (fun t => Rle_bool t d) spikes1 = filter (fun t => Rle_bool t d) spikes2.
Proof.
  intros tau r v_leak thr v0 times amps H0 Hs fuel1 fuel2 r1 r2 d volts1 spikes1 volts2 spikes2 Hr1 Hr2 H1 H2.
  unfold lif_simulate in H1, H2.
  exact (C20R_spikes R (lif_advance tau r v_leak thr) (lif_next tau r v_leak thr) (lif_reset tau r v_leak thr)
           (fun v => v) (lif_L0 tau r v_leak thr) (lif_L1 tau r v_leak thr) (lif_next_nonneg tau r v_leak thr)
           v0 times amps H0 Hs _ _ _ _ _ _ _ _ _ Hr1 Hr2 H1 H2).
Qed.

Theorem lif_voltages_independent_of_record_dt_any_tau :
  forall tau r v_leak thr v0 times amps,
    (forall a, nth_error times 0 = Some a -> 0 <= a) ->
    (forall i a b, nth_error times i = Some a -> nth_error times (S i) = Some b -> a <= b) ->
    forall fuel1 fuel2 r1 r2 d volts1 spikes1 volts2 spikes2 tau1 x1 tau2 x2,
    0 < r1 -> 0 < r2 ->
    lif_simulate tau r v_leak thr fuel1 v0 times amps r1 d = Some (volts1, spikes1) ->
    lif_simulate tau r v_leak thr fuel2 v0 times amps r2 d = Some (volts2, spikes2) ->
    In (tau1, x1) volts1 -> In (tau2, x2) volts2 -> tau1 = tau2 -> x1 = x2.
Proof.
  intros tau r v_leak thr v0 times amps H0 Hs fuel1 fuel2 r1 r2 d volts1 spikes1 volts2 spikes2 tau1 x1 tau2 x2
         Hr1 Hr2 H1 H2 I1 I2 He.
  unfold lif_simulate in H1, H2.
  exact (C20R_volts R (lif_advance tau r v_leak thr) (lif_next tau r v_leak thr) (lif_reset tau r v_leak thr)
           (fun v => v) (lif_L0 tau r v_leak thr) (lif_L1 tau r v_leak thr) (lif_next_nonneg tau r v_leak thr)
           v0 times amps H0 Hs _ _ _ _ _ _ _ _ _ _ _ _ _ Hr1 Hr2 H1 H2 I1 I2 He).
Qed.

(* ---------- the theorems in the documented shape (0 < tau is carried, not used) ------------------------------- *)
Theorem lif_spikes_independent_of_record_dt :
  forall tau r v_leak thr, 0 < tau -> forall v0 times amps,
    (forall a, nth_error times 0 = Some a -> 0 <= a) ->
    (forall i a b, nth_error times i = Some a -> nth_error times (S i) = Some b -> a <= b) ->
    forall fuel1 fuel2 r1 r2 d volts1 spikes1 volts2 spikes2,
    0 < r1 -> 0 < r2 ->
    lif_simulate tau r v_leak thr fuel1 v0 times amps r1 d = Some (volts1, spikes1) ->
    lif_simulate tau r v_leak thr fuel2 v0 times amps r2 d = Some (volts2, spikes2) ->
    filter (fun t => Rle_bool t d) spikes1 = filter (fun t => Rle_bool t d) spikes2.
Proof.
  intros tau r v_leak thr _ v0 times amps. apply lif_spikes_independent_of_record_dt_any_tau.
Qed.

Theorem lif_voltages_independent_of_record_dt :
  forall tau r v_leak thr, 0 < tau -> forall v0 times amps,
    (forall a, nth_error times 0 = Some a -> 0 <= a) ->
    (forall i a b, nth_error times i = Some a -> nth_error times (S i) = Some b -> a <= b) ->
    forall fuel1 fuel2 r1 r2 d volts1 spikes1 volts2 spikes2 tau1 x1 tau2 x2,
    0 < r1 -> 0 < r2 ->
    lif_simulate tau r v_leak thr fuel1 v0 times amps r1 d = Some (volts1, spikes1) ->
    lif_simulate tau r v_leak thr fuel2 v0 times amps r2 d = Some (volts2, spikes2) ->
    In (tau1, x1) volts1 -> In (tau2, x2) volts2 -> tau1 = tau2 -> x1 = x2.
Proof.
  intros tau r v_leak thr _ v0 times amps. apply lif_voltages_independent_of_record_dt_any_tau.
Qed.

(* ---------- non-vacuity: runs of lif_simulate that provably return Some _ --------------------------------------
   (exp and ln are not computable, so the runs are symbolic: the loop is unfolded event by event)
     lif_run_rest          neuron at rest (v0 = v_leak, input 0): for every 0 <= d < record_dt the run is
                           Some ([(record_dt, v_leak)], []) — so two runs with different intervals are both defined;
     lif_run_spike         v0 < thr < v_leak + r a, 0 < tau, duration 0: the run is defined; the spike predicted at
                           t > 0 is recorded iff it comes before the first record;
     lif_run_spike_within  same neuron with 0 < thr, duration = the first spike time t, any record_dt > t: the run
                           is defined and its spikes <= duration are exactly [t] (a NON-EMPTY filtered list: for two
                           such intervals lif_spikes_independent_of_record_dt relates two non-trivial runs). *)
Lemma Rle_bool_true x y : x <= y -> Rle_bool x y = true.
Proof. apply Rle_bool_iff. Qed.
Lemma Rle_bool_false' x y : y < x -> Rle_bool x y = false.
Proof. apply Rle_bool_false. Qed.

Ltac destruct_goal_decisions :=
  repeat (match goal with
          | |- context [if ?c then _ else _] =>
            lazymatch type of c with
            | sumbool _ _ => destruct c
            end
          end; cbv beta iota; cbn [negb andb orb]).

Lemma lif_rest_advance tau r vl thr dt : lif_advance tau r vl thr vl 0 dt = vl.
Proof. unfold lif_advance. rewrite advance_canonical. ring. Qed.

Lemma lif_rest_next tau r vl thr : lif_next tau r vl thr vl 0 = None.
Proof.
  unfold lif_next, LifFormulas.next_spike. cbv beta zeta.
  destruct_goal_decisions; try reflexivity; exfalso;
    match goal with n : _ <> _ |- _ => apply n; ring end.
Qed.

Ltac lproj := cbn [l_time l_idx l_amp l_spike l_record l_input l_neuron l_volts l_spikes tle tadd andb time_at nth_error nth].

Lemma lif_run_rest tau r vl thr rd d : 0 <= d -> d < rd ->
  lif_simulate tau r vl thr 3 vl [0] [0] rd d = Some ([(rd, vl)], []).
Proof.
  intros Hd Hrd. unfold lif_simulate, EventLoopR.simulate.
  assert (E1 : step R (lif_advance tau r vl thr) (lif_next tau r vl thr) (lif_reset tau r vl thr) (fun v => v) [0] [0] rd (init R vl [0] rd) =
     {| l_time := 0; l_idx := 1; l_amp := 0; l_spike := None; l_record := rd; l_input := None; l_neuron := vl; l_volts := []; l_spikes := [] |}).
  { unfold step, next_event, init. lproj.
    rewrite (Rle_bool_false' rd 0) by lra. lproj.
    rewrite lif_rest_advance, lif_rest_next. reflexivity. }
  assert (E2 : step R (lif_advance tau r vl thr) (lif_next tau r vl thr) (lif_reset tau r vl thr) (fun v => v) [0] [0] rd 
     {| l_time := 0; l_idx := 1; l_amp := 0; l_spike := None; l_record := rd; l_input := None; l_neuron := vl; l_volts := []; l_spikes := [] |} =
     {| l_time := rd; l_idx := 1; l_amp := 0; l_spike := None; l_record := rd + rd; l_input := None; l_neuron := vl; l_volts := [(rd, vl)]; l_spikes := [] |}).
  { unfold step, next_event. lproj. rewrite lif_rest_advance. reflexivity. }
  cbn [loop]. rewrite E1, E2. unfold init. lproj.
  rewrite (Rle_bool_true 0 d) by lra. rewrite (Rle_bool_false' rd d) by lra. reflexivity.
Qed.

Lemma lif_run_spike tau r vl thr v0 a rd :
  0 < tau -> v0 < thr -> thr < vl + r * a -> 0 < rd ->
  exists t, lif_next tau r vl thr v0 a = Some t /\ 0 < t /\
    lif_simulate tau r vl thr 3 v0 [0] [a] rd 0 =
    Some (if Rle_bool (0 + t) rd then ([], [0 + t])
          else ([(rd, lif_advance tau r vl thr v0 a (rd - 0))], [])).
Proof.
  intros Htau Hv Hthr Hrd.
  destruct (spike_time tau r vl thr Htau v0 a Hv Hthr) as [t [Hn [Ht _]]].
  change (lif_next tau r vl thr v0 a = Some t) in Hn.
  exists t. split; [exact Hn|]. split; [exact Ht|].
  unfold lif_simulate, EventLoopR.simulate.
  set (s1 := {| l_time := 0; l_idx := 1%nat; l_amp := a; l_spike := Some (0 + t); l_record := rd; l_input := None;
                l_neuron := v0; l_volts := []; l_spikes := [] |}).
  assert (E1 : step R (lif_advance tau r vl thr) (lif_next tau r vl thr) (lif_reset tau r vl thr) (fun v => v)
                    [0] [a] rd (init R v0 [0] rd) = s1).
  { unfold step, next_event, init. lproj.
    rewrite (Rle_bool_false' rd 0) by lra. lproj. unfold Rid.
    replace (0 - 0) with 0 by ring. rewrite lif_L0, Hn. reflexivity. }
  cbn [loop]. rewrite E1. unfold init. lproj. subst s1. lproj.
  rewrite (Rle_bool_true 0 0) by lra.
  unfold step, next_event. lproj.
  destruct (Rle_bool (0 + t) rd) eqn:E; lproj.
  - rewrite (Rle_bool_false' (0 + t) 0) by lra. lproj. reflexivity.
  - rewrite (Rle_bool_false' rd 0) by lra. lproj. reflexivity.
Qed.

Lemma lif_run_spike_within tau r vl thr v0 a rd :
  0 < tau -> 0 < thr -> v0 < thr -> thr < vl + r * a ->
  exists t, lif_next tau r vl thr v0 a = Some t /\ 0 < t /\
    (0 + t < rd ->
     exists volts spikes,
       lif_simulate tau r vl thr 4 v0 [0] [a] rd (0 + t) = Some (volts, spikes) /\
       filter (fun x => Rle_bool x (0 + t)) spikes = [0 + t]).
Proof.
  intros Htau Hthr0 Hv Hthr.
  destruct (spike_time tau r vl thr Htau v0 a Hv Hthr) as [t [Hn [Ht [Hat _]]]].
  destruct (spike_time tau r vl thr Htau 0 a Hthr0 Hthr) as [t2 [Hn2 [Ht2 _]]].
  change (lif_next tau r vl thr v0 a = Some t) in Hn.
  change (lif_next tau r vl thr 0 a = Some t2) in Hn2.
  change (lif_advance tau r vl thr v0 a t = thr) in Hat.
  exists t. split; [exact Hn|]. split; [exact Ht|]. intros Hrd.
  unfold lif_simulate, EventLoopR.simulate.
  set (s1 := {| l_time := 0; l_idx := 1%nat; l_amp := a; l_spike := Some (0 + t); l_record := rd; l_input := None;
                l_neuron := v0; l_volts := []; l_spikes := [] |}).
  set (s2 := {| l_time := 0 + t; l_idx := 1%nat; l_amp := a; l_spike := Some (0 + t + t2); l_record := rd;
                l_input := None; l_neuron := 0; l_volts := []; l_spikes := [0 + t] |}).
  assert (E1 : step R (lif_advance tau r vl thr) (lif_next tau r vl thr) (lif_reset tau r vl thr) (fun v => v)
                    [0] [a] rd (init R v0 [0] rd) = s1).
  { unfold step, next_event, init. lproj.
    rewrite (Rle_bool_false' rd 0) by lra. lproj. unfold Rid.
    replace (0 - 0) with 0 by ring. rewrite lif_L0, Hn. reflexivity. }
  assert (E2 : step R (lif_advance tau r vl thr) (lif_next tau r vl thr) (lif_reset tau r vl thr) (fun v => v)
                    [0] [a] rd s1 = s2).
  { unfold step, next_event, s1. lproj.
    rewrite (Rle_bool_true (0 + t) rd) by lra. lproj. unfold Rid.
    replace (0 + t - 0) with t by ring. rewrite Hat.
    replace (lif_reset tau r vl thr thr) with 0 by (unfold lif_reset, LifFormulas.reset; ring).
    rewrite Hn2. reflexivity. }
  cbn [loop]. rewrite E1, E2. unfold init, s1, s2. lproj.
  rewrite (Rle_bool_true 0 (0 + t)) by lra. rewrite (Rle_bool_true (0 + t) (0 + t)) by lra.
  unfold step, next_event. lproj. unfold Rid.
  destruct (Rle_bool (0 + t + t2) rd) eqn:E; lproj.
  - rewrite (Rle_bool_false' (0 + t + t2) (0 + t)) by lra.
    eexists. eexists. split; [reflexivity|]. cbn [rev app filter l_spikes].
    rewrite (Rle_bool_true (0 + t) (0 + t)) by lra. rewrite (Rle_bool_false' (0 + t + t2) (0 + t)) by lra.
    reflexivity.
  - rewrite (Rle_bool_false' rd (0 + t)) by lra.
    eexists. eexists. split; [reflexivity|]. cbn [rev app filter l_spikes].
    rewrite (Rle_bool_true (0 + t) (0 + t)) by lra. reflexivity.
Qed.

Print Assumptions lif_next_nonneg.
Print Assumptions lif_spikes_independent_of_record_dt.
Print Assumptions lif_voltages_independent_of_record_dt.
Print Assumptions lif_spikes_independent_of_record_dt_any_tau.
Print Assumptions lif_voltages_independent_of_record_dt_any_tau.
Print Assumptions lif_run_rest.
Print Assumptions lif_run_spike.
Print Assumptions lif_run_spike_within.
