(* InferProofs.v — the type-inference work-list loop of Model/Graph.v (C10):
   termination on every topology, fuel monotonicity, frame (non-destructiveness) properties. *)
From NIR Require Import Model.Graph.
From Coq Require Import Lia.

(* ---- pop_last --------------------------------------------------------------------------------- *)
Lemma pop_last_none {A} (l : list A) : pop_last l = None -> l = [].
Proof.
  unfold pop_last. destruct (rev l) as [|y r] eqn:E; [|discriminate]. intros _.
  apply (f_equal (@rev A)) in E. rewrite rev_involutive in E. exact E.
Qed.

Lemma pop_last_some {A} (l rest : list A) x : pop_last l = Some (rest, x) -> l = rest ++ [x].
Proof.
  unfold pop_last. destruct (rev l) as [|y r] eqn:E; [discriminate|]. intros H; inversion H; subst.
  apply (f_equal (@rev A)) in E. rewrite rev_involutive in E. cbn [rev] in E. exact E.
Qed.

(* ---- one iteration of the loop ---------------------------------------------------------------- *)
Inductive step_res := SDone | SStop (st : istate) (e : exn) | SNext (st : istate).

Definition step (es : list (string * string)) (st : istate) : step_res :=
  match pop_last (st_ready st) with
  | None => SDone
  | Some (rest, (pre_k, post_k)) =>
    let st0 := {| st_ch := st_ch st; st_ready := rest; st_seen := st_seen st |} in
    match lookup_child pre_k (st_ch st), lookup_child post_k (st_ch st) with
    | Ok pre, Ok post =>
      let '(post', ex) := apply_edge pre post in
      let ch' := set_child post_k post' (st_ch st) in
      match ex with
      | Some e => SStop {| st_ch := ch'; st_ready := rest; st_seen := st_seen st |} e
      | None =>
        let seen' := post_k :: st_seen st in
        SNext {| st_ch := ch';
                 st_ready := rest ++ out_edges es post_k seen';
                 st_seen := seen' |}
      end
    | Err e, _ | _, Err e => SStop st0 e
    end
  end.

Lemma run_S f es st :
  run (S f) es st =
  match step es st with
  | SDone => (st, Finished)
  | SStop st' e => (st', Raised e)
  | SNext st' => run f es st'
  end.
Proof.
  cbn [run]. unfold step.
  destruct (pop_last (st_ready st)) as [[rest [pre_k post_k]]|]; [|reflexivity].
  destruct (lookup_child pre_k (st_ch st)) as [pre|e1];
    destruct (lookup_child post_k (st_ch st)) as [post|e2]; try reflexivity.
  destruct (apply_edge pre post) as [post' [e|]]; reflexivity.
Qed.

(* ---- the loop body never raises the model's own OutOfFuel marker ------------------------------- *)
Definition noof {A} (r : result A) : Prop := r <> Err OutOfFuel.

Lemma noof_ok {A} (a : A) : noof (Ok a).
Proof. unfold noof. discriminate. Qed.

Lemma noof_bind {A B} (r : result A) (f : A -> result B) :
  noof r -> (forall a, noof (f a)) -> noof (bind r f).
Proof.
  unfold noof. destruct r as [a|e]; cbn [bind]; intros H1 H2.
  - apply H2.
  - intros E. apply H1. inversion E. reflexivity.
Qed.

Lemma noof_py_index {A} (l : list A) i : noof (py_index l i).
Proof.
  unfold noof, py_index.
  destruct ((_ <? 0) || (_ <=? _))%bool; [discriminate|].
  destruct (nth_error _ _); discriminate.
Qed.

Lemma noof_index_tuple h i : noof (index_tuple h i).
Proof. destruct h; cbn [index_tuple]; try apply noof_py_index; unfold noof; discriminate. Qed.

Lemma noof_conv_out_axes a b c d e i cnt : noof (conv_out_axes a b c d e i cnt).
Proof.
  revert i. induction cnt as [|cnt IH]; intros i; cbn [conv_out_axes]; [apply noof_ok|].
  apply noof_bind.
  - destruct (hp_is_str b "same"); [apply noof_index_tuple|].
    repeat (apply noof_bind; [apply noof_index_tuple|intros ?]).
    destruct (_ =? 0); unfold noof; discriminate.
  - intros x. apply noof_bind; [apply IH|]. intros r. apply noof_ok.
Qed.

Lemma noof_conv_out a b c d e : noof (conv_out a b c d e).
Proof.
  unfold conv_out. apply noof_bind.
  - destruct a; cbn [hp_ndim]; unfold noof; discriminate.
  - intros nd. apply noof_conv_out_axes.
Qed.

Lemma noof_fld f fs : noof (fld f fs).
Proof. unfold noof, fld. destruct (assoc f fs); discriminate. Qed.

Lemma noof_fld_shape f fs : noof (fld_shape f fs).
Proof.
  unfold fld_shape. apply noof_bind; [apply noof_fld|]. intros v.
  unfold noof. destruct v; cbn [shape_attr]; discriminate.
Qed.

Lemma noof_get_key k l : noof (get_key k l).
Proof. unfold noof, get_key. destruct (assoc k l); discriminate. Qed.

Lemma noof_tyv_index t i : noof (tyv_index t i).
Proof. unfold tyv_index. destruct (tyv_nums t); [apply noof_py_index|unfold noof; discriminate]. Qed.

Lemma noof_tyv_from t i : noof (tyv_from t i).
Proof. unfold noof, tyv_from. destruct (tyv_nums t); discriminate. Qed.

Lemma noof_array_equal a b : noof (array_equal a b).
Proof.
  unfold noof, array_equal. destruct (tyv_nums a); destruct (tyv_nums b);
    destruct a; destruct b; discriminate.
Qed.

Lemma noof_values_equal a b : noof (values_equal a b).
Proof.
  unfold values_equal.
  destruct a as [|[ka x] [|]]; destruct b as [|[kb y] [|]];
    try apply noof_array_equal; unfold noof; discriminate.
Qed.

Lemma err_noof {A} (r : result A) e : noof r -> r = Err e -> e <> OutOfFuel.
Proof. unfold noof. intros H E ->. apply H. exact E. Qed.

Ltac noof_solve :=
  repeat first
    [ apply noof_ok | apply noof_py_index | apply noof_conv_out | apply noof_fld
    | apply noof_fld_shape | apply noof_get_key | apply noof_tyv_index | apply noof_tyv_from
    | apply noof_bind; [|intros ?]
    | match goal with |- noof (if ?c then _ else _) => destruct c end
    | match goal with |- noof (match ?x with _ => _ end) => destruct x end
    | (unfold noof; discriminate) ].

(* derive_output: the only field it can write is a Conv node's input_shape; it never raises
   OutOfFuel *)
Lemma derive_output_spec k fs o i fs' r ex :
  derive_output k fs o i = (fs', r, ex) ->
  (fs' = fs \/ ((k = KConv1d \/ k = KConv2d) /\ exists v, fs' = assoc_set "input_shape" v fs)) /\
  (forall e, ex = Some e -> e <> OutOfFuel).
Proof.
  intros H.
  destruct k; cbn [derive_output] in H;
    try (inversion H; subst; split; [left; reflexivity|intros e He; discriminate]).
  - (* Conv1d *)
    match type of H with match ?X with Ok _ => _ | Err _ => _ end = _ => destruct X as [ish|e0] eqn:EX end.
    + match type of H with match ?X with Ok _ => _ | Err _ => _ end = _ => destruct X as [t|e1] eqn:EY end;
        inversion H; subst; (split; [right; split; [left; reflexivity|eexists; reflexivity]|]).
      * intros e He; discriminate.
      * intros e He; inversion He; subst. eapply err_noof; [|exact EY]. noof_solve.
    + inversion H; subst. split; [left; reflexivity|].
      intros e He; inversion He; subst. eapply err_noof; [|exact EX]. noof_solve.
  - (* Conv2d *)
    match type of H with match ?X with Ok _ => _ | Err _ => _ end = _ => destruct X as [ish|e0] eqn:EX end.
    + match type of H with match ?X with Ok _ => _ | Err _ => _ end = _ => destruct X as [t|e1] eqn:EY end;
        inversion H; subst; (split; [right; split; [right; reflexivity|eexists; reflexivity]|]).
      * intros e He; discriminate.
      * intros e He; inversion He; subst. eapply err_noof; [|exact EY]. noof_solve.
    + inversion H; subst. split; [left; reflexivity|].
      intros e He; inversion He; subst. eapply err_noof; [|exact EX]. noof_solve.
  - (* SumPool2d *)
    match type of H with match ?X with Ok _ => _ | Err _ => _ end = _ => destruct X as [t|e0] eqn:EX end;
      inversion H; subst; (split; [left; reflexivity|]).
    + intros e He; discriminate.
    + intros e He; inversion He; subst. eapply err_noof; [|exact EX]. noof_solve.
  - (* AvgPool2d *)
    match type of H with match ?X with Ok _ => _ | Err _ => _ end = _ => destruct X as [t|e0] eqn:EX end;
      inversion H; subst; (split; [left; reflexivity|]).
    + intros e He; discriminate.
    + intros e He; inversion He; subst. eapply err_noof; [|exact EX]. noof_solve.
  - (* Flatten *)
    match type of H with match ?X with Ok _ => _ | Err _ => _ end = _ => destruct X as [[sh out]|e0] eqn:EX end;
      inversion H; subst; (split; [left; reflexivity|]).
    + intros e He. destruct (prodZ sh =? prodZ out); inversion He. discriminate.
    + intros e He; inversion He; subst. eapply err_noof; [|exact EX]. noof_solve.
Qed.

(* ---- frame relation ------------------------------------------------------------------------------ *)
(* what the loop may do to a node: the kind stays; the fields stay exactly as they were, except
   that a Conv1d/Conv2d node may have its input_shape (re)assigned; a nested graph is not
   modified at all *)
Definition same_frame (n n' : node) : Prop :=
  node_kind n' = node_kind n /\
  (node_fields n' = node_fields n \/
   exists v, (node_kind n = KConv1d \/ node_kind n = KConv2d) /\
             node_fields n' = assoc_set "input_shape" v (node_fields n)) /\
  (is_graph n = true -> n' = n).

Lemma same_frame_refl n : same_frame n n.
Proof. unfold same_frame. split; [reflexivity|]. split; [left; reflexivity|]. intros _. reflexivity. Qed.

Lemma apply_edge_spec pre post post' ex :
  apply_edge pre post = (post', ex) ->
  same_frame post post' /\ (forall e, ex = Some e -> e <> OutOfFuel).
Proof.
  intros H.
  assert (Hstop : forall e0, e0 <> OutOfFuel -> (post, Some e0) = (post', ex) ->
            same_frame post post' /\ (forall e, ex = Some e -> e <> OutOfFuel)).
  { intros e0 Hne E. inversion E; subst. split; [apply same_frame_refl|].
    intros e He; inversion He; subst. exact Hne. }
  destruct pre as [pk pfs ptin ptout|pch pes pgi pgo pm].
  2:{ cbn [apply_edge] in H. eapply Hstop; [|exact H]. discriminate. }
  destruct post as [k fs tin tout|ch es gi go m].
  2:{ cbn [apply_edge] in H. eapply Hstop; [|exact H]. discriminate. }
  cbn [apply_edge] in H.
  destruct tin as [i|]; [|eapply Hstop; [|exact H]; discriminate].
  destruct ptout as [o|]; [|eapply Hstop; [|exact H]; discriminate].
  destruct (values_equal o i) as [eq|e0] eqn:EV.
  2:{ eapply Hstop; [|exact H]. eapply err_noof; [|exact EV]. apply noof_values_equal. }
  match type of H with (if ?c then _ else _) = _ => destruct c end.
  - match type of H with context [derive_output ?a ?b ?c ?d] =>
      destruct (derive_output a b c d) as [[fs' r] ex'] eqn:ED end.
    apply derive_output_spec in ED as [Hfs Hex].
    inversion H; subst. split; [|exact Hex].
    unfold same_frame. cbn [node_kind node_fields is_graph]. split; [reflexivity|]. split.
    + destruct Hfs as [->|[Hk [v ->]]]; [left; reflexivity|right; exists v; split; [exact Hk|reflexivity]].
    + discriminate.
  - inversion H; subst. split; [|intros e He; discriminate].
    unfold same_frame. cbn [node_kind node_fields is_graph]. split; [reflexivity|].
    split; [left; reflexivity|discriminate].
Qed.

Theorem apply_edge_frame : forall pre post post' ex, apply_edge pre post = (post', ex) ->
  node_kind post' = node_kind post /\
  (node_fields post' = node_fields post \/
   exists v, (node_kind post = KConv1d \/ node_kind post = KConv2d) /\
             node_fields post' = assoc_set "input_shape" v (node_fields post)) /\
  (is_graph post = true -> post' = post).
Proof. intros pre post post' ex H. apply apply_edge_spec in H as [H _]. exact H. Qed.

Lemma apply_edge_noof pre post post' e : apply_edge pre post = (post', Some e) -> e <> OutOfFuel.
Proof. intros H. apply apply_edge_spec in H as [_ H]. apply H. reflexivity. Qed.

(* ---- inversion of one iteration ------------------------------------------------------------------ *)
Lemma lookup_child_ok k ch n : lookup_child k ch = Ok n -> assoc k ch = Some n.
Proof. unfold lookup_child. destruct (assoc k ch); intros H; inversion H; reflexivity. Qed.

Lemma lookup_child_err k ch e : lookup_child k ch = Err e -> e = KeyError.
Proof. unfold lookup_child. destruct (assoc k ch); intros H; inversion H; reflexivity. Qed.

Lemma step_done es st : step es st = SDone -> st_ready st = [].
Proof.
  unfold step. destruct (pop_last (st_ready st)) as [[rest [pre_k post_k]]|] eqn:EP.
  - destruct (lookup_child pre_k (st_ch st)) as [pre|e1];
      destruct (lookup_child post_k (st_ch st)) as [post|e2]; try discriminate.
    destruct (apply_edge pre post) as [post' [e|]]; discriminate.
  - intros _. apply pop_last_none. exact EP.
Qed.

Lemma step_next es st st' : step es st = SNext st' ->
  exists rest pre_k post_k pre post post',
    st_ready st = rest ++ [(pre_k, post_k)] /\
    assoc pre_k (st_ch st) = Some pre /\ assoc post_k (st_ch st) = Some post /\
    apply_edge pre post = (post', None) /\
    st' = {| st_ch := assoc_set post_k post' (st_ch st);
             st_ready := rest ++ out_edges es post_k (post_k :: st_seen st);
             st_seen := post_k :: st_seen st |}.
Proof.
  unfold step. destruct (pop_last (st_ready st)) as [[rest [pre_k post_k]]|] eqn:EP; [|discriminate].
  apply pop_last_some in EP.
  destruct (lookup_child pre_k (st_ch st)) as [pre|e1] eqn:E1;
    destruct (lookup_child post_k (st_ch st)) as [post|e2] eqn:E2; try discriminate.
  destruct (apply_edge pre post) as [post' [e|]] eqn:EA; [discriminate|].
  intros H. inversion H; subst. exists rest, pre_k, post_k, pre, post, post'.
  apply lookup_child_ok in E1, E2. repeat split; assumption.
Qed.

Lemma step_stop es st st' e : step es st = SStop st' e ->
  e <> OutOfFuel /\
  (st_ch st' = st_ch st \/
   exists rest pre_k post_k pre post post',
     st_ready st = rest ++ [(pre_k, post_k)] /\
     assoc pre_k (st_ch st) = Some pre /\ assoc post_k (st_ch st) = Some post /\
     apply_edge pre post = (post', Some e) /\
     st_ch st' = assoc_set post_k post' (st_ch st)).
Proof.
  unfold step. destruct (pop_last (st_ready st)) as [[rest [pre_k post_k]]|] eqn:EP; [|discriminate].
  apply pop_last_some in EP.
  destruct (lookup_child pre_k (st_ch st)) as [pre|e1] eqn:E1;
    destruct (lookup_child post_k (st_ch st)) as [post|e2] eqn:E2.
  - destruct (apply_edge pre post) as [post' [e0|]] eqn:EA; [|discriminate].
    intros H. inversion H; subst. split; [eapply apply_edge_noof; exact EA|].
    right. exists rest, pre_k, post_k, pre, post, post'.
    apply lookup_child_ok in E1, E2. cbn [st_ch]. repeat split; assumption.
  - intros H. inversion H; subst. apply lookup_child_err in E2. subst.
    split; [discriminate|left; reflexivity].
  - intros H. inversion H; subst. apply lookup_child_err in E1. subst.
    split; [discriminate|left; reflexivity].
  - intros H. inversion H; subst. apply lookup_child_err in E1. subst.
    split; [discriminate|left; reflexivity].
Qed.

(* ---- fuel monotonicity ---------------------------------------------------------------------------- *)
Theorem run_fuel_mono : forall fuel es st, snd (run fuel es st) <> Raised OutOfFuel ->
  forall fuel', (fuel <= fuel')%nat -> run fuel' es st = run fuel es st.
Proof.
  induction fuel as [|f IH]; intros es st H fuel' Hle.
  - cbn [run snd] in H. exfalso. apply H. reflexivity.
  - destruct fuel' as [|f']; [lia|].
    rewrite run_S in H. rewrite !run_S.
    destruct (step es st) as [|st' e|st']; try reflexivity.
    apply IH; [exact H|lia].
Qed.

(* ---- termination measure ---------------------------------------------------------------------------- *)
Lemma mem_str_In s l : mem_str s l = true <-> In s l.
Proof.
  induction l as [|x r IH]; cbn [mem_str In].
  - split; [discriminate|intros []].
  - rewrite orb_true_iff, IH, String.eqb_eq. split; intros [H|H]; timeout 20 auto.
Qed.

Lemma mem_str_cons_seen y seen t :
  mem_str y seen = true -> mem_str t (y :: seen) = mem_str t seen.
Proof.
  intros Hy. cbn [mem_str]. destruct (String.eqb t y) eqn:E; [|reflexivity].
  apply String.eqb_eq in E. subst. rewrite Hy. reflexivity.
Qed.

(* number of entries of T that are not yet seen *)
Definition unseen (T seen : list string) : nat :=
  length (filter (fun t => negb (mem_str t seen)) T).
(* number of ready entries whose target is already seen *)
Definition stale (seen : list string) (l : list (string * string)) : nat :=
  length (filter (fun e => mem_str (snd e) seen) l).

Lemma unseen_cons_le T y seen : (unseen T (y :: seen) <= unseen T seen)%nat.
Proof.
  unfold unseen. induction T as [|a T IH]; cbn [filter length]; [lia|].
  cbn [mem_str] in *. destruct (String.eqb a y); destruct (mem_str a seen); cbn [orb negb length]; lia.
Qed.

Lemma unseen_cons_lt T y seen :
  In y T -> mem_str y seen = false -> (unseen T (y :: seen) < unseen T seen)%nat.
Proof.
  intros Hin Hy. induction T as [|a T IH]; [destruct Hin|].
  pose proof (unseen_cons_le T y seen) as Hle. unfold unseen in *. cbn [filter].
  destruct Hin as [->|Hin].
  - cbn [mem_str] in *. rewrite String.eqb_refl, Hy. cbn [orb negb length]. lia.
  - specialize (IH Hin). cbn [mem_str] in *.
    destruct (String.eqb a y); destruct (mem_str a seen); cbn [orb negb length]; lia.
Qed.

Lemma unseen_cons_eq T y seen : mem_str y seen = true -> unseen T (y :: seen) = unseen T seen.
Proof.
  intros Hy. unfold unseen. f_equal. apply filter_ext. intros t.
  rewrite mem_str_cons_seen by exact Hy. reflexivity.
Qed.

Lemma stale_app seen a b : stale seen (a ++ b) = (stale seen a + stale seen b)%nat.
Proof. unfold stale. rewrite filter_app, app_length. reflexivity. Qed.

Lemma stale_cons_eq y seen l : mem_str y seen = true -> stale (y :: seen) l = stale seen l.
Proof.
  intros Hy. unfold stale. f_equal. apply filter_ext. intros e.
  apply mem_str_cons_seen. exact Hy.
Qed.

Lemma stale_out_edges es k seen : stale seen (out_edges es k seen) = 0%nat.
Proof.
  unfold stale, out_edges. induction es as [|e es IH]; cbn [filter]; [reflexivity|].
  destruct (String.eqb (fst e) k); cbn [andb]; [|exact IH].
  destruct (mem_str (snd e) seen) eqn:E; cbn [negb]; [exact IH|].
  cbn [filter]. rewrite E. exact IH.
Qed.

Lemma out_edges_incl es k seen : incl (out_edges es k seen) es.
Proof. intros e H. unfold out_edges in H. apply filter_In in H. apply H. Qed.

Lemma step_measure es st st' :
  step es st = SNext st' -> incl (st_ready st) es ->
  incl (st_ready st') es /\
  ((unseen (map snd es) (st_seen st') < unseen (map snd es) (st_seen st))%nat \/
   (unseen (map snd es) (st_seen st') = unseen (map snd es) (st_seen st) /\
    S (stale (st_seen st') (st_ready st')) = stale (st_seen st) (st_ready st))).
Proof.
  intros Hs Hincl.
  apply step_next in Hs as (rest & pre_k & post_k & pre & post & post' & Hr & _ & _ & _ & ->).
  cbn [st_ready st_seen]. rewrite Hr in Hincl. split.
  - apply incl_app; [|apply out_edges_incl].
    intros e He. apply Hincl. apply in_or_app. left. exact He.
  - destruct (mem_str post_k (st_seen st)) eqn:Hm.
    + right. split; [apply unseen_cons_eq; exact Hm|].
      rewrite Hr, !stale_app, stale_out_edges, stale_cons_eq by exact Hm.
      unfold stale at 3. cbn [filter snd]. rewrite Hm. cbn [length]. lia.
    + left. apply unseen_cons_lt; [|exact Hm].
      change post_k with (snd (pre_k, post_k)). apply in_map. apply Hincl.
      apply in_or_app. right. left. reflexivity.
Qed.

(* ---- termination on every topology ---------------------------------------------------------------- *)
Lemma run_terminates_aux es : forall u s st,
  incl (st_ready st) es ->
  (unseen (map snd es) (st_seen st) <= u)%nat -> (stale (st_seen st) (st_ready st) <= s)%nat ->
  exists fuel, snd (run fuel es st) <> Raised OutOfFuel.
Proof.
  induction u as [u IHu] using lt_wf_ind.
  induction s as [|s IHs]; intros st Hincl Hu Hs.
  - destruct (step es st) as [|st' e|st'] eqn:Est.
    + exists 1%nat. rewrite run_S, Est. cbn [snd]. discriminate.
    + exists 1%nat. rewrite run_S, Est. cbn [snd]. apply step_stop in Est as [Hne _].
      intros E. inversion E. contradiction.
    + destruct (step_measure _ _ _ Est Hincl) as [Hincl' [Hlt|[_ Hst]]]; [|lia].
      destruct (IHu (unseen (map snd es) (st_seen st')) ltac:(lia)
                    (stale (st_seen st') (st_ready st')) st' Hincl' ltac:(lia) ltac:(lia)) as [f Hf].
      exists (S f). rewrite run_S, Est. exact Hf.
  - destruct (step es st) as [|st' e|st'] eqn:Est.
    + exists 1%nat. rewrite run_S, Est. cbn [snd]. discriminate.
    + exists 1%nat. rewrite run_S, Est. cbn [snd]. apply step_stop in Est as [Hne _].
      intros E. inversion E. contradiction.
    + destruct (step_measure _ _ _ Est Hincl) as [Hincl' [Hlt|[Hueq Hst]]].
      * destruct (IHu (unseen (map snd es) (st_seen st')) ltac:(lia)
                      (stale (st_seen st') (st_ready st')) st' Hincl' ltac:(lia) ltac:(lia)) as [f Hf].
        exists (S f). rewrite run_S, Est. exact Hf.
      * destruct (IHs st' Hincl' ltac:(lia) ltac:(lia)) as [f Hf].
        exists (S f). rewrite run_S, Est. exact Hf.
Qed.

Theorem run_terminates : forall es st, incl (st_ready st) es ->
  exists fuel, snd (run fuel es st) <> Raised OutOfFuel.
Proof.
  intros es st Hincl.
  apply (run_terminates_aux es (unseen (map snd es) (st_seen st))
           (stale (st_seen st) (st_ready st)) st Hincl); lia.
Qed.

Lemma init_state_incl ch es : incl (st_ready (init_state ch es)) es.
Proof. unfold init_state. cbn [st_ready]. intros e H. apply filter_In in H. apply H. Qed.

Theorem infer_terminates : forall ch es,
  exists fuel, snd (run fuel es (init_state ch es)) <> Raised OutOfFuel.
Proof. intros ch es. apply run_terminates. apply init_state_incl. Qed.

(* ---- association lists ------------------------------------------------------------------------------ *)
Lemma assoc_set_keys {A} k (v v' : A) l : assoc k l = Some v -> map fst (assoc_set k v' l) = map fst l.
Proof.
  induction l as [|[k0 v0] r IH]; cbn [assoc assoc_set]; [discriminate|].
  destruct (String.eqb k k0) eqn:E.
  - intros _. apply String.eqb_eq in E. subst. reflexivity.
  - intros H. cbn [map fst]. rewrite IH by exact H. reflexivity.
Qed.

Lemma assoc_assoc_set {A} k k' (v : A) l :
  assoc k (assoc_set k' v l) = if String.eqb k k' then Some v else assoc k l.
Proof.
  induction l as [|[k0 v0] r IH]; cbn [assoc assoc_set].
  - destruct (String.eqb k k'); reflexivity.
  - destruct (String.eqb k' k0) eqn:E0; cbn [assoc].
    + apply String.eqb_eq in E0. subst k0. destruct (String.eqb k k'); reflexivity.
    + rewrite IH. destruct (String.eqb k k0) eqn:E1; [|reflexivity].
      apply String.eqb_eq in E1. subst k0. rewrite String.eqb_sym, E0. reflexivity.
Qed.

Lemma assoc_set_twice {A} k (v1 v2 : A) l : assoc_set k v2 (assoc_set k v1 l) = assoc_set k v2 l.
Proof.
  induction l as [|[k0 v0] r IH]; cbn [assoc_set].
  - rewrite String.eqb_refl. reflexivity.
  - destruct (String.eqb k k0) eqn:E; cbn [assoc_set].
    + rewrite String.eqb_refl. reflexivity.
    + rewrite E, IH. reflexivity.
Qed.

Lemma assoc_set_keys_cases {A} k (v : A) l :
  map fst (assoc_set k v l) = map fst l \/
  (assoc k l = None /\ map fst (assoc_set k v l) = map fst l ++ [k]).
Proof.
  induction l as [|[k0 v0] r IH]; cbn [assoc assoc_set map fst app].
  - right. split; reflexivity.
  - destruct (String.eqb k k0) eqn:E.
    + left. apply String.eqb_eq in E. subst. reflexivity.
    + cbn [map fst]. destruct IH as [->|[Hn ->]]; [left; reflexivity|right; split; [exact Hn|reflexivity]].
Qed.

(* ---- the frame relation is a preorder; consequences --------------------------------------------------- *)
Lemma same_frame_trans a b c : same_frame a b -> same_frame b c -> same_frame a c.
Proof.
  intros (K1 & F1 & G1) (K2 & F2 & G2). unfold same_frame. split; [congruence|]. split.
  - destruct F1 as [F1|(v1 & C1 & F1)]; destruct F2 as [F2|(v2 & C2 & F2)].
    + left. congruence.
    + right. exists v2. rewrite K1 in C2. split; [exact C2|]. rewrite F2, F1. reflexivity.
    + right. exists v1. split; [exact C1|]. rewrite F2, F1. reflexivity.
    + right. exists v2. split; [exact C1|]. rewrite F2, F1. apply assoc_set_twice.
  - intros Ga. specialize (G1 Ga). subst b. apply G2. exact Ga.
Qed.

Lemma same_frame_other_fields n n' :
  same_frame n n' ->
  forall f, f <> "input_shape" -> assoc f (node_fields n') = assoc f (node_fields n).
Proof.
  intros (_ & [F|(v & _ & F)] & _) f Hf; rewrite F; [reflexivity|].
  rewrite assoc_assoc_set. destruct (String.eqb f "input_shape") eqn:E; [|reflexivity].
  apply String.eqb_eq in E. contradiction.
Qed.

Lemma same_frame_non_conv n n' :
  same_frame n n' -> node_kind n <> KConv1d -> node_kind n <> KConv2d ->
  node_fields n' = node_fields n.
Proof. intros (_ & [F|(v & [C|C] & _)] & _) H1 H2; [exact F|contradiction|contradiction]. Qed.

(* field names and their order: unchanged, or input_shape appended at the end when it was absent *)
Lemma same_frame_field_names n n' :
  same_frame n n' ->
  map fst (node_fields n') = map fst (node_fields n) \/
  (assoc "input_shape" (node_fields n) = None /\
   map fst (node_fields n') = map fst (node_fields n) ++ ["input_shape"]).
Proof.
  intros (_ & [F|(v & _ & F)] & _); rewrite F; [left; reflexivity|]. apply assoc_set_keys_cases.
Qed.

(* ---- frame of the children dictionary ------------------------------------------------------------------ *)
Definition ch_frame (ch ch' : list (string * node)) : Prop :=
  map fst ch' = map fst ch /\
  forall k n, assoc k ch = Some n -> exists n', assoc k ch' = Some n' /\ same_frame n n'.

Lemma ch_frame_refl ch : ch_frame ch ch.
Proof. split; [reflexivity|]. intros k n H. exists n. split; [exact H|apply same_frame_refl]. Qed.

Lemma ch_frame_trans a b c : ch_frame a b -> ch_frame b c -> ch_frame a c.
Proof.
  intros [K1 F1] [K2 F2]. split; [congruence|]. intros k n H.
  destruct (F1 k n H) as (n1 & H1 & S1). destruct (F2 k n1 H1) as (n2 & H2 & S2).
  exists n2. split; [exact H2|]. eapply same_frame_trans; eassumption.
Qed.

Lemma ch_frame_set ch k n n' :
  assoc k ch = Some n -> same_frame n n' -> ch_frame ch (assoc_set k n' ch).
Proof.
  intros Hk Hf. split; [eapply assoc_set_keys; exact Hk|].
  intros k0 n0 H0. rewrite assoc_assoc_set. destruct (String.eqb k0 k) eqn:E.
  - apply String.eqb_eq in E. subst k0. rewrite Hk in H0. inversion H0; subst.
    exists n'. split; [reflexivity|exact Hf].
  - exists n0. split; [exact H0|apply same_frame_refl].
Qed.

Lemma step_next_frame es st st' : step es st = SNext st' -> ch_frame (st_ch st) (st_ch st').
Proof.
  intros Hs. apply step_next in Hs as (rest & pre_k & post_k & pre & post & post' & _ & _ & Hp & Ha & ->).
  cbn [st_ch]. eapply ch_frame_set; [exact Hp|]. apply apply_edge_spec in Ha. apply Ha.
Qed.

Lemma step_stop_frame es st st' e : step es st = SStop st' e -> ch_frame (st_ch st) (st_ch st').
Proof.
  intros Hs. apply step_stop in Hs as [_ [->|(rest & pre_k & post_k & pre & post & post' & _ & _ & Hp & Ha & ->)]].
  - apply ch_frame_refl.
  - eapply ch_frame_set; [exact Hp|]. apply apply_edge_spec in Ha. apply Ha.
Qed.

Lemma run_ch_frame fuel : forall es st, ch_frame (st_ch st) (st_ch (fst (run fuel es st))).
Proof.
  induction fuel as [|f IH]; intros es st.
  - cbn [run fst]. apply ch_frame_refl.
  - rewrite run_S. destruct (step es st) as [|st' e|st'] eqn:Est; cbn [fst].
    + apply ch_frame_refl.
    + eapply step_stop_frame; exact Est.
    + eapply ch_frame_trans; [eapply step_next_frame; exact Est|apply IH].
Qed.

Theorem run_names : forall fuel es st, map fst (st_ch (fst (run fuel es st))) = map fst (st_ch st).
Proof. intros fuel es st. apply (run_ch_frame fuel es st). Qed.

(* every child keeps its name, position and kind; its fields are exactly as before, except that a
   Conv1d/Conv2d child may have input_shape (re)assigned (the iterated case collapses to one
   assoc_set because assoc_set is idempotent on a key); nested graphs are untouched *)
Theorem run_frame : forall fuel es st k n, assoc k (st_ch st) = Some n ->
  exists n', assoc k (st_ch (fst (run fuel es st))) = Some n' /\
    node_kind n' = node_kind n /\
    (node_fields n' = node_fields n \/
     exists v, (node_kind n = KConv1d \/ node_kind n = KConv2d) /\
               node_fields n' = assoc_set "input_shape" v (node_fields n)) /\
    (forall f, f <> "input_shape" -> assoc f (node_fields n') = assoc f (node_fields n)) /\
    (node_kind n <> KConv1d -> node_kind n <> KConv2d -> node_fields n' = node_fields n) /\
    (map fst (node_fields n') = map fst (node_fields n) \/
     (assoc "input_shape" (node_fields n) = None /\
      map fst (node_fields n') = map fst (node_fields n) ++ ["input_shape"])) /\
    (is_graph n = true -> n' = n).
Proof.
  intros fuel es st k n Hk.
  destruct (run_ch_frame fuel es st) as [_ F]. destruct (F k n Hk) as (n' & Hn' & Hf).
  exists n'. split; [exact Hn'|]. split; [apply Hf|]. split; [apply Hf|].
  split; [apply same_frame_other_fields; exact Hf|].
  split; [apply same_frame_non_conv; exact Hf|].
  split; [apply same_frame_field_names; exact Hf|apply Hf].
Qed.

(* ---- a child that is the target of no edge is never touched ------------------------------------------- *)
Theorem run_untouched : forall fuel es st k, incl (st_ready st) es -> ~ In k (map snd es) ->
  assoc k (st_ch (fst (run fuel es st))) = assoc k (st_ch st).
Proof.
  induction fuel as [|f IH]; intros es st k Hincl Hk; [reflexivity|].
  assert (Hset : forall rest pre_k post_k n', st_ready st = rest ++ [(pre_k, post_k)] ->
            assoc k (assoc_set post_k n' (st_ch st)) = assoc k (st_ch st)).
  { intros rest pre_k post_k n' Hr. rewrite assoc_assoc_set.
    destruct (String.eqb k post_k) eqn:E; [|reflexivity].
    apply String.eqb_eq in E. subst k. exfalso. apply Hk.
    change post_k with (snd (pre_k, post_k)). apply in_map. apply Hincl. rewrite Hr.
    apply in_or_app. right. left. reflexivity. }
  rewrite run_S. destruct (step es st) as [|st' e|st'] eqn:Est; cbn [fst].
  - reflexivity.
  - apply step_stop in Est as [_ [->|(rest & pre_k & post_k & pre & post & post' & Hr & _ & _ & _ & ->)]];
      [reflexivity|]. eapply Hset; exact Hr.
  - destruct (step_measure _ _ _ Est Hincl) as [Hincl' _].
    rewrite IH by assumption.
    apply step_next in Est as (rest & pre_k & post_k & pre & post & post' & Hr & _ & _ & _ & ->).
    cbn [st_ch]. eapply Hset; exact Hr.
Qed.

(* ---- infer_types: edge list and graph metadata unchanged, child names and order unchanged -------------- *)
Theorem infer_types_frame : forall ch es gi go m g' oc, infer_types (Graph ch es gi go m) = (g', oc) ->
  exists ch' gi' go', g' = Graph ch' es gi' go' m /\ map fst ch' = map fst ch.
Proof.
  intros ch es gi go m g' oc H. cbn [infer_types] in H.
  destruct (negb (gty_undef gi)).
  - destruct (run (infer_fuel ch es) es (init_state ch es)) as [st o] eqn:ER.
    inversion H; subst. unfold mk_graph.
    exists (st_ch st), (graph_tin (st_ch st)), (graph_tout (st_ch st)). split; [reflexivity|].
    pose proof (run_names (infer_fuel ch es) es (init_state ch es)) as Hn.
    rewrite ER in Hn. exact Hn.
  - destruct (negb (gty_undef go)); inversion H; subst; exists ch, gi, go; split; reflexivity.
Qed.

(* ---- (3) the concrete fuel infer_fuel suffices ---------------------------------------------------------- *)
(* LIFO invariant of the entries pushed by the loop (listed bottom to top): if the target b of an
   entry is already seen, every out-edge (b,c) of b either has a seen target or is still on the stack
   above the entry.  Hence, when such an entry is popped stale, it pushes nothing. *)
Fixpoint good (es : list (string * string)) (seen : list string) (l : list (string * string)) : Prop :=
  match l with
  | [] => True
  | e :: r =>
    (mem_str (snd e) seen = true ->
     forall c, In (snd e, c) es -> mem_str c seen = true \/ In (snd e, c) r) /\
    good es seen r
  end.

Lemma good_fresh es seen l :
  (forall e, In e l -> mem_str (snd e) seen = false) -> good es seen l.
Proof.
  induction l as [|e r IH]; cbn [good]; [trivial|]. intros H. split.
  - intros Hm. rewrite (H e) in Hm by (left; reflexivity). discriminate.
  - apply IH. intros e' He'. apply H. right. exact He'.
Qed.

Lemma out_edges_fresh es k seen e : In e (out_edges es k seen) -> mem_str (snd e) seen = false.
Proof.
  unfold out_edges. intros H. apply filter_In in H as [_ H].
  apply andb_true_iff in H as [_ H]. apply negb_true_iff in H. exact H.
Qed.

Lemma out_edges_in es k seen c :
  In (k, c) es -> mem_str c seen = true \/ In (k, c) (out_edges es k seen).
Proof.
  intros H. destruct (mem_str c seen) eqn:E; [left; reflexivity|right].
  unfold out_edges. apply filter_In. split; [exact H|]. cbn [fst snd].
  rewrite String.eqb_refl, E. reflexivity.
Qed.

Lemma good_step es seen l x y :
  good es seen (l ++ [(x, y)]) -> good es (y :: seen) (l ++ out_edges es y (y :: seen)).
Proof.
  induction l as [|[a b] l IH]; cbn [app good].
  - intros _. apply good_fresh. intros e He. eapply out_edges_fresh. exact He.
  - intros [Hh Ht]. split; [|apply IH; exact Ht]. cbn [snd] in *.
    intros Hm c Hc. cbn [mem_str] in Hm.
    destruct (String.eqb b y) eqn:Eby.
    + apply String.eqb_eq in Eby. subst b.
      destruct (out_edges_in es y (y :: seen) c Hc) as [H|H]; [left; exact H|].
      right. apply in_or_app. right. exact H.
    + cbn [orb] in Hm. destruct (Hh Hm c Hc) as [H|H].
      * left. cbn [mem_str]. rewrite H. apply orb_true_r.
      * apply in_app_or in H as [H|[H|[]]].
        -- right. apply in_or_app. left. exact H.
        -- inversion H; subst. left. cbn [mem_str]. rewrite String.eqb_refl. reflexivity.
Qed.

Lemma good_last_stale es seen l x y :
  good es seen (l ++ [(x, y)]) -> mem_str y seen = true ->
  forall c, In (y, c) es -> mem_str c seen = true.
Proof.
  induction l as [|e l IH]; cbn [app good].
  - intros [Hh _] Hm c Hc. cbn [snd] in Hh. destruct (Hh Hm c Hc) as [H|[]]. exact H.
  - intros [_ Ht]. apply IH. exact Ht.
Qed.

Lemma out_edges_nil es k seen :
  (forall c, In (k, c) es -> mem_str c seen = true) -> out_edges es k seen = [].
Proof.
  unfold out_edges. induction es as [|[a c] es IH]; intros H; cbn [filter fst snd]; [reflexivity|].
  destruct (String.eqb a k) eqn:E; cbn [andb].
  - apply String.eqb_eq in E. subst a. rewrite (H c) by (left; reflexivity). cbn [negb].
    apply IH. intros c' Hc'. apply H. right. exact Hc'.
  - apply IH. intros c' Hc'. apply H. right. exact Hc'.
Qed.

Lemma filter_length_le' {A} (f : A -> bool) l : (length (filter f l) <= length l)%nat.
Proof. induction l as [|a l IH]; cbn [filter length]; [lia|]. destruct (f a); cbn [length]; lia. Qed.

Lemma list_last_cases {A} (l : list A) : l = [] \/ exists l' x, l = l' ++ [x].
Proof.
  destruct l as [|a l]; [left; reflexivity|right].
  destruct (@exists_last A (a :: l)) as (l' & x & H); [discriminate|]. exists l', x. exact H.
Qed.

Lemma assoc_in_keys {A} k (l : list (string * A)) v : assoc k l = Some v -> In k (map fst l).
Proof.
  induction l as [|[k0 v0] r IH]; cbn [assoc map fst In]; [discriminate|].
  destruct (String.eqb k k0) eqn:E.
  - intros _. left. apply String.eqb_eq in E. symmetry. exact E.
  - intros H. right. apply IH. exact H.
Qed.

(* potential: the ready list is base ++ l where l are the entries pushed by the loop;
   |l| + |base| + |es| * (children not yet seen + |base|) strictly decreases at every iteration.
   (No hypothesis on the topology or on the ready list is needed.) *)
Lemma fuel_bound es T : forall fuel st base l,
  map fst (st_ch st) = T -> st_ready st = base ++ l -> good es (st_seen st) l ->
  (length l + length base + length es * (unseen T (st_seen st) + length base) < fuel)%nat ->
  snd (run fuel es st) <> Raised OutOfFuel.
Proof.
  induction fuel as [|f IH]; intros st base l HT Hr Hg Hm; [lia|].
  rewrite run_S. destruct (step es st) as [|st' e|st'] eqn:Est; cbn [snd].
  - discriminate.
  - apply step_stop in Est as [Hne _]. intros E. inversion E. contradiction.
  - apply step_next in Est as (rest & p & q & pre & post & post' & Hr' & _ & Hq & _ & ->).
    pose proof (filter_length_le' (fun e => String.eqb (fst e) q && negb (mem_str (snd e) (q :: st_seen st))) es)
      as Hoe. fold (out_edges es q (q :: st_seen st)) in Hoe.
    pose proof (unseen_cons_le T q (st_seen st)) as Hule.
    assert (HT' : map fst (assoc_set q post' (st_ch st)) = T).
    { rewrite (assoc_set_keys _ _ _ _ Hq). exact HT. }
    destruct (list_last_cases l) as [->|(l' & x & ->)].
    + rewrite app_nil_r in Hr. rewrite Hr in Hr'. clear Hr. subst base.
      apply (IH _ rest (out_edges es q (q :: st_seen st))); cbn [st_ch st_ready st_seen].
      * exact HT'.
      * reflexivity.
      * apply good_fresh. intros e He. eapply out_edges_fresh. exact He.
      * rewrite app_length in Hm. cbn [length] in Hm. nia.
    + rewrite Hr, app_assoc in Hr'. apply app_inj_tail in Hr' as [Hrest ->]. subst rest.
      apply (IH _ base (l' ++ out_edges es q (q :: st_seen st))); cbn [st_ch st_ready st_seen].
      * exact HT'.
      * rewrite app_assoc. reflexivity.
      * apply (good_step _ _ _ p). exact Hg.
      * rewrite app_length in Hm. cbn [length] in Hm. rewrite app_length.
        destruct (mem_str q (st_seen st)) eqn:Hmq.
        -- rewrite out_edges_nil.
           2:{ intros c Hc. cbn [mem_str]. rewrite (good_last_stale _ _ _ _ _ Hg Hmq c Hc).
               apply orb_true_r. }
           cbn [length]. nia.
        -- assert (Hlt : (unseen T (q :: st_seen st) < unseen T (st_seen st))%nat).
           { apply unseen_cons_lt; [|exact Hmq]. rewrite <- HT. eapply assoc_in_keys. exact Hq. }
           nia.
Qed.

(* a by-product: the loop terminates from ANY state (no inclusion hypothesis), with an explicit bound *)
Theorem run_terminates_bound : forall es st,
  snd (run (S (length (st_ready st) +
               length es * (unseen (map fst (st_ch st)) (st_seen st) + length (st_ready st)))) es st)
  <> Raised OutOfFuel.
Proof.
  intros es st.
  apply (fuel_bound es (map fst (st_ch st)) _ st (st_ready st) []).
  - reflexivity.
  - rewrite app_nil_r. reflexivity.
  - exact I.
  - cbn [length]. lia.
Qed.

Theorem infer_fuel_suffices : forall ch es,
  snd (run (infer_fuel ch es) es (init_state ch es)) <> Raised OutOfFuel.
Proof.
  intros ch es.
  apply (fuel_bound es (map fst ch) _ (init_state ch es) (st_ready (init_state ch es)) []).
  - reflexivity.
  - rewrite app_nil_r. reflexivity.
  - exact I.
  - unfold infer_fuel. cbn [length].
    assert (H1 : (length (st_ready (init_state ch es)) <= length es)%nat).
    { unfold init_state. cbn [st_ready]. apply filter_length_le'. }
    assert (H2 : (unseen (map fst ch) (st_seen (init_state ch es)) <= length ch)%nat).
    { unfold unseen. etransitivity; [apply filter_length_le'|]. rewrite map_length. lia. }
    nia.
Qed.

Print Assumptions run_terminates.
Print Assumptions infer_terminates.
Print Assumptions run_fuel_mono.
Print Assumptions apply_edge_frame.
Print Assumptions run_names.
Print Assumptions run_frame.
Print Assumptions run_untouched.
Print Assumptions infer_types_frame.
Print Assumptions run_terminates_bound.
Print Assumptions infer_fuel_suffices.
