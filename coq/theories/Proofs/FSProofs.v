(* FSProofs.v — the path behaves as a last-writer-wins register (C15) *)
From NIR Require Import Model.FS.

Lemma frun_state st ops : fst (frun st ops) = last_write st ops.
Proof.
  revert st. induction ops as [|o r IH]; intros st; cbn [frun last_write]; [reflexivity|].
  destruct (fstep st o) as [st1 x] eqn:E. specialize (IH st1).
  destruct (frun st1 r) as [st2 xs]. cbn [fst] in *. exact IH.
Qed.

(* reads never change the state *)
Lemma read_keeps_state st : fst (fstep st FRead) = st /\ fst (fstep st FReadVersion) = st.
Proof. destruct st; split; reflexivity. Qed.

(* a successful write determines the state, whatever was there before: no residue *)
Lemma write_overwrites st st' g t : write g = Ok t -> fstep st (FWrite (Ok g)) = fstep st' (FWrite (Ok g)).
Proof. intros H. cbn [fstep]. rewrite H. reflexivity. Qed.

Lemma write_sets st g t : write g = Ok t -> fst (fstep st (FWrite (Ok g))) = FHolds t.
Proof. intros H. cbn [fstep]. rewrite H. reflexivity. Qed.

Definition is_read (o : fop) : bool := match o with FRead | FReadVersion => true | _ => false end.

Lemma reads_keep_state st ops : forallb is_read ops = true -> last_write st ops = st.
Proof.
  revert st. induction ops as [|o r IH]; intros st H; cbn [last_write]; [reflexivity|].
  cbn [forallb] in H. apply Bool.andb_true_iff in H as [Ho Hr].
  destruct o; try discriminate; rewrite (proj1 (read_keeps_state st)) || rewrite (proj2 (read_keeps_state st));
    apply IH; assumption.
Qed.

(* Last-writer-wins: after ANY history, followed by a successful write of g and any number of
   reads, the path holds exactly the tree of g, and every read returns what reading that tree
   returns — independent of the earlier history (earlier, larger or differently shaped graphs). *)
Lemma last_writer_wins st0 before g t reads :
  write g = Ok t -> forallb is_read reads = true ->
  last_write st0 (before ++ FWrite (Ok g) :: reads) = FHolds t.
Proof.
  intros Hw Hr. revert st0. induction before as [|o r IH]; intros st0; cbn [app last_write].
  - rewrite (write_sets _ _ _ Hw). apply reads_keep_state. assumption.
  - apply IH.
Qed.

Lemma read_after_history st0 before g t reads :
  write g = Ok t -> forallb is_read reads = true ->
  snd (fstep (last_write st0 (before ++ FWrite (Ok g) :: reads)) FRead) =
  match read t with Ok n => RGraph n | Err _ => RReadRaised end.
Proof. intros Hw Hr. rewrite (last_writer_wins _ _ _ _ _ Hw Hr). reflexivity. Qed.
