(* LayoutProofs.v
   GROUP L (property C03): the published on-disk layout.  An INDEPENDENT reference encoder written from
     the documentation (`doc_params`, `enc_value`, `encode_ref`) and the theorem that what `write_rec`
     produces has exactly the members of the reference (Permutation; for graphs: recursively).
   GROUP S (property C14): type inference commutes with serialisation: what inference stores in a Conv
     node is what construction needs to regain the same types.
   GROUP O (property C17): observers (to_dict / write / check_types / read) are functions of the
     dictionary form / of the tree, and do not depend on the cached graph-level types.
   Facts about Gen/Tables.v (GENERATED) are proved by computation only. *)
From NIR Require Import Model.Graph Model.Serial.
From NIR Require Import Proofs.ShapesProofs Proofs.NodesProofs Proofs.SerialProofs Proofs.MirrorClosedProofs.
From Coq Require Import Lia List Bool String Permutation Arith Wf_nat.

(* ================================================================================================ *)
(* GROUP L                                                                                          *)
(* ================================================================================================ *)

(* docs/source/primitives.md + the shipped .nir files: the parameters of each primitive, in order *)
Definition doc_params (k : kind) : list string :=
  match k with
  | KInput | KOutput => []
  | KAffine => ["weight"; "bias"]
  | KLinear => ["weight"]
  | KScale => ["scale"]
  | KConv1d | KConv2d => ["input_shape"; "weight"; "stride"; "padding"; "dilation"; "groups"; "bias"]
  | KSumPool2d | KAvgPool2d => ["kernel_size"; "stride"; "padding"]
  | KFlatten => ["start_dim"; "end_dim"]
  | KDelay => ["delay"]
  | KThreshold => ["threshold"]
  | KI => ["r"]
  | KIF => ["r"; "v_threshold"]
  | KLI => ["tau"; "r"; "v_leak"]
  | KLIF => ["tau"; "r"; "v_leak"; "v_threshold"]
  | KCubaLIF => ["tau_syn"; "tau_mem"; "r"; "v_leak"; "v_threshold"; "w_in"]
  | KGraph => []
  end.

(* the dataclass fields of the REGENERATED table that are parameters: everything except the two type
   annotations and the metadata dictionary *)
Definition non_param (f : string) : bool := mem_str f ["input_type"; "output_type"; "metadata"].

Definition table_params (k : kind) : option (list string) :=
  option_map (filter (fun f => negb (non_param f))) (assoc (kind_name k) asdict_table).

(* (L1) *)
Theorem doc_params_match_source : forall k, k <> KGraph -> table_params k = Some (doc_params k).
Proof. intros k Hk. destruct k; try (vm_compute; reflexivity). congruence. Qed.

(* every leaf class carries a metadata dictionary, and asdict / the class table agree on the names *)
Theorem every_class_has_metadata : forall k,
  option_map (mem_str "metadata") (assoc (kind_name k) asdict_table) = Some true.
Proof. intros k. destruct k; vm_compute; reflexivity. Qed.

Theorem asdict_table_is_class_table : forall k,
  assoc (kind_name k) asdict_table = option_map keys (class_fields k).
Proof. intros k. destruct k; vm_compute; reflexivity. Qed.

(* the graph class: nodes, edges (+ the two cached types and metadata) *)
Theorem graph_params_match_source : table_params KGraph = Some ["nodes"; "edges"].
Proof. vm_compute. reflexivity. Qed.

Lemma doc_params_NoDup k : NoDup (doc_params k ++ ["metadata"]).
Proof. apply nodupb_NoDup. destruct k; vm_compute; reflexivity. Qed.

(* (L4) the root of the file *)
Theorem file_root : forall g t, write g = Ok t ->
  exists m, t = H5Group [("version", H5Str "vlen-utf-8" nir_version); ("node", H5Group m)]
            /\ read_version t = Ok nir_version.
Proof.
  intros g t H. unfold write in H. apply bind_ok in H as (m & _ & Ht). inversion Ht; subst t.
  exists m. split; reflexivity.
Qed.

(* ================================================================================================ *)
(* GROUP S                                                                                          *)
(* ================================================================================================ *)

(* (S1) inference passes the kernel as weight.shape[2:], construction as weight.shape[2] *)
Lemma conv_out_kernel_form (n k : Z) (p d s : hp) :
  conv_out (HInt n) p d (HInt k) s = conv_out (HInt n) p d (HSeq [k]) s.
Proof.
  unfold conv_out. cbn [hp_ndim bind]. change (Z.to_nat 1) with 1%nat.
  cbn [conv_out_axes index_tuple]. rewrite py_index_0. reflexivity.
Qed.

(* (S3) what inference stored survives the file *)
Lemma stored_annotation_survives_file_scalar n : norm_val (np_int n) = Ok (np_int n).
Proof. reflexivity. Qed.

Lemma stored_annotation_survives_file_pair a b v' :
  norm_val (VTuple [np_int a; np_int b]) = Ok v' -> seq_view v' = Some [a; b].
Proof.
  intros H. apply (norm_val_ints [np_int a; np_int b] [a; b] v'); [reflexivity|discriminate|left; exact H].
Qed.

Theorem stored_annotation_survives_file :
  (forall n, norm_val (np_int n) = Ok (np_int n)) /\
  (forall a b v', norm_val (VTuple [np_int a; np_int b]) = Ok v' -> seq_view v' = Some [a; b]).
Proof. split; [exact stored_annotation_survives_file_scalar|exact stored_annotation_survives_file_pair]. Qed.

(* ================================================================================================ *)
(* GROUP O                                                                                          *)
(* ================================================================================================ *)

(* (O1) the cached graph-level types are not observed by to_dict, write, check_types *)
Theorem to_dict_ignores_cached_types ch es gi go gi' go' m :
  to_dict (Graph ch es gi go m) = to_dict (Graph ch es gi' go' m).
Proof. reflexivity. Qed.

Theorem write_ignores_cached_types ch es gi go gi' go' m :
  write (Graph ch es gi go m) = write (Graph ch es gi' go' m).
Proof. reflexivity. Qed.

Theorem check_types_ignores_cached_types ch es gi go gi' go' m :
  check_types (Graph ch es gi go m) = check_types (Graph ch es gi' go' m).
Proof. reflexivity. Qed.

(* (O2) write depends on the graph only through its dictionary form *)
Theorem write_through_dict g g' : to_dict g = to_dict g' -> write g = write g'.
Proof. intros H. unfold write. rewrite H. reflexivity. Qed.

(* (O3) read is a function of the tree *)
Theorem read_functional t g1 g2 : read t = Ok g1 -> read t = Ok g2 -> g1 = g2.
Proof. intros H1 H2. rewrite H1 in H2. inversion H2. reflexivity. Qed.

(* ================================================================================================ *)
(* GROUP S, continued: (S2)                                                                         *)
(* ================================================================================================ *)

(* ---- dataclass binding: what is passed is what is stored --------------------------------------- *)
Lemma bind_fields_ok tbl : forall args,
  (forall f, In (f, FMandatory) tbl -> assoc f args <> None) ->
  ~ In FUnknown (map snd tbl) ->
  exists b, bind_fields tbl args = Ok b /\ keys b = keys tbl /\
            forall f v, assoc f args = Some v -> In f (keys tbl) -> assoc f b = Some v.
Proof.
  induction tbl as [|[f0 d0] tbl IH]; intros args Hm Hu.
  - exists []. repeat split. intros f v _ [].
  - destruct (IH args) as (b & Hb & Hk & Ha).
    { intros f Hf. apply Hm. right. exact Hf. }
    { intros Hf. apply Hu. right. exact Hf. }
    cbn [bind_fields].
    assert (Hv : exists v0, match assoc f0 args with
                            | Some v => Ok v
                            | None => match d0 with
                                      | FMandatory => Err TypeError
                                      | FDefault v => Ok v
                                      | FDictFactory => Ok (VDict [])
                                      | FUnknown => Err OtherError
                                      end
                            end = Ok v0 /\ (forall v, assoc f0 args = Some v -> v0 = v)).
    { destruct (assoc f0 args) as [v|] eqn:E.
      - exists v. split; [reflexivity|]. intros v' Hv'. inversion Hv'. reflexivity.
      - destruct d0.
        + exfalso. apply (Hm f0); [left; reflexivity|exact E].
        + eexists. split; [reflexivity|]. intros v' Hv'. discriminate.
        + eexists. split; [reflexivity|]. intros v' Hv'. discriminate.
        + exfalso. apply Hu. left. reflexivity. }
    destruct Hv as (v0 & Hv0 & Hsame). rewrite Hv0. cbn [bind]. rewrite Hb. cbn [bind].
    exists ((f0, v0) :: b). split; [reflexivity|]. split.
    + unfold keys in *. cbn [map fst]. rewrite Hk. reflexivity.
    + intros f v Hf Hin. cbn [assoc]. destruct (String.eqb f f0) eqn:E.
      * apply String.eqb_eq in E. subst f0. rewrite (Hsame v Hf). reflexivity.
      * apply Ha; [exact Hf|]. destruct Hin as [Hin|Hin]; [|exact Hin].
        cbn [fst] in Hin. subst f0. rewrite String.eqb_refl in E. discriminate.
Qed.

Definition class_keys (k : kind) : list string :=
  match class_fields k with Some l => keys l | None => [] end.

Lemma keys_assoc_set {A} f k (v : A) l : In f (keys (assoc_set k v l)) -> f = k \/ In f (keys l).
Proof.
  unfold keys. induction l as [|[k0 v0] r IH]; cbn [assoc_set map fst In].
  - intros [H|[]]. left. symmetry. exact H.
  - destruct (String.eqb k k0) eqn:E; cbn [map fst In].
    + intros [H|H]; [left; symmetry; exact H|right; right; exact H].
    + intros [H|H]; [right; left; exact H|]. destruct (IH H) as [H1|H1]; [left; exact H1|right; right; exact H1].
Qed.

(* binding the stored fields of a Conv node against the REGENERATED class table *)
Lemma bind_conv_fields k fs :
  k = KConv1d \/ k = KConv2d ->
  (forall f, In f (keys fs) -> In f (class_keys k)) ->
  (forall f, In f ["input_shape"; "weight"; "stride"; "padding"; "dilation"; "groups"; "bias"] ->
             assoc f fs <> None) ->
  exists b, bind_args k fs = Ok b /\
            forall f v, assoc f fs = Some v -> assoc f b = Some v.
Proof.
  intros Hk Hkeys Hpres. unfold bind_args.
  assert (Hcf : exists tbl, class_fields k = Some tbl /\ class_keys k = keys tbl /\
                            (forall f, In (f, FMandatory) tbl ->
                               In f ["input_shape"; "weight"; "stride"; "padding"; "dilation"; "groups"; "bias"]) /\
                            ~ In FUnknown (map snd tbl)).
  { destruct Hk; subst k; eexists; (split; [reflexivity|]); (split; [reflexivity|]); split.
    - intros f Hf. cbn in Hf.
      repeat (destruct Hf as [Hf|Hf]; [inversion Hf; subst; cbn; timeout 20 tauto|]). destruct Hf.
    - cbn. intros Hf. repeat (destruct Hf as [Hf|Hf]; [discriminate|]). exact Hf.
    - intros f Hf. cbn in Hf.
      repeat (destruct Hf as [Hf|Hf]; [inversion Hf; subst; cbn; timeout 20 tauto|]). destruct Hf.
    - cbn. intros Hf. repeat (destruct Hf as [Hf|Hf]; [discriminate|]). exact Hf. }
  destruct Hcf as (tbl & Hcf & Hck & Hmand & Hunk). rewrite Hcf.
  assert (Hall : forallb (fun a => mem_str (fst a) (keys tbl)) fs = true).
  { apply forallb_forall. intros [f v] Hin. cbn [fst]. apply mem_str_In. rewrite <- Hck. apply Hkeys.
    unfold keys. apply in_map_iff. exists (f, v). split; [reflexivity|exact Hin]. }
  rewrite Hall.
  destruct (bind_fields_ok tbl fs) as (b & Hb & _ & Ha).
  { intros f Hf. apply Hpres. apply Hmand. exact Hf. }
  { exact Hunk. }
  exists b. split; [exact Hb|]. intros f v Hf. apply Ha; [exact Hf|].
  rewrite <- Hck. apply Hkeys. unfold keys. apply in_map_iff. exists (f, v). split; [reflexivity|].
  apply assoc_In. exact Hf.
Qed.

(* ---- a convolution that succeeds had an admissible padding ---------------------------------------- *)
Lemma conv_out_ok_pad inp pad d k st out nd m :
  hp_ndim inp = Ok nd -> Z.to_nat nd = S m ->
  conv_out inp (hp_of pad) d k st = Ok out -> pad_is_bad_string pad = false.
Proof.
  intros Hnd Hm H. destruct (pad_is_bad_string pad) eqn:Hb; [|reflexivity]. exfalso.
  unfold conv_out in H. rewrite Hnd in H. cbn [bind] in H. rewrite Hm in H.
  destruct pad as [| | | |s|s| | | | |]; try discriminate Hb.
  - cbn [pad_is_bad_string] in Hb. apply negb_true_iff in Hb. apply orb_false_iff in Hb as [H1 H2].
    cbn [hp_of int_view hp_is_str] in H.
    rewrite (String.eqb_sym "valid" s), H2 in H.
    cbn [conv_out_axes hp_is_str] in H. rewrite (String.eqb_sym "same" s), H1 in H.
    destruct (index_tuple inp 0); cbn [bind index_tuple] in H; discriminate.
  - cbn [hp_of int_view hp_is_str] in H. cbn [conv_out_axes hp_is_str] in H.
    destruct (index_tuple inp 0); cbn [bind index_tuple] in H; discriminate.
Qed.

(* ---- Conv1d ------------------------------------------------------------------------------------------ *)
Lemma derive_conv1d_inv fs pre c n co k fs' tout :
  derive_output KConv1d fs pre [("input", TArr [c; n])] = (fs', Some tout, None) ->
  fld_shape "weight" fs = Ok [co; c; k] ->
  exists pad dil stride out,
    fs' = assoc_set "input_shape" (np_int n) fs /\
    fld "padding" fs = Ok pad /\ fld "dilation" fs = Ok dil /\ fld "stride" fs = Ok stride /\
    conv_out (HInt n) (hp_of pad) (hp_of dil) (HSeq [k]) (hp_of stride) = Ok out /\
    tout = [("output", TArr (co :: out))].
Proof.
  intros H Hw. unfold derive_output, get_key, tyv_index in H.
  cbn [assoc String.eqb Ascii.eqb Bool.eqb bind tyv_nums] in H.
  change (kind_eqb KConv1d KConv1d) with true in H. cbv iota in H.
  rewrite py_index_1 in H. cbn [bind] in H. rewrite Hw in H. cbn [bind skipn] in H.
  destruct (fld "padding" fs) as [pad|] eqn:Hp; cbn [bind] in H; [|discriminate].
  destruct (fld "dilation" fs) as [dil|] eqn:Hd; cbn [bind] in H; [|discriminate].
  destruct (fld "stride" fs) as [stride|] eqn:Hs; cbn [bind] in H; [|discriminate].
  change (hp_of (np_int n)) with (HInt n) in H.
  destruct (conv_out (HInt n) (hp_of pad) (hp_of dil) (HSeq [k]) (hp_of stride)) as [out|] eqn:Ho;
    cbn [bind] in H; [|discriminate].
  rewrite py_index_0 in H. cbn [bind] in H. inversion H; subst.
  exists pad, dil, stride, out. repeat split; try reflexivity; assumption.
Qed.

Lemma conv1d_post fs2 c n co k pad dil stride out :
  fld "padding" fs2 = Ok pad -> fld "input_shape" fs2 = Ok (np_int n) ->
  fld_shape "weight" fs2 = Ok [co; c; k] -> fld "stride" fs2 = Ok stride -> fld "dilation" fs2 = Ok dil ->
  conv_out (HInt n) (hp_of pad) (hp_of dil) (HSeq [k]) (hp_of stride) = Ok out ->
  post_init KConv1d fs2 =
  Ok (Leaf KConv1d (drop_types fs2) (arr_ty "input" [c; n]) (arr_ty "output" (co :: out))).
Proof.
  intros Hp Hi Hw Hs Hd Ho. unfold post_init. rewrite Hp. cbn [bind].
  rewrite (conv_out_ok_pad (HInt n) pad _ _ _ out 1 0 eq_refl eq_refl Ho).
  rewrite Hi. cbn [bind]. unfold np_int. rewrite Hw. cbn [bind].
  rewrite py_index_1. cbn [bind int_view]. rewrite py_index_2, py_index_0. cbn [bind].
  rewrite Hs, Hd. cbn [bind]. rewrite conv_out_kernel_form, Ho. reflexivity.
Qed.

(* the fields of the target list agree with those of the source on the given names *)
Definition agree_on (names : list string) (a b : list (string * pval)) : Prop :=
  forall f, In f names -> assoc f b = assoc f a.

Lemma agree_fld names a b f : agree_on names a b -> In f names -> fld f b = fld f a.
Proof. intros H Hin. unfold fld. rewrite (H f Hin). reflexivity. Qed.

Lemma agree_fld_shape names a b f : agree_on names a b -> In f names -> fld_shape f b = fld_shape f a.
Proof. intros H Hin. unfold fld_shape. rewrite (agree_fld _ _ _ _ H Hin). reflexivity. Qed.

Definition conv_reads : list string := ["input_shape"; "weight"; "stride"; "padding"; "dilation"].

Lemma fld_set_same f v fs : fld f (assoc_set f v fs) = Ok v.
Proof. unfold fld. rewrite assoc_assoc_set, String.eqb_refl. reflexivity. Qed.

Lemma fld_set_other f g v fs : f <> g -> fld f (assoc_set g v fs) = fld f fs.
Proof. intros H. unfold fld. rewrite assoc_set_other by exact H. reflexivity. Qed.

Lemma fld_shape_set_other f g v fs : f <> g -> fld_shape f (assoc_set g v fs) = fld_shape f fs.
Proof. intros H. unfold fld_shape. rewrite fld_set_other by exact H. reflexivity. Qed.

(* (S2) post_init level: ANY field list that agrees with the inferred one on the five fields the
   constructor reads (in particular the inferred list itself, or the one bind_args produces by adding
   input_type=None / output_type=None) is typed exactly as inference typed the node *)
Theorem conv1d_regain_post : forall fs pre c n co k fs' tout fs2,
  derive_output KConv1d fs pre [("input", TArr [c; n])] = (fs', Some tout, None) ->
  fld_shape "weight" fs = Ok [co; c; k] ->
  agree_on conv_reads fs' fs2 ->
  post_init KConv1d fs2 = Ok (Leaf KConv1d (drop_types fs2) (Some [("input", TArr [c; n])]) (Some tout)).
Proof.
  intros fs pre c n co k fs' tout fs2 H Hw Hag.
  destruct (derive_conv1d_inv _ _ _ _ _ _ _ _ H Hw) as (pad & dil & stride & out & -> & Hp & Hd & Hs & Ho & ->).
  apply (conv1d_post fs2 c n co k pad dil stride out).
  - rewrite (agree_fld _ _ _ _ Hag) by (cbn; timeout 20 tauto). rewrite fld_set_other by discriminate. exact Hp.
  - rewrite (agree_fld _ _ _ _ Hag) by (cbn; timeout 20 tauto). apply fld_set_same.
  - rewrite (agree_fld_shape _ _ _ _ Hag) by (cbn; timeout 20 tauto).
    rewrite fld_shape_set_other by discriminate. exact Hw.
  - rewrite (agree_fld _ _ _ _ Hag) by (cbn; timeout 20 tauto). rewrite fld_set_other by discriminate. exact Hs.
  - rewrite (agree_fld _ _ _ _ Hag) by (cbn; timeout 20 tauto). rewrite fld_set_other by discriminate. exact Hd.
  - exact Ho.
Qed.

Lemma fld_ok_assoc f fs v : fld f fs = Ok v -> assoc f fs = Some v.
Proof. unfold fld. destruct (assoc f fs); intros H; inversion H; reflexivity. Qed.

Lemma fld_shape_ok_assoc f fs sh : fld_shape f fs = Ok sh -> assoc f fs <> None.
Proof. unfold fld_shape, fld. destruct (assoc f fs); [discriminate|]. cbn. discriminate. Qed.

(* (S2) construction level: calling the constructor with the inferred fields as keyword arguments *)
Theorem conv1d_regain : forall fs pre c n co k fs' tout,
  derive_output KConv1d fs pre [("input", TArr [c; n])] = (fs', Some tout, None) ->
  fld_shape "weight" fs = Ok [co; c; k] ->
  (forall f, In f (keys fs) -> In f (class_keys KConv1d)) ->   (* fs holds dataclass fields only *)
  assoc "groups" fs <> None -> assoc "bias" fs <> None ->       (* the two fields inference never reads *)
  exists fs3, construct KConv1d fs' = Ok (Leaf KConv1d fs3 (Some [("input", TArr [c; n])]) (Some tout)).
Proof.
  intros fs pre c n co k fs' tout H Hw Hkeys Hg Hb.
  destruct (derive_conv1d_inv _ _ _ _ _ _ _ _ H Hw) as (pad & dil & stride & out & Hfs' & Hp & Hd & Hs & Ho & Ht).
  destruct (bind_conv_fields KConv1d fs') as (b & Hbind & Hsame).
  - left. reflexivity.
  - intros f Hf. subst fs'. apply keys_assoc_set in Hf as [->|Hf]; [|apply Hkeys; exact Hf].
    vm_compute. timeout 20 tauto.
  - intros f Hf. subst fs'. rewrite assoc_assoc_set.
    destruct (String.eqb f "input_shape") eqn:E; [discriminate|].
    cbn [In] in Hf. destruct Hf as [<-|[<-|[<-|[<-|[<-|[<-|[<-|[]]]]]]]]; try discriminate E.
    + eapply fld_shape_ok_assoc. exact Hw.
    + rewrite (fld_ok_assoc _ _ _ Hs). discriminate.
    + rewrite (fld_ok_assoc _ _ _ Hp). discriminate.
    + rewrite (fld_ok_assoc _ _ _ Hd). discriminate.
    + exact Hg.
    + exact Hb.
  - unfold construct. rewrite Hbind. cbn [bind]. eexists.
    apply (conv1d_regain_post fs pre c n co k fs' tout b H Hw).
    intros f Hf. subst fs'.
    destruct (assoc f (assoc_set "input_shape" (np_int n) fs)) as [v|] eqn:E.
    + apply Hsame. exact E.
    + exfalso. rewrite assoc_assoc_set in E.
      destruct (String.eqb f "input_shape") eqn:E2; [discriminate|].
      unfold conv_reads in Hf. cbn [In] in Hf. destruct Hf as [<-|[<-|[<-|[<-|[<-|[]]]]]]; try discriminate E2.
      * apply (fld_shape_ok_assoc _ _ _ Hw). exact E.
      * rewrite (fld_ok_assoc _ _ _ Hs) in E. discriminate.
      * rewrite (fld_ok_assoc _ _ _ Hp) in E. discriminate.
      * rewrite (fld_ok_assoc _ _ _ Hd) in E. discriminate.
Qed.

(* ---- Conv2d ------------------------------------------------------------------------------------------ *)
(* Conv2d.__post_init__ turns a Python int hyper-parameter into a pair; on a 2-d input this does not
   change what calculate_conv_output reads *)
Lemma index_tuple_pair_if_int v i : i = 0 \/ i = 1 ->
  index_tuple (hp_of (pair_if_int v)) i = index_tuple (hp_of v) i.
Proof.
  intros Hi. destruct v; try reflexivity.
  - cbn [pair_if_int]. change (hp_of (VTuple [VInt z; VInt z])) with (HSeq [z; z]).
    change (hp_of (VInt z)) with (HInt z). cbn [index_tuple].
    destruct Hi as [->| ->]; [apply py_index_0|apply py_index_1].
  - cbn [pair_if_int]. change (hp_of (VTuple [VBool b; VBool b])) with (HSeq [if b then 1 else 0; if b then 1 else 0]).
    change (hp_of (VBool b)) with (HInt (if b then 1 else 0)). cbn [index_tuple].
    destruct Hi as [->| ->]; [apply py_index_0|apply py_index_1].
Qed.

Lemma hp_is_str_pair_if_int v s : hp_is_str (hp_of (pair_if_int v)) s = hp_is_str (hp_of v) s.
Proof. destruct v; reflexivity. Qed.

Lemma conv_out_axes2_ext inp p p' d d' k s s' :
  hp_is_str p "same" = hp_is_str p' "same" ->
  (forall i, i = 0 \/ i = 1 -> index_tuple p i = index_tuple p' i) ->
  (forall i, i = 0 \/ i = 1 -> index_tuple d i = index_tuple d' i) ->
  (forall i, i = 0 \/ i = 1 -> index_tuple s i = index_tuple s' i) ->
  conv_out_axes inp p d k s 0 2 = conv_out_axes inp p' d' k s' 0 2.
Proof.
  intros Hs Hp Hd Hst. cbn [conv_out_axes]. change (0 + 1) with 1.
  rewrite Hs, !(Hp 0), !(Hp 1), !(Hd 0), !(Hd 1), !(Hst 0), !(Hst 1) by (timeout 20 tauto). reflexivity.
Qed.

Lemma conv_out_pair_if_int n1 n2 pad dil stride k :
  conv_out (HSeq [n1; n2]) (hp_of (pair_if_int pad)) (hp_of (pair_if_int dil)) k (hp_of (pair_if_int stride)) =
  conv_out (HSeq [n1; n2]) (hp_of pad) (hp_of dil) k (hp_of stride).
Proof.
  unfold conv_out. cbn [hp_ndim bind]. change (Z.to_nat (lenZ [n1; n2])) with 2%nat.
  rewrite hp_is_str_pair_if_int.
  destruct (hp_is_str (hp_of pad) "valid").
  - apply conv_out_axes2_ext; [reflexivity|reflexivity| |]; intros i Hi; apply index_tuple_pair_if_int; exact Hi.
  - apply conv_out_axes2_ext; [apply hp_is_str_pair_if_int| | |]; intros i Hi; apply index_tuple_pair_if_int; exact Hi.
Qed.

Definition ish2 (n1 n2 : Z) : pval := VTuple [np_int n1; np_int n2].

Lemma derive_conv2d_inv fs pre c n1 n2 co k1 k2 fs' tout :
  derive_output KConv2d fs pre [("input", TArr [c; n1; n2])] = (fs', Some tout, None) ->
  fld_shape "weight" fs = Ok [co; c; k1; k2] ->
  exists pad dil stride out,
    fs' = assoc_set "input_shape" (ish2 n1 n2) fs /\
    fld "padding" fs = Ok pad /\ fld "dilation" fs = Ok dil /\ fld "stride" fs = Ok stride /\
    conv_out (HSeq [n1; n2]) (hp_of pad) (hp_of dil) (HSeq [k1; k2]) (hp_of stride) = Ok out /\
    tout = [("output", TArr (co :: out))].
Proof.
  intros H Hw. unfold derive_output, get_key, tyv_from in H.
  cbn [assoc String.eqb Ascii.eqb Bool.eqb bind tyv_nums] in H.
  change (kind_eqb KConv2d KConv1d) with false in H. cbv iota in H.
  change (py_slice [c; n1; n2] (Some 1) None) with [n1; n2] in H. cbn [bind map] in H.
  rewrite Hw in H. cbn [bind skipn] in H.
  destruct (fld "padding" fs) as [pad|] eqn:Hp; cbn [bind] in H; [|discriminate].
  destruct (fld "dilation" fs) as [dil|] eqn:Hd; cbn [bind] in H; [|discriminate].
  destruct (fld "stride" fs) as [stride|] eqn:Hs; cbn [bind] in H; [|discriminate].
  change (hp_of (VTuple [np_int n1; np_int n2])) with (HSeq [n1; n2]) in H.
  destruct (conv_out (HSeq [n1; n2]) (hp_of pad) (hp_of dil) (HSeq [k1; k2]) (hp_of stride)) as [out|] eqn:Ho;
    cbn [bind] in H; [|discriminate].
  rewrite py_index_0 in H. cbn [bind] in H. inversion H; subst.
  exists pad, dil, stride, out. repeat split; try reflexivity; assumption.
Qed.

Lemma conv2d_post fs2 c n1 n2 co k1 k2 pad dil stride out :
  fld "padding" fs2 = Ok pad -> fld "input_shape" fs2 = Ok (ish2 n1 n2) ->
  fld_shape "weight" fs2 = Ok [co; c; k1; k2] -> fld "stride" fs2 = Ok stride -> fld "dilation" fs2 = Ok dil ->
  conv_out (HSeq [n1; n2]) (hp_of pad) (hp_of dil) (HSeq [k1; k2]) (hp_of stride) = Ok out ->
  exists fs3,
  post_init KConv2d fs2 =
  Ok (Leaf KConv2d fs3 (arr_ty "input" [c; n1; n2]) (arr_ty "output" (co :: out))).
Proof.
  intros Hp Hi Hw Hs Hd Ho. unfold post_init. rewrite Hp. cbn [bind].
  rewrite (conv_out_ok_pad (HSeq [n1; n2]) pad _ _ _ out 2 1 eq_refl eq_refl Ho).
  rewrite Hs, Hd. cbn [bind]. rewrite Hi. cbn [bind]. unfold ish2. rewrite Hw. cbn [bind].
  rewrite py_index_1. cbn [bind].
  change (seq_view (VTuple [np_int n1; np_int n2])) with (Some [n1; n2]).
  rewrite py_index_0. cbn [bind skipn].
  change (hp_of (VTuple [np_int n1; np_int n2])) with (HSeq [n1; n2]).
  rewrite conv_out_pair_if_int, Ho. cbn [bind]. eexists. reflexivity.
Qed.

Theorem conv2d_regain_post : forall fs pre c n1 n2 co k1 k2 fs' tout fs2,
  derive_output KConv2d fs pre [("input", TArr [c; n1; n2])] = (fs', Some tout, None) ->
  fld_shape "weight" fs = Ok [co; c; k1; k2] ->
  agree_on conv_reads fs' fs2 ->
  fld "input_shape" fs' = Ok (VTuple [np_int n1; np_int n2]) /\
  exists fs3,
    post_init KConv2d fs2 = Ok (Leaf KConv2d fs3 (Some [("input", TArr [c; n1; n2])]) (Some tout)).
Proof.
  intros fs pre c n1 n2 co k1 k2 fs' tout fs2 H Hw Hag.
  destruct (derive_conv2d_inv _ _ _ _ _ _ _ _ _ _ H Hw)
    as (pad & dil & stride & out & -> & Hp & Hd & Hs & Ho & ->).
  split; [apply fld_set_same|].
  apply (conv2d_post fs2 c n1 n2 co k1 k2 pad dil stride out).
  - rewrite (agree_fld _ _ _ _ Hag) by (cbn; timeout 20 tauto). rewrite fld_set_other by discriminate. exact Hp.
  - rewrite (agree_fld _ _ _ _ Hag) by (cbn; timeout 20 tauto). apply fld_set_same.
  - rewrite (agree_fld_shape _ _ _ _ Hag) by (cbn; timeout 20 tauto).
    rewrite fld_shape_set_other by discriminate. exact Hw.
  - rewrite (agree_fld _ _ _ _ Hag) by (cbn; timeout 20 tauto). rewrite fld_set_other by discriminate. exact Hs.
  - rewrite (agree_fld _ _ _ _ Hag) by (cbn; timeout 20 tauto). rewrite fld_set_other by discriminate. exact Hd.
  - exact Ho.
Qed.

Theorem conv2d_regain : forall fs pre c n1 n2 co k1 k2 fs' tout,
  derive_output KConv2d fs pre [("input", TArr [c; n1; n2])] = (fs', Some tout, None) ->
  fld_shape "weight" fs = Ok [co; c; k1; k2] ->
  (forall f, In f (keys fs) -> In f (class_keys KConv2d)) ->
  assoc "groups" fs <> None -> assoc "bias" fs <> None ->
  fld "input_shape" fs' = Ok (VTuple [np_int n1; np_int n2]) /\
  exists fs3, construct KConv2d fs' = Ok (Leaf KConv2d fs3 (Some [("input", TArr [c; n1; n2])]) (Some tout)).
Proof.
  intros fs pre c n1 n2 co k1 k2 fs' tout H Hw Hkeys Hg Hb.
  destruct (derive_conv2d_inv _ _ _ _ _ _ _ _ _ _ H Hw)
    as (pad & dil & stride & out & Hfs' & Hp & Hd & Hs & Ho & Ht).
  split; [subst fs'; apply fld_set_same|].
  destruct (bind_conv_fields KConv2d fs') as (b & Hbind & Hsame).
  - right. reflexivity.
  - intros f Hf. subst fs'. apply keys_assoc_set in Hf as [->|Hf]; [|apply Hkeys; exact Hf].
    vm_compute. timeout 20 tauto.
  - intros f Hf. subst fs'. rewrite assoc_assoc_set.
    destruct (String.eqb f "input_shape") eqn:E; [discriminate|].
    cbn [In] in Hf. destruct Hf as [<-|[<-|[<-|[<-|[<-|[<-|[<-|[]]]]]]]]; try discriminate E.
    + eapply fld_shape_ok_assoc. exact Hw.
    + rewrite (fld_ok_assoc _ _ _ Hs). discriminate.
    + rewrite (fld_ok_assoc _ _ _ Hp). discriminate.
    + rewrite (fld_ok_assoc _ _ _ Hd). discriminate.
    + exact Hg.
    + exact Hb.
  - unfold construct. rewrite Hbind. cbn [bind].
    apply (conv2d_regain_post fs pre c n1 n2 co k1 k2 fs' tout b H Hw).
    intros f Hf. subst fs'.
    destruct (assoc f (assoc_set "input_shape" (ish2 n1 n2) fs)) as [v|] eqn:E.
    + apply Hsame. exact E.
    + exfalso. rewrite assoc_assoc_set in E.
      destruct (String.eqb f "input_shape") eqn:E2; [discriminate|].
      unfold conv_reads in Hf. cbn [In] in Hf. destruct Hf as [<-|[<-|[<-|[<-|[<-|[]]]]]]; try discriminate E2.
      * apply (fld_shape_ok_assoc _ _ _ Hw). exact E.
      * rewrite (fld_ok_assoc _ _ _ Hs) in E. discriminate.
      * rewrite (fld_ok_assoc _ _ _ Hp) in E. discriminate.
      * rewrite (fld_ok_assoc _ _ _ Hd) in E. discriminate.
Qed.

(* ================================================================================================ *)
(* GROUP L, continued: (L2) the reference encoder                                                   *)
(* ================================================================================================ *)

(* the documented rule for one value: text -> variable-length UTF-8 string dataset; ndarray -> dataset of
   that array; dictionary -> group of its entries; anything else -> what h5py makes of it (np.asarray) *)
Fixpoint enc_value (v : pval) : result h5 :=
  match v with
  | VStr s => Ok (H5Str "vlen-utf-8" s)
  | VArr _ _ _ _ => Ok (H5Data v)
  | VDict l =>
    do m <- (fix go (l : list (string * pval)) : result (list (string * h5)) :=
               match l with
               | [] => Ok []
               | (k, x) :: r => do y <- enc_value x; do ys <- go r; Ok ((k, y) :: ys)
               end) l;
    Ok (H5Group m)
  | _ => np_asarray v
  end.

Definition enc_members : list (string * pval) -> result (list (string * h5)) :=
  fix go (l : list (string * pval)) : result (list (string * h5)) :=
    match l with
    | [] => Ok []
    | (k, x) :: r => do y <- enc_value x; do ys <- go r; Ok ((k, y) :: ys)
    end.

Lemma enc_value_dict l : enc_value (VDict l) = do m <- enc_members l; Ok (H5Group m).
Proof. reflexivity. Qed.

Lemma enc_members_cons k x r :
  enc_members ((k, x) :: r) = do y <- enc_value x; do ys <- enc_members r; Ok ((k, y) :: ys).
Proof. reflexivity. Qed.

(* "metadata" is stored as a group iff the dictionary is non-empty *)
Definition enc_meta (m : option pval) : result (list (string * h5)) :=
  match m with
  | None => Ok []
  | Some (VDict []) => Ok []
  | Some v => do y <- enc_value v; Ok [("metadata", y)]
  end.

Definition enc_param (fs : list (string * pval)) (p : string) : result (string * h5) :=
  match assoc p fs with
  | Some v => do y <- enc_value v; Ok (p, y)
  | None => Err KeyError
  end.

(* class-specific entry: Input/Output store "shape", Flatten stores "input_type" *)
Definition enc_extra (k : kind) (tin tout : ty) : result (list (string * h5)) :=
  match k with
  | KInput => do y <- enc_value (ty_get "input" tin); Ok [("shape", y)]
  | KOutput => do y <- enc_value (ty_get "output" tout); Ok [("shape", y)]
  | KFlatten => do y <- enc_value (ty_get "input" tin); Ok [("input_type", y)]
  | _ => Ok []
  end.

Definition edges_value (es : list (string * string)) : pval :=
  VList (map (fun e => VTuple [VStr (fst e); VStr (snd e)]) es).

Fixpoint encode_ref (n : node) : result (list (string * h5)) :=
  match n with
  | Leaf k fs tin tout =>
    do ps <- mapM (enc_param fs) (doc_params k);
    do ex <- enc_extra k tin tout;
    do md <- enc_meta (assoc "metadata" fs);
    Ok ([("type", H5Str "vlen-utf-8" (kind_name k))] ++ ps ++ ex ++ md)
  | Graph ch es _ _ meta =>
    do ns <- (fix go (l : list (string * node)) : result (list (string * h5)) :=
                match l with
                | [] => Ok []
                | (name, c) :: r => do m <- encode_ref c; do ms <- go r; Ok ((name, H5Group m) :: ms)
                end) ch;
    do e <- enc_value (edges_value es);
    do md <- enc_meta (Some meta);
    Ok ([("type", H5Str "vlen-utf-8" "NIRGraph"); ("nodes", H5Group ns); ("edges", e)] ++ md)
  end.

Definition enc_children : list (string * node) -> result (list (string * h5)) :=
  fix go (l : list (string * node)) : result (list (string * h5)) :=
    match l with
    | [] => Ok []
    | (name, c) :: r => do m <- encode_ref c; do ms <- go r; Ok ((name, H5Group m) :: ms)
    end.

Lemma encode_ref_graph ch es gi go m :
  encode_ref (Graph ch es gi go m) =
  do ns <- enc_children ch;
  do e <- enc_value (edges_value es);
  do md <- enc_meta (Some m);
  Ok ([("type", H5Str "vlen-utf-8" "NIRGraph"); ("nodes", H5Group ns); ("edges", e)] ++ md).
Proof. reflexivity. Qed.

Lemma enc_children_cons name c r :
  enc_children ((name, c) :: r) =
  do m <- encode_ref c; do ms <- enc_children r; Ok ((name, H5Group m) :: ms).
Proof. reflexivity. Qed.

(* the whole file *)
Definition encode_file (g : node) : result h5 :=
  do m <- encode_ref g;
  Ok (H5Group [("version", H5Str "vlen-utf-8" nir_version); ("node", H5Group m)]).

(* ---- side condition: ordinary nested dictionaries ------------------------------------------------- *)
(* The documentation speaks of "metadata" only as an attribute of a node.  The implementation applies the
   same special case (drop when empty, must be a dictionary) to a key called "metadata" at ANY depth of
   any dictionary-valued field.  `plain v` excludes that corner: no dictionary nested in v has a key
   "metadata".  See `plain_needed` below for the concrete difference. *)
Fixpoint plain (v : pval) : Prop :=
  match v with
  | VDict l =>
    (fix all (l : list (string * pval)) : Prop :=
       match l with [] => True | p :: r => (fst p <> "metadata" /\ plain (snd p)) /\ all r end) l
  | _ => True
  end.

Definition plain_entries (l : list (string * pval)) : Prop :=
  Forall (fun p => fst p <> "metadata" /\ plain (snd p)) l.

Lemma plain_dict l : plain (VDict l) <-> plain_entries l.
Proof.
  unfold plain_entries. cbn [plain]. induction l as [|p r IH].
  - split; [constructor|trivial].
  - split.
    + intros [H1 H2]. constructor; [exact H1|apply IH; exact H2].
    + intros H. inversion H as [|? ? H1 H2]. split; [exact H1|apply IH; exact H2].
Qed.

(* ---- write_rec, one entry at a time ---------------------------------------------------------------- *)
Definition wentry (f : nat) (k : string) (v : pval) : result (list (string * h5)) :=
  if String.eqb k "metadata" then
    match v with
    | VDict [] => Ok []
    | VDict l => do m <- write_rec f l; Ok [(k, H5Group m)]
    | _ => Err AttributeError
    end
  else if unusable_name k then Err ValueError
  else match v with
       | VStr s => Ok [(k, H5Str "vlen-utf-8" s)]
       | VArr _ _ _ _ => Ok [(k, H5Data v)]
       | VDict l => do m <- write_rec f l; Ok [(k, H5Group m)]
       | _ => do d <- np_asarray v; Ok [(k, d)]
       end.

Lemma write_rec_cons f k v r :
  write_rec (S f) ((k, v) :: r) =
  if has_bad_char k then Err ValueError else
  do here <- wentry f k v; do rest <- write_rec f r; Ok (here ++ rest).
Proof. reflexivity. Qed.

Lemma write_rec_cons_inv fuel k v r ms :
  write_rec fuel ((k, v) :: r) = Ok ms ->
  exists f here rest, fuel = S f /\ has_bad_char k = false /\
                      wentry f k v = Ok here /\ write_rec f r = Ok rest /\ ms = here ++ rest.
Proof.
  destruct fuel as [|f]; [discriminate|]. rewrite write_rec_cons.
  destruct (has_bad_char k); [discriminate|]. intros H.
  apply bind_ok in H as (here & Hh & H). apply bind_ok in H as (rest & Hr & H). inversion H.
  exists f, here, rest. repeat split; assumption.
Qed.

Lemma write_rec_nil_inv fuel ms : write_rec fuel [] = Ok ms -> ms = [].
Proof. destruct fuel; [discriminate|]. cbn. intros H. inversion H. reflexivity. Qed.

Lemma write_rec_app a : forall b f ms,
  write_rec f (a ++ b) = Ok ms ->
  exists ma mb, write_rec f a = Ok ma /\ write_rec (f - List.length a) b = Ok mb /\ ms = ma ++ mb.
Proof.
  induction a as [|[k v] a IH]; intros b f ms H.
  - cbn [app length] in *. rewrite Nat.sub_0_r. exists [], ms. repeat split; [|exact H].
    destruct f; [destruct b; discriminate|reflexivity].
  - cbn [app] in H. apply write_rec_cons_inv in H as (f' & here & rest & -> & Hbad & Hh & Hr & ->).
    destruct (IH _ _ _ Hr) as (ma & mb & Ha & Hb & ->).
    exists (here ++ ma), mb. rewrite write_rec_cons, Hbad, Hh. cbn [bind]. rewrite Ha. cbn [bind length].
    repeat split; [exact Hb|apply app_assoc].
Qed.

(* ---- entries whose value is plain are encoded by the documented rule ---------------------------- *)
Lemma wentry_plain_aux f k v here :
  (forall kv ms, write_rec f kv = Ok ms -> plain_entries kv -> enc_members kv = Ok ms) ->
  wentry f k v = Ok here -> k <> "metadata" -> plain v ->
  exists y, enc_value v = Ok y /\ here = [(k, y)].
Proof.
  intros IH H Hk Hp. unfold wentry in H.
  destruct (String.eqb k "metadata") eqn:E; [apply String.eqb_eq in E; contradiction|].
  destruct (unusable_name k); [discriminate|].
  destruct v.
  11: { apply bind_ok in H as (m & Hm & H). inversion H.
        rewrite enc_value_dict, (IH _ _ Hm (proj1 (plain_dict _) Hp)). cbn [bind]. eexists. split; reflexivity. }
  5: { inversion H. eexists. split; reflexivity. }
  6: { inversion H. eexists. split; reflexivity. }
  all: apply bind_ok in H as (d & Hd & H); inversion H; exists d; split; [exact Hd|reflexivity].
Qed.

Lemma write_rec_plain f : forall kv ms,
  write_rec f kv = Ok ms -> plain_entries kv -> enc_members kv = Ok ms.
Proof.
  induction f as [|f IH]; intros kv ms H Hp; [discriminate|].
  destruct kv as [|[k v] r].
  - cbn in H. inversion H. reflexivity.
  - apply write_rec_cons_inv in H as (f' & here & rest & Hf & _ & Hh & Hr & ->).
    inversion Hf; subst f'. inversion Hp as [|? ? [Hk Hv] Hpr]; subst. cbn [fst snd] in *.
    destruct (wentry_plain_aux f k v here IH Hh Hk Hv) as (y & Hy & ->).
    rewrite enc_members_cons, Hy. cbn [bind]. rewrite (IH _ _ Hr Hpr). reflexivity.
Qed.

Lemma wentry_plain f k v here :
  wentry f k v = Ok here -> k <> "metadata" -> plain v -> exists y, enc_value v = Ok y /\ here = [(k, y)].
Proof. apply wentry_plain_aux. apply write_rec_plain. Qed.

(* the metadata entry *)
Lemma wentry_meta f v here :
  wentry f "metadata" v = Ok here -> plain v -> enc_meta (Some v) = Ok here.
Proof.
  intros H Hp. unfold wentry in H. rewrite String.eqb_refl in H.
  destruct v; try discriminate. destruct kv as [|e l].
  - inversion H. reflexivity.
  - apply bind_ok in H as (m & Hm & H). inversion H. cbn [enc_meta].
    rewrite enc_value_dict, (write_rec_plain _ _ _ Hm (proj1 (plain_dict _) Hp)). reflexivity.
Qed.

(* a non-empty dictionary value becomes a group, under any name write_rec accepts *)
Lemma wentry_dict f k l here :
  l <> [] -> wentry f k (VDict l) = Ok here ->
  exists m, write_rec f l = Ok m /\ here = [(k, H5Group m)].
Proof.
  intros Hne H. unfold wentry in H. destruct l as [|e l]; [congruence|].
  destruct (String.eqb k "metadata").
  - apply bind_ok in H as (m & Hm & H). inversion H. exists m. split; [exact Hm|reflexivity].
  - destruct (unusable_name k); [discriminate|].
    apply bind_ok in H as (m & Hm & H). inversion H. exists m. split; [exact Hm|reflexivity].
Qed.

(* ================================================================================================ *)
(* (L3) write produces exactly the reference layout                                                 *)
(* ================================================================================================ *)

(* the dictionary form of a leaf: fields, then the type tag, then the class-specific entry *)
Definition dict_extra (k : kind) (tin tout : ty) : list (string * pval) :=
  match k with
  | KInput => [("shape", ty_get "input" tin)]
  | KOutput => [("shape", ty_get "output" tout)]
  | KFlatten => [("input_type", ty_get "input" tin)]
  | _ => []
  end.

Lemma to_dict_leaf_form k fs tin tout :
  to_dict (Leaf k fs tin tout) = fs ++ ("type", VStr (kind_name k)) :: dict_extra k tin tout.
Proof. destruct k; cbn [to_dict dict_extra]; rewrite <- ?app_assoc; reflexivity. Qed.

Lemma plain_ty_get key t : plain (ty_get key t).
Proof.
  unfold ty_get. destruct t as [d|]; [|exact I]. destruct (assoc key d) as [v|]; [|exact I].
  destruct v; exact I.
Qed.

Lemma write_extra f k tin tout mex :
  write_rec f (dict_extra k tin tout) = Ok mex -> enc_extra k tin tout = Ok mex.
Proof.
  intros H. destruct k; cbn [dict_extra enc_extra] in *;
    try (apply write_rec_nil_inv in H; subst; reflexivity).
  all: apply write_rec_cons_inv in H as (f' & here & rest & _ & _ & Hh & Hr & ->);
       apply write_rec_nil_inv in Hr; subst rest;
       apply wentry_plain in Hh as (y & Hy & ->); [|discriminate|apply plain_ty_get];
       rewrite Hy; reflexivity.
Qed.

Lemma In_assoc_NoDup {A} (l : list (string * A)) k v :
  NoDup (keys l) -> In (k, v) l -> assoc k l = Some v.
Proof.
  unfold keys. induction l as [|[k0 v0] r IH]; intros Hnd Hin; [destruct Hin|].
  cbn [map fst] in Hnd. inversion Hnd as [|? ? Hnot Hnd']; subst. cbn [assoc].
  destruct Hin as [E|Hin].
  - inversion E; subst. rewrite String.eqb_refl. reflexivity.
  - destruct (String.eqb k k0) eqn:E.
    + apply String.eqb_eq in E. subst k0. exfalso. apply Hnot.
      apply in_map_iff. exists (k, v). split; [reflexivity|exact Hin].
    + apply IH; assumption.
Qed.

(* looking the documented parameters up by name = walking the stored fields in order *)
Lemma mapM_params fs l :
  (forall k v, In (k, v) l -> assoc k fs = Some v) ->
  mapM (enc_param fs) (keys l) = enc_members l.
Proof.
  unfold keys. induction l as [|[k v] r IH]; intros H; [reflexivity|].
  cbn [map fst mapM]. rewrite enc_members_cons. unfold enc_param at 1.
  rewrite (H k v) by (left; reflexivity).
  destruct (enc_value v) as [y|e]; cbn [bind]; [|reflexivity].
  rewrite IH by (intros k' v' Hin; apply H; right; exact Hin). reflexivity.
Qed.

Lemma keys_app {A} (a b : list (string * A)) : keys (a ++ b) = keys a ++ keys b.
Proof. unfold keys. apply map_app. Qed.

(* a leaf whose stored fields are exactly the documented parameters followed by "metadata" *)
Definition leaf_ok (k : kind) (fs : list (string * pval)) : Prop :=
  keys fs = doc_params k ++ ["metadata"] /\ Forall (fun p => plain (snd p)) fs.

Theorem write_is_reference_layout_leaf : forall fuel k fs tin tout ms,
  leaf_ok k fs ->
  write_rec fuel (to_dict (Leaf k fs tin tout)) = Ok ms ->
  exists ref, encode_ref (Leaf k fs tin tout) = Ok ref /\ Permutation ms ref.
Proof.
  intros fuel k fs tin tout ms [Hkeys Hplain] H.
  pose proof (doc_params_NoDup k) as Hnd. rewrite <- Hkeys in Hnd.
  (* split the fields *)
  unfold keys in Hkeys. apply map_eq_app in Hkeys as (fs0 & tl & Hfs & Hk0 & Htl).
  apply map_eq_cons in Htl as ([mk m] & tl' & -> & Hmk & Htl'). cbn [fst] in Hmk. subst mk.
  apply map_eq_nil in Htl'. subst tl'.
  assert (Hlook : forall p v, In (p, v) fs -> assoc p fs = Some v).
  { intros p v Hin. apply In_assoc_NoDup; assumption. }
  assert (Hfs0 : plain_entries fs0).
  { apply Forall_forall. intros [p v] Hin. cbn [fst snd]. split.
    - intros ->. subst fs. rewrite keys_app in Hnd. cbn in Hnd.
      apply NoDup_remove_2 in Hnd. apply Hnd. rewrite app_nil_r.
      apply in_map_iff. exists ("metadata", v). split; [reflexivity|exact Hin].
    - rewrite Forall_forall in Hplain. apply (Hplain (p, v)). subst fs. apply in_or_app. left. exact Hin. }
  assert (Hm : plain m).
  { rewrite Forall_forall in Hplain. apply (Hplain ("metadata", m)). subst fs. apply in_or_app. right. left. reflexivity. }
  (* walk the dictionary *)
  rewrite to_dict_leaf_form in H. rewrite Hfs in H. rewrite <- app_assoc in H.
  apply write_rec_app in H as (ma & mb & Ha & Hb & ->).
  cbn [app] in Hb.
  apply write_rec_cons_inv in Hb as (f1 & hmeta & r1 & _ & _ & Hmeta & Hr1 & ->).
  apply write_rec_cons_inv in Hr1 as (f2 & htype & r2 & _ & _ & Htype & Hr2 & ->).
  apply (write_rec_plain _ _ _) in Ha; [|exact Hfs0].
  apply wentry_meta in Hmeta; [|exact Hm].
  apply wentry_plain in Htype as (y & Hy & ->); [|discriminate|exact I].
  cbn [enc_value] in Hy. inversion Hy; subst y. clear Hy.
  apply write_extra in Hr2.
  (* the reference *)
  cbn [encode_ref]. rewrite <- Hk0.
  change (map fst fs0) with (keys fs0).
  rewrite (mapM_params fs fs0), Ha.
  2: { intros p v Hin. apply Hlook. subst fs. apply in_or_app. left. exact Hin. }
  cbn [bind]. rewrite Hr2. cbn [bind].
  rewrite (Hlook "metadata" m) by (subst fs; apply in_or_app; right; left; reflexivity).
  rewrite Hmeta. cbn [bind]. eexists. split; [reflexivity|].
  (* same members *)
  cbn [app]. apply Permutation_sym.
  replace (ma ++ hmeta ++ ("type", H5Str "vlen-utf-8" (kind_name k)) :: r2)
    with ((ma ++ hmeta) ++ ("type", H5Str "vlen-utf-8" (kind_name k)) :: r2) by (rewrite <- app_assoc; reflexivity).
  apply Permutation_cons_app. rewrite <- app_assoc. apply Permutation_app_head. apply Permutation_app_comm.
Qed.

(* ---- graphs: the same statement at every depth ---------------------------------------------------- *)
(* two trees with the same members: groups are compared as SETS of named members (HDF5 links are not
   ordered), recursively; datasets must be identical *)
Inductive h5_equiv : h5 -> h5 -> Prop :=
| h5e_refl d : h5_equiv d d
| h5e_group ms mid ref :
    Permutation ms mid ->
    Forall2 (fun a b => fst a = fst b /\ h5_equiv (snd a) (snd b)) mid ref ->
    h5_equiv (H5Group ms) (H5Group ref).

Definition members_equiv (ms ref : list (string * h5)) : Prop := h5_equiv (H5Group ms) (H5Group ref).

Lemma members_refl (l : list (string * h5)) :
  Forall2 (fun a b => fst a = fst b /\ h5_equiv (snd a) (snd b)) l l.
Proof. induction l as [|a l IH]; constructor; [split; [reflexivity|apply h5e_refl]|exact IH]. Qed.

Lemma members_equiv_perm ms ref : Permutation ms ref -> members_equiv ms ref.
Proof. intros H. eapply h5e_group; [exact H|apply members_refl]. Qed.

(* sanity of the relation: datasets are only equivalent to themselves; equivalent groups have the same
   member names with the same multiplicity *)
Lemma h5_equiv_dataset d d' : h5_equiv d d' -> (forall ms, d <> H5Group ms) -> d = d'.
Proof. intros H Hd. destruct H as [d|ms mid ref _ _]; [reflexivity|]. exfalso. eapply Hd. reflexivity. Qed.

Lemma h5_equiv_group_names ms t :
  h5_equiv (H5Group ms) t -> exists ref, t = H5Group ref /\ Permutation (keys ms) (keys ref).
Proof.
  intros H. inversion H as [d|ms' mid ref Hp HF]; subst.
  - exists ms. split; [reflexivity|apply Permutation_refl].
  - exists ref. split; [reflexivity|].
    apply Permutation_trans with (keys mid); [unfold keys; apply Permutation_map; exact Hp|].
    clear -HF. unfold keys. induction HF as [|a b l l' [Hab _] _ IH]; [constructor|].
    cbn [map]. rewrite Hab. constructor. exact IH.
Qed.

Fixpoint layout_ok (n : node) : Prop :=
  match n with
  | Leaf k fs _ _ => leaf_ok k fs
  | Graph ch _ _ _ meta =>
    plain meta /\
    (fix all (l : list (string * node)) : Prop :=
       match l with [] => True | p :: r => layout_ok (snd p) /\ all r end) ch
  end.

Lemma layout_ok_graph ch es gi go m :
  layout_ok (Graph ch es gi go m) <-> plain m /\ Forall (fun p => layout_ok (snd p)) ch.
Proof.
  cbn [layout_ok].
  assert (forall l : list (string * node),
     (fix all (l : list (string * node)) : Prop :=
        match l with [] => True | p :: r => layout_ok (snd p) /\ all r end) l
     <-> Forall (fun p => layout_ok (snd p)) l) as Hall.
  { induction l as [|p r IH].
    - split; [constructor|trivial].
    - split.
      + intros [H1 H2]. constructor; [exact H1|apply IH; exact H2].
      + intros H. inversion H as [|? ? H1 H2]. split; [exact H1|apply IH; exact H2]. }
  rewrite Hall. reflexivity.
Qed.

Lemma to_dict_nonempty n : to_dict n <> [].
Proof. intros H. pose proof (to_dict_type n) as Hin. rewrite H in Hin. destruct Hin. Qed.

Definition children_dict (ch : list (string * node)) : list (string * pval) :=
  map (fun p => (fst p, VDict (to_dict (snd p)))) ch.

Lemma write_children (P : nat -> Prop) :
  (forall f, P f -> forall n ms, write_rec f (to_dict n) = Ok ms -> layout_ok n ->
             exists ref, encode_ref n = Ok ref /\ members_equiv ms ref) ->
  (forall f, P (S f) -> P f) ->
  forall ch f m, P f -> write_rec f (children_dict ch) = Ok m ->
    Forall (fun p => layout_ok (snd p)) ch ->
    exists ns, enc_children ch = Ok ns /\
               Forall2 (fun a b => fst a = fst b /\ h5_equiv (snd a) (snd b)) m ns.
Proof.
  intros IH Hdown. induction ch as [|[name c] r IHr]; intros f m HP H Hok.
  - apply write_rec_nil_inv in H. subst. exists []. split; [reflexivity|constructor].
  - cbn [children_dict map fst snd] in H. fold (children_dict r) in H.
    apply write_rec_cons_inv in H as (f' & here & rest & -> & _ & Hh & Hr & ->).
    inversion Hok as [|? ? Hc Hrest]; subst. cbn [snd] in Hc.
    apply wentry_dict in Hh as (mc & Hmc & ->); [|apply to_dict_nonempty].
    destruct (IH f' (Hdown _ HP) c mc Hmc Hc) as (refc & Hrefc & Heq).
    destruct (IHr f' rest (Hdown _ HP) Hr Hrest) as (ns & Hns & HF).
    rewrite enc_children_cons, Hrefc. cbn [bind]. rewrite Hns. cbn [bind].
    eexists. split; [reflexivity|]. cbn [app]. constructor; [|exact HF].
    cbn [fst snd]. split; [reflexivity|exact Heq].
Qed.

Lemma plain_edges es : plain (edges_value es).
Proof. exact I. Qed.

(* (L3), all nodes: whatever write_rec makes of the dictionary form of a node has exactly the members
   of the reference encoding, at every depth *)
Theorem write_is_reference_layout : forall fuel n ms,
  write_rec fuel (to_dict n) = Ok ms -> layout_ok n ->
  exists ref, encode_ref n = Ok ref /\ members_equiv ms ref.
Proof.
  induction fuel as [fuel IH] using lt_wf_ind. intros n ms H Hok.
  destruct n as [k fs tin tout|ch es gi go meta].
  - destruct (write_is_reference_layout_leaf fuel k fs tin tout ms Hok H) as (ref & Href & Hp).
    exists ref. split; [exact Href|apply members_equiv_perm; exact Hp].
  - apply layout_ok_graph in Hok as [Hmeta Hch].
    cbn [to_dict] in H. fold (children_dict ch) in H. fold (edges_value es) in H.
    apply write_rec_cons_inv in H as (f1 & h1 & r1 & -> & _ & Hh1 & Hr1 & ->).
    apply write_rec_cons_inv in Hr1 as (f2 & h2 & r2 & -> & _ & Hh2 & Hr2 & ->).
    apply write_rec_cons_inv in Hr2 as (f3 & h3 & r3 & -> & _ & Hh3 & Hr3 & ->).
    apply write_rec_cons_inv in Hr3 as (f4 & h4 & r4 & -> & _ & Hh4 & Hr4 & ->).
    apply write_rec_nil_inv in Hr4. subst r4.
    (* nodes *)
    assert (Hnodes : exists mn ns, h1 = [("nodes", H5Group mn)] /\ enc_children ch = Ok ns /\
                       Forall2 (fun a b => fst a = fst b /\ h5_equiv (snd a) (snd b)) mn ns).
    { unfold wentry in Hh1. change (String.eqb "nodes" "metadata") with false in Hh1.
      change (unusable_name "nodes") with false in Hh1. cbv iota in Hh1.
      apply bind_ok in Hh1 as (mn & Hmn & Hh1). inversion Hh1.
      destruct (write_children (fun f => f < S (S (S (S f4))))%nat) with (ch := ch) (f := S (S (S f4))) (m := mn)
        as (ns & Hns & HF).
      - intros f Hf n0 ms0 Hw Hl. apply (IH f Hf n0 ms0 Hw Hl).
      - intros f Hf. lia.
      - lia.
      - exact Hmn.
      - exact Hch.
      - exists mn, ns. repeat split; assumption. }
    destruct Hnodes as (mn & ns & -> & Hns & HF).
    apply wentry_plain in Hh2 as (ye & Hye & ->); [|discriminate|apply plain_edges].
    apply wentry_meta in Hh3; [|exact Hmeta].
    apply wentry_plain in Hh4 as (yt & Hyt & ->); [|discriminate|exact I].
    cbn [enc_value] in Hyt. inversion Hyt; subst yt. clear Hyt.
    rewrite encode_ref_graph, Hns. cbn [bind]. rewrite Hye. cbn [bind]. rewrite Hh3. cbn [bind].
    eexists. split; [reflexivity|].
    apply h5e_group with (mid := [("type", H5Str "vlen-utf-8" "NIRGraph"); ("nodes", H5Group mn); ("edges", ye)] ++ h3).
    + cbn [app]. apply Permutation_sym.
      replace (("nodes", H5Group mn) :: ("edges", ye) :: h3 ++ [("type", H5Str "vlen-utf-8" "NIRGraph")])
        with ((("nodes", H5Group mn) :: ("edges", ye) :: h3) ++ [("type", H5Str "vlen-utf-8" "NIRGraph")])
        by reflexivity.
      apply Permutation_cons_append.
    + cbn [app]. constructor; [split; [reflexivity|apply h5e_refl]|].
      constructor; [split; [reflexivity|]|].
      * cbn [snd]. eapply h5e_group; [apply Permutation_refl|exact HF].
      * constructor; [split; [reflexivity|apply h5e_refl]|apply members_refl].
Qed.

(* the whole file *)
Theorem write_is_reference_file : forall g t,
  write g = Ok t -> layout_ok g -> exists r, encode_file g = Ok r /\ h5_equiv t r.
Proof.
  intros g t H Hok. unfold write in H. apply bind_ok in H as (ms & Hms & Ht). inversion Ht; subst t.
  destruct (write_is_reference_layout _ _ _ Hms Hok) as (ref & Href & Heq).
  unfold encode_file. rewrite Href. cbn [bind]. eexists. split; [reflexivity|].
  eapply h5e_group; [apply Permutation_refl|].
  constructor; [split; [reflexivity|apply h5e_refl]|].
  constructor; [split; [reflexivity|exact Heq]|constructor].
Qed.

(* why `plain` is needed: a dictionary-valued field with a nested empty "metadata" entry.  The
   implementation drops the nested entry, the documented rule (a dictionary is a group of its entries)
   keeps it as an empty group. *)
Definition plain_cex : node :=
  Leaf KScale [("scale", VDict [("metadata", VDict [])]); ("metadata", VDict [])] None None.

Example plain_needed :
  write_rec 10 (to_dict plain_cex) = Ok [("scale", H5Group []); ("type", H5Str "vlen-utf-8" "Scale")] /\
  encode_ref plain_cex = Ok [("type", H5Str "vlen-utf-8" "Scale"); ("scale", H5Group [("metadata", H5Group [])])].
Proof. split; vm_compute; reflexivity. Qed.

(* the side conditions about names ("no bad characters") are consequences of success, not assumptions *)
Lemma write_rec_names_ok fuel : forall kv ms k v,
  write_rec fuel kv = Ok ms -> In (k, v) kv ->
  has_bad_char k = false /\ (k <> "metadata" -> unusable_name k = false).
Proof.
  induction fuel as [|f IH]; intros kv ms k v H Hin; [discriminate|].
  destruct kv as [|[k0 v0] r]; [destruct Hin|].
  apply write_rec_cons_inv in H as (f' & here & rest & Hf & Hbad & Hh & Hr & _). inversion Hf; subst f'.
  destruct Hin as [E|Hin].
  - inversion E; subst. split; [exact Hbad|]. intros Hk. unfold wentry in Hh.
    destruct (String.eqb k "metadata") eqn:E1; [apply String.eqb_eq in E1; contradiction|].
    destruct (unusable_name k); [discriminate|reflexivity].
  - apply (IH _ _ _ _ Hr Hin).
Qed.

(* ---- the key condition of `leaf_ok` holds for EVERY node the constructors build --------------------- *)
Lemma keys_assoc_del {A} k (l : list (string * A)) :
  keys (assoc_del k l) = filter (fun f => negb (String.eqb k f)) (keys l).
Proof.
  unfold keys. induction l as [|[k0 v0] r IH]; [reflexivity|].
  cbn [assoc_del map fst filter]. destruct (String.eqb k k0); cbn [negb map fst]; rewrite IH; reflexivity.
Qed.

Definition is_type_key (f : string) : bool := String.eqb "input_type" f || String.eqb "output_type" f.

Lemma keys_drop_types fs : keys (drop_types fs) = filter (fun f => negb (is_type_key f)) (keys fs).
Proof.
  unfold drop_types. rewrite !keys_assoc_del. induction (keys fs) as [|a l IH]; [reflexivity|].
  unfold is_type_key in *. cbn [filter].
  destruct (String.eqb "input_type" a); cbn [negb orb filter]; [exact IH|].
  destruct (String.eqb "output_type" a); cbn [negb]; [exact IH|]. rewrite IH. reflexivity.
Qed.

Lemma keys_assoc_set_present {A} k (v : A) l : assoc k l <> None -> keys (assoc_set k v l) = keys l.
Proof.
  unfold keys. induction l as [|[k0 v0] r IH]; cbn [assoc assoc_set]; [congruence|].
  destruct (String.eqb k k0) eqn:E.
  - intros _. apply String.eqb_eq in E. subst. reflexivity.
  - intros H. cbn [map fst]. rewrite IH by exact H. reflexivity.
Qed.

Lemma assoc_del_other {A} f k (l : list (string * A)) : f <> k -> assoc f (assoc_del k l) = assoc f l.
Proof.
  intros Hne. induction l as [|[k0 v0] r IH]; [reflexivity|]. cbn [assoc_del assoc].
  destruct (String.eqb k k0) eqn:E.
  - apply String.eqb_eq in E. subst k0.
    destruct (String.eqb f k) eqn:E2; [apply String.eqb_eq in E2; contradiction|exact IH].
  - cbn [assoc]. rewrite IH. reflexivity.
Qed.

Lemma fld_present f fs v : fld f fs = Ok v -> assoc f fs <> None.
Proof. intros H. rewrite (fld_ok_assoc _ _ _ H). discriminate. Qed.

Lemma elementwise_fields k fs names k' f ti to :
  elementwise k fs names = Ok (Leaf k' f ti to) -> f = drop_types fs.
Proof. unfold elementwise. intros H. ok_walk H. reflexivity. Qed.

Lemma matvec_fields k fs k' f ti to : matvec k fs = Ok (Leaf k' f ti to) -> f = drop_types fs.
Proof. unfold matvec. intros H. ok_walk H. reflexivity. Qed.

Lemma post_init_keys k fs k' f ti to :
  post_init k fs = Ok (Leaf k' f ti to) -> keys f = keys (drop_types fs).
Proof.
  intros H. destruct k; unfold post_init in H; cbv beta iota zeta in H;
    try (apply elementwise_fields in H; subst; reflexivity);
    try (apply matvec_fields in H; subst; reflexivity);
    try (ok_walk H; reflexivity).
  - (* Conv2d: three hyper-parameters are rewritten in place *)
    destruct (fld "padding" fs) as [pad|] eqn:Hp; cbn [bind] in H; [|discriminate].
    destruct (pad_is_bad_string pad); [discriminate|].
    destruct (fld "stride" fs) as [stride|] eqn:Hs; cbn [bind] in H; [|discriminate].
    destruct (fld "dilation" fs) as [dil|] eqn:Hd; cbn [bind] in H; [|discriminate].
    assert (Hk : keys (drop_types (assoc_set "dilation" (pair_if_int dil)
                   (assoc_set "stride" (pair_if_int stride) (assoc_set "padding" (pair_if_int pad) fs))))
                 = keys (drop_types fs)).
    { rewrite !keys_drop_types. f_equal.
      rewrite keys_assoc_set_present.
      2: { rewrite !assoc_set_other by discriminate. eapply fld_present. exact Hd. }
      rewrite keys_assoc_set_present.
      2: { rewrite !assoc_set_other by discriminate. eapply fld_present. exact Hs. }
      apply keys_assoc_set_present. eapply fld_present. exact Hp. }
    ok_walk H; exact Hk.
  - (* CubaLIF: w_in is replaced in place *)
    ok_walk H.
    match goal with E : elementwise _ _ _ = Ok _ |- _ => apply elementwise_fields in E; subst end.
    apply keys_assoc_set_present. unfold drop_types. rewrite !assoc_del_other by discriminate.
    eapply fld_present. eassumption.
Qed.

Lemma bind_fields_keys tbl : forall args b, bind_fields tbl args = Ok b -> keys b = keys tbl.
Proof.
  unfold keys. induction tbl as [|[f0 d0] tbl IH]; intros args b H; cbn [bind_fields] in H.
  - inversion H. reflexivity.
  - apply bind_ok in H as (v & _ & H). apply bind_ok in H as (rest & Hr & H). inversion H.
    cbn [map fst]. rewrite (IH _ _ Hr). reflexivity.
Qed.

Lemma class_keys_params k : k <> KGraph ->
  filter (fun f => negb (is_type_key f)) (class_keys k) = doc_params k ++ ["metadata"].
Proof. intros Hk. destruct k; try (vm_compute; reflexivity). congruence. Qed.

Theorem constructed_leaf_keys : forall k args k' fs tin tout,
  construct k args = Ok (Leaf k' fs tin tout) -> keys fs = doc_params k ++ ["metadata"].
Proof.
  intros k args k' fs tin tout H. unfold construct in H. apply bind_ok in H as (b & Hb & H).
  assert (Hk : k <> KGraph) by (intros ->; discriminate H).
  rewrite (post_init_keys _ _ _ _ _ _ H), keys_drop_types, <- (class_keys_params k Hk). f_equal.
  unfold bind_args in Hb. unfold class_keys. destruct (class_fields k) as [tbl|]; [|discriminate].
  destruct (forallb _ args); [|discriminate]. apply (bind_fields_keys _ _ _ Hb).
Qed.

(* hence: a constructed node whose parameter values are plain is written in the reference layout *)
Corollary constructed_leaf_layout : forall k args k' fs tin tout fuel ms,
  construct k args = Ok (Leaf k' fs tin tout) ->
  Forall (fun p => plain (snd p)) fs ->
  write_rec fuel (to_dict (Leaf k' fs tin tout)) = Ok ms ->
  exists ref, encode_ref (Leaf k' fs tin tout) = Ok ref /\ Permutation ms ref.
Proof.
  intros k args k' fs tin tout fuel ms H Hp Hw.
  assert (k' = k).
  { pose proof (construct_kind _ _ _ H) as Hk. cbn [node_kind] in Hk. exact Hk. }
  subst k'. apply (write_is_reference_layout_leaf fuel k fs tin tout ms); [|exact Hw].
  split; [eapply constructed_leaf_keys; exact H|exact Hp].
Qed.

(* ---- the theorems are not vacuous: a concrete file -------------------------------------------------- *)
Definition ex_graph : node :=
  mk_graph
    [("input", Leaf KInput [("metadata", VDict [])] (arr_ty "input" [2]) (arr_ty "output" [2]));
     ("scale", Leaf KScale [("scale", VArr "float32" [2] 7 None); ("metadata", VDict [("note", VStr "x")])]
                    (arr_ty "input" [2]) (arr_ty "output" [2]));
     ("output", Leaf KOutput [("metadata", VDict [])] (arr_ty "input" [2]) (arr_ty "output" [2]))]
    [("input", "scale"); ("scale", "output")] (VDict []).

Lemma ex_graph_layout_ok : layout_ok ex_graph.
Proof.
  unfold ex_graph, mk_graph. apply layout_ok_graph. split; [exact I|].
  repeat constructor; try discriminate.
Qed.

Example ex_graph_file :
  write ex_graph =
  Ok (H5Group
        [("version", H5Str "vlen-utf-8" nir_version);
         ("node", H5Group
            [("nodes", H5Group
                [("input", H5Group [("type", H5Str "vlen-utf-8" "Input");
                                    ("shape", H5Data (VArr "?" [1] (-1) (Some [2])))]);
                 ("scale", H5Group [("scale", H5Data (VArr "float32" [2] 7 None));
                                    ("metadata", H5Group [("note", H5Str "vlen-utf-8" "x")]);
                                    ("type", H5Str "vlen-utf-8" "Scale")]);
                 ("output", H5Group [("type", H5Str "vlen-utf-8" "Output");
                                     ("shape", H5Data (VArr "?" [1] (-1) (Some [2])))])]);
             ("edges", H5Strs "vlen-utf-8" [["input"; "scale"]; ["scale"; "output"]]);
             ("type", H5Str "vlen-utf-8" "NIRGraph")])]) /\
  encode_file ex_graph =
  Ok (H5Group
        [("version", H5Str "vlen-utf-8" nir_version);
         ("node", H5Group
            [("type", H5Str "vlen-utf-8" "NIRGraph");
             ("nodes", H5Group
                [("input", H5Group [("type", H5Str "vlen-utf-8" "Input");
                                    ("shape", H5Data (VArr "?" [1] (-1) (Some [2])))]);
                 ("scale", H5Group [("type", H5Str "vlen-utf-8" "Scale");
                                    ("scale", H5Data (VArr "float32" [2] 7 None));
                                    ("metadata", H5Group [("note", H5Str "vlen-utf-8" "x")])]);
                 ("output", H5Group [("type", H5Str "vlen-utf-8" "Output");
                                     ("shape", H5Data (VArr "?" [1] (-1) (Some [2])))])]);
             ("edges", H5Strs "vlen-utf-8" [["input"; "scale"]; ["scale"; "output"]])])]).
Proof. split; vm_compute; reflexivity. Qed.

(* ---- GROUP S, closing the loop: the annotation as it comes back from a FILE -------------------------- *)
(* Conv1d: the stored input_shape is a numpy integer scalar, which the file returns unchanged
   (stored_annotation_survives_file), so conv1d_regain_post applies verbatim to the fields read back.
   Conv2d: the stored pair comes back as a 1-d int64 array; construction accepts that form too. *)
Lemma conv_out_axes_arr_input l p d k s cnt : forall i,
  conv_out_axes (HArr l) p d k s i cnt = conv_out_axes (HSeq l) p d k s i cnt.
Proof.
  induction cnt as [|cnt IH]; intros i; [reflexivity|].
  cbn [conv_out_axes index_tuple]. rewrite IH. reflexivity.
Qed.

Lemma conv_out_arr_input l p d k s : conv_out (HArr l) p d k s = conv_out (HSeq l) p d k s.
Proof. unfold conv_out. cbn [hp_ndim bind]. apply conv_out_axes_arr_input. Qed.

Lemma conv2d_post_gen fs2 ish c n1 n2 co k1 k2 pad dil stride out :
  fld "padding" fs2 = Ok pad -> fld "input_shape" fs2 = Ok ish ->
  ish <> VNone -> seq_view ish = Some [n1; n2] ->
  (hp_of ish = HSeq [n1; n2] \/ hp_of ish = HArr [n1; n2]) ->
  fld_shape "weight" fs2 = Ok [co; c; k1; k2] -> fld "stride" fs2 = Ok stride -> fld "dilation" fs2 = Ok dil ->
  conv_out (HSeq [n1; n2]) (hp_of pad) (hp_of dil) (HSeq [k1; k2]) (hp_of stride) = Ok out ->
  exists fs3,
  post_init KConv2d fs2 =
  Ok (Leaf KConv2d fs3 (arr_ty "input" [c; n1; n2]) (arr_ty "output" (co :: out))).
Proof.
  intros Hp Hi Hnn Hseq Hhp Hw Hs Hd Ho. unfold post_init. rewrite Hp. cbn [bind].
  rewrite (conv_out_ok_pad (HSeq [n1; n2]) pad _ _ _ out 2 1 eq_refl eq_refl Ho).
  rewrite Hs, Hd. cbn [bind]. rewrite Hi. cbn [bind].
  destruct ish; try congruence;
    rewrite Hw; cbn [bind]; rewrite py_index_1; cbn [bind]; rewrite Hseq; rewrite py_index_0; cbn [bind skipn];
    destruct Hhp as [-> | ->]; rewrite ?conv_out_arr_input, conv_out_pair_if_int, Ho; cbn [bind];
    eexists; reflexivity.
Qed.

Theorem conv2d_regain_file : forall fs pre c n1 n2 co k1 k2 fs' tout fs2 v',
  derive_output KConv2d fs pre [("input", TArr [c; n1; n2])] = (fs', Some tout, None) ->
  fld_shape "weight" fs = Ok [co; c; k1; k2] ->
  norm_val (VTuple [np_int n1; np_int n2]) = Ok v' ->            (* the stored pair, after write + read *)
  fld "input_shape" fs2 = Ok v' ->
  agree_on ["weight"; "stride"; "padding"; "dilation"] fs' fs2 ->
  exists fs3,
    post_init KConv2d fs2 = Ok (Leaf KConv2d fs3 (Some [("input", TArr [c; n1; n2])]) (Some tout)).
Proof.
  intros fs pre c n1 n2 co k1 k2 fs' tout fs2 v' H Hw Hn Hi Hag.
  destruct (derive_conv2d_inv _ _ _ _ _ _ _ _ _ _ H Hw)
    as (pad & dil & stride & out & -> & Hp & Hd & Hs & Ho & ->).
  assert (Hv : v' = VArr "int64" [2] (-1) (Some [n1; n2])).
  { cbn [norm_val np_asarray] in Hn.
    change (ints_view [np_int n1; np_int n2]) with (Some [n1; n2]) in Hn.
    cbv beta iota in Hn.
    destruct (forallb int64_ok [n1; n2]); cbn [bind] in Hn; [|discriminate]. inversion Hn. reflexivity. }
  subst v'.
  apply (conv2d_post_gen fs2 (VArr "int64" [2] (-1) (Some [n1; n2])) c n1 n2 co k1 k2 pad dil stride out).
  - rewrite (agree_fld _ _ _ _ Hag) by (cbn; timeout 20 tauto). rewrite fld_set_other by discriminate. exact Hp.
  - exact Hi.
  - discriminate.
  - reflexivity.
  - right. reflexivity.
  - rewrite (agree_fld_shape _ _ _ _ Hag) by (cbn; timeout 20 tauto).
    rewrite fld_shape_set_other by discriminate. exact Hw.
  - rewrite (agree_fld _ _ _ _ Hag) by (cbn; timeout 20 tauto). rewrite fld_set_other by discriminate. exact Hs.
  - rewrite (agree_fld _ _ _ _ Hag) by (cbn; timeout 20 tauto). rewrite fld_set_other by discriminate. exact Hd.
  - exact Ho.
Qed.
