(* Props/C09.v — Graph type check accepts exactly the consistent graphs. *)
From NIR Require Import Model.Graph Proofs.GraphProofs Proofs.RenameProofs.
From Coq Require Import Permutation.

(* The check returns True precisely when every edge joins a source whose output shape is
   defined to a target whose input shape is defined and (numerically) equal to it. *)
Theorem c09_sound_complete :
  forall ch es gi go m,
    check_types (Graph ch es gi go m) = Ok true <-> Forall (edge_ok ch) es.
Proof. intros. exact (check_edges_sound_complete ch es). Qed.

(* In every other case it raises: there is no "returned False". *)
Theorem c09_never_false :
  forall ch es gi go m b, check_types (Graph ch es gi go m) = Ok b -> b = true.
Proof. intros ch es gi go m b. exact (check_edges_never_false ch es b). Qed.

(* The verdict does not depend on the order of the edge list. *)
Theorem c09_order_independent :
  forall ch es es' gi go gi' go' m m', Permutation es es' ->
    (check_types (Graph ch es gi go m) = Ok true <-> check_types (Graph ch es' gi' go' m') = Ok true).
Proof. intros ch es es' gi go gi' go' m m'. exact (check_edges_perm ch es es'). Qed.

(* non-vacuity: a two-node cycle with a self-loop, consistent; and an off-by-one variant *)
Example c09_example :
  let a := Leaf KScale [] (Some [("input", TArr [3])]) (Some [("output", TSeq [3])]) in
  let b := Leaf KScale [] (Some [("input", TArr [4])]) (Some [("output", TArr [3])]) in
  check_types (Graph [("a", a)] [("a", "a"); ("a", "a")] None None VNone) = Ok true /\
  check_types (Graph [("a", a); ("b", b)] [("a", "a"); ("a", "b")] None None VNone) = Err ValueError.
Proof. split; reflexivity. Qed.

(* NODE NAMES ARE OPAQUE: renaming the children by ANY injective function on strings (and the edge end points with them) does
   not change the verdict — no name (dotted, "->", digits, a prefix of another name ...) has a special meaning; injectivity is
   necessary (RenameProofs.rename_not_injective_counterexample) *)
Theorem c09_names_are_opaque : forall f g, injective f -> check_types (rename_graph f g) = check_types g.
Proof. exact check_rename_graph. Qed.

Print Assumptions c09_sound_complete.
Print Assumptions c09_names_are_opaque.
Print Assumptions c09_never_false.
Print Assumptions c09_order_independent.
