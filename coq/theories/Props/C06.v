(* Props/C06.v — Convolution and pooling output shapes are arithmetically exact. *)
From NIR Require Import Model.Shapes Proofs.ShapesProofs.

(* The closed formula equals the NUMBER OF POSITIONS at which the dilated kernel fits inside the
   zero-padded input when stepped by the stride — for all sizes (Z, no bound). *)
Theorem c06_formula_counts_positions :
  forall n p d k s : Z,
    1 <= s -> 1 <= d -> 1 <= k -> 0 <= p -> d * (k - 1) + 1 <= n + 2 * p ->
    conv_axis n p d k s = positions n p d k s.
Proof. exact conv_axis_counts_positions. Qed.

(* equivalently: the last counted position fits and the next one does not, and this
   determines the value uniquely *)
Theorem c06_last_position_fits :
  forall n p d k s : Z, 1 <= s ->
    let o := conv_axis n p d k s in
    (o - 1) * s + d * (k - 1) + 1 <= n + 2 * p < o * s + d * (k - 1) + 1.
Proof. exact conv_axis_bounds. Qed.

Theorem c06_unique :
  forall n p d k s o : Z, 1 <= s ->
    (o - 1) * s + d * (k - 1) + 1 <= n + 2 * p < o * s + d * (k - 1) + 1 ->
    o = conv_axis n p d k s.
Proof. exact conv_axis_unique. Qed.

(* 'valid' means zero padding *)
Theorem c06_valid_is_zero_padding :
  forall (input dilation kernel stride : hp) (nd : Z),
    hp_ndim input = Ok nd ->
    conv_out input (HStr "valid") dilation kernel stride =
    conv_out input (HSeq (repeat 0 (Z.to_nat nd))) dilation kernel stride.
Proof. exact conv_out_valid. Qed.

(* 'same' copies the spatial size, and agrees with the formula for stride 1 and the symmetric
   padding d(k-1)/2 whenever that padding exists *)
Theorem c06_same_keeps_size :
  forall (l : list Z) (dilation kernel stride : hp),
    conv_out (HSeq l) (HStr "same") dilation kernel stride = Ok l.
Proof. exact conv_out_same. Qed.

Theorem c06_same_agrees_with_formula :
  forall n d k : Z, (d * (k - 1)) mod 2 = 0 -> conv_axis n (d * (k - 1) / 2) d k 1 = n.
Proof. exact conv_axis_same. Qed.

(* scalar, tuple/list and ndarray forms of a hyper-parameter are interchangeable *)
Theorem c06_forms_seq_arr :
  forall (l : list Z) (i : Z), index_tuple (HSeq l) i = index_tuple (HArr l) i.
Proof. exact index_tuple_forms. Qed.

Theorem c06_forms_scalar :
  forall (z : Z) (m : nat) (i : Z), 0 <= i < Z.of_nat m ->
    index_tuple (HSeq (repeat z m)) i = index_tuple (HInt z) i.
Proof. exact index_tuple_scalar. Qed.

(* non-vacuity: 32x30 input, 3x5 kernel, stride 2, padding 1, dilation 1 *)
Example c06_example :
  conv_out (HSeq [32; 30]) (HInt 1) (HArr [1; 1]) (HSeq [3; 5]) (HInt 2) = Ok [16; 14]
  /\ positions 32 1 1 3 2 = 16 /\ positions 30 1 1 5 2 = 14.
Proof. repeat split; vm_compute; reflexivity. Qed.

Print Assumptions c06_formula_counts_positions.
Print Assumptions c06_last_position_fits.
Print Assumptions c06_unique.
Print Assumptions c06_valid_is_zero_padding.
Print Assumptions c06_same_keeps_size.
Print Assumptions c06_same_agrees_with_formula.
Print Assumptions c06_forms_seq_arr.
Print Assumptions c06_forms_scalar.
