(* Props/C06.v — Convolution and pooling output shapes are arithmetically exact. *)
From NIR Require Import Model.Graph Proofs.ShapesProofs Proofs.NodesProofs.

(* The closed formula equals the NUMBER OF POSITIONS at which the dilated kernel fits inside the
   zero-padded input when stepped by the stride — for all sizes (Z, no bound). *)
Theorem c06_formula_counts_positions :
  forall n p d k s : Z,
    1 <= s -> 1 <= d -> 1 <= k -> 0 <= p -> d * (k - 1) + 1 <= n + 2 * p ->
    conv_axis n p d k s = positions n p d k s.
Proof. exact conv_axis_counts_positions. Qed.

(* equivalently: the last counted position fits and the next one does not, and this
   determines the value uniquely *)
Theorem c06_last_position_fits :
  forall n p d k s : Z, 1 <= s ->
    let o := conv_axis n p d k s in
    (o - 1) * s + d * (k - 1) + 1 <= n + 2 * p < o * s + d * (k - 1) + 1.
Proof. exact conv_axis_bounds. Qed.

Theorem c06_unique :
  forall n p d k s o : Z, 1 <= s ->
    (o - 1) * s + d * (k - 1) + 1 <= n + 2 * p < o * s + d * (k - 1) + 1 ->
    o = conv_axis n p d k s.
Proof. exact conv_axis_unique. Qed.

(* 'valid' means zero padding *)
Theorem c06_valid_is_zero_padding :
  forall (input dilation kernel stride : hp) (nd : Z),
    hp_ndim input = Ok nd ->
    conv_out input (HStr "valid") dilation kernel stride =
    conv_out input (HSeq (repeat 0 (Z.to_nat nd))) dilation kernel stride.
Proof. exact conv_out_valid. Qed.

(* 'same' copies the spatial size, and agrees with the formula for stride 1 and the symmetric
   padding d(k-1)/2 whenever that padding exists *)
Theorem c06_same_keeps_size :
  forall (l : list Z) (dilation kernel stride : hp),
    conv_out (HSeq l) (HStr "same") dilation kernel stride = Ok l.
Proof. exact conv_out_same. Qed.

Theorem c06_same_agrees_with_formula :
  forall n d k : Z, (d * (k - 1)) mod 2 = 0 -> conv_axis n (d * (k - 1) / 2) d k 1 = n.
Proof. exact conv_axis_same. Qed.

(* scalar, tuple/list and ndarray forms of a hyper-parameter are interchangeable *)
Theorem c06_forms_seq_arr :
  forall (l : list Z) (i : Z), index_tuple (HSeq l) i = index_tuple (HArr l) i.
Proof. exact index_tuple_forms. Qed.

Theorem c06_forms_scalar :
  forall (z : Z) (m : nat) (i : Z), 0 <= i < Z.of_nat m ->
    index_tuple (HSeq (repeat z m)) i = index_tuple (HInt z) i.
Proof. exact index_tuple_scalar. Qed.

(* ---- node level ---- *)
(* Conv2d typed at construction: input = (C_in; spatial input); output = (C_out; the formula per
   axis with the kernel size OF THAT AXIS, weight.shape[2:]) *)
Theorem c06_conv2d_types :
  forall dt tok wi (co ci k1 k2 : Z) ish pad dil stride groups bias sp out,
    pad_is_bad_string pad = false -> seq_view ish = Some sp ->
    conv_out (hp_of ish) (hp_of (pair_if_int pad)) (hp_of (pair_if_int dil)) (HSeq [k1; k2])
             (hp_of (pair_if_int stride)) = Ok out ->
    exists fs,
      construct KConv2d [("input_shape", ish); ("weight", VArr dt [co; ci; k1; k2] tok wi);
                         ("stride", stride); ("padding", pad); ("dilation", dil);
                         ("groups", groups); ("bias", bias)] =
      Ok (Leaf KConv2d fs (arr_ty "input" (ci :: sp)) (arr_ty "output" (co :: out))).
Proof. exact conv2d_types. Qed.

Theorem c06_conv1d_types :
  forall dt tok wi (co ci k : Z) ish n pad dil stride groups bias out,
    pad_is_bad_string pad = false -> ish <> VNone -> int_view ish = Some n ->
    conv_out (HInt n) (hp_of pad) (hp_of dil) (HInt k) (hp_of stride) = Ok out ->
    exists fs,
      construct KConv1d [("input_shape", ish); ("weight", VArr dt [co; ci; k] tok wi);
                         ("stride", stride); ("padding", pad); ("dilation", dil);
                         ("groups", groups); ("bias", bias)] =
      Ok (Leaf KConv1d fs (arr_ty "input" [ci; n]) (arr_ty "output" (co :: out))).
Proof. exact conv1d_types. Qed.

(* and conv_out on explicit per-axis values is the formula applied axis by axis *)
Theorem c06_per_axis :
  forall n1 n2 p1 p2 d1 d2 k1 k2 s1 s2 : Z, s1 <> 0 -> s2 <> 0 ->
    conv_out (HSeq [n1; n2]) (HSeq [p1; p2]) (HSeq [d1; d2]) (HSeq [k1; k2]) (HSeq [s1; s2]) =
    Ok [conv_axis n1 p1 d1 k1 s1; conv_axis n2 p2 d2 k2 s2].
Proof. exact conv_out_pairs. Qed.

(* pooling typed by inference: channel copied, dilation 1 *)
Theorem c06_infer_pool :
  forall (k : kind) fs (c : Z) (sp out : list Z) (ks stride pad : pval),
    k = KSumPool2d \/ k = KAvgPool2d ->
    fld "kernel_size" fs = Ok ks -> fld "stride" fs = Ok stride -> fld "padding" fs = Ok pad ->
    conv_out (HArr sp) (hp_of pad) (HInt 1) (hp_of ks) (hp_of stride) = Ok out ->
    derive_output k fs [("output", TArr (c :: sp))] [("input", TArr (c :: sp))] =
    (fs, Some [("output", TArr (c :: out))], None).
Proof. exact pool_infer. Qed.

(* non-vacuity: 32x30 input, 3x5 kernel, stride 2, padding 1, dilation 1 *)
Example c06_example :
  conv_out (HSeq [32; 30]) (HInt 1) (HArr [1; 1]) (HSeq [3; 5]) (HInt 2) = Ok [16; 14]
  /\ positions 32 1 1 3 2 = 16 /\ positions 30 1 1 5 2 = 14.
Proof. repeat split; vm_compute; reflexivity. Qed.

Print Assumptions c06_formula_counts_positions.
Print Assumptions c06_last_position_fits.
Print Assumptions c06_unique.
Print Assumptions c06_valid_is_zero_padding.
Print Assumptions c06_same_keeps_size.
Print Assumptions c06_same_agrees_with_formula.
Print Assumptions c06_forms_seq_arr.
Print Assumptions c06_forms_scalar.
Print Assumptions c06_conv2d_types.
Print Assumptions c06_conv1d_types.
Print Assumptions c06_per_axis.
Print Assumptions c06_infer_pool.
