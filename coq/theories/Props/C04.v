(* Props/C04.v — placeholder, theorems added in a later commit *)
From NIR Require Import Model.Serial.
