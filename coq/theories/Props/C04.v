(* Props/C04.v — Reader decodes every valid encoding of the layout.  (interim: invariance of the reader under
   the physical string encoding; invariance under integer width / optional fields from Proofs/SimProofs.v is
   added when that library is complete.  Chunking, compression and creation order are invisible above the h5py
   API and only exercised by the correspondence run.) *)
From NIR Require Import Model.Serial Proofs.SerialProofs.

(* the decoded value of a string dataset does not depend on its physical encoding *)
Theorem c04_string_encoding_irrelevant : forall e1 e2 s, read_dataset (H5Str e1 s) = read_dataset (H5Str e2 s).
Proof. reflexivity. Qed.

Theorem c04_string_array_encoding_irrelevant : forall e1 e2 rows,
  read_dataset (H5Strs e1 rows) = read_dataset (H5Strs e2 rows).
Proof. reflexivity. Qed.

(* edge endpoints are accepted as text whether they arrive as str or as bytes *)
Theorem c04_edges_bytes_or_str : forall (es : list (string * string)),
  edge_rows (VList (map (fun e => VTuple [VBytes (fst e); VBytes (snd e)]) es)) = Ok es /\
  edge_rows (VList (map (fun e => VTuple [VStr (fst e); VStr (snd e)]) es)) = Ok es.
Proof.
  intros es. split; cbn [edge_rows]; induction es as [|[a b] es IH]; cbn [map mapM bind as_text fst snd];
    try reflexivity; rewrite IH; reflexivity.
Qed.

(* an empty edge dataset of any dtype decodes to the empty edge list *)
Theorem c04_empty_edges : forall dt r tok i, edge_rows (VArr dt (0 :: r) tok i) = Ok [].
Proof. reflexivity. Qed.

(* re-writing a graph that was read yields a file that is read through the same refinement *)
Theorem c04_rewrite : forall g t, write g = Ok t ->
  exists d', norm_entries (to_dict g) = Ok d' /\ read t = from_dict d' /\ read_version t = Ok nir_version.
Proof. exact read_write_refines. Qed.

Print Assumptions c04_string_encoding_irrelevant.
Print Assumptions c04_string_array_encoding_irrelevant.
Print Assumptions c04_edges_bytes_or_str.
Print Assumptions c04_empty_edges.
Print Assumptions c04_rewrite.
