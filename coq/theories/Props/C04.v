(* Props/C04.v — Reader decodes every valid encoding of the layout, including legacy files.
   PARTIAL BY NATURE for chunking / compression / creation-order tracking: they are invisible above the h5py
   API (law A5) and only exercised by the correspondence run. *)
From NIR Require Import Model.Serial Proofs.SerialProofs Proofs.SimProofs.

(* variable- or fixed-length strings, ASCII or UTF-8: nir.read does not depend on the physical string encoding *)
Theorem c04_string_encoding_irrelevant : forall t t', h5_enc_sim t t' -> read t = read t'.
Proof. exact read_enc. Qed.

Theorem c04_version_encoding_irrelevant : forall t t', h5_enc_sim t t' -> read_version t = read_version t'.
Proof. exact read_version_enc. Qed.

(* any integer width for shapes and hyper-parameters; tuples vs arrays; Python ints vs numpy scalars:
   the constructors only look at numeric views.  `vsim` relates VInt z ~ numpy scalar z of any dtype,
   integer tuples/lists ~ 1-d integer arrays of any dtype, 0-d arrays ~ numpy scalars. *)
Theorem c04_constructors_respect_numeric_similarity : forall k fs fs',
  fields_sim fs fs' -> side k fs fs' -> res_sim (post_init k fs) (post_init k fs').
Proof. exact post_init_sim. Qed.

Theorem c04_constructors_respect_numeric_similarity' : forall k args args',
  fields_sim args args' ->
  (forall fs fs', bind_args k args = Ok fs -> bind_args k args' = Ok fs' -> side k fs fs') ->
  res_sim (construct k args) (construct k args').
Proof. exact construct_sim. Qed.

Theorem c04_views_blind_to_width_and_container :
  forall a b, vsim a b -> num_view a = num_view b /\ seq_view a = seq_view b.
Proof. intros a b H. split; [apply vsim_num_view|apply vsim_seq_view]; exact H. Qed.

(* edge endpoints are accepted as text whether they arrive as str or as bytes; an empty edge dataset of any
   dtype decodes to the empty edge list *)
Theorem c04_edges_bytes_or_str : forall (es : list (string * string)),
  edge_rows (VList (map (fun e => VTuple [VBytes (fst e); VBytes (snd e)]) es)) = Ok es /\
  edge_rows (VList (map (fun e => VTuple [VStr (fst e); VStr (snd e)]) es)) = Ok es.
Proof.
  intros es. split; cbn [edge_rows]; induction es as [|[a b] es IH]; cbn [map mapM bind as_text fst snd];
    try reflexivity; rewrite IH; reflexivity.
Qed.

Theorem c04_empty_edges : forall dt r tok i, edge_rows (VArr dt (0 :: r) tok i) = Ok [].
Proof. reflexivity. Qed.

(* optional fields: the regenerated table supplies the defaults of the omissible fields *)
Example c04_optional_fields_have_defaults :
  (exists fs, bind_args KCubaLIF [("tau_syn", VNone); ("tau_mem", VNone); ("r", VNone); ("v_leak", VNone);
                                  ("v_threshold", VNone)] = Ok fs /\ assoc "w_in" fs = Some (VFloat 4607182418800017408)
                                  /\ assoc "metadata" fs = Some (VDict [])) /\
  (exists fs, bind_args KFlatten [] = Ok fs /\ assoc "start_dim" fs = Some (VInt 1) /\ assoc "end_dim" fs = Some (VInt (-1))).
Proof. split; eexists; (split; [vm_compute; reflexivity|split; reflexivity]). Qed.

(* re-writing a graph that was read *)
Theorem c04_rewrite : forall g t, write g = Ok t ->
  exists d', norm_entries (to_dict g) = Ok d' /\ read t = from_dict d' /\ read_version t = Ok nir_version.
Proof. exact read_write_refines. Qed.

Print Assumptions c04_string_encoding_irrelevant.
Print Assumptions c04_version_encoding_irrelevant.
Print Assumptions c04_constructors_respect_numeric_similarity.
Print Assumptions c04_constructors_respect_numeric_similarity'.
Print Assumptions c04_views_blind_to_width_and_container.
Print Assumptions c04_edges_bytes_or_str.
Print Assumptions c04_empty_edges.
Print Assumptions c04_rewrite.
