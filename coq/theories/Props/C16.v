(* Props/C16.v — Metadata is carried faithfully and is semantically inert. *)
From NIR Require Import Model.Serial Proofs.SerialProofs.

(* CARRIED: a metadata tree is a nested dictionary of the dictionary form; the file round trip recurses
   into it: sub-dictionaries, strings and arrays come back at the same path, identical *)
Theorem c16_metadata_tree_carried :
  forall kv kv' k l, norm_entries kv = Ok kv' -> In (k, VDict l) kv -> (k <> "metadata" \/ l <> []) ->
    exists l', norm_entries l = Ok l' /\ In (k, VDict l') kv'.
Proof. exact subdict_survives. Qed.

Theorem c16_strings_carried :
  forall d d' p s, norm_entries d = Ok d' -> reach d p (VStr s) -> reach d' p (VStr s).
Proof. exact strings_survive_deep. Qed.

Theorem c16_arrays_carried :
  forall d d' p dt sh tok i,
    norm_entries d = Ok d' -> reach d p (VArr dt sh tok i) -> sh <> [] -> reach d' p (VArr dt sh tok i).
Proof. exact arrays_survive_deep. Qed.

Theorem c16_ints_carried : forall z v', norm_val (VInt z) = Ok v' -> int_view v' = Some z.
Proof. exact norm_val_int. Qed.

Theorem c16_graph_metadata_in_dict : forall ch es gi go m, reach (to_dict (Graph ch es gi go m)) ["metadata"] m.
Proof. exact to_dict_reach_metadata. Qed.

(* INERT (1): the types every constructor derives do not depend on metadata, nor does acceptance *)
Theorem c16_inert_types : forall k fs m,
  res_types (post_init k (assoc_set "metadata" m fs)) = res_types (post_init k fs).
Proof. exact post_init_ignores_metadata. Qed.

(* INERT (2): inference never looks at metadata when it recomputes a type *)
Theorem c16_inert_inference : forall k fs m o i,
  dproj (derive_output k (assoc_set "metadata" m fs) o i) = dproj (derive_output k fs o i).
Proof. exact derive_output_ignores_metadata. Qed.

(* INERT (3): the type check reads nothing but the two types of each child *)
Theorem c16_inert_check : forall ch ch' es,
  (forall k, match assoc k ch, assoc k ch' with
             | Some a, Some b => same_types a b
             | None, None => True
             | _, _ => False
             end) ->
  check_edges ch es = check_edges ch' es.
Proof. exact check_edges_types_only. Qed.

(* INERT (4): in the file, every entry other than the "metadata" group of a node is written
   independently of that node's metadata value *)
Theorem c16_inert_file : forall kv1 kv2 r1 r2,
  Forall2 (fun a b => fst a = fst b /\ (fst a <> "metadata" -> snd a = snd b)) kv1 kv2 ->
  norm_entries kv1 = Ok r1 -> norm_entries kv2 = Ok r2 ->
  filter (fun p => negb (String.eqb (fst p) "metadata")) r1 =
  filter (fun p => negb (String.eqb (fst p) "metadata")) r2.
Proof. exact norm_entries_other_independent. Qed.

(* non-vacuity *)
Example c16_example :
  norm_entries [("scale", VArr "float32" [2] 5 None); ("metadata", VDict [("note", VStr "x"); ("sub", VDict [("n", VInt 3)])])]
  = Ok [("scale", VArr "float32" [2] 5 None);
        ("metadata", VDict [("note", VStr "x"); ("sub", VDict [("n", VNp "int64" (-1) (Some 3))])])].
Proof. reflexivity. Qed.

Print Assumptions c16_metadata_tree_carried.
Print Assumptions c16_strings_carried.
Print Assumptions c16_arrays_carried.
Print Assumptions c16_ints_carried.
Print Assumptions c16_graph_metadata_in_dict.
Print Assumptions c16_inert_types.
Print Assumptions c16_inert_inference.
Print Assumptions c16_inert_check.
Print Assumptions c16_inert_file.
