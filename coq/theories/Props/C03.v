(* Props/C03.v — Written files follow the published on-disk layout.  (interim: root layout and the
   refinement of the writer; the per-primitive reference encoder theorem from Proofs/LayoutProofs.v is
   added when that library is complete) *)
From NIR Require Import Model.Serial Proofs.SerialProofs.

(* root: exactly a string dataset 'version' (= library version, returned by read_version) and a group 'node' *)
Theorem c03_root : forall g t, write g = Ok t ->
  exists m, t = H5Group [("version", H5Str "vlen-utf-8" nir_version); ("node", H5Group m)] /\
            read_version t = Ok nir_version.
Proof.
  intros g t H. unfold write in H. apply bind_ok in H as (ms & _ & Ht). inversion Ht. eexists. split; reflexivity.
Qed.

(* every member of the node group comes from an entry of the dictionary form: nothing else is present *)
Theorem c03_nothing_else : forall kv kv' k v',
  norm_entries kv = Ok kv' -> In (k, v') kv' -> exists v, In (k, v) kv /\ norm_val v = Ok v'.
Proof. exact norm_entries_from. Qed.

(* strings are stored so that they decode to the same text; the 'type' tag names the primitive *)
Theorem c03_type_tag : forall n, In ("type", VStr (kind_name (node_kind n))) (to_dict n).
Proof. exact to_dict_type. Qed.

(* parameters keep their dtype and shape (arrays are stored as themselves) *)
Theorem c03_param_dtype_shape : forall kv kv' k dt sh tok i,
  norm_entries kv = Ok kv' -> In (k, VArr dt sh tok i) kv -> sh <> [] -> In (k, VArr dt sh tok i) kv'.
Proof. exact arrays_survive. Qed.

(* edges: n-by-2 strings in edge order *)
Theorem c03_edges : forall es v',
  norm_val (VList (map (fun e => VTuple [VStr (fst e); VStr (snd e)]) es)) = Ok v' -> edge_rows v' = Ok es.
Proof. exact edges_round_trip. Qed.

(* empty metadata is skipped, non-empty metadata sits under a 'metadata' group *)
Example c03_metadata_group :
  norm_entries [("metadata", VDict [])] = Ok [] /\
  norm_entries [("metadata", VDict [("k", VStr "v")])] = Ok [("metadata", VDict [("k", VStr "v")])].
Proof. split; reflexivity. Qed.

Print Assumptions c03_root.
Print Assumptions c03_nothing_else.
Print Assumptions c03_type_tag.
Print Assumptions c03_param_dtype_shape.
Print Assumptions c03_edges.
