(* Props/C03.v — Written files follow the published on-disk layout. *)
From NIR Require Import Model.Serial Proofs.SerialProofs Proofs.LayoutProofs.
From Coq Require Import Permutation.

(* `encode_ref` / `encode_file` (Proofs/LayoutProofs.v) is an INDEPENDENT reference encoder written from
   docs/source/primitives.md and the shipped artefacts: a per-primitive table of documented parameter
   names (`doc_params`), never the generic dictionary walk. *)

(* the documented parameter table matches the dataclass fields of the source (regenerated table):
   a field added, removed or renamed in the source breaks this Qed *)
Theorem c03_doc_table_matches_source : forall k, k <> KGraph -> table_params k = Some (doc_params k).
Proof. exact doc_params_match_source. Qed.

(* root: exactly 'version' (= library version, what read_version returns) and the group 'node' *)
Theorem c03_root : forall g t, write g = Ok t ->
  exists m, t = H5Group [("version", H5Str "vlen-utf-8" nir_version); ("node", H5Group m)]
            /\ read_version t = Ok nir_version.
Proof. exact file_root. Qed.

(* a node: 'type' + one dataset per documented parameter + the class-specific entry + 'metadata' iff
   non-empty — and NOTHING ELSE (the written members are a permutation of the reference members) *)
Theorem c03_leaf_layout : forall fuel k fs tin tout ms,
  leaf_ok k fs ->
  write_rec fuel (to_dict (Leaf k fs tin tout)) = Ok ms ->
  exists ref, encode_ref (Leaf k fs tin tout) = Ok ref /\ Permutation ms ref.
Proof. exact write_is_reference_layout_leaf. Qed.

(* the whole file, graphs nested to any depth *)
Theorem c03_file_layout : forall g t,
  write g = Ok t -> layout_ok g -> exists r, encode_file g = Ok r /\ h5_equiv t r.
Proof. exact write_is_reference_file. Qed.

(* every node produced by a constructor has exactly the documented fields (+ metadata) *)
Theorem c03_constructed_nodes_have_documented_fields : forall k args k' fs tin tout,
  construct k args = Ok (Leaf k' fs tin tout) -> keys fs = doc_params k ++ ["metadata"].
Proof. exact constructed_leaf_keys. Qed.

(* edges: n-by-2 strings in edge order (an empty dataset when there are none: c04_empty_edges) *)
Theorem c03_edges : forall es v',
  norm_val (VList (map (fun e => VTuple [VStr (fst e); VStr (snd e)]) es)) = Ok v' -> edge_rows v' = Ok es.
Proof. exact edges_round_trip. Qed.

(* non-vacuity: a concrete Input - Scale - Output file, both encodings computed *)
Example c03_example : layout_ok ex_graph.
Proof. exact ex_graph_layout_ok. Qed.

Print Assumptions c03_doc_table_matches_source.
Print Assumptions c03_root.
Print Assumptions c03_leaf_layout.
Print Assumptions c03_file_layout.
Print Assumptions c03_constructed_nodes_have_documented_fields.
Print Assumptions c03_edges.
