(* Props/C08.v — Type inference reconstructs exactly the erased shape annotations.
   (interim: the recomputation functions of the loop are the shape functions of the primitives; the loop-level
   restoration theorem from Proofs/RestoreProofs.v is added when that library is complete) *)
From NIR Require Import Model.Graph Proofs.ShapesProofs Proofs.NodesProofs Proofs.InferProofs.

(* an erased Flatten is recomputed to the merge of its input shape *)
Theorem c08_flatten_recomputed : forall (sh : list Z) (s e : Z) fs pre,
  fld "start_dim" fs = Ok (VInt s) -> fld "end_dim" fs = Ok (VInt e) -> valid_dims sh s e ->
  derive_output KFlatten fs pre [("input", TArr sh)] = (fs, Some [("output", TArr (flatten_out sh s e))], None).
Proof. exact flatten_infer. Qed.

(* a pooling node is recomputed with the convolution arithmetic (dilation 1), channel copied *)
Theorem c08_pool_recomputed : forall (k : kind) fs (c : Z) (sp out : list Z) (ks stride pad : pval),
  k = KSumPool2d \/ k = KAvgPool2d ->
  fld "kernel_size" fs = Ok ks -> fld "stride" fs = Ok stride -> fld "padding" fs = Ok pad ->
  conv_out (HArr sp) (hp_of pad) (HInt 1) (hp_of ks) (hp_of stride) = Ok out ->
  derive_output k fs [("output", TArr (c :: sp))] [("input", TArr (c :: sp))] =
  (fs, Some [("output", TArr (c :: out))], None).
Proof. exact pool_infer. Qed.

(* the loop always terminates within the model's fuel, on every topology *)
Theorem c08_loop_terminates : forall ch es,
  snd (run (infer_fuel ch es) es (init_state ch es)) <> Raised OutOfFuel.
Proof. exact infer_fuel_suffices. Qed.

Print Assumptions c08_flatten_recomputed.
Print Assumptions c08_pool_recomputed.
Print Assumptions c08_loop_terminates.
