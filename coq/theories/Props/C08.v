(* Props/C08.v — Type inference reconstructs exactly the erased shape annotations. *)
From NIR Require Import Model.Graph Proofs.ShapesProofs Proofs.NodesProofs Proofs.InferProofs
                        Proofs.RestoreProofs.

(* Hypotheses (Proofs/RestoreProofs.v): `wf_graph T ch es` — distinct child names, at least one Input,
   every edge joins children and is consistent w.r.t. the ground truth T (out(a) = in(b)), every child is
   either ANNOTATED with its truth or ERASED-and-recomputable (Conv/Pool/Flatten with undefined types
   whose recomputation from the true input gives the true output; an Output with an undefined or wrong
   shape).  `wf_graphb` is an executable, sound checker of these hypotheses. *)

(* the inductive step: one popped edge restores the truth on its target and raises nothing *)
Theorem c08_step_restores : forall (t : list Z * list Z) (pre post : node),
  is_graph pre = false -> node_tout pre = arr_ty "output" (fst t) ->
  annotated t post \/ erased_ok t post ->
  exists post',
    apply_edge pre post = (post', None) /\ annotated t post' /\
    node_kind post' = node_kind post /\ (annotated t post -> post' = post).
Proof. exact restore_step. Qed.

(* DFS completeness of the work-list, on every graph: when the loop finishes, every child reachable from
   an Input along edges has been processed (or is an Input) *)
Theorem c08_worklist_covers_reachable : forall fuel ch es st',
  run fuel es (init_state ch es) = (st', Finished) ->
  forall c, reach ch es c ->
    In c (st_seen st') \/ (exists n, In (c, n) ch /\ is_input n = true).
Proof. exact restore_reachable. Qed.

(* THE PROPERTY: on a consistent graph with any subset of the erasable annotations erased (or an Output
   shape wrong), infer_types returns normally, and every child reachable from an Input carries exactly
   the types of the fully annotated graph — no type undefined, Output nodes included *)
Theorem c08_infer_restores : forall T ch es m, wf_graph T ch es ->
  exists ch',
    infer_types (mk_graph ch es m) = (mk_graph ch' es m, Finished) /\
    map fst ch' = map fst ch /\
    (forall c n', assoc c ch' = Some n' -> child_ok T c n') /\
    (forall c, reach ch es c -> exists n', assoc c ch' = Some n' /\ annotated (T c) n').
Proof. exact infer_restores. Qed.

(* ... and when every node is reachable, the result passes the type check *)
Theorem c08_infer_then_check : forall T ch es m, wf_graph T ch es ->
  (forall c, In c (map fst ch) -> reach ch es c) ->
  forall g' oc, infer_types (mk_graph ch es m) = (g', oc) ->
    oc = Finished /\ check_types g' = Ok true /\
    exists ch', g' = mk_graph ch' es m /\ map fst ch' = map fst ch /\
      forall c, In c (map fst ch) ->
        exists k fs, assoc c ch' = Some (Leaf k fs (arr_ty "input" (fst (T c))) (arr_ty "output" (snd (T c)))).
Proof. exact infer_then_check. Qed.

(* the executable checker of the hypotheses is sound *)
Theorem c08_hypotheses_checkable : forall T ch es, wf_graphb T ch es = true -> wf_graph T ch es.
Proof. exact wf_graphb_sound. Qed.

(* the recomputation functions are the shape functions of the primitives (C06 / C07) *)
Theorem c08_flatten_recomputed : forall (sh : list Z) (s e : Z) fs pre,
  fld "start_dim" fs = Ok (VInt s) -> fld "end_dim" fs = Ok (VInt e) -> valid_dims sh s e ->
  derive_output KFlatten fs pre [("input", TArr sh)] = (fs, Some [("output", TArr (flatten_out sh s e))], None).
Proof. exact flatten_infer. Qed.

(* non-vacuity: Input [2;8;8] -> Conv2d(input_shape None, 3x3) -> Flatten(None) -> Output(None), plus a fan-out
   edge into an Output with a WRONG shape, all built with the model's constructors, satisfies the hypotheses *)
Example c08_example : wf_graph ex_T ex_ch ex_es.
Proof. exact ex_wf. Qed.

Print Assumptions c08_step_restores.
Print Assumptions c08_worklist_covers_reachable.
Print Assumptions c08_infer_restores.
Print Assumptions c08_infer_then_check.
Print Assumptions c08_hypotheses_checkable.
Print Assumptions c08_flatten_recomputed.
