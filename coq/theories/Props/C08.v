(* Props/C08.v — placeholder, theorems added below in a later commit *)
From NIR Require Import Model.Graph.
