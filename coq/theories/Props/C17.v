(* Props/C17.v — Observing a graph never changes it.  In the functional model a graph is a value and the
   observers (to_dict, write, check_types, inputs, outputs) are functions that RETURN something else, so
   they cannot change it by construction; what is proved here is that their results depend only on what
   they are documented to read.  The frame condition of the CPython code is tied behaviourally. *)
From NIR Require Import Model.Alias Proofs.AliasProofs.
From NIR Require Import Model.Serial Proofs.SerialProofs.

(* the type check reads nothing but the two types of each child (not fields, metadata or cached types) *)
Theorem c17_check_reads_types_only : forall ch ch' es,
  (forall k, match assoc k ch, assoc k ch' with
             | Some a, Some b => same_types a b
             | None, None => True
             | _, _ => False
             end) ->
  check_edges ch es = check_edges ch' es.
Proof. exact check_edges_types_only. Qed.

(* observers do not depend on the cached graph-level types *)
Theorem c17_to_dict_ignores_cache : forall ch es gi go gi' go' m,
  to_dict (Graph ch es gi go m) = to_dict (Graph ch es gi' go' m).
Proof. reflexivity. Qed.

Theorem c17_check_ignores_cache : forall ch es gi go gi' go' m m',
  check_types (Graph ch es gi go m) = check_types (Graph ch es gi' go' m').
Proof. reflexivity. Qed.

(* nir.write depends on the graph only through its dictionary form *)
Theorem c17_write_reads_dict_only : forall g g', to_dict g = to_dict g' -> write g = write g'.
Proof. intros g g' H. unfold write. rewrite H. reflexivity. Qed.

(* inputs / outputs are filters: they return sub-lists of the children *)
Theorem c17_inputs_sublist : forall ch p, In p (inputs ch) -> In p ch.
Proof. intros ch p H. unfold inputs in H. apply filter_In in H. apply H. Qed.

Theorem c17_outputs_sublist : forall ch p, In p (outputs ch) -> In p ch.
Proof. intros ch p H. unfold outputs in H. apply filter_In in H. apply H. Qed.

(* "Graphs returned by separate nir.read calls are independent objects": on the object-identity model (Model/Alias.v)
   the second result is the first relocated to fresh identities (`second_read`, tied to the code by the C13Reads
   correspondence cases); no in-place change of an object of one is visible in the other.  The hypothesis (identities
   are non-negative, as the allocator issues them) is necessary: `reads_counterexample`. *)
Theorem c17_separate_reads_independent : forall a, (forall i, In i (ids a) -> 0 <= i) ->
  (forall p new, In p (ids a) -> update p new (second_read a) = second_read a) /\
  (forall p new, In p (ids (second_read a)) -> update p new a = a).
Proof. exact reads_independent. Qed.

(* to_dict only allocates: everything it returns is new, so it cannot have written to an object of the graph through
   the dictionary it hands out *)
Theorem c17_to_dict_allocates_only : forall g n d n',
  below g n -> Alias.to_dict g n = (d, n') -> forall i, In i (ids g) -> ~ In i (ids d).
Proof. exact to_dict_disjoint. Qed.

Print Assumptions c17_check_reads_types_only.
Print Assumptions c17_to_dict_ignores_cache.
Print Assumptions c17_check_ignores_cache.
Print Assumptions c17_write_reads_dict_only.
Print Assumptions c17_inputs_sublist.
Print Assumptions c17_outputs_sublist.
Print Assumptions c17_separate_reads_independent.
Print Assumptions c17_to_dict_allocates_only.
