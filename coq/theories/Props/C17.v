(* Props/C17.v — Observing a graph never changes it.  In the functional model a graph is a value and the
   observers (to_dict, write, check_types, inputs, outputs) are functions that RETURN something else, so
   they cannot change it by construction; what is proved here is that their results depend only on what
   they are documented to read.  The frame condition of the CPython code is tied behaviourally. *)
From NIR Require Import Model.Serial Proofs.SerialProofs.

(* the type check reads nothing but the two types of each child (not fields, metadata or cached types) *)
Theorem c17_check_reads_types_only : forall ch ch' es,
  (forall k, match assoc k ch, assoc k ch' with
             | Some a, Some b => same_types a b
             | None, None => True
             | _, _ => False
             end) ->
  check_edges ch es = check_edges ch' es.
Proof. exact check_edges_types_only. Qed.

(* observers do not depend on the cached graph-level types *)
Theorem c17_to_dict_ignores_cache : forall ch es gi go gi' go' m,
  to_dict (Graph ch es gi go m) = to_dict (Graph ch es gi' go' m).
Proof. reflexivity. Qed.

Theorem c17_check_ignores_cache : forall ch es gi go gi' go' m m',
  check_types (Graph ch es gi go m) = check_types (Graph ch es gi' go' m').
Proof. reflexivity. Qed.

(* nir.write depends on the graph only through its dictionary form *)
Theorem c17_write_reads_dict_only : forall g g', to_dict g = to_dict g' -> write g = write g'.
Proof. intros g g' H. unfold write. rewrite H. reflexivity. Qed.

(* inputs / outputs are filters: they return sub-lists of the children *)
Theorem c17_inputs_sublist : forall ch p, In p (inputs ch) -> In p ch.
Proof. intros ch p H. unfold inputs in H. apply filter_In in H. apply H. Qed.

Theorem c17_outputs_sublist : forall ch p, In p (outputs ch) -> In p ch.
Proof. intros ch p H. unfold outputs in H. apply filter_In in H. apply H. Qed.

Print Assumptions c17_check_reads_types_only.
Print Assumptions c17_to_dict_ignores_cache.
Print Assumptions c17_check_ignores_cache.
Print Assumptions c17_write_reads_dict_only.
Print Assumptions c17_inputs_sublist.
Print Assumptions c17_outputs_sublist.
