(* Props/C01.v — HDF5 round trip returns an equivalent graph.
   Proved here: the file round trip REFINES an explicit specification of what it does to the dictionary
   form (norm_entries): reader inverts writer on every branch; strings, arrays and the edge list survive
   exactly, at every depth.  Not proved (kept visible as c01_full_statement): that re-running the
   constructors on the normalised dictionary yields an equivalent node for all 17 primitives — that part is
   established by the correspondence run (model = implementation on random graphs) and the strict oracle. *)
From NIR Require Import Model.Serial Proofs.SerialProofs Corr.Obs.

Theorem c01_reader_inverts_writer :
  forall fuel kv ms, write_rec fuel kv = Ok ms -> norm_entries kv = Ok (hdf_entries ms).
Proof. exact write_rec_refines. Qed.

Theorem c01_read_is_from_dict_of_normalised :
  forall g t, write g = Ok t ->
    exists d', norm_entries (to_dict g) = Ok d' /\ read t = from_dict d' /\ read_version t = Ok nir_version.
Proof. exact read_write_refines. Qed.

(* the same edge list in the same order: duplicates, self-loops and dotted addresses included *)
Theorem c01_edges_preserved :
  forall es v', norm_val (VList (map (fun e => VTuple [VStr (fst e); VStr (snd e)]) es)) = Ok v' ->
    edge_rows v' = Ok es.
Proof. exact edges_round_trip. Qed.

(* the primitive type tag, padding modes and every other string survive, at every nesting depth *)
Theorem c01_strings_preserved :
  forall d d' p s, norm_entries d = Ok d' -> reach d p (VStr s) -> reach d' p (VStr s).
Proof. exact strings_survive_deep. Qed.

(* nothing is invented: every entry read back comes from an entry written *)
Theorem c01_nothing_invented :
  forall kv kv' k v', norm_entries kv = Ok kv' -> In (k, v') kv' -> exists v, In (k, v) kv /\ norm_val v = Ok v'.
Proof. exact norm_entries_from. Qed.

(* Python integers keep their value; integer tuples/lists become arrays of the same integers *)
Theorem c01_ints_keep_value : forall z v', norm_val (VInt z) = Ok v' -> int_view v' = Some z.
Proof. exact norm_val_int. Qed.

Theorem c01_int_sequences_keep_value :
  forall l zs v', ints_view l = Some zs -> l <> [] ->
    norm_val (VTuple l) = Ok v' \/ norm_val (VList l) = Ok v' -> seq_view v' = Some zs.
Proof. exact norm_val_ints. Qed.

(* the full statement (NOT proved as a theorem; see the header) *)
Definition c01_full_statement : Prop :=
  forall e g t, eval e = Ok g -> write g = Ok t -> exists g', read t = Ok g' /\ node_equiv g' g = true.

Print Assumptions c01_reader_inverts_writer.
Print Assumptions c01_read_is_from_dict_of_normalised.
Print Assumptions c01_edges_preserved.
Print Assumptions c01_strings_preserved.
Print Assumptions c01_nothing_invented.
Print Assumptions c01_ints_keep_value.
Print Assumptions c01_int_sequences_keep_value.
