(* Props/C01.v — HDF5 round trip returns an equivalent graph.
   The file round trip REFINES an explicit specification of what it does to the dictionary form (norm_entries):
   reader inverts writer on every branch; strings, arrays and the edge list survive exactly, at every depth; and
   re-running the constructors on the normalised dictionary yields an equivalent node, for all 17 primitives and
   graphs of any depth (c01_file_round_trip). *)
From NIR Require Import Model.Serial Proofs.SerialProofs Proofs.DictProofs Proofs.RoundTripProofs.

Theorem c01_reader_inverts_writer :
  forall fuel kv ms, write_rec fuel kv = Ok ms -> norm_entries kv = Ok (hdf_entries ms).
Proof. exact write_rec_refines. Qed.

Theorem c01_read_is_from_dict_of_normalised :
  forall g t, write g = Ok t ->
    exists d', norm_entries (to_dict g) = Ok d' /\ read t = from_dict d' /\ read_version t = Ok nir_version.
Proof. exact read_write_refines. Qed.

(* the same edge list in the same order: duplicates, self-loops and dotted addresses included *)
Theorem c01_edges_preserved :
  forall es v', norm_val (VList (map (fun e => VTuple [VStr (fst e); VStr (snd e)]) es)) = Ok v' ->
    edge_rows v' = Ok es.
Proof. exact edges_round_trip. Qed.

(* the primitive type tag, padding modes and every other string survive, at every nesting depth *)
Theorem c01_strings_preserved :
  forall d d' p s, norm_entries d = Ok d' -> reach d p (VStr s) -> reach d' p (VStr s).
Proof. exact strings_survive_deep. Qed.

(* nothing is invented: every entry read back comes from an entry written *)
Theorem c01_nothing_invented :
  forall kv kv' k v', norm_entries kv = Ok kv' -> In (k, v') kv' -> exists v, In (k, v) kv /\ norm_val v = Ok v'.
Proof. exact norm_entries_from. Qed.

(* Python integers keep their value; integer tuples/lists become arrays of the same integers *)
Theorem c01_ints_keep_value : forall z v', norm_val (VInt z) = Ok v' -> int_view v' = Some z.
Proof. exact norm_val_int. Qed.

Theorem c01_int_sequences_keep_value :
  forall l zs v', ints_view l = Some zs -> l <> [] ->
    norm_val (VTuple l) = Ok v' \/ norm_val (VList l) = Ok v' -> seq_view v' = Some zs.
Proof. exact norm_val_ints. Qed.

(* THE PROPERTY: for every node g produced by the constructors (`built`: a leaf returned by `construct`, or mk_graph of
   built children with distinct names, to ANY depth) that nir.write accepts, nir.read of the written file SUCCEEDS and
   returns an equivalent node.  `equiv g' g` (Proofs/RoundTripProofs.v): same kind; same field names in the same order;
   every non-metadata field related by `vsim` ("compared as numbers and arrays": Python ints may come back as numpy
   scalars, integer tuples/lists as integer arrays, 0-d arrays as numpy scalars); every array-valued field of rank >= 1
   IDENTICAL (dtype, shape, content); metadata = its normalised form; input/output types equal (up to the TArr/TSeq
   container for Input/Output/Flatten built from a dict argument); for graphs the same child names in the same order
   with equivalent children, the same edge list, graph-level types related entry by entry.
   `rt_domain g`: (D1) no Python bool / float / bytes and no empty nested "metadata" entry among the NON-metadata field
   values (each shown necessary by a computed counterexample in RoundTripProofs.v — e.g. Flatten(start_dim=True) writes
   but does not read); (D2) Conv padding/stride/dilation are not 0-d arrays (sufficient, not necessary); (D3) the type
   dictionaries of Input/Output/Flatten have the single entry the class serialises.  Nothing is assumed about metadata. *)
Theorem c01_file_round_trip : forall g t, built g -> rt_domain g -> write g = Ok t ->
  exists g', read t = Ok g' /\ equiv g' g.
Proof. exact file_round_trip. Qed.

(* without D3: against the canonical form (type dictionaries restricted to the serialised entry) *)
Theorem c01_file_round_trip_canon : forall g t, built g -> rt_dom g -> write g = Ok t ->
  exists g', read t = Ok g' /\ equiv g' (canon g).
Proof. exact file_round_trip_canon. Qed.

(* non-vacuity: Input (dict argument with a tuple) -> Conv2d ('same', tuple and int hyper-parameters) -> Flatten ->
   CubaLIF (scalar float w_in; metadata tree with a float, a bool and an empty nested "metadata") -> Output *)
Example c01_example : built ex_graph /\ rt_domain ex_graph.
Proof. split; [exact ex_built|exact ex_domain]. Qed.

Print Assumptions c01_reader_inverts_writer.
Print Assumptions c01_read_is_from_dict_of_normalised.
Print Assumptions c01_edges_preserved.
Print Assumptions c01_strings_preserved.
Print Assumptions c01_nothing_invented.
Print Assumptions c01_ints_keep_value.
Print Assumptions c01_int_sequences_keep_value.
Print Assumptions c01_file_round_trip.
Print Assumptions c01_file_round_trip_canon.
