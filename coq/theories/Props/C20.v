(* Props/C20.v — Reference simulators implement the documented neuron dynamics.
   The definitions `advance`, `next_spike`, `reset`, `cuba_step` are TRANSLATED from the Python AST
   of the paper scripts on every run (Gen/LifFormulas.v); the theorems below are about those terms,
   in exact real arithmetic (floating-point rounding is not modelled). *)
From Coq Require Import Reals.
From Coquelicot Require Import Coquelicot.
From Coq Require Import List.
(* Gen.EventLoopR first: Model.EventLoop (the rational loop) defines the same names and must shadow it here; the
   real-valued loop is only used through lif_simulate and Rle_bool *)
From NIR Require Import Gen.EventLoopR Proofs.EventLoopRProofs Proofs.LifLoopProofs.
From NIR Require Import Gen.LifFormulas Proofs.LifProofs Model.EventLoop Proofs.EventLoopProofs.
Import ListNotations.
Open Scope R_scope.

(* advancing by zero time is the identity *)
Theorem c20_zero : forall tau r v_leak thr v i, advance tau r v_leak thr v i 0 = v.
Proof. exact advance_zero. Qed.

(* advancing in two steps equals advancing once by the sum *)
Theorem c20_semigroup : forall tau r v_leak thr v i a b,
  advance tau r v_leak thr (advance tau r v_leak thr v i a) i b = advance tau r v_leak thr v i (a + b).
Proof. exact advance_semigroup. Qed.

(* it IS the solution of  tau dv/dt = (v_leak - v) + R I  with initial value v (c20_zero) *)
Theorem c20_ode : forall tau r v_leak thr v i t, tau <> 0 ->
  is_derive (fun t => advance tau r v_leak thr v i t) t
            (((v_leak - advance tau r v_leak thr v i t) + r * i) / tau).
Proof. exact advance_ode. Qed.

(* the membrane relaxes to v_leak + R I *)
Theorem c20_limit : forall tau r v_leak thr v i, 0 < tau ->
  is_lim (fun t => advance tau r v_leak thr v i t) p_infty (v_leak + r * i).
Proof. exact advance_limit. Qed.

(* predicted spike times are exactly the threshold crossings: the returned time is positive, the
   voltage equals the threshold there, and stays below it before *)
Theorem c20_spike_time : forall tau r v_leak thr, 0 < tau -> forall v i,
  v < thr -> thr < v_leak + r * i ->
  exists t, next_spike tau r v_leak thr v i = Some t /\ 0 < t /\
            advance tau r v_leak thr v i t = thr /\
            forall s, 0 <= s < t -> advance tau r v_leak thr v i s < thr.
Proof. exact spike_time. Qed.

(* ... and "infinity" is returned exactly when the threshold is never reached *)
Theorem c20_no_spike : forall tau r v_leak thr, 0 < tau -> forall v i,
  v < thr -> v_leak + r * i <= thr ->
  next_spike tau r v_leak thr v i = None /\
  forall t, 0 <= t -> advance tau r v_leak thr v i t < thr.
Proof. exact no_spike. Qed.

(* reset by subtraction *)
Theorem c20_reset : forall tau r v_leak thr v, reset tau r v_leak thr v = v - thr.
Proof. reflexivity. Qed.

(* Recording interval independence, inductive step (PARTIAL form of the loop-level statement):
   inserting an event (e.g. a voltage recording) at time a before the next event leaves the state
   at the later event unchanged (c20_semigroup) and does not move the absolute spike time. *)
Theorem c20_record_step_partial : forall tau r v_leak thr, 0 < tau -> forall v i t a,
  v < thr -> thr < v_leak + r * i -> next_spike tau r v_leak thr v i = Some t -> 0 <= a < t ->
  exists t', next_spike tau r v_leak thr (advance tau r v_leak thr v i a) i = Some t' /\ a + t' = t.
Proof. exact spike_shift. Qed.

(* RECORDING-INTERVAL INDEPENDENCE at loop level, for the model of run_event_based_simulation (Model/EventLoop.v, tied to
   the code by exact event-by-event correspondence) and ANY neuron whose operations satisfy the flow laws L0 (zero step),
   L1 (semigroup), L2 (predicted spike times are not in the past) — the laws c20_zero / c20_semigroup / c20_spike_time
   establish for the translated LIF formulas.  Schedule sorted and non-negative, both intervals positive:
   the spike lists restricted to [0, duration] agree, and voltages recorded at a common time agree. *)
Theorem c20_spikes_independent_of_record_dt :
  forall (V : Type) (advance : V -> Q -> Q -> V) (next_spike : V -> Q -> option Q) (reset : V -> V) (volt : V -> Q)
         (veq : V -> V -> Prop),
    (forall v, veq v v) -> (forall v w, veq v w -> veq w v) -> (forall v w x, veq v w -> veq w x -> veq v x) ->
    (forall v v' i i' a a', veq v v' -> (i == i')%Q -> (a == a')%Q -> veq (advance v i a) (advance v' i' a')) ->
    (forall v v', veq v v' -> veq (reset v) (reset v')) ->
    (forall v v', veq v v' -> (volt v == volt v')%Q) ->
    (forall v v' i i', veq v v' -> (i == i')%Q -> oeq (next_spike v i) (next_spike v' i')) ->
    (forall v i, veq (advance v i 0%Q) v) ->
    (forall v i a b, (0 <= a)%Q -> (0 <= b)%Q -> veq (advance (advance v i a) i b) (advance v i (a + b)%Q)) ->
    (forall v i t, next_spike v i = Some t -> (0 <= t)%Q) ->
    forall (n0 : V) (times amps : list Q),
    (forall a, nth_error times 0 = Some a -> (0 <= a)%Q) ->
    (forall i a b, nth_error times i = Some a -> nth_error times (S i) = Some b -> (a <= b)%Q) ->
    forall fuel1 fuel2 r1 r2 d volts1 spikes1 volts2 spikes2,
    (0 < r1)%Q -> (0 < r2)%Q ->
    simulate V advance next_spike reset volt fuel1 n0 times amps r1 d = Some (volts1, spikes1) ->
    simulate V advance next_spike reset volt fuel2 n0 times amps r2 d = Some (volts2, spikes2) ->
    Forall2 Qeq (filter (fun t => Qle_bool t d) spikes1) (filter (fun t => Qle_bool t d) spikes2).
Proof. exact C20_spikes. Qed.

Theorem c20_voltages_independent_of_record_dt :
  forall (V : Type) (advance : V -> Q -> Q -> V) (next_spike : V -> Q -> option Q) (reset : V -> V) (volt : V -> Q)
         (veq : V -> V -> Prop),
    (forall v, veq v v) -> (forall v w, veq v w -> veq w v) -> (forall v w x, veq v w -> veq w x -> veq v x) ->
    (forall v v' i i' a a', veq v v' -> (i == i')%Q -> (a == a')%Q -> veq (advance v i a) (advance v' i' a')) ->
    (forall v v', veq v v' -> veq (reset v) (reset v')) ->
    (forall v v', veq v v' -> (volt v == volt v')%Q) ->
    (forall v v' i i', veq v v' -> (i == i')%Q -> oeq (next_spike v i) (next_spike v' i')) ->
    (forall v i, veq (advance v i 0%Q) v) ->
    (forall v i a b, (0 <= a)%Q -> (0 <= b)%Q -> veq (advance (advance v i a) i b) (advance v i (a + b)%Q)) ->
    (forall v i t, next_spike v i = Some t -> (0 <= t)%Q) ->
    forall (n0 : V) (times amps : list Q),
    (forall a, nth_error times 0 = Some a -> (0 <= a)%Q) ->
    (forall i a b, nth_error times i = Some a -> nth_error times (S i) = Some b -> (a <= b)%Q) ->
    forall fuel1 fuel2 r1 r2 d volts1 spikes1 volts2 spikes2 tau1 x1 tau2 x2,
    (0 < r1)%Q -> (0 < r2)%Q ->
    simulate V advance next_spike reset volt fuel1 n0 times amps r1 d = Some (volts1, spikes1) ->
    simulate V advance next_spike reset volt fuel2 n0 times amps r2 d = Some (volts2, spikes2) ->
    In (tau1, x1) volts1 -> In (tau2, x2) volts2 -> (tau1 == tau2)%Q -> (x1 == x2)%Q.
Proof. exact C20_volts. Qed.

(* the laws are satisfiable: the integrate-and-fire instance the correspondence runs the real loop on *)
Theorem c20_laws_hold_for_if_neuron :
  (forall v i, if_veq (if_advance v i 0%Q) v) /\
  (forall v i a b, (0 <= a)%Q -> (0 <= b)%Q -> if_veq (if_advance (if_advance v i a) i b) (if_advance v i (a + b)%Q)) /\
  (forall v i t, if_next v i = Some t -> (0 <= t)%Q).
Proof. split; [exact if_L0|split; [exact if_L1|exact if_L2]]. Qed.

(* THE LIF NEURON ITSELF.  Gen/EventLoopR.v is the mechanical port of the loop model to the reals (regenerated from
   Model/EventLoop.v on every run: Q -> R, nothing else changes); instantiated with the closed forms TRANSLATED FROM THE
   PYTHON SOURCE (Gen/LifFormulas.v) it is the exact LIF simulator in real arithmetic.  For every parameter set, initial
   voltage, sorted non-negative step-current schedule, duration and pair of positive recording intervals: the spike times
   within the duration are equal and a voltage recorded at a common time is the same number. *)
Theorem c20_lif_spikes_independent_of_record_dt :
  forall tau r v_leak thr, 0 < tau -> forall v0 times amps,
    (forall a, nth_error times 0 = Some a -> 0 <= a) ->
    (forall i a b, nth_error times i = Some a -> nth_error times (S i) = Some b -> a <= b) ->
    forall fuel1 fuel2 r1 r2 d volts1 spikes1 volts2 spikes2,
    0 < r1 -> 0 < r2 ->
    lif_simulate tau r v_leak thr fuel1 v0 times amps r1 d = Some (volts1, spikes1) ->
    lif_simulate tau r v_leak thr fuel2 v0 times amps r2 d = Some (volts2, spikes2) ->
    filter (fun t => Rle_bool t d) spikes1 = filter (fun t => Rle_bool t d) spikes2.
Proof. exact lif_spikes_independent_of_record_dt. Qed.

Theorem c20_lif_voltages_independent_of_record_dt :
  forall tau r v_leak thr, 0 < tau -> forall v0 times amps,
    (forall a, nth_error times 0 = Some a -> 0 <= a) ->
    (forall i a b, nth_error times i = Some a -> nth_error times (S i) = Some b -> a <= b) ->
    forall fuel1 fuel2 r1 r2 d volts1 spikes1 volts2 spikes2 tau1 x1 tau2 x2,
    0 < r1 -> 0 < r2 ->
    lif_simulate tau r v_leak thr fuel1 v0 times amps r1 d = Some (volts1, spikes1) ->
    lif_simulate tau r v_leak thr fuel2 v0 times amps r2 d = Some (volts2, spikes2) ->
    In (tau1, x1) volts1 -> In (tau2, x2) volts2 -> tau1 = tau2 -> x1 = x2.
Proof. exact lif_voltages_independent_of_record_dt. Qed.

(* non-vacuity over R (exp / ln do not compute, so the run is unfolded symbolically): a neuron driven above threshold
   spikes at the predicted time t > 0, the run with any recording interval above t is defined and its spike list within
   the duration t is [t] *)
Theorem c20_lif_run_defined : forall tau r vl thr v0 a rd,
  0 < tau -> 0 < thr -> v0 < thr -> thr < vl + r * a ->
  exists t, lif_next tau r vl thr v0 a = Some t /\ 0 < t /\
    (0 + t < rd -> exists volts spikes,
       lif_simulate tau r vl thr 4 v0 [0] [a] rd (0 + t) = Some (volts, spikes) /\
       filter (fun x => Rle_bool x (0 + t)) spikes = [0 + t]).
Proof. exact lif_run_spike_within. Qed.

(* the numpy CubaLIF reference model performs exactly the forward-Euler update of
     tau_syn dI/dt = -I + w_in S ,  tau_mem dv/dt = (v_leak - v) + R I
   with the synaptic current of the PREVIOUS step driving the membrane, spike iff the un-reset
   voltage exceeds the threshold (strictly), reset by subtraction *)
Theorem c20_cuba_euler : forall dt tau_syn tau_mem r v_leak thr w_in I0 v0 x,
  let v' := v0 + dt * ((v_leak - v0 + r * I0) / tau_mem) in
  let I' := I0 + dt * ((- I0 + w_in * x) / tau_syn) in
  cuba_step dt tau_syn tau_mem r v_leak thr w_in I0 v0 x =
  (if Rgt_dec v' thr then true else false, if Rgt_dec v' thr then v' - thr else v', I').
Proof. exact cuba_is_euler. Qed.

(* non-vacuity: tau = 1, R = 2, v_leak = 1/4, thr = 1, v = 1/2, I = 1: v < thr < v_leak + R I *)
Example c20_example : (1 / 2 < 1 /\ 1 < 1 / 4 + 2 * 1) /\ advance 1 2 (1 / 4) 1 (1 / 2) 1 0 = 1 / 2.
Proof. split; [split; Lra.lra|apply advance_zero]. Qed.

Print Assumptions c20_zero.
Print Assumptions c20_semigroup.
Print Assumptions c20_ode.
Print Assumptions c20_limit.
Print Assumptions c20_spike_time.
Print Assumptions c20_no_spike.
Print Assumptions c20_reset.
Print Assumptions c20_record_step_partial.
Print Assumptions c20_cuba_euler.
Print Assumptions c20_spikes_independent_of_record_dt.
Print Assumptions c20_voltages_independent_of_record_dt.
Print Assumptions c20_laws_hold_for_if_neuron.
Print Assumptions c20_lif_spikes_independent_of_record_dt.
Print Assumptions c20_lif_voltages_independent_of_record_dt.
