(* Props/C20.v — Reference simulators implement the documented neuron dynamics.
   The definitions `advance`, `next_spike`, `reset`, `cuba_step` are TRANSLATED from the Python AST
   of the paper scripts on every run (Gen/LifFormulas.v); the theorems below are about those terms,
   in exact real arithmetic (floating-point rounding is not modelled). *)
From Coq Require Import Reals.
From Coquelicot Require Import Coquelicot.
From NIR Require Import Gen.LifFormulas Proofs.LifProofs.
Open Scope R_scope.

(* advancing by zero time is the identity *)
Theorem c20_zero : forall tau r v_leak thr v i, advance tau r v_leak thr v i 0 = v.
Proof. exact advance_zero. Qed.

(* advancing in two steps equals advancing once by the sum *)
Theorem c20_semigroup : forall tau r v_leak thr v i a b,
  advance tau r v_leak thr (advance tau r v_leak thr v i a) i b = advance tau r v_leak thr v i (a + b).
Proof. exact advance_semigroup. Qed.

(* it IS the solution of  tau dv/dt = (v_leak - v) + R I  with initial value v (c20_zero) *)
Theorem c20_ode : forall tau r v_leak thr v i t, tau <> 0 ->
  is_derive (fun t => advance tau r v_leak thr v i t) t
            (((v_leak - advance tau r v_leak thr v i t) + r * i) / tau).
Proof. exact advance_ode. Qed.

(* the membrane relaxes to v_leak + R I *)
Theorem c20_limit : forall tau r v_leak thr v i, 0 < tau ->
  is_lim (fun t => advance tau r v_leak thr v i t) p_infty (v_leak + r * i).
Proof. exact advance_limit. Qed.

(* predicted spike times are exactly the threshold crossings: the returned time is positive, the
   voltage equals the threshold there, and stays below it before *)
Theorem c20_spike_time : forall tau r v_leak thr, 0 < tau -> forall v i,
  v < thr -> thr < v_leak + r * i ->
  exists t, next_spike tau r v_leak thr v i = Some t /\ 0 < t /\
            advance tau r v_leak thr v i t = thr /\
            forall s, 0 <= s < t -> advance tau r v_leak thr v i s < thr.
Proof. exact spike_time. Qed.

(* ... and "infinity" is returned exactly when the threshold is never reached *)
Theorem c20_no_spike : forall tau r v_leak thr, 0 < tau -> forall v i,
  v < thr -> v_leak + r * i <= thr ->
  next_spike tau r v_leak thr v i = None /\
  forall t, 0 <= t -> advance tau r v_leak thr v i t < thr.
Proof. exact no_spike. Qed.

(* reset by subtraction *)
Theorem c20_reset : forall tau r v_leak thr v, reset tau r v_leak thr v = v - thr.
Proof. reflexivity. Qed.

(* Recording interval independence, inductive step (PARTIAL form of the loop-level statement):
   inserting an event (e.g. a voltage recording) at time a before the next event leaves the state
   at the later event unchanged (c20_semigroup) and does not move the absolute spike time. *)
Theorem c20_record_step_partial : forall tau r v_leak thr, 0 < tau -> forall v i t a,
  v < thr -> thr < v_leak + r * i -> next_spike tau r v_leak thr v i = Some t -> 0 <= a < t ->
  exists t', next_spike tau r v_leak thr (advance tau r v_leak thr v i a) i = Some t' /\ a + t' = t.
Proof. exact spike_shift. Qed.

(* the full loop-level statement, kept visible: for every schedule of input changes, the spike list
   restricted to [0, duration] and the voltage at every common record time do not depend on
   record_dt.  It is not proved here (the event loop is not modelled); the harness checks it on the
   real code for sampled schedules. *)

(* the numpy CubaLIF reference model performs exactly the forward-Euler update of
     tau_syn dI/dt = -I + w_in S ,  tau_mem dv/dt = (v_leak - v) + R I
   with the synaptic current of the PREVIOUS step driving the membrane, spike iff the un-reset
   voltage exceeds the threshold (strictly), reset by subtraction *)
Theorem c20_cuba_euler : forall dt tau_syn tau_mem r v_leak thr w_in I0 v0 x,
  let v' := v0 + dt * ((v_leak - v0 + r * I0) / tau_mem) in
  let I' := I0 + dt * ((- I0 + w_in * x) / tau_syn) in
  cuba_step dt tau_syn tau_mem r v_leak thr w_in I0 v0 x =
  (if Rgt_dec v' thr then true else false, if Rgt_dec v' thr then v' - thr else v', I').
Proof. exact cuba_is_euler. Qed.

(* non-vacuity: tau = 1, R = 2, v_leak = 1/4, thr = 1, v = 1/2, I = 1: v < thr < v_leak + R I *)
Example c20_example : (1 / 2 < 1 /\ 1 < 1 / 4 + 2 * 1) /\ advance 1 2 (1 / 4) 1 (1 / 2) 1 0 = 1 / 2.
Proof. split; [split; Lra.lra|apply advance_zero]. Qed.

Print Assumptions c20_zero.
Print Assumptions c20_semigroup.
Print Assumptions c20_ode.
Print Assumptions c20_limit.
Print Assumptions c20_spike_time.
Print Assumptions c20_no_spike.
Print Assumptions c20_reset.
Print Assumptions c20_record_step_partial.
Print Assumptions c20_cuba_euler.
