(* Props/C19.v — Constructors accept exactly the well-formed parameter sets. *)
From NIR Require Import Model.Graph Proofs.ShapesProofs Proofs.NodesProofs.

(* IF / LI / LIF (and I, Scale, ...): constructed iff every parameter has a shape and all shapes
   are equal; the result then has fully defined types.  An Err result carries no node at all
   (`result` has no partial-object constructor). *)
Theorem c19_neuron :
  forall (k : kind) fs names n,
    elementwise k fs names = Ok n <->
    exists sh rest, mapM (fun f => fld_shape f fs) names = Ok (sh :: rest)
                    /\ all_same (sh :: rest) = true
                    /\ n = Leaf k (drop_types fs) (arr_ty "input" sh) (arr_ty "output" sh).
Proof. exact elementwise_ok. Qed.

Theorem c19_all_same :
  forall l, all_same l = true <-> (forall a b, In a l -> In b l -> a = b).
Proof. exact all_same_spec. Qed.

(* CubaLIF: accepted => the five parameters share a shape S, w_in (scalar or array) broadcasts
   to exactly S, and the stored w_in is materialised to shape S *)
Theorem c19_cuba_accepts :
  forall fs n,
    post_init KCubaLIF fs = Ok n ->
    exists sh w wsh,
      (forall p, In p cuba_params -> fld_shape p fs = Ok sh) /\
      fld "w_in" fs = Ok w /\ operand_shape w = Ok wsh /\ broadcast_shapes sh wsh = Some sh /\
      n = Leaf KCubaLIF (assoc_set "w_in" (w_in_materialised sh w) (drop_types fs))
               (arr_ty "input" sh) (arr_ty "output" sh).
Proof. exact cuba_accepts. Qed.

Theorem c19_cuba_materialised :
  forall sh w, shape_attr (w_in_materialised sh w) = Ok sh.
Proof. exact w_in_materialised_shape. Qed.

(* ... and conversely every such parameter set is accepted *)
Theorem c19_cuba_complete :
  forall fs sh w wsh,
    (forall p, In p cuba_params -> fld_shape p fs = Ok sh) ->
    fld "w_in" fs = Ok w -> operand_shape w = Ok wsh -> broadcast_shapes sh wsh = Some sh ->
    post_init KCubaLIF fs =
    Ok (Leaf KCubaLIF (assoc_set "w_in" (w_in_materialised sh w) (drop_types fs))
             (arr_ty "input" sh) (arr_ty "output" sh)).
Proof. exact cuba_accepts_conv. Qed.

(* a w_in that would broadcast the parameters UP is rejected *)
Theorem c19_cuba_rejects_up :
  forall fs sh w wsh r,
    (forall p, In p cuba_params -> fld_shape p fs = Ok sh) ->
    fld "w_in" fs = Ok w -> operand_shape w = Ok wsh -> broadcast_shapes sh wsh = Some r -> r <> sh ->
    post_init KCubaLIF fs = Err AssertionError.
Proof. exact cuba_rejects_up. Qed.

(* Affine / Linear: constructed iff rank(weight) >= 2 *)
Theorem c19_linear :
  forall (k : kind) fs n,
    matvec k fs = Ok n <->
    exists w, fld_shape "weight" fs = Ok w /\ (2 <= length w)%nat /\
              exists x y, matvec_rel w x y /\
                          n = Leaf k (drop_types fs) (arr_ty "input" x) (arr_ty "output" y).
Proof. exact matvec_ok. Qed.

(* padding strings: a text string is acceptable iff it is 'same' or 'valid'; byte strings never *)
Theorem c19_padding_text :
  forall s, pad_is_bad_string (VStr s) = false <-> s = "same" \/ s = "valid".
Proof. exact pad_string_ok. Qed.

Theorem c19_padding_bytes : forall s, pad_is_bad_string (VBytes s) = true.
Proof. exact pad_bytes_bad. Qed.

Theorem c19_conv_rejects :
  forall k fs pad, k = KConv1d \/ k = KConv2d -> fld "padding" fs = Ok pad ->
    pad_is_bad_string pad = true -> post_init k fs = Err ValueError.
Proof. exact conv_rejects_bad_padding. Qed.

(* non-vacuity: parameters of shape (2,3), w_in of shape (3,) broadcasts; (2,2,3) does not *)
Example c19_example :
  broadcast_shapes [2; 3] [3] = Some [2; 3] /\ broadcast_shapes [2; 3] [2; 2; 3] = Some [2; 2; 3]
  /\ broadcast_shapes [2; 3] [2] = None.
Proof. repeat split; reflexivity. Qed.

Print Assumptions c19_neuron.
Print Assumptions c19_all_same.
Print Assumptions c19_cuba_accepts.
Print Assumptions c19_cuba_materialised.
Print Assumptions c19_cuba_complete.
Print Assumptions c19_cuba_rejects_up.
Print Assumptions c19_linear.
Print Assumptions c19_padding_text.
Print Assumptions c19_padding_bytes.
Print Assumptions c19_conv_rejects.
