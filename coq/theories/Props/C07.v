(* Props/C07.v — Flatten shape arithmetic matches array-flatten semantics.
   Only theorem statements, each closed by `exact <lemma>`; lemmas live in Proofs/. *)
From NIR Require Import Model.Graph Proofs.ShapesProofs Proofs.NodesProofs.

(* For every shape of rank >= 1 and every valid (start_dim, end_dim) pair — negative indices
   counted from the end — the code's slicing logic (three special cases included) yields the
   input shape with dimensions start..end merged into their product, all others untouched. *)
Theorem c07_flatten_merges :
  forall (sh : list Z) (s e : Z),
    let n := lenZ sh in
    1 <= n -> - n <= s < n -> - n <= e < n -> norm_dim n s <= norm_dim n e ->
    flatten_out sh s e = flatten_spec sh (Z.to_nat (norm_dim n s)) (Z.to_nat (norm_dim n e)).
Proof. exact flatten_out_spec. Qed.

(* ... so the element count is always preserved (no bound on rank or sizes). *)
Theorem c07_preserves_element_count :
  forall (sh : list Z) (s e : Z),
    let n := lenZ sh in
    1 <= n -> - n <= s < n -> - n <= e < n -> norm_dim n s <= norm_dim n e ->
    prodZ (flatten_out sh s e) = prodZ sh.
Proof. exact flatten_out_prod. Qed.

(* the rank drops by exactly the number of merged dimensions minus one *)
Theorem c07_rank :
  forall (sh : list Z) (s e : Z),
    let n := lenZ sh in
    1 <= n -> - n <= s < n -> - n <= e < n -> norm_dim n s <= norm_dim n e ->
    lenZ (flatten_out sh s e) = n - (norm_dim n e - norm_dim n s).
Proof. exact flatten_out_rank. Qed.

(* Construction (ndarray / list / tuple / dict argument), graph-level inference and the shape
   utility all return the same value: the one characterised above. *)
Theorem c07_construct_agrees :
  forall (sh : list Z) (x : pval) (tv : tyv) (s e : Z),
    shape_arg sh x tv -> valid_dims sh s e ->
    construct KFlatten [("input_type", x); ("start_dim", VInt s); ("end_dim", VInt e)] =
    Ok (Leaf KFlatten [("start_dim", VInt s); ("end_dim", VInt e); ("metadata", VDict [])]
          (Some [("input", TArr sh)]) (Some [("output", TArr (flatten_out sh s e))])).
Proof. exact flatten_construct. Qed.

Theorem c07_construct_agrees_dict :
  forall (sh : list Z) dt tok n (s e : Z),
    valid_dims sh s e ->
    construct KFlatten [("input_type", VDict [("input", VArr dt [n] tok (Some sh))]);
                        ("start_dim", VInt s); ("end_dim", VInt e)] =
    Ok (Leaf KFlatten [("start_dim", VInt s); ("end_dim", VInt e); ("metadata", VDict [])]
          (Some [("input", TArr sh)]) (Some [("output", TArr (flatten_out sh s e))])).
Proof. exact flatten_construct_dict. Qed.

Theorem c07_infer_agrees :
  forall (sh : list Z) (s e : Z) fs pre,
    fld "start_dim" fs = Ok (VInt s) -> fld "end_dim" fs = Ok (VInt e) -> valid_dims sh s e ->
    derive_output KFlatten fs pre [("input", TArr sh)] =
    (fs, Some [("output", TArr (flatten_out sh s e))], None).
Proof. exact flatten_infer. Qed.

(* non-vacuity: a rank-4 shape with a negative end index meets the hypotheses *)
Example c07_example :
  flatten_out [2; 3; 4; 5] 1 (-2) = [2; 12; 5] /\ prodZ [2; 12; 5] = prodZ [2; 3; 4; 5].
Proof. split; reflexivity. Qed.

Print Assumptions c07_flatten_merges.
Print Assumptions c07_preserves_element_count.
Print Assumptions c07_rank.
Print Assumptions c07_construct_agrees.
Print Assumptions c07_construct_agrees_dict.
Print Assumptions c07_infer_agrees.
