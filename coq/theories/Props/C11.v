(* Props/C11.v — from_list builds exactly the sequential path graph. *)
From NIR Require Import Model.Graph Proofs.FromListProofs.

(* each given node, in the given order *)
Theorem c11_order : forall ns earlier, map snd (name_nodes ns earlier) = ns.
Proof. exact name_nodes_order. Qed.

(* naming scheme: lower-cased class name, suffix _k for the k-th repetition (k >= 1) *)
Theorem c11_naming_scheme : forall ns earlier i n, nth_error ns i = Some n ->
  exists nm, nth_error (map fst (name_nodes ns earlier)) i = Some nm /\
    let base := lower (kind_name (node_kind n)) in
    let k := count_occ_str base (earlier ++ map (fun x => lower (kind_name (node_kind x))) (firstn i ns)) in
    nm = match k with O => base | _ => (base ++ "_" ++ dec k)%string end.
Proof. exact name_nodes_scheme. Qed.

(* names are pairwise distinct — for every length and repetition pattern (needs: decimal rendering is
   injective, and no lower-cased class name of the model's kinds contains '_', checked by computation) *)
Theorem c11_names_distinct : forall ns, NoDup (map fst (name_nodes ns [])).
Proof. exact name_nodes_NoDup. Qed.

Theorem c11_decimal_injective : forall a b, dec a = dec b -> a = b.
Proof. exact dec_inj. Qed.

Theorem c11_class_names_have_no_underscore : forall k, In k all_kinds ->
  forall i, get i (lower (kind_name k)) <> Some "_"%char.
Proof. exact base_names_no_underscore. Qed.

(* edges are exactly the chain of consecutive names *)
Theorem c11_edges_chain : forall l, zip_next l = combine l (tl l).
Proof. exact zip_next_chain. Qed.

(* the whole graph: given nodes in order, an Input in front carrying the first node's input type unless
   the first node is an Input, an Output behind carrying the last node's output type unless the last
   is an Output, chain edges — for every admissible sequence *)
Theorem c11_from_list : forall ns first rest, ns = first :: rest ->
  (forall n, In n ns -> is_graph n = false) ->
  (forall n, In n rest -> is_input n = false) ->
  (forall n, In n (removelast ns) -> is_output n = false) ->
  forall g, from_list ns = Ok g ->
  exists pre post ch,
    g = mk_graph ch (zip_next (map fst ch)) (VDict []) /\
    ch = pre ++ name_nodes ns [] ++ post /\
    (is_input first = true -> pre = []) /\
    (is_input first = false -> exists i, pre = [("input", i)] /\ input_of_ty (child_tin first) = Ok i) /\
    (is_output (last ns first) = true -> post = []) /\
    (is_output (last ns first) = false -> exists o, post = [("output", o)] /\
                                           output_of_ty (child_tout (last ns first)) = Ok o).
Proof. exact from_list_structure. Qed.

(* non-vacuity: IF, I, IF, LIF -> names if, i, if_1, lif *)
Example c11_example :
  let mk k := Leaf k [] (Some [("input", TArr [2])]) (Some [("output", TArr [2])]) in
  map fst (name_nodes [mk KIF; mk KI; mk KIF; mk KLIF] []) = ["if"; "i"; "if_1"; "lif"].
Proof. reflexivity. Qed.

Print Assumptions c11_order.
Print Assumptions c11_naming_scheme.
Print Assumptions c11_names_distinct.
Print Assumptions c11_decimal_injective.
Print Assumptions c11_class_names_have_no_underscore.
Print Assumptions c11_edges_chain.
Print Assumptions c11_from_list.
