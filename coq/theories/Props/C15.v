(* Props/C15.v — A file path behaves as a last-writer-wins register (model level; truncation,
   handle closure and re-openability are OS / libhdf5 behaviour observed by the harness). *)
From NIR Require Import Model.FS Proofs.FSProofs.

Theorem c15_last_writer_wins :
  forall st0 before g t reads,
    write g = Ok t -> forallb is_read reads = true ->
    last_write st0 (before ++ FWrite (Ok g) :: reads) = FHolds t.
Proof. exact last_writer_wins. Qed.

Theorem c15_read_returns_last_write :
  forall st0 before g t reads,
    write g = Ok t -> forallb is_read reads = true ->
    snd (fstep (last_write st0 (before ++ FWrite (Ok g) :: reads)) FRead) =
    match read t with Ok n => RGraph n | Err _ => RReadRaised end.
Proof. exact read_after_history. Qed.

Theorem c15_reads_do_not_alter :
  forall st, fst (fstep st FRead) = st /\ fst (fstep st FReadVersion) = st.
Proof. exact read_keeps_state. Qed.

Theorem c15_no_residue :
  forall st st' g t, write g = Ok t -> fstep st (FWrite (Ok g)) = fstep st' (FWrite (Ok g)).
Proof. exact write_overwrites. Qed.

Theorem c15_run_state : forall st ops, fst (frun st ops) = last_write st ops.
Proof. exact frun_state. Qed.

Print Assumptions c15_last_writer_wins.
Print Assumptions c15_read_returns_last_write.
Print Assumptions c15_reads_do_not_alter.
Print Assumptions c15_no_residue.
Print Assumptions c15_run_state.
