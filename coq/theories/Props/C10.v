(* Props/C10.v — Inference terminates and is non-destructive on every topology. *)
From NIR Require Import Model.Graph Proofs.InferProofs Proofs.IdemProofs Proofs.InferSimProofs Proofs.RenameProofs.

(* TERMINATION on every directed multigraph (cycles, self-loops, parallel edges, fan-in/out, unreachable
   components, any edge order): some fuel always suffices ... *)
Theorem c10_terminates : forall ch es,
  exists fuel, snd (run fuel es (init_state ch es)) <> Raised OutOfFuel.
Proof. exact infer_terminates. Qed.

(* ... in fact the quadratic bound the model evaluates with always suffices, so "out of fuel" can never
   masquerade as a result of infer_types (LIFO stack invariant) ... *)
Theorem c10_fuel_bound : forall ch es,
  snd (run (infer_fuel ch es) es (init_state ch es)) <> Raised OutOfFuel.
Proof. exact infer_fuel_suffices. Qed.

(* ... and more fuel never changes the result *)
Theorem c10_fuel_irrelevant : forall fuel es st, snd (run fuel es st) <> Raised OutOfFuel ->
  forall fuel', (fuel <= fuel')%nat -> run fuel' es st = run fuel es st.
Proof. exact run_fuel_mono. Qed.

(* NON-DESTRUCTIVE: one loop iteration keeps the target's kind; its fields stay exactly as they were
   (metadata and parameter arrays included) except that a Conv1d/Conv2d may get input_shape assigned;
   a nested graph is never modified *)
Theorem c10_step_frame : forall pre post post' ex, apply_edge pre post = (post', ex) ->
  node_kind post' = node_kind post /\
  (node_fields post' = node_fields post \/
   exists v, (node_kind post = KConv1d \/ node_kind post = KConv2d) /\
             node_fields post' = assoc_set "input_shape" v (node_fields post)) /\
  (is_graph post = true -> post' = post).
Proof. exact apply_edge_frame. Qed.

(* names and order of the children never change *)
Theorem c10_names : forall fuel es st, map fst (st_ch (fst (run fuel es st))) = map fst (st_ch st).
Proof. exact run_names. Qed.

(* for the whole run, every child: same kind; every field other than a Conv's input_shape unchanged *)
Theorem c10_frame : forall fuel es st k n, assoc k (st_ch st) = Some n ->
  exists n', assoc k (st_ch (fst (run fuel es st))) = Some n' /\
    node_kind n' = node_kind n /\
    (node_fields n' = node_fields n \/
     exists v, (node_kind n = KConv1d \/ node_kind n = KConv2d) /\
               node_fields n' = assoc_set "input_shape" v (node_fields n)) /\
    (forall f, f <> "input_shape" -> assoc f (node_fields n') = assoc f (node_fields n)) /\
    (node_kind n <> KConv1d -> node_kind n <> KConv2d -> node_fields n' = node_fields n) /\
    (map fst (node_fields n') = map fst (node_fields n) \/
     (assoc "input_shape" (node_fields n) = None /\
      map fst (node_fields n') = map fst (node_fields n) ++ ["input_shape"])) /\
    (is_graph n = true -> n' = n).
Proof. exact run_frame. Qed.

(* TOUCHES NO OTHER NODE: a child that is not reachable from an Input child along edges is left exactly as it was *)
Theorem c10_untouched : forall ch es gi go m g' oc k,
  infer_types (Graph ch es gi go m) = (g', oc) -> ~ reachable ch es k ->
  exists ch' gi' go', g' = Graph ch' es gi' go' m /\ assoc k ch' = assoc k ch.
Proof. exact infer_touches_only_reachable. Qed.

(* IDEMPOTENCE: running it a second time changes nothing.  Proved for every graph (cycles, inconsistent edges,
   fan-in with different shapes, undefined Conv/Pool/Flatten types, nested graphs among the children ...) in which no
   Output node is the source of an edge ... *)
Theorem c10_idempotent : forall ch es m g1,
  NoDup (map fst ch) ->
  (forall a b n, In (a, b) es -> assoc a ch = Some n -> is_output n = false) ->
  (forall k n, In (k, n) ch -> ty_nother (node_tout n)) ->
  infer_types (mk_graph ch es m) = (g1, Finished) -> infer_types g1 = (g1, Finished).
Proof. exact infer_idempotent_mk. Qed.

(* ... and, with Output nodes as sources allowed, for graphs whose types are in the canonical form the constructors
   and the loop itself write (single keys 'input'/'output', values None or ndarray).  The fully general statement is
   FALSE in the model: an Output node that has out-edges and whose stale input type is a tuple keeps the tuple
   CONTAINER in run 1 and gets the array container in run 2 (IdemProofs.counterexample_output_source) — the numbers
   are the same, so this is not a violation of the property on the code. *)
Theorem c10_idempotent_canonical : forall ch es m g1,
  NoDup (map fst ch) -> (forall k n, In (k, n) ch -> cnode n) ->
  infer_types (mk_graph ch es m) = (g1, Finished) -> infer_types g1 = (g1, Finished).
Proof. exact infer_idempotent_canonical_mk. Qed.

(* edge list, graph metadata, child names and order are unchanged by infer_types, also when it raises *)
Theorem c10_graph_frame : forall ch es gi go m g' oc, infer_types (Graph ch es gi go m) = (g', oc) ->
  exists ch' gi' go', g' = Graph ch' es gi' go' m /\ map fst ch' = map fst ch.
Proof. exact infer_types_frame. Qed.

(* non-vacuity: a two-node cycle with a self-loop and a parallel edge terminates within the bound *)
(* NODE NAMES ARE OPAQUE for inference too: inferring the renamed graph is renaming the inferred graph, with the same outcome,
   for every injective renaming of the children *)
Theorem c10_names_are_opaque : forall f g, injective f ->
  infer_types (rename_graph f g) = (rename_graph f (fst (infer_types g)), snd (infer_types g)).
Proof. exact infer_rename_graph. Qed.

Example c10_example :
  let i := Leaf KInput [] (Some [("input", TArr [2])]) (Some [("output", TArr [2])]) in
  let s := Leaf KScale [] (Some [("input", TArr [2])]) (Some [("output", TArr [2])]) in
  snd (infer_types (mk_graph [("i", i); ("s", s)] [("i", "s"); ("s", "s"); ("s", "i"); ("i", "s")] (VDict []))) = Finished.
Proof. vm_compute. reflexivity. Qed.

Print Assumptions c10_terminates.
Print Assumptions c10_fuel_bound.
Print Assumptions c10_fuel_irrelevant.
Print Assumptions c10_step_frame.
Print Assumptions c10_names.
Print Assumptions c10_frame.
Print Assumptions c10_untouched.
Print Assumptions c10_graph_frame.
Print Assumptions c10_idempotent.
Print Assumptions c10_idempotent_canonical.
Print Assumptions c10_names_are_opaque.
