(* Props/C14.v — Type inference commutes with serialisation. *)
From NIR Require Import Model.Serial Proofs.SerialProofs Proofs.InferProofs Proofs.LayoutProofs
                        Proofs.SimProofs Proofs.DictProofs Proofs.RoundTripProofs Proofs.InferSimProofs.

(* (a) what inference stores survives a file: the Conv1d annotation (a numpy integer) is a fixed point of the
   round trip; the Conv2d annotation (a tuple of numpy integers) comes back as the same integers *)
Theorem c14_annotations_survive_file :
  (forall n, norm_val (np_int n) = Ok (np_int n)) /\
  (forall a b v', norm_val (VTuple [np_int a; np_int b]) = Ok v' -> seq_view v' = Some [a; b]).
Proof. exact stored_annotation_survives_file. Qed.

(* (b) ANNOTATIONS ARE REGAINED WITHOUT INFERENCE: if inference typed a Conv whose annotation was erased, then
   constructing the Conv from the fields inference left behind yields the same input type and the SAME output type *)
Theorem c14_conv1d_regain : forall fs pre c n co k fs' tout,
  derive_output KConv1d fs pre [("input", TArr [c; n])] = (fs', Some tout, None) ->
  fld_shape "weight" fs = Ok [co; c; k] ->
  (forall f, In f (keys fs) -> In f (class_keys KConv1d)) ->
  assoc "groups" fs <> None -> assoc "bias" fs <> None ->
  exists fs3, construct KConv1d fs' = Ok (Leaf KConv1d fs3 (Some [("input", TArr [c; n])]) (Some tout)).
Proof. exact conv1d_regain. Qed.

Theorem c14_conv2d_regain : forall fs pre c n1 n2 co k1 k2 fs' tout,
  derive_output KConv2d fs pre [("input", TArr [c; n1; n2])] = (fs', Some tout, None) ->
  fld_shape "weight" fs = Ok [co; c; k1; k2] ->
  (forall f, In f (keys fs) -> In f (class_keys KConv2d)) ->
  assoc "groups" fs <> None -> assoc "bias" fs <> None ->
  fld "input_shape" fs' = Ok (VTuple [np_int n1; np_int n2]) /\
  exists fs3, construct KConv2d fs' = Ok (Leaf KConv2d fs3 (Some [("input", TArr [c; n1; n2])]) (Some tout)).
Proof. exact conv2d_regain. Qed.

(* ... also after the stored pair went through a file (it is then an int64 array) *)
Theorem c14_conv2d_regain_after_file : forall fs pre c n1 n2 co k1 k2 fs' tout fs2 v',
  derive_output KConv2d fs pre [("input", TArr [c; n1; n2])] = (fs', Some tout, None) ->
  fld_shape "weight" fs = Ok [co; c; k1; k2] ->
  norm_val (VTuple [np_int n1; np_int n2]) = Ok v' ->
  fld "input_shape" fs2 = Ok v' ->
  agree_on ["weight"; "stride"; "padding"; "dilation"] fs' fs2 ->
  exists fs3,
    post_init KConv2d fs2 = Ok (Leaf KConv2d fs3 (Some [("input", TArr [c; n1; n2])]) (Some tout)).
Proof. exact conv2d_regain_file. Qed.

(* (c) the constructors (hence everything inference later reads: types and hyper-parameters) only look at
   numeric views, which the round trip preserves: similar field lists give similar nodes with equal types *)
Theorem c14_constructors_respect_similarity : forall k fs fs',
  fields_sim fs fs' -> side k fs fs' -> res_sim (post_init k fs) (post_init k fs').
Proof. exact post_init_sim. Qed.

Theorem c14_round_trip_values_are_similar : forall v v',
  norm_val v = Ok v' -> roundtrip_exception v = false -> vsim v v'.
Proof. exact norm_val_vsim. Qed.

(* (d) the shape arithmetic inference uses is blind to the container of a hyper-parameter *)
Theorem c14_conv_arithmetic_respects_similarity : forall inp inp' pad pad' dil dil' ker ker' st st',
  hp_sim inp inp' -> hp_sim pad pad' -> hp_sim dil dil' -> hp_sim ker ker' -> hp_sim st st' ->
  conv_out inp pad dil ker st = conv_out inp' pad' dil' ker' st'.
Proof. exact hp_sim_conv_out. Qed.

(* (e) inference only ever assigns types and a Conv's input_shape *)
Theorem c14_inference_changes_only_annotations : forall fuel es st k n, assoc k (st_ch st) = Some n ->
  exists n', assoc k (st_ch (fst (run fuel es st))) = Some n' /\
    node_kind n' = node_kind n /\
    (forall f, f <> "input_shape" -> assoc f (node_fields n') = assoc f (node_fields n)).
Proof.
  intros fuel es st k n H. destruct (run_frame fuel es st k n H) as (n' & H1 & H2 & _ & H3 & _).
  exists n'. repeat split; assumption.
Qed.

(* (f) THE PROPERTY, FILE FORM: for every node built by the constructors that write accepts (domain of C01, plus: the
   hyper-parameters of pooling children are not 0-d arrays — shown necessary by InferSimProofs.pool_0d_needed),
   inferring types after the file round trip gives every node the same input and output types as inferring them on
   the original (`types_rel`: same child names in the same order, same kinds, types equal up to the tuple/array
   container, same edges), and infer_types raises on the one iff it raises on the other *)
Theorem c14_infer_commutes_with_file : forall g t g',
  built g -> rt_domain g -> write g = Ok t -> read t = Ok g' -> children_all pool_no0d g ->
  types_rel (fst (infer_types g)) (fst (infer_types g')) /\
  raised (snd (infer_types g)) = raised (snd (infer_types g')).
Proof. exact infer_commutes_with_file. Qed.

(* DICTIONARY FORM: the two inference runs are EQUAL *)
Theorem c14_infer_commutes_with_dict : forall g g',
  built g -> single_typed g -> from_dict (to_dict g) = Ok g' -> infer_types g' = infer_types g.
Proof. exact infer_commutes_with_dict_eq. Qed.

(* the core: inference cannot tell related graphs apart (lock-step simulation of the work-list) *)
Theorem c14_infer_respects_relation : forall g g', grel g g' ->
  grel (fst (infer_types g)) (fst (infer_types g')) /\
  raised (snd (infer_types g)) = raised (snd (infer_types g')).
Proof. exact infer_respects_grel. Qed.

(* and neither can the type check *)
Theorem c14_check_respects_relation : forall g g', types_rel g g' -> check_types g = check_types g'.
Proof. exact check_types_rel. Qed.

(* Compositions of round trips and inference (the property's "interleavings") follow by chaining (f) with C01/C13:
   each round trip yields a related graph again; the chained statement is checked on the code for all interleavings
   up to length 4. *)

Print Assumptions c14_annotations_survive_file.
Print Assumptions c14_conv1d_regain.
Print Assumptions c14_conv2d_regain.
Print Assumptions c14_conv2d_regain_after_file.
Print Assumptions c14_constructors_respect_similarity.
Print Assumptions c14_round_trip_values_are_similar.
Print Assumptions c14_conv_arithmetic_respects_similarity.
Print Assumptions c14_inference_changes_only_annotations.
Print Assumptions c14_infer_commutes_with_file.
Print Assumptions c14_infer_commutes_with_dict.
Print Assumptions c14_infer_respects_relation.
Print Assumptions c14_check_respects_relation.
