(* Props/C14.v — Type inference commutes with serialisation.  (interim: what inference stores survives a file
   unchanged in value; the regain theorems from Proofs/LayoutProofs.v / SimProofs.v are added when complete) *)
From NIR Require Import Model.Serial Proofs.SerialProofs Proofs.InferProofs.

(* the Conv1d annotation stored by inference (a numpy integer) is a fixed point of the file round trip *)
Theorem c14_conv1d_annotation_survives : forall n, norm_val (np_int n) = Ok (np_int n).
Proof. reflexivity. Qed.

(* the Conv2d annotation (a tuple of numpy integers) comes back as the same integers *)
Theorem c14_conv2d_annotation_survives : forall a b v',
  norm_val (VTuple [np_int a; np_int b]) = Ok v' -> seq_view v' = Some [a; b].
Proof.
  intros a b v' H. apply (norm_val_ints [np_int a; np_int b] [a; b] v'); [reflexivity|discriminate|left; exact H].
Qed.

(* inference only ever assigns types and a Conv's input_shape: every other field that reaches the file is
   what it was before inference *)
Theorem c14_inference_changes_only_annotations : forall fuel es st k n, assoc k (st_ch st) = Some n ->
  exists n', assoc k (st_ch (fst (run fuel es st))) = Some n' /\
    node_kind n' = node_kind n /\
    (forall f, f <> "input_shape" -> assoc f (node_fields n') = assoc f (node_fields n)).
Proof.
  intros fuel es st k n H. destruct (run_frame fuel es st k n H) as (n' & H1 & H2 & _ & H3 & _).
  exists n'. repeat split; assumption.
Qed.

Print Assumptions c14_conv1d_annotation_survives.
Print Assumptions c14_conv2d_annotation_survives.
Print Assumptions c14_inference_changes_only_annotations.
