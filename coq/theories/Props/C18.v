(* Props/C18.v — Deserialisation is closed-world and strict.
   The whitelist, its binding to classes and the per-class field tables are REGENERATED from the
   live package (Gen/Tables.v) on every run; the facts about them below are proved by computation,
   so adding a name to the whitelist, binding it to something that is not its own dataclass, or
   giving a field a default makes a Qed fail. *)
From NIR Require Import Model.Serial Proofs.MirrorClosedProofs.

(* the whitelist in the source is exactly the 18 serialisable primitives, each bound to its own class *)
Theorem c18_whitelist :
  Forall (fun p => fst p = snd p /\ kind_of_name (snd p) <> None) whitelist_binding /\
  map fst whitelist_binding = whitelist /\
  List.length whitelist = 18%nat /\
  NoDup whitelist.
Proof. exact whitelist_is_the_18_primitives. Qed.

Theorem c18_whitelist_exact : forall s, In s whitelist <-> exists k, kind_name k = s.
Proof. exact whitelist_exact. Qed.

(* CLOSED WORLD: whatever is constructed was named by a whitelisted type string and IS that primitive;
   nothing else bound in the library's or Python's namespaces can be reached through the string *)
Theorem c18_closed : forall d n, from_dict d = Ok n ->
  exists s, assoc "type" d = Some (VStr s) /\ In s whitelist /\ kind_name (node_kind n) = s.
Proof. exact from_dict_closed. Qed.

Theorem c18_unlisted_raises : forall fuel d s,
  assoc "type" d = Some (VStr s) -> ~ In s whitelist -> exists e, dict2node fuel d = Err e.
Proof. exact dict2node_rejects_unlisted. Qed.

Theorem c18_bytes_tag_raises : forall fuel d s,
  assoc "type" d = Some (VBytes s) -> exists e, dict2node fuel d = Err e.
Proof. exact dict2node_rejects_bytes_tag. Qed.

(* STRICT: an unknown extra key, or a missing mandatory field, raises (an Err carries no object) *)
Theorem c18_unknown_key_raises : forall k args fs f v,
  class_fields k = Some fs -> In (f, v) args -> ~ In f (keys fs) -> construct k args = Err TypeError.
Proof. exact construct_unknown_key. Qed.

Theorem c18_missing_mandatory_raises : forall k args fs f,
  class_fields k = Some fs -> In (f, FMandatory) fs -> assoc f args = None ->
  exists e, construct k args = Err e.
Proof. exact construct_missing_mandatory. Qed.

Theorem c18_tables_total : forall k, class_fields k <> None.
Proof. exact class_fields_total. Qed.

(* the mandatory fields of the regenerated table (a field that silently acquires a default changes this) *)
Example c18_mandatory_table :
  map (fun k => (kind_name k,
                 match class_fields k with
                 | Some fs => map fst (filter (fun p => match snd p with FMandatory => true | _ => false end) fs)
                 | None => [] end)) all_kinds =
  [("Input", ["input_type"]); ("Output", ["output_type"]); ("Affine", ["weight"; "bias"]);
   ("Linear", ["weight"]); ("Scale", ["scale"]);
   ("Conv1d", ["input_shape"; "weight"; "stride"; "padding"; "dilation"; "groups"; "bias"]);
   ("Conv2d", ["input_shape"; "weight"; "stride"; "padding"; "dilation"; "groups"; "bias"]);
   ("SumPool2d", ["kernel_size"; "stride"; "padding"]); ("AvgPool2d", ["kernel_size"; "stride"; "padding"]);
   ("Flatten", []); ("Delay", ["delay"]); ("Threshold", ["threshold"]); ("I", ["r"]);
   ("IF", ["r"; "v_threshold"]); ("LI", ["tau"; "r"; "v_leak"]); ("LIF", ["tau"; "r"; "v_leak"; "v_threshold"]);
   ("CubaLIF", ["tau_syn"; "tau_mem"; "r"; "v_leak"; "v_threshold"]); ("NIRGraph", ["nodes"; "edges"])].
Proof. vm_compute. reflexivity. Qed.

(* non-vacuity / negative controls *)
Example c18_example :
  forallb (fun s => negb (mem_str s whitelist))
          ["NIRNode"; "dict2NIRNode"; "str2NIRNode"; "read"; "write"; "typing"; "__builtins__";
           "eval"; "exec"; "open"; "__import__"; "Any"; "Dict"; "PackageNotFoundError"] = true.
Proof. exact non_primitives_not_whitelisted. Qed.

Print Assumptions c18_whitelist.
Print Assumptions c18_whitelist_exact.
Print Assumptions c18_closed.
Print Assumptions c18_unlisted_raises.
Print Assumptions c18_bytes_tag_raises.
Print Assumptions c18_unknown_key_raises.
Print Assumptions c18_missing_mandatory_raises.
Print Assumptions c18_tables_total.
