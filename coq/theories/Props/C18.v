(* Props/C18.v — placeholder, theorems added in a later commit *)
From NIR Require Import Model.Serial.
