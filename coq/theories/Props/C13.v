(* Props/C13.v — Dictionary form is a faithful, independent copy.  (interim: structural theorems; the
   round-trip theorem from Proofs/DictProofs.v is added when that library is complete) *)
From NIR Require Import Model.Serial Proofs.SerialProofs Proofs.MirrorClosedProofs.

(* the dictionary of a node contains every field under its own name, unchanged, plus 'type' *)
Theorem c13_fields_in_dict : forall k fs tin tout f v,
  In (f, v) fs -> In (f, v) (to_dict (Leaf k fs tin tout)).
Proof. exact to_dict_leaf_field. Qed.

Theorem c13_type_tag : forall n, In ("type", VStr (kind_name (node_kind n))) (to_dict n).
Proof. exact to_dict_type. Qed.

Theorem c13_children_in_dict : forall ch es gi go m name c,
  In (name, c) ch ->
  exists l, In ("nodes", VDict l) (to_dict (Graph ch es gi go m)) /\ In (name, VDict (to_dict c)) l.
Proof. exact to_dict_child. Qed.

Theorem c13_edges_in_dict : forall ch es gi go m,
  In ("edges", VList (map (fun e => VTuple [VStr (fst e); VStr (snd e)]) es)) (to_dict (Graph ch es gi go m)).
Proof. exact to_dict_edges. Qed.

(* whatever from_dict builds is the primitive its 'type' names *)
Theorem c13_from_dict_kind : forall d n, from_dict d = Ok n ->
  exists s, assoc "type" d = Some (VStr s) /\ In s whitelist /\ kind_name (node_kind n) = s.
Proof. exact from_dict_closed. Qed.

(* INDEPENDENCE: in the model, values are immutable and `to_dict` returns a value, so "shares no mutable
   state" cannot be expressed as a theorem here; it is established on the code by the alias matrix and
   the mutate-and-compare oracle of the harness (see DESIGN.md, C13). *)

Print Assumptions c13_fields_in_dict.
Print Assumptions c13_type_tag.
Print Assumptions c13_children_in_dict.
Print Assumptions c13_edges_in_dict.
Print Assumptions c13_from_dict_kind.
