(* Props/C13.v — Dictionary form is a faithful, independent copy. *)
From NIR Require Import Model.Serial Proofs.SerialProofs Proofs.MirrorClosedProofs Proofs.DictProofs.

(* `built n`: n was produced by the constructors (leaf: construct k args = Ok n; graph: mk_graph over built
   children with distinct names) — what evaluating a recipe yields. *)

(* FAITHFUL: from_dict (to_dict n) succeeds and returns the same node: same kind, the same field list (names,
   order AND values: identical Python/numpy value types), same types, same children in the same order, same
   edges, same metadata — for graphs of any depth; also with undefined (None) annotations *)
Theorem c13_round_trip : forall n, built n -> exists n', from_dict (to_dict n) = Ok n' /\ same_node n' n.
Proof. exact dict_round_trip. Qed.

(* plain equality whenever the serialised type dictionaries have the single entry the class serialises
   (the only thing the dictionary form drops is an extra, non-'input' entry of an Input/Flatten type
   dictionary given as a dict argument: extra_keys_lost) *)
Theorem c13_round_trip_eq : forall n, built n -> single_typed n -> from_dict (to_dict n) = Ok n.
Proof. exact dict_round_trip_eq. Qed.

Theorem c13_leaf_round_trip : forall k args k' fs tin tout,
  k <> KGraph -> construct k args = Ok (Leaf k' fs tin tout) ->
  from_dict (to_dict (Leaf k' fs tin tout)) = Ok (Leaf k' fs (canon_tin k' tin) (canon_tout k' tout)).
Proof. exact construct_round. Qed.

(* a second round trip is the identity *)
Theorem c13_round_trip_twice : forall n n1, built n -> from_dict (to_dict n) = Ok n1 ->
  from_dict (to_dict n1) = Ok n1.
Proof. exact dict_round_trip_twice. Qed.

(* PLAIN: the keys of the dictionary of a node are its documented fields (the dataclass fields of the regenerated
   table minus the two derived types), then 'type', then the class-specific entry; the values are the fields *)
Theorem c13_keys : forall k fs tin tout,
  map fst (to_dict (Leaf k fs tin tout)) =
  map fst fs ++ ["type"] ++ (match k with KInput | KOutput => ["shape"] | KFlatten => ["input_type"] | _ => [] end).
Proof. exact to_dict_keys_leaf. Qed.

Theorem c13_fields_are_documented : forall k args k' fs tin tout,
  construct k args = Ok (Leaf k' fs tin tout) -> map fst fs = filter not_type_key (class_keys k).
Proof. exact construct_keys. Qed.

Theorem c13_fields_in_dict : forall k fs tin tout f v,
  In (f, v) fs -> In (f, v) (to_dict (Leaf k fs tin tout)).
Proof. exact to_dict_leaf_field. Qed.

(* INDEPENDENCE: in the model values are immutable and `to_dict` returns a value, so "shares no mutable state"
   cannot be expressed as a theorem here; it is established on the code by the alias matrix and the
   mutate-and-compare oracle of the harness (DESIGN.md 11.2). *)

Print Assumptions c13_round_trip.
Print Assumptions c13_round_trip_eq.
Print Assumptions c13_leaf_round_trip.
Print Assumptions c13_round_trip_twice.
Print Assumptions c13_keys.
Print Assumptions c13_fields_are_documented.
Print Assumptions c13_fields_in_dict.
