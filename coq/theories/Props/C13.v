(* Props/C13.v — Dictionary form is a faithful, independent copy. *)
From NIR Require Import Model.Alias Proofs.AliasProofs.
From NIR Require Import Model.Serial Proofs.SerialProofs Proofs.MirrorClosedProofs Proofs.DictProofs.

(* `built n`: n was produced by the constructors (leaf: construct k args = Ok n; graph: mk_graph over built
   children with distinct names) — what evaluating a recipe yields. *)

(* FAITHFUL: from_dict (to_dict n) succeeds and returns the same node: same kind, the same field list (names,
   order AND values: identical Python/numpy value types), same types, same children in the same order, same
   edges, same metadata — for graphs of any depth; also with undefined (None) annotations *)
Theorem c13_round_trip : forall n, built n -> exists n', from_dict (to_dict n) = Ok n' /\ same_node n' n.
Proof. exact dict_round_trip. Qed.

(* plain equality whenever the serialised type dictionaries have the single entry the class serialises
   (the only thing the dictionary form drops is an extra, non-'input' entry of an Input/Flatten type
   dictionary given as a dict argument: extra_keys_lost) *)
Theorem c13_round_trip_eq : forall n, built n -> single_typed n -> from_dict (to_dict n) = Ok n.
Proof. exact dict_round_trip_eq. Qed.

Theorem c13_leaf_round_trip : forall k args k' fs tin tout,
  k <> KGraph -> construct k args = Ok (Leaf k' fs tin tout) ->
  from_dict (to_dict (Leaf k' fs tin tout)) = Ok (Leaf k' fs (canon_tin k' tin) (canon_tout k' tout)).
Proof. exact construct_round. Qed.

(* a second round trip is the identity *)
Theorem c13_round_trip_twice : forall n n1, built n -> from_dict (to_dict n) = Ok n1 ->
  from_dict (to_dict n1) = Ok n1.
Proof. exact dict_round_trip_twice. Qed.

(* PLAIN: the keys of the dictionary of a node are its documented fields (the dataclass fields of the regenerated
   table minus the two derived types), then 'type', then the class-specific entry; the values are the fields *)
Theorem c13_keys : forall k fs tin tout,
  map fst (to_dict (Leaf k fs tin tout)) =
  map fst fs ++ ["type"] ++ (match k with KInput | KOutput => ["shape"] | KFlatten => ["input_type"] | _ => [] end).
Proof. exact to_dict_keys_leaf. Qed.

Theorem c13_fields_are_documented : forall k args k' fs tin tout,
  construct k args = Ok (Leaf k' fs tin tout) -> map fst fs = filter not_type_key (class_keys k).
Proof. exact construct_keys. Qed.

Theorem c13_fields_in_dict : forall k fs tin tout f v,
  In (f, v) fs -> In (f, v) (to_dict (Leaf k fs tin tout)).
Proof. exact to_dict_leaf_field. Qed.

(* INDEPENDENCE.  Values of the main model are immutable, so "shares no mutable state" is stated on the object-identity
   model (Model/Alias.v): every mutable object (array object, array memory, list, dict, node) carries its identity,
   `to_dict g n` is dataclasses.asdict + the class-specific entries with `n` the allocator of fresh identities,
   `update p new o` is an in-place change of the object (for arrays: of the memory) with identity p, seen wherever
   it is referenced.  `below g n`: the graph was allocated before the call. *)

(* every identity in the dictionary is newly allocated, and no two positions of the dictionary share an object or memory *)
Theorem c13_dict_is_fresh : forall g n d n',
  Alias.to_dict g n = (d, n') -> n <= n' /\ fresh_in d n n' /\ NoDup (ids d).
Proof. exact to_dict_fresh. Qed.

Theorem c13_shares_nothing : forall g n d n',
  below g n -> Alias.to_dict g n = (d, n') -> forall i, In i (ids g) -> ~ In i (ids d).
Proof. exact to_dict_disjoint. Qed.

(* "changing either afterwards never changes the other", for every in-place change of every object of either side *)
Theorem c13_dict_unaffected_by_graph_mutation : forall g n d n' p new,
  below g n -> Alias.to_dict g n = (d, n') -> In p (ids g) -> update p new d = d.
Proof. exact dict_unaffected_by_graph_mutation. Qed.

Theorem c13_graph_unaffected_by_dict_mutation : forall g n d n' p new,
  below g n -> Alias.to_dict g n = (d, n') -> In p (ids d) -> update p new g = g.
Proof. exact graph_unaffected_by_dict_mutation. Qed.

(* two dictionaries taken from one graph are independent of each other as well *)
Theorem c13_two_dicts_independent : forall g n d1 n1 d2 n2,
  Alias.to_dict g n = (d1, n1) -> Alias.to_dict g n1 = (d2, n2) ->
  (forall p new, In p (ids d1) -> update p new d2 = d2) /\
  (forall p new, In p (ids d2) -> update p new d1 = d1).
Proof. exact two_dicts_independent. Qed.

(* the copy keeps the content of every array (tokens, in order) *)
Theorem c13_copy_keeps_content : forall o n, toks (fst (asdict_inner o n)) = toks o.
Proof. exact asdict_toks. Qed.

(* the hypothesis `below g n` is the one the correspondence runs with (n = max_id g + 1), and the sorted walk the
   correspondence compares is a permutation of `ids` *)
Theorem c13_allocator_above_graph : forall g, below g (max_id g + 1).
Proof. exact max_id_below. Qed.
Theorem c13_walk_is_ids : forall o, Permutation.Permutation (ids_sorted o) (ids o).
Proof. exact ids_sorted_perm. Qed.

(* non-vacuity: a graph WITH internal sharing (one array under two fields, a view of its memory, a list in metadata) *)
Example c13_alias_example : below ex_g 100 /\ (forall i, In i (ids ex_g) -> ~ In i (ids (fst (Alias.to_dict ex_g 100)))).
Proof. split; [exact ex_g_below | exact ex_disjoint]. Qed.

Print Assumptions c13_round_trip.
Print Assumptions c13_round_trip_eq.
Print Assumptions c13_leaf_round_trip.
Print Assumptions c13_round_trip_twice.
Print Assumptions c13_keys.
Print Assumptions c13_fields_are_documented.
Print Assumptions c13_fields_in_dict.
Print Assumptions c13_dict_is_fresh.
Print Assumptions c13_shares_nothing.
Print Assumptions c13_dict_unaffected_by_graph_mutation.
Print Assumptions c13_graph_unaffected_by_dict_mutation.
Print Assumptions c13_two_dicts_independent.
Print Assumptions c13_copy_keeps_content.
Print Assumptions c13_allocator_above_graph.
Print Assumptions c13_walk_is_ids.
