(* Props/C12.v — Graph-level interface always mirrors its Input and Output nodes. *)
From NIR Require Import Model.Serial Proofs.MirrorClosedProofs.

(* graph.inputs / graph.outputs are exactly the Input / Output children *)
Theorem c12_inputs : forall ch, inputs ch = filter (fun p => is_input (snd p)) ch.
Proof. exact inputs_are_input_children. Qed.
Theorem c12_outputs : forall ch, outputs ch = filter (fun p => is_output (snd p)) ch.
Proof. exact outputs_are_output_children. Qed.

(* the graph-level types map exactly those children's names to those children's CURRENT types *)
Theorem c12_input_type : forall ch,
  graph_tin ch = match inputs ch with [] => None
                 | l => Some (map (fun p => (fst p, node_tin (snd p))) l) end.
Proof. exact graph_tin_spec. Qed.
Theorem c12_output_type : forall ch,
  graph_tout ch = Some (map (fun p => (fst p, node_tout (snd p))) (outputs ch)).
Proof. exact graph_tout_spec. Qed.

(* after construction *)
Theorem c12_after_construction : forall ch es m, mirrors (mk_graph ch es m).
Proof. exact mk_graph_mirrors. Qed.

(* after infer_types — also when it raises part-way — at every nesting depth *)
Theorem c12_after_infer : forall g g' oc, infer_types g = (g', oc) -> mirrors_deep g -> mirrors_deep g'.
Proof. exact infer_types_mirrors_deep. Qed.

(* after from_list, from_dict and read *)
Theorem c12_after_from_list : forall ns g, Forall mirrors_deep ns -> from_list ns = Ok g -> mirrors_deep g.
Proof. exact from_list_mirrors_deep. Qed.
Theorem c12_after_from_dict : forall d g, from_dict d = Ok g -> mirrors_deep g.
Proof. exact from_dict_mirrors_deep'. Qed.
Theorem c12_after_read : forall t g, read t = Ok g -> mirrors_deep g.
Proof. exact read_mirrors_deep. Qed.

(* at every point of a graph's life: any sequence of {infer_types, to_dict+from_dict, write+read} *)
Theorem c12_invariant : forall ops g g', mirrors_deep g -> apply_ops ops g = Ok g' -> mirrors_deep g'.
Proof. exact ops_mirror. Qed.

(* non-vacuity: two Inputs (non-alphabetical names, different shapes) and an Output *)
Example c12_example :
  let i1 := Leaf KInput [] (Some [("input", TArr [5])]) (Some [("output", TArr [5])]) in
  let i2 := Leaf KInput [] (Some [("input", TArr [2; 3])]) (Some [("output", TArr [2; 3])]) in
  let o := Leaf KOutput [] (Some [("input", TArr [5])]) (Some [("output", TArr [5])]) in
  mirrors (mk_graph [("zeta", i1); ("alpha", i2); ("out", o)] [("zeta", "out")] (VDict [])) /\
  graph_tin [("zeta", i1); ("alpha", i2); ("out", o)] =
    Some [("zeta", Some [("input", TArr [5])]); ("alpha", Some [("input", TArr [2; 3])])].
Proof. split; [apply mk_graph_mirrors|reflexivity]. Qed.

Print Assumptions c12_inputs.
Print Assumptions c12_outputs.
Print Assumptions c12_input_type.
Print Assumptions c12_output_type.
Print Assumptions c12_after_construction.
Print Assumptions c12_after_infer.
Print Assumptions c12_after_from_list.
Print Assumptions c12_after_from_dict.
Print Assumptions c12_after_read.
Print Assumptions c12_invariant.
