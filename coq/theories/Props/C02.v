(* Props/C02.v — Tensor parameters survive serialisation bit-for-bit.
   PARTIAL BY NATURE: the theorems show that NIR's own code (to_dict, write_recursive, hdf2dict) never
   converts an ndarray — it reaches the reader's dictionary with identical dtype, shape and content
   token at every depth. That h5py/libhdf5 store and return those bytes unchanged (NaN payloads,
   signed zeros, strides ...) is store law A1, exercised by the correspondence run, not proved. *)
From NIR Require Import Model.Serial Proofs.SerialProofs.

(* what nir.read decodes is exactly from_dict of the normalised dictionary form *)
Theorem c02_read_sees_normalised_dict :
  forall g t, write g = Ok t ->
    exists d', norm_entries (to_dict g) = Ok d' /\ read t = from_dict d' /\ read_version t = Ok nir_version.
Proof. exact read_write_refines. Qed.

(* every array of rank >= 1 reachable in the dictionary form — any field of any node at any nesting
   depth, metadata included — is reachable, IDENTICAL, in the dictionary the reader rebuilds *)
Theorem c02_arrays_identical :
  forall d d' p dt sh tok i,
    norm_entries d = Ok d' -> reach d p (VArr dt sh tok i) -> sh <> [] -> reach d' p (VArr dt sh tok i).
Proof. exact arrays_survive_deep. Qed.

(* a zero-dimensional array comes back as the numpy scalar of the same dtype and content *)
Theorem c02_zero_dim :
  forall d d' p dt tok i,
    norm_entries d = Ok d' -> reach d p (VArr dt [] tok i) ->
    reach d' p (VNp dt tok (match i with Some [z] => Some z | _ => None end)).
Proof. exact arrays0_survive_deep. Qed.

(* and the dictionary form really contains every field of every child *)
Theorem c02_fields_are_in_the_dictionary :
  forall ch es gi go m name k fs tin tout f v,
    In (name, Leaf k fs tin tout) ch -> In (f, v) fs ->
    reach (to_dict (Graph ch es gi go m)) ["nodes"; name; f] v.
Proof. exact to_dict_reach_child_field. Qed.

(* non-vacuity: a Fortran-ordered complex weight inside a nested node *)
Example c02_example :
  reach (to_dict (Graph [("a", Leaf KLinear [("weight", VArr "complex64" [2; 3] 77 None); ("metadata", VDict [])]
                                    (Some [("input", TArr [3])]) (Some [("output", TArr [2])]))] [] None (Some []) (VDict [])))
        ["nodes"; "a"; "weight"] (VArr "complex64" [2; 3] 77 None).
Proof. apply to_dict_reach_child_field with (k := KLinear) (tin := Some [("input", TArr [3])]) (tout := Some [("output", TArr [2])])
         (fs := [("weight", VArr "complex64" [2; 3] 77 None); ("metadata", VDict [])]); cbn; auto. Qed.

Print Assumptions c02_read_sees_normalised_dict.
Print Assumptions c02_arrays_identical.
Print Assumptions c02_zero_dim.
Print Assumptions c02_fields_are_in_the_dictionary.
