(* Props/C05.v — Declared node types equal the shapes the primitive's mathematics implies. *)
From NIR Require Import Model.Graph Proofs.ShapesProofs Proofs.NodesProofs.

(* Affine / Linear: constructed iff the weight has rank >= 2, and then the declared types are
   single-entry dictionaries 'input' / 'output' holding ndarrays (TArr) related by the batched
   matrix-vector rule  W : b ++ [m; n]  maps  x : b ++ [n]  to  y : b ++ [m]. *)
Theorem c05_matvec :
  forall (k : kind) fs n,
    matvec k fs = Ok n <->
    exists w, fld_shape "weight" fs = Ok w /\ (2 <= length w)%nat /\
              exists x y, matvec_rel w x y /\
                          n = Leaf k (drop_types fs) (Some [("input", TArr x)]) (Some [("output", TArr y)]).
Proof. exact matvec_ok. Qed.

(* the rule determines both shapes uniquely *)
Theorem c05_matvec_functional :
  forall w x y x' y', matvec_rel w x y -> matvec_rel w x' y' -> x = x' /\ y = y'.
Proof. exact matvec_rel_fun. Qed.

(* Scale, Threshold, Delay, I, IF, LI, LIF (and CubaLIF's five parameters): both types are the
   common parameter shape, as ndarrays, under the single keys 'input' / 'output'. *)
Theorem c05_elementwise :
  forall (k : kind) fs names n,
    elementwise k fs names = Ok n <->
    exists sh rest, mapM (fun f => fld_shape f fs) names = Ok (sh :: rest)
                    /\ all_same (sh :: rest) = true
                    /\ n = Leaf k (drop_types fs) (Some [("input", TArr sh)]) (Some [("output", TArr sh)]).
Proof. exact elementwise_ok. Qed.

Theorem c05_all_same_means_equal :
  forall l, all_same l = true <-> (forall a b, In a l -> In b l -> a = b).
Proof. exact all_same_spec. Qed.

(* Input / Output: identity, for ndarray / list / tuple / dict arguments *)
Theorem c05_input :
  forall sh x tv, shape_arg sh x tv ->
    construct KInput [("input_type", x)] =
    Ok (Leaf KInput [("metadata", VDict [])] (Some [("input", TArr sh)]) (Some [("output", TArr sh)])).
Proof. exact input_construct. Qed.

Theorem c05_output :
  forall sh x tv, shape_arg sh x tv ->
    construct KOutput [("output_type", x)] =
    Ok (Leaf KOutput [("metadata", VDict [])] (Some [("input", TArr sh)]) (Some [("output", TArr sh)])).
Proof. exact output_construct. Qed.

Theorem c05_input_dict :
  forall sh dt tok n,
    construct KInput [("input_type", VDict [("input", VArr dt [n] tok (Some sh))])] =
    Ok (Leaf KInput [("metadata", VDict [])] (Some [("input", TArr sh)]) (Some [("output", TArr sh)])).
Proof. exact input_construct_dict. Qed.

Theorem c05_output_dict :
  forall sh dt tok n,
    construct KOutput [("output_type", VDict [("output", VArr dt [n] tok (Some sh))])] =
    Ok (Leaf KOutput [("metadata", VDict [])] (Some [("input", TArr sh)]) (Some [("output", TArr sh)])).
Proof. exact output_construct_dict. Qed.

(* non-vacuity: a rank-4 weight through the real constructor path of the model *)
Example c05_example :
  exists fs,
    construct KAffine [("weight", VArr "float32" [5; 7; 3; 2] 0 None); ("bias", VArr "float32" [3] 1 None)]
    = Ok (Leaf KAffine fs (Some [("input", TArr [5; 7; 2])]) (Some [("output", TArr [5; 7; 3])])).
Proof. eexists. vm_compute. reflexivity. Qed.

Print Assumptions c05_matvec.
Print Assumptions c05_matvec_functional.
Print Assumptions c05_elementwise.
Print Assumptions c05_all_same_means_equal.
Print Assumptions c05_input.
Print Assumptions c05_output.
Print Assumptions c05_input_dict.
Print Assumptions c05_output_dict.
