(* Base.v — shared vocabulary of the NIR model: results, Python slicing, list helpers.
   Executable definitions only (no proofs), so the model still evaluates when a proof breaks. *)
From Coq Require Export ZArith Bool String Ascii List.
Export ListNotations.
Open Scope string_scope.
Open Scope list_scope.
Open Scope Z_scope.

(* ---- outcomes: a Python call either returns a value or raises ------------------------- *)
(* The exception class is recorded for diagnostics; the correspondence compares only
   "returned v" against "raised" (exception classes and messages are not observables of any
   property). *)
Inductive exn := ValueError | KeyError | TypeError | AssertionError | NotImplementedErr
               | IndexError | AttributeError | OutOfFuel | OtherError.

Inductive result (A : Type) := Ok (a : A) | Err (e : exn).
Arguments Ok {A} a.
Arguments Err {A} e.

Definition bind {A B} (r : result A) (f : A -> result B) : result B :=
  match r with Ok a => f a | Err e => Err e end.
Notation "'do' x <- r ; k" := (bind r (fun x => k)) (at level 200, x name, r at level 100, k at level 200).
Notation "'do' ' p <- r ; k" := (bind r (fun x => let p := x in k)) (at level 200, p pattern, r at level 100, k at level 200).

Definition is_ok {A} (r : result A) : bool := match r with Ok _ => true | Err _ => false end.

Fixpoint mapM {A B} (f : A -> result B) (l : list A) : result (list B) :=
  match l with
  | [] => Ok []
  | x :: xs => do y <- f x; do ys <- mapM f xs; Ok (y :: ys)
  end.

(* ---- lists of integers ------------------------------------------------------------------ *)
Definition prodZ (l : list Z) : Z := fold_right Z.mul 1 l.
Definition lenZ {A} (l : list A) : Z := Z.of_nat (length l).

Fixpoint list_eqb {A} (eqb : A -> A -> bool) (a b : list A) : bool :=
  match a, b with
  | [], [] => true
  | x :: xs, y :: ys => eqb x y && list_eqb eqb xs ys
  | _, _ => false
  end.
Definition shape_eqb := list_eqb Z.eqb.

Definition option_eqb {A} (eqb : A -> A -> bool) (a b : option A) : bool :=
  match a, b with
  | None, None => true
  | Some x, Some y => eqb x y
  | _, _ => false
  end.

(* ---- Python indexing and slicing ---------------------------------------------------------- *)
(* l[i] : negative indices count from the end; out of range raises IndexError *)
Definition py_index {A} (l : list A) (i : Z) : result A :=
  let n := lenZ l in
  let j := if i <? 0 then i + n else i in
  if (j <? 0) || (n <=? j) then Err IndexError
  else match nth_error l (Z.to_nat j) with Some x => Ok x | None => Err IndexError end.

(* normalisation of one slice bound, CPython's PySlice_AdjustIndices for step 1 *)
Definition slice_bound (n : Z) (b : Z) : Z :=
  if b <? 0 then Z.max 0 (b + n) else Z.min b n.

(* l[lo:hi] with optional bounds, step 1 *)
Definition py_slice {A} (l : list A) (lo hi : option Z) : list A :=
  let n := lenZ l in
  let a := match lo with None => 0 | Some x => slice_bound n x end in
  let b := match hi with None => n | Some x => slice_bound n x end in
  if b <=? a then [] else firstn (Z.to_nat (b - a)) (skipn (Z.to_nat a) l).

(* ---- association lists (Python dicts keep insertion order) ----------------------------- *)
Fixpoint assoc {A} (k : string) (l : list (string * A)) : option A :=
  match l with
  | [] => None
  | (k', v) :: r => if String.eqb k k' then Some v else assoc k r
  end.

(* d[k] = v : replace in place when present, append otherwise (dict insertion order) *)
Fixpoint assoc_set {A} (k : string) (v : A) (l : list (string * A)) : list (string * A) :=
  match l with
  | [] => [(k, v)]
  | (k', v') :: r => if String.eqb k k' then (k, v) :: r else (k', v') :: assoc_set k v r
  end.

Fixpoint assoc_del {A} (k : string) (l : list (string * A)) : list (string * A) :=
  match l with
  | [] => []
  | (k', v') :: r => if String.eqb k k' then assoc_del k r else (k', v') :: assoc_del k r
  end.

Definition keys {A} (l : list (string * A)) : list string := map fst l.

Fixpoint mem_str (s : string) (l : list string) : bool :=
  match l with [] => false | x :: r => String.eqb s x || mem_str s r end.

(* dict(list_of_pairs): later duplicates overwrite earlier ones, first position kept *)
Definition dict_of {A} (l : list (string * A)) : list (string * A) :=
  fold_left (fun d kv => assoc_set (fst kv) (snd kv) d) l [].

(* bytes -> string, used by generated case files for non-ASCII names *)
Fixpoint string_of_bytes (l : list Z) : string :=
  match l with
  | [] => EmptyString
  | b :: r => String (ascii_of_nat (Z.to_nat b)) (string_of_bytes r)
  end.
